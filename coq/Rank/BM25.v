(* BM25 ranking over the searcher's statistics -- exact rationals (Q), no floats, no axioms.

   Transliterates (tantivy 0.26):
     src/query/bm25.rs          K1, B, idf, cached_tf_component, compute_tf_cache,
                                Bm25Weight::{for_terms, for_one_term, new, boost_by, score, tf_factor, max_score},
                                impl Bm25StatisticsProvider for Searcher
     src/core/searcher.rs       Searcher::doc_freq  (sum over the segment readers)
     src/fieldnorm/code.rs      id_to_fieldnorm / fieldnorm_to_id over FIELD_NORMS_TABLE
     src/query/term_query/{term_weight,term_scorer}.rs   TermWeight::scorer (boost_by), TermScorer::score
     src/query/phrase_query/phrase_weight.rs             PhraseWeight::phrase_scorer (sum of idfs via for_terms)
     src/query/boost_query.rs   BoostWeight::scorer      (boost * self.boost is passed DOWN)
     src/query/const_score_query.rs ConstWeight::scorer  (boost * self.score)
     src/query/score_combiner.rs    SumCombiner, DisjunctionMaxCombiner
     src/query/boolean_query/boolean_weight.rs  BooleanWeight::scorer / complex_scorer, at the level of one document
     src/query/disjunction_max_query.rs         BooleanWeight of Should clauses with the dis-max combiner

   `ln` is an external component: a Section variable with the contract (monotone, ln 1 = 0) as Section
   hypotheses.  K1, B, the field-norm table and the arguments of max_score come from Generated.Constants
   (regenerated from /repo on every run); every proof uses them only through K1_pos / B_range / table facts
   that are re-established by computation on the regenerated values. *)
From Coq Require Import QArith Qminmax Lqa Permutation.
From TV Require Import Base.Prelude Generated.Constants.
Local Open Scope Q_scope.

(* ------------------------------------------------------------------------------------------ *)
(** * Constants *)

Definition QofN (n : N) : Q := inject_Z (Z.of_N n).

Definition K1 : Q := QofN BM25_K1_num / QofN BM25_K1_den.
Definition B : Q := QofN BM25_B_num / QofN BM25_B_den.

Lemma K1_pos : 0 < K1.
Proof. vm_compute. reflexivity. Qed.
Lemma B_range : 0 <= B /\ B < 1.
Proof. split; vm_compute; [discriminate|reflexivity]. Qed.

Lemma QofN_nonneg n : 0 <= QofN n.
Proof. unfold QofN. change 0 with (inject_Z 0). rewrite <- Zle_Qle. lia. Qed.
Lemma QofN_le a b : (a <= b)%N -> QofN a <= QofN b.
Proof. intros H. unfold QofN. rewrite <- Zle_Qle. lia. Qed.
Lemma QofN_lt a b : (a < b)%N -> QofN a < QofN b.
Proof. intros H. unfold QofN. rewrite <- Zlt_Qlt. lia. Qed.
Lemma QofN_pos a : (0 < a)%N -> 0 < QofN a.
Proof. intros H. change 0 with (QofN 0). now apply QofN_lt. Qed.
Lemma QofN_add a b : QofN (a + b) == QofN a + QofN b.
Proof. unfold QofN. rewrite N2Z.inj_add, inject_Z_plus. reflexivity. Qed.

(* ------------------------------------------------------------------------------------------ *)
(** * Field norms (src/fieldnorm/code.rs) *)

Definition TABLE : list N := BM25_FIELD_NORMS_TABLE.

Definition id_to_fieldnorm (id : N) : N := nth (N.to_nat id) TABLE 0%N.

(* number of leading table entries <= n; the table is increasing, so this is binary_search's
   `Ok(idx) => idx | Err(idx) => idx - 1` plus one *)
Fixpoint count_le (tbl : list N) (n : N) : nat :=
  match tbl with
  | [] => O
  | x :: r => if (x <=? n)%N then S (count_le r n) else O
  end.
Definition fieldnorm_to_id (n : N) : N := (N.of_nat (count_le TABLE n) - 1)%N.

Fixpoint increasing (l : list N) : bool :=
  match l with
  | x :: ((y :: _) as r) => (x <? y)%N && increasing r
  | _ => true
  end.

Lemma table_increasing : increasing TABLE = true.
Proof. vm_compute. reflexivity. Qed.
Lemma table_length : length TABLE = N.to_nat BM25_TF_CACHE_LEN.
Proof. vm_compute. reflexivity. Qed.
Lemma table_head : nth 0 TABLE 1%N = 0%N.
Proof. vm_compute. reflexivity. Qed.
Lemma max_score_args : id_to_fieldnorm BM25_MAX_SCORE_FIELDNORM_ID = BM25_MAX_SCORE_TF
                       /\ (BM25_MAX_SCORE_FIELDNORM_ID + 1 = BM25_TF_CACHE_LEN)%N.
Proof. vm_compute. split; reflexivity. Qed.

Lemma increasing_nth_le l : increasing l = true ->
  forall i j, (i <= j)%nat -> (j < length l)%nat -> (nth i l 0 <= nth j l 0)%N.
Proof.
  induction l as [|x l IH]; intros Hs i j Hij Hj; [cbn in Hj; lia|].
  destruct l as [|y l'].
  - cbn in Hj. assert (j = 0%nat) by lia. subst. assert (i = 0%nat) by lia. subst. lia.
  - cbn [increasing] in Hs. apply andb_true_iff in Hs as [Hxy Hs]. apply N.ltb_lt in Hxy.
    destruct j as [|j]; [assert (i = 0%nat) by lia; subst; lia|].
    destruct i as [|i].
    + cbn [nth]. cbn [length] in Hj.
      specialize (IH Hs 0%nat j ltac:(lia) ltac:(cbn [length]; lia)). cbn [nth] in IH. cbn [nth]. lia.
    + cbn [nth]. apply IH; [exact Hs|lia|cbn [length] in *; lia].
Qed.

Lemma id_to_fieldnorm_mono i j : (i <= j)%N -> (j < BM25_TF_CACHE_LEN)%N ->
  (id_to_fieldnorm i <= id_to_fieldnorm j)%N.
Proof.
  intros Hij Hj. unfold id_to_fieldnorm. apply increasing_nth_le; [exact table_increasing|lia|].
  rewrite table_length. lia.
Qed.

Lemma count_le_prefix tbl n i : (i < count_le tbl n)%nat -> (nth i tbl 0 <= n)%N.
Proof.
  revert i; induction tbl as [|x r IH]; intros i Hi; cbn [count_le] in Hi; [lia|].
  destruct (x <=? n)%N eqn:E; [|lia]. apply N.leb_le in E.
  destruct i as [|i]; cbn [nth]; [exact E|apply IH; lia].
Qed.

(* quantisation rounds the field length DOWN *)
Lemma fieldnorm_rounds_down n : (id_to_fieldnorm (fieldnorm_to_id n) <= n)%N.
Proof.
  unfold id_to_fieldnorm, fieldnorm_to_id.
  destruct (count_le TABLE n) as [|c] eqn:E.
  - (* impossible: TABLE starts with 0 *)
    pose proof table_head as Hh. unfold TABLE in *.
    destruct BM25_FIELD_NORMS_TABLE as [|x r]; [cbn in Hh; discriminate|].
    cbn [nth] in Hh. subst x. cbn [count_le] in E. destruct (0 <=? n)%N eqn:E0; [discriminate|].
    apply N.leb_gt in E0. lia.
  - apply count_le_prefix. rewrite E. lia.
Qed.

(* ------------------------------------------------------------------------------------------ *)
(** * Corpus, segments, searcher statistics *)

Definition term := N.
Definition doc := list term.            (* the tokens of the scored field, in order *)

Definition tf (t : term) (d : doc) : N := N.of_nat (count_occ N.eq_dec d t).
Definition doc_len (d : doc) : N := N.of_nat (length d).
Definition has_term (t : term) (d : doc) : bool := (0 <? tf t d)%N.
Definition fieldnorm_id (d : doc) : N := fieldnorm_to_id (doc_len d).

Fixpoint prefix_eqb (p l : list N) : bool :=
  match p, l with
  | [], _ => true
  | x :: p', y :: l' => N.eqb x y && prefix_eqb p' l'
  | _ :: _, [] => false
  end.
(* number of positions at which the phrase occurs (slop 0) *)
Fixpoint phrase_count (p : list term) (d : doc) : N :=
  match d with
  | [] => 0%N
  | _ :: r => ((if prefix_eqb p d then 1 else 0) + phrase_count p r)%N
  end.

(* a segment: its documents in doc-id order, each with its alive bit *)
Definition segment := list (doc * bool).
Definition searcher := list segment.

Definition sumN (l : list N) : N := fold_right N.add 0%N l.

Definition seg_max_doc (s : segment) : N := N.of_nat (length s).
Definition seg_doc_freq (t : term) (s : segment) : N :=
  N.of_nat (length (filter (fun x => has_term t (fst x)) s)).             (* deleted docs included *)
Definition seg_total_num_tokens (s : segment) : N := sumN (map (fun x => doc_len (fst x)) s).

(* impl Bm25StatisticsProvider for Searcher; Searcher::doc_freq *)
Definition total_num_docs (sr : searcher) : N := sumN (map seg_max_doc sr).
Definition total_num_tokens (sr : searcher) : N := sumN (map seg_total_num_tokens sr).
Definition doc_freq (sr : searcher) (t : term) : N := sumN (map (seg_doc_freq t) sr).

Record stats := { st_N : N; st_T : N; st_df : term -> N }.
Definition stats_of (sr : searcher) : stats :=
  {| st_N := total_num_docs sr; st_T := total_num_tokens sr; st_df := doc_freq sr |}.
Definition stats_eq (a b : stats) : Prop :=
  st_N a = st_N b /\ st_T a = st_T b /\ forall t, st_df a t = st_df b t.

Lemma sumN_app a b : sumN (a ++ b) = (sumN a + sumN b)%N.
Proof. induction a as [|x a IH]; cbn [app sumN fold_right]; [reflexivity|]. fold (sumN (a ++ b)). fold (sumN a). lia. Qed.

Lemma sumN_perm a b : Permutation a b -> sumN a = sumN b.
Proof.
  induction 1 as [|x a b _ IH|x y a|a b c _ IH1 _ IH2]; cbn [sumN fold_right]; try reflexivity.
  - fold (sumN a). fold (sumN b). lia.
  - fold (sumN a). lia.
  - congruence.
Qed.

Lemma total_num_docs_concat sr : total_num_docs sr = N.of_nat (length (concat sr)).
Proof.
  unfold total_num_docs. induction sr as [|s sr IH]; [reflexivity|].
  cbn [map sumN fold_right concat]. fold (sumN (map seg_max_doc sr)). rewrite IH, app_length.
  unfold seg_max_doc. lia.
Qed.

Lemma total_num_tokens_concat sr : total_num_tokens sr = seg_total_num_tokens (concat sr).
Proof.
  unfold total_num_tokens. induction sr as [|s sr IH]; [reflexivity|].
  cbn [map sumN fold_right concat]. fold (sumN (map seg_total_num_tokens sr)). rewrite IH.
  unfold seg_total_num_tokens. now rewrite map_app, sumN_app.
Qed.

Lemma doc_freq_concat sr t : doc_freq sr t = seg_doc_freq t (concat sr).
Proof.
  unfold doc_freq. induction sr as [|s sr IH]; [reflexivity|].
  cbn [map sumN fold_right concat]. fold (sumN (map (seg_doc_freq t) sr)). rewrite IH.
  unfold seg_doc_freq. rewrite filter_app, app_length. lia.
Qed.

Lemma filter_perm {A} (f : A -> bool) a b : Permutation a b -> Permutation (filter f a) (filter f b).
Proof.
  induction 1 as [|x a b _ IH|x y a|a b c _ IH1 _ IH2]; cbn [filter].
  - constructor.
  - destruct (f x); [now constructor|exact IH].
  - destruct (f x), (f y); try apply Permutation_refl. apply perm_swap.
  - eapply Permutation_trans; eassumption.
Qed.

(* The three statistics depend only on the multiset of physical documents, not on how they are
   grouped into segments nor on their order. *)
Theorem stats_partition_invariant (s1 s2 : searcher) :
  Permutation (concat s1) (concat s2) -> stats_eq (stats_of s1) (stats_of s2).
Proof.
  intros HP. unfold stats_eq, stats_of; cbn [st_N st_T st_df]. repeat split.
  - rewrite !total_num_docs_concat. now rewrite (Permutation_length HP).
  - rewrite !total_num_tokens_concat. unfold seg_total_num_tokens.
    apply sumN_perm. now apply Permutation_map.
  - intros t. rewrite !doc_freq_concat. unfold seg_doc_freq.
    now rewrite (Permutation_length (filter_perm _ _ _ HP)).
Qed.

Lemma filter_length_le' {A} (f : A -> bool) l : (length (filter f l) <= length l)%nat.
Proof. induction l as [|x l IH]; cbn [filter length]; [lia|]. destruct (f x); cbn [length]; lia. Qed.

Lemma seg_doc_freq_le t s : (seg_doc_freq t s <= seg_max_doc s)%N.
Proof. unfold seg_doc_freq, seg_max_doc. pose proof (filter_length_le' (fun x => has_term t (fst x)) s). lia. Qed.

(* the assert!(doc_count >= doc_freq) of idf() never fires on a searcher *)
Lemma doc_freq_le_total sr t : (doc_freq sr t <= total_num_docs sr)%N.
Proof.
  unfold doc_freq, total_num_docs. induction sr as [|s sr IH]; cbn [map sumN fold_right]; [lia|].
  fold (sumN (map (seg_doc_freq t) sr)). fold (sumN (map seg_max_doc sr)).
  pose proof (seg_doc_freq_le t s). lia.
Qed.

Definition no_deletes (sr : searcher) : Prop := forall s x, In s sr -> In x s -> snd x = true.
Definition alive_docs (sr : searcher) : list doc := map fst (filter snd (concat sr)).

(* ------------------------------------------------------------------------------------------ *)
(** * The tf component (no ln involved) *)

Definition cached_tf_component (fieldnorm : N) (avg : Q) : Q :=
  K1 * (1 - B + B * QofN fieldnorm / avg).
Definition compute_tf_cache (avg : Q) : list Q :=
  map (fun fieldnorm => cached_tf_component fieldnorm avg) TABLE.
Definition tf_factor (avg : Q) (id : N) (term_freq : N) : Q :=
  let f := QofN term_freq in
  let norm := nth (N.to_nat id) (compute_tf_cache avg) 0 in
  f / (f + norm).

Lemma cache_nth avg id : (id < BM25_TF_CACHE_LEN)%N ->
  nth (N.to_nat id) (compute_tf_cache avg) 0 = cached_tf_component (id_to_fieldnorm id) avg.
Proof.
  intros H. unfold compute_tf_cache, id_to_fieldnorm.
  rewrite (nth_indep _ 0 (cached_tf_component 0%N avg)).
  - apply (map_nth (fun fieldnorm => cached_tf_component fieldnorm avg)).
  - rewrite map_length, table_length. lia.
Qed.

Lemma Qdiv_nonneg a b : 0 <= a -> 0 <= b -> 0 <= a / b.
Proof.
  intros Ha Hb. destruct (Qeq_dec b 0) as [E|E].
  - unfold Qdiv. rewrite E. setoid_replace (/ 0) with 0 by reflexivity. lra.
  - apply Qle_shift_div_l; lra.
Qed.

Lemma Qdiv_le_num a b c : 0 <= c -> a <= b -> a / c <= b / c.
Proof.
  intros Hc Hab. destruct (Qeq_dec c 0) as [E|E].
  - unfold Qdiv. rewrite E. setoid_replace (/ 0) with 0 by reflexivity. lra.
  - unfold Qdiv. apply Qmult_le_compat_r; [exact Hab|]. apply Qlt_le_weak, Qinv_lt_0_compat. lra.
Qed.

Lemma norm_pos fieldnorm avg : 0 <= avg -> 0 < cached_tf_component fieldnorm avg.
Proof.
  intros Havg. unfold cached_tf_component. pose proof K1_pos. destruct B_range as [HB0 HB1].
  assert (0 <= B * QofN fieldnorm / avg).
  { apply Qdiv_nonneg; [|exact Havg]. pose proof (QofN_nonneg fieldnorm). nra. }
  nra.
Qed.

Lemma norm_mono f1 f2 avg : 0 <= avg -> (f1 <= f2)%N ->
  cached_tf_component f1 avg <= cached_tf_component f2 avg.
Proof.
  intros Havg Hf. unfold cached_tf_component. pose proof K1_pos. destruct B_range as [HB0 HB1].
  assert (B * QofN f1 / avg <= B * QofN f2 / avg).
  { apply Qdiv_le_num; [exact Havg|]. pose proof (QofN_le _ _ Hf). nra. }
  nra.
Qed.

Lemma frac_le a b c e : 0 <= a -> a <= b -> 0 < e -> e <= c -> a / (a + c) <= b / (b + e).
Proof.
  intros Ha Hab He Hec. apply Qle_shift_div_r; [lra|].
  assert (E : b / (b + e) * (a + c) == (b * (a + c)) / (b + e)) by (field; lra). rewrite E.
  apply Qle_shift_div_l; [lra|]. nra.
Qed.

Section TfFactor.
  Variable avg : Q.
  Hypothesis avg_nonneg : 0 <= avg.

  Lemma tf_factor_eq id f : (id < BM25_TF_CACHE_LEN)%N ->
    tf_factor avg id f = QofN f / (QofN f + cached_tf_component (id_to_fieldnorm id) avg).
  Proof. intros H. unfold tf_factor. cbv zeta. now rewrite cache_nth. Qed.

  Lemma tf_factor_increasing_in_tf id f1 f2 : (id < BM25_TF_CACHE_LEN)%N -> (f1 <= f2)%N ->
    tf_factor avg id f1 <= tf_factor avg id f2.
  Proof.
    intros Hid Hf. rewrite !tf_factor_eq by exact Hid.
    pose proof (norm_pos (id_to_fieldnorm id) avg avg_nonneg).
    apply frac_le; [apply QofN_nonneg|now apply QofN_le|assumption|lra].
  Qed.

  Lemma tf_factor_decreasing_in_id id1 id2 f : (id1 <= id2)%N -> (id2 < BM25_TF_CACHE_LEN)%N ->
    tf_factor avg id2 f <= tf_factor avg id1 f.
  Proof.
    intros H12 H2. rewrite !tf_factor_eq by lia.
    pose proof (norm_pos (id_to_fieldnorm id1) avg avg_nonneg).
    apply frac_le; [apply QofN_nonneg|lra|assumption|].
    apply norm_mono; [exact avg_nonneg|]. now apply id_to_fieldnorm_mono.
  Qed.

  Lemma tf_factor_bounds id f : (id < BM25_TF_CACHE_LEN)%N -> 0 <= tf_factor avg id f /\ tf_factor avg id f < 1.
  Proof.
    intros Hid. rewrite tf_factor_eq by exact Hid.
    pose proof (norm_pos (id_to_fieldnorm id) avg avg_nonneg). pose proof (QofN_nonneg f). split.
    - apply Qle_shift_div_l; lra.
    - apply Qlt_shift_div_r; lra.
  Qed.

  (* What Bm25Weight::max_score really dominates: the documents whose term frequency does not exceed
     their DECODED (rounded-down) field length. *)
  Lemma tf_factor_max_score_bound id f : (id < BM25_TF_CACHE_LEN)%N -> (f <= id_to_fieldnorm id)%N ->
    tf_factor avg id f <= tf_factor avg BM25_MAX_SCORE_FIELDNORM_ID BM25_MAX_SCORE_TF.
  Proof.
    intros Hid Hf. destruct max_score_args as [Hmax Hmid].
    rewrite !tf_factor_eq by lia. rewrite Hmax.
    set (D := BM25_MAX_SCORE_TF) in *. set (dl := id_to_fieldnorm id) in *.
    assert (Hdl : (dl <= D)%N).
    { subst dl D. rewrite <- Hmax. apply id_to_fieldnorm_mono; lia. }
    unfold cached_tf_component. pose proof K1_pos as HK. destruct B_range as [HB0 HB1].
    pose proof (QofN_nonneg f) as Hf0. pose proof (QofN_le _ _ Hf) as Hfd. pose proof (QofN_le _ _ Hdl) as HdD.
    fold dl in Hfd.
    (* k := K1*B/avg  (0 when avg = 0, as Q division by zero) *)
    set (k := K1 * B / avg).
    assert (Hk : 0 <= k) by (apply Qdiv_nonneg; [nra|exact avg_nonneg]).
    assert (E1 : K1 * (1 - B + B * QofN dl / avg) == K1 * (1 - B) + k * QofN dl).
    { subst k. unfold Qdiv. ring. }
    assert (E2 : K1 * (1 - B + B * QofN D / avg) == K1 * (1 - B) + k * QofN D).
    { subst k. unfold Qdiv. ring. }
    rewrite E1, E2. set (c := K1 * (1 - B)). assert (Hc : 0 < c) by (subst c; nra).
    set (x := QofN f) in *. set (y := QofN dl) in *. set (z := QofN D) in *.
    apply Qle_shift_div_r; [nra|].
    assert (E : z / (z + (c + k * z)) * (x + (c + k * y)) == (z * (x + (c + k * y))) / (z + (c + k * z))) by (field; nra).
    rewrite E. apply Qle_shift_div_l; [nra|].
    (* x*(z + c + k z) <= z*(x + c + k y)  <=  x c <= z c  and  k x z <= k z y *)
    assert (x * c <= z * c) by nra.
    assert (Hxz : x * z <= z * y) by nra.
    assert (k * (x * z) <= k * (z * y)).
    { rewrite !(Qmult_comm k). apply Qmult_le_compat_r; assumption. }
    nra.
  Qed.
End TfFactor.

(* ------------------------------------------------------------------------------------------ *)
(** * Queries *)

Inductive occur := Must | Should | MustNot.

Inductive query :=
| QTerm (t : term)                              (* TermQuery, IndexRecordOption::WithFreqs *)
| QPhrase (ts : list term)                      (* PhraseQuery, slop 0, >= 2 terms *)
| QBoost (q : query) (b : Q)                    (* BoostQuery *)
| QConst (q : query) (s : Q)                    (* ConstScoreQuery *)
| QBool (msm : nat) (cs : list (occur * query)) (* BooleanQuery with minimum_number_should_match *)
| QDisMax (qs : list query) (tie : Q).          (* DisjunctionMaxQuery *)

Section QueryInd.
  Variable P : query -> Prop.
  Hypothesis Ht : forall t, P (QTerm t).
  Hypothesis Hp : forall ts, P (QPhrase ts).
  Hypothesis Hb : forall q b, P q -> P (QBoost q b).
  Hypothesis Hc : forall q s, P q -> P (QConst q s).
  Hypothesis Hbool : forall msm cs, Forall (fun oc => P (snd oc)) cs -> P (QBool msm cs).
  Hypothesis Hdm : forall qs tie, Forall P qs -> P (QDisMax qs tie).
  Fixpoint query_ind' (q : query) : P q :=
    match q with
    | QTerm t => Ht t
    | QPhrase ts => Hp ts
    | QBoost q b => Hb q b (query_ind' q)
    | QConst q s => Hc q s (query_ind' q)
    | QBool msm cs =>
        Hbool msm cs ((fix go (l : list (occur * query)) : Forall (fun oc => P (snd oc)) l :=
                         match l with
                         | [] => Forall_nil _
                         | oc :: r => Forall_cons oc (match oc as oc0 return P (snd oc0) with (o, c) => query_ind' c end) (go r)
                         end) cs)
    | QDisMax qs tie =>
        Hdm qs tie ((fix go (l : list query) : Forall P l :=
                       match l with
                       | [] => Forall_nil _
                       | x :: r => Forall_cons x (query_ind' x) (go r)
                       end) qs)
    end.
End QueryInd.

(* boosts are non-negative (a negative boost flips the max of a dis-max node) *)
Fixpoint wfq (q : query) : Prop :=
  match q with
  | QTerm _ | QPhrase _ => True
  | QBoost q b => 0 <= b /\ wfq q
  | QConst q _ => wfq q
  | QBool _ cs => (fix go (l : list (occur * query)) : Prop := match l with [] => True | oc :: r => wfq (snd oc) /\ go r end) cs
  | QDisMax qs _ => (fix go (l : list query) : Prop := match l with [] => True | x :: r => wfq x /\ go r end) qs
  end.

Lemma wfq_bool msm cs : wfq (QBool msm cs) <-> Forall (fun oc => wfq (snd oc)) cs.
Proof.
  cbn [wfq]. induction cs as [|oc cs IH]; [split; [constructor|trivial]|].
  split.
  - intros [H1 H2]. constructor; [exact H1|now apply IH].
  - intros H. inversion H as [|? ? H1 H2]; subst. split; [exact H1|now apply IH].
Qed.
Lemma wfq_dismax qs tie : wfq (QDisMax qs tie) <-> Forall wfq qs.
Proof.
  cbn [wfq]. induction qs as [|x qs IH]; [split; [constructor|trivial]|].
  split.
  - intros [H1 H2]. constructor; [exact H1|now apply IH].
  - intros H. inversion H as [|? ? H1 H2]; subst. split; [exact H1|now apply IH].
Qed.

(* ------------------------------------------------------------------------------------------ *)
(** * Score combiners and the boolean scorer at one document *)

Definition sum_combiner (xs : list Q) : Q := fold_left Qplus xs 0.          (* SumCombiner *)
Definition dismax_step (ms : Q * Q) (x : Q) : Q * Q := (Qmax x (fst ms), snd ms + x).
Definition dismax_combiner (tie : Q) (xs : list Q) : Q :=                   (* DisjunctionMaxCombiner *)
  let ms := fold_left dismax_step xs (0, 0) in
  fst ms + (snd ms - fst ms) * tie.

Definition must_missing {A} (x : occur * option A) : bool := match x with (Must, None) => true | _ => false end.
Definition not_hit {A} (x : occur * option A) : bool := match x with (MustNot, Some _) => true | _ => false end.
Definition should_hit {A} (x : occur * option A) : bool := match x with (Should, Some _) => true | _ => false end.
Definition is_must {A} (x : occur * option A) : bool := match fst x with Must => true | _ => false end.
Definition included {A} (rs : list (occur * option A)) : list A :=
  flat_map (fun x => match x with (MustNot, _) => [] | (_, Some v) => [v] | (_, None) => [] end) rs.

(* BooleanWeight::scorer followed by seek(doc)/score(), given each clause's own result at the doc
   (None = the clause's scorer is not on the doc).  Polymorphic in the score type: instantiated with Q
   here and with binary32 in BM25Float.v. *)
Definition bool_score {A} (comb : list A -> A) (msm : nat) (rs : list (occur * option A)) : option A :=
  match rs with
  | [] => None                                                  (* weights.is_empty() -> EmptyScorer *)
  | [(o, r)] => match o with MustNot => None | _ => r end       (* weights.len() == 1: the sub-scorer itself *)
  | _ =>
      if existsb must_missing rs then None
      else if existsb not_hit rs then None
      else
        let k := length (filter should_hit rs) in
        if (msm <=? k)%nat && (existsb is_must rs || (0 <? k)%nat)
        then Some (comb (included rs))
        else None
  end.

(* lifting a relation on scores to optional scores *)
Definition orel (R : Q -> Q -> Prop) (a b : option Q) : Prop :=
  match a, b with
  | Some x, Some y => R x y
  | None, None => True
  | _, _ => False
  end.
Definition crel (R : Q -> Q -> Prop) (x y : occur * option Q) : Prop := fst x = fst y /\ orel R (snd x) (snd y).

Lemma crel_shape R f rs rs' :
  (forall x y, crel R x y -> f x = f y) -> Forall2 (crel R) rs rs' -> existsb f rs = existsb f rs' /\ length (filter f rs) = length (filter f rs').
Proof.
  intros Hf. induction 1 as [|x y rs rs' Hxy _ [IH1 IH2]]; [split; reflexivity|].
  cbn [existsb filter]. rewrite (Hf _ _ Hxy), IH1. split; [reflexivity|].
  destruct (f y); cbn [length]; congruence.
Qed.

Ltac crel_cases := intros [o [x|]] [o' [y|]] [Ho Hr]; cbn in Ho, Hr; subst; try contradiction; try reflexivity; destruct o'; reflexivity.

Lemma included_rel R rs rs' : Forall2 (crel R) rs rs' -> Forall2 R (included rs) (included rs').
Proof.
  induction 1 as [|[o r] [o' r'] rs rs' [Ho Hr] _ IH]; [constructor|].
  cbn in Ho, Hr. subst o'. unfold included in *. cbn [flat_map].
  destruct o, r as [x|], r' as [y|]; cbn in Hr; try contradiction; cbn [app]; try exact IH; constructor; assumption.
Qed.

Lemma bool_score_rel R comb comb' msm rs rs' :
  (forall xs xs', Forall2 R xs xs' -> R (comb xs) (comb' xs')) ->
  Forall2 (crel R) rs rs' -> orel R (bool_score comb msm rs) (bool_score comb' msm rs').
Proof.
  intros Hcomb H.
  pose proof (crel_shape R must_missing rs rs' ltac:(crel_cases) H) as [E1 _].
  pose proof (crel_shape R not_hit rs rs' ltac:(crel_cases) H) as [E2 _].
  pose proof (crel_shape R should_hit rs rs' ltac:(crel_cases) H) as [_ E3].
  pose proof (crel_shape R is_must rs rs' ltac:(intros [o r] [o' r'] [Ho _]; cbn in Ho; subst; reflexivity) H) as [E4 _].
  pose proof (included_rel R rs rs' H) as E5.
  destruct H as [|[o r] [o' r'] rs rs' [Ho Hr] H]; [exact I|]. cbn in Ho, Hr. subst o'.
  destruct H as [|c c' rs rs' Hc H].
  - cbn [bool_score]. destruct o; try exact Hr. exact I.
  - unfold bool_score. rewrite <- E1, <- E2, <- E3, <- E4.
    destruct (existsb must_missing _); [exact I|]. destruct (existsb not_hit _); [exact I|].
    destruct (_ && _); [|exact I]. cbn [orel]. apply Hcomb. exact E5.
Qed.

Lemma sum_combiner_rel_scale b xs xs' :
  Forall2 (fun x x' => x' == b * x) xs xs' -> sum_combiner xs' == b * sum_combiner xs.
Proof.
  unfold sum_combiner. assert (G : forall a a', a' == b * a -> Forall2 (fun x x' => x' == b * x) xs xs' ->
     fold_left Qplus xs' a' == b * fold_left Qplus xs a).
  { intros a a' Ha H. revert a a' Ha. induction H as [|x x' xs xs' Hx _ IH]; intros a a' Ha; cbn [fold_left]; [exact Ha|].
    apply IH. rewrite Ha, Hx. ring. }
  apply G. ring.
Qed.

Lemma sum_combiner_proper xs xs' : Forall2 Qeq xs xs' -> sum_combiner xs == sum_combiner xs'.
Proof.
  unfold sum_combiner. assert (G : forall a a', a == a' -> Forall2 Qeq xs xs' -> fold_left Qplus xs a == fold_left Qplus xs' a').
  { intros a a' Ha H. revert a a' Ha. induction H as [|x x' xs xs' Hx _ IH]; intros a a' Ha; cbn [fold_left]; [exact Ha|].
    apply IH. now rewrite Ha, Hx. }
  apply G. reflexivity.
Qed.

Lemma Qmax_scale b x y : 0 <= b -> Qmax (b * x) (b * y) == b * Qmax x y.
Proof.
  intros Hb. destruct (Q.max_spec_le x y) as [[H E]|[H E]]; rewrite E.
  - apply Q.max_r. rewrite !(Qmult_comm b). now apply Qmult_le_compat_r.
  - apply Q.max_l. rewrite !(Qmult_comm b). now apply Qmult_le_compat_r.
Qed.

Lemma dismax_fold_rel_scale b xs xs' : 0 <= b ->
  Forall2 (fun x x' => x' == b * x) xs xs' ->
  forall ms ms', fst ms' == b * fst ms -> snd ms' == b * snd ms ->
  fst (fold_left dismax_step xs' ms') == b * fst (fold_left dismax_step xs ms) /\
  snd (fold_left dismax_step xs' ms') == b * snd (fold_left dismax_step xs ms).
Proof.
  intros Hb. induction 1 as [|x x' xs xs' Hx _ IH]; intros ms ms' H1 H2; cbn [fold_left]; [split; assumption|].
  apply IH; unfold dismax_step; cbn [fst snd].
  - rewrite Hx, H1. now apply Qmax_scale.
  - rewrite Hx, H2. ring.
Qed.

Lemma dismax_combiner_rel_scale tie b xs xs' : 0 <= b ->
  Forall2 (fun x x' => x' == b * x) xs xs' -> dismax_combiner tie xs' == b * dismax_combiner tie xs.
Proof.
  intros Hb H. unfold dismax_combiner. cbv zeta.
  destruct (dismax_fold_rel_scale b xs xs' Hb H (0, 0) (0, 0)) as [E1 E2]; cbn [fst snd]; try ring.
  rewrite E1, E2. ring.
Qed.

Lemma dismax_fold_proper xs xs' :
  Forall2 Qeq xs xs' ->
  forall ms ms', fst ms == fst ms' -> snd ms == snd ms' ->
  fst (fold_left dismax_step xs ms) == fst (fold_left dismax_step xs' ms') /\
  snd (fold_left dismax_step xs ms) == snd (fold_left dismax_step xs' ms').
Proof.
  induction 1 as [|x x' xs xs' Hx _ IH]; intros ms ms' H1 H2; cbn [fold_left]; [split; assumption|].
  apply IH; unfold dismax_step; cbn [fst snd]; now rewrite Hx, ?H1, ?H2.
Qed.

Lemma dismax_combiner_proper tie xs xs' : Forall2 Qeq xs xs' -> dismax_combiner tie xs == dismax_combiner tie xs'.
Proof.
  intros H. unfold dismax_combiner. cbv zeta.
  destruct (dismax_fold_proper xs xs' H (0, 0) (0, 0)) as [E1 E2]; try reflexivity.
  now rewrite E1, E2.
Qed.

(* max + tie*(sum - max), with max and sum the plain maximum and sum, when no score is negative *)
Lemma dismax_fold_spec xs : forall m s, 0 <= m ->
  let r := fold_left dismax_step xs (m, s) in
  m <= fst r /\ (forall x, In x xs -> x <= fst r) /\ (fst r == m \/ exists x, In x xs /\ fst r == x) /\ snd r == s + sum_combiner xs.
Proof.
  induction xs as [|x xs IH]; intros m s Hm; cbn [fold_left]; cbv zeta.
  - cbn [fst snd]. unfold sum_combiner; cbn [fold_left]. split; [lra|split; [intros ? []|split; [now left|lra]]].
  - change (dismax_step (m, s) x) with (Qmax x m, s + x).
    assert (Hm' : 0 <= Qmax x m) by (pose proof (Q.le_max_r x m); lra).
    destruct (IH (Qmax x m) (s + x) Hm') as (H1 & H2 & H3 & H4). split; [|split; [|split]].
    + pose proof (Q.le_max_r x m). lra.
    + intros y [Hy|Hy]; [subst y; pose proof (Q.le_max_l x m); lra|now apply H2].
    + destruct H3 as [E|(y & Hy & E)].
      * destruct (Q.max_dec x m) as [E'|E']; [right; exists x; split; [now left|now rewrite E, E']|left; now rewrite E, E'].
      * right. exists y. split; [now right|exact E].
    + rewrite H4. unfold sum_combiner. cbn [fold_left].
      assert (G : forall l a, fold_left Qplus l a == a + fold_left Qplus l 0).
      { induction l as [|z l IHl]; intros a; cbn [fold_left]; [ring|]. rewrite (IHl (a + z)), (IHl (0 + z)). ring. }
      rewrite (G xs (0 + x)). ring.
Qed.

(* ------------------------------------------------------------------------------------------ *)
(** * Bm25Weight and the scorers *)

Record bm25_weight := { bw_weight : Q; bw_avg : Q }.     (* the 256-entry cache is compute_tf_cache bw_avg *)

Definition boost_by (w : bm25_weight) (boost : Q) : bm25_weight :=    (* boost == 1.0 returns a clone: same value *)
  {| bw_weight := bw_weight w * boost; bw_avg := bw_avg w |}.
Definition bm25_score (w : bm25_weight) (id f : N) : Q := bw_weight w * tf_factor (bw_avg w) id f.
Definition max_score (w : bm25_weight) : Q := bm25_score w BM25_MAX_SCORE_FIELDNORM_ID BM25_MAX_SCORE_TF.

Section Scoring.
  Variable ln : Q -> Q.
  Variable st : stats.

  (* pub(crate) fn idf(doc_freq, doc_count) *)
  Definition idf (n N : N) : Q := ln (1 + (QofN (N - n) + (1 # 2)) / (QofN n + (1 # 2))).
  Definition average_fieldnorm : Q := QofN (st_T st) / QofN (st_N st).
  Definition bm25_new (idf_value avg : Q) : bm25_weight := {| bw_weight := idf_value * (1 + K1); bw_avg := avg |}.
  (* Bm25Weight::for_terms: one term -> for_one_term, several -> sum of the idfs *)
  Definition idf_of (t : term) : Q := idf (st_df st t) (st_N st).
  Definition for_terms (ts : list term) : bm25_weight :=
    match ts with
    | [t] => bm25_new (idf_of t) average_fieldnorm
    | _ => bm25_new (fold_left (fun acc t => acc + idf_of t) ts 0) average_fieldnorm
    end.

  (* the leaf clauses: matching and the (fieldnorm id, frequency) pair the scorer reads *)
  Definition leaf_freq (ts : list term) (d : doc) : N :=
    match ts with [t] => tf t d | _ => phrase_count ts d end.

  (* Weight::scorer(reader, boost), seek(doc), score() -- None when the scorer is not on the doc *)
  Fixpoint scorer_score (q : query) (boost : Q) (d : doc) {struct q} : option Q :=
    match q with
    | QTerm t =>
        if has_term t d then Some (bm25_score (boost_by (for_terms [t]) boost) (fieldnorm_id d) (tf t d)) else None
    | QPhrase ts =>
        if (0 <? phrase_count ts d)%N
        then Some (bm25_score (boost_by (for_terms ts) boost) (fieldnorm_id d) (phrase_count ts d)) else None
    | QBoost q b => scorer_score q (boost * b) d
    | QConst q s => match scorer_score q boost d with Some _ => Some (boost * s) | None => None end
    | QBool msm cs =>
        bool_score sum_combiner msm (map (fun oc => let '(o, c) := oc in (o, scorer_score c boost d)) cs)
    | QDisMax qs tie =>
        bool_score (dismax_combiner tie) 1 (map (fun c => (Should, scorer_score c boost d)) qs)
    end.

  (* The specification: the BM25 formula, boosts multiplying on the way UP. *)
  Definition bm25_formula (idf_value : Q) (id f : N) : Q :=
    idf_value * (1 + K1) * (QofN f / (QofN f + K1 * (1 - B + B * QofN (id_to_fieldnorm id) / average_fieldnorm))).

  Fixpoint formula (q : query) (d : doc) {struct q} : option Q :=
    match q with
    | QTerm t => if has_term t d then Some (bm25_formula (idf_of t) (fieldnorm_id d) (tf t d)) else None
    | QPhrase ts =>
        if (0 <? phrase_count ts d)%N
        then Some (bm25_formula (bw_weight (for_terms ts) / (1 + K1)) (fieldnorm_id d) (phrase_count ts d)) else None
    | QBoost q b => match formula q d with Some x => Some (b * x) | None => None end
    | QConst q s => match formula q d with Some _ => Some s | None => None end
    | QBool msm cs => bool_score sum_combiner msm (map (fun oc => let '(o, c) := oc in (o, formula c d)) cs)
    | QDisMax qs tie => bool_score (dismax_combiner tie) 1 (map (fun c => (Should, formula c d)) qs)
    end.

  Definition scaled (b : Q) (x x' : Q) : Prop := x' == b * x.

  Lemma fieldnorm_id_lt d : (fieldnorm_id d < BM25_TF_CACHE_LEN)%N.
  Proof.
    unfold fieldnorm_id, fieldnorm_to_id.
    assert (H : forall tbl n, (count_le tbl n <= length tbl)%nat).
    { induction tbl as [|x r IH]; intros n; cbn [count_le length]; [lia|]. destruct (x <=? n)%N; [specialize (IH n)|]; lia. }
    pose proof (H TABLE (doc_len d)) as Hc. rewrite table_length in Hc.
    assert (0 < BM25_TF_CACHE_LEN)%N by (vm_compute; reflexivity). lia.
  Qed.

  Lemma bm25_score_formula idf_value boost d f :
    bm25_score (boost_by (bm25_new idf_value average_fieldnorm) boost) (fieldnorm_id d) f
    == boost * bm25_formula idf_value (fieldnorm_id d) f.
  Proof.
    unfold bm25_score, boost_by, bm25_new, bm25_formula. cbn [bw_weight bw_avg].
    rewrite tf_factor_eq by apply fieldnorm_id_lt. unfold cached_tf_component. ring.
  Qed.

  Lemma one_plus_K1_nz : ~ 1 + K1 == 0.
  Proof. pose proof K1_pos. lra. Qed.

  Lemma for_terms_formula ts boost d f :
    bm25_score (boost_by (for_terms ts) boost) (fieldnorm_id d) f
    == boost * bm25_formula (bw_weight (for_terms ts) / (1 + K1)) (fieldnorm_id d) f.
  Proof.
    assert (E : exists v, for_terms ts = bm25_new v average_fieldnorm).
    { unfold for_terms. destruct ts as [|t [|t' r]]; eexists; reflexivity. }
    destruct E as [v ->]. rewrite bm25_score_formula. unfold bm25_formula, bm25_new. cbn [bw_weight].
    assert (E : v * (1 + K1) / (1 + K1) == v) by (field; apply one_plus_K1_nz). now rewrite E.
  Qed.

  (* The scorer (boosts folded into the weights on the way down, combiners as in the code) computes
     boost * formula: in particular the reported score (boost = 1) IS the formula. *)
  Theorem scorer_is_formula q d : wfq q -> forall boost, 0 <= boost ->
    orel (scaled boost) (formula q d) (scorer_score q boost d).
  Proof.
    induction q as [t|ts|q b IH|q s IH|msm cs IH|qs tie IH] using query_ind'; intros Hwf boost Hb.
    - cbn [scorer_score formula]. destruct (has_term t d); [|exact I]. cbn [orel]. unfold scaled.
      unfold for_terms. apply bm25_score_formula.
    - cbn [scorer_score formula]. destruct (0 <? phrase_count ts d)%N; [|exact I]. cbn [orel]. unfold scaled.
      apply for_terms_formula.
    - cbn [scorer_score formula]. destruct Hwf as [Hb0 Hwf].
      specialize (IH Hwf (boost * b) ltac:(nra)).
      destruct (formula q d) as [x|], (scorer_score q (boost * b) d) as [x'|]; cbn [orel] in *; try contradiction; [|exact I].
      unfold scaled in *. rewrite IH. ring.
    - cbn [scorer_score formula]. cbn [wfq] in Hwf. specialize (IH Hwf boost Hb).
      destruct (formula q d) as [x|], (scorer_score q boost d) as [x'|]; cbn [orel] in *; try contradiction; [|exact I].
      unfold scaled. reflexivity.
    - cbn [scorer_score formula]. apply wfq_bool in Hwf.
      apply bool_score_rel.
      + intros xs xs' H. unfold scaled. now apply sum_combiner_rel_scale.
      + induction cs as [|[o c] cs IHcs]; cbn [map]; [constructor|].
        inversion IH as [|? ? IH1 IH2]; subst. inversion Hwf as [|? ? W1 W2]; subst.
        constructor; [|now apply IHcs]. split; [reflexivity|]. cbn [snd] in *. now apply IH1.
    - cbn [scorer_score formula]. apply wfq_dismax in Hwf.
      apply bool_score_rel.
      + intros xs xs' H. unfold scaled. now apply dismax_combiner_rel_scale.
      + induction qs as [|c qs IHqs]; cbn [map]; [constructor|].
        inversion IH as [|? ? IH1 IH2]; subst. inversion Hwf as [|? ? W1 W2]; subst.
        constructor; [|now apply IHqs]. split; [reflexivity|]. cbn [snd]. now apply IH1.
  Qed.

  (* the score reported by every collector: the scorer built with boost 1.0 *)
  Definition score (q : query) (d : doc) : option Q := scorer_score q 1 d.

  Corollary score_is_formula q d : wfq q -> orel Qeq (formula q d) (score q d).
  Proof.
    intros Hwf. pose proof (scorer_is_formula q d Hwf 1 ltac:(lra)) as H. unfold score.
    destruct (formula q d), (scorer_score q 1 d); cbn [orel] in *; try contradiction; [|exact I].
    unfold scaled in H. rewrite H. ring.
  Qed.
End Scoring.

(* ------------------------------------------------------------------------------------------ *)
(** * The score depends on the searcher only through (N, sum of tokens, doc_freq) *)

Lemma fold_left_ext_in {A B} (f g : A -> B -> A) l : (forall a x, f a x = g a x) -> forall a, fold_left f l a = fold_left g l a.
Proof. intros H. induction l as [|x l IH]; intros a; cbn [fold_left]; [reflexivity|]. now rewrite H, IH. Qed.

Lemma for_terms_stats_eq ln a b ts : stats_eq a b -> for_terms ln a ts = for_terms ln b ts.
Proof.
  intros (HN & HT & Hdf). unfold for_terms, bm25_new, average_fieldnorm, idf_of.
  rewrite HN, HT. destruct ts as [|t [|t' r]]; rewrite ?Hdf; try reflexivity.
  f_equal. f_equal. cbn [fold_left]. rewrite !Hdf.
  apply fold_left_ext_in. intros acc x. now rewrite Hdf.
Qed.

Lemma map_ext_Forall {A B} (f g : A -> B) l : Forall (fun x => f x = g x) l -> map f l = map g l.
Proof. induction 1 as [|x l H _ IH]; cbn [map]; [reflexivity|]. now rewrite H, IH. Qed.

Theorem scorer_score_stats_eq ln a b q : stats_eq a b -> forall boost d, scorer_score ln a q boost d = scorer_score ln b q boost d.
Proof.
  intros Hs. induction q as [t|ts|q bb IH|q s IH|msm cs IH|qs tie IH] using query_ind'; intros boost d; cbn [scorer_score].
  - now rewrite (for_terms_stats_eq ln a b [t] Hs).
  - now rewrite (for_terms_stats_eq ln a b ts Hs).
  - apply IH.
  - now rewrite IH.
  - f_equal. apply map_ext_Forall. eapply Forall_impl; [|exact IH]. intros [o c] H. cbn [snd] in H. now rewrite H.
  - f_equal. apply map_ext_Forall. eapply Forall_impl; [|exact IH]. intros c H. now rewrite H.
Qed.

(* Segmentation independence: two searchers holding the same physical documents (in any grouping
   and order) give every document the same score for every query. *)
Theorem score_partition_invariant ln (s1 s2 : searcher) q d :
  Permutation (concat s1) (concat s2) -> score ln (stats_of s1) q d = score ln (stats_of s2) q d.
Proof. intros HP. unfold score. apply scorer_score_stats_eq. now apply stats_partition_invariant. Qed.

(* ------------------------------------------------------------------------------------------ *)
(** * Collectors see (doc address, score) pairs produced by one scoring function *)

Definition doc_addr := (nat * nat)%type.      (* (segment_ord, doc_id) *)

Fixpoint seg_scored (f : doc -> option Q) (ord idx : nat) (s : segment) : list (doc_addr * Q) :=
  match s with
  | [] => []
  | (d, alive) :: r =>
      (if alive then match f d with Some x => [((ord, idx), x)] | None => [] end else [])
      ++ seg_scored f ord (S idx) r
  end.
Fixpoint searcher_scored (f : doc -> option Q) (ord : nat) (sr : searcher) : list (doc_addr * Q) :=
  match sr with
  | [] => []
  | s :: r => seg_scored f ord 0 s ++ searcher_scored f (S ord) r
  end.
Definition doc_at (sr : searcher) (a : doc_addr) : option (doc * bool) :=
  match nth_error sr (fst a) with Some s => nth_error s (snd a) | None => None end.

Lemma seg_scored_in f ord idx s a x : In (a, x) (seg_scored f ord idx s) ->
  fst a = ord /\ (idx <= snd a)%nat /\ exists d, nth_error s (snd a - idx) = Some (d, true) /\ f d = Some x.
Proof.
  revert idx. induction s as [|[d alive] r IH]; intros idx H; cbn [seg_scored] in H; [contradiction|].
  apply in_app_or in H as [H|H].
  - destruct alive; [|contradiction]. destruct (f d) as [y|] eqn:E; [|contradiction].
    destruct H as [H|[]]. inversion H; subst. cbn [fst snd]. repeat split; try lia.
    exists d. rewrite Nat.sub_diag. split; [reflexivity|exact E].
  - apply IH in H as (H1 & H2 & d' & H3 & H4). repeat split; try lia.
    exists d'. split; [|exact H4]. replace (snd a - idx)%nat with (S (snd a - S idx)) by lia. exact H3.
Qed.

Lemma searcher_scored_in f ord sr a x : In (a, x) (searcher_scored f ord sr) ->
  (ord <= fst a)%nat /\ exists d, doc_at sr (fst a - ord, snd a)%nat = Some (d, true) /\ f d = Some x.
Proof.
  revert ord. induction sr as [|s r IH]; intros ord H; cbn [searcher_scored] in H; [contradiction|].
  apply in_app_or in H as [H|H].
  - apply seg_scored_in in H as (H1 & _ & d & H3 & H4). split; [lia|]. exists d. split; [|exact H4].
    unfold doc_at. cbn [fst snd]. rewrite H1, Nat.sub_diag. cbn [nth_error]. now rewrite Nat.sub_0_r in H3.
  - apply IH in H as (H1 & d & H3 & H4). split; [lia|]. exists d. split; [|exact H4].
    unfold doc_at in *. cbn [fst snd] in *. replace (fst a - ord)%nat with (S (fst a - S ord)) by lia. exact H3.
Qed.

(* what every collector is fed for query q on searcher sr *)
Definition search ln (sr : searcher) (q : query) : list (doc_addr * Q) :=
  searcher_scored (score ln (stats_of sr) q) 0 sr.

(* a Top-K collector: order by score descending then address ascending, keep K *)
Definition addr_leb (a b : doc_addr) : bool :=
  (fst a <? fst b)%nat || ((fst a =? fst b)%nat && (snd a <=? snd b)%nat).
Definition better (x y : doc_addr * Q) : bool :=
  if Qle_bool (snd x) (snd y) then (if Qle_bool (snd y) (snd x) then addr_leb (fst x) (fst y) else false) else true.
Fixpoint insert_by (x : doc_addr * Q) (l : list (doc_addr * Q)) : list (doc_addr * Q) :=
  match l with
  | [] => [x]
  | y :: r => if better x y then x :: l else y :: insert_by x r
  end.
Definition top_k (K : nat) (l : list (doc_addr * Q)) : list (doc_addr * Q) :=
  firstn K (fold_right insert_by [] l).

Lemma insert_by_in x y l : In y (insert_by x l) -> y = x \/ In y l.
Proof.
  induction l as [|z l IH]; cbn [insert_by]; [intros [H|[]]; now left|].
  destruct (better x z); cbn [In]; intros [H|H]; auto. destruct (IH H); auto.
Qed.
Lemma firstn_in {A} n (l : list A) x : In x (firstn n l) -> In x l.
Proof. revert l; induction n as [|n IH]; intros [|y l]; cbn [firstn In]; try tauto. intros [H|H]; auto. Qed.
Lemma top_k_in K l x : In x (top_k K l) -> In x l.
Proof.
  unfold top_k. intros H. apply firstn_in in H. induction l as [|y l IH]; cbn [fold_right] in H; [contradiction|].
  apply insert_by_in in H as [H|H]; [now left|right; now apply IH].
Qed.

Definition selecting (collector : list (doc_addr * Q) -> list (doc_addr * Q)) : Prop :=
  forall l x, In x (collector l) -> In x l.

(* Whatever the collector (any function that selects among the scored documents, e.g. Top-K for any K,
   or the collector that keeps everything), a reported (address, score) pair is the score function of
   (searcher statistics, query, document) evaluated at the alive document at that address. *)
Theorem collector_independent ln sr q collector a x :
  selecting collector -> In (a, x) (collector (search ln sr q)) ->
  exists d, doc_at sr a = Some (d, true) /\ score ln (stats_of sr) q d = Some x.
Proof.
  intros Hsel H. apply Hsel in H. unfold search in H. apply searcher_scored_in in H as (_ & d & H1 & H2).
  exists d. split; [|exact H2]. rewrite Nat.sub_0_r in H1. destruct a; exact H1.
Qed.

Lemma top_k_selecting K : selecting (top_k K).
Proof. intros l x. apply top_k_in. Qed.
Lemma collect_all_selecting : selecting (fun l => l).
Proof. intros l x H. exact H. Qed.

(* ------------------------------------------------------------------------------------------ *)
(** * idf and weights are non-negative, scores are bounded by the weight; what max_score bounds *)

Section LnContract.
  Variable ln : Q -> Q.
  Hypothesis ln_mono : forall x y, 0 < x -> x <= y -> ln x <= ln y.
  Hypothesis ln_1 : ln 1 == 0.

  Lemma idf_nonneg n N : 0 <= idf ln n N.
  Proof.
    unfold idf. rewrite <- ln_1. apply ln_mono; [lra|].
    assert (0 <= (QofN (N - n) + (1 # 2)) / (QofN n + (1 # 2))).
    { pose proof (QofN_nonneg (N - n)). pose proof (QofN_nonneg n). apply Qle_shift_div_l; lra. }
    lra.
  Qed.

  (* rarer terms weigh more: idf is decreasing in the document frequency *)
  Lemma idf_decreasing n1 n2 N : (n1 <= n2)%N -> (n2 <= N)%N -> idf ln n2 N <= idf ln n1 N.
  Proof.
    intros H12 H2. unfold idf.
    pose proof (QofN_nonneg (N - n2)). pose proof (QofN_nonneg n1).
    pose proof (QofN_le _ _ H12). pose proof (QofN_le (N - n2) (N - n1) ltac:(lia)).
    assert (0 <= (QofN (N - n2) + (1 # 2)) / (QofN n2 + (1 # 2))) by (apply Qle_shift_div_l; lra).
    apply ln_mono; [lra|].
    assert ((QofN (N - n2) + (1 # 2)) / (QofN n2 + (1 # 2)) <= (QofN (N - n1) + (1 # 2)) / (QofN n1 + (1 # 2))).
    { apply Qle_shift_div_r; [lra|].
      assert (E : (QofN (N - n1) + (1 # 2)) / (QofN n1 + (1 # 2)) * (QofN n2 + (1 # 2))
                  == ((QofN (N - n1) + (1 # 2)) * (QofN n2 + (1 # 2))) / (QofN n1 + (1 # 2))) by (field; lra).
      rewrite E. apply Qle_shift_div_l; [lra|]. nra. }
    lra.
  Qed.

  Lemma for_terms_weight_nonneg st ts : 0 <= bw_weight (for_terms ln st ts).
  Proof.
    pose proof K1_pos.
    assert (G : forall l acc, 0 <= acc -> 0 <= fold_left (fun acc t => acc + idf_of ln st t) l acc).
    { induction l as [|t l IH]; intros acc Ha; cbn [fold_left]; [exact Ha|]. apply IH.
      pose proof (idf_nonneg (st_df st t) (st_N st)). unfold idf_of. lra. }
    unfold for_terms. destruct ts as [|t [|t' r]]; unfold bm25_new; cbn [bw_weight].
    - cbn [fold_left]. nra.
    - pose proof (idf_nonneg (st_df st t) (st_N st)). unfold idf_of. nra.
    - specialize (G (t :: t' :: r) 0 ltac:(lra)). nra.
  Qed.
End LnContract.

(* Bm25Weight::max_score dominates exactly the (fieldnorm id, tf) pairs with tf <= decoded field length *)
Theorem max_score_bounds_tf_le_decoded_len w id f :
  0 <= bw_weight w -> 0 <= bw_avg w -> (id < BM25_TF_CACHE_LEN)%N -> (f <= id_to_fieldnorm id)%N ->
  bm25_score w id f <= max_score w.
Proof.
  intros Hw Havg Hid Hf. unfold max_score, bm25_score.
  pose proof (tf_factor_max_score_bound (bw_avg w) Havg id f Hid Hf) as H.
  rewrite !(Qmult_comm (bw_weight w)). now apply Qmult_le_compat_r.
Qed.

(* every score is strictly below its weight (tf_factor < 1): the only bound valid for ALL documents *)
Theorem score_lt_weight w id f :
  0 < bw_weight w -> 0 <= bw_avg w -> (id < BM25_TF_CACHE_LEN)%N -> bm25_score w id f < bw_weight w.
Proof.
  intros Hw Havg Hid. unfold bm25_score. destruct (tf_factor_bounds (bw_avg w) Havg id f Hid) as [H0 H1]. nra.
Qed.

(* F6: because quantisation rounds DOWN, a real document can have tf > decoded length and then beats
   max_score.  Witness: the corpus of DESIGN F6 (avgdl = 2497/999), a document of 1000 tokens, all the term. *)
Definition f6_avg : Q := 2497 # 999.
Definition f6_len : N := 1000.
Definition f6_tf : N := 1000.
Theorem max_score_is_not_upper_bound :
  (f6_tf <= f6_len)%N /\
  tf_factor f6_avg BM25_MAX_SCORE_FIELDNORM_ID BM25_MAX_SCORE_TF < tf_factor f6_avg (fieldnorm_to_id f6_len) f6_tf.
Proof. split; [vm_compute; discriminate|vm_compute; reflexivity]. Qed.

(* ------------------------------------------------------------------------------------------ *)
(** * The score of a boolean tree of (boosted) term / phrase clauses is the SUM over its matching
      scoring clauses of  (product of the boosts on the path) * idf * (1+K1) * tf_factor *)

Fixpoint sum_fragment (q : query) : Prop :=
  match q with
  | QTerm _ | QPhrase _ => True
  | QBoost q' _ => sum_fragment q'
  | QConst _ _ | QDisMax _ _ => False
  | QBool _ cs => (fix go (l : list (occur * query)) : Prop := match l with [] => True | oc :: r => sum_fragment (snd oc) /\ go r end) cs
  end.

Lemma sum_fragment_bool msm cs : sum_fragment (QBool msm cs) <-> Forall (fun oc => sum_fragment (snd oc)) cs.
Proof.
  cbn [sum_fragment]. induction cs as [|oc cs IH]; [split; [constructor|trivial]|].
  split.
  - intros [H1 H2]. constructor; [exact H1|now apply IH].
  - intros H. inversion H as [|? ? H1 H2]; subst. split; [exact H1|now apply IH].
Qed.

Section Flat.
  Variable ln : Q -> Q.
  Variable st : stats.

  (* the contributions of the matching scoring clauses of q at d, b = product of the boosts above q *)
  Fixpoint clause_scores (q : query) (b : Q) (d : doc) {struct q} : list Q :=
    match q with
    | QTerm t => if has_term t d then [b * bm25_formula st (idf_of ln st t) (fieldnorm_id d) (tf t d)] else []
    | QPhrase ts =>
        if (0 <? phrase_count ts d)%N
        then [b * bm25_formula st (bw_weight (for_terms ln st ts) / (1 + K1)) (fieldnorm_id d) (phrase_count ts d)] else []
    | QBoost q' b' => clause_scores q' (b * b') d
    | QBool _ cs =>
        flat_map (fun oc => let '(o, c) := oc in
                            match o with
                            | MustNot => []
                            | _ => match formula ln st c d with Some _ => clause_scores c b d | None => [] end
                            end) cs
    | QConst _ _ | QDisMax _ _ => []
    end.

  Lemma sum_combiner_acc l : forall a, fold_left Qplus l a == a + sum_combiner l.
  Proof.
    unfold sum_combiner. induction l as [|z l IHl]; intros a; cbn [fold_left]; [ring|].
    rewrite (IHl (a + z)), (IHl (0 + z)). ring.
  Qed.
  Lemma sum_combiner_cons x l : sum_combiner (x :: l) == x + sum_combiner l.
  Proof. unfold sum_combiner at 1. cbn [fold_left]. rewrite sum_combiner_acc. ring. Qed.
  Lemma sum_combiner_nil : sum_combiner [] == 0.
  Proof. reflexivity. Qed.
  Lemma sum_combiner_app a b : sum_combiner (a ++ b) == sum_combiner a + sum_combiner b.
  Proof.
    induction a as [|x a IH]; cbn [app]; [rewrite sum_combiner_nil; ring|].
    rewrite !sum_combiner_cons, IH. ring.
  Qed.

  Theorem formula_is_sum_of_clauses q d : sum_fragment q -> forall b x,
    formula ln st q d = Some x -> sum_combiner (clause_scores q b d) == b * x.
  Proof.
    induction q as [t|ts|q b' IH|q s IH|msm cs IH|qs tie IH] using query_ind'; intros Hf b x Hx;
      cbn [formula clause_scores] in *; try contradiction.
    - destruct (has_term t d); [|discriminate]. injection Hx as <-. rewrite sum_combiner_cons, sum_combiner_nil. ring.
    - destruct (0 <? phrase_count ts d)%N; [|discriminate]. injection Hx as <-. rewrite sum_combiner_cons, sum_combiner_nil. ring.
    - destruct (formula ln st q d) as [y|] eqn:E; [|discriminate]. injection Hx as <-.
      rewrite (IH Hf (b * b') y eq_refl). ring.
    - apply sum_fragment_bool in Hf.
      (* the included values, clause by clause *)
      assert (G : sum_combiner (flat_map (fun oc : occur * query => let '(o, c) := oc in
                    match o with MustNot => [] | _ => match formula ln st c d with Some _ => clause_scores c b d | None => [] end end) cs)
                  == b * sum_combiner (included (map (fun oc : occur * query => let '(o, c) := oc in (o, formula ln st c d)) cs))).
      { clear Hx. induction cs as [|[o c] cs IHcs]; [cbn [flat_map map]; unfold included; cbn [flat_map]; rewrite sum_combiner_nil; ring|].
        inversion IH as [|? ? IH1 IH2]; subst. inversion Hf as [|? ? F1 F2]; subst. cbn [snd] in *.
        cbn [flat_map map]. unfold included in *. cbn [flat_map]. rewrite !sum_combiner_app, (IHcs IH2 F2).
        destruct o; destruct (formula ln st c d) as [y|] eqn:E; cbn [app];
          try (rewrite (IH1 F1 b y eq_refl)); rewrite ?sum_combiner_cons, ?sum_combiner_nil; ring. }
      rewrite G. clear G.
      destruct cs as [|[o c] [|c2 cs]].
      + discriminate.
      + (* single clause: the sub-scorer itself *)
        cbn [map bool_score] in Hx. unfold included. cbn [map flat_map].
        destruct o; try discriminate; rewrite Hx; cbn [app]; rewrite sum_combiner_cons, sum_combiner_nil; ring.
      + remember (c2 :: cs) as rest. unfold bool_score in Hx. cbn [map] in Hx. rewrite Heqrest in Hx. cbn [map] in Hx.
        rewrite Heqrest. cbn [map].
        destruct (existsb must_missing _); [discriminate|]. destruct (existsb not_hit _); [discriminate|].
        destruct (_ && _); [|discriminate]. injection Hx as <-. reflexivity.
  Qed.
End Flat.

(* ------------------------------------------------------------------------------------------ *)
(** * Spec predicates evaluated on the implementation's observations (case files) *)

(* the rational value of a finite binary32 bit pattern *)
Definition q_of_f32_bits (z : Z) : Q :=
  let s := Z.testbit z 31 in
  let be := Z.land (Z.shiftr z 23) 255 in
  let fr := Z.land z (2 ^ 23 - 1) in
  let m := if (be =? 0)%Z then fr else (fr + 2 ^ 23)%Z in
  let e := if (be =? 0)%Z then (-149)%Z else (be - 150)%Z in
  let v := if (0 <=? e)%Z then inject_Z (m * 2 ^ e) else Qmake m (Z.to_pos (2 ^ (- e))) in
  if s then - v else v.

Definition Qabs' (x : Q) : Q := if Qle_bool 0 x then x else - x.

(* "the searcher's statistics are those of the physical corpus": stats_of on the shipped corpus against
   the values the implementation's Bm25StatisticsProvider returned *)
Definition stats_check (sr : searcher) (t : term) (impl_N impl_n impl_T : N) : bool :=
  N.eqb (total_num_docs sr) impl_N && N.eqb (doc_freq sr t) impl_n && N.eqb (total_num_tokens sr) impl_T.

(* "the score of a (boosted) term/phrase clause is boost * idf * (1+K1) * tf/(tf + K1*(1-B+B*dl/avgdl))":
   the formula of the theorem statement in exact rationals (idf = the shipped oracle value of ln) against the
   binary32 score the implementation reported, up to the accumulated rounding of the ~15 float operations *)
Definition formula_close (total_docs total_tokens : N) (idf_bits : Z) (field_len term_freq : N)
           (boost_bits score_bits : Z) : bool :=
  let st := {| st_N := total_docs; st_T := total_tokens; st_df := fun _ => 0%N |} in
  let want := q_of_f32_bits boost_bits * bm25_formula st (q_of_f32_bits idf_bits) (fieldnorm_to_id field_len) term_freq in
  Qle_bool (Qabs' (q_of_f32_bits score_bits - want)) (want * (1 # 262144)).

(* the per-segment aggregation alone (large corpora: the per-segment triples are shipped) *)
Definition agg_check (segs : list (N * N * N)) (impl_N impl_n impl_T : N) : bool :=
  N.eqb (sumN (map (fun x => fst (fst x)) segs)) impl_N &&
  N.eqb (sumN (map (fun x => snd (fst x)) segs)) impl_n &&
  N.eqb (sumN (map snd segs)) impl_T.

(* F42 classifier: explain() was asked about document `doc` of a segment in which some node of the query whose
   Weight::explain seeks a fresh scorer unconditionally (phrase, const-score, boolean, disjunction-max) has its first
   match AFTER `doc`: the fresh scorer stands beyond the target and seek(target) is called with target < doc(). *)
Definition known_f42 (doc : N) (first_matches : list N) : bool := existsb (fun f => (doc <? f)%N) first_matches.
