(* Rank/WandUnionBase.v -- shared definitions for the soundness proof of block-max WAND for unions
   (Rank/Wand.v, Section Union).  Stdlib style. *)
From TV Require Import Base.Prelude Generated.Constants Rank.Wand.
From Coq Require Export Permutation.
Local Open Scope Z_scope.

(* ---- collector-free copies of the helper lemmas of Rank/Wand.v (they were generalised over the
   section's collector; instantiate it with the trivial one) *)
Definition u_thr (_ : unit) : Z := 0.
Definition u_step (s : unit) (_ : N) (_ : Z) : unit := s.
Lemma u_mono : forall (st : unit) (d : N) (x : Z), u_thr st <= u_thr (u_step st d x).
Proof. intros. unfold u_thr. lia. Qed.

Definition asc_weaken := asc_from_weaken unit u_thr u_step u_mono.
Definition asc_in := asc_from_in unit u_thr u_step u_mono.
Definition dl_asc := drop_lt_asc unit u_thr u_step u_mono.
Definition dl_incl := drop_lt_incl.
Definition dl_split := drop_lt_split.
Definition dl_ge := drop_lt_ge unit u_thr u_step u_mono.
Definition dl_idem := drop_lt_idem unit u_thr u_step u_mono.
Definition dl_len := drop_lt_len unit u_thr u_step u_mono.
Definition sb_ok := seek_blocks_ok.
Definition sb_len := seek_blocks_len unit u_thr u_step u_mono.
Definition sb_bmax := seek_blocks_bmax unit u_thr u_step u_mono.

(* ---- sums *)
Fixpoint zsum (l : list Z) : Z := match l with [] => 0 | x :: r => x + zsum r end.
Fixpoint nsum (l : list nat) : nat := match l with [] => O | x :: r => (x + nsum r)%nat end.

Lemma zsum_app a b : zsum (a ++ b) = zsum a + zsum b.
Proof. induction a as [|x a IH]; cbn [zsum app]; lia. Qed.
Lemma nsum_app a b : nsum (a ++ b) = (nsum a + nsum b)%nat.
Proof. induction a as [|x a IH]; cbn [nsum app]; lia. Qed.
Lemma zsum_perm a b : Permutation a b -> zsum a = zsum b.
Proof. induction 1; cbn [zsum]; lia. Qed.
Lemma nsum_perm a b : Permutation a b -> nsum a = nsum b.
Proof. induction 1; cbn [nsum]; lia. Qed.
Lemma fold_left_zsum {A} (f : A -> Z) l a0 : fold_left (fun a s => a + f s) l a0 = a0 + zsum (map f l).
Proof. revert a0. induction l as [|x l IH]; intros a0; cbn [fold_left map zsum]; [lia|]. rewrite IH. lia. Qed.
Lemma zsum_map_le {A} (f g : A -> Z) l : Forall (fun s => f s <= g s) l -> zsum (map f l) <= zsum (map g l).
Proof. induction 1; cbn [map zsum]; lia. Qed.
Lemma zsum_map_nonneg {A} (f : A -> Z) l : Forall (fun s => 0 <= f s) l -> 0 <= zsum (map f l).
Proof. induction 1; cbn [map zsum]; lia. Qed.
Lemma zsum_map_zero {A} (f : A -> Z) l : Forall (fun s => f s = 0) l -> zsum (map f l) = 0.
Proof. induction 1; cbn [map zsum]; lia. Qed.
Lemma zsum_map_F2_le {A} (f g : A -> Z) l l' : Forall2 (fun s s' => g s' <= f s) l l' -> zsum (map g l') <= zsum (map f l).
Proof. induction 1; cbn [map zsum]; lia. Qed.
Lemma zsum_map_F2_eq {A} (f g : A -> Z) l l' : Forall2 (fun s s' => g s' = f s) l l' -> zsum (map g l') = zsum (map f l).
Proof. induction 1; cbn [map zsum]; lia. Qed.
Lemma nsum_map_F2_le {A} (f g : A -> nat) l l' : Forall2 (fun s s' => (g s' <= f s)%nat) l l' -> (nsum (map g l') <= nsum (map f l))%nat.
Proof. induction 1; cbn [map nsum]; lia. Qed.

(* ---- posting lists as partial functions doc -> score *)
Fixpoint sc_at (p : list (N * Z)) (d : N) : Z :=
  match p with [] => 0 | (d', x) :: r => if N.eqb d' d then x else sc_at r d end.
Definition has (p : list (N * Z)) (d : N) : Prop := In d (map fst p).

(* the union of the scorers' remaining postings: which documents, which total score *)
Definition present (scs : list scorer) (d : N) : Prop := Exists (fun s => has (sc_post s) d) scs.
Definition cur (scs : list scorer) (d : N) : Z := zsum (map (fun s => sc_at (sc_post s) d) scs).
Definition total_len (scs : list scorer) : nat := nsum (map (fun s => length (sc_post s)) scs).
Definition posts_asc (s : scorer) : Prop := asc_from 0 (sc_post s).

Lemma has_in p d : has p d <-> exists x, In (d, x) p.
Proof.
  unfold has. rewrite in_map_iff. split.
  - intros ([d' x] & E & H). cbn in E. subst d'. now exists x.
  - intros (x & H). exists (d, x). now split.
Qed.
Lemma asc_has lo p d : asc_from lo p -> has p d -> (lo <= d < TERM)%N.
Proof. intros A H. apply has_in in H. destruct H as (x & H). exact (asc_in _ _ _ _ A H). Qed.
Lemma sc_at_not_has p d : ~ has p d -> sc_at p d = 0.
Proof.
  induction p as [|[d' x] r IH]; [reflexivity|]. intros H. cbn [sc_at].
  destruct (N.eqb_spec d' d) as [E|E]; [exfalso; apply H; left; exact E|].
  apply IH. intro H'. apply H. right. exact H'.
Qed.
Lemma sc_at_in lo p d x : asc_from lo p -> In (d, x) p -> sc_at p d = x.
Proof.
  revert lo. induction p as [|[d' x'] r IH]; intros lo A H; [contradiction|].
  cbn in A. destruct A as (A1 & A2 & A3). cbn [sc_at]. destruct H as [E|H].
  - injection E as -> ->. now rewrite N.eqb_refl.
  - pose proof (asc_in _ _ _ _ A3 H). destruct (N.eqb_spec d' d); [lia|]. eapply IH; eauto.
Qed.
Lemma sc_at_has_in lo p d : asc_from lo p -> has p d -> In (d, sc_at p d) p.
Proof. intros A H. apply has_in in H. destruct H as (x & H). now rewrite (sc_at_in _ _ _ _ A H). Qed.
Lemma has_dec p d : {has p d} + {~ has p d}.
Proof. unfold has. apply in_dec. apply N.eq_dec. Qed.
