(* BM25 in IEEE-754 binary32, operation by operation in the order of the Rust expressions
   (Flocq BinarySingleNaN: Bplus / Bminus / Bmult / Bdiv, round to nearest even).

   Transliterates src/query/bm25.rs:
     average_fieldnorm = total_num_tokens as Score / total_num_docs as Score                    (for_terms)
     idf argument       = 1.0 + ((doc_count - doc_freq) as Score + 0.5) / (doc_freq as Score + 0.5)  (idf; `ln` itself
                          is not computable: the idf VALUE is an input, shipped by the harness as an oracle table)
     cached_tf_component = K1 * (1.0 - B + B * fieldnorm as Score / average_fieldnorm)          (= K1*((1-B) + ((B*fn)/avg)))
     compute_tf_cache    = the 256 entries over FIELD_NORMS_TABLE
     weight = idf * (1.0 + K1);   boost_by: weight * boost unless boost == 1.0
     tf_factor = term_freq / (term_freq + cache[fieldnorm_id]);   score = weight * tf_factor
   and the scorer / explain arithmetic of boost_query.rs, const_score_query.rs, score_combiner.rs,
   boolean_weight.rs at one document (clause results given).

   Flocq brings the real-number / classical axioms of the standard library; only this file and the
   float section of Properties/C12.v depend on them. *)
From Coq Require Import ZArith List Bool Floats.SpecFloat.
From Flocq Require Import Core.Core IEEE754.BinarySingleNaN.
From TV Require Import Base.Prelude Generated.Constants Rank.BM25.
Import ListNotations.
Local Open Scope Z_scope.

Definition f32 : Type := binary_float 24 128.

Lemma prec_ok : Prec_gt_0 24. Proof. reflexivity. Qed.
Lemma emax_ok : Prec_lt_emax 24 128. Proof. reflexivity. Qed.

Definition fadd (x y : f32) : f32 := @Bplus 24 128 prec_ok emax_ok mode_NE x y.
Definition fsub (x y : f32) : f32 := @Bminus 24 128 prec_ok emax_ok mode_NE x y.
Definition fmul (x y : f32) : f32 := @Bmult 24 128 prec_ok emax_ok mode_NE x y.
Definition fdiv (x y : f32) : f32 := @Bdiv 24 128 prec_ok emax_ok mode_NE x y.

(* `n as f32` for an unsigned integer: round to nearest even *)
Definition of_N (n : N) : f32 := @binary_normalize 24 128 prec_ok emax_ok mode_NE (Z.of_N n) 0 false.

(* bit patterns <-> values (finite values are canonical in Flocq, so this is the IEEE encoding) *)
Definition to_bits (x : f32) : Z :=
  match B2SF x with
  | S754_zero s => if s then 2 ^ 31 else 0
  | S754_infinity s => (if s then 2 ^ 31 else 0) + 2139095040
  | S754_nan => 2143289344
  | S754_finite s m e => (if s then 2 ^ 31 else 0) + (e + 149) * 2 ^ 23 + Zpos m
  end.

Definition of_bits (z : Z) : f32 :=
  let s := Z.testbit z 31 in
  let be := Z.land (Z.shiftr z 23) 255 in
  let fr := Z.land z (2 ^ 23 - 1) in
  if be =? 255 then (if fr =? 0 then B754_infinity s else B754_nan)
  else if be =? 0 then @binary_normalize 24 128 prec_ok emax_ok mode_NE (if s then - fr else fr) (-149) s
  else @binary_normalize 24 128 prec_ok emax_ok mode_NE (if s then - (fr + 2 ^ 23) else fr + 2 ^ 23) (be - 150) s.

Definition f32_eqb (x y : f32) : bool := to_bits x =? to_bits y.
Definition flt (x y : f32) : bool := match Bcompare x y with Some Lt => true | _ => false end.
(* f32::max on non-NaN values *)
Definition fmax (x y : f32) : f32 := if flt x y then y else x.

Definition fzero : f32 := of_N 0.
Definition fone : f32 := of_N 1.
Definition fhalf : f32 := fdiv (of_N 1) (of_N 2).
(* the literals 1.2 / 0.75: nearest f32 of the decimal = correctly rounded quotient of two small integers *)
Definition K1f : f32 := fdiv (of_N BM25_K1_num) (of_N BM25_K1_den).
Definition Bf : f32 := fdiv (of_N BM25_B_num) (of_N BM25_B_den).

Lemma literals_exact : (BM25_K1_num < 2 ^ 24 /\ BM25_K1_den < 2 ^ 24 /\ BM25_B_num < 2 ^ 24 /\ BM25_B_den < 2 ^ 24)%N.
Proof. vm_compute. repeat split. Qed.

(* ------------------------------------------------------------------------------------------ *)

Definition average_fieldnorm_f (total_num_tokens total_num_docs : N) : f32 :=
  fdiv (of_N total_num_tokens) (of_N total_num_docs).

Definition idf_arg_f (doc_freq doc_count : N) : f32 :=
  fadd fone (fdiv (fadd (of_N (doc_count - doc_freq)) fhalf) (fadd (of_N doc_freq) fhalf)).

Definition cached_tf_component_f (fieldnorm : N) (avg : f32) : f32 :=
  fmul K1f (fadd (fsub fone Bf) (fdiv (fmul Bf (of_N fieldnorm)) avg)).

Definition compute_tf_cache_f (avg : f32) : list f32 :=
  map (fun fieldnorm => cached_tf_component_f fieldnorm avg) TABLE.

Definition cache_get (cache : list f32) (id : N) : f32 := nth (N.to_nat id) cache fzero.

(* the cache is a table of a pure function: looking an entry up = evaluating the function *)
Lemma cache_get_eq avg id : (id < BM25_TF_CACHE_LEN)%N ->
  cache_get (compute_tf_cache_f avg) id = cached_tf_component_f (id_to_fieldnorm id) avg.
Proof.
  intros H. unfold cache_get, compute_tf_cache_f, id_to_fieldnorm.
  rewrite (nth_indep _ fzero (cached_tf_component_f 0%N avg)).
  - apply (map_nth (fun fieldnorm => cached_tf_component_f fieldnorm avg)).
  - rewrite map_length, table_length. lia.
Qed.

Definition weight_f (idf : f32) : f32 := fmul idf (fadd fone K1f).
Definition boost_by_f (w boost : f32) : f32 := if f32_eqb boost fone then w else fmul w boost.
Definition tf_factor_f (norm : f32) (term_freq : N) : f32 :=
  let f := of_N term_freq in fdiv f (fadd f norm).
Definition score_f (w norm : f32) (term_freq : N) : f32 := fmul w (tf_factor_f norm term_freq).

(* Bm25Weight::score with the cache made explicit *)
Definition bm25_score_cached (w : f32) (cache : list f32) (id term_freq : N) : f32 :=
  score_f w (cache_get cache id) term_freq.
Lemma bm25_score_cached_eq w avg id f : (id < BM25_TF_CACHE_LEN)%N ->
  bm25_score_cached w (compute_tf_cache_f avg) id f = score_f w (cached_tf_component_f (id_to_fieldnorm id) avg) f.
Proof. intros H. unfold bm25_score_cached. now rewrite cache_get_eq. Qed.

(* for_terms: one term -> its idf; several -> 0.0 + idf_1 + idf_2 + ... *)
Definition idf_total_f (idfs : list f32) : f32 :=
  match idfs with
  | [i] => i
  | _ => fold_left fadd idfs fzero
  end.

(* ------------------------------------------------------------------------------------------ *)
(** Query trees specialised to one document: every leaf carries the idf value(s) of its term(s)
    (oracle for ln) and, if its scorer is on the document, the (fieldnorm id, frequency) it reads. *)

Inductive fquery :=
| FLeaf (idf_bits : list Z) (hit : option (N * N))   (* TermQuery (1 idf) / PhraseQuery (several) *)
| FBoost (q : fquery) (boost_bits : Z)
| FConst (q : fquery) (score_bits : Z)
| FBool (msm : nat) (cs : list (occur * fquery))
| FDisMax (qs : list fquery) (tie_bits : Z).

Definition fsum (xs : list f32) : f32 := fold_left fadd xs fzero.                 (* SumCombiner *)
Definition fdismax (tie : f32) (xs : list f32) : f32 :=                           (* DisjunctionMaxCombiner *)
  let ms := fold_left (fun ms x => (fmax x (fst ms), fadd (snd ms) x)) xs (fzero, fzero) in
  fadd (fst ms) (fmul (fsub (snd ms) (fst ms)) tie).

Section OneDoc.
  Variable total_num_tokens total_num_docs : N.

  Definition norm_of (id : N) : f32 :=
    cached_tf_component_f (id_to_fieldnorm id) (average_fieldnorm_f total_num_tokens total_num_docs).

  (* Weight::scorer(reader, boost) ; seek(doc) ; score() *)
  Fixpoint fscore (q : fquery) (boost : f32) {struct q} : option f32 :=
    match q with
    | FLeaf idfs hit =>
        match hit with
        | None => None
        | Some (id, f) =>
            Some (score_f (boost_by_f (weight_f (idf_total_f (map of_bits idfs))) boost) (norm_of id) f)
        end
    | FBoost q' b => fscore q' (fmul boost (of_bits b))
    | FConst q' s => match fscore q' boost with Some _ => Some (fmul boost (of_bits s)) | None => None end
    | FBool msm cs => bool_score fsum msm (map (fun oc => let '(o, c) := oc in (o, fscore c boost)) cs)
    | FDisMax qs tie => bool_score (fdismax (of_bits tie)) 1 (map (fun c => (Should, fscore c boost)) qs)
    end.

  (* Weight::explain(reader, doc).value() *)
  Fixpoint fexplain (q : fquery) {struct q} : option f32 :=
    match q with
    | FLeaf _ _ => fscore q fone
    | FBoost q' b => match fexplain q' with Some v => Some (fmul v (of_bits b)) | None => None end
    | FConst q' s =>
        match fscore q fone with
        | None => None
        | Some _ => match fexplain q' with Some _ => Some (of_bits s) | None => None end
        end
    | FBool _ _ => fscore q fone
    | FDisMax _ _ => fscore q fone
    end.

  Definition obits (o : option f32) : option Z := match o with Some x => Some (to_bits x) | None => None end.
  Definition obits_eqb (o : option f32) (bits : option Z) : bool :=
    match obits o, bits with
    | Some a, Some b => a =? b
    | None, None => true
    | _, _ => false
    end.

  (* tie predicates: the model's bits against the implementation's bits *)
  Definition score_bits_agree (q : fquery) (impl : option Z) : bool := obits_eqb (fscore q fone) impl.
  Definition explain_bits_agree (q : fquery) (impl : option Z) : bool := obits_eqb (fexplain q) impl.
  (* several clauses: the combiner's additions may be done in another order -> within k ulps
     (all scores here are non-negative, so the bit patterns are ordered like the values) *)
  Definition within_ulps (k : Z) (a b : Z) : bool := Z.abs (a - b) <=? k.
  Definition score_bits_near (k : Z) (q : fquery) (impl : Z) : bool :=
    match fscore q fone with Some x => within_ulps k (to_bits x) impl | None => false end.
  Definition explain_bits_near (k : Z) (q : fquery) (impl : Z) : bool :=
    match fexplain q with Some x => within_ulps k (to_bits x) impl | None => false end.
End OneDoc.

(* ------------------------------------------------------------------------------------------ *)
(** Shape predicates used by the case generator's rules and by the known-finding classifiers *)

Fixpoint n_leaves (q : fquery) : nat :=
  match q with
  | FLeaf _ _ => 1
  | FBoost q' _ | FConst q' _ => n_leaves q'
  | FBool _ cs => fold_right (fun oc acc => (n_leaves (snd oc) + acc)%nat) O cs
  | FDisMax qs _ => fold_right (fun c acc => (n_leaves c + acc)%nat) O qs
  end.

(* a boost different from 1.0 somewhere in the tree *)
Fixpoint has_boost (q : fquery) : bool :=
  match q with
  | FLeaf _ _ => false
  | FBoost q' b => negb (b =? to_bits fone) || has_boost q'
  | FConst q' _ => has_boost q'
  | FBool _ cs => existsb (fun oc => has_boost (snd oc)) cs
  | FDisMax qs _ => existsb has_boost qs
  end.

(* the clause's scorer is a TermScorer: a single-term leaf, possibly under boosts / one-clause booleans *)
Fixpoint term_like (q : fquery) : bool :=
  match q with
  | FLeaf [_] _ => true
  | FLeaf _ _ => false
  | FBoost q' _ => term_like q'
  | FConst _ _ => false
  | FBool _ [(Must, c)] | FBool _ [(Should, c)] => term_like c
  | FBool _ _ => false
  | FDisMax [c] _ => term_like c
  | FDisMax _ _ => false
  end.

Definition is_hit (T N : N) (c : fquery) : bool := match fscore T N c fone with Some _ => true | None => false end.
Definition n_hits (T N : N) (qs : list fquery) : nat := length (filter (is_hit T N) qs).

(* the clause's score at this document comes from exactly one single-term leaf, not under a const-score:
   in a segment where the clause's other parts are absent its scorer IS a TermScorer (BooleanWeight unwraps
   single scorers and drops EmptyScorers) *)
Fixpoint term_hit (T N : N) (q : fquery) : bool :=
  match q with
  | FLeaf [_] (Some _) => true
  | FLeaf _ _ => false
  | FBoost q' _ => term_hit T N q'
  | FConst _ _ => false
  | FBool _ cs =>
      (length (filter (fun oc => match fst oc with MustNot => false | _ => is_hit T N (snd oc) end) cs) =? 1)%nat &&
      forallb (fun oc => match fst oc with MustNot => true | _ => implb (is_hit T N (snd oc)) (term_hit T N (snd oc)) end) cs
  | FDisMax qs _ =>
      (n_hits T N qs =? 1)%nat && forallb (fun c => implb (is_hit T N c) (term_hit T N c)) qs
  end.

(* F40: top-level DisjunctionMax, document on >= 2 disjuncts each of which is scored by a TermScorer there,
   and the score TopDocs reported is the plain SUM of the matching disjuncts' scores (block_wand ignores the
   combiner) up to the order of the additions. *)
Definition known_f40 (T N : N) (q : fquery) (topdocs_bits : Z) : bool :=
  match q with
  | FDisMax qs tie =>
      (2 <=? n_hits T N qs)%nat && forallb (fun c => implb (is_hit T N c) (term_hit T N c)) qs &&
      match bool_score fsum 1 (map (fun c => (Should, fscore T N c fone)) qs) with
      | Some s => within_ulps (Z.of_nat (length qs)) (to_bits s) topdocs_bits
      | None => false
      end
  | _ => false
  end.

(* F41: one scoring clause under a boost != 1: explain multiplies the boost last, the scorer first;
   both values are exactly the ones the two orders of operations give. *)
Definition known_f41 (T N : N) (q : fquery) (score_bits explain_bits : Z) : bool :=
  (n_leaves q =? 1)%nat && has_boost q &&
  score_bits_agree T N q (Some score_bits) && explain_bits_agree T N q (Some explain_bits).

(* ------------------------------------------------------------------------------------------ *)
(** Sanity of the encoding helpers on the constants (re-run on the regenerated values). *)
Example bits_roundtrip : map (fun z => to_bits (of_bits z)) [0; 1; 8388607; 8388608; 1065353216; 1067030938; 2139095039; 2139095040]
                         = [0; 1; 8388607; 8388608; 1065353216; 1067030938; 2139095039; 2139095040].
Proof. vm_compute. reflexivity. Qed.
