(* Rank/WandUnionOps.v -- list and cursor operations of block_wand (Rank/Wand.v, Section Union):
   ordering (bubble / restore_ordering / sort_by_doc), effect of seek_block / seek / advance on the
   remaining postings, specification of find_pivot_doc.  Stdlib style. *)
From TV Require Import Base.Prelude Generated.Constants Rank.Wand Rank.WandUnionBase.
Local Open Scope Z_scope.

(* ------------------------------------------------------------------ sortedness by current doc *)
Fixpoint sorted (l : list scorer) : Prop :=
  match l with [] => True | s :: r => Forall (fun h => (doc s <= doc h)%N) r /\ sorted r end.

Lemma sorted_app a b :
  sorted (a ++ b) <-> sorted a /\ sorted b /\ Forall (fun x => Forall (fun y => (doc x <= doc y)%N) b) a.
Proof.
  induction a as [|x a IH]; cbn [app sorted].
  - split; [intros H; repeat split; auto|intros (_ & H & _); exact H].
  - rewrite IH, Forall_app. split.
    + intros ((H1 & H2) & H3 & H4 & H5). repeat split; auto.
    + intros ((H1 & H3) & H4 & H5). inversion H5; subst. repeat split; auto.
Qed.

Lemma bubble_perm s r : Permutation (bubble s r) (s :: r).
Proof.
  induction r as [|h r IH]; cbn [bubble]; [apply Permutation_refl|].
  destruct (N.leb (doc s) (doc h)); [apply Permutation_refl|].
  eapply perm_trans; [apply perm_skip, IH|apply perm_swap].
Qed.
Lemma bubble_sorted s r : sorted r -> sorted (bubble s r).
Proof.
  induction r as [|h r IH]; intros H; cbn [bubble]; [cbn; auto|].
  cbn [sorted] in H. destruct H as (H1 & H2).
  destruct (N.leb_spec (doc s) (doc h)) as [Hle|Hgt].
  - cbn [sorted]. repeat split; auto. constructor; [exact Hle|].
    eapply Forall_impl; [|exact H1]. cbn. intros; lia.
  - cbn [sorted]. split; [|auto].
    eapply Permutation_Forall; [apply Permutation_sym, bubble_perm|]. constructor; [lia|exact H1].
Qed.

Lemma insert_perm s l : Permutation (insert_by_doc s l) (s :: l).
Proof.
  induction l as [|h r IH]; cbn [insert_by_doc]; [apply Permutation_refl|].
  destruct (N.ltb (doc s) (doc h)); [apply Permutation_refl|].
  eapply perm_trans; [apply perm_skip, IH|apply perm_swap].
Qed.
Lemma insert_sorted s l : sorted l -> sorted (insert_by_doc s l).
Proof.
  induction l as [|h r IH]; intros H; cbn [insert_by_doc]; [cbn; auto|].
  cbn [sorted] in H. destruct H as (H1 & H2).
  destruct (N.ltb_spec (doc s) (doc h)) as [Hlt|Hge].
  - cbn [sorted]. repeat split; auto. constructor; [lia|].
    eapply Forall_impl; [|exact H1]. cbn. intros; lia.
  - cbn [sorted]. split; [|auto].
    eapply Permutation_Forall; [apply Permutation_sym, insert_perm|]. constructor; [lia|exact H1].
Qed.
Lemma sort_perm l : Permutation (sort_by_doc l) l.
Proof.
  induction l as [|s r IH]; [apply Permutation_refl|]. unfold sort_by_doc in *. cbn [fold_right].
  eapply perm_trans; [apply insert_perm|apply perm_skip, IH].
Qed.
Lemma sort_sorted l : sorted (sort_by_doc l).
Proof. induction l as [|s r IH]; [exact I|]. unfold sort_by_doc in *. cbn [fold_right]. now apply insert_sorted. Qed.

Lemma nth_decomp (i : nat) (scs : list scorer) :
  (i < length scs)%nat -> scs = firstn i scs ++ nth i scs dflt :: skipn (S i) scs.
Proof.
  revert scs. induction i as [|i IH]; intros [|s r] H; cbn [length] in H; try lia; cbn [firstn nth skipn app]; [reflexivity|].
  f_equal. apply IH. lia.
Qed.
Lemma set_nth_app a x b s' : set_nth (length a) s' (a ++ x :: b) = a ++ s' :: b.
Proof.
  unfold set_nth. rewrite firstn_app_exact. f_equal. f_equal.
  induction a as [|y a IH]; [reflexivity|exact IH].
Qed.
Lemma restore_app a s' b : restore_ordering (a ++ s' :: b) (length a) = a ++ bubble s' b.
Proof. unfold restore_ordering. now rewrite skipn_app_exact, firstn_app_exact. Qed.

(* the three list updates of the loop, on a decomposed list *)
Lemma restore_perm a s' b : Permutation (restore_ordering (a ++ s' :: b) (length a)) (a ++ s' :: b).
Proof. rewrite restore_app. apply Permutation_app_head. apply bubble_perm. Qed.
Lemma restore_sorted a x s' b :
  sorted (a ++ x :: b) -> (doc x <= doc s')%N -> sorted (restore_ordering (a ++ s' :: b) (length a)).
Proof.
  intros H Hx. rewrite restore_app. apply sorted_app in H. destruct H as (Ha & Hxb & Hab).
  cbn [sorted] in Hxb. destruct Hxb as (Hxb & Hb).
  apply sorted_app. split; [exact Ha|]. split; [now apply bubble_sorted|].
  eapply Forall_impl; [|exact Hab]. cbn beta. intros y Hy.
  eapply Permutation_Forall; [apply Permutation_sym, bubble_perm|].
  inversion Hy; subst. constructor; [lia|assumption].
Qed.

(* swap_remove(i) + restore_ordering(i) with i not the last index *)
Lemma swap_remove_eq a x b y :
  let scs := a ++ x :: b ++ [y] in
  restore_ordering (set_nth (length a) (last scs dflt) (removelast scs)) (length a) = a ++ bubble y b.
Proof.
  intros scs. subst scs.
  assert (E : a ++ x :: b ++ [y] = (a ++ x :: b) ++ [y]) by (rewrite <- app_assoc; reflexivity).
  rewrite E. rewrite last_last, removelast_last. rewrite set_nth_app. apply restore_app.
Qed.
Lemma sorted_remove a x b : sorted (a ++ x :: b) -> sorted (a ++ b).
Proof.
  intros H. apply sorted_app in H. destruct H as (Ha & Hxb & Hab). cbn [sorted] in Hxb.
  apply sorted_app. repeat split; [exact Ha|apply Hxb|].
  eapply Forall_impl; [|exact Hab]. cbn beta. intros y Hy. now inversion Hy.
Qed.
Lemma swap_remove_sorted a x b y : sorted (a ++ x :: b ++ [y]) -> sorted (a ++ bubble y b).
Proof.
  intros H. apply sorted_remove in H.
  apply sorted_app in H. destruct H as (Ha & Hby & Hab).
  apply sorted_app in Hby. destruct Hby as (Hb & _ & Hby).
  apply sorted_app. split; [exact Ha|]. split; [now apply bubble_sorted|].
  eapply Forall_impl; [|exact Hab]. cbn beta. intros z Hz.
  eapply Permutation_Forall; [apply Permutation_sym, bubble_perm|].
  apply Forall_app in Hz. destruct Hz as (Hz1 & Hz2). inversion Hz2; subst. now constructor.
Qed.
Lemma swap_remove_perm a b y : Permutation (a ++ bubble y b) (a ++ b ++ [y]).
Proof.
  apply Permutation_app_head. eapply perm_trans; [apply bubble_perm|]. apply Permutation_cons_append.
Qed.

(* ------------------------------------------------------------------ postings under drop_lt *)
Lemma drop_lt_id t p : asc_from t p -> drop_lt t p = p.
Proof. destruct p as [|[d x] r]; [reflexivity|]. cbn. intros (H & _). destruct (N.ltb_spec d t); [lia|reflexivity]. Qed.
Lemma drop_lt_0 p : drop_lt 0 p = p.
Proof. destruct p as [|[d x] r]; [reflexivity|]. cbn [drop_lt]. destruct (N.ltb_spec d 0); [lia|reflexivity]. Qed.
Lemma tl_drop_lt lo d x r : asc_from lo ((d, x) :: r) -> r = drop_lt (d + 1) ((d, x) :: r).
Proof.
  cbn. intros (_ & _ & H). cbn [drop_lt]. destruct (N.ltb_spec d (d + 1)); [|lia]. symmetry. now apply drop_lt_id.
Qed.
Lemma has_drop_lt lo p t d : asc_from lo p -> (has (drop_lt t p) d <-> has p d /\ (t <= d)%N).
Proof.
  intros A. rewrite !has_in. split.
  - intros (x & H). split; [exists x; now apply dl_incl in H|]. exact (dl_ge _ _ _ _ _ A H).
  - intros ((x & H) & Ht). exists x.
    destruct (dl_split t p lo A) as (dead & E & Hd). rewrite E in H. apply in_app_or in H.
    destruct H as [H|H]; [specialize (Hd _ _ H); lia|exact H].
Qed.
Lemma sc_at_above lo p d : asc_from lo p -> (d < lo)%N -> sc_at p d = 0.
Proof. intros A H. apply sc_at_not_has. intro Hh. pose proof (asc_has _ _ _ A Hh). lia. Qed.
Lemma sc_at_drop_lt lo p t d : asc_from lo p -> sc_at (drop_lt t p) d = if N.ltb d t then 0 else sc_at p d.
Proof.
  revert lo. induction p as [|[d' x] r IH]; intros lo A; [cbn; now destruct (N.ltb d t)|].
  pose proof A as A0. cbn in A. destruct A as (A1 & A2 & A3). cbn [drop_lt].
  destruct (N.ltb_spec d' t) as [H1|H1].
  - rewrite (IH _ A3). cbn [sc_at]. destruct (N.ltb_spec d t); [reflexivity|].
    destruct (N.eqb_spec d' d); [lia|reflexivity].
  - destruct (N.ltb_spec d t); [|reflexivity]. apply (sc_at_above d' _ d); [|lia].
    cbn. repeat split; auto; lia.
Qed.
Lemma drop_lt_len_lt t d x r : (d < t)%N -> (length (drop_lt t ((d, x) :: r)) < length ((d, x) :: r))%nat.
Proof. intros H. cbn [drop_lt]. destruct (N.ltb_spec d t); [|lia]. pose proof (dl_len t r). cbn [length]. lia. Qed.
Lemma doc_drop_lt lo t s p' : asc_from lo (sc_post s) -> p' = drop_lt t (sc_post s) ->
  (doc s <= match p' with (d, _) :: _ => d | [] => TERM end)%N.
Proof.
  intros A ->. unfold doc. destruct (sc_post s) as [|[d x] r] eqn:E; [cbn; lia|].
  destruct (drop_lt t ((d, x) :: r)) as [|[d' x'] r'] eqn:E'.
  - cbn in A. lia.
  - assert (Hin : In (d', x') (drop_lt t ((d, x) :: r))) by (rewrite E'; now left).
    apply dl_incl in Hin. pose proof A as A0. cbn in A0. destruct A0 as (_ & _ & A3).
    destruct Hin as [Hin|Hin]; [injection Hin as <- <-; lia|]. pose proof (asc_in _ _ _ _ A3 Hin). lia.
Qed.

(* ------------------------------------------------------------------ per-scorer invariant *)
(* [T] = the largest target any shallow cursor has been sent to (the last pivot) *)
Definition sokT (T : N) (s : scorer) : Prop :=
  asc_from 0 (sc_post s) /\ blocks_ok (sc_blocks s) /\ bounded T s /\
  (forall d x, In (d, x) (sc_post s) -> 0 <= x <= sc_max s) /\
  (forall b, In b (sc_blocks s) -> 0 <= b_max b) /\ 0 <= sc_max s.

(* "s' is s moved forward to t": remaining postings, max_score *)
Definition mv (t : N) (s s' : scorer) : Prop := sc_post s' = drop_lt t (sc_post s) /\ sc_max s' = sc_max s.

Lemma seek_blocks_incl t bl b : In b (seek_blocks t bl) -> In b bl.
Proof.
  induction bl as [|b0 r IH]; [auto|]. destruct r as [|b1 r']; [auto|]. rewrite seek_blocks_cons2.
  destruct (N.ltb (b_last b0) t); [intros H; right; now apply IH|auto].
Qed.

Lemma mv_refl s : mv 0 s s.
Proof. split; [now rewrite drop_lt_0|reflexivity]. Qed.
Lemma mv_seek_block t s : mv 0 s (seek_block t s).
Proof. split; [cbn; now rewrite drop_lt_0|reflexivity]. Qed.
Lemma sokT_raise T T' s : sokT T s -> (T <= T')%N -> sokT T' s.
Proof.
  intros (A & B & C & D) H. split; [exact A|]. split; [exact B|]. split; [|exact D].
  intros d x Hin Hd. apply C; [exact Hin|lia].
Qed.
Lemma sokT_seek_block T t s : sokT T s -> (t <= T)%N -> sokT T (seek_block t s).
Proof.
  intros (A & B & C & D & E & F) H. split; [exact A|]. split; [now apply sb_ok|]. split; [|split; [exact D|split; [|exact F]]].
  - intros d x Hin Hd. cbn [seek_block sc_blocks sc_max sc_post] in *. rewrite sb_bmax by lia. now apply C.
  - intros b Hb. apply E. cbn in Hb. now apply seek_blocks_incl in Hb.
Qed.
(* any repositioning whose postings are all at/after the shallow target *)
Lemma sokT_move T t s p' :
  sokT T s -> p' = drop_lt t (sc_post s) -> (forall d x, In (d, x) p' -> (t <= d)%N) ->
  sokT T (seek_block t {| sc_post := p'; sc_blocks := sc_blocks s; sc_max := sc_max s |}).
Proof.
  intros (A & B & C & D & E & F) -> Hge. split; [|split; [|split; [|split; [|split]]]]; cbn [seek_block sc_post sc_blocks sc_max].
  - eapply asc_weaken; [|apply (dl_asc 0 t _ A)]. lia.
  - now apply sb_ok.
  - intros d x Hin Hd. cbn [seek_block sc_post sc_blocks sc_max] in *. specialize (Hge _ _ Hin).
    rewrite sb_bmax by lia. apply dl_incl in Hin.
    now apply C.
  - intros d x Hin. apply dl_incl in Hin. exact (D d x Hin).
  - intros b Hb. apply E. now apply seek_blocks_incl in Hb.
  - exact F.
Qed.
Lemma seek_post s t : posts_asc s -> sc_post (seek t s) = drop_lt t (sc_post s).
Proof.
  intros A. unfold seek. destruct (N.leb_spec t (doc s)) as [H|H]; [|reflexivity].
  unfold doc in H. destruct (sc_post s) as [|[d x] r]; [reflexivity|]. cbn [drop_lt].
  destruct (N.ltb_spec d t); [lia|reflexivity].
Qed.
Lemma mv_seek t s : posts_asc s -> mv t s (seek t s).
Proof. intros A. split; [now apply seek_post|]. unfold seek. now destruct (N.leb t (doc s)). Qed.
Lemma sokT_seek T t s : sokT T s -> sokT T (seek t s).
Proof.
  intros H. unfold seek. destruct (N.leb_spec t (doc s)) as [Hle|Hgt]; [exact H|].
  apply sokT_move; [exact H|reflexivity|]. intros d x Hin. exact (dl_ge _ _ _ _ _ (proj1 H) Hin).
Qed.
Lemma advance_post s : posts_asc s -> sc_post s <> [] -> sc_post (advance s) = drop_lt (doc s + 1) (sc_post s).
Proof.
  unfold posts_asc. intros A Hne. unfold advance, doc. cbn [seek_block sc_post]. revert A.
  destruct (sc_post s) as [|[d x] r] eqn:E; [congruence|]. intros A. cbn [tl]. exact (tl_drop_lt _ _ _ _ A).
Qed.
Lemma mv_advance s : posts_asc s -> sc_post s <> [] -> mv (doc s + 1) s (advance s).
Proof. intros A Hne. split; [now apply advance_post|reflexivity]. Qed.
Lemma sokT_advance T s : sokT T s -> sc_post s <> [] -> sokT T (advance s).
Proof.
  intros H Hne. pose proof H as (A & _). unfold advance.
  destruct (sc_post s) as [|[d x] r] eqn:E; [congruence|]. cbn [tl].
  pose proof A as A0. cbn in A0. destruct A0 as (_ & HdT & Ar).
  destruct r as [|[d2 x2] r2].
  - (* last posting: list becomes empty *)
    destruct H as (A' & B & C & D & E' & F). split; [exact I|]. split; [now apply sb_ok|]. split; [intros ? ? []|].
    split; [intros ? ? []|]. split; [|exact F]. intros b Hb. apply E'. cbn in Hb. now apply seek_blocks_incl in Hb.
  - assert (Ep : (d2, x2) :: r2 = drop_lt d2 (sc_post s)).
    { rewrite E. cbn in Ar. cbn [drop_lt]. destruct (N.ltb_spec d d2); [|lia].
      destruct (N.ltb_spec d2 d2); [lia|reflexivity]. }
    apply sokT_move; [exact H|exact Ep|]. intros d' x' Hin. rewrite Ep in Hin. exact (dl_ge _ _ _ _ _ (proj1 H) Hin).
Qed.

(* consequences of [mv] *)
Lemma mv_has t s s' d : posts_asc s -> mv t s s' -> (has (sc_post s') d <-> has (sc_post s) d /\ (t <= d)%N).
Proof. intros A (E & _). rewrite E. now apply (has_drop_lt 0). Qed.
Lemma mv_sc_at t s s' d : posts_asc s -> mv t s s' -> sc_at (sc_post s') d = if N.ltb d t then 0 else sc_at (sc_post s) d.
Proof. intros A (E & _). rewrite E. now apply (sc_at_drop_lt 0). Qed.
Lemma mv_doc t s s' : posts_asc s -> mv t s s' -> (doc s <= doc s')%N.
Proof. intros A (E & _). unfold doc at 2. exact (doc_drop_lt 0 t s _ A E). Qed.
Lemma mv_len t s s' : mv t s s' -> (length (sc_post s') <= length (sc_post s))%nat.
Proof. intros (E & _). rewrite E. apply dl_len. Qed.
Lemma mv_len_lt t s s' : mv t s s' -> (doc s < t)%N -> (doc s < TERM)%N -> (length (sc_post s') < length (sc_post s))%nat.
Proof.
  intros (E & _) H HT. rewrite E. unfold doc in *. destruct (sc_post s) as [|[d x] r]; [lia|]. now apply drop_lt_len_lt.
Qed.
Lemma doc_lt_TERM_ne s : (doc s < TERM)%N -> sc_post s <> [].
Proof. unfold doc. destruct (sc_post s); [lia|congruence]. Qed.
Lemma doc_le_TERM s : posts_asc s -> (doc s <= TERM)%N.
Proof. unfold posts_asc, doc. destruct (sc_post s) as [|[d x] r]; [lia|]. cbn. lia. Qed.
Lemma has_doc_le s d : posts_asc s -> has (sc_post s) d -> (doc s <= d)%N.
Proof.
  unfold posts_asc, doc. destruct (sc_post s) as [|[d0 x0] r]; [intros _ []|]. intros A H.
  cbn in A. destruct A as (_ & _ & A3). destruct H as [H|H]; [cbn in H; lia|].
  pose proof (asc_has _ _ _ A3 H). lia.
Qed.
Lemma score_at_doc s : sc_post s <> [] -> score s = sc_at (sc_post s) (doc s).
Proof. unfold score, doc. destruct (sc_post s) as [|[d x] r]; [congruence|]. intros _. cbn [sc_at]. now rewrite N.eqb_refl. Qed.
Lemma has_doc s : sc_post s <> [] -> has (sc_post s) (doc s).
Proof. unfold has, doc. destruct (sc_post s) as [|[d x] r]; [congruence|]. intros _. now left. Qed.
