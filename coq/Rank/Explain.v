(* Explanation trees, built the way the Rust explain functions build them (exact rationals).

   Transliterates:
     src/query/explanation.rs                      Explanation {value, description, details}
     src/query/bm25.rs                             Bm25Weight::explain, for_one_term (idf node with n, N), for_terms ("idf" sum node)
     src/query/term_query/term_weight.rs           TermWeight::explain   (specialized_scorer(reader, 1.0), seek, TermScorer::explain)
     src/query/phrase_query/phrase_weight.rs       PhraseWeight::explain ("Phrase Scorer" node, value = scorer.score())
     src/query/boost_query.rs                      BoostWeight::explain  (value = underlying.value() * boost)
     src/query/const_score_query.rs                ConstWeight::explain  (value = self.score, child = underlying explanation)
     src/query/boolean_query/boolean_weight.rs     BooleanWeight::explain (value = scorer(reader, 1.0).score(),
                                                   details = explanations of the Must/Should clauses that match)
   The description strings are represented by the constructor of [edesc]. *)
From Coq Require Import QArith Qminmax Lqa.
From TV Require Import Base.Prelude Generated.Constants Rank.BM25.
Local Open Scope Q_scope.

Inductive edesc :=
| DTermQuery            (* "TermQuery, product of..." *)
| DK1p1                 (* "(K1+1)" *)
| DIdf                  (* "idf, computed as log(1 + (N - n + 0.5) / (n + 0.5))" *)
| DIdfSum               (* "idf" (phrase: sum of the idfs, no details) *)
| Dn | DN               (* "n, number of docs containing this term", "N, total number of docs" *)
| DTf                   (* "freq / (freq + k1 * (1 - b + b * dl / avgdl))" *)
| DFreq | DK1 | DB | DDl | DAvgdl
| DBoost (b : Q)        (* "Boost x{b} of ..." *)
| DConstScore           (* "Const" *)
| DBool (tie : option Q)(* "BooleanClause. sum of ..." ; Some tie: the node of a DisjunctionMaxQuery *)
| DPhrase.              (* "Phrase Scorer" *)

Inductive expl := Expl (v : Q) (de : edesc) (details : list expl).
Definition value (e : expl) : Q := match e with Expl v _ _ => v end.
Definition desc (e : expl) : edesc := match e with Expl _ de _ => de end.
Definition details (e : expl) : list expl := match e with Expl _ _ ds => ds end.
Definition const_node (de : edesc) (v : Q) : expl := Expl v de [].

Section Explain.
  Variable ln : Q -> Q.
  Variable st : stats.

  (* Bm25Weight::for_one_term / for_terms: the idf explanation carried by the weight *)
  Definition idf_explain (ts : list term) : expl :=
    match ts with
    | [t] => Expl (idf_of ln st t) DIdf [const_node Dn (QofN (st_df st t)); const_node DN (QofN (st_N st))]
    | _ => Expl (bw_weight (for_terms ln st ts) / (1 + K1)) DIdfSum []
    end.

  (* Bm25Weight::explain(fieldnorm_id, term_freq) *)
  Definition bm25_explain (w : bm25_weight) (idf_e : expl) (id f : N) : expl :=
    let norm := nth (N.to_nat id) (compute_tf_cache (bw_avg w)) 0 in
    let right_factor := QofN f / (QofN f + norm) in
    Expl (bm25_score w id f) DTermQuery
         [ const_node DK1p1 (K1 + 1);
           idf_e;
           Expl right_factor DTf
                [ const_node DFreq (QofN f); const_node DK1 K1; const_node DB B;
                  const_node DDl (QofN (id_to_fieldnorm id)); const_node DAvgdl (bw_avg w) ] ].

  Definition is_include (o : occur) : bool := match o with MustNot => false | _ => true end.

  Fixpoint explain (q : query) (d : doc) {struct q} : option expl :=
    match q with
    | QTerm t =>
        (* specialized_scorer(reader, 1.0); seek(doc) != doc -> does_not_match *)
        if has_term t d
        then Some (bm25_explain (boost_by (for_terms ln st [t]) 1) (idf_explain [t]) (fieldnorm_id d) (tf t d))
        else None
    | QPhrase ts =>
        if (0 <? phrase_count ts d)%N
        then let w := for_terms ln st ts in
             Some (Expl (bm25_score (boost_by w 1) (fieldnorm_id d) (phrase_count ts d)) DPhrase
                        [bm25_explain w (idf_explain ts) (fieldnorm_id d) (phrase_count ts d)])
        else None
    | QBoost q' b =>
        match explain q' d with
        | Some e => Some (Expl (value e * b) (DBoost b) [e])
        | None => None
        end
    | QConst q' s =>
        match scorer_score ln st (QConst q' s) 1 d with
        | None => None
        | Some _ => match explain q' d with
                    | Some e => Some (Expl s DConstScore [e])
                    | None => None
                    end
        end
    | QBool msm cs =>
        match scorer_score ln st (QBool msm cs) 1 d with
        | None => None
        | Some v =>
            Some (Expl v (DBool None)
                       (flat_map (fun oc => let '(o, c) := oc in
                                            if is_include o then match explain c d with Some e => [e] | None => [] end else [])
                                 cs))
        end
    | QDisMax qs tie =>
        match scorer_score ln st (QDisMax qs tie) 1 d with
        | None => None
        | Some v =>
            Some (Expl v (DBool (Some tie))
                       (flat_map (fun c => match explain c d with Some e => [e] | None => [] end) qs))
        end
    end.

  Definition ovalue (o : option expl) : option Q := match o with Some e => Some (value e) | None => None end.

  (* explain() succeeds exactly on the matching documents and its value is the reported score *)
  Theorem explain_agrees q d : wfq q -> orel Qeq (score ln st q d) (ovalue (explain q d)).
  Proof.
    unfold score.
    induction q as [t|ts|q b IH|q s IH|msm cs IH|qs tie IH] using query_ind'; intros Hwf.
    - cbn [scorer_score explain]. destruct (has_term t d); [|exact I]. cbn [ovalue orel value bm25_explain]. reflexivity.
    - cbn [scorer_score explain]. destruct (0 <? phrase_count ts d)%N; [|exact I]. cbn [ovalue orel value]. reflexivity.
    - destruct Hwf as [Hb Hwf]. specialize (IH Hwf). cbn [explain].
      pose proof (scorer_is_formula ln st q d Hwf 1 ltac:(lra)) as H1.
      pose proof (scorer_is_formula ln st q d Hwf (1 * b) ltac:(lra)) as Hb'.
      cbn [scorer_score].
      destruct (explain q d) as [e|]; cbn [ovalue orel value] in *;
        destruct (scorer_score ln st q 1 d) as [x|]; try contradiction;
        destruct (formula ln st q d) as [fx|]; cbn [orel] in H1; try contradiction;
        destruct (scorer_score ln st q (1 * b) d) as [x'|]; cbn [orel] in Hb'; try contradiction; try exact I.
      cbn [orel] in *. unfold scaled in *. rewrite Hb', <- IH, H1. ring.
    - cbn [wfq] in Hwf. specialize (IH Hwf). cbn [explain]. cbn [scorer_score].
      destruct (scorer_score ln st q 1 d) as [x|]; destruct (explain q d) as [e|]; cbn [ovalue orel value] in *;
        try contradiction; try exact I. ring.
    - cbn [explain]. destruct (scorer_score ln st (QBool msm cs) 1 d) as [v|]; cbn [ovalue orel value]; [reflexivity|exact I].
    - cbn [explain]. destruct (scorer_score ln st (QDisMax qs tie) 1 d) as [v|]; cbn [ovalue orel value]; [reflexivity|exact I].
  Qed.

  (* ---------------------------------------------------------------------------------------- *)
  (** Internal consistency of the breakdown: each node's value is the stated function of its details. *)

  Definition node_law (e : expl) : Prop :=
    match e with
    | Expl v DTermQuery [k; i; t] => v == value k * value i * value t
    | Expl v DTf [f; k1; b; dl; avg] =>
        v == value f / (value f + value k1 * (1 - value b + value b * value dl / value avg))
    | Expl v DIdf [n; N] => v == ln (1 + (value N - value n + (1 # 2)) / (value n + (1 # 2)))
    | Expl v (DBoost b) [c] => v == value c * b
    | Expl v DPhrase [c] => v == value c
    | Expl v DConstScore [c] => True
    | Expl v (DBool None) ds => v == sum_combiner (map value ds)
    | Expl v (DBool (Some tie)) ds =>
        (* the dis-max of the details; a query with a single disjunct is that disjunct's scorer itself *)
        v == dismax_combiner tie (map value ds) \/ exists c, ds = [c] /\ v == value c
    | Expl v DK1p1 [] => v == K1 + 1
    | Expl v DK1 [] => v == K1
    | Expl v DB [] => v == B
    | Expl _ (DIdfSum | Dn | DN | DFreq | DDl | DAvgdl) [] => True
    | _ => False
    end.

  Fixpoint consistent (e : expl) : Prop :=
    node_law e /\
    (fix all (l : list expl) : Prop := match l with [] => True | x :: r => consistent x /\ all r end) (details e).

  Lemma consistent_unfold e : consistent e <-> node_law e /\ Forall consistent (details e).
  Proof.
    destruct e as [v de ds]. cbn [consistent details]. split; intros [H1 H2]; (split; [exact H1|]); clear H1.
    - induction ds as [|x r IH]; [constructor|]. destruct H2 as [Hx Hr]. constructor; [exact Hx|now apply IH].
    - induction ds as [|x r IH]; [exact I|]. inversion H2 as [|? ? Hx Hr]; subst. split; [exact Hx|apply IH; exact Hr].
  Qed.
End Explain.

(* ------------------------------------------------------------------------------------------ *)
(** * Every explanation the model builds is internally consistent *)

Section Consistent.
  Variable ln : Q -> Q.
  Variable st : stats.
  Hypothesis ln_proper : forall x y, x == y -> ln x == ln y.
  Hypothesis df_le_N : forall t, (st_df st t <= st_N st)%N.

  Lemma QofN_sub a b : (b <= a)%N -> QofN (a - b) == QofN a - QofN b.
  Proof. intros H. unfold QofN. rewrite N2Z.inj_sub by exact H. unfold Zminus. rewrite inject_Z_plus, inject_Z_opp. reflexivity. Qed.

  Lemma idf_explain_consistent ts : consistent ln (idf_explain ln st ts).
  Proof.
    unfold idf_explain. destruct ts as [|t [|t' r]]; cbn; try (split; exact I).
    split; [|repeat split]. unfold idf_of, idf. apply ln_proper.
    rewrite (QofN_sub _ _ (df_le_N t)). reflexivity.
  Qed.

  Lemma leaf_consistent de v : node_law ln (Expl v de []) -> consistent ln (const_node de v).
  Proof. intros H. apply consistent_unfold. split; [exact H|constructor]. Qed.

  Lemma bm25_explain_consistent w ie id f : (id < BM25_TF_CACHE_LEN)%N ->
    value ie * (1 + K1) == bw_weight w -> consistent ln ie -> consistent ln (bm25_explain w ie id f).
  Proof.
    intros Hid Hw Hie. unfold bm25_explain. cbv zeta. rewrite cache_nth by exact Hid.
    apply consistent_unfold. split.
    - cbn [node_law value const_node]. unfold bm25_score. rewrite tf_factor_eq by exact Hid. rewrite <- Hw. ring.
    - cbn [details]. constructor; [|constructor; [exact Hie|constructor; [|constructor]]].
      + apply leaf_consistent. cbn [node_law]. reflexivity.
      + apply consistent_unfold. split.
        * cbn [node_law const_node value]. unfold cached_tf_component. reflexivity.
        * cbn [details]. repeat (constructor; [apply leaf_consistent; cbn [node_law]; try reflexivity; exact I|]). constructor.
  Qed.

  (* the details of a boolean node are the explanations of its matching include clauses: their values
     are the clause scores the combiner folded *)
  Lemma bool_children cs d : Forall (fun oc => wfq (snd oc)) cs ->
    Forall2 Qeq
      (included (map (fun oc : occur * query => let '(o, c) := oc in (o, scorer_score ln st c 1 d)) cs))
      (map value (flat_map (fun oc : occur * query => let '(o, c) := oc in
                    if is_include o then match explain ln st c d with Some e => [e] | None => [] end else []) cs)).
  Proof.
    induction 1 as [|[o c] cs Hw _ IH]; [constructor|]. cbn [snd] in Hw.
    cbn [map flat_map]. unfold included in *. cbn [flat_map]. rewrite map_app.
    pose proof (explain_agrees ln st c d Hw) as A. unfold score in A.
    destruct o; cbn [is_include];
      destruct (scorer_score ln st c 1 d) as [x|], (explain ln st c d) as [e|]; cbn [ovalue orel] in A; try contradiction;
      cbn [app map]; try exact IH; constructor; assumption.
  Qed.

  Lemma dismax_children qs d : Forall wfq qs ->
    Forall2 Qeq
      (included (map (fun c => (Should, scorer_score ln st c 1 d)) qs))
      (map value (flat_map (fun c => match explain ln st c d with Some e => [e] | None => [] end) qs)).
  Proof.
    induction 1 as [|c qs Hw _ IH]; [constructor|].
    cbn [map flat_map]. unfold included in *. cbn [flat_map]. rewrite map_app.
    pose proof (explain_agrees ln st c d Hw) as A. unfold score in A.
    destruct (scorer_score ln st c 1 d) as [x|], (explain ln st c d) as [e|]; cbn [ovalue orel] in A; try contradiction;
      cbn [app map]; try exact IH; constructor; assumption.
  Qed.

  Lemma flat_map_Forall {A B} (P : B -> Prop) (f : A -> list B) l : Forall (fun x => Forall P (f x)) l -> Forall P (flat_map f l).
  Proof. induction 1 as [|x l H _ IH]; cbn [flat_map]; [constructor|]. apply Forall_app. split; assumption. Qed.

  Theorem explain_consistent q d : wfq q -> forall e, explain ln st q d = Some e -> consistent ln e.
  Proof.
    induction q as [t|ts|q b IH|q s IH|msm cs IH|qs tie IH] using query_ind'; intros Hwf e He; cbn [explain] in He.
    - destruct (has_term t d); [|discriminate]. injection He as <-.
      apply bm25_explain_consistent; [apply fieldnorm_id_lt| |exact (idf_explain_consistent [t])].
      unfold boost_by, for_terms, bm25_new, idf_explain. cbn [bw_weight value]. ring.
    - destruct (0 <? phrase_count ts d)%N; [|discriminate]. injection He as <-.
      apply consistent_unfold. split.
      + cbn [node_law value bm25_explain]. unfold bm25_score, boost_by. cbn [bw_weight bw_avg]. ring.
      + cbn [details]. constructor; [|constructor].
        apply bm25_explain_consistent; [apply fieldnorm_id_lt| |exact (idf_explain_consistent ts)].
        unfold idf_explain, for_terms, bm25_new. destruct ts as [|t [|t' r]]; cbn [bw_weight value]; try ring;
          field; apply one_plus_K1_nz.
    - destruct Hwf as [Hb Hwf]. destruct (explain ln st q d) as [e'|] eqn:E; [|discriminate]. injection He as <-.
      apply consistent_unfold. split; [cbn [node_law value]; reflexivity|]. cbn [details]. constructor; [|constructor]. now apply IH.
    - cbn [wfq] in Hwf. destruct (scorer_score ln st (QConst q s) 1 d); [|discriminate].
      destruct (explain ln st q d) as [e'|] eqn:E; [|discriminate]. injection He as <-.
      apply consistent_unfold. split; [exact I|]. cbn [details]. constructor; [|constructor]. now apply IH.
    - apply wfq_bool in Hwf. destruct (scorer_score ln st (QBool msm cs) 1 d) as [v|] eqn:E; [|discriminate]. injection He as <-.
      apply consistent_unfold. split.
      + cbn [node_law]. pose proof (bool_children cs d Hwf) as C. cbn [scorer_score] in E.
        destruct cs as [|[o c] [|c2 cs]].
        * discriminate.
        * cbn [map bool_score] in E. unfold included in C. cbn [map flat_map app] in C |- *.
          rewrite app_nil_r in *.
          destruct o; try discriminate; rewrite E in C; cbn [is_include] in *;
            destruct (explain ln st c d) as [e'|]; inversion C; subst; cbn [map];
            unfold sum_combiner; cbn [fold_left]; match goal with H : _ == _ |- _ => rewrite <- H end; ring.
        * remember (c2 :: cs) as rest. unfold bool_score in E. cbn [map] in E. rewrite Heqrest in E. cbn [map] in E.
          rewrite Heqrest in C. cbn [map] in C.
          destruct (existsb must_missing _); [discriminate|]. destruct (existsb not_hit _); [discriminate|].
          destruct (_ && _); [|discriminate]. injection E as <-. rewrite Heqrest. apply sum_combiner_proper. exact C.
      + cbn [details]. apply flat_map_Forall.
        clear E. induction cs as [|[o c] cs IHcs]; [constructor|].
        inversion IH as [|? ? IH1 IH2]; subst. inversion Hwf as [|? ? W1 W2]; subst. cbn [snd] in *.
        constructor; [|now apply IHcs].
        destruct (is_include o); [|constructor]. destruct (explain ln st c d) as [e'|] eqn:E'; [|constructor].
        constructor; [|constructor]. now apply IH1.
    - apply wfq_dismax in Hwf. destruct (scorer_score ln st (QDisMax qs tie) 1 d) as [v|] eqn:E; [|discriminate]. injection He as <-.
      apply consistent_unfold. split.
      + cbn [node_law]. pose proof (dismax_children qs d Hwf) as C. cbn [scorer_score] in E.
        destruct qs as [|c [|c2 qs]].
        * discriminate.
        * right. cbn [map bool_score] in E. unfold included in C. cbn [map flat_map app] in C |- *.
          rewrite app_nil_r in *. rewrite E in C.
          destruct (explain ln st c d) as [e'|]; inversion C; subst. exists e'. split; [reflexivity|assumption].
        * left. remember (c2 :: qs) as rest. unfold bool_score in E. cbn [map] in E. rewrite Heqrest in E. cbn [map] in E.
          rewrite Heqrest in C. cbn [map] in C.
          destruct (existsb must_missing _); [discriminate|]. destruct (existsb not_hit _); [discriminate|].
          destruct (_ && _); [|discriminate]. injection E as <-. rewrite Heqrest. apply dismax_combiner_proper. exact C.
      + cbn [details]. apply flat_map_Forall.
        clear E. induction qs as [|c qs IHqs]; [constructor|].
        inversion IH as [|? ? IH1 IH2]; subst. inversion Hwf as [|? ? W1 W2]; subst.
        constructor; [|now apply IHqs].
        destruct (explain ln st c d) as [e'|] eqn:E'; [|constructor].
        constructor; [|constructor]. now apply IH1.
  Qed.
End Consistent.

(* ------------------------------------------------------------------------------------------ *)
(** * The seek issued by Weight::explain on its fresh scorer

    A fresh scorer stands on the clause's first matching document of the segment.  DocSet::seek(target)
    requires target >= doc() (TermScorer and PhraseScorer debug_assert it).  TermWeight::explain tests
    `scorer.doc() > doc` first; PhraseWeight, ConstWeight and BooleanWeight::explain seek unconditionally. *)
Definition explain_seek_calls (guarded : bool) (first target : N) : list (N * N) :=   (* (doc(), target) of each seek *)
  if guarded && (target <? first)%N then [] else [(first, target)].
Definition seek_pre (c : N * N) : bool := (fst c <=? snd c)%N.

Lemma guarded_explain_respects_seek_contract first target :
  forallb seek_pre (explain_seek_calls true first target) = true.
Proof.
  unfold explain_seek_calls. cbn [andb]. destruct (target <? first)%N eqn:E; [reflexivity|].
  cbn [forallb]. unfold seek_pre. cbn [fst snd]. apply N.ltb_ge in E. rewrite andb_true_r. now apply N.leb_le.
Qed.

Lemma unguarded_explain_violates_iff first target :
  forallb seek_pre (explain_seek_calls false first target) = false <-> known_f42 target [first] = true.
Proof.
  unfold explain_seek_calls, known_f42. cbn [andb forallb existsb]. unfold seek_pre. cbn [fst snd].
  rewrite andb_true_r, orb_false_r, N.leb_gt, N.ltb_lt. tauto.
Qed.
