From TV Require Import Base.Prelude Generated.Constants Rank.Wand Rank.WandUnionBase.
Local Open Scope Z_scope.

(* Rank/WandUnionMerge.v -- specification of the exhaustive union [merge_post] / [union_postings]
   (Rank/Wand.v, Section Union) as a partial function doc -> total score. *)

Lemma merge_post_nil_l b : merge_post [] b = b.
Proof. destruct b; reflexivity. Qed.
Lemma merge_post_nil_r a : merge_post a [] = a.
Proof. destruct a as [|[d x] r]; reflexivity. Qed.

Lemma merge_post_cons_cons da xa ra db xb rb :
  merge_post ((da, xa) :: ra) ((db, xb) :: rb) =
  if N.ltb da db then (da, xa) :: merge_post ra ((db, xb) :: rb)
  else if N.ltb db da then (db, xb) :: merge_post ((da, xa) :: ra) rb
  else (da, xa + xb) :: merge_post ra rb.
Proof. reflexivity. Qed.

Lemma has_cons d' x r d : has ((d', x) :: r) d <-> d' = d \/ has r d.
Proof. unfold has. cbn [map fst In]. tauto. Qed.

Lemma sc_at_above lo p d : asc_from lo p -> (d < lo)%N -> sc_at p d = 0.
Proof.
  intros A H. apply sc_at_not_has. intro Hh. pose proof (asc_has _ _ _ A Hh). lia.
Qed.

Lemma merge_post_gen : forall a b lo, asc_from lo a -> asc_from lo b ->
  asc_from lo (merge_post a b) /\
  forall d, (has (merge_post a b) d <-> has a d \/ has b d) /\ sc_at (merge_post a b) d = sc_at a d + sc_at b d.
Proof.
  induction a as [|[da xa] ra IHa].
  - intros b lo _ B. rewrite merge_post_nil_l. split; [exact B|]. intros d. split.
    + unfold has at 2. cbn [map In]. tauto.
    + cbn [sc_at]. lia.
  - induction b as [|[db xb] rb IHb]; intros lo A B.
    + rewrite merge_post_nil_r. split; [exact A|]. intros d. split.
      * unfold has at 3. cbn [map In]. tauto.
      * cbn [sc_at]. lia.
    + rewrite merge_post_cons_cons.
      pose proof A as A'. pose proof B as B'.
      cbn [asc_from] in A', B'. destruct A' as (A1 & A2 & A3). destruct B' as (B1 & B2 & B3).
      destruct (N.ltb_spec da db) as [Hlt|Hge].
      * assert (Bd : asc_from (da + 1) ((db, xb) :: rb)).
        { cbn [asc_from]. repeat split; auto; lia. }
        destruct (IHa _ _ A3 Bd) as (M1 & M2). split.
        -- cbn [asc_from]. repeat split; auto.
        -- intros d. destruct (M2 d) as (Mh & Ms). split.
           ++ rewrite has_cons, Mh, (has_cons da xa ra d). tauto.
           ++ cbn [sc_at] in Ms |- *. destruct (N.eqb_spec da d) as [E|E].
              ** subst d. destruct (N.eqb_spec db da); [lia|].
                 rewrite (sc_at_above (db + 1) rb da) by (try lia; exact B3). lia.
              ** exact Ms.
      * destruct (N.ltb_spec db da) as [Hlt|Hge'].
        -- assert (Ad : asc_from (db + 1) ((da, xa) :: ra)).
           { cbn [asc_from]. repeat split; auto; lia. }
           destruct (IHb _ Ad B3) as (M1 & M2). split.
           ++ cbn [asc_from]. repeat split; auto.
           ++ intros d. destruct (M2 d) as (Mh & Ms). split.
              ** rewrite has_cons, Mh, (has_cons db xb rb d). tauto.
              ** cbn [sc_at] in Ms |- *. destruct (N.eqb_spec db d) as [E|E].
                 --- subst d. destruct (N.eqb_spec da db); [lia|].
                     assert (A3' : asc_from (db + 1) ra) by (eapply asc_weaken; [|exact A3]; lia).
                     rewrite (sc_at_above (db + 1) ra db A3') by lia. lia.
                 --- exact Ms.
        -- assert (da = db) by lia. subst db.
           destruct (IHa _ _ A3 B3) as (M1 & M2). split.
           ++ cbn [asc_from]. repeat split; auto.
           ++ intros d. destruct (M2 d) as (Mh & Ms). split.
              ** rewrite has_cons, Mh, (has_cons da xa ra d), (has_cons da xb rb d). tauto.
              ** cbn [sc_at]. destruct (N.eqb_spec da d); [lia|exact Ms].
Qed.

Lemma merge_post_spec a b : asc_from 0 a -> asc_from 0 b ->
  asc_from 0 (merge_post a b) /\
  forall d, (has (merge_post a b) d <-> has a d \/ has b d) /\ sc_at (merge_post a b) d = sc_at a d + sc_at b d.
Proof. apply merge_post_gen. Qed.

Lemma union_postings_cons s r : union_postings (s :: r) = merge_post (sc_post s) (union_postings r).
Proof. reflexivity. Qed.

Theorem union_postings_spec scs : Forall posts_asc scs ->
  asc_from 0 (union_postings scs) /\
  forall d, (has (union_postings scs) d <-> present scs d) /\ sc_at (union_postings scs) d = cur scs d.
Proof.
  induction 1 as [|s r Hs Hr IH].
  - split; [exact I|]. intros d. split; [|reflexivity]. unfold present. split.
    + intros [].
    + intros H. inversion H.
  - destruct IH as (I1 & I2). rewrite union_postings_cons.
    destruct (merge_post_spec (sc_post s) (union_postings r) Hs I1) as (M1 & M2).
    split; [exact M1|]. intros d. destruct (M2 d) as (Mh & Ms). destruct (I2 d) as (Ih & Is). split.
    + rewrite Mh, Ih. unfold present. rewrite Exists_cons. tauto.
    + rewrite Ms, Is. unfold cur. cbn [map zsum]. reflexivity.
Qed.

Theorem union_postings_live scs : Forall posts_asc scs ->
  union_postings (filter (fun s => N.ltb (doc s) TERM) scs) = union_postings scs.
Proof.
  induction 1 as [|s r Hs Hr IH]; [reflexivity|].
  cbn [filter]. destruct (N.ltb_spec (doc s) TERM) as [Hlt|Hge].
  - rewrite !union_postings_cons, IH. reflexivity.
  - rewrite union_postings_cons, IH.
    assert (E : sc_post s = []).
    { unfold posts_asc in Hs. unfold doc in Hge. destruct (sc_post s) as [|[d x] p]; [reflexivity|].
      cbn [asc_from] in Hs. lia. }
    rewrite E, merge_post_nil_l. reflexivity.
Qed.
