(* Rank/TopN.v -- model of tantivy's TopNComputer (src/collector/top_score_collector.rs) and the
   specification of "the best n elements".

   An element is a pair (sort key, address).  Addresses are N (DocId, or DocAddress encoded as
   segment_ord * 2^32 + doc_id -- the derived Ord of DocAddress is exactly that lexicographic order).
   The comparator is an arbitrary total preorder on keys (Section variable [kcmp], "Gt" = the left
   key is better, as in `Comparator::compare`): NaturalComparator, ReverseComparator,
   ReverseNoneIsLower..., are instances (see Rank/Paging.v for the concrete ones used by the harness).

   std's `select_nth_unstable_by` and `sort_unstable_by` are NOT modelled: they are Section
   variables with their documented contracts as Section hypotheses. *)
From TV Require Import Base.Prelude Generated.Constants.
From Coq Require Import Sorting.Sorted Sorting.Permutation.


Lemma nodup_app_l {A} (l1 l2 : list A) : NoDup (l1 ++ l2) -> NoDup l1.
Proof.
  induction l1 as [|x r IH]; intros H; [constructor|]. cbn [app] in H. inversion H as [|? ? Hn Hr]; subst.
  constructor; [|now apply IH]. intro Hin. apply Hn. apply in_or_app. now left.
Qed.
Lemma nodup_app_r {A} (l1 l2 : list A) : NoDup (l1 ++ l2) -> NoDup l2.
Proof. induction l1 as [|x r IH]; intros H; [exact H|]. cbn [app] in H. inversion H; subst. now apply IH. Qed.

Lemma perm_move_last {A} (a c : list A) x : Permutation ((a ++ c) ++ [x]) ((a ++ [x]) ++ c).
Proof. rewrite <- !app_assoc. apply Permutation_app_head. apply Permutation_app_comm. Qed.

Section Order.
  Variable K : Type.
  Variable kcmp : K -> K -> comparison.
  (* total preorder: `compare` is antisymmetric and "not worse than" is transitive *)
  Hypothesis kcmp_opp : forall a b, kcmp b a = CompOpp (kcmp a b).
  Hypothesis kcmp_le_trans : forall a b c, kcmp a b <> Gt -> kcmp b c <> Gt -> kcmp a c <> Gt.

  Definition elt : Type := (K * N)%type.
  Definition key (x : elt) : K := fst x.
  Definition addr (x : elt) : N := snd x.

  (* compare_for_top_k: c.compare(lhs.key, rhs.key).reverse().then_with(|| lhs.doc.cmp(rhs.doc)) *)
  Definition ecmp (x y : elt) : comparison :=
    match kcmp (key x) (key y) with
    | Gt => Lt
    | Lt => Gt
    | Eq => N.compare (addr x) (addr y)
    end.
  Definition eleb (x y : elt) : bool := match ecmp x y with Gt => false | _ => true end.
  Definition ele (x y : elt) : Prop := ecmp x y <> Gt.
  Definition elt_lt (x y : elt) : Prop := ecmp x y = Lt.

  Lemma eleb_ele x y : eleb x y = true <-> ele x y.
  Proof. unfold eleb, ele. destruct (ecmp x y); split; congruence. Qed.

  Lemma kcmp_refl a : kcmp a a = Eq.
  Proof. pose proof (kcmp_opp a a) as H. destruct (kcmp a a); simpl in H; congruence. Qed.

  Lemma ecmp_opp x y : ecmp y x = CompOpp (ecmp x y).
  Proof.
    unfold ecmp. rewrite (kcmp_opp (key x) (key y)).
    destruct (kcmp (key x) (key y)); simpl; try reflexivity.
    apply N.compare_antisym.
  Qed.

  Lemma ele_total x y : ele x y \/ ele y x.
  Proof. unfold ele. rewrite (ecmp_opp x y). destruct (ecmp x y); simpl; [left|left|right]; discriminate. Qed.

  Lemma not_ele_lt x y : ~ ele x y -> elt_lt y x.
  Proof.
    unfold ele, elt_lt. rewrite (ecmp_opp x y).
    destruct (ecmp x y); simpl; intros H; try reflexivity; exfalso; apply H; discriminate.
  Qed.

  Lemma elt_lt_ele x y : elt_lt x y -> ele x y.
  Proof. unfold elt_lt, ele. intros ->. congruence. Qed.

  Lemma elt_lt_not_ele x y : elt_lt x y -> ~ ele y x.
  Proof. unfold elt_lt, ele. rewrite (ecmp_opp x y). intros ->. simpl. congruence. Qed.

  (* consequences of the preorder axioms on keys *)
  Lemma kcmp_ge_trans a b c : kcmp a b <> Lt -> kcmp b c <> Lt -> kcmp a c <> Lt.
  Proof.
    intros H1 H2. pose proof (kcmp_le_trans c b a) as T.
    rewrite (kcmp_opp a b) in T. rewrite (kcmp_opp b c) in T. rewrite (kcmp_opp a c) in T.
    destruct (kcmp a b), (kcmp b c), (kcmp a c); simpl in *; try congruence;
      exfalso; apply T; congruence.
  Qed.

  Lemma kcmp_gt_ge_trans a b c : kcmp a b = Gt -> kcmp b c <> Lt -> kcmp a c = Gt.
  Proof.
    intros H1 H2. pose proof (kcmp_ge_trans a b c) as T.
    destruct (kcmp a c) eqn:E; try reflexivity.
    - (* a ~ c, so c >= a > b >= c *) exfalso.
      pose proof (kcmp_ge_trans b c a) as T2. rewrite (kcmp_opp a c), E in T2. simpl in T2.
      rewrite (kcmp_opp a b), H1 in T2. simpl in T2. apply T2; congruence.
    - exfalso. apply T; congruence.
  Qed.

  Lemma kcmp_ge_gt_trans a b c : kcmp a b <> Lt -> kcmp b c = Gt -> kcmp a c = Gt.
  Proof.
    intros H1 H2. pose proof (kcmp_ge_trans a b c) as T.
    destruct (kcmp a c) eqn:E; try reflexivity.
    - exfalso.
      pose proof (kcmp_ge_trans c a b) as T2. rewrite (kcmp_opp a c), E in T2. simpl in T2.
      rewrite (kcmp_opp b c), H2 in T2. simpl in T2. apply T2; congruence.
    - exfalso. apply T; congruence.
  Qed.

  Lemma kcmp_eq_trans a b c : kcmp a b = Eq -> kcmp b c = Eq -> kcmp a c = Eq.
  Proof.
    intros H1 H2.
    pose proof (kcmp_ge_trans a b c) as T1. pose proof (kcmp_le_trans a b c) as T2.
    destruct (kcmp a c); try reflexivity; exfalso; [apply T1|apply T2]; congruence.
  Qed.

  Lemma ele_refl x : ele x x.
  Proof. unfold ele, ecmp. rewrite kcmp_refl, N.compare_refl. congruence. Qed.

  Lemma ele_trans x y z : ele x y -> ele y z -> ele x z.
  Proof.
    unfold ele, ecmp. intros H1 H2.
    destruct (kcmp (key x) (key y)) eqn:E1; try congruence;
    destruct (kcmp (key y) (key z)) eqn:E2; try congruence.
    - rewrite (kcmp_eq_trans _ _ _ E1 E2).
      intro C. apply N.compare_gt_iff in C.
      destruct (N.compare_spec (addr x) (addr y)); destruct (N.compare_spec (addr y) (addr z)); try congruence; lia.
    - rewrite (kcmp_ge_gt_trans (key x) (key y) (key z)); congruence.
    - rewrite (kcmp_gt_ge_trans (key x) (key y) (key z)); congruence.
    - rewrite (kcmp_gt_ge_trans (key x) (key y) (key z)); congruence.
  Qed.

  Lemma elt_lt_le_trans x y z : elt_lt x y -> ele y z -> elt_lt x z.
  Proof.
    intros H1 H2. apply not_ele_lt. intro H3.
    apply (elt_lt_not_ele _ _ H1). eapply ele_trans; eauto.
  Qed.

  Lemma elt_le_lt_trans x y z : ele x y -> elt_lt y z -> elt_lt x z.
  Proof.
    intros H1 H2. apply not_ele_lt. intro H3.
    apply (elt_lt_not_ele _ _ H2). eapply ele_trans; eauto.
  Qed.

  Lemma elt_lt_trans x y z : elt_lt x y -> elt_lt y z -> elt_lt x z.
  Proof. intros H1 H2. eapply elt_lt_le_trans; eauto using elt_lt_ele. Qed.

  Lemma ecmp_eq_addr x y : ecmp x y = Eq -> addr x = addr y.
  Proof. unfold ecmp. destruct (kcmp (key x) (key y)); try discriminate. apply N.compare_eq. Qed.

  (* two comparable-in-both-directions elements have the same address *)
  Lemma ele_antisym_addr x y : ele x y -> ele y x -> addr x = addr y.
  Proof.
    unfold ele. rewrite (ecmp_opp x y). intros H1 H2. apply ecmp_eq_addr.
    destruct (ecmp x y); simpl in *; congruence.
  Qed.

  Lemma ele_neq_lt x y : ele x y -> addr x <> addr y -> elt_lt x y.
  Proof.
    intros H1 H2. unfold elt_lt. unfold ele in H1.
    destruct (ecmp x y) eqn:E; try congruence. apply ecmp_eq_addr in E. contradiction.
  Qed.

  (* a key that is not worse, pushed at a smaller address, wins *)
  Lemma key_ge_addr_lt x y : kcmp (key x) (key y) <> Lt -> (addr x < addr y)%N -> elt_lt x y.
  Proof.
    unfold elt_lt, ecmp. intros H1 H2. destruct (kcmp (key x) (key y)); try congruence; now apply N.compare_lt_iff.
  Qed.
  Lemma key_gt_lt x y : kcmp (key x) (key y) = Gt -> elt_lt x y.
  Proof. unfold elt_lt, ecmp. now intros ->. Qed.
  Lemma ele_key_ge x y : ele x y -> kcmp (key x) (key y) <> Lt.
  Proof. unfold ele, ecmp. destruct (kcmp (key x) (key y)); congruence. Qed.

  (* ---------------------------------------------------------------- sorting (specification) *)
  Fixpoint insert (x : elt) (l : list elt) : list elt :=
    match l with
    | [] => [x]
    | y :: r => if eleb x y then x :: l else y :: insert x r
    end.
  Fixpoint isort (l : list elt) : list elt :=
    match l with [] => [] | x :: r => insert x (isort r) end.

  Lemma insert_perm x l : Permutation (insert x l) (x :: l).
  Proof.
    induction l as [|y r IH]; cbn [insert]; [reflexivity|].
    destruct (eleb x y); [reflexivity|]. rewrite IH. apply perm_swap.
  Qed.
  Lemma isort_perm l : Permutation (isort l) l.
  Proof. induction l as [|x r IH]; cbn [isort]; [constructor|]. rewrite insert_perm. now constructor. Qed.

  Definition sorted (l : list elt) : Prop := StronglySorted ele l.

  Lemma insert_sorted x l : sorted l -> sorted (insert x l).
  Proof.
    unfold sorted. induction l as [|y r IH]; intros Hs; cbn [insert].
    - repeat constructor.
    - destruct (eleb x y) eqn:E.
      + apply eleb_ele in E. constructor; [exact Hs|]. constructor; [exact E|].
        inversion Hs as [|? ? ? Hall]; subst. eapply Forall_impl; [|exact Hall].
        intros z Hz. eapply ele_trans; eauto.
      + inversion Hs as [|? ? Hr Hall]; subst. constructor; [apply IH; exact Hr|].
        assert (Hyx : ele y x).
        { destruct (ele_total x y) as [H|H]; [apply eleb_ele in H; congruence|exact H]. }
        rewrite (Permutation_Forall (P := ele y) (insert_perm x r) ) || idtac.
        eapply Permutation_Forall; [symmetry; apply insert_perm|]. constructor; assumption.
  Qed.
  Lemma isort_sorted l : sorted (isort l).
  Proof. induction l as [|x r IH]; cbn [isort]; [constructor|]. now apply insert_sorted. Qed.

  Lemma isort_length l : length (isort l) = length l.
  Proof. apply Permutation_length, isort_perm. Qed.

  (* uniqueness of the sorted arrangement when addresses are pairwise different *)
  Definition addrs (l : list elt) : list N := map addr l.

  Lemma in_addrs x l : In x l -> In (addr x) (addrs l).
  Proof. apply in_map. Qed.

  Lemma nodup_addr_inj l x y : NoDup (addrs l) -> In x l -> In y l -> addr x = addr y -> x = y.
  Proof.
    unfold addrs. induction l as [|z r IH]; intros Hnd Hx Hy E; [contradiction|].
    cbn [map] in Hnd. inversion Hnd as [|? ? Hnot Hnd']; subst.
    destruct Hx as [->|Hx], Hy as [->|Hy]; try reflexivity.
    - exfalso. apply Hnot. rewrite E. now apply in_map.
    - exfalso. apply Hnot. rewrite <- E. now apply in_map.
    - now apply IH.
  Qed.

  Lemma sorted_unique l1 l2 :
    sorted l1 -> sorted l2 -> Permutation l1 l2 -> NoDup (addrs l1) -> l1 = l2.
  Proof.
    unfold sorted. revert l2. induction l1 as [|x r IH]; intros l2 H1 H2 Hp Hnd.
    - apply Permutation_nil in Hp. now subst.
    - destruct l2 as [|y r2]; [apply Permutation_sym, Permutation_nil in Hp; discriminate|].
      inversion H1 as [|? ? Hr Hall1]; subst. inversion H2 as [|? ? Hr2 Hall2]; subst.
      assert (Hxy : x = y).
      { assert (Hy : In y (x :: r)) by (eapply Permutation_in; [symmetry; exact Hp|now left]).
        assert (Hx : In x (y :: r2)) by (eapply Permutation_in; [exact Hp|now left]).
        destruct Hy as [->|Hy]; [reflexivity|]. destruct Hx as [->|Hx]; [reflexivity|].
        rewrite Forall_forall in Hall1, Hall2.
        apply (nodup_addr_inj (x :: r)); [exact Hnd|now left|now right|].
        apply ele_antisym_addr; [apply Hall1; exact Hy|apply Hall2; exact Hx]. }
      subst y. f_equal. apply IH; [assumption|assumption|eapply Permutation_cons_inv; exact Hp|].
      cbn [addrs map] in Hnd. now inversion Hnd.
  Qed.

  Lemma sorted_app l1 l2 :
    sorted l1 -> sorted l2 -> (forall x y, In x l1 -> In y l2 -> ele x y) -> sorted (l1 ++ l2).
  Proof.
    unfold sorted. induction l1 as [|x r IH]; intros H1 H2 H; [exact H2|].
    inversion H1 as [|? ? Hr Hall]; subst. cbn [app]. constructor.
    - apply IH; [assumption|assumption|]. intros a b Ha Hb. apply H; [now right|assumption].
    - apply Forall_app. split; [assumption|]. apply Forall_forall. intros b Hb. apply H; [now left|assumption].
  Qed.

  Lemma sorted_app_inv l1 l2 : sorted (l1 ++ l2) ->
    sorted l1 /\ sorted l2 /\ (forall x y, In x l1 -> In y l2 -> ele x y).
  Proof.
    unfold sorted. induction l1 as [|x r IH]; intros H.
    - split; [constructor|]. split; [exact H|]. intros ? ? [].
    - cbn [app] in H. inversion H as [|? ? Hr Hall]; subst. destruct (IH Hr) as (S1 & S2 & S3).
      apply Forall_app in Hall. destruct Hall as [A1 A2]. rewrite Forall_forall in A2.
      split; [constructor; assumption|]. split; [assumption|].
      intros a b [->|Ha] Hb; [now apply A2|now apply S3].
  Qed.

  Lemma sorted_firstn n l : sorted l -> sorted (firstn n l).
  Proof. intros H. rewrite <- (firstn_skipn n l) in H. now apply sorted_app_inv in H. Qed.
  Lemma sorted_skipn n l : sorted l -> sorted (skipn n l).
  Proof. intros H. rewrite <- (firstn_skipn n l) in H. now apply sorted_app_inv in H. Qed.

  Lemma nodup_addrs_perm l1 l2 : Permutation l1 l2 -> NoDup (addrs l1) -> NoDup (addrs l2).
  Proof. intros Hp. apply Permutation_NoDup. unfold addrs. now apply Permutation_map. Qed.

  (* any sorting routine agrees with isort on lists with distinct addresses *)
  Lemma sort_contract_unique (f : list elt -> list elt) l :
    Permutation (f l) l -> sorted (f l) -> NoDup (addrs l) -> f l = isort l.
  Proof.
    intros Hp Hs Hnd. apply sorted_unique; [exact Hs|apply isort_sorted| |].
    - rewrite Hp. symmetry. apply isort_perm.
    - eapply nodup_addrs_perm; [symmetry; exact Hp|exact Hnd].
  Qed.

  (* the specification: entries O..O+n of the complete sorted list *)
  Definition topk (n o : nat) (xs : list elt) : list elt := firstn n (skipn o (isort xs)).

  (* the decomposition used by all exactness proofs: if F beats everything in R then the sorted
     list of F ++ R starts with the sorted F *)
  Lemma isort_split S F R :
    Permutation S (F ++ R) -> NoDup (addrs S) ->
    (forall f r, In f F -> In r R -> ele f r) ->
    isort S = isort F ++ isort R.
  Proof.
    intros Hp Hnd Hdom. apply sorted_unique.
    - apply isort_sorted.
    - apply sorted_app; try apply isort_sorted.
      intros x y Hx Hy. apply Hdom; (eapply Permutation_in; [apply isort_perm|eassumption]).
    - rewrite isort_perm, Hp. apply Permutation_app; symmetry; apply isort_perm.
    - eapply nodup_addrs_perm; [symmetry; apply isort_perm|exact Hnd].
  Qed.

  (* ---------------------------------------------------------------- counting *)
  Fixpoint count (f : elt -> bool) (l : list elt) : nat :=
    match l with [] => O | x :: r => ((if f x then 1 else 0) + count f r)%nat end.

  Lemma count_app f l1 l2 : count f (l1 ++ l2) = (count f l1 + count f l2)%nat.
  Proof. induction l1 as [|x r IH]; cbn [count app]; [reflexivity|]. rewrite IH. lia. Qed.
  Lemma count_perm f l1 l2 : Permutation l1 l2 -> count f l1 = count f l2.
  Proof. induction 1; cbn [count]; lia. Qed.
  Lemma count_le_length f l : (count f l <= length l)%nat.
  Proof. induction l as [|x r IH]; cbn [count length]; [lia|]. destruct (f x); lia. Qed.
  Lemma count_all f l : (forall x, In x l -> f x = true) -> count f l = length l.
  Proof.
    induction l as [|x r IH]; intros H; cbn [count length]; [reflexivity|].
    rewrite (H x (or_introl eq_refl)), IH; [lia|]. intros y Hy. apply H. now right.
  Qed.
  Lemma count_full f l : count f l = length l -> forall x, In x l -> f x = true.
  Proof.
    induction l as [|x r IH]; intros H y Hy; [contradiction|]. cbn [count length] in H.
    pose proof (count_le_length f r). destruct (f x) eqn:E; [|lia].
    destruct Hy as [<-|Hy]; [exact E|]. apply IH; [lia|exact Hy].
  Qed.
  Lemma count_mono f g l : (forall x, In x l -> f x = true -> g x = true) -> (count f l <= count g l)%nat.
  Proof.
    induction l as [|x r IH]; intros H; cbn [count]; [lia|].
    assert (count f r <= count g r)%nat by (apply IH; intros y Hy; apply H; now right).
    destruct (f x) eqn:E; [rewrite (H x (or_introl eq_refl) E); lia|destruct (g x); lia].
  Qed.
  Lemma count_pos f l : (0 < count f l)%nat -> exists x, In x l /\ f x = true.
  Proof.
    induction l as [|x r IH]; cbn [count]; [lia|]. destruct (f x) eqn:E.
    - intros _. exists x. split; [now left|exact E].
    - intros H. destruct (IH H) as (y & Hy & Ey). exists y. split; [now right|exact Ey].
  Qed.

  Definition eltb (x y : elt) : bool := match ecmp x y with Lt => true | _ => false end.
  Lemma eltb_lt x y : eltb x y = true <-> elt_lt x y.
  Proof. unfold eltb, elt_lt. destruct (ecmp x y); split; congruence. Qed.
  (* "key not worse than m" *)
  Definition kgeb (m : K) (b : elt) : bool := match kcmp (key b) m with Lt => false | _ => true end.
  Lemma kgeb_ge m b : kgeb m b = true <-> kcmp (key b) m <> Lt.
  Proof. unfold kgeb. destruct (kcmp (key b) m); split; congruence. Qed.

  (* ---------------------------------------------------------------- the model *)
  (* std::slice::select_nth_unstable_by and sort_unstable_by: external, contracts only *)
  Variable select_nth : nat -> list elt -> list elt.
  Hypothesis select_nth_spec : forall n l, (n < length l)%nat ->
    exists a m b, select_nth n l = a ++ m :: b /\ length a = n /\ Permutation (a ++ m :: b) l /\
                  Forall (fun x => ele x m) a /\ Forall (fun x => ele m x) b.
  Variable sort_unstable : list elt -> list elt.
  Hypothesis sort_unstable_perm : forall l, Permutation (sort_unstable l) l.
  Hypothesis sort_unstable_sorted : forall l, sorted (sort_unstable l).

  Record topn : Type := { buf : list elt; thr : option K; top_n : nat }.

  (* `let vec_cap = top_n.max(1) * 2;` -- both literals are pinned *)
  Definition capacity (n : nat) : nat := (Nat.max n (N.to_nat TOPN_MIN_TOP_N) * N.to_nat TOPN_CAP_FACTOR)%nat.
  Definition new (n : nat) : topn := {| buf := []; thr := None; top_n := n |}.

  (* truncate_top_n; None = the panic of select_nth_unstable_by on an out-of-range index *)
  Definition truncate_top_n (t : topn) : option (K * list elt) :=
    if Nat.ltb (top_n t) (length (buf t)) then
      let b := select_nth (top_n t) (buf t) in
      match nth_error b (top_n t) with
      | Some m => Some (key m, firstn (top_n t) b)
      | None => None
      end
    else None.

  (* append_doc (push_assuming_capacity asserts len < capacity: None if violated) *)
  Definition append_doc (t : topn) (x : elt) : option topn :=
    if Nat.eqb (length (buf t)) (capacity (top_n t)) then
      match truncate_top_n t with
      | Some (m, b) =>
          if Nat.ltb (length b) (capacity (top_n t))
          then Some {| buf := b ++ [x]; thr := Some m; top_n := top_n t |}
          else None
      | None => None
      end
    else Some {| buf := buf t ++ [x]; thr := thr t; top_n := top_n t |}.

  (* push: the strict threshold test `compare(&sort_key, last_median) != Ordering::Greater => return` *)
  Definition push (t : topn) (x : elt) : option topn :=
    match thr t with
    | Some m => match kcmp (key x) m with Gt => append_doc t x | _ => Some t end
    | None => append_doc t x
    end.

  Fixpoint push_all (t : topn) (xs : list elt) : option topn :=
    match xs with
    | [] => Some t
    | x :: r => match push t x with Some t' => push_all t' r | None => None end
    end.

  Definition into_vec (t : topn) : option (list elt) :=
    if Nat.ltb (top_n t) (length (buf t)) then
      match truncate_top_n t with Some (_, b) => Some b | None => None end
    else Some (buf t).
  Definition into_sorted_vec (t : topn) : option (list elt) :=
    match into_vec t with Some b => Some (sort_unstable b) | None => None end.

  (* ---------------------------------------------------------------- invariant (DESIGN §9, corrected) *)
  Hypothesis cap_factor_ge_2 : (2 <= N.to_nat TOPN_CAP_FACTOR)%nat.
  Hypothesis cap_min_ge_1 : (1 <= N.to_nat TOPN_MIN_TOP_N)%nat.

  Lemma capacity_gt n : (n < capacity n)%nat.
  Proof. unfold capacity. nia. Qed.

  (* S: everything pushed so far; R: what was dropped (by the threshold test or by a truncation).
     Every dropped element is beaten by n elements still in the buffer; and at least n buffered
     elements have a key not worse than the threshold.  (The buffer may also hold elements BELOW the
     current threshold: `append_doc` raises the threshold after `push` tested against the old one.) *)
  Record inv (S : list elt) (t : topn) (R : list elt) : Prop := {
    inv_perm : Permutation S (buf t ++ R);
    inv_dom  : forall r, In r R -> (top_n t <= count (fun b => eltb b r) (buf t))%nat;
    inv_thr  : forall m, thr t = Some m -> (top_n t <= count (kgeb m) (buf t))%nat;
    inv_cap  : (length (buf t) <= capacity (top_n t))%nat
  }.

  Lemma inv_new n : inv [] (new n) [].
  Proof. constructor; cbn; try (intros; discriminate || contradiction); auto. lia. Qed.

  (* what truncation does, under the contract *)
  Lemma truncate_spec t :
    (top_n t < length (buf t))%nat -> NoDup (addrs (buf t)) ->
    exists a m b, truncate_top_n t = Some (key m, a) /\ length a = top_n t /\
      Permutation (buf t) (a ++ m :: b) /\
      (forall x, In x a -> elt_lt x m) /\ (forall y, In y b -> ele m y).
  Proof.
    intros Hlt Hnd. unfold truncate_top_n.
    destruct (Nat.ltb_spec (top_n t) (length (buf t))) as [_|]; [|lia].
    destruct (select_nth_spec _ _ Hlt) as (a & m & b & E & La & Hp & Ha & Hb).
    exists a, m, b. cbn zeta. rewrite E.
    rewrite <- La. rewrite nth_error_app2 by lia. rewrite Nat.sub_diag. cbn [nth_error].
    rewrite firstn_app_exact.
    split; [reflexivity|]. split; [reflexivity|]. split; [now symmetry|].
    rewrite Forall_forall in Ha, Hb. split; [|exact Hb].
    intros x Hx. apply ele_neq_lt; [now apply Ha|].
    assert (Hnd' : NoDup (addrs (a ++ m :: b))) by (eapply nodup_addrs_perm; [symmetry; exact Hp|exact Hnd]).
    unfold addrs in Hnd'. rewrite map_app in Hnd'. cbn [map] in Hnd'.
    apply NoDup_remove_2 in Hnd'. intro Eq. apply Hnd'. rewrite <- Eq.
    apply in_or_app. left. now apply in_map.
  Qed.

  (* after a truncation the kept part beats everything dropped so far *)
  Lemma trunc_dom S t R a m b :
    inv S t R -> length a = top_n t -> Permutation (buf t) (a ++ m :: b) ->
    (forall x, In x a -> elt_lt x m) -> (forall y, In y b -> ele m y) ->
    forall r, In r (m :: b ++ R) -> (top_n t <= count (fun z => eltb z r) a)%nat.
  Proof.
    intros I La Hp Ha Hb r Hr.
    assert (Hall : forall c, In c (m :: b) -> forall x, In x a -> elt_lt x c).
    { intros c [<-|Hc] x Hx; [now apply Ha|]. eapply elt_lt_le_trans; [apply Ha; exact Hx|now apply Hb]. }
    assert (Hfull : forall c, In c (m :: b) -> (top_n t <= count (fun z => eltb z c) a)%nat).
    { intros c Hc. rewrite count_all; [lia|]. intros x Hx. apply eltb_lt. now apply Hall. }
    destruct Hr as [<-|Hr]; [apply Hfull; now left|].
    apply in_app_or in Hr. destruct Hr as [Hr|Hr]; [apply Hfull; now right|].
    pose proof (inv_dom _ _ _ I _ Hr) as Hd. rewrite (count_perm _ _ _ Hp), count_app in Hd.
    destruct (Nat.eq_dec (count (fun z => eltb z r) (m :: b)) 0) as [Z|NZ]; [lia|].
    destruct (count_pos (fun z => eltb z r) (m :: b)) as (c & Hc & Ec); [lia|].
    apply eltb_lt in Ec. rewrite count_all; [lia|].
    intros x Hx. apply eltb_lt. eapply elt_lt_trans; [apply Hall; eassumption|exact Ec].
  Qed.

  Definition max_addr_lt (S : list elt) (x : elt) : Prop := forall y, In y S -> (addr y < addr x)%N.

  Lemma nodup_addrs_snoc S x : NoDup (addrs S) -> max_addr_lt S x -> NoDup (addrs (S ++ [x])).
  Proof.
    intros Hnd Hmax. eapply (nodup_addrs_perm (x :: S)).
    - rewrite Permutation_app_comm. reflexivity.
    - cbn [addrs map]. constructor; [|exact Hnd]. intro Hin. apply in_map_iff in Hin.
      destruct Hin as (y & E & Hy). specialize (Hmax y Hy). lia.
  Qed.

  Lemma inv_buf_nodup S t R : inv S t R -> NoDup (addrs S) -> NoDup (addrs (buf t)).
  Proof.
    intros I Hnd. pose proof (inv_perm _ _ _ I) as Hp. eapply nodup_addrs_perm in Hp; [|exact Hnd].
    unfold addrs in Hp. rewrite map_app in Hp. now apply nodup_app_l in Hp.
  Qed.

  (* one push preserves the invariant *)
  Lemma inv_push S t R x :
    inv S t R -> NoDup (addrs S) -> max_addr_lt S x ->
    exists t' R', push t x = Some t' /\ inv (S ++ [x]) t' R' /\ top_n t' = top_n t.
  Proof.
    intros I Hnd Hmax.
    pose proof (inv_buf_nodup _ _ _ I Hnd) as Hbuf_nd.
    assert (Hbuf_S : forall b, In b (buf t) -> In b S).
    { intros b Hb. eapply Permutation_in; [symmetry; apply (inv_perm _ _ _ I)|]. apply in_or_app; now left. }
    assert (Happend : exists t' R', append_doc t x = Some t' /\ inv (S ++ [x]) t' R' /\ top_n t' = top_n t).
    { unfold append_doc.
      destruct (Nat.eqb_spec (length (buf t)) (capacity (top_n t))) as [Hfull|Hnot].
      - assert (Hlt : (top_n t < length (buf t))%nat) by (rewrite Hfull; apply capacity_gt).
        destruct (truncate_spec _ Hlt Hbuf_nd) as (a & m & b & Et & La & Hp & Ha & Hb).
        rewrite Et. destruct (Nat.ltb_spec (length a) (capacity (top_n t))) as [_|Hc]; [|pose proof (capacity_gt (top_n t)); lia].
        exists {| buf := a ++ [x]; thr := Some (key m); top_n := top_n t |}, (m :: b ++ R).
        split; [reflexivity|]. split; [|reflexivity].
        constructor; cbn [buf thr top_n].
        + assert (HS : Permutation S (a ++ (m :: b ++ R))).
          { rewrite (inv_perm _ _ _ I), Hp. rewrite <- app_assoc. reflexivity. }
          rewrite HS. apply perm_move_last.
        + intros r Hr. rewrite count_app. pose proof (trunc_dom _ _ _ _ _ _ I La Hp Ha Hb r Hr). lia.
        + intros m0 E. injection E as <-. rewrite count_app. rewrite (count_all (kgeb (key m)) a); [lia|].
          intros z Hz. apply kgeb_ge, ele_key_ge, elt_lt_ele, Ha, Hz.
        + rewrite app_length. cbn [length]. pose proof (capacity_gt (top_n t)). lia.
      - exists {| buf := buf t ++ [x]; thr := thr t; top_n := top_n t |}, R.
        split; [reflexivity|]. split; [|reflexivity].
        constructor; cbn [buf thr top_n].
        + rewrite (inv_perm _ _ _ I). apply perm_move_last.
        + intros r Hr. rewrite count_app. pose proof (inv_dom _ _ _ I _ Hr). lia.
        + intros m0 E. rewrite count_app. pose proof (inv_thr _ _ _ I _ E). lia.
        + rewrite app_length. cbn [length]. pose proof (inv_cap _ _ _ I). lia. }
    unfold push. destruct (thr t) as [m0|] eqn:Et; [|exact Happend].
    destruct (kcmp (key x) m0) eqn:Ek; try exact Happend.
    - (* equal to the threshold: rejected *)
      exists t, (x :: R). split; [reflexivity|]. split; [|reflexivity].
      constructor.
      + rewrite (inv_perm _ _ _ I). rewrite <- app_assoc. apply Permutation_app_head. cbn [app]. apply Permutation_sym, Permutation_cons_append.
      + intros r [<-|Hr]; [|now apply (inv_dom _ _ _ I)].
        etransitivity; [apply (inv_thr _ _ _ I _ Et)|]. apply count_mono. intros b Hb Hg.
        apply eltb_lt. apply key_ge_addr_lt; [|apply Hmax, Hbuf_S, Hb].
        apply kgeb_ge in Hg. apply (kcmp_ge_trans (key b) m0 (key x)); [exact Hg|].
        rewrite (kcmp_opp (key x) m0), Ek. simpl. congruence.
      + apply (inv_thr _ _ _ I).
      + apply (inv_cap _ _ _ I).
    - exists t, (x :: R). split; [reflexivity|]. split; [|reflexivity].
      constructor.
      + rewrite (inv_perm _ _ _ I). rewrite <- app_assoc. apply Permutation_app_head. cbn [app]. apply Permutation_sym, Permutation_cons_append.
      + intros r [<-|Hr]; [|now apply (inv_dom _ _ _ I)].
        etransitivity; [apply (inv_thr _ _ _ I _ Et)|]. apply count_mono. intros b Hb Hg.
        apply eltb_lt. apply key_ge_addr_lt; [|apply Hmax, Hbuf_S, Hb].
        apply kgeb_ge in Hg. apply (kcmp_ge_trans (key b) m0 (key x)); [exact Hg|].
        rewrite (kcmp_opp (key x) m0), Ek. simpl. congruence.
      + apply (inv_thr _ _ _ I).
      + apply (inv_cap _ _ _ I).
  Qed.

  (* strictly ascending addresses *)
  Fixpoint ascending_from (lo : option N) (xs : list elt) : Prop :=
    match xs with
    | [] => True
    | x :: r => match lo with Some a => (a < addr x)%N | None => True end /\ ascending_from (Some (addr x)) r
    end.
  Definition ascending_addresses (xs : list elt) : Prop := ascending_from None xs.

  Lemma ascending_from_lt lo xs : ascending_from lo xs ->
    forall a, lo = Some a -> forall y, In y xs -> (a < addr y)%N.
  Proof.
    revert lo. induction xs as [|x r IH]; intros lo H a -> y Hy; [contradiction|].
    cbn [ascending_from] in H. destruct H as [H1 H2]. destruct Hy as [<-|Hy]; [exact H1|].
    specialize (IH _ H2 _ eq_refl y Hy). lia.
  Qed.

  Lemma push_all_inv xs : forall S t R lo,
    inv S t R -> NoDup (addrs S) -> ascending_from lo xs ->
    (forall y, In y S -> match lo with Some a => (addr y <= a)%N | None => False end) ->
    exists t' R', push_all t xs = Some t' /\ inv (S ++ xs) t' R' /\ top_n t' = top_n t /\ NoDup (addrs (S ++ xs)).
  Proof.
    induction xs as [|x r IH]; intros S t R lo I Hnd Hasc Hlo.
    - exists t, R. rewrite app_nil_r. cbn [push_all]. auto.
    - cbn [ascending_from] in Hasc. destruct Hasc as [Hx Hr].
      assert (Hmax : max_addr_lt S x).
      { intros y Hy. specialize (Hlo y Hy). destruct lo; [lia|contradiction]. }
      destruct (inv_push _ _ _ _ I Hnd Hmax) as (t1 & R1 & E1 & I1 & N1).
      pose proof (nodup_addrs_snoc _ _ Hnd Hmax) as Hnd1.
      destruct (IH (S ++ [x]) t1 R1 (Some (addr x)) I1 Hnd1 Hr) as (t2 & R2 & E2 & I2 & N2 & Hnd2).
      { intros y Hy. apply in_app_or in Hy. destruct Hy as [Hy|[<-|[]]]; [|lia]. specialize (Hmax y Hy). lia. }
      exists t2, R2. cbn [push_all]. rewrite E1. rewrite <- app_assoc in I2, Hnd2. cbn [app] in I2, Hnd2.
      split; [exact E2|]. split; [exact I2|]. split; [congruence|exact Hnd2].
  Qed.

  (* the buffer split that finishes every exactness argument *)
  Lemma finish S F R n :
    Permutation S (F ++ R) -> NoDup (addrs S) -> (length F <= n)%nat ->
    (forall r, In r R -> (n <= count (fun b => eltb b r) F)%nat) ->
    firstn n (isort S) = isort F.
  Proof.
    intros Hp Hnd HF Hdom.
    assert (Hall : forall f r, In f F -> In r R -> ele f r).
    { intros f r Hf Hr. apply elt_lt_ele, eltb_lt.
      apply (count_full (fun b => eltb b r) F); [|exact Hf].
      pose proof (Hdom r Hr). pose proof (count_le_length (fun b => eltb b r) F). lia. }
    rewrite (isort_split _ _ _ Hp Hnd Hall).
    destruct R as [|r R'].
    - cbn [isort]. rewrite app_nil_r. apply firstn_all2. rewrite isort_length. exact HF.
    - assert (length F = n).
      { pose proof (Hdom r (or_introl eq_refl)). pose proof (count_le_length (fun b => eltb b r) F). lia. }
      rewrite <- (isort_length F) in H. rewrite <- H. apply firstn_app_exact.
  Qed.

  Lemma into_vec_inv S t R :
    inv S t R -> NoDup (addrs S) ->
    exists F, into_vec t = Some F /\ isort F = firstn (top_n t) (isort S) /\ NoDup (addrs F) /\
              Permutation F (firstn (top_n t) (isort S)).
  Proof.
    intros I Hnd. pose proof (inv_buf_nodup _ _ _ I Hnd) as Hbuf_nd. unfold into_vec.
    destruct (Nat.ltb_spec (top_n t) (length (buf t))) as [Hlt|Hge].
    - destruct (truncate_spec _ Hlt Hbuf_nd) as (a & m & b & Et & La & Hp & Ha & Hb). rewrite Et.
      exists a. split; [reflexivity|].
      assert (HS : Permutation S (a ++ (m :: b ++ R))).
      { rewrite (inv_perm _ _ _ I), Hp. rewrite <- app_assoc. reflexivity. }
      assert (E : firstn (top_n t) (isort S) = isort a).
      { apply (finish _ _ _ _ HS Hnd); [lia|]. intros r Hr. apply (trunc_dom _ _ _ _ _ _ I La Hp Ha Hb r Hr). }
      assert (Hnda : NoDup (addrs a)).
      { eapply nodup_addrs_perm in Hp; [|exact Hbuf_nd]. unfold addrs in Hp. rewrite map_app in Hp. now apply nodup_app_l in Hp. }
      split; [now symmetry|]. split; [exact Hnda|]. rewrite E. symmetry. apply isort_perm.
    - exists (buf t). split; [reflexivity|].
      assert (E : firstn (top_n t) (isort S) = isort (buf t)).
      { apply (finish _ _ _ _ (inv_perm _ _ _ I) Hnd Hge). apply (inv_dom _ _ _ I). }
      split; [now symmetry|]. split; [exact Hbuf_nd|]. rewrite E. symmetry. apply isort_perm.
  Qed.

  (* ---------------------------------------------------------------- main theorems *)
  Theorem topn_exact : forall n xs, ascending_addresses xs ->
    exists t, push_all (new n) xs = Some t /\ into_sorted_vec t = Some (topk n 0 xs).
  Proof.
    intros n xs Hasc.
    destruct (push_all_inv xs [] (new n) [] None (inv_new n) (NoDup_nil _) Hasc) as (t & R & E & I & Nt & Hnd).
    { intros y []. }
    cbn [app] in I, Hnd. exists t. split; [exact E|].
    destruct (into_vec_inv _ _ _ I Hnd) as (F & EF & Hs & HndF & _).
    unfold into_sorted_vec. rewrite EF. f_equal.
    rewrite (sort_contract_unique sort_unstable F (sort_unstable_perm F) (sort_unstable_sorted F) HndF).
    rewrite Hs, Nt. reflexivity.
  Qed.

  (* into_vec (what a segment collector harvests): the same elements, in unspecified order *)
  Theorem topn_into_vec : forall n xs, ascending_addresses xs ->
    exists t F, push_all (new n) xs = Some t /\ into_vec t = Some F /\ Permutation F (topk n 0 xs).
  Proof.
    intros n xs Hasc.
    destruct (push_all_inv xs [] (new n) [] None (inv_new n) (NoDup_nil _) Hasc) as (t & R & E & I & Nt & Hnd).
    { intros y []. }
    cbn [app] in I, Hnd. destruct (into_vec_inv _ _ _ I Hnd) as (F & EF & _ & _ & Hp).
    exists t, F. split; [exact E|]. split; [exact EF|]. rewrite Nt in Hp. exact Hp.
  Qed.

  (* soundness of the pruning threshold: whenever the threshold is m, at least n of the elements
     pushed so far have a key that is not worse than m -- so an element pushed later (larger
     address) whose key does not strictly exceed m cannot belong to the best n. *)
  Theorem threshold_sound : forall n xs t m, ascending_addresses xs ->
    push_all (new n) xs = Some t -> thr t = Some m -> (n <= count (kgeb m) xs)%nat.
  Proof.
    intros n xs t m Hasc E Et.
    destruct (push_all_inv xs [] (new n) [] None (inv_new n) (NoDup_nil _) Hasc) as (t' & R & E' & I & Nt & Hnd).
    { intros y []. }
    cbn [app] in I. rewrite E in E'. injection E' as <-.
    pose proof (inv_thr _ _ _ I _ Et) as H. rewrite Nt in H. cbn [new top_n] in H.
    rewrite (count_perm (kgeb m) _ _ (inv_perm _ _ _ I)), count_app. lia.
  Qed.

End Order.
