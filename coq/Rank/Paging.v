(* Rank/Paging.v -- per-segment collection, merge_fruits with offset, paging; the concrete
   comparators of src/collector/sort_key/order.rs; concrete instances of the external routines.

   Rust: src/collector/sort_key_top_collector.rs (TopBySortKeyCollector::{collect_segment, merge_fruits},
   merge_top_k, TopBySortKeySegmentCollector::harvest), src/collector/sort_key/sort_by_score.rs (TopNHeap). *)
From TV Require Import Base.Prelude Generated.Constants Rank.TopN.
From Coq Require Import Sorting.Sorted Sorting.Permutation.

Section Merge.
  Variable K : Type.
  Variable kcmp : K -> K -> comparison.
  Hypothesis kcmp_opp : forall a b, kcmp b a = CompOpp (kcmp a b).
  Hypothesis kcmp_le_trans : forall a b c, kcmp a b <> Gt -> kcmp b c <> Gt -> kcmp a c <> Gt.

  Notation elt := (elt K).
  Notation ecmp := (ecmp K kcmp).
  Notation ele := (ele K kcmp).
  Notation elt_lt := (elt_lt K kcmp).
  Notation eltb := (eltb K kcmp).
  Notation isort := (isort K kcmp).
  Notation sorted := (sorted K kcmp).
  Notation topk := (topk K kcmp).
  Notation addrs := (addrs K).
  Notation count := (count K).

  (* ------------------------------------------------------------ rank in a sorted list *)
  Lemma count_none f (l : list elt) : (forall x, In x l -> f x = false) -> count f l = O.
  Proof.
    induction l as [|x r IH]; intros H; cbn [TopN.count]; [reflexivity|].
    rewrite (H x (or_introl eq_refl)), IH; [reflexivity|]. intros y Hy. apply H. now right.
  Qed.

  Lemma elt_lt_irrefl x : ~ elt_lt x x.
  Proof. intro H. apply (elt_lt_not_ele K kcmp kcmp_opp _ _ H). apply (ele_refl K kcmp kcmp_opp). Qed.

  Lemma sorted_rank (l : list elt) : sorted l -> NoDup (addrs l) ->
    forall i x, nth_error l i = Some x -> count (fun b => eltb b x) l = i.
  Proof.
    unfold TopN.sorted. induction l as [|h t IH]; intros Hs Hnd i x Hi; [destruct i; discriminate|].
    inversion Hs as [|? ? Ht Hall]; subst. cbn [TopN.addrs map] in Hnd. inversion Hnd as [|? ? Hnot Hnd']; subst.
    rewrite Forall_forall in Hall. cbn [TopN.count].
    destruct i as [|j]; cbn [nth_error] in Hi.
    - injection Hi as <-.
      replace (eltb h h) with false.
      2:{ symmetry. destruct (eltb h h) eqn:E; [|reflexivity]. apply (eltb_lt K kcmp) in E. now apply elt_lt_irrefl in E. }
      rewrite count_none; [reflexivity|]. intros y Hy.
      destruct (eltb y h) eqn:E; [|reflexivity]. apply (eltb_lt K kcmp) in E.
      exfalso. apply (elt_lt_not_ele K kcmp kcmp_opp _ _ E). now apply Hall.
    - assert (Hx : In x t) by (eapply nth_error_In; exact Hi).
      replace (eltb h x) with true.
      2:{ symmetry. apply (eltb_lt K kcmp). apply (ele_neq_lt K kcmp); [now apply Hall|].
          intro E. apply Hnot. rewrite E. now apply in_map. }
      rewrite (IH Ht Hnd' j x Hi). reflexivity.
  Qed.

  Lemma in_firstn_nth {A} (L : list A) n x : In x (firstn n L) <-> exists i, (i < n)%nat /\ nth_error L i = Some x.
  Proof.
    revert n. induction L as [|h t IH]; intros n.
    - rewrite firstn_nil. split; [intros []|]. intros (i & _ & H). destruct i; discriminate.
    - destruct n as [|n]; cbn [firstn].
      + split; [intros []|]. intros (i & H & _). lia.
      + split.
        * intros [<-|H]; [exists O; split; [lia|reflexivity]|].
          apply IH in H. destruct H as (i & Hi & E). exists (S i). split; [lia|exact E].
        * intros (i & Hi & E). destruct i as [|i]; cbn [nth_error] in E; [left; congruence|].
          right. apply IH. exists i. split; [lia|exact E].
  Qed.

  (* membership in the best n = fewer than n elements are strictly better *)
  Lemma in_top_iff (l : list elt) n x : NoDup (addrs l) ->
    (In x (firstn n (isort l)) <-> In x l /\ (count (fun b => eltb b x) l < n)%nat).
  Proof.
    intros Hnd.
    assert (Hnd' : NoDup (addrs (isort l))).
    { eapply nodup_addrs_perm; [symmetry; apply isort_perm|exact Hnd]. }
    pose proof (isort_sorted K kcmp kcmp_opp kcmp_le_trans l) as Hs.
    rewrite in_firstn_nth. split.
    - intros (i & Hi & E). split.
      + eapply Permutation_in; [apply isort_perm|]. eapply nth_error_In; exact E.
      + rewrite <- (count_perm K _ _ _ (isort_perm K kcmp l)). rewrite (sorted_rank _ Hs Hnd' i x E). exact Hi.
    - intros [Hin Hc].
      assert (Hin' : In x (isort l)) by (eapply Permutation_in; [symmetry; apply isort_perm|exact Hin]).
      apply In_nth_error in Hin'. destruct Hin' as (i & E). exists i. split; [|exact E].
      rewrite <- (count_perm K _ _ _ (isort_perm K kcmp l)) in Hc. rewrite (sorted_rank _ Hs Hnd' i x E) in Hc. exact Hc.
  Qed.

  (* ------------------------------------------------------------ merging per-segment results *)
  Definition tops (n : nat) (segs : list (list elt)) : list elt := concat (map (fun s => firstn n (isort s)) segs).
  Definition rests (n : nat) (segs : list (list elt)) : list elt := concat (map (fun s => skipn n (isort s)) segs).

  Lemma concat_split n segs : Permutation (concat segs) (tops n segs ++ rests n segs).
  Proof.
    unfold tops, rests. induction segs as [|s r IH]; cbn [concat map]; [constructor|].
    rewrite IH. rewrite <- (isort_perm K kcmp s) at 1. rewrite <- (firstn_skipn n (isort s)) at 1.
    rewrite <- !app_assoc. apply Permutation_app_head.
    rewrite !app_assoc. apply Permutation_app_tail. apply Permutation_app_comm.
  Qed.

  Lemma count_concat_ge f (l : list elt) ls : In l ls -> (count f l <= count f (concat ls))%nat.
  Proof.
    induction ls as [|h t IH]; intros H; [contradiction|]. cbn [concat]. rewrite count_app.
    destruct H as [->|H]; [lia|]. specialize (IH H). lia.
  Qed.

  Lemma nodup_addrs_concat_in segs s : NoDup (addrs (concat segs)) -> In s segs -> NoDup (addrs s).
  Proof.
    induction segs as [|h t IH]; intros Hnd H; [contradiction|]. cbn [concat] in Hnd.
    unfold TopN.addrs in Hnd. rewrite map_app in Hnd.
    destruct H as [->|H]; [now apply nodup_app_l in Hnd|apply IH; [now apply nodup_app_r in Hnd|exact H]].
  Qed.

  Lemma in_rests n segs y : In y (rests n segs) ->
    exists s, In s segs /\ In y (skipn n (isort s)).
  Proof.
    unfold rests. intros H. apply in_concat in H. destruct H as (l & Hl & Hy).
    apply in_map_iff in Hl. destruct Hl as (s & <- & Hs). exists s. auto.
  Qed.

  Lemma sorted_nodup_lt (l1 l2 : list elt) : sorted (l1 ++ l2) -> NoDup (addrs (l1 ++ l2)) ->
    forall x y, In x l1 -> In y l2 -> elt_lt x y.
  Proof.
    intros Hs Hnd x y Hx Hy.
    destruct (sorted_app_inv K kcmp _ _ Hs) as (_ & _ & H).
    apply (ele_neq_lt K kcmp); [now apply H|].
    unfold TopN.addrs in Hnd. rewrite map_app in Hnd. intro E.
    apply (in_map (addr K)) in Hx. apply (in_map (addr K)) in Hy. rewrite E in Hx.
    revert Hnd Hx Hy. generalize (addr K y) (map (addr K) l1) (map (addr K) l2). clear.
    intros a l1 l2. induction l1 as [|h t IH]; intros Hnd Hx Hy; [contradiction|].
    cbn [app] in Hnd. inversion Hnd as [|? ? Hn Hr]; subst.
    destruct Hx as [->|Hx]; [apply Hn; apply in_or_app; now right|now apply IH].
  Qed.

  Lemma nodup_addrs_top (l : list elt) n : NoDup (addrs l) -> NoDup (addrs (firstn n (isort l))).
  Proof.
    intros H. assert (H1 : NoDup (addrs (isort l))) by (eapply nodup_addrs_perm; [symmetry; apply isort_perm|exact H]).
    rewrite <- (firstn_skipn n (isort l)) in H1. unfold TopN.addrs in *. rewrite map_app in H1. now apply nodup_app_l in H1.
  Qed.

  Theorem merge_exact : forall segs n, NoDup (addrs (concat segs)) ->
    firstn n (isort (concat segs)) = firstn n (isort (tops n segs)).
  Proof.
    intros segs n Hnd.
    pose proof (concat_split n segs) as Hsplit.
    assert (HndTR : NoDup (addrs (tops n segs ++ rests n segs))) by (eapply nodup_addrs_perm; [exact Hsplit|exact Hnd]).
    assert (HndT : NoDup (addrs (tops n segs))).
    { unfold TopN.addrs in HndTR |- *. rewrite map_app in HndTR. now apply nodup_app_l in HndTR. }
    assert (Hcount : forall x, count (fun b => eltb b x) (concat segs) =
                               (count (fun b => eltb b x) (tops n segs) + count (fun b => eltb b x) (rests n segs))%nat).
    { intros x. rewrite (count_perm K _ _ _ Hsplit), count_app. reflexivity. }
    (* a strictly better element among the rests forces n better elements among the tops *)
    assert (Hrest : forall x, (count (fun b => eltb b x) (tops n segs) < n)%nat ->
                              count (fun b => eltb b x) (rests n segs) = O).
    { intros x Hc. apply count_none. intros y Hy.
      destruct (eltb y x) eqn:E; [|reflexivity]. exfalso. apply (eltb_lt K kcmp) in E.
      destruct (in_rests _ _ _ Hy) as (s & Hs & Hys).
      pose proof (nodup_addrs_concat_in _ _ Hnd Hs) as Hnds.
      pose proof (isort_sorted K kcmp kcmp_opp kcmp_le_trans s) as Hsort.
      assert (Hnds' : NoDup (addrs (isort s))) by (eapply nodup_addrs_perm; [symmetry; apply isort_perm|exact Hnds]).
      rewrite <- (firstn_skipn n (isort s)) in Hsort, Hnds'.
      assert (Hlen : length (firstn n (isort s)) = n).
      { apply firstn_length_le. destruct (Nat.le_gt_cases n (length (isort s))) as [H|H]; [exact H|].
        rewrite skipn_all2 in Hys by lia. contradiction. }
      assert (Hall : forall z, In z (firstn n (isort s)) -> eltb z x = true).
      { intros z Hz. apply (eltb_lt K kcmp). eapply (elt_lt_trans K kcmp kcmp_opp kcmp_le_trans); [|exact E].
        eapply sorted_nodup_lt; eauto. }
      assert (Hge : (n <= count (fun b => eltb b x) (tops n segs))%nat).
      { rewrite <- Hlen at 1. rewrite <- (count_all K (fun b => eltb b x) _ Hall).
        apply count_concat_ge. apply in_map_iff. exists s. auto. }
      lia. }
    apply (sorted_unique K kcmp kcmp_opp).
    - apply sorted_firstn, isort_sorted; assumption.
    - apply sorted_firstn, isort_sorted; assumption.
    - apply NoDup_Permutation.
      + apply (NoDup_map_inv (addr K)). apply (nodup_addrs_top _ n Hnd).
      + apply (NoDup_map_inv (addr K)). apply (nodup_addrs_top _ n HndT).
      + intros x. rewrite (in_top_iff _ n x Hnd), (in_top_iff _ n x HndT). split.
        * intros [Hin Hc]. rewrite Hcount in Hc.
          apply in_concat in Hin. destruct Hin as (s & Hs & Hxs).
          assert (HxT : In x (tops n segs)).
          { unfold tops. apply in_concat. exists (firstn n (isort s)). split; [apply in_map_iff; exists s; auto|].
            apply (in_top_iff s n x (nodup_addrs_concat_in _ _ Hnd Hs)). split; [exact Hxs|].
            pose proof (count_concat_ge (fun b => eltb b x) s segs Hs). rewrite Hcount in H. lia. }
          split; [exact HxT|lia].
        * intros [Hin Hc]. split.
          -- eapply Permutation_in; [symmetry; exact Hsplit|]. apply in_or_app. now left.
          -- rewrite Hcount, (Hrest x Hc). lia.
    - apply (nodup_addrs_top _ n Hnd).
  Qed.

  (* ------------------------------------------------------------ offsets and pages *)
  Lemma slice_of_prefix {A} (L : list A) k o : firstn k (skipn o (firstn (o + k) L)) = firstn k (skipn o L).
  Proof.
    rewrite skipn_firstn_comm. replace (o + k - o)%nat with k by lia.
    rewrite firstn_firstn. now rewrite Nat.min_id.
  Qed.

  Theorem merge_paging : forall segs k o, NoDup (addrs (concat segs)) ->
    topk k o (concat segs) = firstn k (skipn o (isort (concat (map (topk (o + k) 0) segs)))).
  Proof.
    intros segs k o Hnd. unfold TopN.topk.
    rewrite <- slice_of_prefix. rewrite (merge_exact segs (o + k) Hnd).
    rewrite slice_of_prefix. reflexivity.
  Qed.

  Lemma firstn_add {A} (L : list A) a b : firstn (a + b) L = firstn a L ++ firstn b (skipn a L).
  Proof.
    revert L. induction a as [|a IH]; intros L; [reflexivity|].
    destruct L as [|h t]; [now rewrite !firstn_nil|]. cbn [Nat.add firstn skipn app]. now rewrite IH.
  Qed.

  (* successive pages of size k concatenate to a prefix of the complete ordered list *)
  Theorem pages_concat : forall xs k p,
    concat (map (fun i => topk k (i * k) xs) (seq 0 p)) = firstn (p * k) (isort xs).
  Proof.
    intros xs k p. induction p as [|p IH]; [reflexivity|].
    rewrite seq_S, map_app, concat_app, IH. cbn [map concat Nat.add]. rewrite app_nil_r.
    unfold TopN.topk. replace (S p * k)%nat with (p * k + k)%nat by lia. now rewrite firstn_add.
  Qed.

  (* ... and once the pages cover the list, every element is enumerated exactly once *)
  Theorem pages_enumerate : forall xs k p, (length xs <= p * k)%nat ->
    concat (map (fun i => topk k (i * k) xs) (seq 0 p)) = isort xs /\
    Permutation (concat (map (fun i => topk k (i * k) xs) (seq 0 p))) xs.
  Proof.
    intros xs k p H. rewrite pages_concat. rewrite firstn_all2 by (rewrite isort_length; exact H).
    split; [reflexivity|apply isort_perm].
  Qed.

  (* ------------------------------------------------------------ merge_top_k and the whole collector *)
  Variable select_nth : nat -> list elt -> list elt.
  Hypothesis select_nth_spec : forall n l, (n < length l)%nat ->
    exists a m b, select_nth n l = a ++ m :: b /\ length a = n /\ Permutation (a ++ m :: b) l /\
                  Forall (fun x => ele x m) a /\ Forall (fun x => ele m x) b.
  Variable sort_unstable : list elt -> list elt.
  Hypothesis sort_unstable_perm : forall l, Permutation (sort_unstable l) l.
  Hypothesis sort_unstable_sorted : forall l, sorted (sort_unstable l).
  Hypothesis cap_factor_ge_2 : (2 <= N.to_nat TOPN_CAP_FACTOR)%nat.
  Hypothesis cap_min_ge_1 : (1 <= N.to_nat TOPN_MIN_TOP_N)%nat.

  Notation push_all := (push_all K kcmp select_nth).
  Notation into_vec := (into_vec K select_nth).
  Notation into_sorted_vec := (into_sorted_vec K select_nth sort_unstable).
  Notation new := (new K).

  (* merge_top_k(sort_key_docs, doc_range = start..stop, comparator) *)
  Definition merge_top_k (fruits : list elt) (start stop : nat) : option (list elt) :=
    if Nat.ltb start stop then
      match push_all (new stop) fruits with
      | Some t => option_map (skipn start) (into_sorted_vec t)
      | None => None
      end
    else Some [].

  Theorem merge_top_k_exact : forall fruits k o, ascending_addresses K fruits ->
    merge_top_k fruits o (o + k) = Some (topk k o fruits).
  Proof.
    intros fruits k o Hasc. unfold merge_top_k.
    destruct (Nat.ltb_spec o (o + k)) as [Hlt|Hge].
    - destruct (topn_exact K kcmp kcmp_opp kcmp_le_trans select_nth select_nth_spec sort_unstable
                  sort_unstable_perm sort_unstable_sorted cap_factor_ge_2 cap_min_ge_1 (o + k) fruits Hasc) as (t & E1 & E2).
      rewrite E1, E2. cbn [option_map]. f_equal. unfold TopN.topk. cbn [skipn].
      rewrite skipn_firstn_comm. now replace (o + k - o)%nat with k by lia.
    - assert (k = O) by lia. subst k. reflexivity.
  Qed.

  (* a segment collector: push in ascending doc order, harvest = into_vec *)
  Definition segment_fruit (n : nat) (s : list elt) : option (list elt) :=
    match push_all (new n) s with Some t => into_vec t | None => None end.

  Fixpoint collect_fruits (n : nat) (segs : list (list elt)) : option (list (list elt)) :=
    match segs with
    | [] => Some []
    | s :: r => match segment_fruit n s, collect_fruits n r with
                | Some f, Some fs => Some (f :: fs)
                | _, _ => None
                end
    end.

  (* TopDocs::with_limit(k).and_offset(o) over the segments of a searcher *)
  Definition collect (segs : list (list elt)) (k o : nat) : option (list elt) :=
    match collect_fruits (o + k) segs with
    | Some fs => merge_top_k (concat fs) o (o + k)
    | None => None
    end.

  Lemma collect_fruits_spec n segs : Forall (ascending_addresses K) segs ->
    exists fs, collect_fruits n segs = Some fs /\ Forall2 (fun f s => Permutation f (topk n 0 s)) fs segs.
  Proof.
    induction 1 as [|s r Hs Hr IH]; cbn [collect_fruits]; [exists []; split; [reflexivity|constructor]|].
    destruct (topn_into_vec K kcmp kcmp_opp kcmp_le_trans select_nth select_nth_spec sort_unstable
                sort_unstable_perm sort_unstable_sorted cap_factor_ge_2 cap_min_ge_1 n s Hs) as (t & F & E1 & E2 & Hp).
    destruct IH as (fs & E & HF). unfold segment_fruit. rewrite E1, E2, E.
    exists (F :: fs). split; [reflexivity|constructor; assumption].
  Qed.

  Lemma forall2_perm_concat (fs : list (list elt)) n segs :
    Forall2 (fun f s => Permutation f (topk n 0 s)) fs segs -> Permutation (concat fs) (tops n segs).
  Proof.
    unfold tops. induction 1 as [|f s fs' segs' Hp _ IH]; cbn [concat map]; [constructor|].
    apply Permutation_app; [exact Hp|exact IH].
  Qed.

  Lemma isort_perm_eq (l1 l2 : list elt) : Permutation l1 l2 -> NoDup (addrs l1) -> isort l1 = isort l2.
  Proof.
    intros Hp Hnd. apply (sorted_unique K kcmp kcmp_opp); try (apply isort_sorted; assumption).
    - rewrite !isort_perm. exact Hp.
    - eapply nodup_addrs_perm; [symmetry; apply isort_perm|exact Hnd].
  Qed.

  (* End to end, PROVIDED the harvested fruits reach merge_top_k in ascending address order.
     (`harvest` returns `into_vec`, i.e. the buffer in whatever order select_nth left it, and
     TopNHeap::into_vec returns heap order: this proviso is NOT established by the code -- finding F15,
     see collect_tie_refuted in Properties/C06.v.) *)
  Theorem collect_exact : forall segs k o fs,
    Forall (ascending_addresses K) segs -> NoDup (addrs (concat segs)) ->
    collect_fruits (o + k) segs = Some fs -> ascending_addresses K (concat fs) ->
    collect segs k o = Some (topk k o (concat segs)).
  Proof.
    intros segs k o fs Hasc Hnd E Hfs. unfold collect. rewrite E.
    rewrite (merge_top_k_exact _ k o Hfs). f_equal.
    destruct (collect_fruits_spec (o + k) segs Hasc) as (fs' & E' & HF). rewrite E in E'. injection E' as <-.
    pose proof (forall2_perm_concat _ _ _ HF) as Hp.
    unfold TopN.topk at 1. rewrite (isort_perm_eq _ _ Hp).
    - rewrite <- slice_of_prefix. rewrite <- (merge_exact segs (o + k) Hnd). rewrite slice_of_prefix. reflexivity.
    - eapply nodup_addrs_perm; [symmetry; exact Hp|].
      pose proof (concat_split (o + k) segs) as Hs. eapply nodup_addrs_perm in Hs; [|exact Hnd].
      unfold TopN.addrs in Hs |- *. rewrite map_app in Hs. now apply nodup_app_l in Hs.
  Qed.

End Merge.

(* ================================================================ concrete instances *)
(* The external routines, instantiated: any function satisfying the contract will do (the theorems
   above are universally quantified over it).  [select_sorted] fully sorts; [select_rev] leaves the
   best n in DESCENDING order -- equally legal for select_nth_unstable_by, and the shape that
   exposes finding F15. *)
Section Instances.
  Variable K : Type.
  Variable kcmp : K -> K -> comparison.
  Hypothesis kcmp_opp : forall a b, kcmp b a = CompOpp (kcmp a b).
  Hypothesis kcmp_le_trans : forall a b c, kcmp a b <> Gt -> kcmp b c <> Gt -> kcmp a c <> Gt.
  Notation elt := (elt K).
  Notation ele := (ele K kcmp).
  Notation isort := (isort K kcmp).

  Definition select_sorted (n : nat) (l : list elt) : list elt := isort l.
  Definition select_rev (n : nat) (l : list elt) : list elt := rev (firstn n (isort l)) ++ skipn n (isort l).

  Lemma sorted_split_at n (L : list elt) : sorted K kcmp L -> (n < length L)%nat ->
    exists m b, skipn n L = m :: b /\ Forall (fun x => ele x m) (firstn n L) /\ Forall (fun x => ele m x) b.
  Proof.
    intros Hs Hn. rewrite <- (firstn_skipn n L) in Hs.
    destruct (skipn n L) as [|m b] eqn:E.
    - exfalso. pose proof (skipn_length n L) as H. rewrite E in H. cbn [length] in H. lia.
    - exists m, b. split; [reflexivity|].
      destruct (sorted_app_inv K kcmp _ _ Hs) as (_ & S2 & S3). split.
      + apply Forall_forall. intros x Hx. apply S3; [exact Hx|now left].
      + unfold TopN.sorted in S2. now inversion S2.
  Qed.

  Lemma select_sorted_spec : forall n l, (n < length l)%nat ->
    exists a m b, select_sorted n l = a ++ m :: b /\ length a = n /\ Permutation (a ++ m :: b) l /\
                  Forall (fun x => ele x m) a /\ Forall (fun x => ele m x) b.
  Proof.
    intros n l Hn. unfold select_sorted.
    assert (Hn' : (n < length (isort l))%nat) by (rewrite isort_length; exact Hn).
    destruct (sorted_split_at n (isort l) (isort_sorted K kcmp kcmp_opp kcmp_le_trans l) Hn') as (m & b & E & Ha & Hb).
    exists (firstn n (isort l)), m, b. rewrite <- E, firstn_skipn.
    split; [reflexivity|]. split; [apply firstn_length_le; lia|]. split; [apply isort_perm|]. split; assumption.
  Qed.

  Lemma select_rev_spec : forall n l, (n < length l)%nat ->
    exists a m b, select_rev n l = a ++ m :: b /\ length a = n /\ Permutation (a ++ m :: b) l /\
                  Forall (fun x => ele x m) a /\ Forall (fun x => ele m x) b.
  Proof.
    intros n l Hn. unfold select_rev.
    assert (Hn' : (n < length (isort l))%nat) by (rewrite isort_length; exact Hn).
    destruct (sorted_split_at n (isort l) (isort_sorted K kcmp kcmp_opp kcmp_le_trans l) Hn') as (m & b & E & Ha & Hb).
    exists (rev (firstn n (isort l))), m, b. rewrite <- E.
    split; [reflexivity|]. split; [rewrite rev_length; apply firstn_length_le; lia|]. split; [|split].
    - transitivity (isort l); [|apply isort_perm].
      transitivity (firstn n (isort l) ++ skipn n (isort l)); [|rewrite firstn_skipn; reflexivity].
      apply Permutation_app_tail. symmetry. apply Permutation_rev.
    - apply Forall_forall. intros x Hx. apply in_rev in Hx. rewrite Forall_forall in Ha. now apply Ha.
    - exact Hb.
  Qed.
End Instances.

(* Keys of the harness: Option<integer>, under the four comparators of ComparatorEnum
   (src/collector/sort_key/order.rs).  f32/f64 keys are shipped through their order-preserving
   integer image (NaN and -0.0 are never generated: `partial_cmp(..).unwrap_or(Equal)` is not a
   preorder on NaN, which is outside "exactly comparable keys"). *)
Definition ckey : Type := option Z.
Inductive cmp_kind : Type := Natural | Reverse | ReverseNoneLower | NaturalNoneHigher.

Definition ccmp (c : cmp_kind) (a b : ckey) : comparison :=
  match c with
  | Natural => match a, b with None, None => Eq | None, Some _ => Lt | Some _, None => Gt | Some x, Some y => Z.compare x y end
  | Reverse => match b, a with None, None => Eq | None, Some _ => Lt | Some _, None => Gt | Some x, Some y => Z.compare x y end
  | ReverseNoneLower => match a, b with None, None => Eq | None, Some _ => Lt | Some _, None => Gt | Some x, Some y => Z.compare y x end
  | NaturalNoneHigher => match a, b with None, None => Eq | None, Some _ => Gt | Some _, None => Lt | Some x, Some y => Z.compare x y end
  end.

Lemma ccmp_opp c a b : ccmp c b a = CompOpp (ccmp c a b).
Proof. destruct c, a as [x|], b as [y|]; cbn; try reflexivity; apply Z.compare_antisym. Qed.

Lemma ccmp_le_trans c a b d : ccmp c a b <> Gt -> ccmp c b d <> Gt -> ccmp c a d <> Gt.
Proof.
  destruct c, a as [x|], b as [y|], d as [z|]; cbn; try congruence;
    rewrite ?Z.compare_le_iff; try lia; intros H1 H2; try (exfalso; apply H1; reflexivity); try (exfalso; apply H2; reflexivity).
Qed.

Definition celt : Type := (ckey * N)%type.
Definition ckey_eqb (a b : ckey) : bool :=
  match a, b with None, None => true | Some x, Some y => Z.eqb x y | _, _ => false end.
Definition celt_eqb (a b : celt) : bool := ckey_eqb (fst a) (fst b) && N.eqb (snd a) (snd b).

Lemma celt_eqb_eq a b : celt_eqb a b = true <-> a = b.
Proof.
  destruct a as [[x|] p], b as [[y|] q]; unfold celt_eqb; cbn; rewrite ?andb_true_iff, ?Z.eqb_eq, ?N.eqb_eq;
    split; try (intros [H1 H2]); try (intros H; injection H); intros; subst; auto; try discriminate.
Qed.

Definition c_topk (c : cmp_kind) := topk ckey (ccmp c).
Definition c_sort (c : cmp_kind) := isort ckey (ccmp c).
Definition c_new := new ckey.
Definition c_push_all (c : cmp_kind) := push_all ckey (ccmp c) (select_sorted ckey (ccmp c)).
Definition c_push_all_rev (c : cmp_kind) := push_all ckey (ccmp c) (select_rev ckey (ccmp c)).
Definition c_into_sorted_vec (c : cmp_kind) := into_sorted_vec ckey (select_sorted ckey (ccmp c)) (c_sort c).
Definition c_into_vec (c : cmp_kind) := into_vec ckey (select_sorted ckey (ccmp c)).

(* observation of a TopNComputer run: (into_sorted_vec, final threshold); None = panic *)
Definition c_run (c : cmp_kind) (n : nat) (xs : list celt) : option (list celt * option ckey) :=
  match c_push_all c (c_new n) xs with
  | Some t => match c_into_sorted_vec c t with Some v => Some (v, thr ckey t) | None => None end
  | None => None
  end.
(* thresholds after every push *)
Fixpoint c_thresholds (c : cmp_kind) (t : topn ckey) (xs : list celt) : list (option ckey) :=
  match xs with
  | [] => []
  | x :: r => match push ckey (ccmp c) (select_sorted ckey (ccmp c)) t x with
              | Some t' => thr ckey t' :: c_thresholds c t' r
              | None => []
              end
  end.
Definition opt_ckey_eqb (a b : option ckey) : bool :=
  match a, b with None, None => true | Some x, Some y => ckey_eqb x y | _, _ => false end.
Definition c_run_eqb (r : option (list celt * option ckey)) (v : list celt) (t : option ckey) : bool :=
  match r with Some (v', t') => list_eqb celt_eqb v' v && opt_ckey_eqb t' t | None => false end.

(* the collector with the two instances *)
Definition c_collect (c : cmp_kind) := collect ckey (ccmp c) (select_sorted ckey (ccmp c)) (c_sort c).
Definition c_collect_rev (c : cmp_kind) := collect ckey (ccmp c) (select_rev ckey (ccmp c)) (c_sort c).

(* ---- finding F15: a failure that is ONLY a wrong tie-break at the last key of the page, in an index
   of >= 2 segments one of which holds >= 3 hits with that key.  [got] is the implementation's page. *)
Definition key_eqb (c : cmp_kind) (a b : ckey) : bool := match ccmp c a b with Eq => true | _ => false end.
Fixpoint strictly_sorted (c : cmp_kind) (l : list celt) : bool :=
  match l with
  | x :: ((y :: _) as r) => match ecmp ckey (ccmp c) x y with Lt => strictly_sorted c r | _ => false end
  | _ => true
  end.
Fixpoint forallb2 {A B} (f : A -> B -> bool) (l1 : list A) (l2 : list B) : bool :=
  match l1, l2 with
  | [], [] => true
  | x :: r1, y :: r2 => f x y && forallb2 f r1 r2
  | _, _ => false
  end.
Definition F15_class (c : cmp_kind) (segs : list (list celt)) (k o : nat) (got : list celt) : bool :=
  let all := concat segs in
  let spec := c_topk c k o all in
  match last (map fst spec) None, spec with
  | _, [] => false
  | lastkey, _ =>
      Nat.leb 2 (length segs)
      && forallb2 (fun g s => key_eqb c (fst g) (fst s)) got spec
      && forallb (fun g => existsb (celt_eqb g) all) got
      && strictly_sorted c got
      && forallb (fun g => key_eqb c (fst g) lastkey || existsb (celt_eqb g) spec) got
      && existsb (fun s => Nat.leb 3 (count ckey (fun e => key_eqb c (fst e) lastkey) s)) segs
      && negb (list_eqb celt_eqb got spec)
  end.

(* decidable NoDup on addresses (for witnesses and examples) *)
Fixpoint nodupb (l : list N) : bool :=
  match l with [] => true | x :: r => negb (existsb (N.eqb x) r) && nodupb r end.
Lemma nodupb_sound l : nodupb l = true -> NoDup l.
Proof.
  induction l as [|x r IH]; cbn [nodupb]; intros H; [constructor|].
  apply andb_true_iff in H. destruct H as [H1 H2]. constructor; [|now apply IH].
  intro Hin. apply negb_true_iff in H1. assert (existsb (N.eqb x) r = true); [|congruence].
  apply existsb_exists. exists x. split; [exact Hin|apply N.eqb_refl].
Qed.
