(* Rank/WandNoFreq.v -- posting lists of a field indexed WITHOUT term frequencies (STRING,
   IndexRecordOption::Basic; FreqReadingOption::NoFreq) in the block-max WAND model of Rank/Wand.v.

   Such lists carry no block-WAND metadata: src/postings/skip.rs read_block_info leaves
   (block_wand_fieldnorm_id, block_wand_term_freq) = (0, 0), so SkipReader::block_max_score is
   bm25.score(0, 0) = 0 for every full (bit-packed, COMPRESSION_BLOCK_SIZE docs) block, while every
   posting scores weight * 1/(1 + norm) > 0.  Only the last (VInt) block gets its true maximum (computed
   from the decoded docs).  BooleanWeight::scorer_union keeps such scorers away from block_wand (`all(ReadFreq)`);
   TermWeight::for_each_pruning does not (finding F61). *)
From TV Require Import Base.Prelude Generated.Constants Rank.Wand.
Local Open Scope Z_scope.

(* metadata as the skip reader reports it for a no-frequency list cut into blocks of [bs] postings *)
Fixpoint nf_chunks (fuel bs : nat) (p : list (N * Z)) : list (list (N * Z)) :=
  match fuel with O => [] | S f => match p with [] => [] | _ => firstn bs p :: nf_chunks f bs (skipn bs p) end end.
Definition nf_max (l : list (N * Z)) : Z := fold_left (fun a dx => Z.max a (snd dx)) l 0.
Fixpoint nf_blocks (bs : nat) (cs : list (list (N * Z))) : list block :=
  match cs with
  | [] => [ {| b_last := TERM; b_max := 0 |} ]
  | [c] => if Nat.eqb (length c) bs
           then [ {| b_last := fst (last c (0%N, 0)); b_max := 0 |}; {| b_last := TERM; b_max := 0 |} ]   (* full block + empty VInt block *)
           else [ {| b_last := TERM; b_max := nf_max c |} ]                                              (* last, partial block: true maximum *)
  | c :: r => {| b_last := fst (last c (0%N, 0)); b_max := 0 |} :: nf_blocks bs r
  end.
Definition nofreq_scorer (bs : nat) (p : list (N * Z)) (max_score : Z) : scorer :=
  {| sc_post := p; sc_blocks := nf_blocks bs (nf_chunks (length p) bs p); sc_max := max_score |}.

(* a block max of 0 over a block that holds a posting with a positive score: the bounds contract of
   C06_wand_single_sound / C06_wand_union_sound is violated -- for every such list *)
Lemma nofreq_not_upper_bounds : forall sc b r d x,
  sc_blocks sc = b :: r -> b_max b = 0 -> In (d, x) (sc_post sc) -> (d <= b_last b)%N -> 0 < x ->
  ~ upper_bounds sc.
Proof.
  intros sc b r d x Eb Hb Hin Hd Hx U. specialize (U d x Hin). rewrite Eb in U. cbn [bmax_at] in U.
  destruct (N.leb_spec d (b_last b)); lia.
Qed.

(* class of finding F61: a SINGLE-term query (TermWeight::for_each_pruning -> block_wand_single_scorer)
   on a field without frequencies whose posting list fills at least one block in some segment.
   Input: is the query a single term; per query term (has frequencies, max postings in one segment). *)
Definition F61_class (single : bool) (terms : list (bool * N)) : bool :=
  single && existsb (fun p => negb (fst p) && N.leb COMPRESSION_BLOCK_SIZE (snd p)) terms.
