(* Rank/WandUnionProofs.v -- soundness and termination of block-max WAND for unions
   (`block_wand`, src/query/boolean_query/block_wand_union.rs; model: Rank/Wand.v, Section Union).

   Invariant (DESIGN.md section 9): scorers sorted by current doc; every document of the exhaustive
   union list [L] at or after the frontier [lo] is either ALIVE (still present in the scorers with its
   full score) or has full score <= the current threshold; [T] is the last pivot: no shallow cursor
   has been sent beyond it and the scorers still below it cannot reach the threshold together. *)
From TV Require Import Base.Prelude Generated.Constants Rank.Wand.
From TV Require Import Rank.WandUnionBase Rank.WandUnionOps Rank.WandUnionInv Rank.WandUnionAdvOne Rank.WandUnionMerge.
Local Open Scope Z_scope.

(* sortedness only depends on the current docs *)
Lemma sorted_F2 l l' : Forall2 (fun s s' => doc s' = doc s) l l' -> sorted l -> sorted l'.
Proof.
  induction 1 as [|s s' r r' E Hr IH]; [auto|]. cbn [sorted]. intros (H1 & H2). split; [|auto].
  clear IH H2. induction Hr as [|y y' q q' Ey Hq IHq]; [constructor|]. inversion H1; subst. constructor; [lia|auto].
Qed.
Lemma sorted_replace a x x' b :
  sorted (a ++ x :: b) -> (doc x <= doc x')%N -> Forall (fun y => (doc x' <= doc y)%N) b -> sorted (a ++ x' :: b).
Proof.
  intros H Hx Hb. apply sorted_app in H. destruct H as (Ha & Hxb & Hab). cbn [sorted] in Hxb.
  apply sorted_app. split; [exact Ha|]. split; [cbn [sorted]; split; [exact Hb|apply Hxb]|].
  eapply Forall_impl; [|exact Hab]. cbn beta. intros y Hy. inversion Hy; subst. constructor; [lia|assumption].
Qed.

Lemma drop_lt_at lo l d x : asc_from lo l -> In (d, x) l -> drop_lt d l = (d, x) :: drop_lt (d + 1) l.
Proof.
  revert lo. induction l as [|[d' x'] r IH]; intros lo A H; [contradiction|].
  pose proof A as A0. cbn in A0. destruct A0 as (A1 & A2 & A3). cbn [drop_lt].
  destruct (N.ltb_spec d' d) as [Hlt|Hge].
  - destruct (N.ltb_spec d' (d + 1)); [|lia]. destruct H as [E|H]; [injection E as -> ->; lia|]. eapply IH; eauto.
  - destruct H as [E|H].
    + injection E as -> ->. destruct (N.ltb_spec d (d + 1)); [|lia]. f_equal. symmetry. now apply drop_lt_id.
    + pose proof (asc_in _ _ _ _ A3 H). lia.
Qed.

Lemma doc_seek_block t s : doc (seek_block t s) = doc s.
Proof. reflexivity. Qed.

Lemma mv_doc_ge t s s' : posts_asc s -> mv t s s' -> (t <= TERM)%N -> (t <= doc s')%N.
Proof.
  intros A (E & _) Ht. unfold doc. rewrite E. destruct (drop_lt t (sc_post s)) as [|[d x] r] eqn:E'; [exact Ht|].
  apply (dl_ge t (sc_post s) 0 d x A). rewrite E'. now left.
Qed.

Lemma total_len_advance Hd : Hd <> [] -> Forall (fun s => sc_post s <> []) Hd ->
  (total_len (map advance Hd) < total_len Hd)%nat.
Proof.
  intros Hne H. assert (G : forall s, sc_post s <> [] -> (S (length (sc_post (advance s))) = length (sc_post s))%nat).
  { intros s Hs. unfold advance. cbn [seek_block sc_post]. destruct (sc_post s); [congruence|reflexivity]. }
  induction H as [|s r Hs Hr IH]; [congruence|]. cbn [map]. rewrite !total_len_cons. specialize (G s Hs).
  destruct r as [|s2 r2]; [unfold total_len; cbn [map nsum]; lia|]. specialize (IH ltac:(congruence)). lia.
Qed.
Lemma total_len_filter f l : (total_len (filter f l) <= total_len l)%nat.
Proof. induction l as [|s r IH]; [cbn; lia|]. cbn [filter]. destruct (f s); rewrite ?total_len_cons; lia. Qed.

Section Soundness.
  Variable St : Type.
  Variable thr : St -> Z.
  Variable step : St -> N -> Z -> St.
  Hypothesis thr_mono : forall st d x, thr st <= thr (step st d x).
  (* the exhaustive union list: ascending (doc, full score) *)
  Variable L : list (N * Z).
  Hypothesis L_asc : asc_from 0 L.

  Local Notation exh := (exhaustive St thr step).
  Local Notation offer' := (offer St thr step).

  Definition InvU (T lo : N) (scs : list scorer) (th : Z) : Prop :=
    Forall (sokT T) scs /\ low T scs th /\
    (forall d x, In (d, x) L -> (lo <= d)%N -> (present scs d /\ cur scs d = x) \/ x <= th) /\
    (forall d, present scs d -> exists x, In (d, x) L /\ cur scs d <= x) /\
    Forall (fun s => (lo <= doc s)%N) scs.
  Definition Inv (T lo : N) (scs : list scorer) (th : Z) : Prop := sorted scs /\ InvU T lo scs th.

  Lemma InvU_weaken T lo scs th th' : InvU T lo scs th -> th <= th' -> InvU T lo scs th'.
  Proof.
    intros (H1 & H2 & H3 & H4 & H5) Hth. split; [exact H1|]. split; [|split; [|split; [exact H4|exact H5]]].
    - destruct H2 as [H2|H2]; [left; exact H2|right; lia].
    - intros d x Hin Hd. destruct (H3 d x Hin Hd) as [H|H]; [left; exact H|right; lia].
  Qed.

  Lemma docs_ge_mvs T0 T t scs scs' : Forall (sokT T0) scs -> mvs t scs scs' ->
    Forall (fun s => (T <= doc s)%N) scs -> Forall (fun s => (T <= doc s)%N) scs'.
  Proof.
    intros A M. induction M as [|s s' r r' (t' & Ht & Hm) Hr IH]; [auto|]. intros H. inversion A; subst. inversion H; subst.
    constructor; [|auto]. pose proof (mv_doc t' s s' (sokT_asc _ _ ltac:(eassumption)) Hm). lia.
  Qed.
  Lemma low_mvs T0 T t scs scs' th : Forall (sokT T0) scs -> mvs t scs scs' -> low T scs th -> low T scs' th.
  Proof.
    intros A M [H|H]; [left; eapply docs_ge_mvs; eauto|right]. pose proof (mvs_lowmax T0 T t scs scs' A M). lia.
  Qed.

  Lemma Forall_asc T scs : Forall (sokT T) scs -> Forall posts_asc scs.
  Proof. intros H. eapply Forall_impl; [|exact H]. intros s. apply sokT_asc. Qed.

  (* some scorers move forward (below t), the frontier moves to lo' *)
  Lemma InvU_mvs_lo T lo lo' scs scs' th t :
    InvU T lo scs th -> mvs t scs scs' -> Forall (sokT T) scs' -> (lo <= lo')%N ->
    Forall (fun s => (lo' <= doc s)%N) scs' ->
    (forall d x, In (d, x) L -> (lo' <= d)%N -> (d < t)%N -> x <= th) -> InvU T lo' scs' th.
  Proof.
    intros (H1 & H2 & H3 & H4 & H5) M Hok Hlo Hdocs Hdead. pose proof (Forall_asc _ _ H1) as HA.
    split; [exact Hok|]. split; [exact (low_mvs T T t scs scs' th H1 M H2)|]. split; [|split; [|exact Hdocs]].
    - intros d x Hin Hd. destruct (N.lt_ge_cases d t) as [Hlt|Hge]; [right; eauto|].
      destruct (H3 d x Hin ltac:(lia)) as [(Hp & Hc)|H]; [left|right; exact H]. split.
      + eapply mvs_present_ge; eauto.
      + rewrite (mvs_cur_ge t scs scs' d HA M Hge). exact Hc.
    - intros d Hp. apply (mvs_present_sub t scs scs' d HA M) in Hp. destruct (H4 d Hp) as (x & Hin & Hle).
      exists x. split; [exact Hin|]. pose proof (mvs_cur_le T t scs scs' d H1 M). lia.
  Qed.
  Lemma InvU_mvs T lo scs scs' th t :
    InvU T lo scs th -> mvs t scs scs' -> Forall (sokT T) scs' ->
    (forall d x, In (d, x) L -> (lo <= d)%N -> (d < t)%N -> x <= th) -> InvU T lo scs' th.
  Proof.
    intros H M Hok Hdead. pose proof H as (H1 & _ & _ & _ & H5).
    apply (InvU_mvs_lo T lo lo scs scs' th t H M Hok); [lia| |exact Hdead]. exact (docs_ge_mvs T lo t scs scs' H1 M H5).
  Qed.

  Lemma InvU_perm T lo scs scs' th : Permutation scs scs' -> InvU T lo scs th -> InvU T lo scs' th.
  Proof.
    intros P (H1 & H2 & H3 & H4 & H5). split; [eapply Permutation_Forall; eauto|]. split; [|split; [|split]].
    - destruct H2 as [H2|H2]; [left; eapply Permutation_Forall; eauto|right; now rewrite <- (lowmax_perm T _ _ P)].
    - intros d x Hin Hd. destruct (H3 d x Hin Hd) as [(Hp & Hc)|H]; [left|right; exact H].
      split; [eapply present_perm; eauto|now rewrite <- (cur_perm _ _ d P)].
    - intros d Hp. apply (present_perm _ _ d (Permutation_sym P)) in Hp. destruct (H4 d Hp) as (x & Hin & Hle).
      exists x. split; [exact Hin|now rewrite <- (cur_perm _ _ d P)].
    - eapply Permutation_Forall; eauto.
  Qed.

  Lemma InvU_remove T lo a x b th : InvU T lo (a ++ x :: b) th -> sc_post x = [] -> InvU T lo (a ++ b) th.
  Proof.
    intros (H1 & H2 & H3 & H4 & H5) E.
    assert (Hp : forall d, present (a ++ x :: b) d <-> present (a ++ b) d).
    { intros d. rewrite !present_app, present_cons. rewrite E. unfold has at 1. cbn [map In]. tauto. }
    assert (Hc : forall d, cur (a ++ x :: b) d = cur (a ++ b) d).
    { intros d. rewrite !cur_app, cur_cons, E. cbn [sc_at]. lia. }
    apply Forall_app in H1. destruct H1 as (H1a & H1b). inversion H1b; subst.
    split; [apply Forall_app; split; assumption|]. split; [|split; [|split]].
    - destruct H2 as [H2|H2].
      + left. apply Forall_app in H2. destruct H2 as (H2a & H2b). inversion H2b; subst. apply Forall_app; split; assumption.
      + right. rewrite lowmax_app, lowmax_cons in H2. rewrite lowmax_app. pose proof (lowterm_nonneg T T x ltac:(assumption)). lia.
    - intros d y Hin Hd. destruct (H3 d y Hin Hd) as [(Hq & Hcu)|H]; [left|right; exact H]. rewrite <- Hp, <- Hc. now split.
    - intros d Hq. apply Hp in Hq. destruct (H4 d Hq) as (y & Hin & Hle). exists y. rewrite <- Hc. now split.
    - apply Forall_app in H5. destruct H5 as (H5a & H5b). inversion H5b; subst. apply Forall_app; split; assumption.
  Qed.

  Lemma InvU_filter T lo f th : (forall s, posts_asc s -> f s = false -> sc_post s = []) ->
    forall r a, InvU T lo (a ++ r) th -> InvU T lo (a ++ filter f r) th.
  Proof.
    intros Hf. induction r as [|s r IH]; intros a H; [exact H|]. cbn [filter]. destruct (f s) eqn:Es.
    - change (a ++ s :: filter f r) with (a ++ [s] ++ filter f r). rewrite app_assoc. apply IH. rewrite <- app_assoc. exact H.
    - apply IH. eapply InvU_remove; [exact H|]. apply Hf; [|exact Es].
      destruct H as (H1 & _). apply Forall_app in H1. destruct H1 as (_ & H1). inversion H1; subst. eapply sokT_asc; eauto.
  Qed.

  Lemma InvU_T T T' lo scs th : InvU T lo scs th -> (T <= T')%N -> low T' scs th -> InvU T' lo scs th.
  Proof.
    intros (H1 & H2 & H3) HT Hl. split; [|split; [exact Hl|exact H3]].
    eapply Forall_impl; [|exact H1]. intros s Hs. eapply sokT_raise; eauto.
  Qed.

  (* G: documents below T' cannot beat the threshold *)
  Lemma below_pivot_dead T T' lo scs th d x :
    InvU T lo scs th -> low T' scs th -> In (d, x) L -> (lo <= d)%N -> (d < T')%N -> x <= th.
  Proof.
    intros (H1 & H2 & H3 & H4 & H5) Hl Hin Hd HT. destruct (H3 d x Hin Hd) as [(Hp & Hc)|H]; [|exact H].
    destruct Hl as [Hl|Hl].
    - exfalso. apply (not_present_above scs d (Forall_asc _ _ H1)); [|exact Hp].
      eapply Forall_impl; [|exact Hl]. cbn beta. intros; lia.
    - pose proof (cur_le_lowmax T T' scs d H1 HT). lia.
  Qed.

  (* the pivot never goes back *)
  Lemma pivot_ge_T T0 T A s R th :
    Forall (sokT T0) (A ++ s :: R) -> low T (A ++ s :: R) th -> Forall (fun y => (doc y <= doc s)%N) A ->
    th < zsum (map sc_max (A ++ [s])) -> (T <= doc s)%N.
  Proof.
    intros Hok [Hl|Hl] HA Hth.
    - apply Forall_app in Hl. destruct Hl as (_ & Hl). now inversion Hl.
    - destruct (N.le_gt_cases T (doc s)) as [H|H]; [exact H|exfalso].
      assert (E : A ++ s :: R = (A ++ [s]) ++ R) by (rewrite <- app_assoc; reflexivity). rewrite E in Hl, Hok.
      apply Forall_app in Hok. destruct Hok as (_ & HokR).
      assert (HX : Forall (fun y => (doc y < T)%N) (A ++ [s])).
      { apply Forall_app. split; [|constructor; [lia|constructor]]. eapply Forall_impl; [|exact HA]. cbn beta. intros; lia. }
      pose proof (lowmax_prefix T0 T (A ++ [s]) R HokR HX). lia.
  Qed.

  (* skipping documents that cannot beat the threshold is invisible to the collector *)
  Lemma exh_skip lo lo' st : (lo <= lo')%N ->
    (forall d x, In (d, x) L -> (lo <= d)%N -> (d < lo')%N -> x <= thr st) ->
    exh (drop_lt lo L) st = exh (drop_lt lo' L) st.
  Proof.
    intros Hlo Hdead. rewrite <- (dl_idem lo' lo L Hlo).
    destruct (dl_split lo' (drop_lt lo L) _ (dl_asc 0 lo _ L_asc)) as (dead & E & Hd).
    rewrite E at 1. rewrite exhaustive_app. f_equal. apply (exhaustive_dead St thr step thr_mono).
    intros d x Hin. assert (Hin' : In (d, x) (drop_lt lo L)) by (rewrite E; apply in_or_app; now left).
    pose proof (dl_ge _ _ _ _ _ L_asc Hin'). apply dl_incl in Hin'. eapply Hdead; eauto.
  Qed.

  (* ---------------------------------------------------------------- (a) align_scorers *)
  Lemma align_inv p lo th : (p < TERM)%N -> forall A M C,
    Inv p lo (A ++ M ++ C) th -> M <> [] -> Forall (fun s => doc s = p) M -> Forall (fun s => (doc s <= p)%N) A ->
    Forall (fun s => (p < doc s)%N) C ->
    match align (A ++ M ++ C) p (rev (seq 0 (length A))) with
    | (true, scs2) => exists A2, scs2 = A2 ++ M ++ C /\ length A2 = length A /\ Forall (fun s => doc s = p) A2 /\
                                 Inv p lo scs2 th /\ (total_len scs2 <= total_len (A ++ M ++ C))%nat
    | (false, scs2) => Inv p lo scs2 th /\ (total_len scs2 < total_len (A ++ M ++ C))%nat
    end.
  Proof.
    intros HpT. induction A as [|x A' IH] using rev_ind; intros M C HI HM HMp HA HC.
    - cbn [length seq rev align]. exists []. cbn [app length]. split; [reflexivity|]. split; [reflexivity|]. split; [constructor|]. split; [exact HI|lia].
    - rewrite app_length. cbn [length]. rewrite Nat.add_1_r, seq_S, rev_unit. cbn [Nat.add align].
      apply Forall_app in HA. destruct HA as (HA' & Hx). inversion Hx as [|? ? Hxp _]; subst.
      assert (E : (A' ++ [x]) ++ M ++ C = A' ++ x :: M ++ C) by (rewrite <- app_assoc; reflexivity).
      rewrite E in *. rewrite nth_middle, set_nth_app.
      destruct HI as (Hs & HU). pose proof HU as (Hok & Hlow & _).
      assert (Hokx : sokT p x) by (apply Forall_app in Hok; destruct Hok as (_ & Hok); now inversion Hok).
      pose proof (sokT_asc _ _ Hokx) as Hax.
      set (x' := seek p x). pose proof (mv_seek p x Hax) as Hmv. fold x' in Hmv.
      assert (HU' : InvU p lo (A' ++ x' :: M ++ C) th).
      { eapply (InvU_mvs p lo _ _ th p); [exact HU|apply mvs_one; exists p; split; [lia|exact Hmv]| |].
        - apply Forall_app in Hok. destruct Hok as (Hok1 & Hok2). inversion Hok2; subst.
          apply Forall_app. split; [assumption|]. constructor; [now apply sokT_seek|assumption].
        - intros d y Hin Hd Hlt. eapply below_pivot_dead; eauto. }
      pose proof (mv_doc p x x' Hax Hmv) as Hdoc.
      assert (HxT : (doc x < TERM)%N) by lia.
      assert (Hstrict : doc x' <> p -> (total_len (A' ++ x' :: M ++ C) < total_len (A' ++ x :: M ++ C))%nat).
      { intros Hne. rewrite !total_len_app, !total_len_cons.
        assert (doc x < p)%N.
        { destruct (N.lt_ge_cases (doc x) p) as [|Hge]; [assumption|exfalso]. apply Hne. subst x'. unfold seek.
          destruct (N.leb_spec p (doc x)); lia. }
        pose proof (mv_len_lt p x x' Hmv ltac:(assumption) HxT). lia. }
      destruct (N.eqb_spec (doc x') p) as [Ep|Enp].
      + (* landed on the pivot: continue with the next scorer to the left *)
        assert (HI' : Inv p lo (A' ++ (x' :: M) ++ C) th).
        { split; [|exact HU']. cbn [app]. eapply sorted_replace; [exact Hs|exact Hdoc|].
          apply Forall_app. split; eapply Forall_impl; try eassumption; cbn beta; intros; lia. }
        specialize (IH (x' :: M) C HI' ltac:(congruence) ltac:(constructor; assumption) HA' HC).
        cbn [app] in IH. pose proof (mvs_total_len p _ _ (mvs_one p A' x x' (M ++ C) ltac:(exists p; split; [lia|exact Hmv]))) as Hlen.
        destruct (align (A' ++ x' :: M ++ C) p (rev (seq 0 (length A')))) as [[|] scs2].
        * destruct IH as (A2 & E2 & L2 & F2 & I2 & T2). exists (A2 ++ [x']). rewrite <- app_assoc. cbn [app].
          split; [exact E2|]. split; [rewrite !app_length; cbn [length]; lia|]. split; [apply Forall_app; split; [exact F2|now constructor]|].
          split; [exact I2|lia].
        * destruct IH as (I2 & T2). split; [exact I2|lia].
      + (* went past the pivot *)
        destruct (N.eqb_spec (doc x') TERM) as [Et|Ent].
        * (* exhausted: swap_remove + restore_ordering *)
          assert (Hpe : sc_post x' = []) by (apply (doc_TERM_nil unit u_thr u_step u_mono); [apply sokT_seek with (T := p) (t := p) in Hokx; apply Hokx|exact Et]).
          destruct (exists_last (l := M ++ C)) as (R & y & ER); [destruct M; [congruence|discriminate]|].
          rewrite ER in *.
          assert (Elen : Nat.eqb (length A') (length (removelast (A' ++ x :: R ++ [y]))) = false).
          { apply Nat.eqb_neq. replace (A' ++ x :: R ++ [y]) with ((A' ++ x :: R) ++ [y]) by (rewrite <- app_assoc; reflexivity).
            rewrite removelast_last, app_length. cbn [length]. lia. }
          rewrite Elen. rewrite (swap_remove_eq A' x R y).
          assert (HUr : InvU p lo (A' ++ R ++ [y]) th) by (eapply InvU_remove; [exact HU'|exact Hpe]).
          split; [split|].
          -- now apply (swap_remove_sorted A' x R y).
          -- eapply InvU_perm; [apply Permutation_sym, swap_remove_perm|exact HUr].
          -- rewrite (total_len_perm _ _ (swap_remove_perm A' R y)). specialize (Hstrict Enp).
             rewrite (total_len_app A' (x' :: R ++ [y])), (total_len_app A' (x :: R ++ [y])), !total_len_cons, Hpe in Hstrict.
             rewrite (total_len_app A' (R ++ [y])), (total_len_app A' (x :: R ++ [y])), total_len_cons. cbn [length] in Hstrict. lia.
        * split; [split|].
          -- eapply restore_sorted; [exact Hs|exact Hdoc].
          -- eapply InvU_perm; [apply Permutation_sym, restore_perm|exact HU'].
          -- rewrite (total_len_perm _ _ (restore_perm A' x' (M ++ C))). now apply Hstrict.
  Qed.

  (* ---------------------------------------------------------------- the loop *)
  Lemma loop_sound : forall fuel scs st T lo,
    Inv T lo scs (thr st) -> (total_len scs < fuel)%nat ->
    union_loop St thr step fuel scs st = Some (exh (drop_lt lo L) st).
  Proof.
    induction fuel as [|f IH]; intros scs st T lo (Hs & HU) Hf; [lia|]. cbn [union_loop].
    pose proof HU as (Hok & Hlow & Hal & Hin & Hdocs).
    destruct (find_pivot_doc scs (thr st)) as [[[b plen] p]|] eqn:Ef.
    2:{ (* no pivot: nothing left can beat the threshold *)
        pose proof (find_pivot_none T scs (thr st) Hs Hok Ef) as HlT. f_equal. symmetry.
        apply (exhaustive_dead St thr step thr_mono). intros d x Hi.
        pose proof (dl_ge _ _ _ _ _ L_asc Hi) as Hd. apply dl_incl in Hi.
        pose proof (asc_in _ _ _ _ L_asc Hi). eapply (below_pivot_dead T TERM lo scs); eauto. lia. }
    destruct (find_pivot_some T scs (thr st) b plen p Hs Hok Ef) as (A & s & B & C & Escs & Eb & Eplen & Hsp & HpT & HB & HA & HC & Hlp & Hth).
    assert (HTp : (T <= p)%N).
    { subst p. eapply (pivot_ge_T T T A s (B ++ C) (thr st)); [rewrite <- Escs; exact Hok|rewrite <- Escs; exact Hlow| |exact Hth].
      exact HA. }
    pose proof (InvU_T T p lo scs (thr st) HU HTp Hlp) as HUp.
    set (Hd := A ++ s :: B) in *.
    assert (Escs' : scs = Hd ++ C) by (subst Hd; rewrite <- app_assoc; exact Escs).
    assert (Efn : firstn plen scs = Hd) by (rewrite Escs', Eplen; apply firstn_app_exact).
    assert (Esk : skipn plen scs = C) by (rewrite Escs', Eplen; apply skipn_app_exact).
    rewrite Efn, Esk.
    (* shallow advance of the first plen scorers to the pivot *)
    set (A1 := map (seek_block p) A). set (M1 := map (seek_block p) (s :: B)).
    assert (EH1 : map (seek_block p) Hd = A1 ++ M1) by (subst Hd A1 M1; now rewrite map_app).
    rewrite EH1.
    assert (Hmv1 : mvs 0 scs ((A1 ++ M1) ++ C)).
    { rewrite Escs', <- EH1. apply mvs_app; [|apply mvs_refl]. apply mvs_map. rewrite Forall_forall. intros y _.
      exists 0%N. split; [lia|apply mv_seek_block]. }
    pose proof HUp as (Hokp & _).
    assert (Hok1 : Forall (sokT p) ((A1 ++ M1) ++ C)).
    { rewrite Escs' in Hokp. apply Forall_app in Hokp. destruct Hokp as (Hk1 & Hk2). apply Forall_app. split; [|exact Hk2].
      rewrite <- EH1. apply Forall_forall. intros y Hy. apply in_map_iff in Hy. destruct Hy as (y0 & <- & Hy0).
      apply sokT_seek_block; [|lia]. rewrite Forall_forall in Hk1. now apply Hk1. }
    assert (HU1 : InvU p lo ((A1 ++ M1) ++ C) (thr st)).
    { eapply (InvU_mvs p lo scs _ (thr st) 0); [exact HUp|exact Hmv1|exact Hok1|]. intros; lia. }
    assert (Hs1 : sorted ((A1 ++ M1) ++ C)).
    { eapply sorted_F2; [|exact Hs]. rewrite Escs', <- EH1. apply Forall2_app.
      - clear. induction Hd; cbn [map]; constructor; auto.
      - clear. induction C; constructor; auto. }
    assert (HA1 : Forall (fun y => (doc y <= p)%N) A1).
    { subst A1. apply Forall_forall. intros y Hy. apply in_map_iff in Hy. destruct Hy as (y0 & <- & Hy0).
      rewrite doc_seek_block. rewrite Forall_forall in HA. now apply HA. }
    assert (HM1 : Forall (fun y => doc y = p) M1).
    { subst M1. apply Forall_forall. intros y Hy. apply in_map_iff in Hy. destruct Hy as (y0 & <- & Hy0).
      rewrite doc_seek_block. destruct Hy0 as [<-|Hy0]; [exact Hsp|]. rewrite Forall_forall in HB. now apply HB. }
    assert (HM1ne : M1 <> []) by (subst M1; cbn; congruence).
    assert (Hlen1 : length (A1 ++ M1) = plen) by (rewrite <- EH1, map_length; now rewrite Eplen).
    assert (Hplen : (0 < plen)%nat) by (rewrite Eplen; subst Hd; rewrite app_length; cbn [length]; lia).
    assert (Hldb : Forall (fun y => (p <= last_doc_in_block y)%N) (A1 ++ M1)).
    { rewrite <- EH1. apply Forall_forall. intros y Hy. apply in_map_iff in Hy. destruct Hy as (y0 & <- & Hy0).
      apply ldb_seek_block; [|lia]. rewrite Escs' in Hokp. apply Forall_app in Hokp. destruct Hokp as (Hk1 & _).
      rewrite Forall_forall in Hk1. apply (Hk1 _ Hy0). }
    assert (Hlen_eq : total_len ((A1 ++ M1) ++ C) = total_len scs).
    { rewrite Escs', (total_len_app (A1 ++ M1) C), (total_len_app Hd C). f_equal. rewrite <- EH1. clear. induction Hd as [|y r IHr]; [reflexivity|]. cbn [map]. rewrite !total_len_cons, IHr. reflexivity. }
    assert (Hdle : Forall (fun y => (doc y <= p)%N) (A1 ++ M1)).
    { apply Forall_app. split; [exact HA1|]. eapply Forall_impl; [|exact HM1]. cbn beta. intros; lia. }
    rewrite fold_left_zsum. cbn [Z.add].
    destruct (Z.leb_spec (zsum (map block_max (A1 ++ M1))) (thr st)) as [Hup|Hup].
    - (* (b) block max too low: one scorer is moved to after2 *)
      destruct (advance_one_spec ((A1 ++ M1) ++ C) plen) as (ts & after2 & Hts & Eao & Haft & Hin2 & Hlo2).
      { rewrite (app_length (A1 ++ M1)). lia. }
      rewrite Eao. set (scs1 := (A1 ++ M1) ++ C) in *.
      assert (Hts1 : (ts < length scs1)%nat) by (subst scs1; rewrite app_length; lia).
      assert (Hsk1 : skipn plen scs1 = C) by (subst scs1; rewrite <- Hlen1; apply skipn_app_exact).
      rewrite Hsk1 in *.
      assert (Hp2 : (p < after2)%N).
      { apply Hlo2; [exact HpT| |exact HC]. intros i Hi. rewrite Forall_forall in Hldb. apply Hldb.
        subst scs1. rewrite app_nth1 by lia. apply nth_In. lia. }
      (* every document in [p, after2) is covered by the current blocks *)
      assert (Hblk : forall d x, In (d, x) L -> (lo <= d)%N -> (d < after2)%N -> x <= thr st).
      { intros d x Hi Hdlo Hlt. destruct (N.lt_ge_cases d p) as [Hdp|Hdp]; [eapply (below_pivot_dead p p lo scs1); eauto; apply HU1|].
        destruct HU1 as (_ & _ & Hal1 & _ & _). destruct (Hal1 d x Hi Hdlo) as [(Hpr & Hc)|H]; [|exact H].
        rewrite <- Hc. subst scs1. rewrite cur_app.
        rewrite (cur_zero_above C d).
        - assert (cur (A1 ++ M1) d <= zsum (map block_max (A1 ++ M1))); [|lia].
          unfold cur. apply zsum_map_le. apply Forall_forall. intros y Hy.
          destruct (In_nth _ _ dflt Hy) as (i & Hi1 & Hi2).
          apply (sc_at_le_block_max p); [|exact Hdp|].
          + apply Forall_app in Hok1. destruct Hok1 as (Hk & _). rewrite Forall_forall in Hk. now apply Hk.
          + rewrite <- Hi2. rewrite <- (app_nth1 _ C) by exact Hi1. apply Hin2; [lia|exact Hlt].
        - apply Forall_app in Hok1. destruct Hok1 as (_ & Hk). exact (Forall_asc _ _ Hk).
        - eapply Forall_impl; [|exact Haft]. cbn beta. intros; lia. }
      pose proof (nth_decomp ts scs1 Hts1) as Edec.
      set (a := firstn ts scs1) in *. set (x := nth ts scs1 dflt) in *. set (bb := skipn (S ts) scs1) in *.
      assert (Hla : length a = ts) by (subst a; apply firstn_length_le; lia).
      assert (Hxle : (doc x <= p)%N).
      { subst x scs1. rewrite app_nth1 by lia. rewrite Forall_forall in Hdle. apply Hdle. apply nth_In. lia. }
      assert (Hokx : sokT p x) by (rewrite Edec in Hok1; apply Forall_app in Hok1; destruct Hok1 as (_ & Hk); now inversion Hk).
      pose proof (mv_seek after2 x (sokT_asc _ _ Hokx)) as Hmv.
      rewrite Edec. rewrite <- Hla at 1 2. rewrite set_nth_app.
      assert (HU2 : InvU p lo (a ++ seek after2 x :: bb) (thr st)).
      { eapply (InvU_mvs p lo scs1 _ (thr st) after2); [exact HU1|rewrite Edec at 1; apply mvs_one; exists after2; split; [lia|exact Hmv]| |exact Hblk].
        rewrite Edec in Hok1. apply Forall_app in Hok1. destruct Hok1 as (Hk1 & Hk2). inversion Hk2 as [|? ? Hk2a Hk2b].
        apply Forall_app. split; [assumption|]. constructor; [now apply sokT_seek|assumption]. }
      apply (IH _ st p lo).
      + split.
        * eapply restore_sorted; [rewrite <- Edec; exact Hs1|]. exact (mv_doc after2 x _ (sokT_asc _ _ Hokx) Hmv).
        * eapply InvU_perm; [apply Permutation_sym, restore_perm|exact HU2].
      + rewrite (total_len_perm _ _ (restore_perm a (seek after2 x) bb)).
        assert (total_len (a ++ seek after2 x :: bb) < total_len scs1)%nat; [|lia].
        rewrite Edec at 1. rewrite !total_len_app, !total_len_cons.
        pose proof (mv_len_lt after2 x _ Hmv ltac:(lia) ltac:(lia)). lia.
    - (* block-max condition holds: try to align the scorers before the pivot *)
      assert (Eb1 : b = length A1) by (subst A1; now rewrite map_length).
      rewrite Eb1. rewrite <- app_assoc.
      pose proof (align_inv p lo (thr st) HpT A1 M1 C) as Hal1. rewrite <- app_assoc in Hs1, HU1, Hlen_eq.
      specialize (Hal1 (conj Hs1 HU1) HM1ne HM1 HA1 HC).
      destruct (align (A1 ++ M1 ++ C) p (rev (seq 0 (length A1)))) as [[|] scs2].
      2:{ destruct Hal1 as (HI2 & Hl2). apply (IH _ st p lo); [exact HI2|lia]. }
      (* (c) all scorers of the head are on the pivot *)
      destruct Hal1 as (A2 & -> & HlA2 & HA2 & (Hs2 & HU2) & Hl2).
      set (Hd2 := A2 ++ M1).
      assert (EHd2 : A2 ++ M1 ++ C = Hd2 ++ C) by (subst Hd2; now rewrite <- app_assoc).
      assert (HlHd2 : length Hd2 = plen) by (subst Hd2; rewrite app_length, HlA2, <- app_length; exact Hlen1).
      rewrite EHd2 in *.
      unfold advance_all_on_pivot. rewrite <- HlHd2. rewrite firstn_app_exact, skipn_app_exact.
      rewrite fold_left_zsum. cbn [Z.add].
      assert (Hon : Forall (fun y => doc y = p) Hd2) by (subst Hd2; apply Forall_app; split; assumption).
      pose proof HU2 as (Hok2 & Hlow2 & Hal2 & Hin2 & Hdocs2).
      pose proof Hok2 as Hok2'. apply Forall_app in Hok2'. destruct Hok2' as (HokH & HokC).
      assert (Hne2 : Forall (fun y => sc_post y <> []) Hd2).
      { eapply Forall_impl; [|exact Hon]. cbn beta. intros y Hy. apply doc_lt_TERM_ne. lia. }
      assert (Hd2ne : Hd2 <> []) by (subst Hd2; destruct A2; [exact HM1ne|discriminate]).
      (* the sum of the head's scores is the pivot's current total *)
      assert (Esc : zsum (map score Hd2) = cur (Hd2 ++ C) p).
      { rewrite cur_app, (cur_zero_above C p (Forall_asc _ _ HokC) HC). unfold cur. rewrite Z.add_0_r.
        clear - Hon Hne2. induction Hon as [|y r Hy Hr IHr]; [reflexivity|]. inversion Hne2 as [|? ? Hn1 Hn2]. cbn [map zsum].
        rewrite IHr by assumption. f_equal. rewrite <- Hy. now apply score_at_doc. }
      assert (Hpres : present (Hd2 ++ C) p /\ (lo <= p)%N).
      { clear Esc EHd2 HlHd2. destruct Hd2 as [|y r]; [congruence|]. inversion Hon as [|? ? Hy1 Hy2]. inversion Hne2 as [|? ? Hn1 Hn2]. split.
        - apply present_app. left. apply present_cons. left. rewrite <- Hy1. now apply has_doc.
        - inversion Hdocs2 as [|? ? Hz1 Hz2]. lia. }
      destruct Hpres as (Hpres & Hlop).
      destruct (Hin2 _ Hpres) as (xp & HxpL & Hxple).
      (* exhaustive side: skip to the pivot, offer it *)
      rewrite (exh_skip lo p st Hlop).
      2:{ intros d x Hi Hdlo Hlt. eapply (below_pivot_dead p p lo (Hd2 ++ C)); eauto. }
      rewrite (drop_lt_at 0 L p xp L_asc HxpL).
      change (exh ((p, xp) :: drop_lt (p + 1) L) st) with (exh (drop_lt (p + 1) L) (offer' st p xp)).
      assert (Est : (if Z.ltb (thr st) (zsum (map score Hd2)) then step st p (zsum (map score Hd2)) else st) = offer' st p xp).
      { unfold offer. rewrite Esc. destruct (Hal2 p xp HxpL Hlop) as [(_ & Hc)|Hle]; [now rewrite Hc|].
        destruct (Z.ltb_spec (thr st) (cur (Hd2 ++ C) p)), (Z.ltb_spec (thr st) xp); try lia; reflexivity. }
      rewrite Est. set (st' := offer' st p xp).
      pose proof (thr_offer St thr step thr_mono st p xp) as Hthr. fold st' in Hthr.
      set (live := fun y : scorer => negb (N.eqb (doc y) TERM)).
      assert (HU3 : InvU p (p + 1) (map advance Hd2 ++ C) (thr st')).
      { eapply (InvU_mvs_lo p lo (p + 1) (Hd2 ++ C) _ (thr st') (p + 1)).
        - eapply InvU_weaken; [exact HU2|exact Hthr].
        - apply mvs_app; [|apply mvs_refl]. apply mvs_map. rewrite Forall_forall. intros y Hy. exists (doc y + 1)%N.
          rewrite Forall_forall in Hon, Hne2, HokH. split; [rewrite (Hon _ Hy); lia|].
          apply mv_advance; [exact (sokT_asc _ _ (HokH _ Hy))|exact (Hne2 _ Hy)].
        - apply Forall_app. split; [|exact HokC]. apply Forall_forall. intros y Hy. apply in_map_iff in Hy.
          destruct Hy as (y0 & <- & Hy0). rewrite Forall_forall in Hne2, HokH. apply sokT_advance; auto.
        - lia.
        - apply Forall_app. split; [|eapply Forall_impl; [|exact HC]; cbn beta; intros; lia].
          apply Forall_forall. intros y Hy. apply in_map_iff in Hy. destruct Hy as (y0 & <- & Hy0).
          rewrite Forall_forall in Hon, Hne2, HokH.
          pose proof (mv_doc_ge (doc y0 + 1) y0 (advance y0) (sokT_asc _ _ (HokH _ Hy0)) (mv_advance y0 (sokT_asc _ _ (HokH _ Hy0)) (Hne2 _ Hy0))) as Hge.
          rewrite (Hon _ Hy0) in Hge. apply Hge. lia.
        - intros; lia. }
      apply (IH _ st' p (p + 1)%N).
      + split; [apply sort_sorted|]. eapply InvU_perm; [apply Permutation_sym, sort_perm|].
        apply (InvU_filter p (p + 1) live (thr st')) with (a := []); [|exact HU3].
        intros y Hy Hl. subst live. cbn beta in Hl. apply negb_false_iff in Hl. apply N.eqb_eq in Hl.
        exact (doc_TERM_nil unit u_thr u_step u_mono y Hy Hl).
      + rewrite (total_len_perm _ _ (sort_perm _)).
        pose proof (total_len_filter live (map advance Hd2 ++ C)). pose proof (total_len_advance Hd2 Hd2ne Hne2).
        rewrite !total_len_app in *. lia.
  Qed.
End Soundness.

(* ==================================================================================== theorems *)
(* Input contract.  [upper_bounds] (Rank/Wand.v): every block max bounds the scores of its block.
   In addition max_score bounds every block max, and scores / block maxes are non-negative (BM25). *)
Definition union_bounds (s : scorer) : Prop :=
  upper_bounds s /\ (forall b, In b (sc_blocks s) -> 0 <= b_max b <= sc_max s) /\
  (forall d x, In (d, x) (sc_post s) -> 0 <= x).
(* explicit fuel bound: linear in the total number of postings and blocks *)
Definition union_fuel (scs : list scorer) : nat :=
  (2 * total_len scs + nsum (map (fun s => length (sc_blocks s)) scs) + 2)%nat.

Lemma bmax_at_le bl d m : (forall b, In b bl -> b_max b <= m) -> bmax_at bl d m <= m.
Proof.
  induction bl as [|b r IH]; intros H; cbn [bmax_at]; [lia|].
  destruct (N.leb d (b_last b)); [apply H; now left|apply IH; intros b' Hb'; apply H; now right].
Qed.
Lemma sokT_init s : scorer_ok s -> union_bounds s -> sokT 0 s.
Proof.
  intros (A & B & _) (U & HB & HP). split; [exact A|]. split; [exact B|]. split; [intros d x Hin _; now apply U|].
  split; [|split].
  - intros d x Hin. split; [exact (HP d x Hin)|]. specialize (U d x Hin).
    pose proof (bmax_at_le (sc_blocks s) d (sc_max s) (fun b Hb => proj2 (HB b Hb))). lia.
  - intros b Hb. apply (HB b Hb).
  - destruct (sc_blocks s) as [|b r]; [contradiction|]. pose proof (HB b (or_introl eq_refl)). lia.
Qed.
Lemma nsum_in {A} (f : A -> nat) l x : In x l -> (f x <= nsum (map f l))%nat.
Proof. induction l as [|y r IH]; [intros []|]. cbn [map nsum]. intros [->|H]; [lia|specialize (IH H); lia]. Qed.
Lemma present_filter f scs d : (forall s, In s scs -> f s = false -> sc_post s = []) ->
  (present (filter f scs) d <-> present scs d).
Proof.
  induction scs as [|s r IH]; intros H; [reflexivity|]. cbn [filter].
  specialize (IH (fun s' Hs' => H s' (or_intror Hs'))). destruct (f s) eqn:E.
  - rewrite !present_cons, IH. reflexivity.
  - rewrite present_cons, IH. rewrite (H s (or_introl eq_refl) E). unfold has. cbn [map In]. tauto.
Qed.
Lemma cur_filter f scs d : (forall s, In s scs -> f s = false -> sc_post s = []) -> cur (filter f scs) d = cur scs d.
Proof.
  induction scs as [|s r IH]; intros H; [reflexivity|]. cbn [filter].
  specialize (IH (fun s' Hs' => H s' (or_intror Hs'))). destruct (f s) eqn:E.
  - rewrite !cur_cons, IH. reflexivity.
  - rewrite cur_cons, IH. rewrite (H s (or_introl eq_refl) E). cbn [sc_at]. lia.
Qed.

Section Theorems.
  Variable St : Type.
  Variable thr : St -> Z.
  Variable step : St -> N -> Z -> St.
  (* the collector never lowers the threshold it returns *)
  Hypothesis thr_mono : forall st d x, thr st <= thr (step st d x).

  (* (1) soundness and (2) termination together: with fuel >= union_fuel the pruned run ends in exactly
     the collector state reached by exhaustive scoring of the union, i.e. every document whose full
     score exceeds the threshold current when it is passed is delivered, with its exact total score,
     in the same order, and nothing else is. *)
  Theorem wand_union_sound : forall scs st fuel,
    Forall scorer_ok scs -> Forall union_bounds scs -> (union_fuel scs <= fuel)%nat ->
    block_wand St thr step fuel scs st = Some (exhaustive St thr step (union_postings scs) st).
  Proof.
    intros scs st fuel Hsok Hub Hf.
    assert (Hasc : Forall posts_asc scs) by (eapply Forall_impl; [|exact Hsok]; intros s Hs; apply Hs).
    destruct (union_postings_spec scs Hasc) as (L_asc & HL). set (L := union_postings scs) in *.
    unfold block_wand. set (livef := fun s : scorer => N.ltb (doc s) TERM). set (live := filter livef scs).
    assert (Hempty : forall s, In s scs -> livef s = false -> sc_post s = []).
    { intros s Hs Hl. subst livef. cbn beta in Hl. apply N.ltb_ge in Hl. rewrite Forall_forall in Hasc.
      pose proof (doc_le_TERM s (Hasc s Hs)). apply (doc_TERM_nil unit u_thr u_step u_mono); [apply (Hasc s Hs)|lia]. }
    assert (Hlive_in : forall s, In s live -> In s scs) by (intros s Hs; apply filter_In in Hs; apply Hs).
    assert (Hperm : Permutation (sort_by_doc live) live) by apply sort_perm.
    assert (Hpres : forall d, present (sort_by_doc live) d <-> present scs d).
    { intros d. rewrite <- (present_filter livef scs d Hempty). fold live. split; apply present_perm; [exact Hperm|now apply Permutation_sym]. }
    assert (Hcur : forall d, cur (sort_by_doc live) d = cur scs d).
    { intros d. rewrite (cur_perm _ _ d Hperm). apply cur_filter. exact Hempty. }
    assert (Hlen : (total_len (sort_by_doc live) <= total_len scs)%nat).
    { rewrite (total_len_perm _ _ Hperm). apply total_len_filter. }
    assert (Hloop : union_loop St thr step fuel (sort_by_doc live) st = Some (exhaustive St thr step L st)).
    { rewrite <- (drop_lt_0 L) at 1. apply (loop_sound St thr step thr_mono L L_asc fuel _ st 0%N 0%N).
      - split; [apply sort_sorted|]. split; [|split; [|split; [|split]]].
        + eapply Permutation_Forall; [apply Permutation_sym; exact Hperm|]. apply Forall_forall. intros s Hs.
          rewrite Forall_forall in Hsok, Hub. apply sokT_init; [apply Hsok|apply Hub]; now apply Hlive_in.
        + left. apply Forall_forall. intros; lia.
        + intros d x Hin _. left. destruct (HL d) as (Hh & Hs). split.
          * apply Hpres, Hh. apply has_in. now exists x.
          * rewrite Hcur, <- Hs. exact (sc_at_in 0 L d x L_asc Hin).
        + intros d Hp. apply Hpres in Hp. destruct (HL d) as (Hh & Hs). apply Hh in Hp.
          exists (sc_at L d). split; [now apply (sc_at_has_in 0)|]. rewrite Hcur, Hs. lia.
        + apply Forall_forall. intros; lia.
      - unfold union_fuel in Hf. lia. }
    destruct live as [|s [|s2 r]] eqn:El; [exact Hloop| |exact Hloop].
    (* exactly one live scorer: the single-scorer algorithm *)
    assert (Hs : In s scs) by (apply Hlive_in; now left).
    rewrite Forall_forall in Hsok, Hub.
    rewrite (wand_single_sound St thr step thr_mono s st fuel (Hsok s Hs) (proj1 (Hub s Hs))).
    - f_equal. f_equal. subst L. rewrite <- (union_postings_live scs Hasc). fold livef. fold live. rewrite El.
      cbn [union_postings fold_right]. symmetry. apply merge_post_nil_r.
    - unfold single_fuel. unfold union_fuel in Hf.
      pose proof (nsum_in (fun s => length (sc_post s)) scs s Hs). pose proof (nsum_in (fun s => length (sc_blocks s)) scs s Hs).
      unfold total_len in Hf. cbn beta in *. lia.
  Qed.

  Theorem wand_union_terminates : forall scs st,
    Forall scorer_ok scs -> Forall union_bounds scs ->
    block_wand St thr step (union_fuel scs) scs st <> None.
  Proof. intros scs st H1 H2. rewrite (wand_union_sound scs st _ H1 H2 (le_n _)). discriminate. Qed.
End Theorems.

(* ---- non-vacuity: a concrete two-term union satisfies the contract, and the theorem applies to it *)
Definition wu_ex : list scorer :=
  [ {| sc_post := [(1%N, 2%Z); (4%N, 5%Z); (9%N, 3%Z); (12%N, 1%Z); (20%N, 7%Z)];
       sc_blocks := [ {| b_last := 4%N; b_max := 5%Z |}; {| b_last := 12%N; b_max := 3%Z |}; {| b_last := TERM; b_max := 7%Z |} ]; sc_max := 7%Z |};
    {| sc_post := [(2%N, 1%Z); (4%N, 4%Z); (10%N, 2%Z); (20%N, 1%Z); (31%N, 6%Z)];
       sc_blocks := [ {| b_last := 10%N; b_max := 4%Z |}; {| b_last := TERM; b_max := 6%Z |} ]; sc_max := 6%Z |} ].
Ltac wu_cases H := cbn [In sc_post sc_blocks] in H; repeat (destruct H as [H|H]; [inversion H; subst; try clear H|]); try contradiction.
Ltac wu_ok := unfold scorer_ok; cbn [asc_from blocks_ok sc_post sc_blocks]; repeat split; vm_compute; congruence.
Ltac wu_ub := intros d x H; wu_cases H; vm_compute; congruence.
Ltac wu_bl := intros b H; wu_cases H; split; vm_compute; congruence.
Example wu_ex_contract : Forall scorer_ok wu_ex /\ Forall union_bounds wu_ex.
Proof.
  split.
  - constructor; [wu_ok|constructor; [wu_ok|constructor]].
  - constructor; [split; [wu_ub|split; [wu_bl|wu_ub]]|]. constructor; [split; [wu_ub|split; [wu_bl|wu_ub]]|]. constructor.
Qed.
(* a top-1 collector whose callback is monotone for every call *)
Definition top1m_step (low : Z) (s : top1_state) (d : N) (x : Z) : top1_state :=
  if Z.ltb (top1_thr low s) x then Some (d, x) else s.
Lemma top1m_mono low : forall st d x, top1_thr low st <= top1_thr low (top1m_step low st d x).
Proof. intros st d x. unfold top1m_step. destruct (Z.ltb_spec (top1_thr low st) x); cbn [top1_thr]; lia. Qed.
Example wu_ex_run :
  block_wand top1_state (top1_thr (-1)) (top1m_step (-1)) (union_fuel wu_ex) wu_ex None = Some (Some (4%N, 9%Z)).
Proof.
  rewrite (wand_union_sound top1_state (top1_thr (-1)) (top1m_step (-1)) (top1m_mono (-1)) wu_ex None _ (proj1 wu_ex_contract) (proj2 wu_ex_contract) (le_n _)).
  reflexivity.
Qed.
(* ---- the extra clause "max_score bounds every block max" is needed (it is what F6 violates):
   scorer A advertises max_score 2 but holds a posting of score 10 (its block max, 10, IS an upper
   bound).  After (1,2) and (3,3) are collected the threshold is 3 >= max_score A, find_pivot_doc
   returns None and document 5 (score 10) is never scored. *)
Definition wu_bad : list scorer :=
  [ {| sc_post := [(1%N, 2%Z); (5%N, 10%Z)]; sc_blocks := [ {| b_last := TERM; b_max := 10%Z |} ]; sc_max := 2%Z |};
    {| sc_post := [(3%N, 3%Z)]; sc_blocks := [ {| b_last := TERM; b_max := 3%Z |} ]; sc_max := 3%Z |} ].
Example wand_union_needs_max_score_bound_refuted :
  block_wand top1_state (top1_thr (-1)) (top1m_step (-1)) (union_fuel wu_bad) wu_bad None = Some (Some (3%N, 3%Z)) /\
  exhaustive top1_state (top1_thr (-1)) (top1m_step (-1)) (union_postings wu_bad) None = Some (5%N, 10%Z) /\
  Forall scorer_ok wu_bad /\ Forall upper_bounds wu_bad.
Proof.
  split; [vm_compute; reflexivity|]. split; [vm_compute; reflexivity|]. split.
  - constructor; [wu_ok|constructor; [wu_ok|constructor]].
  - constructor; [wu_ub|constructor; [wu_ub|constructor]].
Qed.

Print Assumptions wand_union_sound.
Print Assumptions wand_union_terminates.
