(* General theorems about the optional index model of OptionalIndex.v: for every strictly increasing
   list of row ids below num_rows, rank / rank_if_exists / select of the built index agree with the
   specification on the row list (spec_rank, spec_rank_if_exists, spec_select), for any number of
   65 536-row blocks and whichever of the dense / sparse encodings each block gets.
   Order: list lemmas, sparse block, u64 bit tricks, dense block, composition over the blocks.
   Style: stdlib. *)
From TV Require Import Base.Prelude Generated.Constants Columnar.BitPack Columnar.OptionalIndex.
From Coq Require Import Sorted.
Local Open Scope N_scope.

Ltac dlia := zify; Z.div_mod_to_equations; lia.

(* ------------------------------------------------------------------------------------------ *)
(* lists *)
Definition increasing (l : list N) : Prop := StronglySorted N.lt l.

Lemma increasing_of_Sorted l : Sorted N.lt l -> increasing l.
Proof. apply Sorted_StronglySorted. intros a b c; apply N.lt_trans. Qed.

Lemma increasing_inv a l : increasing (a :: l) -> increasing l /\ Forall (fun y => a < y) l.
Proof. intros H; inversion H; subst; auto. Qed.

Lemma filter_none {A} (f : A -> bool) l : Forall (fun x => f x = false) l -> filter f l = [].
Proof. induction 1 as [|x l Hx _ IH]; cbn [filter]; [reflexivity|]. now rewrite Hx. Qed.
Lemma filter_all {A} (f : A -> bool) l : Forall (fun x => f x = true) l -> filter f l = l.
Proof. induction 1 as [|x l Hx _ IH]; cbn [filter]; [reflexivity|]. now rewrite Hx, IH. Qed.

Lemma filter_length_ext {A} (f g : A -> bool) l : (forall x, In x l -> f x = g x) -> filter f l = filter g l.
Proof.
  induction l as [|x l IH]; intros H; cbn [filter]; [reflexivity|].
  rewrite (H x (or_introl eq_refl)), IH; [reflexivity|]. intros y Hy; apply H; now right.
Qed.

Lemma filter_filter {A} (f g : A -> bool) l : filter f (filter g l) = filter (fun x => g x && f x) l.
Proof.
  induction l as [|x l IH]; cbn [filter]; [reflexivity|].
  destruct (g x); cbn [filter andb]; [destruct (f x)|]; now rewrite IH.
Qed.

Lemma filter_map_comm {A B} (f : B -> bool) (g : A -> B) l : filter f (map g l) = map g (filter (fun x => f (g x)) l).
Proof. induction l as [|x l IH]; cbn [filter map]; [reflexivity|]. destruct (f (g x)); cbn [map]; now rewrite IH. Qed.

Lemma filter_disj_length {A} (p q : A -> bool) l : (forall x, In x l -> p x && q x = false) ->
  length (filter (fun x => p x || q x) l) = (length (filter p l) + length (filter q l))%nat.
Proof.
  induction l as [|x l IH]; intros H; cbn [filter]; [reflexivity|].
  pose proof (H x (or_introl eq_refl)) as Hx.
  rewrite Nat.add_comm.
  destruct (p x), (q x); cbn [orb length] in *; try discriminate; rewrite IH by (intros y Hy; apply H; now right); lia.
Qed.

Lemma spec_rank_cons a l x : spec_rank (a :: l) x = (if a <? x then 1 else 0) + spec_rank l x.
Proof. unfold spec_rank. cbn [filter]. destruct (a <? x); cbn [length]; lia. Qed.

Lemma spec_rank_le l x : spec_rank l x <= N.of_nat (length l).
Proof. induction l as [|a l IH]; [unfold spec_rank; cbn; lia|]. rewrite spec_rank_cons. cbn [length]. destruct (a <? x); lia. Qed.

Lemma spec_rank_mono l x y : x <= y -> spec_rank l x <= spec_rank l y.
Proof.
  intros Hxy. induction l as [|a l IH]; [unfold spec_rank; cbn; lia|].
  rewrite !spec_rank_cons. destruct (N.ltb_spec a x), (N.ltb_spec a y); lia.
Qed.

Lemma spec_rank_all_ge l x : Forall (fun y => x <= y) l -> spec_rank l x = 0.
Proof.
  intros H. unfold spec_rank. rewrite filter_none; [reflexivity|].
  eapply Forall_impl; [|exact H]. cbv beta. intros y Hy. lia.
Qed.

Lemma spec_rank_all_lt l x : Forall (fun y => y < x) l -> spec_rank l x = N.of_nat (length l).
Proof.
  intros H. unfold spec_rank. rewrite filter_all; [reflexivity|].
  eapply Forall_impl; [|exact H]. cbv beta. intros y Hy. lia.
Qed.

Lemma increasing_nth_lt l : increasing l -> forall i j, (i < j)%nat -> (j < length l)%nat -> nth i l 0 < nth j l 0.
Proof.
  induction 1 as [|a l Hs IH Ha]; intros i j Hij Hj; cbn [length] in Hj; [lia|].
  destruct j as [|j]; [lia|]. cbn [nth]. destruct i as [|i].
  - rewrite Forall_forall in Ha. apply Ha, nth_In. lia.
  - apply IH; lia.
Qed.

(* the rank of the k-th element of an increasing list is k *)
Lemma spec_rank_nth l : increasing l -> forall k, (k < length l)%nat -> spec_rank l (nth k l 0) = N.of_nat k.
Proof.
  induction 1 as [|a l Hs IH Ha]; intros k Hk; cbn [length] in Hk; [lia|].
  rewrite spec_rank_cons. destruct k as [|k]; cbn [nth].
  - rewrite spec_rank_all_ge; [destruct (N.ltb_spec a a); lia|].
    eapply Forall_impl; [|exact Ha]. cbv beta. intros; lia.
  - rewrite IH by lia. rewrite Forall_forall in Ha.
    assert (a < nth k l 0) as Hlt by (apply Ha, nth_In; lia).
    destruct (N.ltb_spec a (nth k l 0)); lia.
Qed.

(* a split position determines the rank (no order needed) *)
Lemma spec_rank_split : forall l t left, (left <= length l)%nat ->
  (forall i, (i < left)%nat -> nth i l 0 < t) ->
  (forall i, (left <= i < length l)%nat -> t <= nth i l 0) -> spec_rank l t = N.of_nat left.
Proof.
  induction l as [|a l IH]; intros t left Hl Hlo Hhi; cbn [length] in *.
  - assert (left = 0%nat) by lia; subst. reflexivity.
  - rewrite spec_rank_cons. destruct left as [|left].
    + pose proof (Hhi 0%nat ltac:(lia)) as H0. cbn [nth] in H0.
      rewrite (IH t 0%nat); [destruct (N.ltb_spec a t); lia|lia|intros; lia|].
      intros i Hi. apply (Hhi (S i)). lia.
    + pose proof (Hlo 0%nat ltac:(lia)) as H0. cbn [nth] in H0.
      rewrite (IH t left); [destruct (N.ltb_spec a t); lia|lia| |].
      * intros i Hi. apply (Hlo (S i)). lia.
      * intros i Hi. apply (Hhi (S i)). lia.
Qed.

Lemma spec_contains_In l x : spec_contains l x = true <-> In x l.
Proof.
  unfold spec_contains. rewrite existsb_exists. split.
  - intros [y [Hy He]]. apply N.eqb_eq in He. now subst.
  - intros H. exists x. split; [exact H|apply N.eqb_refl].
Qed.

Lemma spec_contains_false l x : spec_contains l x = false <-> ~ In x l.
Proof. rewrite <- spec_contains_In. destruct (spec_contains l x); split; congruence. Qed.

Lemma In_increasing_nth l e : In e l -> exists k, (k < length l)%nat /\ nth k l 0 = e.
Proof. apply In_nth. Qed.

(* ------------------------------------------------------------------------------------------ *)
(* sparse block: the binary search over an increasing list *)
Lemma sparse_search_spec data target : increasing data ->
  forall fuel size left right,
  size = right - left -> left <= right -> right <= N.of_nat (length data) ->
  (N.to_nat size < fuel)%nat ->
  (forall i, (i < N.to_nat left)%nat -> nth i data 0 < target) ->
  (forall i, (N.to_nat right <= i < length data)%nat -> target < nth i data 0) ->
  sparse_search fuel data target size left right = (spec_contains data target, spec_rank data target).
Proof.
  intros Hinc. induction fuel as [|fuel IH]; intros size left right Hsize Hlr Hr Hfuel Hlo Hhi; [lia|].
  cbn [sparse_search].
  destruct (N.ltb_spec left right) as [Hlt|Hge].
  - set (mid := left + size / 2).
    assert (left <= mid < right) as Hmid by (unfold mid; dlia).
    destruct (N.ltb_spec (nth (N.to_nat mid) data 0) target) as [Hm|Hm].
    + apply IH; [lia|lia|lia|lia| |exact Hhi].
      intros i Hi. destruct (Nat.eq_dec i (N.to_nat mid)) as [->|Hne]; [exact Hm|].
      eapply N.lt_trans; [|exact Hm]. apply increasing_nth_lt; [exact Hinc|lia|lia].
    + destruct (N.ltb_spec target (nth (N.to_nat mid) data 0)) as [Hm2|Hm2].
      * apply IH; [lia|lia|lia|lia|exact Hlo|]. intros i Hi.
        destruct (Nat.eq_dec i (N.to_nat mid)) as [->|Hne]; [exact Hm2|].
        eapply N.lt_trans; [exact Hm2|]. apply increasing_nth_lt; [exact Hinc|lia|lia].
      * assert (nth (N.to_nat mid) data 0 = target) as He by lia.
        f_equal.
        -- symmetry. apply spec_contains_In. rewrite <- He. apply nth_In. lia.
        -- rewrite <- He, spec_rank_nth by (auto; lia). lia.
  - assert (left = right) by lia; subst right.
    f_equal.
    + symmetry. apply spec_contains_false. intros Hin.
      apply In_nth with (d := 0) in Hin. destruct Hin as [k [Hk He]].
      destruct (Nat.lt_ge_cases k (N.to_nat left)) as [Hc|Hc].
      * specialize (Hlo k Hc). lia.
      * specialize (Hhi k ltac:(lia)). lia.
    + rewrite (spec_rank_split data target (N.to_nat left)); [lia|lia|exact Hlo|].
      intros i Hi. specialize (Hhi i Hi). lia.
Qed.

Lemma sparse_binary_search_spec data target : increasing data ->
  sparse_binary_search data target = (spec_contains data target, spec_rank data target).
Proof.
  intros Hinc. unfold sparse_binary_search. apply sparse_search_spec; try lia; try exact Hinc; intros i Hi; lia.
Qed.

Theorem sparse_rank_spec data el : increasing data -> sparse_rank data el = spec_rank data el.
Proof. intros H. unfold sparse_rank. now rewrite sparse_binary_search_spec. Qed.
Theorem sparse_contains_spec data el : increasing data -> sparse_contains data el = spec_contains data el.
Proof. intros H. unfold sparse_contains. now rewrite sparse_binary_search_spec. Qed.
Theorem sparse_rank_if_exists_spec data el : increasing data ->
  sparse_rank_if_exists data el = spec_rank_if_exists data el.
Proof. intros H. unfold sparse_rank_if_exists, spec_rank_if_exists. now rewrite sparse_binary_search_spec. Qed.
Theorem sparse_select_spec data e : increasing data -> In e data ->
  sparse_select data (spec_rank data e) = e.
Proof.
  intros H Hin. apply In_nth with (d := 0) in Hin. destruct Hin as [k [Hk He]].
  unfold sparse_select. rewrite <- He at 1. rewrite spec_rank_nth, Nat2N.id by assumption. exact He.
Qed.

(* ------------------------------------------------------------------------------------------ *)
(* u64 bit tricks: popcount, (b & (b - 1)), trailing_zeros *)
Lemma pow2_pos n : 0 < 2 ^ n.
Proof. apply N.neq_0_lt_0, N.pow_nonzero. discriminate. Qed.
Lemma pow2_nz n : 2 ^ n <> 0.
Proof. apply N.pow_nonzero. discriminate. Qed.

Lemma mod_pow2_bits a n m : N.testbit (a mod 2 ^ n) m = (m <? n) && N.testbit a m.
Proof.
  destruct (N.ltb_spec m n) as [H|H]; cbn [andb].
  - now apply N.mod_pow2_bits_low.
  - now apply N.mod_pow2_bits_high.
Qed.

Lemma lt_pow2_bits x n : x < 2 ^ n <-> (forall i, n <= i -> N.testbit x i = false).
Proof.
  split.
  - intros H i Hi. rewrite <- (N.mod_small x (2 ^ n) H). now apply N.mod_pow2_bits_high.
  - intros H. assert (x = x mod 2 ^ n) as ->; [|apply N.mod_lt, pow2_nz].
    apply N.bits_inj. intros m. rewrite mod_pow2_bits.
    destruct (N.ltb_spec m n) as [Hm|Hm]; cbn [andb]; [reflexivity|]. now apply H.
Qed.

Lemma parity_split x : x = 2 * (x / 2) + x mod 2 /\ x mod 2 < 2.
Proof. split; [apply N.div_mod'|apply N.mod_lt; discriminate]. Qed.

Lemma popcount_even x : popcount (2 * x) = popcount x.
Proof. destruct x; reflexivity. Qed.
Lemma popcount_odd x : popcount (2 * x + 1) = 1 + popcount x.
Proof. destruct x; reflexivity. Qed.
Lemma popcount_parity x r : r < 2 -> popcount (2 * x + r) = r + popcount x.
Proof.
  intros Hr. assert (r = 0 \/ r = 1) as [-> | ->] by lia.
  - rewrite N.add_0_r. apply popcount_even.
  - apply popcount_odd.
Qed.

Lemma popcount_zero x : popcount x = 0 -> x = 0.
Proof.
  destruct x as [|p]; [reflexivity|]. cbn [popcount]. intros H. exfalso.
  induction p as [p IH|p IH|]; cbn [pos_popcount] in H; lia.
Qed.

(* popcount of a concatenation of bit strings *)
Lemma popcount_split n : forall a b, a < 2 ^ n -> popcount (a + 2 ^ n * b) = popcount a + popcount b.
Proof.
  induction n as [|n IH] using N.peano_ind; intros a b Ha.
  - change (2 ^ 0) with 1 in *. assert (a = 0) as -> by lia. rewrite N.mul_1_l. reflexivity.
  - rewrite N.pow_succ_r' in *.
    destruct (parity_split a) as [Ea Hr]. set (q := a / 2) in *. set (r := a mod 2) in *.
    assert (q < 2 ^ n) as Hq by lia.
    replace (a + 2 * 2 ^ n * b) with (2 * (q + 2 ^ n * b) + r) by lia.
    rewrite popcount_parity, IH by assumption.
    rewrite Ea, popcount_parity by assumption. lia.
Qed.

Lemma popcount_mod_div x n : popcount x = popcount (x mod 2 ^ n) + popcount (x / 2 ^ n).
Proof.
  rewrite <- (popcount_split n) by (apply N.mod_lt, pow2_nz).
  f_equal. rewrite N.add_comm. apply N.div_mod'.
Qed.

Lemma popcount_le n : forall x, x < 2 ^ n -> popcount x <= n.
Proof.
  induction n as [|n IH] using N.peano_ind; intros x Hx.
  - change (2 ^ 0) with 1 in *. assert (x = 0) as -> by lia. cbn. lia.
  - rewrite N.pow_succ_r' in *. destruct (parity_split x) as [Ex Hr].
    rewrite Ex, popcount_parity by assumption.
    assert (x / 2 < 2 ^ n) as Hq by lia. specialize (IH _ Hq). lia.
Qed.

Lemma mod_pow2_add x a b : x mod 2 ^ (a + b) = x mod 2 ^ a + 2 ^ a * ((x / 2 ^ a) mod 2 ^ b).
Proof. rewrite N.pow_add_r. apply N.mod_mul_r; apply pow2_nz. Qed.

Lemma popcount_mod_add x a b :
  popcount (x mod 2 ^ (a + b)) = popcount (x mod 2 ^ a) + popcount ((x / 2 ^ a) mod 2 ^ b).
Proof. rewrite mod_pow2_add. apply popcount_split. apply N.mod_lt, pow2_nz. Qed.

Lemma popcount_mod_mono x a b : a <= b -> popcount (x mod 2 ^ a) <= popcount (x mod 2 ^ b).
Proof. intros H. replace b with (a + (b - a)) by lia. rewrite popcount_mod_add. lia. Qed.

Lemma popcount_mod_succ x e : N.testbit x e = true -> popcount (x mod 2 ^ (e + 1)) = popcount (x mod 2 ^ e) + 1.
Proof.
  intros H. rewrite popcount_mod_add. change (2 ^ 1) with 2.
  rewrite <- N.testbit_spec', H. reflexivity.
Qed.

(* rank_u64 / get_bit_at *)
Lemma rank_u64_spec bv j : rank_u64 bv j = popcount (bv mod 2 ^ j).
Proof.
  unfold rank_u64. rewrite N.shiftl_1_l. rewrite <- N.land_ones, N.ones_equiv, <- N.sub_1_r. reflexivity.
Qed.

Lemma get_bit_at_spec bv j : get_bit_at bv j = N.testbit bv j.
Proof.
  unfold get_bit_at. rewrite N.shiftl_1_l.
  assert (N.land bv (2 ^ j) = if N.testbit bv j then 2 ^ j else 0) as ->.
  { apply N.bits_inj. intros m. rewrite N.land_spec, N.pow2_bits_eqb.
    destruct (N.eqb_spec j m) as [->|Hne].
    - destruct (N.testbit bv m); [now rewrite N.pow2_bits_eqb, N.eqb_refl|now rewrite N.bits_0].
    - rewrite andb_false_r. destruct (N.testbit bv j); [|now rewrite N.bits_0].
      rewrite N.pow2_bits_eqb. symmetry. now apply N.eqb_neq. }
  destruct (N.testbit bv j); [|reflexivity].
  pose proof (pow2_nz j). destruct (N.eqb_spec (2 ^ j) 0); [contradiction|reflexivity].
Qed.

(* b & (b - 1) *)
Definition clear_lowest (b : N) : N := N.land b (wrap64 (b + (2 ^ 64 - 1))).

Lemma land_even_odd a b : N.land (2 * a) (2 * b + 1) = 2 * N.land a b.
Proof.
  apply N.bits_inj. intros m. rewrite N.land_spec.
  destruct (N.zero_or_succ m) as [->|[m' ->]].
  - now rewrite !N.testbit_even_0.
  - rewrite !N.testbit_even_succ, N.testbit_odd_succ, N.land_spec by apply N.le_0_l. reflexivity.
Qed.
Lemma land_odd_even a b : N.land (2 * a + 1) (2 * b) = 2 * N.land a b.
Proof. rewrite N.land_comm, land_even_odd, N.land_comm. reflexivity. Qed.

Lemma clear_lowest_even q : 2 * q < 2 ^ 64 -> clear_lowest (2 * q) = 2 * clear_lowest q.
Proof.
  intros Hq. unfold clear_lowest. destruct (N.eq_dec q 0) as [->|Hnz]; [reflexivity|].
  replace (wrap64 (2 * q + (2 ^ 64 - 1))) with (2 * (q - 1) + 1).
  2:{ unfold wrap64. replace (2 * q + (2 ^ 64 - 1)) with ((2 * q - 1) + 1 * 2 ^ 64) by lia.
      rewrite N.mod_add by apply pow2_nz. rewrite N.mod_small; lia. }
  replace (wrap64 (q + (2 ^ 64 - 1))) with (q - 1).
  2:{ unfold wrap64. replace (q + (2 ^ 64 - 1)) with ((q - 1) + 1 * 2 ^ 64) by lia.
      rewrite N.mod_add by apply pow2_nz. rewrite N.mod_small; lia. }
  apply land_even_odd.
Qed.
Lemma clear_lowest_odd q : 2 * q + 1 < 2 ^ 64 -> clear_lowest (2 * q + 1) = 2 * q.
Proof.
  intros Hq. unfold clear_lowest.
  replace (wrap64 (2 * q + 1 + (2 ^ 64 - 1))) with (2 * q).
  2:{ unfold wrap64. replace (2 * q + 1 + (2 ^ 64 - 1)) with (2 * q + 1 * 2 ^ 64) by lia.
      rewrite N.mod_add by apply pow2_nz. rewrite N.mod_small; lia. }
  rewrite land_odd_even, N.land_diag. reflexivity.
Qed.
Lemma clear_lowest_lt b n : b < 2 ^ n -> clear_lowest b < 2 ^ n.
Proof.
  rewrite !lt_pow2_bits. intros H i Hi. unfold clear_lowest. now rewrite N.land_spec, H.
Qed.
Lemma iter_clear_lt m : forall b n, b < 2 ^ n -> iter m clear_lowest b < 2 ^ n.
Proof. induction m as [|m IH]; intros b n Hb; [exact Hb|]. rewrite iter_succ. apply clear_lowest_lt, IH, Hb. Qed.
Lemma iter_clear_even m : forall q, 2 * q < 2 ^ 64 -> iter m clear_lowest (2 * q) = 2 * iter m clear_lowest q.
Proof.
  induction m as [|m IH]; intros q Hq; [reflexivity|].
  rewrite !iter_succ, IH by exact Hq. apply clear_lowest_even.
  assert (q < 2 ^ 63) as Hq' by (change (2 ^ 64) with (2 * 2 ^ 63) in Hq; lia).
  pose proof (iter_clear_lt m q 63 Hq'). change (2 ^ 64) with (2 * 2 ^ 63). lia.
Qed.

Lemma tz_even x : x <> 0 -> trailing_zeros (2 * x) = 1 + trailing_zeros x.
Proof. destruct x; [congruence|reflexivity]. Qed.
Lemma tz_odd x : trailing_zeros (2 * x + 1) = 0.
Proof. destruct x; reflexivity. Qed.

Lemma mod_pow2_succ_parity x n : x mod 2 ^ N.succ n = 2 * ((x / 2) mod 2 ^ n) + x mod 2.
Proof.
  rewrite <- N.add_1_l, mod_pow2_add. change (2 ^ 1) with 2. lia.
Qed.

(* select_u64 finds the position of the m-th set bit *)
Lemma select_u64_spec_nat : forall (j : nat) b (m : nat), b < 2 ^ 64 -> N.of_nat j < 64 ->
  N.testbit b (N.of_nat j) = true -> popcount (b mod 2 ^ N.of_nat j) = N.of_nat m ->
  trailing_zeros (iter m clear_lowest b) = N.of_nat j.
Proof.
  induction j as [|j IH]; intros b m Hb Hj Hbit Hpop.
  - change (2 ^ N.of_nat 0) with 1 in Hpop. rewrite N.mod_1_r in Hpop. cbn [popcount] in Hpop.
    assert (m = 0%nat) as -> by lia. cbn [iter].
    destruct (parity_split b) as [Eb Hr]. change (N.of_nat 0) with 0 in Hbit.
    assert (b mod 2 = 1) as Hodd.
    { rewrite Eb in Hbit. assert (b mod 2 = 0 \/ b mod 2 = 1) as [E|E] by lia; [|exact E].
      rewrite E, N.add_0_r, N.testbit_even_0 in Hbit. discriminate. }
    rewrite Eb, Hodd. apply tz_odd.
  - rewrite Nat2N.inj_succ in *.
    destruct (parity_split b) as [Eb Hr]. set (q := b / 2) in *. set (r := b mod 2) in *.
    assert (N.testbit q (N.of_nat j) = true) as Hqbit.
    { rewrite Eb in Hbit. assert (r = 0 \/ r = 1) as [E|E] by lia; rewrite E in Hbit.
      - now rewrite N.add_0_r, N.testbit_even_succ in Hbit by apply N.le_0_l.
      - now rewrite N.testbit_odd_succ in Hbit by apply N.le_0_l. }
    rewrite mod_pow2_succ_parity in Hpop. fold q r in Hpop. rewrite popcount_parity in Hpop by exact Hr.
    assert (q < 2 ^ 64) as Hq by (change (2 ^ 64) with (2 * 2 ^ 63) in *; lia).
    assert (2 * q < 2 ^ 64) as Hq2 by lia.
    assert (forall m', popcount (q mod 2 ^ N.of_nat j) = N.of_nat m' ->
                       trailing_zeros (2 * iter m' clear_lowest q) = N.succ (N.of_nat j)) as Hstep.
    { intros m' Hm'. specialize (IH q m' Hq ltac:(lia) Hqbit Hm').
      rewrite tz_even; [lia|]. intros E. rewrite E in IH. cbn [trailing_zeros] in IH. lia. }
    assert (r = 0 \/ r = 1) as [E|E] by lia.
    + rewrite Eb, E, N.add_0_r, iter_clear_even by exact Hq2. apply Hstep. lia.
    + destruct m as [|m]; [lia|].
      rewrite iter_succ_r, Eb, E, clear_lowest_odd by lia.
      rewrite iter_clear_even by exact Hq2. apply Hstep. lia.
Qed.

Theorem select_u64_spec bv j : bv < 2 ^ 64 -> j < 64 -> N.testbit bv j = true ->
  select_u64 bv (popcount (bv mod 2 ^ j)) = j.
Proof.
  intros Hb Hj Hbit. unfold select_u64. fold clear_lowest.
  change (fun b : N => N.land b (wrap64 (b + (2 ^ 64 - 1)))) with clear_lowest.
  rewrite <- (N2Nat.id j) at 2. apply select_u64_spec_nat; rewrite ?N2Nat.id; try assumption. reflexivity.
Qed.

(* ------------------------------------------------------------------------------------------ *)
(* a set of positions as one big bit string; popcount counts the list *)
Definition bits_of (l : list N) : N := fold_left N.setbit l 0.

Lemma spec_contains_cons a l x : spec_contains (a :: l) x = (x =? a) || spec_contains l x.
Proof. reflexivity. Qed.

Lemma fold_setbit_testbit l : forall acc e,
  N.testbit (fold_left N.setbit l acc) e = N.testbit acc e || spec_contains l e.
Proof.
  induction l as [|a l IH]; intros acc e; cbn [fold_left].
  - unfold spec_contains. cbn [existsb]. now rewrite orb_false_r.
  - rewrite IH, N.setbit_eqb, spec_contains_cons, (N.eqb_sym a e).
    destruct (e =? a), (N.testbit acc e); reflexivity.
Qed.

Lemma bits_of_testbit l e : N.testbit (bits_of l) e = spec_contains l e.
Proof. unfold bits_of. rewrite fold_setbit_testbit, N.bits_0. reflexivity. Qed.

Lemma bits_of_app l e : bits_of (l ++ [e]) = N.setbit (bits_of l) e.
Proof. unfold bits_of. rewrite fold_left_app. reflexivity. Qed.

Definition cnt_bits (x : N) (n : nat) : nat := length (filter (fun i => N.testbit x (N.of_nat i)) (seq 0 n)).

Lemma popcount_cnt_bits n : forall x, x < 2 ^ N.of_nat n -> popcount x = N.of_nat (cnt_bits x n).
Proof.
  induction n as [|n IH]; intros x Hx.
  - change (2 ^ N.of_nat 0) with 1 in Hx. assert (x = 0) as -> by lia. reflexivity.
  - rewrite Nat2N.inj_succ, N.pow_succ_r' in Hx.
    destruct (parity_split x) as [Ex Hr]. set (q := x / 2) in *. set (r := x mod 2) in *.
    assert (q < 2 ^ N.of_nat n) as Hq by lia.
    unfold cnt_bits. cbn [seq filter]. rewrite <- seq_shift, filter_map_comm.
    assert (filter (fun i => N.testbit x (N.of_nat (S i))) (seq 0 n)
            = filter (fun i => N.testbit q (N.of_nat i)) (seq 0 n)) as ->.
    { apply filter_length_ext. intros i _. rewrite Nat2N.inj_succ, Ex.
      assert (r = 0 \/ r = 1) as [E|E] by lia; rewrite E.
      - rewrite N.add_0_r. apply N.testbit_even_succ, N.le_0_l.
      - apply N.testbit_odd_succ, N.le_0_l. }
    change (N.of_nat 0) with 0.
    rewrite Ex at 1. rewrite popcount_parity, (IH q Hq) by exact Hr. unfold cnt_bits.
    assert (r = 0 \/ r = 1) as [E|E] by lia; rewrite Ex, E.
    + rewrite N.add_0_r, N.testbit_even_0, map_length. lia.
    + rewrite N.testbit_odd_0. cbn [length]. rewrite map_length. lia.
Qed.

Lemma count_eq_pos a n :
  length (filter (fun i => N.of_nat i =? a) (seq 0 n)) = if a <? N.of_nat n then 1%nat else 0%nat.
Proof.
  induction n as [|n IH].
  - cbn. destruct (N.ltb_spec a 0); [lia|reflexivity].
  - rewrite seq_S, filter_app, app_length, IH. cbn [Nat.add filter].
    destruct (N.eqb_spec (N.of_nat n) a), (N.ltb_spec a (N.of_nat n)), (N.ltb_spec a (N.of_nat (S n))); cbn [length]; lia.
Qed.

Lemma count_positions l : NoDup l -> forall n, Forall (fun e => e < N.of_nat n) l ->
  length (filter (fun i => spec_contains l (N.of_nat i)) (seq 0 n)) = length l.
Proof.
  induction 1 as [|a l Hnin Hnd IH]; intros n Hb.
  - unfold spec_contains. cbn [existsb length]. induction (seq 0 n) as [|x s IHs]; [reflexivity|exact IHs].
  - inversion Hb as [|? ? Ha Hb']; subst.
    rewrite (filter_length_ext _ (fun i => (N.of_nat i =? a) || spec_contains l (N.of_nat i))) by reflexivity.
    rewrite filter_disj_length.
    + rewrite count_eq_pos, IH by exact Hb'. destruct (N.ltb_spec a (N.of_nat n)); cbn [length]; lia.
    + intros i _. destruct (N.eqb_spec (N.of_nat i) a) as [->|]; [|reflexivity].
      cbn [andb]. now apply spec_contains_false.
Qed.

Lemma increasing_NoDup l : increasing l -> NoDup l.
Proof.
  induction 1 as [|a l Hs IH Ha]; constructor; [|exact IH].
  intros Hin. rewrite Forall_forall in Ha. specialize (Ha a Hin). lia.
Qed.

Lemma spec_contains_filter f l x : spec_contains (filter f l) x = f x && spec_contains l x.
Proof.
  induction l as [|a l IH]; [now rewrite andb_false_r|]. cbn [filter].
  destruct (f a) eqn:Hf; rewrite ?spec_contains_cons, IH.
  - destruct (N.eqb_spec x a) as [->|]; [now rewrite Hf|reflexivity].
  - destruct (N.eqb_spec x a) as [->|]; [now rewrite Hf|reflexivity].
Qed.

Theorem popcount_bits_of l r : NoDup l -> popcount (bits_of l mod 2 ^ r) = spec_rank l r.
Proof.
  intros Hnd. rewrite (popcount_cnt_bits (N.to_nat r)) by (rewrite N2Nat.id; apply N.mod_lt, pow2_nz).
  unfold spec_rank. f_equal. unfold cnt_bits.
  rewrite (filter_length_ext _ (fun i => spec_contains (filter (fun e => e <? r) l) (N.of_nat i))).
  - apply count_positions; [now apply NoDup_filter|].
    apply Forall_forall. intros e He. apply filter_In in He. lia.
  - intros i Hi. apply in_seq in Hi.
    rewrite mod_pow2_bits, bits_of_testbit, spec_contains_filter. reflexivity.
Qed.

(* ------------------------------------------------------------------------------------------ *)
(* dense block: what serialize_dense_codec writes *)
Definition mini (W : N) (k : nat) : mini_block :=
  ((W / 2 ^ (64 * N.of_nat k)) mod 2 ^ 64, wrap16 (popcount (W mod 2 ^ (64 * N.of_nat k)))).

Definition dense_inv (W : N) (st : dense_state) : Prop :=
  let '(cur, block, before, out) := st in
  W < 2 ^ (64 * (cur + 1)) /\ block = W / 2 ^ (64 * cur) /\
  before = wrap16 (popcount (W mod 2 ^ (64 * cur))) /\
  rev out = map (mini W) (seq 0 (N.to_nat cur)).

Lemma setbit_lt W e n : W < 2 ^ n -> e < n -> N.setbit W e < 2 ^ n.
Proof.
  rewrite !lt_pow2_bits. intros H He i Hi. rewrite N.setbit_eqb, H by exact Hi.
  destruct (N.eqb_spec e i); [lia|reflexivity].
Qed.
Lemma setbit_div W e c : c <= e -> N.setbit W e / 2 ^ c = N.setbit (W / 2 ^ c) (e - c).
Proof.
  intros H. apply N.bits_inj. intros m. rewrite N.div_pow2_bits, !N.setbit_eqb, N.div_pow2_bits.
  destruct (N.eqb_spec e (m + c)), (N.eqb_spec (e - c) m); try lia; reflexivity.
Qed.
Lemma setbit_mod_high W e r : r <= e -> N.setbit W e mod 2 ^ r = W mod 2 ^ r.
Proof.
  intros H. apply N.bits_inj. intros m. rewrite !mod_pow2_bits, N.setbit_eqb.
  destruct (N.ltb_spec m r); cbn [andb]; [|reflexivity].
  destruct (N.eqb_spec e m); [lia|reflexivity].
Qed.
Lemma mini_setbit W e k : 64 * (N.of_nat k + 1) <= e -> mini (N.setbit W e) k = mini W k.
Proof.
  intros H. unfold mini. rewrite setbit_div, !setbit_mod_high by lia. reflexivity.
Qed.

Lemma wrap16_add_l a b : wrap16 (wrap16 a + b) = wrap16 (a + b).
Proof. unfold wrap16. apply N.add_mod_idemp_l. apply pow2_nz. Qed.

Lemma dense_flush_inv W cur block before out : dense_inv W (cur, block, before, out) ->
  exists block' before' out', dense_flush (cur, block, before, out) = (cur + 1, block', before', out')
    /\ dense_inv W (cur + 1, block', before', out').
Proof.
  intros [HS [Hb [Hbe Ho]]]. unfold dense_flush. do 3 eexists. split; [reflexivity|].
  assert (2 ^ (64 * (cur + 1)) = 2 ^ (64 * cur) * 2 ^ 64) as Hpow by (rewrite <- N.pow_add_r; f_equal; lia).
  unfold dense_inv. repeat split.
  - eapply N.lt_le_trans; [exact HS|]. apply N.pow_le_mono_r; [discriminate|lia].
  - symmetry. now apply N.div_small.
  - rewrite Hbe, Hb, wrap16_add_l, <- popcount_mod_div, (N.mod_small W) by exact HS. reflexivity.
  - cbn [rev]. rewrite Ho. replace (N.to_nat (cur + 1)) with (S (N.to_nat cur)) by lia.
    rewrite seq_S, map_app. cbn [map Nat.add]. f_equal. f_equal.
    unfold mini. rewrite N2Nat.id, <- Hb, <- Hbe. f_equal.
    symmetry. apply N.mod_small. rewrite Hb. apply N.div_lt_upper_bound; [apply pow2_nz|]. now rewrite <- Hpow.
Qed.

Lemma dense_flush_iter_inv W n : forall cur block before out, dense_inv W (cur, block, before, out) ->
  exists block' before' out', iter n dense_flush (cur, block, before, out) = (cur + N.of_nat n, block', before', out')
    /\ dense_inv W (cur + N.of_nat n, block', before', out').
Proof.
  induction n as [|n IH]; intros cur block before out Hinv.
  - exists block, before, out. cbn [iter]. rewrite N.add_0_r. auto.
  - destruct (IH _ _ _ _ Hinv) as [b1 [be1 [o1 [E1 I1]]]].
    destruct (dense_flush_inv _ _ _ _ _ I1) as [b2 [be2 [o2 [E2 I2]]]].
    exists b2, be2, o2. rewrite iter_succ, E1, E2.
    replace (cur + N.of_nat (S n)) with (cur + N.of_nat n + 1) by lia. auto.
Qed.

Definition in_block (cur : N) (e : N) : Prop := cur <= e / 64 /\ e < 65536.

Lemma dense_loop_inv : forall els W cur block before out, dense_inv W (cur, block, before, out) ->
  increasing els -> Forall (in_block cur) els ->
  exists cur' block' before' out', dense_loop els (cur, block, before, out) = (cur', block', before', out')
    /\ dense_inv (fold_left N.setbit els W) (cur', block', before', out') /\ (cur <= 1023 -> cur' <= 1023).
Proof.
  induction els as [|el els IH]; intros W cur block before out Hinv Hinc Hall.
  - exists cur, block, before, out. cbn [dense_loop fold_left]. auto.
  - apply increasing_inv in Hinc. destruct Hinc as [Hinc Hgt].
    inversion Hall as [|? ? [Hcur Hel] Hall']; subst.
    cbn [dense_loop fold_left fst]. change OPT_ELEMENTS_PER_MINI_BLOCK with 64.
    destruct (dense_flush_iter_inv W (N.to_nat (el / 64 - cur)) _ _ _ _ Hinv) as [b1 [be1 [o1 [E1 I1]]]].
    rewrite E1. replace (cur + N.of_nat (N.to_nat (el / 64 - cur))) with (el / 64) in * by lia.
    clear E1. set (k := el / 64) in *. set (j := el mod 64).
    assert (el = 64 * k + j /\ j < 64) as [Eel Hj] by (unfold k, j; dlia).
    destruct I1 as [HS [Hb [Hbe Ho]]].
    destruct (IH (N.setbit W el) k (N.lor b1 (N.shiftl 1 j)) be1 o1) as [c2 [b2 [be2 [o2 [E2 [I2 Hc2]]]]]].
    + unfold dense_inv. repeat split.
      * apply setbit_lt; [exact HS|lia].
      * rewrite setbit_div by lia. fold (N.setbit b1 j). rewrite Hb. f_equal. lia.
      * rewrite setbit_mod_high by lia. exact Hbe.
      * rewrite Ho. apply map_ext_in. intros i Hi. apply in_seq in Hi. symmetry. apply mini_setbit. lia.
    + exact Hinc.
    + apply Forall_forall. intros e He. rewrite Forall_forall in Hgt, Hall'.
      specialize (Hgt e He). destruct (Hall' e He) as [_ Hlt]. split; [|exact Hlt].
      unfold k. apply N.div_le_mono; [discriminate|lia].
    + exists c2, b2, be2, o2. split; [exact E2|]. split; [exact I2|]. intros _. apply Hc2. unfold k. dlia.
Qed.

Definition dense_repr (W : N) : list mini_block := map (mini W) (seq 0 1024).

Theorem dense_serialize_spec els : increasing els -> Forall (fun e => e < 65536) els ->
  dense_serialize els = dense_repr (bits_of els) /\ bits_of els < 2 ^ 65536.
Proof.
  intros Hinc Hall. unfold dense_serialize.
  destruct (dense_loop_inv els 0 0 0 0 [] ) as [c1 [b1 [be1 [o1 [E1 [I1 Hc1]]]]]].
  - unfold dense_inv. repeat split.
  - exact Hinc.
  - eapply Forall_impl; [|exact Hall]. intros e He. split; [lia|exact He].
  - rewrite E1. cbn [fst]. change NUM_MINI_BLOCKS with 1024.
    specialize (Hc1 ltac:(lia)).
    destruct (dense_flush_iter_inv _ (N.to_nat (1024 - c1)) _ _ _ _ I1) as [b2 [be2 [o2 [E2 I2]]]].
    rewrite E2. replace (c1 + N.of_nat (N.to_nat (1024 - c1))) with 1024 in * by lia.
    destruct I2 as [_ [_ [_ Ho]]]. destruct I1 as [HS _]. split; [exact Ho|].
    eapply N.lt_le_trans; [exact HS|]. apply N.pow_le_mono_r; [discriminate|lia].
Qed.

(* ------------------------------------------------------------------------------------------ *)
(* dense block: the readers on the written mini blocks *)
Lemma dense_mini_repr W k : k < 1024 ->
  dense_mini (dense_repr W) k = ((W / 2 ^ (64 * k)) mod 2 ^ 64, popcount (W mod 2 ^ (64 * k))).
Proof.
  intros Hk. unfold dense_mini, dense_repr.
  rewrite (nth_indep _ _ (mini W 0)) by (rewrite map_length, seq_length; lia).
  rewrite map_nth, seq_nth by lia. cbn [Nat.add]. unfold mini. rewrite N2Nat.id. f_equal.
  unfold wrap16. apply N.mod_small.
  pose proof (popcount_le (64 * k) (W mod 2 ^ (64 * k)) ltac:(apply N.mod_lt, pow2_nz)). lia.
Qed.

Lemma mod_mod_pow2 x a b : b <= a -> (x mod 2 ^ a) mod 2 ^ b = x mod 2 ^ b.
Proof.
  intros H. apply N.bits_inj. intros m. rewrite !mod_pow2_bits.
  destruct (N.ltb_spec m b), (N.ltb_spec m a); try lia; reflexivity.
Qed.

Lemma addr_split el : el < 65536 -> el = 64 * (el / 64) + el mod 64 /\ el / 64 < 1024 /\ el mod 64 < 64.
Proof. intros H. dlia. Qed.

Theorem dense_rank_repr W el : el < 65536 -> dense_rank (dense_repr W) el = popcount (W mod 2 ^ el).
Proof.
  intros Hel. unfold dense_rank. change OPT_ELEMENTS_PER_MINI_BLOCK with 64.
  destruct (addr_split el Hel) as [E [Hk Hj]]. set (k := el / 64) in *. set (j := el mod 64) in *.
  rewrite dense_mini_repr by exact Hk. cbn [fst snd].
  rewrite rank_u64_spec, mod_mod_pow2 by lia. rewrite E, popcount_mod_add. reflexivity.
Qed.

Theorem dense_contains_repr W el : el < 65536 -> dense_contains (dense_repr W) el = N.testbit W el.
Proof.
  intros Hel. unfold dense_contains. change OPT_ELEMENTS_PER_MINI_BLOCK with 64.
  destruct (addr_split el Hel) as [E [Hk Hj]]. set (k := el / 64) in *. set (j := el mod 64) in *.
  rewrite dense_mini_repr by exact Hk. cbn [fst].
  rewrite get_bit_at_spec, mod_pow2_bits, N.div_pow2_bits.
  destruct (N.ltb_spec j 64); [|lia]. cbn [andb]. f_equal. lia.
Qed.

Lemma find_miniblock_app r : forall l1 l2 idx best,
  Forall (fun mb : mini_block => snd mb <= r) l1 ->
  match l2 with [] => True | mb :: _ => r < snd mb end ->
  find_miniblock (l1 ++ l2) r idx best =
    match l1 with [] => best | _ => Some (idx + N.of_nat (length l1) - 1) end.
Proof.
  induction l1 as [|x l1 IH]; intros l2 idx best H1 H2.
  - cbn [app]. destruct l2 as [|mb l2]; cbn [find_miniblock]; [reflexivity|].
    destruct (N.leb_spec (snd mb) r); [lia|reflexivity].
  - inversion H1 as [|? ? Hx H1']; subst. cbn [app find_miniblock].
    destruct (N.leb_spec (snd x) r); [|lia].
    rewrite IH by assumption. destruct l1; cbn [length]; f_equal; lia.
Qed.

Theorem dense_select_repr W e : e < 65536 -> N.testbit W e = true ->
  dense_select (dense_repr W) (popcount (W mod 2 ^ e)) = Some e.
Proof.
  intros He Hbit. unfold dense_select. change OPT_ELEMENTS_PER_MINI_BLOCK with 64.
  destruct (addr_split e He) as [E [Hk Hj]]. set (k := e / 64) in *. set (j := e mod 64) in *.
  set (r := popcount (W mod 2 ^ e)).
  assert (forall i, (i < 1024)%nat -> snd (mini W i) = popcount (W mod 2 ^ (64 * N.of_nat i))) as Hsnd.
  { intros i Hi. pose proof (dense_mini_repr W (N.of_nat i) ltac:(lia)) as Hm.
    unfold dense_mini, dense_repr in Hm.
    rewrite (nth_indep _ _ (mini W 0)) in Hm by (rewrite map_length, seq_length; lia).
    rewrite map_nth, seq_nth in Hm by lia. cbn [Nat.add] in Hm. rewrite Nat2N.id in Hm. now rewrite Hm. }
  assert (find_miniblock (dense_repr W) r 0 None = Some k) as ->.
  { unfold dense_repr.
    replace 1024%nat with (S (N.to_nat k) + (1023 - N.to_nat k))%nat by lia.
    rewrite seq_app, map_app, find_miniblock_app.
    - rewrite map_length, seq_length. cbn [seq map]. f_equal. lia.
    - apply Forall_forall. intros mb Hmb. apply in_map_iff in Hmb. destruct Hmb as [i [<- Hi]].
      apply in_seq in Hi. rewrite Hsnd by lia. unfold r. apply popcount_mod_mono. lia.
    - destruct (1023 - N.to_nat k)%nat as [|n] eqn:En; cbn [seq map]; [exact I|].
      rewrite Hsnd by lia. unfold r.
      eapply N.lt_le_trans; [|apply (popcount_mod_mono W (e + 1)); lia].
      rewrite popcount_mod_succ by exact Hbit. lia. }
  rewrite dense_mini_repr by exact Hk. cbn [fst snd]. f_equal.
  set (bv := (W / 2 ^ (64 * k)) mod 2 ^ 64).
  assert (r - popcount (W mod 2 ^ (64 * k)) = popcount (bv mod 2 ^ j)) as ->.
  { unfold r, bv. rewrite mod_mod_pow2 by lia. rewrite E at 1. rewrite popcount_mod_add. lia. }
  rewrite select_u64_spec; [lia|apply N.mod_lt, pow2_nz|exact Hj|].
  unfold bv. rewrite mod_pow2_bits, N.div_pow2_bits.
  destruct (N.ltb_spec j 64); [|lia]. cbn [andb]. rewrite <- Hbit. f_equal. lia.
Qed.

(* ------------------------------------------------------------------------------------------ *)
(* one block, either encoding, against the list of its in-block row ids *)
Definition block_els_ok (els : list N) : Prop := increasing els /\ Forall (fun e => e < 65536) els.

Theorem dense_block_rank els el : block_els_ok els -> el < 65536 ->
  block_rank (Dense (dense_serialize els)) el = spec_rank els el.
Proof.
  intros [Hinc Hall] Hel. destruct (dense_serialize_spec els Hinc Hall) as [-> _]. cbn [block_rank].
  rewrite dense_rank_repr by exact Hel. apply popcount_bits_of, increasing_NoDup, Hinc.
Qed.
Theorem dense_block_contains els el : block_els_ok els -> el < 65536 ->
  block_contains (Dense (dense_serialize els)) el = spec_contains els el.
Proof.
  intros [Hinc Hall] Hel. destruct (dense_serialize_spec els Hinc Hall) as [-> _]. cbn [block_contains].
  rewrite dense_contains_repr by exact Hel. apply bits_of_testbit.
Qed.
Theorem dense_block_rank_if_exists els el : block_els_ok els -> el < 65536 ->
  block_rank_if_exists (Dense (dense_serialize els)) el = spec_rank_if_exists els el.
Proof.
  intros Hok Hel. pose proof (dense_block_rank els el Hok Hel) as Hr.
  pose proof (dense_block_contains els el Hok Hel) as Hc. cbn [block_rank block_contains block_rank_if_exists] in *.
  unfold dense_rank_if_exists, spec_rank_if_exists. now rewrite Hc, Hr.
Qed.
Theorem dense_block_select els e : block_els_ok els -> In e els ->
  block_select (Dense (dense_serialize els)) (spec_rank els e) = Some e.
Proof.
  intros [Hinc Hall] Hin. destruct (dense_serialize_spec els Hinc Hall) as [-> _]. cbn [block_select].
  rewrite <- (popcount_bits_of els e) by apply increasing_NoDup, Hinc.
  apply dense_select_repr.
  - rewrite Forall_forall in Hall. now apply Hall.
  - rewrite bits_of_testbit. now apply spec_contains_In.
Qed.

Theorem sparse_block_rank els el : block_els_ok els -> block_rank (Sparse els) el = spec_rank els el.
Proof. intros [Hinc _]. now apply sparse_rank_spec. Qed.
Theorem sparse_block_contains els el : block_els_ok els -> block_contains (Sparse els) el = spec_contains els el.
Proof. intros [Hinc _]. now apply sparse_contains_spec. Qed.
Theorem sparse_block_rank_if_exists els el : block_els_ok els ->
  block_rank_if_exists (Sparse els) el = spec_rank_if_exists els el.
Proof. intros [Hinc _]. now apply sparse_rank_if_exists_spec. Qed.
Theorem sparse_block_select els e : block_els_ok els -> In e els ->
  block_select (Sparse els) (spec_rank els e) = Some e.
Proof.
  intros [Hinc _] Hin. cbn [block_select].
  destruct (In_nth _ _ 0 Hin) as [k [Hk Ek]].
  assert (spec_rank els e < N.of_nat (length els)) as Hlt by (rewrite <- Ek, spec_rank_nth by assumption; lia).
  destruct (N.ltb_spec (spec_rank els e) (N.of_nat (length els))); [|lia].
  f_equal. now apply sparse_select_spec.
Qed.

(* the variant chosen by serialize_optional_index_block; the threshold plays no role below *)
Definition mk_variant (els : list N) : block_variant :=
  if is_sparse (N.of_nat (length els)) then Sparse els else Dense (dense_serialize els).

Theorem block_rank_ok els el : block_els_ok els -> el < 65536 -> block_rank (mk_variant els) el = spec_rank els el.
Proof. intros H Hel. unfold mk_variant. destruct (is_sparse _); [now apply sparse_block_rank|now apply dense_block_rank]. Qed.
Theorem block_rank_if_exists_ok els el : block_els_ok els -> el < 65536 ->
  block_rank_if_exists (mk_variant els) el = spec_rank_if_exists els el.
Proof.
  intros H Hel. unfold mk_variant.
  destruct (is_sparse _); [now apply sparse_block_rank_if_exists|now apply dense_block_rank_if_exists].
Qed.
Theorem block_select_ok els e : block_els_ok els -> In e els -> block_select (mk_variant els) (spec_rank els e) = Some e.
Proof. intros H Hin. unfold mk_variant. destruct (is_sparse _); [now apply sparse_block_select|now apply dense_block_select]. Qed.

(* ------------------------------------------------------------------------------------------ *)
(* composition over the blocks *)
Notation BLK := OPT_ELEMENTS_PER_BLOCK.
Lemma BLK_eq : BLK = 65536. Proof. reflexivity. Qed.

Definition block_els (rows : list N) (b : N) : list N :=
  map (fun r => r mod BLK) (filter (fun r => r / BLK =? b) rows).
Definition rows_before_block (rows : list N) (b : N) : N :=
  N.of_nat (length (filter (fun r => r / BLK <? b) rows)).
Definition meta_of (rows : list N) (i : nat) : block_meta :=
  {| non_null_rows_before_block := rows_before_block rows (N.of_nat i);
     variant := mk_variant (block_els rows (N.of_nat i)) |}.

Lemma build_blocks_map : forall nb bid rows before, Forall (fun r => bid <= r / BLK) rows ->
  build_blocks nb bid rows before =
  map (fun i => {| non_null_rows_before_block := before + rows_before_block rows (bid + N.of_nat i);
                   variant := mk_variant (block_els rows (bid + N.of_nat i)) |}) (seq 0 nb).
Proof.
  induction nb as [|nb IH]; intros bid rows before Hall; [reflexivity|].
  cbn [build_blocks seq map]. change (N.of_nat 0) with 0. rewrite N.add_0_r. f_equal.
  - unfold rows_before_block. rewrite (filter_none (fun r => r / BLK <? bid)).
    + cbn [length]. change (N.of_nat 0) with 0. rewrite N.add_0_r. reflexivity.
    + eapply Forall_impl; [|exact Hall]. cbv beta. intros r Hr. lia.
  - rewrite IH.
    2:{ apply Forall_forall. intros r Hr. apply filter_In in Hr. destruct Hr as [Hr Hne].
        rewrite Forall_forall in Hall. specialize (Hall r Hr). lia. }
    rewrite <- seq_shift, map_map. apply map_ext. intros i.
    rewrite Forall_forall in Hall.
    f_equal.
    + unfold rows_before_block. rewrite map_length, filter_filter.
      rewrite (filter_length_ext (fun r => r / BLK <? bid + N.of_nat (S i))
                 (fun r => (r / BLK =? bid) || (negb (r / BLK =? bid) && (r / BLK <? bid + 1 + N.of_nat i)))).
      * rewrite filter_disj_length; [lia|]. intros r _. destruct (r / BLK =? bid); reflexivity.
      * intros r Hr. specialize (Hall r Hr).
        destruct (N.eqb_spec (r / BLK) bid), (N.ltb_spec (r / BLK) (bid + N.of_nat (S i))),
          (N.ltb_spec (r / BLK) (bid + 1 + N.of_nat i)); cbn [negb andb orb]; try reflexivity; lia.
    + f_equal. unfold block_els. f_equal. rewrite filter_filter. apply filter_length_ext. intros r Hr.
      specialize (Hall r Hr).
      destruct (N.eqb_spec (r / BLK) bid), (N.eqb_spec (r / BLK) (bid + N.of_nat (S i))),
        (N.eqb_spec (r / BLK) (bid + 1 + N.of_nat i)); cbn [negb andb]; try reflexivity; lia.
Qed.

Definition num_blocks (num_rows : N) : nat := N.to_nat ((num_rows + BLK - 1) / BLK).

Lemma build_metas num_rows rows :
  oi_metas (optional_index_build num_rows rows) = map (meta_of rows) (seq 0 (num_blocks num_rows)).
Proof.
  unfold optional_index_build. cbn [oi_metas]. rewrite build_blocks_map.
  - apply map_ext. intros i. unfold meta_of. now rewrite !N.add_0_l.
  - apply Forall_forall. intros r _. apply N.le_0_l.
Qed.

Lemma nth_error_map_seq {A} (f : nat -> A) n i : (i < n)%nat -> nth_error (map f (seq 0 n)) i = Some (f i).
Proof.
  intros H. apply map_nth_error. rewrite (nth_error_nth' _ 0%nat) by (rewrite seq_length; exact H).
  now rewrite seq_nth.
Qed.

Lemma increasing_filter f l : increasing l -> increasing (filter f l).
Proof.
  induction 1 as [|a l Hs IH Ha]; cbn [filter]; [constructor|].
  destruct (f a); [|exact IH]. constructor; [exact IH|].
  apply Forall_forall. intros y Hy. apply filter_In in Hy. rewrite Forall_forall in Ha. apply Ha, Hy.
Qed.

Lemma block_els_ok_of rows b : increasing rows -> block_els_ok (block_els rows b).
Proof.
  intros Hinc. unfold block_els. pose proof (increasing_filter (fun r => r / BLK =? b) rows Hinc) as Hf.
  assert (Forall (fun r => r / BLK = b) (filter (fun r => r / BLK =? b) rows)) as Hq.
  { apply Forall_forall. intros r Hr. apply filter_In in Hr. lia. }
  revert Hf Hq. generalize (filter (fun r => r / BLK =? b) rows) as l. intros l Hf Hq. split.
  - induction Hf as [|a l Hs IH Ha]; cbn [map]; [constructor|].
    inversion Hq as [|? ? Hqa Hql]; subst. constructor; [now apply IH|].
    apply Forall_forall. intros y Hy. apply in_map_iff in Hy. destruct Hy as [r [<- Hr]].
    rewrite Forall_forall in Ha, Hql. specialize (Ha r Hr). specialize (Hql r Hr).
    rewrite BLK_eq in *. dlia.
  - apply Forall_forall. intros y Hy. apply in_map_iff in Hy. destruct Hy as [r [<- Hr]].
    rewrite BLK_eq. apply N.mod_lt. discriminate.
Qed.

(* rank and membership split into (block, in-block) parts; no order needed *)
Lemma spec_rank_blocks rows doc :
  spec_rank rows doc = rows_before_block rows (doc / BLK) + spec_rank (block_els rows (doc / BLK)) (doc mod BLK).
Proof.
  unfold spec_rank, rows_before_block, block_els.
  rewrite filter_map_comm, map_length, filter_filter.
  rewrite (filter_length_ext (fun r => r <? doc)
             (fun r => (r / BLK <? doc / BLK) || ((r / BLK =? doc / BLK) && (r mod BLK <? doc mod BLK)))).
  - rewrite filter_disj_length; [lia|]. intros r _.
    destruct (N.ltb_spec (r / BLK) (doc / BLK)), (N.eqb_spec (r / BLK) (doc / BLK)); cbn [andb]; try reflexivity; lia.
  - intros r _. rewrite BLK_eq.
    destruct (N.ltb_spec r doc), (N.ltb_spec (r / 65536) (doc / 65536)), (N.eqb_spec (r / 65536) (doc / 65536)),
      (N.ltb_spec (r mod 65536) (doc mod 65536)); cbn [andb orb]; try reflexivity; exfalso; dlia.
Qed.

Lemma In_blocks rows doc : In doc rows <-> In (doc mod BLK) (block_els rows (doc / BLK)).
Proof.
  unfold block_els. rewrite in_map_iff. split.
  - intros H. exists doc. split; [reflexivity|]. apply filter_In. split; [exact H|apply N.eqb_refl].
  - intros [r [Hm Hr]]. apply filter_In in Hr. destruct Hr as [Hr Hq]. apply N.eqb_eq in Hq.
    assert (r = doc) as <-; [|exact Hr]. rewrite BLK_eq in *. dlia.
Qed.

Lemma spec_contains_blocks rows doc :
  spec_contains rows doc = spec_contains (block_els rows (doc / BLK)) (doc mod BLK).
Proof.
  apply Bool.eq_iff_eq_true. rewrite !spec_contains_In. apply In_blocks.
Qed.

Lemma spec_rank_if_exists_blocks rows doc :
  spec_rank_if_exists rows doc =
  match spec_rank_if_exists (block_els rows (doc / BLK)) (doc mod BLK) with
  | Some r => Some (rows_before_block rows (doc / BLK) + r)
  | None => None
  end.
Proof.
  unfold spec_rank_if_exists. rewrite <- spec_contains_blocks.
  destruct (spec_contains rows doc); [|reflexivity]. now rewrite spec_rank_blocks.
Qed.

Lemma filter_length_mono {A} (f g : A -> bool) l : (forall x, In x l -> f x = true -> g x = true) ->
  (length (filter f l) <= length (filter g l))%nat.
Proof.
  induction l as [|x l IH]; intros H; cbn [filter]; [lia|].
  pose proof (H x (or_introl eq_refl)) as Hx.
  specialize (IH (fun y Hy => H y (or_intror Hy))).
  destruct (f x), (g x); cbn [length]; try lia; specialize (Hx eq_refl); discriminate.
Qed.

Lemma rows_before_block_mono rows a b : a <= b -> rows_before_block rows a <= rows_before_block rows b.
Proof.
  intros H. unfold rows_before_block.
  assert (forall x, In x rows -> (x / BLK <? a) = true -> (x / BLK <? b) = true) as Hpre by (intros x _ Hx; lia).
  pose proof (filter_length_mono _ _ rows Hpre). cbv beta in *. lia.
Qed.

Lemma rows_before_block_le_rank rows e : rows_before_block rows (e / BLK) <= spec_rank rows e.
Proof. rewrite spec_rank_blocks. lia. Qed.

Lemma rows_before_next_block rows e : In e rows -> spec_rank rows e < rows_before_block rows (e / BLK + 1).
Proof.
  intros Hin. unfold spec_rank, rows_before_block.
  assert (1 <= N.of_nat (length (filter (fun r => r =? e) rows))) as H1.
  { assert (In e (filter (fun r => r =? e) rows)) as Hf by (apply filter_In; split; [exact Hin|apply N.eqb_refl]).
    destruct (filter (fun r => r =? e) rows); [destruct Hf|cbn [length]; lia]. }
  assert (forall x, In x rows -> (x <? e) && (x =? e) = false) as Hdis
    by (intros x _; destruct (N.ltb_spec x e), (N.eqb_spec x e); try reflexivity; lia).
  pose proof (filter_disj_length (fun r => r <? e) (fun r => r =? e) rows Hdis) as Hd.
  assert (forall x, In x rows -> (x <? e) || (x =? e) = true -> (x / BLK <? e / BLK + 1) = true) as Hpre.
  { intros x _ Hx. rewrite BLK_eq.
    assert (x <= e) as Hle by (destruct (N.ltb_spec x e), (N.eqb_spec x e); cbn [orb] in Hx; try discriminate; lia).
    apply N.ltb_lt. dlia. }
  pose proof (filter_length_mono _ _ rows Hpre). cbv beta in *. lia.
Qed.

Lemma find_block_app rank : forall l1 l2 pos,
  Forall (fun m => non_null_rows_before_block m <= rank) l1 ->
  match l2 with [] => True | m :: _ => rank < non_null_rows_before_block m end ->
  find_block (l1 ++ l2) rank pos = pos + N.of_nat (length l1) - 1.
Proof.
  induction l1 as [|x l1 IH]; intros l2 pos H1 H2.
  - cbn [app length]. destruct l2 as [|m l2]; cbn [find_block]; [lia|].
    destruct (N.ltb_spec rank (non_null_rows_before_block m)); lia.
  - inversion H1 as [|? ? Hx H1']; subst. cbn [app find_block length].
    destruct (N.ltb_spec rank (non_null_rows_before_block x)); [lia|].
    rewrite IH by assumption. lia.
Qed.

(* ------------------------------------------------------------------------------------------ *)
(* the theorems *)
Definition rows_ok (num_rows : N) (rows : list N) : Prop :=
  increasing rows /\ Forall (fun r => r < num_rows) rows.

Lemma block_in_range num_rows doc : doc < num_rows -> (N.to_nat (doc / BLK) < num_blocks num_rows)%nat.
Proof. intros H. unfold num_blocks. rewrite BLK_eq. dlia. Qed.
Lemma block_out_of_range num_rows doc : (num_blocks num_rows <= N.to_nat (doc / BLK))%nat -> num_rows <= doc.
Proof. unfold num_blocks. rewrite BLK_eq. intros H. dlia. Qed.

Theorem optional_index_rank num_rows rows doc : rows_ok num_rows rows ->
  oi_rank (optional_index_build num_rows rows) doc = Some (spec_rank rows doc).
Proof.
  intros [Hinc Hall]. unfold oi_rank. rewrite build_metas.
  change (oi_num_docs (optional_index_build num_rows rows)) with num_rows.
  change (oi_num_non_null (optional_index_build num_rows rows)) with (N.of_nat (length rows)).
  destruct (N.leb_spec num_rows doc) as [Hge|Hlt].
  - f_equal. symmetry. apply spec_rank_all_lt. eapply Forall_impl; [|exact Hall]. cbv beta. intros; lia.
  - rewrite nth_error_map_seq by now apply block_in_range.
    unfold meta_of. cbn [non_null_rows_before_block variant]. rewrite N2Nat.id. f_equal.
    rewrite block_rank_ok; [symmetry; apply spec_rank_blocks|now apply block_els_ok_of|].
    rewrite BLK_eq. apply N.mod_lt. discriminate.
Qed.

Theorem optional_index_rank_if_exists num_rows rows doc : rows_ok num_rows rows ->
  oi_rank_if_exists (optional_index_build num_rows rows) doc = spec_rank_if_exists rows doc.
Proof.
  intros [Hinc Hall]. unfold oi_rank_if_exists. rewrite build_metas.
  destruct (Nat.lt_ge_cases (N.to_nat (doc / BLK)) (num_blocks num_rows)) as [Hlt|Hge].
  - rewrite nth_error_map_seq by exact Hlt.
    unfold meta_of. cbn [non_null_rows_before_block variant]. rewrite N2Nat.id.
    rewrite block_rank_if_exists_ok; [symmetry; apply spec_rank_if_exists_blocks|now apply block_els_ok_of|].
    rewrite BLK_eq. apply N.mod_lt. discriminate.
  - assert (nth_error (map (meta_of rows) (seq 0 (num_blocks num_rows))) (N.to_nat (doc / BLK)) = None) as ->
      by (apply nth_error_None; rewrite map_length, seq_length; exact Hge).
    apply block_out_of_range in Hge. unfold spec_rank_if_exists.
    assert (spec_contains rows doc = false) as ->; [|reflexivity].
    apply spec_contains_false. intros Hin. rewrite Forall_forall in Hall. specialize (Hall doc Hin). lia.
Qed.

Theorem optional_index_select_rank num_rows rows e : rows_ok num_rows rows -> In e rows ->
  oi_select (optional_index_build num_rows rows) (spec_rank rows e) = Some e.
Proof.
  intros [Hinc Hall] Hin. unfold oi_select. rewrite build_metas.
  assert (e < num_rows) as He by (rewrite Forall_forall in Hall; now apply Hall).
  pose proof (block_in_range num_rows e He) as Hb. set (b := e / BLK) in *. set (nb := num_blocks num_rows) in *.
  assert (find_block (map (meta_of rows) (seq 0 nb)) (spec_rank rows e) 0 = b) as ->.
  { replace nb with (S (N.to_nat b) + (nb - S (N.to_nat b)))%nat by lia.
    rewrite seq_app, map_app, find_block_app.
    - rewrite map_length, seq_length. lia.
    - apply Forall_forall. intros m Hm. apply in_map_iff in Hm. destruct Hm as [i [<- Hi]]. apply in_seq in Hi.
      unfold meta_of. cbn [non_null_rows_before_block].
      eapply N.le_trans; [|apply rows_before_block_le_rank]. apply rows_before_block_mono. fold b. lia.
    - destruct (nb - S (N.to_nat b))%nat as [|n]; cbn [seq map]; [exact I|].
      unfold meta_of. cbn [non_null_rows_before_block].
      replace (N.of_nat (0 + S (N.to_nat b))) with (b + 1) by lia. now apply rows_before_next_block. }
  rewrite nth_error_map_seq by exact Hb. unfold meta_of. cbn [non_null_rows_before_block variant]. rewrite N2Nat.id.
  replace (spec_rank rows e - rows_before_block rows b) with (spec_rank (block_els rows b) (e mod BLK))
    by (rewrite (spec_rank_blocks rows e); fold b; lia).
  rewrite block_select_ok; [|now apply block_els_ok_of|exact (proj1 (In_blocks rows e) Hin)].
  f_equal. unfold b. rewrite BLK_eq. dlia.
Qed.

(* select in its usual form: the k-th row id *)
Theorem optional_index_select num_rows rows k : rows_ok num_rows rows -> (k < length rows)%nat ->
  oi_select (optional_index_build num_rows rows) (N.of_nat k) = Some (nth k rows 0).
Proof.
  intros Hok Hk. rewrite <- (spec_rank_nth rows (proj1 Hok) k Hk).
  apply optional_index_select_rank; [exact Hok|now apply nth_In].
Qed.

Theorem optional_index_select_spec num_rows rows k : rows_ok num_rows rows -> k < N.of_nat (length rows) ->
  oi_select (optional_index_build num_rows rows) k = spec_select rows k.
Proof.
  intros Hok Hk. unfold spec_select. rewrite (nth_error_nth' rows 0) by lia.
  rewrite <- (N2Nat.id k) at 1. apply optional_index_select; [exact Hok|lia].
Qed.

Theorem optional_index_rank_if_exists_iff num_rows rows r k : rows_ok num_rows rows ->
  oi_rank_if_exists (optional_index_build num_rows rows) r = Some k <->
  (k < N.of_nat (length rows) /\ nth (N.to_nat k) rows 0 = r).
Proof.
  intros Hok. rewrite optional_index_rank_if_exists by exact Hok. unfold spec_rank_if_exists.
  destruct (spec_contains rows r) eqn:Hc.
  - apply spec_contains_In in Hc. destruct (In_nth _ _ 0 Hc) as [i [Hi Ei]].
    pose proof (spec_rank_nth rows (proj1 Hok) i Hi) as Hr. rewrite Ei in Hr. rewrite Hr. split.
    + intros E. injection E as <-. rewrite Nat2N.id. split; [lia|exact Ei].
    + intros [Hk Ek]. f_equal.
      destruct (Nat.lt_trichotomy i (N.to_nat k)) as [Hlt|[Heq|Hgt]]; [|lia|].
      * pose proof (increasing_nth_lt rows (proj1 Hok) i (N.to_nat k) Hlt ltac:(lia)). lia.
      * pose proof (increasing_nth_lt rows (proj1 Hok) (N.to_nat k) i Hgt Hi). lia.
  - split; [discriminate|]. intros [Hk Ek]. exfalso.
    apply spec_contains_false in Hc. apply Hc. rewrite <- Ek. apply nth_In. lia.
Qed.

(* rank and select are mutually inverse *)
Theorem optional_index_rank_select num_rows rows k e : rows_ok num_rows rows -> k < N.of_nat (length rows) ->
  oi_select (optional_index_build num_rows rows) k = Some e ->
  oi_rank (optional_index_build num_rows rows) e = Some k /\
  oi_rank_if_exists (optional_index_build num_rows rows) e = Some k.
Proof.
  intros Hok Hk Hs. rewrite <- (N2Nat.id k) in Hs at 1.
  rewrite optional_index_select in Hs by (auto; lia). injection Hs as <-.
  rewrite optional_index_rank by exact Hok. split.
  - rewrite spec_rank_nth by (try apply Hok; lia). f_equal. lia.
  - apply optional_index_rank_if_exists_iff; [exact Hok|]. split; [exact Hk|reflexivity].
Qed.

Theorem optional_index_select_rank_if_exists num_rows rows e k : rows_ok num_rows rows ->
  oi_rank_if_exists (optional_index_build num_rows rows) e = Some k ->
  oi_select (optional_index_build num_rows rows) k = Some e.
Proof.
  intros Hok Hr. apply optional_index_rank_if_exists_iff in Hr; [|exact Hok]. destruct Hr as [Hk <-].
  rewrite <- (N2Nat.id k) at 1. apply optional_index_select; [exact Hok|lia].
Qed.

(* the dense / sparse choice per block does not matter: the same statements hold for an index whose
   blocks are encoded by an arbitrary choice function *)
Section AnyChoice.
  Variable choose_sparse : N -> list N -> bool.      (* block id, in-block row ids -> use the sparse encoding *)
  Definition variant_any (b : N) (els : list N) : block_variant :=
    if choose_sparse b els then Sparse els else Dense (dense_serialize els).
  Definition index_any (num_rows : N) (rows : list N) : optional_index :=
    {| oi_num_docs := num_rows; oi_num_non_null := N.of_nat (length rows);
       oi_metas := map (fun i => {| non_null_rows_before_block := rows_before_block rows (N.of_nat i);
                                    variant := variant_any (N.of_nat i) (block_els rows (N.of_nat i)) |})
                       (seq 0 (num_blocks num_rows)) |}.

  Theorem any_choice_rank num_rows rows doc : rows_ok num_rows rows ->
    oi_rank (index_any num_rows rows) doc = oi_rank (optional_index_build num_rows rows) doc.
  Proof.
    intros Hok. rewrite optional_index_rank by exact Hok. destruct Hok as [Hinc Hall].
    unfold oi_rank, index_any. cbn [oi_num_docs oi_num_non_null oi_metas].
    destruct (N.leb_spec num_rows doc) as [Hge|Hlt].
    - f_equal. symmetry. apply spec_rank_all_lt. eapply Forall_impl; [|exact Hall]. cbv beta. intros; lia.
    - rewrite nth_error_map_seq by now apply block_in_range.
      cbn [non_null_rows_before_block variant]. rewrite N2Nat.id. f_equal.
      assert (doc mod BLK < 65536) as Hm by (rewrite BLK_eq; apply N.mod_lt; discriminate).
      pose proof (block_els_ok_of rows (doc / BLK) Hinc) as Hels.
      unfold variant_any. destruct (choose_sparse _ _).
      + rewrite sparse_block_rank by exact Hels. symmetry. apply spec_rank_blocks.
      + rewrite dense_block_rank by assumption. symmetry. apply spec_rank_blocks.
  Qed.

  Theorem any_choice_rank_if_exists num_rows rows doc : rows_ok num_rows rows ->
    oi_rank_if_exists (index_any num_rows rows) doc = oi_rank_if_exists (optional_index_build num_rows rows) doc.
  Proof.
    intros Hok. rewrite optional_index_rank_if_exists by exact Hok. destruct Hok as [Hinc Hall].
    unfold oi_rank_if_exists, index_any. cbn [oi_metas].
    destruct (Nat.lt_ge_cases (N.to_nat (doc / BLK)) (num_blocks num_rows)) as [Hlt|Hge].
    - rewrite nth_error_map_seq by exact Hlt.
      cbn [non_null_rows_before_block variant]. rewrite N2Nat.id.
      assert (doc mod BLK < 65536) as Hm by (rewrite BLK_eq; apply N.mod_lt; discriminate).
      pose proof (block_els_ok_of rows (doc / BLK) Hinc) as Hels.
      rewrite spec_rank_if_exists_blocks.
      unfold variant_any. destruct (choose_sparse _ _).
      + now rewrite sparse_block_rank_if_exists by exact Hels.
      + now rewrite dense_block_rank_if_exists by assumption.
    - match goal with |- match nth_error ?l ?i with _ => _ end = _ =>
        assert (nth_error l i = None) as -> by (apply nth_error_None; rewrite map_length, seq_length; exact Hge) end.
      apply block_out_of_range in Hge. unfold spec_rank_if_exists.
      assert (spec_contains rows doc = false) as ->; [|reflexivity].
      apply spec_contains_false. intros Hin. rewrite Forall_forall in Hall. specialize (Hall doc Hin). lia.
  Qed.

  Theorem any_choice_select num_rows rows k : rows_ok num_rows rows -> k < N.of_nat (length rows) ->
    oi_select (index_any num_rows rows) k = oi_select (optional_index_build num_rows rows) k.
  Proof.
    intros Hok Hk. rewrite optional_index_select_spec by assumption.
    unfold spec_select. rewrite (nth_error_nth' rows 0) by lia.
    remember (nth (N.to_nat k) rows 0) as e eqn:Ee.
    assert (In e rows) as Hin by (rewrite Ee; apply nth_In; lia).
    assert (k = spec_rank rows e) as Ek by (rewrite Ee, spec_rank_nth by (try apply Hok; lia); lia).
    clear Ee. subst k.
    destruct Hok as [Hinc Hall].
    unfold oi_select, index_any. cbn [oi_metas].
    assert (e < num_rows) as He by (rewrite Forall_forall in Hall; now apply Hall).
    pose proof (block_in_range num_rows e He) as Hb. set (b := e / BLK) in *. set (nb := num_blocks num_rows) in *.
    match goal with |- context [find_block ?l _ _] => assert (find_block l (spec_rank rows e) 0 = b) as -> end.
    { replace nb with (S (N.to_nat b) + (nb - S (N.to_nat b)))%nat by lia.
      rewrite seq_app, map_app, find_block_app.
      - rewrite map_length, seq_length. lia.
      - apply Forall_forall. intros m Hm. apply in_map_iff in Hm. destruct Hm as [i [<- Hi]]. apply in_seq in Hi.
        cbn [non_null_rows_before_block].
        eapply N.le_trans; [|apply rows_before_block_le_rank]. apply rows_before_block_mono. fold b. lia.
      - destruct (nb - S (N.to_nat b))%nat as [|n]; cbn [seq map]; [exact I|].
        cbn [non_null_rows_before_block].
        replace (N.of_nat (0 + S (N.to_nat b))) with (b + 1) by lia. now apply rows_before_next_block. }
    rewrite nth_error_map_seq by exact Hb. cbn [non_null_rows_before_block variant]. rewrite N2Nat.id.
    replace (spec_rank rows e - rows_before_block rows b) with (spec_rank (block_els rows b) (e mod BLK))
      by (rewrite (spec_rank_blocks rows e); fold b; lia).
    pose proof (block_els_ok_of rows b Hinc) as Hels.
    assert (In (e mod BLK) (block_els rows b)) as Hin' by exact (proj1 (In_blocks rows e) Hin).
    assert (b * BLK + e mod BLK = e) as Hsum by (unfold b; rewrite BLK_eq; dlia).
    unfold variant_any. destruct (choose_sparse _ _).
    + rewrite sparse_block_select by assumption. now rewrite Hsum.
    + rewrite dense_block_select by assumption. now rewrite Hsum.
  Qed.
End AnyChoice.

(* ------------------------------------------------------------------------------------------ *)
(* OptionalIndex::contains and iter_non_null_docs (used by the merges; not in OptionalIndex.v) *)
Definition oi_contains (oi : optional_index) (doc : N) : option bool :=      (* None = index panic *)
  match nth_error (oi_metas oi) (N.to_nat (doc / BLK)) with
  | None => None
  | Some m => Some (block_contains (variant m) (doc mod BLK))
  end.

Fixpoint all_some {A} (l : list (option A)) : option (list A) :=
  match l with
  | [] => Some []
  | None :: _ => None
  | Some x :: t => match all_some t with Some r => Some (x :: r) | None => None end
  end.

(* (0 .. num_non_null).map(select) *)
Definition oi_non_null_docs (oi : optional_index) : option (list N) :=
  all_some (map (fun k => oi_select oi (N.of_nat k)) (seq 0 (N.to_nat (oi_num_non_null oi)))).

Lemma all_some_map {A B} (f : A -> option B) (g : A -> B) l :
  (forall x, In x l -> f x = Some (g x)) -> all_some (map f l) = Some (map g l).
Proof.
  induction l as [|x l IH]; intros H; [reflexivity|]. cbn [map all_some].
  rewrite (H x (or_introl eq_refl)), IH; [reflexivity|]. intros y Hy. apply H. now right.
Qed.

Theorem block_contains_ok els el : block_els_ok els -> el < 65536 ->
  block_contains (mk_variant els) el = spec_contains els el.
Proof.
  intros H Hel. unfold mk_variant.
  destruct (is_sparse _); [now apply sparse_block_contains|now apply dense_block_contains].
Qed.

Theorem optional_index_contains num_rows rows doc : rows_ok num_rows rows -> doc < num_rows ->
  oi_contains (optional_index_build num_rows rows) doc = Some (spec_contains rows doc).
Proof.
  intros [Hinc Hall] Hlt. unfold oi_contains. rewrite build_metas.
  rewrite nth_error_map_seq by now apply block_in_range.
  unfold meta_of. cbn [variant]. rewrite N2Nat.id. f_equal.
  rewrite block_contains_ok; [symmetry; apply spec_contains_blocks|now apply block_els_ok_of|].
  rewrite BLK_eq. apply N.mod_lt. discriminate.
Qed.

Theorem optional_index_non_null_docs num_rows rows : rows_ok num_rows rows ->
  oi_non_null_docs (optional_index_build num_rows rows) = Some rows.
Proof.
  intros Hok. unfold oi_non_null_docs.
  change (oi_num_non_null (optional_index_build num_rows rows)) with (N.of_nat (length rows)).
  rewrite Nat2N.id. rewrite (all_some_map _ (fun k => nth k rows 0)).
  - f_equal. apply nth_ext with (d := 0) (d' := 0); [now rewrite map_length, seq_length|].
    intros i Hi. rewrite map_length, seq_length in Hi.
    rewrite (nth_indep _ _ (nth 0 rows 0)) by (rewrite map_length, seq_length; exact Hi).
    rewrite (map_nth (fun k => nth k rows 0) (seq 0 (length rows)) 0%nat), seq_nth by exact Hi. reflexivity.
  - intros k Hk. apply in_seq in Hk. apply optional_index_select; [exact Hok|lia].
Qed.

(* ------------------------------------------------------------------------------------------ *)
(* packaged statements (for Properties/C08.v) *)
Definition strictly_increasing (l : list N) : Prop :=
  forall i j, (i < j)%nat -> (j < length l)%nat -> nth i l 0 < nth j l 0.

Lemma strictly_increasing_iff l : strictly_increasing l <-> increasing l.
Proof.
  split; [|intros H i j; now apply increasing_nth_lt].
  induction l as [|a l IH]; intros H; [constructor|]. constructor.
  - apply IH. intros i j Hij Hj. apply (H (S i) (S j)); cbn [length]; lia.
  - apply Forall_forall. intros y Hy. destruct (In_nth _ _ 0 Hy) as [k [Hk <-]].
    apply (H 0%nat (S k)); cbn [length]; lia.
Qed.

Theorem optional_index_correct : forall num_rows rows,
  strictly_increasing rows -> Forall (fun r => r < num_rows) rows ->
  let I := optional_index_build num_rows rows in
  (forall doc, oi_rank I doc = Some (spec_rank rows doc)) /\
  (forall doc, oi_rank_if_exists I doc = spec_rank_if_exists rows doc) /\
  (forall k, (k < length rows)%nat -> oi_select I (N.of_nat k) = Some (nth k rows 0)) /\
  (forall r k, oi_rank_if_exists I r = Some k <-> (k < N.of_nat (length rows) /\ nth (N.to_nat k) rows 0 = r)) /\
  (forall k e, k < N.of_nat (length rows) -> oi_select I k = Some e ->
               oi_rank I e = Some k /\ oi_rank_if_exists I e = Some k) /\
  (forall e k, oi_rank_if_exists I e = Some k -> oi_select I k = Some e) /\
  oi_non_null_docs I = Some rows /\
  (forall doc, doc < num_rows -> oi_contains I doc = Some (spec_contains rows doc)).
Proof.
  intros num_rows rows Hinc Hall. apply strictly_increasing_iff in Hinc.
  assert (rows_ok num_rows rows) as Hok by (split; assumption). cbv zeta.
  split; [intros doc; now apply optional_index_rank|].
  split; [intros doc; now apply optional_index_rank_if_exists|].
  split; [intros k Hk; now apply optional_index_select|].
  split; [intros r k; now apply optional_index_rank_if_exists_iff|].
  split; [intros k e Hk Hs; eapply optional_index_rank_select; eassumption|].
  split; [intros e k; now apply optional_index_select_rank_if_exists|].
  split; [now apply optional_index_non_null_docs|].
  intros doc Hdoc. now apply optional_index_contains.
Qed.

(* each block encoding alone, for any increasing list of in-block row ids (u16) *)
Theorem optional_index_block_correct : forall els,
  strictly_increasing els -> Forall (fun e => e < 65536) els ->
  forall v, v = Sparse els \/ v = Dense (dense_serialize els) ->
  (forall el, el < 65536 -> block_rank v el = spec_rank els el /\ block_rank v el <= el) /\
  (forall el, el < 65536 -> block_contains v el = spec_contains els el) /\
  (forall el, el < 65536 -> block_rank_if_exists v el = spec_rank_if_exists els el) /\
  (forall k, (k < length els)%nat -> block_select v (N.of_nat k) = Some (nth k els 0)).
Proof.
  intros els Hinc Hall v Hv. apply strictly_increasing_iff in Hinc.
  assert (block_els_ok els) as Hok by (split; assumption).
  assert (forall el, el < 65536 -> spec_rank els el <= el) as Hbound.
  { intros el Hel. rewrite <- (popcount_bits_of els el) by now apply increasing_NoDup.
    apply popcount_le. apply N.mod_lt, pow2_nz. }
  assert (forall k, (k < length els)%nat -> N.of_nat k = spec_rank els (nth k els 0)) as Hk
    by (intros k Hk; now rewrite spec_rank_nth).
  destruct Hv as [-> | ->].
  - split; [intros el Hel; split; [now apply sparse_block_rank|rewrite sparse_block_rank by exact Hok; now apply Hbound]|].
    split; [intros el _; now apply sparse_block_contains|].
    split; [intros el _; now apply sparse_block_rank_if_exists|].
    intros k Hlt. rewrite (Hk k Hlt). apply sparse_block_select; [exact Hok|now apply nth_In].
  - split; [intros el Hel; split; [now apply dense_block_rank|rewrite dense_block_rank by assumption; now apply Hbound]|].
    split; [intros el Hel; now apply dense_block_contains|].
    split; [intros el Hel; now apply dense_block_rank_if_exists|].
    intros k Hlt. rewrite (Hk k Hlt). apply dense_block_select; [exact Hok|now apply nth_In].
Qed.

(* whichever encoding each block gets, the index answers the same *)
Theorem optional_index_any_choice : forall (choose_sparse : N -> list N -> bool) num_rows rows,
  strictly_increasing rows -> Forall (fun r => r < num_rows) rows ->
  let I := optional_index_build num_rows rows in
  let J := index_any choose_sparse num_rows rows in
  (forall doc, oi_rank J doc = oi_rank I doc) /\
  (forall doc, oi_rank_if_exists J doc = oi_rank_if_exists I doc) /\
  (forall k, k < N.of_nat (length rows) -> oi_select J k = oi_select I k).
Proof.
  intros ch num_rows rows Hinc Hall. apply strictly_increasing_iff in Hinc.
  assert (rows_ok num_rows rows) as Hok by (split; assumption). cbv zeta. repeat split.
  - intros doc. now apply any_choice_rank.
  - intros doc. now apply any_choice_rank_if_exists.
  - intros k Hk. now apply any_choice_select.
Qed.

(* the index the model builds is index_any for the pinned threshold *)
Lemma build_is_index_any num_rows rows :
  optional_index_build num_rows rows =
  index_any (fun _ els => is_sparse (N.of_nat (length els))) num_rows rows.
Proof.
  unfold index_any, optional_index_build. f_equal. exact (build_metas num_rows rows).
Qed.
