(* Bit-packer model: /repo/bitpacker/src/bitpacker.rs (BitPacker::write / flush, BitUnpacker::new /
   get / get_slow_path) and /repo/bitpacker/src/lib.rs (compute_num_bits), over byte lists, with the
   64-bit wrap-around of the mini buffer written explicitly.  Style: stdlib. *)
From TV Require Import Base.Prelude Generated.Constants.
Local Open Scope N_scope.

(* ------------------------------------------------------------------------------------------ *)
(* Machine words *)
Definition wrap64 (x : N) : N := x mod 2 ^ 64.
Definition is_u64 (x : N) : Prop := x < 2 ^ 64.

Lemma wrap64_small x : x < 2 ^ 64 -> wrap64 x = x.
Proof. intros H. unfold wrap64. apply N.mod_small; exact H. Qed.
Lemma wrap64_lt x : wrap64 x < 2 ^ 64.
Proof. unfold wrap64. apply N.mod_lt. discriminate. Qed.

(* ------------------------------------------------------------------------------------------ *)
(* Arithmetic helper lemmas (proved once) *)

Lemma pow2_pos n : 0 < 2 ^ n.
Proof. apply N.neq_0_lt_0, N.pow_nonzero. discriminate. Qed.
Lemma pow2_nz n : 2 ^ n <> 0.
Proof. apply N.pow_nonzero. discriminate. Qed.

Lemma pow256 n : 256 ^ n = 2 ^ (8 * n).
Proof. change 256 with (2 ^ 8). rewrite <- N.pow_mul_r. reflexivity. Qed.

(* disjoint lor is addition *)
Lemma lor_disjoint_add a b k : a < 2 ^ k -> N.lor a (N.shiftl b k) = a + b * 2 ^ k.
Proof.
  intros Ha.
  assert (Hland : N.land a (N.shiftl b k) = 0).
  { apply N.bits_inj_0. intros n. rewrite N.land_spec.
    destruct (N.lt_ge_cases n k) as [Hn|Hn].
    - rewrite N.shiftl_spec_low by exact Hn. apply andb_false_r.
    - destruct (N.eq_dec a 0) as [->|Hnz]; [rewrite N.bits_0; reflexivity|].
      rewrite (N.bits_above_log2 a n); [reflexivity|].
      apply N.log2_lt_pow2 in Ha; lia. }
  rewrite <- N.lxor_lor by exact Hland.
  rewrite <- N.add_nocarry_lxor by exact Hland.
  rewrite N.shiftl_mul_pow2. reflexivity.
Qed.

(* (X mod 2^(s+k)) / 2^s = (X / 2^s) mod 2^k *)
Lemma mod_div_pow2 X s k : (X mod 2 ^ (s + k)) / 2 ^ s = (X / 2 ^ s) mod 2 ^ k.
Proof.
  rewrite N.pow_add_r.
  rewrite N.mod_mul_r by apply pow2_nz.
  rewrite (N.mul_comm (2 ^ s) ((X / 2 ^ s) mod 2 ^ k)).
  rewrite N.div_add by apply pow2_nz.
  rewrite N.div_small by (apply N.mod_lt, pow2_nz). lia.
Qed.

Lemma mod_mod_pow2 Y a w : w <= a -> (Y mod 2 ^ a) mod 2 ^ w = Y mod 2 ^ w.
Proof.
  intros Hwa. replace a with (w + (a - w)) by lia.
  rewrite N.pow_add_r, N.mod_mul_r by apply pow2_nz.
  rewrite N.mul_comm, N.mod_add by apply pow2_nz.
  apply N.mod_mod, pow2_nz.
Qed.

(* the w-bit window at bit offset o, read through a 64-bit word taken at a byte address *)
Lemma window_through_word X s w : s + w <= 64 ->
  ((X mod 2 ^ 64) / 2 ^ s) mod 2 ^ w = (X / 2 ^ s) mod 2 ^ w.
Proof.
  intros H. replace 64 with (s + (64 - s)) by lia.
  rewrite mod_div_pow2. apply mod_mod_pow2. lia.
Qed.

Lemma div_pow2_add X a b : X / 2 ^ (a + b) = X / 2 ^ a / 2 ^ b.
Proof. rewrite N.pow_add_r, N.div_div by apply pow2_nz. reflexivity. Qed.

(* ------------------------------------------------------------------------------------------ *)
(* little-endian byte strings as numbers *)

Lemma le_value_app a b : le_value (a ++ b) = le_value a + 256 ^ N.of_nat (length a) * le_value b.
Proof.
  induction a as [|x a IH]; cbn [app le_value length].
  - change (N.of_nat 0) with 0. rewrite N.pow_0_r. lia.
  - rewrite IH, Nat2N.inj_succ, N.pow_succ_r'. lia.
Qed.

Lemma le_value_bound l : wf_bytes l = true -> le_value l < 256 ^ N.of_nat (length l).
Proof.
  induction l as [|x l IH]; intros Hwf.
  - cbn. lia.
  - cbn [wf_bytes forallb] in Hwf. apply andb_true_iff in Hwf as [Hx Hl].
    unfold is_byte in Hx. apply N.ltb_lt in Hx.
    cbn [le_value length]. rewrite Nat2N.inj_succ, N.pow_succ_r'.
    specialize (IH Hl). lia.
Qed.

Lemma wf_bytes_skipn n l : wf_bytes l = true -> wf_bytes (skipn n l) = true.
Proof.
  revert l; induction n as [|n IH]; intros l H; [exact H|].
  destruct l as [|x l]; [reflexivity|]. cbn [skipn]. apply IH.
  cbn [wf_bytes forallb] in H. apply andb_true_iff in H. tauto.
Qed.
Lemma wf_bytes_firstn n l : wf_bytes l = true -> wf_bytes (firstn n l) = true.
Proof.
  revert l; induction n as [|n IH]; intros l H; [reflexivity|].
  destruct l as [|x l]; [reflexivity|]. cbn [firstn wf_bytes forallb].
  cbn [wf_bytes forallb] in H. apply andb_true_iff in H as [Hx Hl].
  rewrite Hx. cbn [andb]. apply IH, Hl.
Qed.

Lemma le_value_skipn n l : wf_bytes l = true ->
  le_value (skipn n l) = le_value l / 256 ^ N.of_nat n.
Proof.
  revert l; induction n as [|n IH]; intros l Hwf.
  - cbn [skipn]. change (N.of_nat 0) with 0. rewrite N.pow_0_r, N.div_1_r. reflexivity.
  - destruct l as [|x l].
    + cbn [skipn le_value]. rewrite N.div_0_l; [reflexivity|apply N.pow_nonzero; discriminate].
    + cbn [wf_bytes forallb] in Hwf. apply andb_true_iff in Hwf as [Hx Hl].
      unfold is_byte in Hx. apply N.ltb_lt in Hx.
      cbn [skipn le_value]. rewrite (IH l Hl).
      rewrite Nat2N.inj_succ, N.pow_succ_r', <- N.div_div by (try apply N.pow_nonzero; discriminate).
      f_equal. rewrite N.mul_comm, N.div_add by discriminate. rewrite N.div_small by exact Hx. reflexivity.
Qed.

Lemma le_value_firstn n l : wf_bytes l = true ->
  le_value (firstn n l) = le_value l mod 256 ^ N.of_nat n.
Proof.
  revert l; induction n as [|n IH]; intros l Hwf.
  - cbn [firstn le_value]. change (N.of_nat 0) with 0. rewrite N.pow_0_r, N.mod_1_r. reflexivity.
  - destruct l as [|x l].
    + cbn [firstn le_value]. rewrite N.mod_0_l; [reflexivity|apply N.pow_nonzero; discriminate].
    + cbn [wf_bytes forallb] in Hwf. apply andb_true_iff in Hwf as [Hx Hl].
      unfold is_byte in Hx. apply N.ltb_lt in Hx.
      cbn [firstn le_value]. rewrite (IH l Hl).
      rewrite Nat2N.inj_succ, N.pow_succ_r'.
      rewrite N.mod_mul_r by (try apply N.pow_nonzero; discriminate).
      rewrite (N.mul_comm 256 (le_value l)), N.mod_add by discriminate.
      rewrite N.div_add by discriminate.
      rewrite (N.mod_small x 256), (N.div_small x 256) by exact Hx. rewrite N.add_0_l. reflexivity.
Qed.

Lemma le_value_zeros k : le_value (repeat 0 k) = 0.
Proof. induction k as [|k IH]; cbn [repeat le_value]; [reflexivity|rewrite IH; reflexivity]. Qed.

(* ------------------------------------------------------------------------------------------ *)
(* BitPacker (writer side) *)

Record packer := { mini_buffer : N; mini_buffer_written : N }.
Definition packer_new : packer := {| mini_buffer := 0; mini_buffer_written := 0 |}.

(* BitPacker::write: returns the new state and the bytes pushed to the output *)
Definition packer_write (p : packer) (val num_bits : N) : packer * bytes :=
  let wr := mini_buffer_written p in
  if 64 <? wr + num_bits then
    (* self.mini_buffer |= val.wrapping_shl(written); write 8 bytes;
       self.mini_buffer = val.wrapping_shr(64 - written); written = written + num_bits - 64 *)
    let full := N.lor (mini_buffer p) (wrap64 (N.shiftl val (wr mod 64))) in
    ({| mini_buffer := N.shiftr val ((64 - wr) mod 64); mini_buffer_written := wr + num_bits - 64 |},
     le_bytes 8 full)
  else
    let mb := N.lor (mini_buffer p) (wrap64 (N.shiftl val wr)) in
    let wr' := wr + num_bits in
    if wr' =? 64 then ({| mini_buffer := 0; mini_buffer_written := 0 |}, le_bytes 8 mb)
    else ({| mini_buffer := mb; mini_buffer_written := wr' |}, []).

(* BitPacker::flush / close *)
Definition packer_flush (p : packer) : bytes :=
  if 0 <? mini_buffer_written p
  then le_bytes (N.to_nat ((mini_buffer_written p + 7) / 8)) (mini_buffer p)
  else [].

Fixpoint pack_from (p : packer) (w : N) (vals : list N) : bytes :=
  match vals with
  | [] => packer_flush p
  | v :: r => let '(p', out) := packer_write p v w in out ++ pack_from p' w r
  end.

(* all values written with the same width, then close *)
Definition pack (w : N) (vals : list N) : bytes := pack_from packer_new w vals.

(* ------------------------------------------------------------------------------------------ *)
(* BitUnpacker (reader side) *)

(* BitUnpacker::new asserts this *)
Definition valid_width (w : N) : bool := (w <=? BITUNPACKER_NARROW_MAX_BITS) || (w =? BITUNPACKER_FULL_BITS).

Definition unpacker_mask (w : N) : N := if w =? 64 then 2 ^ 64 - 1 else N.shiftl 1 w - 1.

(* BitUnpacker::get; None = the slice panic of get_slow_path when addr lies beyond the data *)
Definition unpacker_get (w : N) (idx : N) (data : bytes) : option N :=
  let len := N.of_nat (length data) in
  let addr_in_bits := idx * w in
  let addr := N.shiftr addr_in_bits 3 in
  let bit_shift := N.land addr_in_bits 7 in
  if len <? addr + BITUNPACKER_READ_BYTES then
    if w =? 0 then Some 0
    else if len <? addr then None
    else
      (* get_slow_path: the available bytes, zero padded to 8 *)
      let avail := skipn (N.to_nat addr) data in
      let word := le_value (avail ++ repeat 0 (N.to_nat BITUNPACKER_READ_BYTES - length avail)) in
      Some (N.land (N.shiftr word bit_shift) (unpacker_mask w))
  else
    let word := le_value (firstn (N.to_nat BITUNPACKER_READ_BYTES) (skipn (N.to_nat addr) data)) in
    Some (N.land (N.shiftr word bit_shift) (unpacker_mask w)).

(* compute_num_bits *)
Definition compute_num_bits (n : N) : N :=
  let amplitude := N.size n in          (* 64 - leading_zeros *)
  if amplitude <=? COMPUTE_NUM_BITS_NARROW_MAX then amplitude else COMPUTE_NUM_BITS_WIDE.

(* ------------------------------------------------------------------------------------------ *)
(* Specification of the layout: value k occupies bits [k*w, (k+1)*w) of the little-endian number *)

Fixpoint bitstring (w : N) (vals : list N) : N :=
  match vals with
  | [] => 0
  | v :: r => v + 2 ^ w * bitstring w r
  end.

Definition all_below (w : N) (vals : list N) : Prop := Forall (fun v => v < 2 ^ w) vals.

Lemma bitstring_window w vals i : all_below w vals -> (i < length vals)%nat ->
  (bitstring w vals / 2 ^ (N.of_nat i * w)) mod 2 ^ w = nth i vals 0.
Proof.
  revert i; induction vals as [|v r IH]; intros i Hb Hi; [cbn in Hi; lia|].
  inversion Hb as [|? ? Hv Hr]; subst.
  destruct i as [|i].
  - cbn [nth bitstring]. change (N.of_nat 0) with 0. rewrite N.mul_0_l, N.pow_0_r, N.div_1_r.
    rewrite N.mul_comm, N.mod_add by apply pow2_nz. apply N.mod_small, Hv.
  - cbn [nth bitstring]. cbn [length] in Hi.
    replace (N.of_nat (S i) * w) with (w + N.of_nat i * w) by lia.
    rewrite div_pow2_add.
    rewrite (N.mul_comm (2 ^ w)), N.div_add by apply pow2_nz.
    rewrite (N.div_small v (2 ^ w)) by exact Hv. rewrite N.add_0_l.
    apply IH; [exact Hr|lia].
Qed.

Lemma bitstring_bound w vals : all_below w vals -> bitstring w vals < 2 ^ (w * N.of_nat (length vals)).
Proof.
  induction vals as [|v r IH]; intros Hb.
  - cbn. lia.
  - inversion Hb as [|? ? Hv Hr]; subst. specialize (IH Hr).
    cbn [bitstring length]. rewrite Nat2N.inj_succ, N.mul_succ_r, N.pow_add_r.
    nia.
Qed.

(* ------------------------------------------------------------------------------------------ *)
(* The packer writes the bit string *)

Lemma wf_packer_flush p : wf_bytes (packer_flush p) = true.
Proof. unfold packer_flush. destruct (0 <? _); [apply wf_le_bytes|reflexivity]. Qed.

Lemma wf_packer_write p v w : wf_bytes (snd (packer_write p v w)) = true.
Proof.
  unfold packer_write. destruct (64 <? _); [apply wf_le_bytes|].
  destruct (_ =? 64); [apply wf_le_bytes|reflexivity].
Qed.

Lemma wf_pack_from vals : forall p w, wf_bytes (pack_from p w vals) = true.
Proof.
  induction vals as [|v r IH]; intros p w; cbn [pack_from]; [apply wf_packer_flush|].
  pose proof (wf_packer_write p v w) as Hw.
  destruct (packer_write p v w) as [p' out]. cbn [snd] in Hw.
  rewrite wf_bytes_app, IH, Hw. reflexivity.
Qed.

Lemma le_value_le_bytes8 x : x < 2 ^ 64 -> le_value (le_bytes 8 x) = x.
Proof. intros H. apply le_value_bytes. exact H. Qed.

Definition packer_ok (p : packer) : Prop :=
  mini_buffer_written p < 64 /\ mini_buffer p < 2 ^ mini_buffer_written p.

Lemma pack_from_value w : w <= 64 -> forall vals p, packer_ok p -> all_below w vals ->
  le_value (pack_from p w vals) = mini_buffer p + 2 ^ mini_buffer_written p * bitstring w vals.
Proof.
  intros Hw. induction vals as [|v r IH]; intros [mb wr] [Hwr Hmb] Hb; cbn [mini_buffer mini_buffer_written] in *.
  - cbn [pack_from bitstring]. unfold packer_flush. cbn [mini_buffer mini_buffer_written].
    destruct (0 <? wr) eqn:E.
    + apply N.ltb_lt in E. rewrite le_value_bytes; [lia|].
      rewrite N2Nat.id, pow256.
      eapply N.lt_le_trans; [exact Hmb|]. apply N.pow_le_mono_r; [discriminate|].
      pose proof (N.div_mod (wr + 7) 8 ltac:(discriminate)) as D.
      pose proof (N.mod_lt (wr + 7) 8 ltac:(discriminate)). lia.
    + apply N.ltb_ge in E. assert (wr = 0) by lia. subst wr. cbn [le_value].
      rewrite N.pow_0_r in Hmb. lia.
  - inversion Hb as [|? ? Hv Hr]; subst.
    cbn [pack_from bitstring]. unfold packer_write. cbn [mini_buffer mini_buffer_written].
    assert (Hsum : mb + v * 2 ^ wr < 2 ^ (wr + w)).
    { rewrite N.pow_add_r. pose proof (pow2_pos wr). nia. }
    destruct (64 <? wr + w) eqn:E.
    + apply N.ltb_lt in E.
      assert (Hwr0 : 0 < wr) by lia.
      rewrite (N.mod_small wr 64) by exact Hwr.
      rewrite (N.mod_small (64 - wr) 64) by lia.
      rewrite le_value_app, le_bytes_length. change (256 ^ N.of_nat 8) with (2 ^ 64).
      rewrite IH; cbn [mini_buffer mini_buffer_written].
      2:{ unfold packer_ok; cbn [mini_buffer mini_buffer_written]. split; [lia|]. rewrite N.shiftr_div_pow2.
          apply N.div_lt_upper_bound; [apply pow2_nz|].
          rewrite <- N.pow_add_r. replace (64 - wr + (wr + w - 64)) with w by lia. exact Hv. }
      2: exact Hr.
      (* the word written = (mb + v*2^wr) mod 2^64, the carry = (mb + v*2^wr) / 2^64 *)
      assert (H64 : 2 ^ 64 = 2 ^ (64 - wr) * 2 ^ wr) by (rewrite <- N.pow_add_r; f_equal; lia).
      pose proof (N.mod_lt v (2 ^ (64 - wr)) (pow2_nz _)) as Hvm.
      pose proof (N.div_mod v (2 ^ (64 - wr)) (pow2_nz _)) as Hvd.
      pose proof (pow2_pos wr) as Hpw.
      assert (Hfull : N.lor mb (wrap64 (N.shiftl v wr)) = (mb + v * 2 ^ wr) mod 2 ^ 64).
      { unfold wrap64. rewrite N.shiftl_mul_pow2.
        replace ((v * 2 ^ wr) mod 2 ^ 64) with (((v mod 2 ^ (64 - wr))) * 2 ^ wr)
          by (rewrite H64, N.mul_mod_distr_r by apply pow2_nz; reflexivity).
        rewrite <- N.shiftl_mul_pow2, lor_disjoint_add by exact Hmb.
        apply N.mod_unique with (q := v / 2 ^ (64 - wr)); rewrite H64; nia. }
      rewrite Hfull, le_value_le_bytes8 by (apply N.mod_lt, pow2_nz).
      assert (Hcarry : N.shiftr v (64 - wr) = (mb + v * 2 ^ wr) / 2 ^ 64).
      { rewrite N.shiftr_div_pow2.
        apply N.div_unique with (r := mb + (v mod 2 ^ (64 - wr)) * 2 ^ wr); rewrite H64; nia. }
      rewrite Hcarry.
      pose proof (N.div_mod (mb + v * 2 ^ wr) (2 ^ 64) (pow2_nz _)) as D.
      replace (2 ^ wr * (v + 2 ^ w * bitstring w r)) with (v * 2 ^ wr + 2 ^ (wr + w) * bitstring w r)
        by (rewrite N.pow_add_r; lia).
      replace (2 ^ (wr + w)) with (2 ^ 64 * 2 ^ (wr + w - 64))
        by (rewrite <- N.pow_add_r; f_equal; lia).
      lia.
    + apply N.ltb_ge in E.
      assert (Hnowrap : wrap64 (N.shiftl v wr) = N.shiftl v wr).
      { apply wrap64_small. rewrite N.shiftl_mul_pow2.
        eapply N.lt_le_trans with (m := 2 ^ (wr + w)); [pose proof (pow2_pos wr); lia|].
        apply N.pow_le_mono_r; [discriminate|exact E]. }
      rewrite Hnowrap, lor_disjoint_add by exact Hmb.
      destruct (wr + w =? 64) eqn:E2.
      * apply N.eqb_eq in E2.
        rewrite le_value_app, le_bytes_length. change (256 ^ N.of_nat 8) with (2 ^ 64).
        rewrite IH; cbn [mini_buffer mini_buffer_written]; [|unfold packer_ok; cbn [mini_buffer mini_buffer_written]; split; [lia|rewrite N.pow_0_r; lia]|exact Hr].
        rewrite le_value_le_bytes8 by (rewrite <- E2; exact Hsum).
        rewrite N.pow_0_r.
        replace (2 ^ 64) with (2 ^ wr * 2 ^ w) by (rewrite <- N.pow_add_r, E2; reflexivity). lia.
      * apply N.eqb_neq in E2. cbn [app].
        rewrite IH; cbn [mini_buffer mini_buffer_written]; [|unfold packer_ok; cbn [mini_buffer mini_buffer_written]; split; [lia|exact Hsum]|exact Hr].
        rewrite N.pow_add_r. lia.
Qed.

Lemma pack_from_length w : w <= 64 -> forall vals p, mini_buffer_written p < 64 ->
  N.of_nat (length (pack_from p w vals)) = (mini_buffer_written p + w * N.of_nat (length vals) + 7) / 8.
Proof.
  intros Hw. induction vals as [|v r IH]; intros [mb wr] Hwr; cbn [mini_buffer_written] in *.
  - cbn [pack_from length]. unfold packer_flush. cbn [mini_buffer mini_buffer_written].
    change (N.of_nat 0) with 0. rewrite N.mul_0_r, N.add_0_r.
    destruct (0 <? wr) eqn:E.
    + rewrite le_bytes_length, N2Nat.id. reflexivity.
    + apply N.ltb_ge in E. assert (wr = 0) by lia. subst. reflexivity.
  - cbn [pack_from length]. unfold packer_write. cbn [mini_buffer mini_buffer_written].
    rewrite Nat2N.inj_succ, N.mul_succ_r.
    destruct (64 <? wr + w) eqn:E.
    + apply N.ltb_lt in E. rewrite app_length, le_bytes_length, Nat2N.inj_add, IH by (cbn; lia).
      cbn [mini_buffer_written]. change (N.of_nat 8) with 8.
      replace (wr + (w * N.of_nat (length r) + w) + 7) with ((wr + w - 64 + w * N.of_nat (length r) + 7) + 8 * 8) by lia.
      rewrite N.div_add by discriminate. lia.
    + apply N.ltb_ge in E. destruct (wr + w =? 64) eqn:E2.
      * apply N.eqb_eq in E2. rewrite app_length, le_bytes_length, Nat2N.inj_add, IH by (cbn; lia).
        cbn [mini_buffer_written]. change (N.of_nat 8) with 8.
        replace (wr + (w * N.of_nat (length r) + w) + 7) with ((0 + w * N.of_nat (length r) + 7) + 8 * 8) by lia.
        rewrite N.div_add by discriminate. lia.
      * apply N.eqb_neq in E2. cbn [app]. rewrite IH by (cbn; lia). cbn [mini_buffer_written].
        f_equal. lia.
Qed.

Lemma packer_new_ok : packer_ok packer_new.
Proof. split; cbn; lia. Qed.

Lemma pack_value w vals : w <= 64 -> all_below w vals -> le_value (pack w vals) = bitstring w vals.
Proof.
  intros Hw Hb. unfold pack. rewrite (pack_from_value w Hw vals packer_new packer_new_ok Hb).
  cbn [packer_new mini_buffer mini_buffer_written]. rewrite N.pow_0_r. lia.
Qed.

Lemma pack_length w vals : w <= 64 ->
  N.of_nat (length (pack w vals)) = (w * N.of_nat (length vals) + 7) / 8.
Proof.
  intros Hw. unfold pack. rewrite (pack_from_length w Hw vals packer_new) by (cbn; lia).
  cbn [packer_new mini_buffer_written]. f_equal.
Qed.

Lemma wf_pack w vals : wf_bytes (pack w vals) = true.
Proof. apply wf_pack_from. Qed.

(* ------------------------------------------------------------------------------------------ *)
(* The reader extracts the window: for ANY byte string whose number has the value at that window *)

Lemma unpacker_mask_ones w : w <= 64 -> unpacker_mask w = N.ones w.
Proof.
  intros Hw. unfold unpacker_mask. destruct (w =? 64) eqn:E.
  - apply N.eqb_eq in E. subst. reflexivity.
  - rewrite N.shiftl_1_l, N.ones_equiv. lia.
Qed.

(* the pinned rule makes every window fit into the 8-byte word *)
Definition width_rule_sound : Prop :=
  BITUNPACKER_NARROW_MAX_BITS + 7 <= 8 * BITUNPACKER_READ_BYTES /\ BITUNPACKER_FULL_BITS = 64 /\ BITUNPACKER_READ_BYTES = 8.
Lemma width_rule_sound_holds : width_rule_sound.
Proof. vm_compute. repeat split; discriminate. Qed.

Lemma valid_width_fits w i : valid_width w = true -> w <= 64 /\ (i * w) mod 8 + w <= 64.
Proof.
  destruct width_rule_sound_holds as (H1 & H2 & H3). rewrite H3 in H1.
  unfold valid_width. rewrite orb_true_iff, N.leb_le, N.eqb_eq, H2. intros [H|H].
  - pose proof (N.mod_lt (i * w) 8 ltac:(discriminate)). lia.
  - subst w. replace (i * 64) with ((i * 8) * 8) by lia. rewrite N.mod_mul by discriminate. lia.
Qed.

Theorem unpacker_get_window w i data :
  valid_width w = true -> wf_bytes data = true ->
  (w = 0 \/ (i * w) / 8 <= N.of_nat (length data)) ->
  unpacker_get w i data = Some ((le_value data / 2 ^ (i * w)) mod 2 ^ w).
Proof.
  intros Hvw Hwf Hin.
  destruct (valid_width_fits w i Hvw) as [Hw Hfit].
  destruct width_rule_sound_holds as (_ & _ & HRB).
  unfold unpacker_get. rewrite HRB.
  rewrite N.shiftr_div_pow2. change (2 ^ 3) with 8.
  change 7 with (N.ones 3). rewrite N.land_ones. change (2 ^ 3) with 8.
  set (addr := i * w / 8). set (s := (i * w) mod 8).
  assert (Hiw : i * w = 8 * addr + s) by (unfold addr, s; apply N.div_mod; discriminate).
  rewrite unpacker_mask_ones by exact Hw.
  assert (Hwin : forall word, word / 2 ^ s mod 2 ^ w = (le_value data / 2 ^ (8 * addr) / 2 ^ s) mod 2 ^ w ->
                 Some (N.land (N.shiftr word s) (N.ones w)) = Some ((le_value data / 2 ^ (i * w)) mod 2 ^ w)).
  { intros word Hword. rewrite N.land_ones, N.shiftr_div_pow2, Hword, Hiw, div_pow2_add. reflexivity. }
  destruct (N.of_nat (length data) <? addr + 8) eqn:E.
  - destruct (w =? 0) eqn:E0.
    + apply N.eqb_eq in E0. subst w. rewrite N.pow_0_r, N.mod_1_r. reflexivity.
    + apply N.eqb_neq in E0. destruct Hin as [Hin|Hin]; [contradiction|]. fold addr in Hin.
      destruct (N.of_nat (length data) <? addr) eqn:E1; [apply N.ltb_lt in E1; lia|].
      apply Hwin. rewrite le_value_app, le_value_zeros, N.mul_0_r, N.add_0_r.
      rewrite le_value_skipn by exact Hwf. rewrite N2Nat.id, pow256. reflexivity.
  - apply Hwin.
    rewrite le_value_firstn by (apply wf_bytes_skipn; exact Hwf).
    rewrite le_value_skipn by exact Hwf. rewrite N2Nat.id. change (256 ^ N.of_nat (N.to_nat 8)) with (2 ^ 64).
    rewrite pow256. apply window_through_word. exact Hfit.
Qed.

(* ------------------------------------------------------------------------------------------ *)
(* Round trip *)

Theorem bitpack_roundtrip w vals i :
  valid_width w = true -> all_below w vals -> (i < length vals)%nat ->
  unpacker_get w (N.of_nat i) (pack w vals) = Some (nth i vals 0).
Proof.
  intros Hvw Hb Hi.
  destruct (valid_width_fits w 0 Hvw) as [Hw _].
  rewrite unpacker_get_window; [|exact Hvw|apply wf_pack|].
  - rewrite pack_value by assumption. f_equal. apply bitstring_window; assumption.
  - right. rewrite pack_length by exact Hw.
    apply N.div_le_mono; [discriminate|]. nia.
Qed.

(* compute_num_bits returns a valid width in which the value fits *)
Definition num_bits_rule_sound : Prop :=
  COMPUTE_NUM_BITS_NARROW_MAX <= BITUNPACKER_NARROW_MAX_BITS /\ COMPUTE_NUM_BITS_WIDE = BITUNPACKER_FULL_BITS.
Lemma num_bits_rule_sound_holds : num_bits_rule_sound.
Proof. vm_compute. split; [discriminate|reflexivity]. Qed.

Lemma size_le_64 n : n < 2 ^ 64 -> N.size n <= 64.
Proof.
  intros H. destruct (N.eq_dec n 0) as [->|Hnz]; [cbn; lia|].
  rewrite N.size_log2 by exact Hnz. apply N.log2_lt_pow2 in H; lia.
Qed.

Lemma compute_num_bits_valid n : valid_width (compute_num_bits n) = true.
Proof.
  destruct num_bits_rule_sound_holds as [H1 H2].
  unfold compute_num_bits, valid_width.
  destruct (N.size n <=? COMPUTE_NUM_BITS_NARROW_MAX) eqn:E.
  - apply N.leb_le in E. apply orb_true_iff. left. apply N.leb_le. lia.
  - apply orb_true_iff. right. apply N.eqb_eq. exact H2.
Qed.

Lemma compute_num_bits_fits n : n < 2 ^ 64 -> n < 2 ^ compute_num_bits n.
Proof.
  intros H. destruct num_bits_rule_sound_holds as [H1 H2].
  destruct width_rule_sound_holds as (_ & H3 & _).
  unfold compute_num_bits. destruct (N.size n <=? COMPUTE_NUM_BITS_NARROW_MAX).
  - apply N.size_gt.
  - rewrite H2, H3. exact H.
Qed.

Lemma compute_num_bits_mono a b : a <= b -> b < 2 ^ 64 -> a < 2 ^ compute_num_bits b.
Proof. intros Hab Hb. eapply N.le_lt_trans; [exact Hab|apply compute_num_bits_fits, Hb]. Qed.
