(* Exactness of the block-wise linear codec (model in Blockwise.v).  Style: stdlib. *)
From TV Require Import Base.Prelude Generated.Constants Columnar.BitPack Columnar.Stats Columnar.Line Columnar.Blockwise.
Local Open Scope N_scope.

(* the pinned block size keeps the shared bit packer byte- (indeed word-) aligned at block boundaries *)
Definition blockwise_rule : Prop := BLOCKWISE_BLOCK_SIZE mod 64 = 0 /\ 0 < BLOCKWISE_BLOCK_SIZE.
Lemma blockwise_rule_holds : blockwise_rule.
Proof. vm_compute. split; reflexivity. Qed.

Lemma BS_pos : (0 < BS)%nat.
Proof. destruct blockwise_rule_holds as [_ H]. unfold BS. lia. Qed.
Lemma BS_N : N.of_nat BS = BLOCKWISE_BLOCK_SIZE.
Proof. unfold BS. apply N2Nat.id. Qed.

(* ---------------------------------------------------------------- list helpers *)
Lemma nth_firstn_lt {A} (l : list A) n i d : (i < n)%nat -> nth i (firstn n l) d = nth i l d.
Proof.
  revert n i; induction l as [|a l IH]; intros n i Hi; [destruct n, i; reflexivity|].
  destruct n as [|n]; [lia|]. destruct i as [|i]; [reflexivity|]. cbn [firstn nth]. apply IH. lia.
Qed.
Lemma nth_skipn_add {A} (l : list A) n i d : nth i (skipn n l) d = nth (n + i) l d.
Proof.
  revert l; induction n as [|n IH]; intros l; [reflexivity|].
  destruct l as [|a l]; [destruct i; reflexivity|]. cbn [skipn]. rewrite IH. reflexivity.
Qed.
Lemma skipn_skipn_add {A} (l : list A) a b : skipn a (skipn b l) = skipn (b + a) l.
Proof.
  revert l; induction b as [|b IH]; intros l; [reflexivity|].
  destruct l as [|x l]; [destruct a; reflexivity|]. cbn [skipn Nat.add]. apply IH.
Qed.
Lemma skipn_concat_firstn {A} (l : list (list A)) k :
  skipn (length (concat (firstn k l))) (concat l) = concat (skipn k l).
Proof.
  revert l; induction k as [|k IH]; intros l; [reflexivity|].
  destruct l as [|a l]; [reflexivity|]. cbn [firstn concat skipn]. rewrite app_length, skipn_app.
  rewrite skipn_all2 by lia. replace (length a + length (concat (firstn k l)) - length a)%nat with (length (concat (firstn k l))) by lia.
  cbn [app]. apply IH.
Qed.

(* ---------------------------------------------------------------- one write *)
Lemma packer_write_ok p v w : w <= 64 -> packer_ok p -> v < 2 ^ w ->
  packer_ok (fst (packer_write p v w)) /\
  mini_buffer_written (fst (packer_write p v w)) = (mini_buffer_written p + w) mod 64.
Proof.
  intros Hw [Hwr Hmb] Hv. destruct p as [mb wr]. cbn [mini_buffer mini_buffer_written] in *.
  unfold packer_write. cbn [mini_buffer mini_buffer_written].
  destruct (64 <? wr + w) eqn:E.
  - apply N.ltb_lt in E. cbn [fst]. unfold packer_ok. cbn [mini_buffer mini_buffer_written].
    rewrite (N.mod_small (64 - wr) 64) by lia. split; [split; [lia|]|].
    + rewrite N.shiftr_div_pow2. apply N.div_lt_upper_bound; [apply pow2_nz|].
      rewrite <- N.pow_add_r. replace (64 - wr + (wr + w - 64)) with w by lia. exact Hv.
    + apply N.mod_unique with (q := 1); lia.
  - apply N.ltb_ge in E.
    assert (Hnowrap : wrap64 (N.shiftl v wr) = N.shiftl v wr).
    { apply wrap64_small. rewrite N.shiftl_mul_pow2.
      apply N.lt_le_trans with (m := 2 ^ (wr + w)); [rewrite N.pow_add_r; pose proof (pow2_pos wr); nia|].
      apply N.pow_le_mono_r; [discriminate|exact E]. }
    destruct (wr + w =? 64) eqn:E2; cbn [fst]; unfold packer_ok; cbn [mini_buffer mini_buffer_written].
    + apply N.eqb_eq in E2. rewrite E2. split; [split; [lia|rewrite N.pow_0_r; lia]|reflexivity].
    + apply N.eqb_neq in E2. rewrite Hnowrap, lor_disjoint_add by exact Hmb.
      split; [split; [lia|]|rewrite N.mod_small by lia; reflexivity].
      rewrite N.pow_add_r. pose proof (pow2_pos wr). nia.
Qed.

(* ---------------------------------------------------------------- a run of writes *)
Lemma write_all_pack vals : forall p w,
  pack_from p w vals = snd (write_all p w vals) ++ packer_flush (fst (write_all p w vals)).
Proof.
  induction vals as [|v r IH]; intros p w; cbn [pack_from write_all]; [reflexivity|].
  destruct (packer_write p v w) as [p' out]. rewrite IH.
  destruct (write_all p' w r) as [p'' out']. cbn [fst snd]. rewrite app_assoc. reflexivity.
Qed.

Lemma write_all_ok w : w <= 64 -> forall vals p, packer_ok p -> all_below w vals ->
  packer_ok (fst (write_all p w vals)) /\
  mini_buffer_written (fst (write_all p w vals)) = (mini_buffer_written p + w * N.of_nat (length vals)) mod 64.
Proof.
  intros Hw. induction vals as [|v r IH]; intros p Hok Hb; cbn [write_all].
  - cbn [fst length]. change (N.of_nat 0) with 0. rewrite N.mul_0_r, N.add_0_r.
    split; [exact Hok|]. destruct Hok as [H _]. rewrite N.mod_small by exact H. reflexivity.
  - inversion Hb as [|? ? Hv Hr]; subst.
    destruct (packer_write_ok p v w Hw Hok Hv) as [Hok' Hwr'].
    destruct (packer_write p v w) as [p' out]. cbn [fst] in Hok', Hwr'.
    destruct (IH p' Hok' Hr) as [Hok'' Hwr''].
    destruct (write_all p' w r) as [p'' out']. cbn [fst] in *. split; [exact Hok''|].
    rewrite Hwr'', Hwr'. cbn [length]. rewrite Nat2N.inj_succ.
    rewrite N.add_mod_idemp_l by discriminate. f_equal. lia.
Qed.

(* a run whose total bit length is a multiple of 64 leaves a fresh packer behind: its bytes are `pack` *)
Lemma write_all_aligned w vals : w <= 64 -> all_below w vals -> (w * N.of_nat (length vals)) mod 64 = 0 ->
  write_all packer_new w vals = (packer_new, pack w vals).
Proof.
  intros Hw Hb Hal. pose proof (write_all_ok w Hw vals packer_new packer_new_ok Hb) as [[Hlt Hmb] Hwr].
  unfold pack. rewrite (write_all_pack vals packer_new w).
  destruct (write_all packer_new w vals) as [[mb wr] out]. cbn [fst snd mini_buffer mini_buffer_written packer_new] in *.
  rewrite N.add_0_l, Hal in Hwr. subst wr. rewrite N.pow_0_r in Hmb. assert (mb = 0) by lia. subst mb.
  unfold packer_new, packer_flush. cbn [mini_buffer_written]. cbn. rewrite app_nil_r. reflexivity.
Qed.

(* ---------------------------------------------------------------- blocks *)
Definition block_ok (b : N * list N) : Prop := fst b <= 64 /\ all_below (fst b) (snd b).
Definition block_full (b : N * list N) : Prop := length (snd b) = BS.

Lemma full_block_aligned b : block_full b -> (fst b * N.of_nat (length (snd b))) mod 64 = 0.
Proof.
  intros Hf. unfold block_full in Hf. rewrite Hf, BS_N. destruct blockwise_rule_holds as [H _].
  rewrite N.mul_mod, H, N.mul_0_r by discriminate. reflexivity.
Qed.

(* all blocks but the last are full  ==>  the shared packer's output is the concatenation of per-block packs *)
Fixpoint all_but_last_full (blocks : list (N * list N)) : Prop :=
  match blocks with
  | [] => True
  | [_] => True
  | b :: r => block_full b /\ all_but_last_full r
  end.

Lemma encode_blocks_concat blocks : Forall block_ok blocks -> all_but_last_full blocks ->
  encode_blocks packer_new blocks = concat (map (fun b => pack (fst b) (snd b)) blocks).
Proof.
  induction blocks as [|b r IH]; intros Hok Hfull; [reflexivity|].
  inversion Hok as [|? ? [Hw Hb] Hokr]; subst. destruct b as [bw offs]. cbn [fst snd] in *.
  cbn [encode_blocks map concat].
  destruct r as [|b2 r'].
  - (* last block: flush *)
    cbn [map concat fst snd]. rewrite app_nil_r. unfold pack. rewrite (write_all_pack offs packer_new bw).
    destruct (write_all packer_new bw offs) as [p' out]. reflexivity.
  - destruct Hfull as [Hf Hfr].
    rewrite (write_all_aligned bw offs Hw Hb (full_block_aligned (bw, offs) Hf)).
    f_equal. apply IH; assumption.
Qed.

(* ---------------------------------------------------------------- take_blocks *)
Lemma take_blocks_length nb l : length (take_blocks nb l) = nb.
Proof. revert l; induction nb as [|nb IH]; intros l; cbn [take_blocks length]; [reflexivity|now rewrite IH]. Qed.

Lemma take_blocks_nth nb : forall l k, (k < nb)%nat -> nth k (take_blocks nb l) [] = firstn BS (skipn (k * BS) l).
Proof.
  induction nb as [|nb IH]; intros l k Hk; [lia|]. destruct k as [|k]; cbn [take_blocks nth]; [reflexivity|].
  rewrite IH by lia. rewrite skipn_skipn_add. replace (BS + k * BS)%nat with (S k * BS)%nat by lia. reflexivity.
Qed.

Lemma take_blocks_full nb : forall l, ((nb - 1) * BS <= length l)%nat ->
  forall k, (S k < nb)%nat -> length (nth k (take_blocks nb l) []) = BS.
Proof.
  intros l Hlen k Hk. rewrite take_blocks_nth by lia. rewrite firstn_length, skipn_length.
  assert ((k + 1) * BS <= (nb - 1) * BS)%nat by (apply Nat.mul_le_mono_r; lia). lia.
Qed.

(* the generic shape: blocks = map g (take_blocks ...) with g preserving lengths *)
Lemma all_but_last_full_map (g : list N -> N * list N) (bl : list (list N)) :
  (forall b, length (snd (g b)) = length b) ->
  (forall k, (S k < length bl)%nat -> length (nth k bl []) = BS) ->
  all_but_last_full (map g bl).
Proof.
  intros Hg. induction bl as [|b r IH]; intros Hfull; [exact I|].
  destruct r as [|b2 r']; [exact I|]. cbn [map all_but_last_full]. split.
  - unfold block_full. rewrite Hg. apply (Hfull 0%nat). cbn. lia.
  - apply IH. intros k Hk. apply (Hfull (S k)). cbn [length] in *. lia.
Qed.

(* ---------------------------------------------------------------- window inside a prefix *)
Lemma unpacker_get_prefix w i A R : valid_width w = true -> wf_bytes A = true -> wf_bytes R = true ->
  (i + 1) * w <= 8 * N.of_nat (length A) ->
  unpacker_get w i (A ++ R) = unpacker_get w i A.
Proof.
  intros Hvw HA HR Hin.
  assert (Hdiv : i * w / 8 <= N.of_nat (length A)).
  { apply N.div_le_upper_bound; [discriminate|]. lia. }
  rewrite !unpacker_get_window; try assumption.
  - f_equal. rewrite le_value_app, pow256.
    set (m := 8 * N.of_nat (length A)). set (k := i * w).
    assert (Hkm : k + w <= m) by (unfold k, m; lia).
    replace m with (k + (m - k)) by lia. rewrite N.pow_add_r, <- N.mul_assoc.
    rewrite (N.mul_comm (2 ^ k)), N.div_add by apply pow2_nz.
    replace (m - k) with (w + (m - k - w)) by lia. rewrite N.pow_add_r.
    rewrite <- N.mul_assoc, (N.mul_comm (2 ^ w)), N.mod_add by apply pow2_nz. reflexivity.
  - right. exact Hdiv.
  - rewrite wf_bytes_app, HA, HR. reflexivity.
  - right. rewrite app_length, Nat2N.inj_add. lia.
Qed.

Lemma wf_concat_packs (bl : list (N * list N)) : wf_bytes (concat (map (fun b => pack (fst b) (snd b)) bl)) = true.
Proof.
  induction bl as [|b r IH]; [reflexivity|]. cbn [map concat]. rewrite wf_bytes_app, wf_pack, IH. reflexivity.
Qed.

Lemma wf_concat_map_pack {A} (g : A -> N * list N) (l : list A) :
  wf_bytes (concat (map (fun b => pack (fst (g b)) (snd (g b))) l)) = true.
Proof.
  induction l as [|b r IH]; [reflexivity|]. cbn [map concat]. rewrite wf_bytes_app, wf_pack, IH. reflexivity.
Qed.

(* ---------------------------------------------------------------- widths *)
Lemma fold_max_valid l : forall init, valid_width init = true -> Forall (fun w => valid_width w = true) l ->
  valid_width (fold_left N.max l init) = true.
Proof.
  induction l as [|w r IH]; intros init Hi Hl; cbn [fold_left]; [exact Hi|].
  inversion Hl; subst. apply IH; [|assumption].
  destruct (N.max_spec init w) as [[_ ->]|[_ ->]]; assumption.
Qed.

Lemma block_width_valid buffer : valid_width (block_width buffer) = true.
Proof.
  unfold block_width. apply fold_max_valid; [vm_compute; reflexivity|].
  apply Forall_map, Forall_forall. intros o _. apply compute_num_bits_valid.
Qed.

Lemma block_offsets_below buffer : all_below (block_width buffer) (block_offsets buffer).
Proof.
  unfold all_below. apply Forall_forall. intros o Ho.
  assert (Ho64 : o < 2 ^ 64).
  { unfold block_offsets in Ho. apply in_map_iff in Ho as (pv & <- & _). apply wsub_lt. }
  eapply N.lt_le_trans; [apply compute_num_bits_fits, Ho64|].
  apply N.pow_le_mono_r; [discriminate|]. unfold block_width.
  assert (Hin : In (compute_num_bits o) (map compute_num_bits (block_offsets buffer))) by (apply in_map, Ho).
  pose proof (proj1 (Forall_forall _ _) (proj2 (fold_max_ge (map compute_num_bits (block_offsets buffer)) 0)) _ Hin). exact H.
Qed.

Lemma block_offsets_length buffer : length (block_offsets buffer) = length buffer.
Proof. unfold block_offsets. rewrite map_length, enumerate_from_length. reflexivity. Qed.

Lemma valid_width_le64 w : valid_width w = true -> w <= 64.
Proof. intros H. exact (proj1 (valid_width_fits w 0 H)). Qed.

(* ---------------------------------------------------------------- the theorem *)
Section BlockwiseProofs.
  Variable fdiv : N -> N -> N.
  Hypothesis fdiv_spec : forall d x, d <> 0 -> x < 2 ^ 64 -> fdiv d x = x / d.

  Definition enc (b : list N) : N * list N := (block_width b, block_offsets b).

  Lemma block_start_sum (buffers : list (list N)) k : (k < length buffers)%nat ->
    (forall j, (S j < length buffers)%nat -> length (nth j buffers []) = BS) ->
    block_start (map (fun b => ((slope (block_line b), intercept (block_line b)), block_width b)) buffers) k =
    N.of_nat (length (concat (firstn k (map (fun b => pack (fst (enc b)) (snd (enc b))) buffers)))).
  Proof.
    revert buffers; induction k as [|k IH]; intros buffers Hk Hfull; [destruct buffers; reflexivity|].
    destruct buffers as [|b r]; [cbn in Hk; lia|].
    cbn [map block_start snd firstn concat]. rewrite app_length, Nat2N.inj_add.
    rewrite IH.
    - f_equal. unfold enc. cbn [fst snd].
      rewrite pack_length by (apply valid_width_le64, block_width_valid).
      rewrite block_offsets_length.
      assert (Hb0 : length b = BS) by (apply (Hfull 0%nat); cbn [length] in *; lia). rewrite Hb0, BS_N.
      destruct blockwise_rule_holds as [H64 _].
      assert (H8 : BLOCKWISE_BLOCK_SIZE mod 8 = 0).
      { pose proof (N.div_mod BLOCKWISE_BLOCK_SIZE 64 ltac:(discriminate)) as D. rewrite H64, N.add_0_r in D.
        rewrite D. replace (64 * (BLOCKWISE_BLOCK_SIZE / 64)) with ((8 * (BLOCKWISE_BLOCK_SIZE / 64)) * 8) by lia.
        apply N.mod_mul. discriminate. }
      pose proof (N.div_mod BLOCKWISE_BLOCK_SIZE 8 ltac:(discriminate)) as D8. rewrite H8, N.add_0_r in D8.
      set (q := BLOCKWISE_BLOCK_SIZE / 8) in *. rewrite D8.
      replace (block_width b * (8 * q) + 7) with (7 + (block_width b * q) * 8) by lia.
      rewrite N.div_add by discriminate. replace (block_width b * (8 * q)) with ((block_width b * q) * 8) by lia.
      rewrite N.div_mul by discriminate. reflexivity.
    - cbn [length] in Hk. lia.
    - intros j Hj. apply (Hfull (S j)). cbn [length] in *. lia.
  Qed.

  Theorem blockwise_exact vals i : all_u64 vals -> (i < length vals)%nat ->
    blockwise_get (blockwise_serialize fdiv vals) (N.of_nat i) = Some (nth i vals 0).
  Proof.
    intros Hu Hi. pose proof (stats_of_ok fdiv fdiv_spec vals Hu) as Hok.
    destruct blockwise_rule_holds as [H64 HBpos].
    unfold blockwise_serialize, blockwise_get.
    rewrite (stats_wire_roundtrip fdiv fdiv_spec _ _ Hok). set (s := stats_of fdiv vals) in *.
    destruct Hok as [Hrows Hg Hb Hmm Hatt Hd Hdm].
    set (norm := fun v => fdiv (st_gcd s) (v - st_min s)).
    set (nb := num_blocks (st_rows s)).
    set (raw := take_blocks nb vals).
    set (buffers := map (map norm) raw).
    (* number of blocks and the position of row i *)
    set (n := length vals) in *.
    assert (Hnb : (N.of_nat nb = (N.of_nat n + BLOCKWISE_BLOCK_SIZE - 1) / BLOCKWISE_BLOCK_SIZE)).
    { unfold nb, num_blocks. rewrite Hrows, N2Nat.id. reflexivity. }
    set (k := (i / BS)%nat). set (j := (i mod BS)%nat).
    pose proof BS_pos as HBS.
    assert (Hij : i = (k * BS + j)%nat) by (unfold k, j; rewrite (Nat.div_mod i BS) at 1 by lia; lia).
    assert (Hj : (j < BS)%nat) by (unfold j; apply Nat.mod_upper_bound; lia).
    assert (HnbB : (n <= nb * BS)%nat /\ ((nb - 1) * BS < n)%nat).
    { assert (Hq : N.of_nat n <= N.of_nat nb * BLOCKWISE_BLOCK_SIZE /\ (N.of_nat nb - 1) * BLOCKWISE_BLOCK_SIZE < N.of_nat n).
      { rewrite Hnb. set (B := BLOCKWISE_BLOCK_SIZE) in *.
        pose proof (N.div_mod (N.of_nat n + B - 1) B ltac:(lia)) as D.
        pose proof (N.mod_lt (N.of_nat n + B - 1) B ltac:(lia)) as Hm.
        assert (0 < N.of_nat n) by lia. split; nia. }
      rewrite <- BS_N in Hq. destruct Hq as [Hq1 Hq2]. split; [nia|].
      destruct nb as [|nb']; [lia|]. replace (S nb' - 1)%nat with nb' by lia.
      replace (N.of_nat (S nb') - 1) with (N.of_nat nb') in Hq2 by lia. nia. }
    destruct HnbB as [Hn1 Hn2].
    assert (Hk : (k < nb)%nat).
    { destruct (Nat.lt_ge_cases k nb) as [H|H]; [exact H|].
      assert (nb * BS <= k * BS)%nat by (apply Nat.mul_le_mono_r; exact H). lia. }
    (* the blocks *)
    assert (Hraw_len : length raw = nb) by apply take_blocks_length.
    assert (Hraw_full : forall q, (S q < length raw)%nat -> length (nth q raw []) = BS).
    { intros q Hq. rewrite Hraw_len in Hq. apply take_blocks_full; [lia|exact Hq]. }
    assert (Hbuf_full : forall q, (S q < length buffers)%nat -> length (nth q buffers []) = BS).
    { intros q Hq. unfold buffers in *. rewrite map_length in Hq.
      rewrite (nth_map_in _ _ _ [] []) by lia. rewrite map_length. apply Hraw_full, Hq. }
    assert (Hbuf_len : length buffers = nb) by (unfold buffers; rewrite map_length; exact Hraw_len).
    (* widths are accepted *)
    replace (forallb (fun m => valid_width (snd m)) (map (fun b => (slope (block_line b), intercept (block_line b), block_width b)) buffers)) with true.
    2:{ symmetry. apply forallb_forall. intros m Hm. apply in_map_iff in Hm as (b & <- & _). cbn [snd]. apply block_width_valid. }
    cbn [negb].
    (* block k *)
    replace (N.of_nat i / BLOCKWISE_BLOCK_SIZE) with (N.of_nat k).
    2:{ rewrite <- BS_N. unfold k. rewrite Nat2N.inj_div. reflexivity. }
    replace (N.of_nat i mod BLOCKWISE_BLOCK_SIZE) with (N.of_nat j).
    2:{ rewrite <- BS_N. unfold j. rewrite Nat2N.inj_mod. reflexivity. }
    rewrite Nat2N.id.
    set (bk := nth k buffers []).
    rewrite (nth_error_nth' _ (0, 0, 0)) by (rewrite map_length, Hbuf_len; exact Hk).
    rewrite (nth_map_in _ _ _ _ []) by (rewrite Hbuf_len; exact Hk). fold bk.
    (* data = concatenation of per-block packs; the start offset skips the first k of them *)
    replace (map (fun b => (block_width b, block_offsets b)) buffers) with (map enc buffers) by reflexivity.
    rewrite encode_blocks_concat.
    2:{ apply Forall_map, Forall_forall. intros b _. unfold block_ok, enc. cbn [fst snd].
        split; [apply valid_width_le64, block_width_valid|apply block_offsets_below]. }
    2:{ apply all_but_last_full_map; [intros b; apply block_offsets_length|exact Hbuf_full]. }
    rewrite map_map.
    set (packs := map (fun b => pack (fst (enc b)) (snd (enc b))) buffers).
    rewrite block_start_sum; [|rewrite Hbuf_len; exact Hk|exact Hbuf_full]. fold packs.
    change bytes with (list N) in *.
    assert (Hstart_le : (length (concat (firstn k packs)) <= length (concat packs))%nat).
    { rewrite <- (firstn_skipn k packs) at 2. rewrite concat_app, app_length. lia. }
    replace (N.of_nat (length (concat packs)) <? N.of_nat (length (concat (firstn k packs)))) with false
      by (symmetry; apply N.ltb_ge; lia).
    rewrite Nat2N.id. rewrite (skipn_concat_firstn (A := N) packs k).
    assert (Hpk : (k < length packs)%nat) by (unfold packs; rewrite map_length, Hbuf_len; exact Hk).
    rewrite <- (firstn_skipn 1 (skipn k packs)), concat_app.
    assert (Hhead : concat (firstn 1 (skipn k packs)) = pack (block_width bk) (block_offsets bk)).
    { destruct (skipn k packs) as [|h t] eqn:Esk.
      - apply (f_equal (@length _)) in Esk. rewrite skipn_length in Esk. cbn in Esk. lia.
      - cbn [firstn concat]. rewrite app_nil_r.
        assert (Hh : h = nth 0 (skipn k packs) []) by (rewrite Esk; reflexivity).
        rewrite Hh, nth_skipn_add, Nat.add_0_r. unfold packs.
        rewrite (nth_map_in _ _ _ _ []) by (rewrite Hbuf_len; exact Hk). reflexivity. }
    rewrite Hhead.
    (* the block holds row i at position j *)
    assert (Hbk : bk = map norm (firstn BS (skipn (k * BS) vals))).
    { unfold bk, buffers. rewrite (nth_map_in _ _ _ [] []) by (rewrite Hraw_len; exact Hk).
      unfold raw. rewrite take_blocks_nth by exact Hk. reflexivity. }
    assert (Hjlen : (j < length bk)%nat).
    { rewrite Hbk, map_length, firstn_length, skipn_length. lia. }
    assert (Hnthj : nth j bk 0 = norm (nth i vals 0)).
    { rewrite Hbk. rewrite (nth_map_in _ _ _ 0 0) by (rewrite firstn_length, skipn_length; lia).
      rewrite nth_firstn_lt by exact Hj. rewrite nth_skipn_add. rewrite <- Hij. reflexivity. }
    rewrite unpacker_get_prefix.
    - rewrite bitpack_roundtrip; [|apply block_width_valid|apply block_offsets_below|rewrite block_offsets_length; exact Hjlen].
      unfold block_offsets.
      rewrite (nth_map_in _ _ _ 0 (0, 0)) by (rewrite enumerate_from_length; exact Hjlen).
      rewrite enumerate_from_nth by exact Hjlen. cbn [fst snd]. rewrite N.add_0_l.
      f_equal. destruct (block_line bk) as [sl ic] eqn:El. cbn [slope intercept].
      pose proof (proj1 (Forall_forall _ _) Hb _ (nth_In vals 0 Hi)) as Hvb. cbn in Hvb.
      pose proof (proj1 (Forall_forall _ _) Hd _ (nth_In vals 0 Hi)) as [c Hc].
      pose proof (all_u64_nth vals i Hu) as Hv64.
      assert (Hnorm : norm (nth i vals 0) = c).
      { unfold norm. rewrite fdiv_spec by (try exact Hg; lia). rewrite Hc. apply N.div_mul, Hg. }
      assert (Hc64 : c < 2 ^ 64). { destruct (st_gcd s) eqn:Eg; [contradiction|]. nia. }
      rewrite wadd_wsub by (rewrite Hnthj, Hnorm; exact Hc64).
      rewrite Hnthj, Hnorm. unfold wmul. rewrite N.mod_small by (rewrite N.mul_comm, <- Hc; lia). lia.
    - apply block_width_valid.
    - apply wf_pack.
    - unfold packs. rewrite !skipn_map. apply wf_concat_map_pack.
    - rewrite pack_length by (apply valid_width_le64, block_width_valid).
      rewrite block_offsets_length.
      pose proof (N.div_mod (block_width bk * N.of_nat (length bk) + 7) 8 ltac:(discriminate)) as D.
      pose proof (N.mod_lt (block_width bk * N.of_nat (length bk) + 7) 8 ltac:(discriminate)) as Hm.
      nia.
  Qed.
  Theorem blockwise_stats vals : all_u64 vals ->
    Forall (fun v => blockwise_min (blockwise_serialize fdiv vals) <= v <= blockwise_max (blockwise_serialize fdiv vals)) vals /\
    blockwise_num_vals (blockwise_serialize fdiv vals) = N.of_nat (length vals).
  Proof.
    intros Hu. pose proof (stats_of_ok fdiv fdiv_spec vals Hu) as Hok.
    unfold blockwise_min, blockwise_max, blockwise_num_vals, blockwise_serialize.
    rewrite (stats_wire_roundtrip fdiv fdiv_spec _ _ Hok). destruct Hok. tauto.
  Qed.
End BlockwiseProofs.
