(* Block-wise linear column codec:
   /repo/columnar/src/column_values/u64_based/blockwise_linear.rs (BlockwiseLinearEstimator::serialize,
   BlockwiseLinearCodec::load, BlockwiseLinearReader::get_val).  One BitPacker runs across all blocks
   (widths change at block boundaries); the reader recomputes each block's byte offset.  Style: stdlib. *)
From TV Require Import Base.Prelude Generated.Constants Columnar.BitPack Columnar.Stats Columnar.Line.
Local Open Scope N_scope.

Definition BS : nat := N.to_nat BLOCKWISE_BLOCK_SIZE.

(* BitPacker::write for a run of values of one width, without flushing *)
Fixpoint write_all (p : packer) (w : N) (vals : list N) : packer * bytes :=
  match vals with
  | [] => (p, [])
  | v :: r => let '(p', out) := packer_write p v w in
              let '(p'', out') := write_all p' w r in (p'', out ++ out')
  end.

(* `for _ in 0..num_blocks { buffer.extend(vals.take(BLOCK_SIZE)) ... }` *)
Fixpoint take_blocks (nblocks : nat) (l : list N) : list (list N) :=
  match nblocks with
  | O => []
  | S n => firstn BS l :: take_blocks n (skipn BS l)
  end.

Definition num_blocks (num_rows : N) : nat := N.to_nat ((num_rows + BLOCKWISE_BLOCK_SIZE - 1) / BLOCKWISE_BLOCK_SIZE).  (* div_ceil *)

(* one block: line trained on the normalised values, offsets from the line, width = max of compute_num_bits *)
Definition block_line (buffer : list N) : line := line_train buffer.
Definition block_offsets (buffer : list N) : list N :=
  let l := block_line buffer in
  map (fun pv => wsub (snd pv) (line_eval l (fst pv))) (enumerate_from 0 buffer).
Definition block_width (buffer : list N) : N :=
  fold_left N.max (map compute_num_bits (block_offsets buffer)) 0.

Fixpoint encode_blocks (p : packer) (blocks : list (N * list N)) : bytes :=
  match blocks with
  | [] => packer_flush p                                  (* bit_packer.close *)
  | (bw, offs) :: r => let '(p', out) := write_all p bw offs in out ++ encode_blocks p' r
  end.

(* serialized column: stats on the wire, per block (line, width), data bytes (footer framing not modelled) *)
Definition blockwise_column : Type := (N * N * N * N) * list ((N * N) * N) * bytes.

Section Blockwise.
  Variable fdiv : N -> N -> N.

  Definition blockwise_serialize (vals : list N) : blockwise_column :=
    let s := stats_of fdiv vals in
    let buffers := map (map (fun v => fdiv (st_gcd s) (v - st_min s))) (take_blocks (num_blocks (st_rows s)) vals) in
    let metas := map (fun b => ((slope (block_line b), intercept (block_line b)), block_width b)) buffers in
    let data := encode_blocks packer_new (map (fun b => (block_width b, block_offsets b)) buffers) in
    (stats_wire s, metas, data).
End Blockwise.

(* start offsets computed by `load`: start += bit_width * BLOCK_SIZE / 8 *)
Fixpoint block_start (metas : list ((N * N) * N)) (block_id : nat) : N :=
  match block_id, metas with
  | O, _ => 0
  | S k, m :: r => snd m * BLOCKWISE_BLOCK_SIZE / 8 + block_start r k
  | S _, [] => 0
  end.

(* BlockwiseLinearReader::get_val; None = a panic (block index / slice out of range, rejected width) *)
Definition blockwise_get (col : blockwise_column) (idx : N) : option N :=
  let '(w, metas, data) := col in
  let s := stats_unwire w in
  if negb (forallb (fun m => valid_width (snd m)) metas) then None     (* BitUnpacker::new in Block::deserialize *)
  else
    let block_id := N.to_nat (idx / BLOCKWISE_BLOCK_SIZE) in
    let idx_within_block := idx mod BLOCKWISE_BLOCK_SIZE in
    match nth_error metas block_id with
    | None => None
    | Some ((sl, ic), bw) =>
      let start := block_start metas block_id in
      if N.of_nat (length data) <? start then None
      else
        let block_bytes := skipn (N.to_nat start) data in
        match unpacker_get bw idx_within_block block_bytes with
        | None => None
        | Some diff =>
          let interpoled := line_eval {| slope := sl; intercept := ic |} idx_within_block in
          Some (st_min s + wmul (st_gcd s) (wadd interpoled diff))
        end
    end.
Definition blockwise_min (col : blockwise_column) : N := let '(w, _, _) := col in st_min (stats_unwire w).
Definition blockwise_max (col : blockwise_column) : N := let '(w, _, _) := col in st_max (stats_unwire w).
Definition blockwise_num_vals (col : blockwise_column) : N := let '(w, _, _) := col in st_rows (stats_unwire w).
