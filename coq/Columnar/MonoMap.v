(* Monotonic mappings to u64: /repo/common/src/lib.rs (i64_to_u64, u64_to_i64, f64_to_u64, u64_to_f64)
   and /repo/columnar/src/column_values/monotonic_mapping.rs (impls for u64, i64, DateTime, bool, f64).
   An i64 is a Z in [-2^63, 2^63); an f64 is its bit pattern (an N below 2^64).  Style: stdlib. *)
From TV Require Import Base.Prelude Generated.Constants Columnar.BitPack.
Local Open Scope N_scope.

Definition HIGHEST_BIT : N := N.shiftl 1 63.          (* const HIGHEST_BIT: u64 = 1 << 63 *)

(* ---------------------------------------------------------------- bit facts *)
Lemma land_low_highbit x : x < 2 ^ 63 -> N.land x (2 ^ 63) = 0.
Proof.
  intros Hx. apply N.bits_inj_0. intros n. rewrite N.land_spec, N.pow2_bits_eqb.
  destruct (N.eqb_spec 63 n) as [<-|Hn]; [|apply andb_false_r].
  destruct (N.eq_dec x 0) as [->|Hnz]; [rewrite N.bits_0; reflexivity|].
  rewrite N.bits_above_log2; [reflexivity|]. apply N.log2_lt_pow2; lia.
Qed.

Lemma lxor_highbit_low x : x < 2 ^ 63 -> N.lxor x (2 ^ 63) = x + 2 ^ 63.
Proof. intros Hx. symmetry. apply N.add_nocarry_lxor, land_low_highbit, Hx. Qed.

Lemma lxor_highbit_high x : 2 ^ 63 <= x -> x < 2 ^ 64 -> N.lxor x (2 ^ 63) = x - 2 ^ 63.
Proof.
  intros Hlo Hhi. set (y := x - 2 ^ 63). assert (Hy : y < 2 ^ 63) by (unfold y; lia).
  replace x with (N.lxor y (2 ^ 63)) by (rewrite lxor_highbit_low by exact Hy; unfold y; lia).
  rewrite N.lxor_assoc, N.lxor_nilpotent, N.lxor_0_r. reflexivity.
Qed.

Lemma lxor_highbit x : x < 2 ^ 64 ->
  N.lxor x HIGHEST_BIT = if x <? 2 ^ 63 then x + 2 ^ 63 else x - 2 ^ 63.
Proof.
  intros Hx. change HIGHEST_BIT with (2 ^ 63). destruct (x <? 2 ^ 63) eqn:E.
  - apply lxor_highbit_low, N.ltb_lt, E.
  - apply lxor_highbit_high; [apply N.ltb_ge, E|exact Hx].
Qed.

Lemma land_highbit_test x : x < 2 ^ 64 -> (N.land x HIGHEST_BIT =? 0) = (x <? 2 ^ 63).
Proof.
  intros Hx. change HIGHEST_BIT with (2 ^ 63). destruct (x <? 2 ^ 63) eqn:E.
  - apply N.ltb_lt in E. rewrite land_low_highbit by exact E. reflexivity.
  - apply N.ltb_ge in E. apply N.eqb_neq. intros H0.
    assert (Hb : N.testbit (N.land x (2 ^ 63)) 63 = true).
    { rewrite N.land_spec, N.pow2_bits_true, andb_true_r.
      set (y := x - 2 ^ 63). assert (Hy : y < 2 ^ 63) by (unfold y; lia).
      replace x with (N.lxor y (2 ^ 63)) by (rewrite lxor_highbit_low by exact Hy; unfold y; lia).
      rewrite N.lxor_spec, N.pow2_bits_true.
      destruct (N.eq_dec y 0) as [->|Hnz]; [rewrite N.bits_0; reflexivity|].
      rewrite N.bits_above_log2; [reflexivity|]. apply N.log2_lt_pow2; lia. }
    rewrite H0, N.bits_0 in Hb. discriminate.
Qed.

Lemma lnot64 x : x < 2 ^ 64 -> N.lnot x 64 = 2 ^ 64 - 1 - x.
Proof.
  intros Hx. destruct (N.eq_dec x 0) as [->|Hnz]; [reflexivity|].
  rewrite N.lnot_sub_low by (apply N.log2_lt_pow2; lia). rewrite N.ones_equiv. lia.
Qed.

(* ---------------------------------------------------------------- u64, bool *)
Definition u64_to_u64 (v : N) : N := v.
Definition bool_to_u64 (b : bool) : N := if b then 1 else 0.   (* u64::from(self) *)
Definition u64_to_bool (v : N) : bool := 0 <? v.               (* val > 0 *)

Lemma bool_roundtrip b : u64_to_bool (bool_to_u64 b) = b.
Proof. destruct b; reflexivity. Qed.
Lemma bool_monotone a b : (a = false /\ b = true) <-> bool_to_u64 a < bool_to_u64 b.
Proof. destruct a, b; cbn; split; try lia; try tauto; intros [? ?]; discriminate. Qed.

(* ---------------------------------------------------------------- i64 (also DateTime: nanosecond timestamp) *)
Definition is_i64 (z : Z) : Prop := (- 2 ^ 63 <= z < 2 ^ 63)%Z.
Definition i64_as_u64 (z : Z) : N := Z.to_N (z mod 2 ^ 64).                           (* val as u64 *)
Definition u64_as_i64 (x : N) : Z := if x <? 2 ^ 63 then Z.of_N x else (Z.of_N x - 2 ^ 64)%Z. (* val as i64 *)

Definition i64_to_u64 (z : Z) : N := N.lxor (i64_as_u64 z) HIGHEST_BIT.
Definition u64_to_i64 (v : N) : Z := u64_as_i64 (N.lxor v HIGHEST_BIT).

Lemma i64_as_u64_lt z : i64_as_u64 z < 2 ^ 64.
Proof. unfold i64_as_u64. pose proof (Z.mod_pos_bound z (2 ^ 64) ltac:(lia)). lia. Qed.

(* arithmetic characterisation: the mapping is the translation by 2^63 *)
Lemma i64_to_u64_shift z : is_i64 z -> Z.of_N (i64_to_u64 z) = (z + 2 ^ 63)%Z.
Proof.
  intros [Hlo Hhi]. unfold i64_to_u64. rewrite lxor_highbit by apply i64_as_u64_lt.
  unfold i64_as_u64. destruct (Z_lt_le_dec z 0) as [Hn|Hp].
  - replace (z mod 2 ^ 64)%Z with (z + 2 ^ 64)%Z
      by (apply Z.mod_unique with (q := (-1)%Z); lia).
    destruct (_ <? _) eqn:E; [apply N.ltb_lt in E|apply N.ltb_ge in E]; lia.
  - rewrite Z.mod_small by lia.
    destruct (_ <? _) eqn:E; [apply N.ltb_lt in E|apply N.ltb_ge in E]; lia.
Qed.

Lemma i64_to_u64_lt z : i64_to_u64 z < 2 ^ 64.
Proof.
  unfold i64_to_u64. rewrite lxor_highbit by apply i64_as_u64_lt.
  pose proof (i64_as_u64_lt z). destruct (_ <? _) eqn:E; [apply N.ltb_lt in E|apply N.ltb_ge in E]; lia.
Qed.

Lemma u64_to_i64_shift v : v < 2 ^ 64 -> u64_to_i64 v = (Z.of_N v - 2 ^ 63)%Z.
Proof.
  intros Hv. unfold u64_to_i64, u64_as_i64. rewrite lxor_highbit by exact Hv.
  destruct (v <? 2 ^ 63) eqn:E; [apply N.ltb_lt in E|apply N.ltb_ge in E];
    destruct (_ <? 2 ^ 63) eqn:E2; try apply N.ltb_lt in E2; try apply N.ltb_ge in E2; lia.
Qed.

Theorem i64_roundtrip z : is_i64 z -> u64_to_i64 (i64_to_u64 z) = z.
Proof. intros Hz. rewrite u64_to_i64_shift by apply i64_to_u64_lt. rewrite i64_to_u64_shift by exact Hz. lia. Qed.

Theorem u64_i64_roundtrip v : v < 2 ^ 64 -> is_i64 (u64_to_i64 v) /\ i64_to_u64 (u64_to_i64 v) = v.
Proof.
  intros Hv. assert (Hr : is_i64 (u64_to_i64 v)) by (rewrite u64_to_i64_shift by exact Hv; unfold is_i64; lia).
  split; [exact Hr|]. apply N2Z.inj. rewrite i64_to_u64_shift by exact Hr. rewrite u64_to_i64_shift by exact Hv. lia.
Qed.

Theorem i64_strictly_monotone a b : is_i64 a -> is_i64 b -> ((a < b)%Z <-> i64_to_u64 a < i64_to_u64 b).
Proof.
  intros Ha Hb. pose proof (i64_to_u64_shift a Ha). pose proof (i64_to_u64_shift b Hb). lia.
Qed.

(* ---------------------------------------------------------------- f64 on bit patterns *)
(* sign bit = bit 63; magnitude = low 63 bits (exponent | mantissa).  For non-NaN values IEEE-754
   order is the order of  key := (-1)^sign * magnitude  (with -0.0 = +0.0 both at key 0). *)
Definition f64_sign_positive (bits : N) : bool := bits <? 2 ^ 63.       (* is_sign_positive *)
Definition f64_magnitude (bits : N) : N := bits mod 2 ^ 63.
Definition f64_key (bits : N) : Z :=
  if f64_sign_positive bits then Z.of_N (f64_magnitude bits) else (- Z.of_N (f64_magnitude bits))%Z.
Definition f64_exp_all_ones : N := 2047 * 2 ^ 52.                         (* magnitude of +-inf *)
Definition f64_is_nan (bits : N) : bool := f64_exp_all_ones <? f64_magnitude bits.

Definition f64_to_u64 (bits : N) : N :=
  if f64_sign_positive bits then N.lxor bits HIGHEST_BIT else N.lnot bits 64.   (* !bits *)
Definition u64_to_f64 (v : N) : N :=
  if negb (N.land v HIGHEST_BIT =? 0) then N.lxor v HIGHEST_BIT else N.lnot v 64.

Lemma f64_to_u64_arith bits : bits < 2 ^ 64 ->
  f64_to_u64 bits = if bits <? 2 ^ 63 then bits + 2 ^ 63 else 2 ^ 64 - 1 - bits.
Proof.
  intros Hb. unfold f64_to_u64, f64_sign_positive. destruct (bits <? 2 ^ 63) eqn:E.
  - rewrite lxor_highbit, E by exact Hb. reflexivity.
  - apply lnot64, Hb.
Qed.

Lemma f64_to_u64_key bits : bits < 2 ^ 64 ->
  Z.of_N (f64_to_u64 bits) = (if f64_sign_positive bits then 2 ^ 63 + f64_key bits else 2 ^ 63 - 1 + f64_key bits)%Z.
Proof.
  intros Hb. rewrite f64_to_u64_arith by exact Hb. unfold f64_key, f64_sign_positive, f64_magnitude.
  destruct (bits <? 2 ^ 63) eqn:E; [apply N.ltb_lt in E|apply N.ltb_ge in E].
  - rewrite N.mod_small by exact E. lia.
  - replace (bits mod 2 ^ 63) with (bits - 2 ^ 63); [lia|].
    apply N.mod_unique with (q := 1); lia.
Qed.

Lemma f64_to_u64_lt bits : bits < 2 ^ 64 -> f64_to_u64 bits < 2 ^ 64.
Proof.
  intros Hb. rewrite f64_to_u64_arith by exact Hb.
  destruct (bits <? 2 ^ 63) eqn:E; [apply N.ltb_lt in E|apply N.ltb_ge in E]; lia.
Qed.

Theorem f64_roundtrip bits : bits < 2 ^ 64 -> u64_to_f64 (f64_to_u64 bits) = bits.
Proof.
  intros Hb. pose proof (f64_to_u64_lt bits Hb) as Hlt. unfold u64_to_f64.
  rewrite land_highbit_test by exact Hlt. rewrite f64_to_u64_arith in * by exact Hb.
  destruct (bits <? 2 ^ 63) eqn:E; [apply N.ltb_lt in E|apply N.ltb_ge in E].
  - replace (bits + 2 ^ 63 <? 2 ^ 63) with false by (symmetry; apply N.ltb_ge; lia). cbn [negb].
    rewrite lxor_highbit by exact Hlt.
    replace (bits + 2 ^ 63 <? 2 ^ 63) with false by (symmetry; apply N.ltb_ge; lia). lia.
  - replace (2 ^ 64 - 1 - bits <? 2 ^ 63) with true by (symmetry; apply N.ltb_lt; lia). cbn [negb].
    rewrite lnot64 by exact Hlt. lia.
Qed.

Theorem u64_f64_roundtrip v : v < 2 ^ 64 -> u64_to_f64 v < 2 ^ 64 /\ f64_to_u64 (u64_to_f64 v) = v.
Proof.
  intros Hv. unfold u64_to_f64. rewrite land_highbit_test by exact Hv.
  destruct (v <? 2 ^ 63) eqn:E; [apply N.ltb_lt in E|apply N.ltb_ge in E]; cbn [negb].
  - rewrite lnot64 by exact Hv. split; [lia|]. rewrite f64_to_u64_arith by lia.
    replace (2 ^ 64 - 1 - v <? 2 ^ 63) with false by (symmetry; apply N.ltb_ge; lia). lia.
  - rewrite lxor_highbit by exact Hv.
    replace (v <? 2 ^ 63) with false by (symmetry; apply N.ltb_ge; lia).
    split; [lia|]. rewrite f64_to_u64_arith by lia.
    replace (v - 2 ^ 63 <? 2 ^ 63) with true by (symmetry; apply N.ltb_lt; lia). lia.
Qed.

(* strict monotonicity w.r.t. the numeric order (key), and the only collapse of the numeric order,
   -0.0 = +0.0, is resolved as -0.0 < +0.0 *)
Theorem f64_strictly_monotone a b : a < 2 ^ 64 -> b < 2 ^ 64 ->
  ((f64_key a < f64_key b)%Z -> f64_to_u64 a < f64_to_u64 b) /\
  (f64_to_u64 a < f64_to_u64 b -> (f64_key a <= f64_key b)%Z) /\
  (f64_to_u64 a = f64_to_u64 b -> a = b).
Proof.
  intros Ha Hb. pose proof (f64_to_u64_key a Ha) as Ka. pose proof (f64_to_u64_key b Hb) as Kb.
  assert (Hsa : f64_sign_positive a = true -> (0 <= f64_key a)%Z)
    by (unfold f64_key; intros ->; lia).
  assert (Hsa' : f64_sign_positive a = false -> (f64_key a <= 0)%Z)
    by (unfold f64_key; intros ->; lia).
  assert (Hsb : f64_sign_positive b = true -> (0 <= f64_key b)%Z)
    by (unfold f64_key; intros ->; lia).
  assert (Hsb' : f64_sign_positive b = false -> (f64_key b <= 0)%Z)
    by (unfold f64_key; intros ->; lia).
  repeat split.
  - destruct (f64_sign_positive a), (f64_sign_positive b); lia.
  - destruct (f64_sign_positive a), (f64_sign_positive b); lia.
  - intros E. rewrite <- (f64_roundtrip a Ha), <- (f64_roundtrip b Hb), E. reflexivity.
Qed.

(* with NaN excluded the key is the IEEE order: magnitudes are bounded by +-inf *)
Lemma f64_key_bounds bits : bits < 2 ^ 64 -> f64_is_nan bits = false ->
  (- Z.of_N f64_exp_all_ones <= f64_key bits <= Z.of_N f64_exp_all_ones)%Z.
Proof.
  intros Hb Hn. unfold f64_is_nan in Hn. apply N.ltb_ge in Hn. unfold f64_key.
  destruct (f64_sign_positive bits); lia.
Qed.
