(* Evaluators used by the C08 correspondence cases (harness/src/bin/c08.rs).  Style: stdlib. *)
From TV Require Import Base.Prelude Generated.Constants
  Columnar.BitPack Columnar.MonoMap Columnar.Stats Columnar.Line Columnar.Blockwise Columnar.OptionalIndex Columnar.Spec
  Columnar.OptionalIndexProofs Columnar.MultiValued Columnar.MergeIndex Columnar.LegacyV1 Columnar.DictMerge.
Local Open Scope N_scope.

(* a model reader applied to the implementation's bytes answers `expect` at the indexes `idxs` *)
Definition reads_as (reader : N -> option N) (idxs expect : list N) : bool :=
  list_eqb option_n_eqb (map reader idxs) (map Some expect).

(* the statistics the implementation reports (min, max, number of rows) are the model's *)
Definition stats_tie (vals : list N) (mn mx rows : N) : bool :=
  let s := stats_of udiv vals in
  N.eqb (st_min s) mn && N.eqb (st_max s) mx && N.eqb (st_rows s) rows.

(* the model of the bit-packed range lookup on the implementation's bytes answers `rows` *)
Definition range_reads_as (col : (N * N * N * N) * bytes) (lo hi : N) (r0 r1 : nat) (rows : list nat) : bool :=
  nat_list_eqb (bitpacked_range_rows col lo hi r0 r1) rows.

(* optional index: the model built from the rows answers rank / rank_if_exists / select as the implementation *)
Definition opt_tie (num_rows : N) (rows docs ranks er : list N) (erie : list (option N)) (esel : list N) : bool :=
  let oi := optional_index_build num_rows rows in
  list_eqb option_n_eqb (map (oi_rank oi) docs) (map Some er) &&
  list_eqb option_n_eqb (map (oi_rank_if_exists oi) docs) erie &&
  list_eqb option_n_eqb (map (oi_select oi) ranks) (map Some esel).
(* ... and the implementation's answers satisfy the specification on the row list *)
Definition opt_spec (rows docs ranks er : list N) (erie : list (option N)) (esel : list N) : bool :=
  n_list_eqb (map (spec_rank rows) docs) er &&
  list_eqb option_n_eqb (map (spec_rank_if_exists rows) docs) erie &&
  list_eqb option_n_eqb (map (spec_select rows) ranks) (map Some esel).

(* legacy (v1) multivalued column: the model of Column::get_docids_for_value_range (with the pinned test of
   select_batch_in_place) answers `got` *)
Definition mv1_range_tie (starts values : list N) (lo hi : N) (d0 d1 : nat) (got : list nat) : bool :=
  match mv1_docids_for_value_range mv1_select_excl starts values lo hi d0 d1 with
  | Some l => nat_list_eqb l got
  | None => false
  end.
(* stack merge with legacy inputs: the model of the merged multivalued index (pinned flags), read back, gives the
   rows the implementation's merged column returns.  inputs: (legacy?, kind code 0..3, rows) *)
Definition kind_of_code (k : N) : kind := match k with 0 => KEmpty | 1 => KFull | 2 => KOptional | _ => KMulti end.
Definition v1_stack_tie (inputs : list (bool * N * column)) (impl_rows : column) : bool :=
  let lkcs := map (fun i => (fst (fst i), kind_of_code (snd (fst i)), snd i)) inputs in
  let ins := map si_of lkcs in
  let values := concat (concat (map snd inputs)) in
  let n := N.of_nat (length (concat (map snd inputs))) in
  match si_stack_rows stack_v1_docs_shifted ins 0 with
  | Some docs => column_eqb (read_merged_rows docs (si_start_offsets stack_num_values_skips_empty ins) values n) impl_rows
  | None => false
  end.

(* stack merge of Str / Bytes columns: the model of the dictionary merge gives the implementation's merged dictionary,
   and remapping every input ordinal gives the implementation's merged ordinals (row by row).
   inputs: per segment (its dictionary = sorted distinct terms, its rows of term ordinals) *)
Definition remap_rows (m : list (option nat)) (rows : list (list nat)) : list (list N) :=
  map (map (fun o => match nth o m None with Some x => N.of_nat x | None => 0%N end)) rows.
Definition dict_stack_tie (inputs : list (list term * list (list nat))) (impl_terms : list term) (impl_rows : list (list N)) : bool :=
  let '(merged, maps) := dict_merge (fun _ _ => true) (map fst inputs) in
  list_eqb term_eqb merged impl_terms &&
  column_eqb (concat (map (fun im => remap_rows (snd im) (snd (fst im))) (combine inputs maps))) impl_rows.
