(* Evaluators used by the C08 correspondence cases (harness/src/bin/c08.rs).  Style: stdlib. *)
From TV Require Import Base.Prelude Generated.Constants
  Columnar.BitPack Columnar.MonoMap Columnar.Stats Columnar.Line Columnar.Blockwise Columnar.OptionalIndex Columnar.Spec.
Local Open Scope N_scope.

(* a model reader applied to the implementation's bytes answers `expect` at the indexes `idxs` *)
Definition reads_as (reader : N -> option N) (idxs expect : list N) : bool :=
  list_eqb option_n_eqb (map reader idxs) (map Some expect).

(* the statistics the implementation reports (min, max, number of rows) are the model's *)
Definition stats_tie (vals : list N) (mn mx rows : N) : bool :=
  let s := stats_of udiv vals in
  N.eqb (st_min s) mn && N.eqb (st_max s) mx && N.eqb (st_rows s) rows.

(* the model of the bit-packed range lookup on the implementation's bytes answers `rows` *)
Definition range_reads_as (col : (N * N * N * N) * bytes) (lo hi : N) (r0 r1 : nat) (rows : list nat) : bool :=
  nat_list_eqb (bitpacked_range_rows col lo hi r0 r1) rows.

(* optional index: the model built from the rows answers rank / rank_if_exists / select as the implementation *)
Definition opt_tie (num_rows : N) (rows docs ranks er : list N) (erie : list (option N)) (esel : list N) : bool :=
  let oi := optional_index_build num_rows rows in
  list_eqb option_n_eqb (map (oi_rank oi) docs) (map Some er) &&
  list_eqb option_n_eqb (map (oi_rank_if_exists oi) docs) erie &&
  list_eqb option_n_eqb (map (oi_select oi) ranks) (map Some esel).
(* ... and the implementation's answers satisfy the specification on the row list *)
Definition opt_spec (rows docs ranks er : list N) (erie : list (option N)) (esel : list N) : bool :=
  n_list_eqb (map (spec_rank rows) docs) er &&
  list_eqb option_n_eqb (map (spec_rank_if_exists rows) docs) erie &&
  list_eqb option_n_eqb (map (spec_select rows) ranks) (map Some esel).
