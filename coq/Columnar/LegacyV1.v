(* Columns of the LEGACY columnar format (v1): the multivalued index is one start offset per document.
   /repo/columnar/src/column_index/multivalued_index.rs  MultiValueIndexV1::{range, select_batch_in_place}
   /repo/columnar/src/column_index/mod.rs                docid_range_to_rowids (V1 arm), Column::get_docids_for_value_range
   /repo/columnar/src/column_index/merge/stacked.rs      get_doc_ids_with_values / get_num_values_iterator (V1 arms)
   Three source-level facts are pinned as flags and followed by the model (the theorems re-run on them):
   MV1_SELECT_END_EXCLUSIVE, STACK_V1_DOCS_SHIFTED, STACK_NUM_VALUES_SKIPS_EMPTY.   Style: stdlib. *)
From TV Require Import Base.Prelude Generated.Constants Columnar.BitPack Columnar.OptionalIndex
  Columnar.Spec Columnar.OptionalIndexProofs Columnar.MultiValued Columnar.MergeIndex.
Local Open Scope N_scope.

(* ------------------------------------------------------------------------------------------ *)
(* select_batch_in_place: value positions (ascending) -> documents (consecutive duplicates removed) *)

(* the inner `loop`: advance cur_doc until the end offset of the document passes the position.
   `excl` = the test is `end > pos`; None = get_val out of bounds (panic) *)
Fixpoint mv1_scan (fuel : nat) (excl : bool) (starts : list N) (cur : nat) (pos : N) : option nat :=
  match fuel with
  | O => None
  | S f => match nth_error starts (S cur) with
           | None => None
           | Some e => if (if excl then pos <? e else pos <=? e) then Some cur else mv1_scan f excl starts (S cur) pos
           end
  end.

Definition opt_nat_eqb (a : option nat) (b : nat) : bool := match a with Some x => Nat.eqb x b | None => false end.

Fixpoint mv1_select_loop (excl : bool) (starts : list N) (cur : nat) (last : option nat) (ranks : list N) : option (list nat) :=
  match ranks with
  | [] => Some []
  | pos :: r =>
    match mv1_scan (length starts) excl starts cur pos with
    | None => None
    | Some d => match mv1_select_loop excl starts d (Some d) r with
                | None => None
                | Some t => Some (if opt_nat_eqb last d then t else d :: t)
                end
    end
  end.

Definition mv1_select_batch (excl : bool) (starts : list N) (docid_start : nat) (ranks : list N) : option (list nat) :=
  match ranks with
  | [] => Some []
  | r0 :: _ => if nth docid_start starts 0 <=? r0                      (* assert!(get_val(docid_start) <= ranks[0]) *)
               then mv1_select_loop excl starts docid_start None ranks else None
  end.

(* specification: the document of a value position = number of end offsets <= pos *)
Definition mv1_doc_of (starts : list N) (pos : N) : nat := length (filter (fun e => e <=? pos) (tl starts)).
Fixpoint dedup_adj (last : option nat) (l : list nat) : list nat :=
  match l with [] => [] | d :: t => if opt_nat_eqb last d then dedup_adj (Some d) t else d :: dedup_adj (Some d) t end.

Fixpoint nondecr (l : list N) : Prop := match l with a :: ((b :: _) as t) => a <= b /\ nondecr t | _ => True end.

Lemma nondecr_ge a l : nondecr (a :: l) -> Forall (fun x => a <= x) l.
Proof.
  revert a; induction l as [|b l IH]; intros a H; [constructor|]. destruct H as [Hab Hr].
  constructor; [exact Hab|]. specialize (IH b Hr). eapply Forall_impl; [|exact IH]. cbv beta. intros x Hx. lia.
Qed.
Lemma nondecr_tl a l : nondecr (a :: l) -> nondecr l.
Proof. destruct l; [intros; exact I|intros [_ H]; exact H]. Qed.

Lemma filter_above_nil a pos l : Forall (fun x => a <= x) l -> pos < a -> filter (fun e => e <=? pos) l = [].
Proof.
  induction 1 as [|b l Hb _ IH]; intros Hp; [reflexivity|]. cbn [filter].
  replace (b <=? pos) with false by (symmetry; apply N.leb_gt; lia). apply IH, Hp.
Qed.

(* in a non-decreasing list the elements <= pos form a prefix *)
Lemma filter_le_prefix l pos : nondecr l ->
  let D := length (filter (fun e => e <=? pos) l) in
  (forall i, (i < D)%nat -> nth i l 0 <= pos) /\ (forall i, (D <= i < length l)%nat -> pos < nth i l 0).
Proof.
  induction l as [|a l IH]; intros Hs; cbn [filter length].
  - split; intros i Hi; cbn in Hi; lia.
  - pose proof (nondecr_ge a l Hs) as Hge. specialize (IH (nondecr_tl a l Hs)). cbv zeta in IH. destruct IH as [IH1 IH2].
    destruct (a <=? pos) eqn:E; cbn [length].
    + apply N.leb_le in E. split; intros i Hi; (destruct i as [|i]; cbn [nth]; [lia|]).
      * apply IH1. lia.
      * apply IH2. cbn [length] in Hi. lia.
    + apply N.leb_gt in E.
      assert (Hnone : filter (fun e => e <=? pos) l = []) by (apply filter_above_nil with (a := a); assumption).
      rewrite Hnone in *. cbn [length] in *. split; intros i Hi; [lia|].
      destruct i as [|i]; cbn [nth]; [exact E|]. apply IH2. cbn [length] in Hi. lia.
Qed.

Lemma nth_error_nth_some {A} (l : list A) i d : (i < length l)%nat -> nth_error l i = Some (nth i l d).
Proof. intros H. apply nth_error_nth'. exact H. Qed.

(* the scan reaches the document of the position from any document not beyond it *)
Lemma mv1_scan_correct starts pos : nondecr starts ->
  let D := mv1_doc_of starts pos in
  (S D < length starts)%nat ->
  forall k cur fuel, (D - cur = k)%nat -> (cur <= D)%nat -> (k < fuel)%nat ->
  mv1_scan fuel true starts cur pos = Some D.
Proof.
  intros Hs D HD. destruct starts as [|s0 ends]; [cbn in HD; lia|].
  pose proof (filter_le_prefix ends pos (nondecr_tl s0 ends Hs)) as [Hlo Hhi]. cbv zeta in Hlo, Hhi.
  change (length (filter (fun e => e <=? pos) ends)) with D in Hlo, Hhi.
  cbn [length] in HD.
  induction k as [|k IH]; intros cur fuel Hk Hcur Hfuel; (destruct fuel as [|fuel]; [lia|]); cbn [mv1_scan nth_error].
  - assert (cur = D) by lia. subst cur.
    rewrite (nth_error_nth_some ends D 0) by lia.
    replace (pos <? nth D ends 0) with true by (symmetry; apply N.ltb_lt, Hhi; lia). reflexivity.
  - rewrite (nth_error_nth_some ends cur 0) by lia.
    replace (pos <? nth cur ends 0) with false by (symmetry; apply N.ltb_ge, Hlo; lia).
    apply IH; lia.
Qed.

Lemma mv1_doc_of_mono starts p q : p <= q -> (mv1_doc_of starts p <= mv1_doc_of starts q)%nat.
Proof.
  intros Hpq. unfold mv1_doc_of. induction (tl starts) as [|e l IH]; [cbn; lia|]. cbn [filter].
  destruct (e <=? p) eqn:E1; destruct (e <=? q) eqn:E2; cbn [length]; try lia.
Qed.

(* positions: ascending, from the first start offset, below the total number of values *)
Definition mv1_total (starts : list N) : N := nth (length starts - 1) starts 0.
Fixpoint positions_ok (lo total : N) (ranks : list N) : Prop :=
  match ranks with
  | [] => True
  | p :: t => lo <= p < total /\ match t with [] => True | q :: _ => p <= q end /\ positions_ok lo total t
  end.

Lemma filter_length_le' {A} (f : A -> bool) l : (length (filter f l) <= length l)%nat.
Proof. induction l as [|a l IH]; [cbn; lia|]. cbn [filter]. destruct (f a); cbn [length]; lia. Qed.

Lemma doc_of_below starts pos : nondecr starts -> hd 0 starts <= pos < mv1_total starts ->
  (S (mv1_doc_of starts pos) < length starts)%nat.
Proof.
  intros Hs [Hlo0 Hlast]. destruct starts as [|s0 ends]; [cbn in Hlast; lia|]. cbn [length hd] in *.
  pose proof (filter_le_prefix ends pos (nondecr_tl s0 ends Hs)) as [Hlo _]. cbv zeta in Hlo.
  unfold mv1_doc_of. cbn [tl]. set (D := length (filter (fun e => e <=? pos) ends)) in *.
  pose proof (filter_length_le' (fun e => e <=? pos) ends) as HD. fold D in HD.
  destruct (Nat.eq_dec D (length ends)) as [E|E]; [|lia]. exfalso.
  unfold mv1_total in Hlast. cbn [length] in Hlast. replace (S (length ends) - 1)%nat with (length ends) in Hlast by lia.
  destruct ends as [|e ends']; [cbn in Hlast; lia|]. cbn [length] in Hlast, E.
  specialize (Hlo (length ends') ltac:(lia)). change (nth (S (length ends')) (s0 :: e :: ends') 0) with (nth (length ends') (e :: ends') 0) in Hlast. lia.
Qed.

Theorem mv1_select_loop_correct starts : nondecr starts ->
  forall ranks cur last, positions_ok (hd 0 starts) (mv1_total starts) ranks ->
  match ranks with [] => True | p :: _ => (cur <= mv1_doc_of starts p)%nat end ->
  mv1_select_loop true starts cur last ranks = Some (dedup_adj last (map (mv1_doc_of starts) ranks)).
Proof.
  intros Hs. induction ranks as [|p r IH]; intros cur last Hok Hcur; [reflexivity|].
  cbn [mv1_select_loop map dedup_adj]. destruct Hok as (Hp & Hnext & Hok).
  pose proof (doc_of_below starts p Hs Hp) as HD.
  rewrite (mv1_scan_correct starts p Hs HD (mv1_doc_of starts p - cur)%nat cur (length starts) eq_refl Hcur ltac:(lia)).
  rewrite IH.
  - destruct (opt_nat_eqb last (mv1_doc_of starts p)); reflexivity.
  - exact Hok.
  - destruct r as [|q r']; [exact I|]. apply mv1_doc_of_mono. exact Hnext.
Qed.

(* the position of a value of row d lies in that row *)
Lemma mv1_start_offsets_nondecr c : forall acc, nondecr (mv1_start_offsets acc c).
Proof.
  induction c as [|r t IH]; intros acc; cbn [mv1_start_offsets]; [exact I|].
  specialize (IH (acc + N.of_nat (length r))). destruct t; cbn [mv1_start_offsets] in *; (split; [lia|exact IH]).
Qed.

(* ------------------------------------------------------------------------------------------ *)
(* Column::get_docids_for_value_range on a v1 multivalued column (result level): rows of
   [starts[d0], starts[d1]) whose value is in range, then select_batch_in_place from d0 *)
Definition mv1_docids_for_value_range (excl : bool) (starts values : list N) (lo hi : N) (d0 d1 : nat) : option (list nat) :=
  let r0 := nth d0 starts 0 in let r1 := nth d1 starts 0 in
  let rows := filter (fun i => in_range lo hi (nth (N.to_nat i) values 0)) (nseq r0 (N.to_nat (r1 - r0))) in
  mv1_select_batch excl starts d0 rows.

Definition mv1_select_excl : bool := MV1_SELECT_END_EXCLUSIVE =? 1.
Lemma mv1_select_excl_present : mv1_select_excl = true.
Proof. vm_compute. reflexivity. Qed.

(* with `end >= pos` the first value of a document is attributed to its predecessor (seeded change C08-m3) *)
Lemma mv1_select_inclusive_refuted :
  exists c lo hi, mv1_docids_for_value_range false (mv1_start_offsets 0 c) (concat c) lo hi 0 (length c)
                  <> Some (range_lookup lo hi c).
Proof. exists [[5; 5]; [7; 7]; [9; 9]], 7, 7. vm_compute. intros H; discriminate H. Qed.

(* ------------------------------------------------------------------------------------------ *)
(* stacked merge with v1 inputs *)

(* get_doc_ids_with_values, V1 arm: documents with a non-empty range, shifted by the input's row offset
   (`shifted` = the source adds doc_range.start) *)
Fixpoint v1_docs_with_values (shifted : bool) (start doc : N) (starts : list N) : list N :=
  match starts with
  | a :: ((b :: _) as t) => (if a <? b then [if shifted then doc + start else doc] else []) ++ v1_docs_with_values shifted start (doc + 1) t
  | _ => []
  end.
(* get_num_values_iterator, Multivalued arm on the v1 start offsets: differences, first dropped;
   `skip_empty` = the source filters the zero counts *)
Definition v1_num_values (skip_empty : bool) (starts : list N) : list N :=
  let d := tl (scan_diffs 0 starts) in if skip_empty then filter (fun n => negb (n =? 0)) d else d.

Lemma v1_docs_step shifted start doc a b rest :
  v1_docs_with_values shifted start doc (a :: b :: rest) =
  (if a <? b then [if shifted then doc + start else doc] else []) ++ v1_docs_with_values shifted start (doc + 1) (b :: rest).
Proof. reflexivity. Qed.

Lemma mv1_start_offsets_head c acc : exists X, mv1_start_offsets acc c = acc :: X.
Proof. destruct c; eexists; reflexivity. Qed.

Lemma v1_docs_with_values_of c : forall acc s d, d = N.of_nat s ->
  v1_docs_with_values true 0 d (mv1_start_offsets acc c) = docs_from s c.
Proof.
  induction c as [|r t IH]; intros acc s d ->; [reflexivity|].
  rewrite docs_from_cons. cbn [mv1_start_offsets].
  destruct (mv1_start_offsets_head t (acc + N.of_nat (length r))) as [X HX].
  rewrite HX, v1_docs_step, <- HX.
  rewrite (IH (acc + N.of_nat (length r)) (S s) (N.of_nat s + 1) ltac:(lia)). f_equal.
  unfold nonempty. destruct r as [|x r']; cbn [length].
  - replace (acc <? acc + N.of_nat 0) with false by (symmetry; apply N.ltb_ge; lia). reflexivity.
  - replace (acc <? acc + N.of_nat (S (length r'))) with true by (symmetry; apply N.ltb_lt; lia).
    rewrite N.add_0_r. reflexivity.
Qed.

Lemma v1_docs_shift starts : forall start doc,
  v1_docs_with_values true start doc starts = map (fun x => x + start) (v1_docs_with_values true 0 doc starts).
Proof.
  induction starts as [|a t IH]; intros start doc; [reflexivity|]. destruct t as [|b t']; [reflexivity|].
  rewrite !v1_docs_step, map_app, (IH start (doc + 1)). f_equal.
  destruct (a <? b); [cbn [map]; rewrite N.add_0_r; reflexivity|reflexivity].
Qed.

Lemma scan_diffs_v1 c : forall prev acc, scan_diffs prev (mv1_start_offsets acc c) = (acc - prev) :: map (fun r => N.of_nat (length r)) c.
Proof.
  induction c as [|r t IH]; intros prev acc; cbn [mv1_start_offsets scan_diffs map]; [reflexivity|].
  f_equal. rewrite IH. f_equal. lia.
Qed.

(* a v1 input contributes exactly what the same column contributes in the current format *)
Theorem v1_input_as_current c s :
  v1_docs_with_values true (N.of_nat s) 0 (mv1_start_offsets 0 c) = docs_from s c /\
  v1_num_values true (mv1_start_offsets 0 c) = nz_counts c.
Proof.
  split.
  - rewrite v1_docs_shift, (v1_docs_with_values_of c 0 0%nat 0 eq_refl), (docs_from_shift c s).
    apply map_ext. intros x. lia.
  - unfold v1_num_values. rewrite scan_diffs_v1. cbn [tl]. symmetry. apply nz_counts_filter.
Qed.

(* inputs of a stack merge: a column index of the current format, or the v1 start offsets of a multivalued column *)
Inductive stack_input := SICurrent (ci : column_index) (n : N) | SILegacy (starts : list N).
Definition si_num_docs (i : stack_input) : N := match i with SICurrent _ n => n | SILegacy st => mv1_num_docs st end.
Definition si_rows (shifted : bool) (i : stack_input) (start : N) : option (list N) :=
  match i with SICurrent ci n => stacked_rows_multi ci start n | SILegacy st => Some (v1_docs_with_values shifted start 0 st) end.
Definition si_num_values (skip_empty : bool) (i : stack_input) : list N :=
  match i with SICurrent ci n => stacked_num_values ci n | SILegacy st => v1_num_values skip_empty st end.
Fixpoint si_stack_rows (shifted : bool) (ins : list stack_input) (start : N) : option (list N) :=
  match ins with
  | [] => Some []
  | i :: t => match si_rows shifted i start, si_stack_rows shifted t (start + si_num_docs i) with
              | Some a, Some b => Some (a ++ b) | _, _ => None end
  end.
Definition si_start_offsets (skip_empty : bool) (ins : list stack_input) : list N :=
  0 :: scan_add 0 (concat (map (si_num_values skip_empty) ins)).

(* (legacy?, kind, rows): a legacy file differs only for multivalued columns *)
Definition si_of (lkc : bool * kind * column) : stack_input :=
  let '(legacy, k, c) := lkc in
  match legacy, k with
  | true, KMulti => SILegacy (mv1_start_offsets 0 c)
  | _, _ => SICurrent (ci_of k c) (N.of_nat (length c))
  end.
Definition strip (lkc : bool * kind * column) : kind * column := (snd (fst lkc), snd lkc).

Lemma si_num_docs_of lkc : si_num_docs (si_of lkc) = N.of_nat (length (snd lkc)).
Proof.
  destruct lkc as [[l k] c]. cbn [si_of snd]. destruct l, k; cbn [si_num_docs]; try reflexivity.
  unfold mv1_num_docs. rewrite mv1_start_offsets_length. lia.
Qed.

Theorem stacked_with_legacy_inputs lkcs : inputs_ok (map strip lkcs) ->
  let merged := merge_stacked (map snd lkcs) in
  si_stack_rows true (map si_of lkcs) 0 = Some (mv_docs_with_values merged) /\
  si_start_offsets true (map si_of lkcs) = mv_start_offsets 0 merged.
Proof.
  intros Hok. cbv zeta.
  assert (Hrows : forall s, si_stack_rows true (map si_of lkcs) (N.of_nat s) = Some (docs_from s (concat (map snd lkcs)))).
  { induction lkcs as [|lkc t IH]; intros s; [reflexivity|].
    inversion Hok as [|? ? Hk Hokt]; subst. specialize (IH Hokt).
    cbn [map si_stack_rows concat]. rewrite si_num_docs_of.
    replace (N.of_nat s + N.of_nat (length (snd lkc))) with (N.of_nat (s + length (snd lkc))) by lia.
    rewrite IH, docs_from_app.
    destruct lkc as [[l k] c]. cbn [strip fst snd] in Hk. cbn [si_of snd].
    destruct l, k; cbn [si_rows]; try (rewrite stacked_rows_multi_of by exact Hk; reflexivity).
    rewrite (proj1 (v1_input_as_current c s)). reflexivity. }
  split.
  - unfold merge_stacked. exact (Hrows 0%nat).
  - unfold si_start_offsets, merge_stacked. rewrite mv_start_offsets_scan, nz_counts_concat. do 3 f_equal.
    rewrite !map_map. apply map_ext_in. intros [[l k] c] Hin. cbn [snd].
    assert (Hk : kind_allows k c).
    { unfold inputs_ok in Hok. rewrite Forall_forall in Hok. apply (Hok (k, c)). apply in_map_iff. exists (l, k, c). split; [reflexivity|exact Hin]. }
    cbn [si_of]. destruct l, k; cbn [si_num_values]; try (apply stacked_num_values_of; exact Hk).
    exact (proj2 (v1_input_as_current c 0%nat)).
Qed.

(* the flags of the source *)
Definition stack_v1_docs_shifted : bool := STACK_V1_DOCS_SHIFTED =? 1.
Definition stack_num_values_skips_empty : bool := STACK_NUM_VALUES_SKIPS_EMPTY =? 1.
Lemma stack_v1_docs_shifted_present : stack_v1_docs_shifted = true.
Proof. vm_compute. reflexivity. Qed.

(* F82 (fixed in /repo; regression witness over an explicit `false`): WITHOUT the filter a value-less document of a
   v1 input adds a duplicate start offset to the merged index *)
Definition f82_class (legacy_multivalued_rows : list (list N)) : bool :=
  existsb (fun r => Nat.leb 2 (length r)) legacy_multivalued_rows && existsb (fun r => Nat.eqb (length r) 0) legacy_multivalued_rows.
Lemma stacked_legacy_empty_rows_refuted :
  exists c, f82_class c = true /\
    si_start_offsets false [si_of (true, KMulti, c)] <> mv_start_offsets 0 (merge_stacked [c]).
Proof. exists [[1; 2]; []; [3]]. vm_compute. split; [reflexivity|intros H; discriminate H]. Qed.

(* seeded change C08-m4: without the shift a v1 input that is not the first repeats doc ids from 0 *)
Lemma stacked_legacy_unshifted_refuted :
  exists lkcs, si_stack_rows false (map si_of lkcs) 0 <> Some (mv_docs_with_values (merge_stacked (map snd lkcs))).
Proof. exists [(false, KFull, [[1]; [2]]); (true, KMulti, [[3; 4]; [5]])]. vm_compute. intros H; discriminate H. Qed.

(* ------------------------------------------------------------------------------------------ *)
(* the stacked merge as pinned from the source *)
Definition legacy_no_empty (lkcs : list (bool * kind * column)) : Prop :=
  Forall (fun lkc => fst (fst lkc) = true -> snd (fst lkc) = KMulti -> Forall (fun r => nonempty r = true) (snd lkc)) lkcs.

Lemma v1_num_values_no_empty c : Forall (fun r => nonempty r = true) c ->
  v1_num_values false (mv1_start_offsets 0 c) = nz_counts c.
Proof.
  intros H. unfold v1_num_values. rewrite scan_diffs_v1. cbn [tl]. unfold nz_counts.
  f_equal. symmetry. induction H as [|r t Hr _ IH]; [reflexivity|]. cbn [filter]. rewrite Hr, IH. reflexivity.
Qed.

(* for an explicit `skip_empty`: correct when value-less documents are skipped, or no v1 multivalued input has one *)
Theorem stacked_with_legacy_inputs_g (skip_empty : bool) lkcs : inputs_ok (map strip lkcs) ->
  (skip_empty = true \/ legacy_no_empty lkcs) ->
  let merged := merge_stacked (map snd lkcs) in
  si_stack_rows true (map si_of lkcs) 0 = Some (mv_docs_with_values merged) /\
  si_start_offsets skip_empty (map si_of lkcs) = mv_start_offsets 0 merged.
Proof.
  intros Hok Hcls. cbv zeta.
  destruct (stacked_with_legacy_inputs lkcs Hok) as [Hrows Hst]. split; [exact Hrows|].
  destruct skip_empty; [exact Hst|]. destruct Hcls as [Hc|Hne]; [discriminate Hc|].
  rewrite <- Hst. unfold si_start_offsets. f_equal. f_equal. f_equal. rewrite !map_map. apply map_ext_in. intros [[l k] c] Hin.
  cbn [si_of]. destruct l, k; try reflexivity. cbn [si_num_values].
  unfold legacy_no_empty in Hne. rewrite Forall_forall in Hne. specialize (Hne _ Hin eq_refl eq_refl). cbn [snd] in Hne.
  rewrite v1_num_values_no_empty by exact Hne. symmetry. exact (proj2 (v1_input_as_current c 0%nat)).
Qed.

(* the source skips value-less documents of v1 inputs (fix of F82): re-checked on the regenerated constant *)
Lemma stack_num_values_skips_empty_present : stack_num_values_skips_empty = true.
Proof. vm_compute. reflexivity. Qed.

(* the stacked merge as pinned from the source: correct for ALL inputs, of either format, at any position *)
Theorem stacked_with_legacy_inputs_pinned lkcs : inputs_ok (map strip lkcs) ->
  let merged := merge_stacked (map snd lkcs) in
  si_stack_rows stack_v1_docs_shifted (map si_of lkcs) 0 = Some (mv_docs_with_values merged) /\
  si_start_offsets stack_num_values_skips_empty (map si_of lkcs) = mv_start_offsets 0 merged.
Proof.
  intros Hok. cbv zeta. rewrite stack_v1_docs_shifted_present, stack_num_values_skips_empty_present.
  exact (stacked_with_legacy_inputs lkcs Hok).
Qed.

(* reading the merged (v2) multivalued index back: rows of the merged column *)
Definition read_merged_rows (docs starts values : list N) (n : N) : list (list N) :=
  let oi := optional_index_build n docs in
  map (mv_values_for_doc oi starts values) (nseq 0 (N.to_nat n)).
