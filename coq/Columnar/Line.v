(* Line (integer line with 32.32 fixed-point slope) and the linear column codec:
   /repo/columnar/src/column_values/u64_based/line.rs (compute_slope, Line::eval, Line::train_from / train)
   /repo/columnar/src/column_values/u64_based/linear.rs (LinearCodecEstimator collect / finalize / serialize,
   LinearReader::get_val).  All u64 arithmetic is wrapping and written explicitly.  Style: stdlib. *)
From Coq Require Import Setoid Morphisms.
From TV Require Import Base.Prelude Generated.Constants Columnar.BitPack Columnar.Stats.
Local Open Scope N_scope.

Definition M64 : N := 2 ^ 64.
Definition wadd (a b : N) : N := (a + b) mod 2 ^ 64.                         (* wrapping_add *)
Definition wsub (a b : N) : N := (a + (2 ^ 64 - b mod 2 ^ 64)) mod 2 ^ 64.   (* wrapping_sub *)
Definition wmul (a b : N) : N := (a * b) mod 2 ^ 64.                         (* wrapping_mul *)

Lemma wadd_lt a b : wadd a b < 2 ^ 64. Proof. apply N.mod_lt. discriminate. Qed.
Lemma wsub_lt a b : wsub a b < 2 ^ 64. Proof. apply N.mod_lt. discriminate. Qed.

(* bridge to Z, where modular reasoning is done by pushing `mod` inwards and `ring` *)
Lemma Z_wadd a b : Z.of_N (wadd a b) = ((Z.of_N a + Z.of_N b) mod 2 ^ 64)%Z.
Proof. unfold wadd. rewrite N2Z.inj_mod, N2Z.inj_add. reflexivity. Qed.

Lemma Z_wsub a b : Z.of_N (wsub a b) = ((Z.of_N a - Z.of_N b) mod 2 ^ 64)%Z.
Proof.
  unfold wsub. rewrite N2Z.inj_mod, N2Z.inj_add.
  pose proof (N.mod_lt b (2 ^ 64) ltac:(discriminate)) as Hb.
  rewrite N2Z.inj_sub by lia. rewrite N2Z.inj_mod.
  change (Z.of_N (2 ^ 64)) with (2 ^ 64)%Z.
  rewrite <- (Zminus_mod_idemp_r (Z.of_N a) (Z.of_N b)).
  replace (Z.of_N a + (2 ^ 64 - Z.of_N b mod 2 ^ 64))%Z with (Z.of_N a - Z.of_N b mod 2 ^ 64 + 1 * 2 ^ 64)%Z by lia.
  rewrite Z.mod_add by lia. reflexivity.
Qed.

(* congruence modulo 2^64 as a setoid: inner `mod`s are erased by rewriting, the rest is `ring` *)
Definition cong (a b : Z) : Prop := (a mod 2 ^ 64 = b mod 2 ^ 64)%Z.
#[global] Instance cong_equiv : Equivalence cong.
Proof. split; unfold cong; [intros x; reflexivity|intros x y H; symmetry; exact H|intros x y z H1 H2; rewrite H1; exact H2]. Qed.
#[global] Instance cong_add : Proper (cong ==> cong ==> cong) Z.add.
Proof. intros a b H c d H2. unfold cong in *. rewrite Z.add_mod, H, H2, <- Z.add_mod by lia. reflexivity. Qed.
#[global] Instance cong_sub : Proper (cong ==> cong ==> cong) Z.sub.
Proof. intros a b H c d H2. unfold cong in *. rewrite Zminus_mod, H, H2, <- Zminus_mod. reflexivity. Qed.
#[global] Instance cong_mul : Proper (cong ==> cong ==> cong) Z.mul.
Proof. intros a b H c d H2. unfold cong in *. rewrite Z.mul_mod, H, H2, <- Z.mul_mod by lia. reflexivity. Qed.
Lemma cong_mod a : cong (a mod 2 ^ 64)%Z a.
Proof. unfold cong. apply Z.mod_mod. lia. Qed.
Lemma cong_of_eq a b : a = b -> cong a b.
Proof. intros ->. reflexivity. Qed.
Lemma cong_unfold a b : cong a b -> (a mod 2 ^ 64 = b mod 2 ^ 64)%Z.
Proof. exact (fun H => H). Qed.
Global Opaque cong.
Ltac solve_cong :=
  match goal with
  | |- (?a mod 2 ^ 64 = ?b mod 2 ^ 64)%Z => apply cong_unfold; rewrite ?cong_mod; apply cong_of_eq; ring
  end.

Ltac push_mod :=
  repeat (rewrite ?Zplus_mod_idemp_l, ?Zplus_mod_idemp_r, ?Zminus_mod_idemp_l, ?Zminus_mod_idemp_r).

(* decoding identity: b + (a - b) = a, for any u64 a and any b *)
Lemma wadd_wsub a b : a < 2 ^ 64 -> wadd b (wsub a b) = a.
Proof.
  intros Ha. apply N2Z.inj. rewrite Z_wadd, Z_wsub. push_mod.
  replace (Z.of_N b + (Z.of_N a - Z.of_N b))%Z with (Z.of_N a) by lia.
  apply Z.mod_small. change (2 ^ 64)%Z with (Z.of_N (2 ^ 64)). lia.
Qed.

(* ------------------------------------------------------------------------------------------ *)
Record line := { slope : N; intercept : N }.
Definition line_default : line := {| slope := 0; intercept := 0 |}.

(* compute_slope(y0, y1, num_vals) *)
Definition compute_slope (y0 y1 num_vals : N) : N :=
  let dy := wsub y1 y0 in
  let sign := dy <=? N.shiftl 1 63 in
  let abs_dy := if sign then wsub y1 y0 else wsub y0 y1 in
  if LINE_SLOPE_BAIL <=? abs_dy then 0
  else
    let abs_slope := wrap64 (N.shiftl abs_dy LINE_SLOPE_SHIFT) / num_vals in
    if sign then abs_slope else (2 ^ 64 - 1) - abs_slope.

(* Line::eval(x: u32):  ((x as u64).wrapping_mul(slope) >> 32) as i32 as u64, added to the intercept *)
Definition as_i32_as_u64 (t : N) : N :=
  let t32 := t mod 2 ^ 32 in                           (* as i32: keep 32 bits *)
  if t32 <? 2 ^ 31 then t32 else t32 + (2 ^ 64 - 2 ^ 32).   (* sign extension to u64 *)
Definition line_eval (l : line) (x : N) : N :=
  let linear_part := as_i32_as_u64 (N.shiftr (wmul (x mod 2 ^ 32) (slope l)) LINE_EVAL_SHIFT) in
  wadd (intercept l) linear_part.

(* positions 0,1,2,... paired with the values *)
Fixpoint enumerate_from (start : N) (l : list N) : list (N * N) :=
  match l with [] => [] | v :: r => (start, v) :: enumerate_from (start + 1) r end.

(* Iterator::min_by_key: the first element among those with the least key *)
Fixpoint min_by_key_from (key : N -> N) (best : N) (l : list N) : N :=
  match l with
  | [] => best
  | c :: r => min_by_key_from key (if key c <? key best then c else best) r
  end.
Definition min_by_key (key : N -> N) (l : list N) : option N :=
  match l with [] => None | c :: r => Some (min_by_key_from key c r) end.

(* Line::train_from(first_val, last_val, num_vals, positions_and_values) *)
Definition train_from (first_val last_val num_vals : N) (pvs : list (N * N)) : line :=
  if num_vals - 1 =? 0 then line_default
  else
    let sl := compute_slope first_val last_val (num_vals - 1) in
    let l0 := {| slope := sl; intercept := 0 |} in
    let heuristic_shift := wsub first_val LINE_MID_POINT in
    let cands := map (fun pv => wsub (snd pv) (line_eval l0 (fst pv))) pvs in
    {| slope := sl;
       intercept := match min_by_key (fun val => wsub val heuristic_shift) cands with Some v => v | None => 0 end |}.

(* Line::train(ys) for a non-empty column *)
Definition line_train (ys : list N) : line :=
  train_from (hd 0 ys) (last ys 0) (N.of_nat (length ys)) (enumerate_from 0 ys).

(* ------------------------------------------------------------------------------------------ *)
(* Linear codec *)

(* a serialized linear column: stats on the wire, line, bit width, packed offsets *)
Definition linear_column : Type := (N * N * N * N) * (N * N) * N * bytes.

Definition deviations (l : line) (vals : list N) : list N :=
  map (fun pv => wsub (wadd (snd pv) LINEAR_HALF_SPACE) (line_eval l (fst pv))) (enumerate_from 0 vals).

Section Linear.
  Variable fdiv : N -> N -> N.

  (* LinearCodecEstimator: collect* (line trained on the first LINE_ESTIMATION_BLOCK_LEN values, deviations
     over all values), finalize, serialize.  None = the codec is not applicable (no line was estimated). *)
  Definition linear_serialize (vals : list N) : option linear_column :=
    if N.of_nat (length vals) <? LINE_ESTIMATION_BLOCK_LEN then None
    else
      let l := line_train (firstn (N.to_nat LINE_ESTIMATION_BLOCK_LEN) vals) in
      let devs := deviations l vals in
      let min_deviation := fold_left N.min devs (2 ^ 64 - 1) in
      let max_deviation := fold_left N.max devs 0 in
      (* finalize *)
      let l' := {| slope := slope l; intercept := wsub (wadd (intercept l) min_deviation) LINEAR_HALF_SPACE |} in
      let num_bits := compute_num_bits (max_deviation - min_deviation) in
      let offsets := map (fun pv => wsub (snd pv) (line_eval l' (fst pv))) (enumerate_from 0 vals) in
      Some (stats_wire (stats_of fdiv vals), (slope l', intercept l'), num_bits, pack num_bits offsets).
End Linear.

(* LinearReader::get_val *)
Definition linear_get (col : linear_column) (idx : N) : option N :=
  let '(_, (sl, ic), num_bits, data) := col in
  let l := {| slope := sl; intercept := ic |} in
  if valid_width num_bits then      (* BitUnpacker::new asserts the width when the column is opened *)
    match unpacker_get num_bits idx data with
    | Some diff => Some (wadd (line_eval l idx) diff)
    | None => None
    end
  else None.
Definition linear_min (col : linear_column) : N := let '(w, _, _, _) := col in st_min (stats_unwire w).
Definition linear_max (col : linear_column) : N := let '(w, _, _, _) := col in st_max (stats_unwire w).
Definition linear_num_vals (col : linear_column) : N := let '(w, _, _, _) := col in st_rows (stats_unwire w).

(* ------------------------------------------------------------------------------------------ *)
(* Proofs *)

Lemma nth_map_in {A B} (f : A -> B) l i d d' : (i < length l)%nat -> nth i (map f l) d = f (nth i l d').
Proof.
  revert i; induction l as [|a l IH]; intros i Hi; [cbn in Hi; lia|].
  destruct i as [|i]; cbn [map nth]; [reflexivity|]. apply IH. cbn in Hi. lia.
Qed.

Lemma enumerate_from_length s l : length (enumerate_from s l) = length l.
Proof. revert s; induction l as [|v r IH]; intros s; cbn [enumerate_from length]; [reflexivity|now rewrite IH]. Qed.

Lemma enumerate_from_nth l : forall s i, (i < length l)%nat ->
  nth i (enumerate_from s l) (0, 0) = (s + N.of_nat i, nth i l 0).
Proof.
  induction l as [|v r IH]; intros s i Hi; [cbn in Hi; lia|].
  destruct i as [|i]; cbn [enumerate_from nth].
  - f_equal. change (N.of_nat 0) with 0. lia.
  - rewrite IH by (cbn in Hi; lia). f_equal. lia.
Qed.

Lemma fold_min_le l : forall init, fold_left N.min l init <= init /\ Forall (fun d => fold_left N.min l init <= d) l.
Proof.
  induction l as [|d r IH]; intros init; cbn [fold_left]; [split; [lia|constructor]|].
  destruct (IH (N.min init d)) as [H1 H2]. split; [lia|]. constructor; [lia|exact H2].
Qed.

Lemma fold_max_ge l : forall init, init <= fold_left N.max l init /\ Forall (fun d => d <= fold_left N.max l init) l.
Proof.
  induction l as [|d r IH]; intros init; cbn [fold_left]; [split; [lia|constructor]|].
  destruct (IH (N.max init d)) as [H1 H2]. split; [lia|]. constructor; [lia|exact H2].
Qed.

Lemma fold_max_lt l bound : forall init, init < bound -> Forall (fun d => d < bound) l -> fold_left N.max l init < bound.
Proof.
  induction l as [|d r IH]; intros init Hi Hl; cbn [fold_left]; [exact Hi|].
  inversion Hl; subst. apply IH; [lia|assumption].
Qed.

(* line_eval is intercept + (a term that does not depend on the intercept) *)
Definition linear_part (sl x : N) : N :=
  as_i32_as_u64 (N.shiftr (wmul (x mod 2 ^ 32) sl) LINE_EVAL_SHIFT).
Lemma line_eval_split l x : line_eval l x = wadd (intercept l) (linear_part (slope l) x).
Proof. reflexivity. Qed.

(* the stored offset is the deviation minus the least deviation: no wrap, whatever the line *)
Lemma offset_is_dev_minus_min sl ic v x mind :
  let l := {| slope := sl; intercept := ic |} in
  let l' := {| slope := sl; intercept := wsub (wadd ic mind) LINEAR_HALF_SPACE |} in
  let dev := wsub (wadd v LINEAR_HALF_SPACE) (line_eval l x) in
  mind <= dev -> wsub v (line_eval l' x) = dev - mind.
Proof.
  intros l l' dev Hle. subst l l' dev. rewrite !line_eval_split in *. cbn [slope intercept] in *.
  set (lp := linear_part sl x) in *.
  set (D := wsub (wadd v LINEAR_HALF_SPACE) (wadd ic lp)) in *.
  assert (Hdlt : (Z.of_N D < 2 ^ 64)%Z).
  { pose proof (wsub_lt (wadd v LINEAR_HALF_SPACE) (wadd ic lp)) as H. fold D in H.
    apply N2Z.inj_lt in H. exact H. }
  apply N2Z.inj. rewrite N2Z.inj_sub by exact Hle.
  rewrite <- (Z.mod_small (Z.of_N D - Z.of_N mind) (2 ^ 64)) by lia.
  subst D.
  rewrite !Z_wsub, !Z_wadd, !Z_wsub, !Z_wadd. solve_cong.
Qed.

Section LinearProofs.
  Variable fdiv : N -> N -> N.
  Hypothesis fdiv_spec : forall d x, d <> 0 -> x < 2 ^ 64 -> fdiv d x = x / d.

  Theorem linear_exact vals col i : all_u64 vals -> linear_serialize fdiv vals = Some col ->
    (i < length vals)%nat -> linear_get col (N.of_nat i) = Some (nth i vals 0).
  Proof.
    intros Hu Hser Hi. unfold linear_serialize in Hser.
    destruct (N.of_nat (length vals) <? LINE_ESTIMATION_BLOCK_LEN); [discriminate|].
    set (l := line_train (firstn (N.to_nat LINE_ESTIMATION_BLOCK_LEN) vals)) in *.
    set (devs := deviations l vals) in *.
    set (mind := fold_left N.min devs (2 ^ 64 - 1)) in *.
    set (maxd := fold_left N.max devs 0) in *.
    set (l' := {| slope := slope l; intercept := wsub (wadd (intercept l) mind) LINEAR_HALF_SPACE |}) in *.
    set (nb := compute_num_bits (maxd - mind)) in *.
    set (offsets := map (fun pv => wsub (snd pv) (line_eval l' (fst pv))) (enumerate_from 0 vals)) in *.
    injection Hser as <-. unfold linear_get. cbn [slope intercept] in *.
    replace (valid_width nb) with true by (symmetry; apply compute_num_bits_valid).
    change {| slope := slope l; intercept := wsub (wadd (intercept l) mind) LINEAR_HALF_SPACE |} with l'.
    assert (Hlen : length offsets = length vals) by (unfold offsets; rewrite map_length, enumerate_from_length; reflexivity).
    assert (Hdevs_lt : Forall (fun d => d < 2 ^ 64) devs).
    { unfold devs, deviations. apply Forall_map, Forall_forall. intros pv _. apply wsub_lt. }
    assert (Hmax_lt : maxd < 2 ^ 64) by (apply fold_max_lt; [reflexivity|exact Hdevs_lt]).
    assert (Hbelow : all_below nb offsets).
    { unfold all_below. apply Forall_forall. intros o Ho.
      apply In_nth with (d := 0) in Ho as (k & Hk & <-). rewrite Hlen in Hk.
      unfold offsets. rewrite (nth_map_in _ _ _ 0 (0, 0)) by (rewrite enumerate_from_length; exact Hk).
      rewrite enumerate_from_nth by exact Hk. cbn [fst snd]. rewrite N.add_0_l.
      set (dev := wsub (wadd (nth k vals 0) LINEAR_HALF_SPACE) (line_eval l (N.of_nat k))).
      assert (Hin : In dev devs).
      { unfold devs, deviations. apply in_map_iff. exists (0 + N.of_nat k, nth k vals 0). split.
        - cbn [fst snd]. rewrite N.add_0_l. reflexivity.
        - rewrite <- enumerate_from_nth by exact Hk. apply nth_In. rewrite enumerate_from_length. exact Hk. }
      pose proof (proj1 (Forall_forall _ _) (proj2 (fold_min_le devs (2 ^ 64 - 1))) dev Hin) as Hmin. fold mind in Hmin.
      pose proof (proj1 (Forall_forall _ _) (proj2 (fold_max_ge devs 0)) dev Hin) as Hmax. fold maxd in Hmax.
      destruct l as [sl ic]. unfold l'. cbn [slope intercept].
      rewrite offset_is_dev_minus_min by exact Hmin. fold dev.
      apply compute_num_bits_mono; lia. }
    rewrite bitpack_roundtrip; [|apply compute_num_bits_valid|exact Hbelow|rewrite Hlen; exact Hi].
    f_equal. unfold offsets.
    rewrite (nth_map_in _ _ _ 0 (0, 0)) by (rewrite enumerate_from_length; exact Hi).
    rewrite enumerate_from_nth by exact Hi. cbn [fst snd]. rewrite N.add_0_l.
    apply wadd_wsub. apply all_u64_nth, Hu.
  Qed.

  Theorem linear_applicable vals : LINE_ESTIMATION_BLOCK_LEN <= N.of_nat (length vals) ->
    exists col, linear_serialize fdiv vals = Some col.
  Proof.
    intros H. unfold linear_serialize. destruct (_ <? _) eqn:E; [apply N.ltb_lt in E; lia|]. eexists. reflexivity.
  Qed.

  Theorem linear_stats vals col : all_u64 vals -> linear_serialize fdiv vals = Some col ->
    Forall (fun v => linear_min col <= v <= linear_max col) vals /\ linear_num_vals col = N.of_nat (length vals).
  Proof.
    intros Hu Hser. unfold linear_serialize in Hser. destruct (_ <? _); [discriminate|]. injection Hser as <-.
    unfold linear_min, linear_max, linear_num_vals.
    pose proof (stats_of_ok fdiv fdiv_spec vals Hu) as Hok.
    rewrite (stats_wire_roundtrip fdiv fdiv_spec _ _ Hok). destruct Hok. tauto.
  Qed.
End LinearProofs.
