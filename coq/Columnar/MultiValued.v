(* The multivalued index (start offsets) of OptionalIndex.v, for every column (any per-row value
   counts, any number of rows): range(doc) = [number of values in earlier rows, + number of values of
   the row), hence values_for_doc reproduces each row's list in insertion order.
   V2 (optional index over the rows with values + compact start offsets: the model mv_range of
   OptionalIndex.v) and V1 (one start offset per row, defined here; read-only legacy format of
   /repo/columnar/src/column_index/multivalued_index.rs).  Style: stdlib. *)
From TV Require Import Base.Prelude Generated.Constants Columnar.BitPack Columnar.OptionalIndex
  Columnar.Spec Columnar.OptionalIndexProofs.
Local Open Scope N_scope.

Definition nonempty (r : list N) : bool := negb (Nat.eqb (length r) 0).
(* number of rows with values / number of values among the first rows *)
Definition rows_with_values (c : column) : nat := length (filter nonempty c).
Definition values_before (c : column) (d : nat) : N := N.of_nat (length (concat (firstn d c))).

Lemma values_before_sum c d : values_before c d = N.of_nat (list_sum (map (@length N) (firstn d c))).
Proof.
  unfold values_before. f_equal. induction (firstn d c) as [|r l IH]; [reflexivity|].
  cbn [concat map list_sum]. rewrite app_length, IH. reflexivity.
Qed.

(* ------------------------------------------------------------------------------------------ *)
(* the start offsets depend on the per-row counts only *)
Fixpoint start_offsets_of_counts (acc : N) (counts : list nat) : list N :=
  match counts with
  | [] => [acc]
  | n :: t => match n with
              | O => start_offsets_of_counts acc t
              | _ => acc :: start_offsets_of_counts (acc + N.of_nat n) t
              end
  end.

Lemma mv_start_offsets_counts c : forall acc,
  mv_start_offsets acc c = start_offsets_of_counts acc (map (@length N) c).
Proof.
  induction c as [|r t IH]; intros acc; [reflexivity|].
  cbn [mv_start_offsets map start_offsets_of_counts]. destruct r as [|x r]; cbn [length]; now rewrite IH.
Qed.

Lemma mv_start_offsets_nth c : forall acc d, (d <= length c)%nat ->
  nth (rows_with_values (firstn d c)) (mv_start_offsets acc c) 0 = acc + values_before c d.
Proof.
  unfold rows_with_values, values_before.
  induction c as [|r t IH]; intros acc d Hd.
  - cbn [length] in Hd. assert (d = 0%nat) as -> by lia. cbn. lia.
  - destruct d as [|d].
    + cbn [firstn filter length concat]. destruct r as [|x r]; cbn [mv_start_offsets nth].
      * specialize (IH acc 0%nat ltac:(lia)). cbn [firstn filter length concat] in IH. rewrite IH. reflexivity.
      * lia.
    + cbn [length] in Hd. cbn [firstn filter concat]. rewrite app_length.
      destruct r as [|x r]; cbn [mv_start_offsets nonempty length Nat.eqb negb].
      * rewrite IH by lia. cbn [length]. lia.
      * cbn [length nth]. rewrite IH by lia. cbn [length]. lia.
Qed.

(* ------------------------------------------------------------------------------------------ *)
(* the rows with values *)
Definition docs_from (s : nat) (c : column) : list N :=
  map fst (filter (fun p => negb (Nat.eqb (length (snd p)) 0)) (combine (map N.of_nat (seq s (length c))) c)).

Lemma mv_docs_with_values_from c : mv_docs_with_values c = docs_from 0 c.
Proof. reflexivity. Qed.

Lemma docs_from_cons s r t :
  docs_from s (r :: t) = (if nonempty r then [N.of_nat s] else []) ++ docs_from (S s) t.
Proof.
  unfold docs_from, nonempty. cbn [length seq map combine filter snd].
  destruct (negb (Nat.eqb (length r) 0)); reflexivity.
Qed.

Lemma docs_from_bounds c : forall s, Forall (fun x => N.of_nat s <= x < N.of_nat (s + length c)) (docs_from s c).
Proof.
  induction c as [|r t IH]; intros s; [constructor|].
  rewrite docs_from_cons. apply Forall_app. split.
  - destruct (nonempty r); constructor; [cbn [length]; lia|constructor].
  - eapply Forall_impl; [|apply IH]. cbv beta. cbn [length]. intros x Hx. lia.
Qed.

Lemma docs_from_increasing c : forall s, increasing (docs_from s c).
Proof.
  induction c as [|r t IH]; intros s; [constructor|].
  rewrite docs_from_cons. destruct (nonempty r); cbn [app]; [|apply IH].
  constructor; [apply IH|]. eapply Forall_impl; [|apply docs_from_bounds]. cbv beta. intros x Hx. lia.
Qed.

Lemma docs_from_rank c : forall s d, (d <= length c)%nat ->
  spec_rank (docs_from s c) (N.of_nat (s + d)) = N.of_nat (rows_with_values (firstn d c)).
Proof.
  unfold rows_with_values.
  induction c as [|r t IH]; intros s d Hd.
  - cbn [length] in Hd. assert (d = 0%nat) as -> by lia. reflexivity.
  - rewrite docs_from_cons. destruct d as [|d].
    + cbn [firstn filter length]. apply spec_rank_all_ge. apply Forall_app. split.
      * destruct (nonempty r); constructor; [lia|constructor].
      * eapply Forall_impl; [|apply docs_from_bounds]. cbv beta. intros x Hx. lia.
    + cbn [length] in Hd. cbn [firstn filter].
      replace (s + S d)%nat with (S s + d)%nat by lia.
      destruct (nonempty r); cbn [app length].
      * rewrite spec_rank_cons, IH by lia. destruct (N.ltb_spec (N.of_nat s) (N.of_nat (S s + d))); lia.
      * now rewrite IH by lia.
Qed.

Lemma docs_from_contains c : forall s d,
  spec_contains (docs_from s c) (N.of_nat (s + d)) = nonempty (nth d c []).
Proof.
  induction c as [|r t IH]; intros s d.
  - destruct d; reflexivity.
  - rewrite docs_from_cons. destruct d as [|d]; cbn [nth].
    + assert (spec_contains (docs_from (S s) t) (N.of_nat (s + 0)) = false) as Ht.
      { apply spec_contains_false. intros Hin. pose proof (docs_from_bounds t (S s)) as Hb.
        rewrite Forall_forall in Hb. specialize (Hb _ Hin). lia. }
      destruct (nonempty r); cbn [app]; [|exact Ht].
      rewrite spec_contains_cons. replace (s + 0)%nat with s by lia. now rewrite N.eqb_refl.
    + replace (s + S d)%nat with (S s + d)%nat by lia.
      destruct (nonempty r); cbn [app]; [|apply IH].
      rewrite spec_contains_cons, IH. destruct (N.eqb_spec (N.of_nat (S s + d)) (N.of_nat s)); [lia|reflexivity].
Qed.

Lemma docs_rows_ok c : rows_ok (N.of_nat (length c)) (mv_docs_with_values c).
Proof.
  rewrite mv_docs_with_values_from. split; [apply docs_from_increasing|].
  eapply Forall_impl; [|apply docs_from_bounds]. cbv beta. intros x Hx. lia.
Qed.

(* ------------------------------------------------------------------------------------------ *)
(* V2: what the writer stores for a column, and what the reader answers *)
Definition mv_index_of (c : column) : optional_index :=
  optional_index_build (N.of_nat (length c)) (mv_docs_with_values c).
Definition mv_starts_of (c : column) : list N := mv_start_offsets 0 c.

Lemma firstn_S_nth {A} d : forall (l : list A) dflt, (d < length l)%nat ->
  firstn (S d) l = firstn d l ++ [nth d l dflt].
Proof.
  induction d as [|d IH]; intros [|x l] dflt Hd; cbn [length] in Hd; try lia; [reflexivity|].
  cbn [firstn nth app]. f_equal. apply IH. lia.
Qed.

Lemma concat_split (c : column) d : (d < length c)%nat ->
  concat c = concat (firstn d c) ++ nth d c [] ++ concat (skipn (S d) c).
Proof.
  revert d. induction c as [|r t IH]; intros d Hd; cbn [length] in Hd; [lia|].
  destruct d as [|d]; cbn [firstn nth skipn concat]; [reflexivity|].
  rewrite (IH d) at 1 by lia. now rewrite app_assoc.
Qed.

Theorem multivalued_range c d : (d < length c)%nat -> nth d c [] <> [] ->
  mv_range (mv_index_of c) (mv_starts_of c) (N.of_nat d) =
  (values_before c d, values_before c d + N.of_nat (length (nth d c []))).
Proof.
  intros Hd Hne. unfold mv_range, mv_index_of, mv_starts_of.
  rewrite optional_index_rank_if_exists by apply docs_rows_ok.
  unfold spec_rank_if_exists. rewrite mv_docs_with_values_from.
  pose proof (docs_from_contains c 0 d) as Hc. pose proof (docs_from_rank c 0 d ltac:(lia)) as Hr.
  cbn [Nat.add] in Hc, Hr. rewrite Hc, Hr.
  assert (nonempty (nth d c []) = true) as ->.
  { unfold nonempty. destruct (nth d c []); [congruence|reflexivity]. }
  rewrite Nat2N.id.
  replace (N.to_nat (N.of_nat (rows_with_values (firstn d c)) + 1)) with (rows_with_values (firstn (S d) c)).
  - rewrite !mv_start_offsets_nth by lia. rewrite !N.add_0_l. f_equal.
    unfold values_before.
    rewrite (firstn_S_nth d c []) by exact Hd.
    rewrite concat_app, app_length. cbn [concat]. rewrite app_nil_r. lia.
  - unfold rows_with_values. rewrite (firstn_S_nth d c []) by exact Hd.
    rewrite filter_app, app_length. cbn [filter].
    assert (nonempty (nth d c []) = true) as -> by (unfold nonempty; destruct (nth d c []); [congruence|reflexivity]).
    cbn [length]. lia.
Qed.

Theorem multivalued_range_empty c doc : nth (N.to_nat doc) c [] = [] ->
  mv_range (mv_index_of c) (mv_starts_of c) doc = (0, 0).
Proof.
  intros He. unfold mv_range, mv_index_of.
  rewrite optional_index_rank_if_exists by apply docs_rows_ok.
  unfold spec_rank_if_exists. rewrite mv_docs_with_values_from.
  pose proof (docs_from_contains c 0 (N.to_nat doc)) as Hc. cbn [Nat.add] in Hc. rewrite N2Nat.id in Hc.
  rewrite Hc, He. reflexivity.
Qed.

(* values_for_doc through the index, over the flat list of values, is the row of the specification *)
Theorem multivalued_values c doc :
  mv_values_for_doc (mv_index_of c) (mv_starts_of c) (all_values c) doc = values_for_doc c (N.to_nat doc).
Proof.
  unfold mv_values_for_doc, values_for_doc, all_values. set (d := N.to_nat doc).
  destruct (nth d c []) as [|x r] eqn:Er.
  - rewrite multivalued_range_empty by exact Er. reflexivity.
  - assert (d < length c)%nat as Hd.
    { destruct (Nat.lt_ge_cases d (length c)) as [H|H]; [exact H|]. rewrite nth_overflow in Er by exact H. discriminate. }
    rewrite <- (N2Nat.id doc). fold d. rewrite multivalued_range by (rewrite ?Er; congruence).
    rewrite Er. unfold values_before.
    rewrite (concat_split c d Hd), Er, Nat2N.id, skipn_app_exact.
    replace (N.to_nat (N.of_nat (length (concat (firstn d c))) + N.of_nat (length (x :: r))
                        - N.of_nat (length (concat (firstn d c))))) with (length (x :: r)) by lia.
    apply firstn_app_exact.
Qed.

(* ------------------------------------------------------------------------------------------ *)
(* V1: one start offset per row (and a final one); MultiValueIndexV1::range *)
Fixpoint mv1_start_offsets (acc : N) (c : column) : list N :=
  acc :: match c with [] => [] | r :: t => mv1_start_offsets (acc + N.of_nat (length r)) t end.
Definition mv1_num_docs (starts : list N) : N := N.of_nat (length starts) - 1.
Definition mv1_range (starts : list N) (doc : N) : N * N :=
  if mv1_num_docs starts <=? doc then (0, 0)
  else (nth (N.to_nat doc) starts 0, nth (N.to_nat (doc + 1)) starts 0).
Definition mv1_values_for_doc (starts values : list N) (doc : N) : list N :=
  let '(a, b) := mv1_range starts doc in firstn (N.to_nat (b - a)) (skipn (N.to_nat a) values).

Lemma mv1_start_offsets_length c : forall acc, length (mv1_start_offsets acc c) = S (length c).
Proof. induction c as [|r t IH]; intros acc; cbn [mv1_start_offsets length]; [reflexivity|now rewrite IH]. Qed.

Lemma mv1_start_offsets_nth c : forall acc d, (d <= length c)%nat ->
  nth d (mv1_start_offsets acc c) 0 = acc + values_before c d.
Proof.
  unfold values_before. induction c as [|r t IH]; intros acc d Hd.
  - cbn [length] in Hd. assert (d = 0%nat) as -> by lia. cbn. lia.
  - destruct d as [|d]; cbn [mv1_start_offsets nth firstn concat]; [cbn; lia|].
    cbn [length] in Hd. rewrite IH by lia. rewrite app_length. lia.
Qed.

Theorem multivalued_v1_range c d : (d < length c)%nat ->
  mv1_range (mv1_start_offsets 0 c) (N.of_nat d) =
  (values_before c d, values_before c d + N.of_nat (length (nth d c []))).
Proof.
  intros Hd. unfold mv1_range, mv1_num_docs. rewrite mv1_start_offsets_length.
  destruct (N.leb_spec (N.of_nat (S (length c)) - 1) (N.of_nat d)); [lia|].
  replace (N.to_nat (N.of_nat d + 1)) with (S d) by lia. rewrite Nat2N.id.
  rewrite !mv1_start_offsets_nth by lia. rewrite !N.add_0_l. f_equal.
  unfold values_before. rewrite (firstn_S_nth d c []) by exact Hd.
  rewrite concat_app, app_length. cbn [concat]. rewrite app_nil_r. lia.
Qed.

Theorem multivalued_v1_values c doc :
  mv1_values_for_doc (mv1_start_offsets 0 c) (all_values c) doc = values_for_doc c (N.to_nat doc).
Proof.
  unfold mv1_values_for_doc, values_for_doc, all_values. set (d := N.to_nat doc).
  destruct (Nat.lt_ge_cases d (length c)) as [Hd|Hd].
  - rewrite <- (N2Nat.id doc). fold d. rewrite multivalued_v1_range by exact Hd.
    unfold values_before. rewrite (concat_split c d Hd), Nat2N.id, skipn_app_exact.
    replace (N.to_nat (N.of_nat (length (concat (firstn d c))) + N.of_nat (length (nth d c []))
                        - N.of_nat (length (concat (firstn d c))))) with (length (nth d c [])) by lia.
    apply firstn_app_exact.
  - unfold mv1_range, mv1_num_docs. rewrite mv1_start_offsets_length.
    destruct (N.leb_spec (N.of_nat (S (length c)) - 1) doc); [|lia].
    rewrite nth_overflow by exact Hd. reflexivity.
Qed.

(* ------------------------------------------------------------------------------------------ *)
(* packaged statement (for Properties/C08.v) *)
Theorem multivalued_correct : forall c : column,
  let I := optional_index_build (N.of_nat (length c)) (mv_docs_with_values c) in
  let starts := mv_start_offsets 0 c in
  starts = start_offsets_of_counts 0 (map (@length N) c) /\
  (forall d, (d < length c)%nat -> nth d c [] <> [] ->
     mv_range I starts (N.of_nat d) =
     (N.of_nat (list_sum (map (@length N) (firstn d c))),
      N.of_nat (list_sum (map (@length N) (firstn d c))) + N.of_nat (length (nth d c [])))) /\
  (forall doc, nth (N.to_nat doc) c [] = [] -> mv_range I starts doc = (0, 0)) /\
  (forall doc, mv_values_for_doc I starts (all_values c) doc = values_for_doc c (N.to_nat doc)).
Proof.
  intros c. cbv zeta.
  split; [apply mv_start_offsets_counts|].
  split; [intros d Hd Hne; rewrite <- values_before_sum; now apply multivalued_range|].
  split; [intros doc He; now apply multivalued_range_empty|].
  intros doc. apply multivalued_values.
Qed.

Theorem multivalued_v1_correct : forall c : column,
  let starts := mv1_start_offsets 0 c in
  (forall d, (d < length c)%nat ->
     mv1_range starts (N.of_nat d) =
     (N.of_nat (list_sum (map (@length N) (firstn d c))),
      N.of_nat (list_sum (map (@length N) (firstn d c))) + N.of_nat (length (nth d c [])))) /\
  (forall doc, mv1_values_for_doc starts (all_values c) doc = values_for_doc c (N.to_nat doc)).
Proof.
  intros c. cbv zeta.
  split; [intros d Hd; rewrite <- values_before_sum; now apply multivalued_v1_range|].
  intros doc. apply multivalued_v1_values.
Qed.
