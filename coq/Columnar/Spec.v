(* The column specification of C08 (short enough to read in a minute) and the evaluators used by
   the correspondence cases.  A column is a list of rows; a row is the list of the values that
   were added to that document, in insertion order (none when absent).  Style: stdlib. *)
From TV Require Import Base.Prelude Generated.Constants Columnar.BitPack Columnar.MonoMap.
Local Open Scope N_scope.

Definition column := list (list N).           (* values already mapped to u64 / ordinals *)

Definition values_for_doc (c : column) (doc : nat) : list N := nth doc c [].
Definition first_value (c : column) (doc : nat) : option N := hd_error (values_for_doc c doc).
Definition num_docs (c : column) : nat := length c.
Definition all_values (c : column) : list N := concat c.

Definition in_range (lo hi v : N) : bool := (lo <=? v) && (v <=? hi).

(* documents (ascending) holding at least one value in [lo, hi] *)
Definition range_lookup (lo hi : N) (c : column) : list nat :=
  filter (fun d => existsb (in_range lo hi) (values_for_doc c d)) (seq 0 (length c)).

(* the same restricted to the documents of [d0, d1) *)
Definition range_lookup_in (lo hi : N) (d0 d1 : nat) (c : column) : list nat :=
  filter (fun d => (d0 <=? d)%nat && (d <? d1)%nat) (range_lookup lo hi c).

Definition bounds_all (mn mx : N) (c : column) : bool := forallb (fun v => (mn <=? v) && (v <=? mx)) (all_values c).

(* cardinality: 0 = Full, 1 = Optional, 2 = Multivalued.  A reported cardinality is consistent when
   it allows the shape of the rows. *)
Definition cardinality_allows (card : N) (c : column) : bool :=
  match card with
  | 0 => forallb (fun r => Nat.eqb (length r) 1) c
  | 1 => forallb (fun r => Nat.leb (length r) 1) c
  | _ => true
  end.

(* merges *)
Definition merge_stacked (cols : list column) : column := concat cols.
(* new row i  <-  (segment, old row); deleted rows are simply not in the mapping *)
Definition merge_shuffled (cols : list column) (mapping : list (nat * nat)) : column :=
  map (fun a => nth (snd a) (nth (fst a) cols []) []) mapping.

(* ------------------------------------------------------------------------------------------ *)
(* evaluators for the case files *)
Definition nat_list_eqb := list_eqb Nat.eqb.
Definition n_list_eqb := list_eqb N.eqb.
Definition column_eqb (a b : column) : bool := list_eqb n_list_eqb a b.
Definition option_n_eqb (a b : option N) : bool :=
  match a, b with Some x, Some y => N.eqb x y | None, None => true | _, _ => false end.

Fixpoint nseq (start : N) (len : nat) : list N :=
  match len with O => [] | S l => start :: nseq (start + 1) l end.

(* decode every index of a packed payload with the model reader *)
Definition unpack_all (w : N) (n : nat) (data : bytes) : list (option N) :=
  map (fun i => unpacker_get w i data) (nseq 0 n).

Definition ties_unpack (w : N) (data : bytes) (expected : list N) : bool :=
  list_eqb option_n_eqb (unpack_all w (length expected) data) (map Some expected).

Definition z_list_eqb := list_eqb Z.eqb.
