(* Column statistics and the bit-packed column codec:
   /repo/columnar/src/column_values/u64_based/stats_collector.rs (StatsCollector, compute_gcd),
   /repo/columnar/src/column_values/stats.rs (ColumnStats, its wire form),
   /repo/columnar/src/column_values/u64_based/bitpacked.rs (serialize / get_val / range transform).
   `fastdivide::DividerU64` is an external component: a Section variable with its contract.
   Style: stdlib. *)
From TV Require Import Base.Prelude Generated.Constants Columnar.BitPack.
Local Open Scope N_scope.

Definition all_u64 (vals : list N) : Prop := Forall (fun v => v < 2 ^ 64) vals.

Lemma all_u64_nth vals i : all_u64 vals -> nth i vals 0 < 2 ^ 64.
Proof.
  intros H. destruct (Nat.lt_ge_cases i (length vals)) as [Hi|Hi].
  - eapply (proj1 (Forall_forall _ _) H). apply nth_In, Hi.
  - rewrite nth_overflow by exact Hi. reflexivity.
Qed.

(* ------------------------------------------------------------------------------------------ *)
(* compute_gcd: Euclid's loop.  Fuel is computed from the input and proved adequate for every
   input, so the out-of-fuel result never occurs. *)
Fixpoint euclid (fuel : nat) (large small : N) : option N :=
  match fuel with
  | O => None
  | S f => let rem := large mod small in
           if rem =? 0 then Some small else euclid f small rem
  end.

Definition gcd_fuel (small : N) : nat := 2 * N.to_nat (N.size small) + 1.

Definition compute_gcd (large small : N) : N :=
  match euclid (gcd_fuel small) large small with
  | Some g => g
  | None => 0         (* out of fuel: excluded by euclid_fuel_adequate *)
  end.

Lemma euclid_divides fuel : forall large small g, small <> 0 -> euclid fuel large small = Some g ->
  g <> 0 /\ N.divide g large /\ N.divide g small.
Proof.
  induction fuel as [|f IH]; intros large small g Hs H; [discriminate|].
  cbn [euclid] in H. destruct (large mod small =? 0) eqn:E.
  - injection H as <-. apply N.eqb_eq in E. split; [exact Hs|]. split; [|apply N.divide_refl].
    apply N.mod_divide; assumption.
  - apply N.eqb_neq in E. destruct (IH _ _ _ E H) as (Hg & Hd1 & Hd2). split; [exact Hg|]. split; [|exact Hd1].
    rewrite (N.div_mod large small Hs). apply N.divide_add_r; [apply N.divide_mul_l, Hd1|exact Hd2].
Qed.

Lemma euclid_fuel_enough n : forall fuel large small, small <> 0 -> small < 2 ^ N.of_nat n ->
  (2 * n + 1 <= fuel)%nat -> euclid fuel large small <> None.
Proof.
  induction n as [|n IH]; intros fuel large small Hs Hlt Hf.
  - change (2 ^ N.of_nat 0) with 1 in Hlt. lia.
  - destruct fuel as [|[|fuel]]; [lia|lia|].
    cbn [euclid]. destruct (large mod small =? 0) eqn:E; [discriminate|]. apply N.eqb_neq in E.
    set (r := large mod small) in *.
    assert (Hr : r < small) by (apply N.mod_lt, Hs).
    destruct (small mod r =? 0) eqn:E2; [discriminate|]. apply N.eqb_neq in E2.
    apply IH; [exact E2| |lia].
    pose proof (N.mod_lt small r E) as Hr2.
    pose proof (N.div_mod small r E) as D.
    assert (1 <= small / r) by (apply N.div_le_lower_bound; lia).
    rewrite Nat2N.inj_succ, N.pow_succ_r' in Hlt. nia.
Qed.

Lemma euclid_fuel_adequate large small : small <> 0 -> euclid (gcd_fuel small) large small <> None.
Proof.
  intros Hs. apply euclid_fuel_enough with (n := N.to_nat (N.size small)); [exact Hs| |unfold gcd_fuel; lia].
  rewrite N2Nat.id. apply N.size_gt.
Qed.

Lemma compute_gcd_divides large small : small <> 0 ->
  compute_gcd large small <> 0 /\ N.divide (compute_gcd large small) large /\ N.divide (compute_gcd large small) small.
Proof.
  intros Hs. unfold compute_gcd. pose proof (euclid_fuel_adequate large small Hs) as Hne.
  destruct (euclid (gcd_fuel small) large small) as [g|] eqn:E; [|contradiction].
  eapply euclid_divides; eassumption.
Qed.

(* ------------------------------------------------------------------------------------------ *)
Section FastDivide.
  (* fastdivide::DividerU64::divide_by(d).divide(x) *)
  Variable fdiv : N -> N -> N.
  Hypothesis fdiv_spec : forall d x, d <> 0 -> x < 2 ^ 64 -> fdiv d x = x / d.

  Record column_stats := { st_min : N; st_max : N; st_gcd : N; st_rows : N }.

  Record collector := {
    c_min_max : option (N * N);
    c_rows : N;
    c_gcd : option N;           (* increment_gcd_opt (the divider is derived from it) *)
    c_first : option N }.

  Definition collector_new : collector := {| c_min_max := None; c_rows := 0; c_gcd := None; c_first := None |}.

  Definition abs_diff (a b : N) : N := if a <? b then b - a else a - b.

  (* update_increment_gcd: returns the new (first, gcd) *)
  Definition update_increment_gcd (first : option N) (gcd : option N) (value : N) : option N * option N :=
    match first with
    | None => (Some value, gcd)
    | Some first_value =>
      let d := abs_diff value first_value in
      if d =? 0 then (first, gcd)
      else match gcd with
           | None => (first, Some d)
           | Some g =>
             if g =? 1 then (first, gcd)
             else let remainder := d - fdiv g d * g in
                  if remainder =? 0 then (first, gcd)
                  else (first, Some (compute_gcd d g))
           end
    end.

  Definition collect (c : collector) (value : N) : collector :=
    let mm := match c_min_max c with
              | Some (mn, mx) => (N.min mn value, N.max mx value)
              | None => (value, value)
              end in
    let '(f, g) := update_increment_gcd (c_first c) (c_gcd c) value in
    {| c_min_max := Some mm; c_rows := c_rows c + 1; c_gcd := g; c_first := f |}.

  Definition collector_stats (c : collector) : column_stats :=
    let '(mn, mx) := match c_min_max c with Some p => p | None => (0, 0) end in
    {| st_min := mn; st_max := mx; st_gcd := match c_gcd c with Some g => g | None => 1 end; st_rows := c_rows c |}.

  Definition stats_of (vals : list N) : column_stats := collector_stats (fold_left collect vals collector_new).

  (* wire form of ColumnStats: (min, gcd, amplitude / gcd, num_rows) as VInts; max is recomputed *)
  Definition stats_wire (s : column_stats) : N * N * N * N :=
    (st_min s, st_gcd s, (st_max s - st_min s) / st_gcd s, st_rows s).
  Definition stats_unwire (w : N * N * N * N) : column_stats :=
    let '(mn, g, q, rows) := w in
    {| st_min := mn; st_max := mn + q * g; st_gcd := g; st_rows := rows |}.

  (* ---- invariant of the collector over the values seen so far *)
  Definition zdiv (g a b : N) : Prop := (Z.of_N g | Z.of_N a - Z.of_N b)%Z.

  Record coll_inv (c : collector) (seen : list N) : Prop := {
    ci_rows : c_rows c = N.of_nat (length seen);
    ci_empty : seen = [] -> c_min_max c = None /\ c_first c = None /\ c_gcd c = None;
    ci_mm : seen <> [] -> exists mn mx, c_min_max c = Some (mn, mx) /\ In mn seen /\ In mx seen /\
                                      Forall (fun v => mn <= v <= mx) seen;
    ci_first : seen <> [] -> exists f, c_first c = Some f /\ In f seen /\
                 match c_gcd c with
                 | Some g => g <> 0 /\ g < 2 ^ 64 /\ Forall (fun v => zdiv g v f) seen
                 | None => Forall (fun v => v = f) seen
                 end }.

  Lemma abs_diff_zdiv g v f : N.divide g (abs_diff v f) -> zdiv g v f.
  Proof.
    unfold abs_diff, zdiv. intros [k Hk]. destruct (v <? f) eqn:E; [apply N.ltb_lt in E|apply N.ltb_ge in E].
    - exists (- Z.of_N k)%Z. nia.
    - exists (Z.of_N k). nia.
  Qed.

  Lemma zdiv_trans_gcd g g' v f : N.divide g' g -> zdiv g v f -> zdiv g' v f.
  Proof.
    unfold zdiv. intros [k Hk] [m Hm]. exists (m * Z.of_N k)%Z. rewrite Hm, Hk. lia.
  Qed.

  Lemma abs_diff_lt v f : v < 2 ^ 64 -> f < 2 ^ 64 -> abs_diff v f < 2 ^ 64.
  Proof. unfold abs_diff. destruct (v <? f); lia. Qed.

  Lemma collect_inv c seen v : all_u64 (seen ++ [v]) -> coll_inv c seen -> coll_inv (collect c v) (seen ++ [v]).
  Proof.
    intros Hu64 [Hrows Hempty Hmm Hfirst].
    assert (Hv64 : v < 2 ^ 64).
    { apply Forall_app in Hu64 as [_ H]. inversion H; assumption. }
    assert (Hseen64 : all_u64 seen) by (apply Forall_app in Hu64; tauto).
    unfold collect.
    destruct (update_increment_gcd (c_first c) (c_gcd c) v) as [f' g'] eqn:EU.
    constructor; cbn [c_rows c_min_max c_gcd c_first].
    - rewrite Hrows, app_length, Nat2N.inj_add. cbn [length]. lia.
    - intros H. destruct seen; discriminate.
    - intros _. destruct seen as [|s0 seen'].
      + destruct (Hempty eq_refl) as (-> & _ & _). exists v, v. cbn [app]. repeat split; [left; reflexivity|left; reflexivity|].
        constructor; [lia|constructor].
      + destruct (Hmm ltac:(discriminate)) as (mn & mx & -> & Hin1 & Hin2 & Hall).
        exists (N.min mn v), (N.max mx v). split; [reflexivity|]. split; [|split].
        * destruct (N.min_spec mn v) as [[_ ->]|[_ ->]]; apply in_or_app; [left; exact Hin1|right; left; reflexivity].
        * destruct (N.max_spec mx v) as [[_ ->]|[_ ->]]; apply in_or_app; [right; left; reflexivity|left; exact Hin2].
        * apply Forall_app. split.
          -- eapply Forall_impl; [|exact Hall]. cbn. intros a Ha. lia.
          -- constructor; [|constructor].
             assert (mn <= mx) by (pose proof (proj1 (Forall_forall _ _) Hall mn Hin1); cbn in *; lia). lia.
    - intros _. unfold update_increment_gcd in EU. destruct seen as [|s0 seen'].
      + destruct (Hempty eq_refl) as (_ & Hf & Hg). rewrite Hf, Hg in EU. injection EU as <- <-.
        exists v. cbn [app]. repeat split; [left; reflexivity|]. constructor; [reflexivity|constructor].
      + destruct (Hfirst ltac:(discriminate)) as (f & Hf & Hin & Hg). rewrite Hf in EU.
        assert (Hf64 : f < 2 ^ 64) by (apply (proj1 (Forall_forall _ _) Hseen64 f Hin)).
        pose proof (abs_diff_lt v f Hv64 Hf64) as Hd64.
        exists f.
        assert (Hinf : In f ((s0 :: seen') ++ [v])) by (apply in_or_app; left; exact Hin).
        destruct (abs_diff v f =? 0) eqn:E0.
        * injection EU as <- <-. split; [reflexivity|]. split; [exact Hinf|].
          apply N.eqb_eq in E0.
          assert (v = f) by (unfold abs_diff in E0; destruct (v <? f) eqn:E; [apply N.ltb_lt in E|apply N.ltb_ge in E]; lia).
          subst v. destruct (c_gcd c) as [g|].
          -- destruct Hg as (Hg0 & Hg64 & Hall). repeat split; try assumption.
             apply Forall_app; split; [exact Hall|]. constructor; [|constructor].
             exists 0%Z. lia.
          -- apply Forall_app; split; [exact Hg|]. constructor; [reflexivity|constructor].
        * apply N.eqb_neq in E0. destruct (c_gcd c) as [g|].
          -- destruct Hg as (Hg0 & Hg64 & Hall).
             destruct (g =? 1) eqn:E1.
             ++ injection EU as <- <-. apply N.eqb_eq in E1. subst g. split; [reflexivity|]. split; [exact Hinf|].
                repeat split; try assumption.
                apply Forall_app; split; [exact Hall|]. constructor; [|constructor].
                exists (Z.of_N v - Z.of_N f)%Z. lia.
             ++ rewrite fdiv_spec in EU by assumption.
                destruct (abs_diff v f - abs_diff v f / g * g =? 0) eqn:E2.
                ** injection EU as <- <-. apply N.eqb_eq in E2. split; [reflexivity|]. split; [exact Hinf|].
                   repeat split; try assumption.
                   apply Forall_app; split; [exact Hall|]. constructor; [|constructor].
                   apply abs_diff_zdiv. exists (abs_diff v f / g).
                   pose proof (N.mul_div_le (abs_diff v f) g Hg0). lia.
                ** injection EU as <- <-. split; [reflexivity|]. split; [exact Hinf|].
                   destruct (compute_gcd_divides (abs_diff v f) g Hg0) as (Hn0 & Hd1 & Hd2).
                   split; [exact Hn0|]. split.
                   { apply N.divide_pos_le in Hd2; lia. }
                   apply Forall_app; split.
                   --- eapply Forall_impl; [|exact Hall]. cbn. intros a Ha. eapply zdiv_trans_gcd; eassumption.
                   --- constructor; [|constructor]. apply abs_diff_zdiv. exact Hd1.
          -- injection EU as <- <-. split; [reflexivity|]. split; [exact Hinf|].
             split; [exact E0|]. split; [exact Hd64|].
             apply Forall_app; split.
             ++ eapply Forall_impl; [|exact Hg]. cbn. intros a ->. exists 0%Z. lia.
             ++ constructor; [|constructor]. apply abs_diff_zdiv. apply N.divide_refl.
  Qed.

  Lemma collector_new_inv : coll_inv collector_new [].
  Proof.
    constructor; cbn; try reflexivity; try tauto; intros H; contradiction H; reflexivity.
  Qed.

  Lemma fold_collect_inv vals : forall c seen, all_u64 (seen ++ vals) -> coll_inv c seen ->
    coll_inv (fold_left collect vals c) (seen ++ vals).
  Proof.
    induction vals as [|v r IH]; intros c seen Hu Hinv; cbn [fold_left].
    - rewrite app_nil_r. exact Hinv.
    - replace (seen ++ v :: r) with ((seen ++ [v]) ++ r) in * by (rewrite <- app_assoc; reflexivity).
      apply IH; [exact Hu|]. apply collect_inv; [|exact Hinv].
      apply Forall_app in Hu. tauto.
  Qed.

  (* ---- what the statistics guarantee *)
  Record stats_ok (s : column_stats) (vals : list N) : Prop := {
    so_rows : st_rows s = N.of_nat (length vals);
    so_gcd_pos : st_gcd s <> 0;
    so_bounds : Forall (fun v => st_min s <= v <= st_max s) vals;
    so_min_max : st_min s <= st_max s /\ st_max s < 2 ^ 64;
    so_attained : vals <> [] -> In (st_min s) vals /\ In (st_max s) vals;
    so_div : Forall (fun v => N.divide (st_gcd s) (v - st_min s)) vals;
    so_div_max : N.divide (st_gcd s) (st_max s - st_min s) }.

  Theorem stats_of_ok vals : all_u64 vals -> stats_ok (stats_of vals) vals.
  Proof.
    intros Hu. pose proof (fold_collect_inv vals collector_new [] Hu collector_new_inv) as [Hrows Hempty Hmm Hfirst].
    cbn [app] in *. unfold stats_of, collector_stats. set (c := fold_left collect vals collector_new) in *.
    destruct vals as [|v0 vals'].
    - clear Hrows Hempty Hmm Hfirst. subst c. cbn. constructor; cbn [st_min st_max st_gcd st_rows length].
      + reflexivity.
      + discriminate.
      + constructor.
      + split; [lia|reflexivity].
      + intros H; contradiction H; reflexivity.
      + constructor.
      + exists 0. reflexivity.
    - set (vals := v0 :: vals') in *.
      destruct (Hmm ltac:(discriminate)) as (mn & mx & -> & Hin1 & Hin2 & Hall).
      destruct (Hfirst ltac:(discriminate)) as (f & _ & Hinf & Hg).
      assert (Hmnmx : mn <= mx) by (pose proof (proj1 (Forall_forall _ _) Hall mn Hin1); cbn in *; lia).
      assert (Hdivall : Forall (fun v => N.divide (match c_gcd c with Some g => g | None => 1 end) (v - mn)) vals).
      { apply Forall_forall. intros v Hv.
        assert (Hle : mn <= v) by (pose proof (proj1 (Forall_forall _ _) Hall v Hv); cbn in *; lia).
        destruct (c_gcd c) as [g|]; [|apply N.divide_1_l].
        destruct Hg as (Hg0 & _ & Hz).
        pose proof (proj1 (Forall_forall _ _) Hz v Hv) as [a Ha].
        pose proof (proj1 (Forall_forall _ _) Hz mn Hin1) as [b Hb]. cbn in Ha, Hb.
        assert (Hab : (Z.of_N (v - mn) = (a - b) * Z.of_N g)%Z) by lia.
        exists (Z.to_N (a - b)). apply N2Z.inj. rewrite Hab, N2Z.inj_mul, Z2N.id; [reflexivity|].
        nia. }
      constructor; cbn [st_min st_max st_gcd st_rows].
      + exact Hrows.
      + destruct (c_gcd c) as [g|]; [tauto|discriminate].
      + exact Hall.
      + split; [exact Hmnmx|]. apply (proj1 (Forall_forall _ _) Hu mx Hin2).
      + intros _. split; assumption.
      + exact Hdivall.
      + apply (proj1 (Forall_forall _ _) Hdivall mx Hin2).
  Qed.

  Lemma stats_wire_roundtrip s vals : stats_ok s vals -> stats_unwire (stats_wire s) = s.
  Proof.
    intros H. destruct s as [mn mx g rows]. unfold stats_wire, stats_unwire. cbn [st_min st_max st_gcd st_rows].
    destruct H as [_ Hg _ [Hle _] _ _ Hd]. cbn [st_min st_max st_gcd st_rows] in *.
    f_equal. destruct Hd as [k Hk]. rewrite Hk, N.div_mul by exact Hg. lia.
  Qed.

  (* ------------------------------------------------------------------------------------------ *)
  (* Bit-packed codec *)
  Definition bp_num_bits (s : column_stats) : N := compute_num_bits ((st_max s - st_min s) / st_gcd s).

  (* BitpackedCodecEstimator::serialize: (stats on the wire, packed payload) *)
  Definition bitpacked_serialize (vals : list N) : (N * N * N * N) * bytes :=
    let s := stats_of vals in
    (stats_wire s, pack (bp_num_bits s) (map (fun v => fdiv (st_gcd s) (v - st_min s)) vals)).

  (* BitpackedReader::get_val on a loaded column *)
  Definition bitpacked_get (col : (N * N * N * N) * bytes) (idx : N) : option N :=
    let s := stats_unwire (fst col) in
    match unpacker_get (bp_num_bits s) idx (snd col) with
    | Some q => Some (st_min s + st_gcd s * q)
    | None => None
    end.
  Definition bitpacked_min (col : (N * N * N * N) * bytes) : N := st_min (stats_unwire (fst col)).
  Definition bitpacked_max (col : (N * N * N * N) * bytes) : N := st_max (stats_unwire (fst col)).
  Definition bitpacked_num_vals (col : (N * N * N * N) * bytes) : N := st_rows (stats_unwire (fst col)).

  Lemma quotients_below s vals : stats_ok s vals ->
    all_below (bp_num_bits s) (map (fun v => fdiv (st_gcd s) (v - st_min s)) vals).
  Proof.
    intros [_ Hg Hb [Hle Hmax] _ _ _]. unfold all_below. apply Forall_map, Forall_forall. intros v Hv.
    pose proof (proj1 (Forall_forall _ _) Hb v Hv) as Hvb. cbn in Hvb.
    rewrite fdiv_spec by (try exact Hg; lia).
    unfold bp_num_bits. apply compute_num_bits_mono.
    - apply N.div_le_mono; [exact Hg|lia].
    - eapply N.le_lt_trans; [apply N.div_le_upper_bound with (q := st_max s - st_min s); [exact Hg|]|lia].
      destruct (st_gcd s); [contradiction|nia].
  Qed.

  (* what the reader finds at row i: the quotient (v_i - min) / gcd, from which v_i is rebuilt exactly *)
  Lemma bitpacked_quotient vals i : all_u64 vals -> (i < length vals)%nat ->
    let s := stats_of vals in
    unpacker_get (bp_num_bits s) (N.of_nat i) (snd (bitpacked_serialize vals)) = Some ((nth i vals 0 - st_min s) / st_gcd s) /\
    st_min s + st_gcd s * ((nth i vals 0 - st_min s) / st_gcd s) = nth i vals 0.
  Proof.
    intros Hu Hi s. pose proof (stats_of_ok vals Hu) as Hok. fold s in Hok.
    unfold bitpacked_serialize. cbn [snd]. fold s.
    destruct Hok as [Hrows Hg Hb Hmm Hatt Hd Hdm].
    pose proof (proj1 (Forall_forall _ _) Hb _ (nth_In vals 0 Hi)) as Hvb. cbn in Hvb.
    pose proof (proj1 (Forall_forall _ _) Hd _ (nth_In vals 0 Hi)) as [k Hk].
    pose proof (all_u64_nth vals i Hu) as Hv64.
    split.
    - rewrite bitpack_roundtrip.
      + rewrite (nth_indep _ 0 (fdiv (st_gcd s) (0 - st_min s))) by (rewrite map_length; exact Hi).
        change (fdiv (st_gcd s) (0 - st_min s)) with ((fun v => fdiv (st_gcd s) (v - st_min s)) 0).
        rewrite map_nth. rewrite fdiv_spec by (try exact Hg; lia). reflexivity.
      + apply compute_num_bits_valid.
      + apply quotients_below. constructor; assumption.
      + rewrite map_length. exact Hi.
    - rewrite Hk, N.div_mul by exact Hg. lia.
  Qed.

  Theorem bitpacked_exact vals i : all_u64 vals -> (i < length vals)%nat ->
    bitpacked_get (bitpacked_serialize vals) (N.of_nat i) = Some (nth i vals 0).
  Proof.
    intros Hu Hi. pose proof (stats_of_ok vals Hu) as Hok.
    destruct (bitpacked_quotient vals i Hu Hi) as [Hq Hv].
    unfold bitpacked_get. replace (fst (bitpacked_serialize vals)) with (stats_wire (stats_of vals)) by reflexivity.
    rewrite (stats_wire_roundtrip _ _ Hok). rewrite Hq. f_equal. exact Hv.
  Qed.

  Theorem bitpacked_stats vals : all_u64 vals ->
    Forall (fun v => bitpacked_min (bitpacked_serialize vals) <= v <= bitpacked_max (bitpacked_serialize vals)) vals /\
    bitpacked_num_vals (bitpacked_serialize vals) = N.of_nat (length vals) /\
    (vals <> [] -> In (bitpacked_min (bitpacked_serialize vals)) vals /\ In (bitpacked_max (bitpacked_serialize vals)) vals).
  Proof.
    intros Hu. pose proof (stats_of_ok vals Hu) as Hok.
    unfold bitpacked_min, bitpacked_max, bitpacked_num_vals, bitpacked_serialize. cbn [fst].
    rewrite (stats_wire_roundtrip _ _ Hok). destruct Hok. tauto.
  Qed.

End FastDivide.

(* the instance used to run the model: plain u64 division *)
Definition udiv (d x : N) : N := x / d.
Lemma udiv_spec : forall d x, d <> 0 -> x < 2 ^ 64 -> udiv d x = x / d.
Proof. reflexivity. Qed.

(* transform_range_before_linear_transformation.  `guard` = the source has the test
   `|| *range.end() < stats.min_value` (pinned: COLUMNAR_RANGE_BELOW_MIN_GUARD; the fix of F81).
   For lo <= hi:  min + gcd*q in [lo, hi]  <->  q in [ceil((lo -sat min)/gcd), (hi -sat min)/gcd]  whenever hi >= min;
   when hi < min the saturating subtractions give 0..=0 although no value qualifies -- hence the guard. *)
Definition sat_sub (a b : N) : N := a - b.     (* N subtraction saturates at 0 *)
Definition div_ceil (n q : N) : N := let d := n / q in let r := n mod q in if 0 <? r then d + 1 else d.
Definition transform_range_g (guard : bool) (s : column_stats) (lo hi : N) : option (N * N) :=
  if (hi <? lo) || (guard && (hi <? st_min s)) then None
  else Some (div_ceil (sat_sub lo (st_min s)) (st_gcd s), sat_sub hi (st_min s) / st_gcd s).

Definition range_guard : bool := COLUMNAR_RANGE_BELOW_MIN_GUARD =? 1.
Definition transform_range : column_stats -> N -> N -> option (N * N) := transform_range_g range_guard.

Lemma div_ceil_spec n g q : g <> 0 -> (div_ceil n g <= q <-> n <= g * q).
Proof.
  intros Hg. unfold div_ceil. pose proof (N.div_mod n g Hg) as D. pose proof (N.mod_lt n g Hg) as M.
  destruct (0 <? n mod g) eqn:E; [apply N.ltb_lt in E|apply N.ltb_ge in E]; split; intros H; nia.
Qed.

(* exact whenever the guard is present or the upper end is not below the column minimum *)
Theorem transform_range_exact guard s lo hi q : st_gcd s <> 0 -> (guard = true \/ st_min s <= hi) ->
  match transform_range_g guard s lo hi with
  | None => ~ (lo <= st_min s + st_gcd s * q <= hi)
  | Some (a, b) => (a <= q <= b) <-> (lo <= st_min s + st_gcd s * q <= hi)
  end.
Proof.
  intros Hg Hcls. unfold transform_range_g. destruct (hi <? lo) eqn:E; [apply N.ltb_lt in E; cbn [orb]; lia|].
  apply N.ltb_ge in E. cbn [orb].
  destruct (guard && (hi <? st_min s)) eqn:EG.
  - apply andb_true_iff in EG as [_ EG]. apply N.ltb_lt in EG. lia.
  - assert (Hhi : st_min s <= hi).
    { destruct Hcls as [->|H]; [|exact H]. cbn [andb] in EG. apply N.ltb_ge in EG. exact EG. }
    unfold sat_sub. rewrite div_ceil_spec by exact Hg.
    assert (Hb : q <= (hi - st_min s) / st_gcd s <-> st_gcd s * q <= hi - st_min s).
    { split; intros H.
      - pose proof (N.mul_div_le (hi - st_min s) (st_gcd s) Hg). nia.
      - apply N.div_le_lower_bound; [exact Hg|exact H]. }
    rewrite Hb. lia.
Qed.

(* ------------------------------------------------------------------------------------------ *)
(* BitpackedReader::get_row_ids_for_value_range, at the level of its result: the rows of [r0, r1)
   whose bit-packed quotient lies in the transformed range (BitUnpacker::get_ids_for_value_range; its
   batch decoding through bitpacking::BitPacker1x is external and not modelled). *)
(* BitUnpacker::get_ids_for_value_range, per decoded value q of a column of width w and a range a..=b:
   widths above BITUNPACKER_FAST_RANGE_MAX_BITS scan with `range.contains(&val)`; the others work on u32:
   nothing when the lower bound exceeds u32::MAX, otherwise `(start as u32) ..= (end.min(u32::MAX) as u32)`
   against `get(idx) as u32`.  The two source-level precautions are pinned as flags and followed. *)
Definition U32_MAX : N := 2 ^ 32 - 1.
Definition range_end_saturates : bool := BITUNPACKER_RANGE_END_SATURATES =? 1.
Definition range_start_above_u32_empty : bool := BITUNPACKER_RANGE_START_ABOVE_U32_EMPTY =? 1.
Definition unpacker_in_range (w a b q : N) : bool :=
  if BITUNPACKER_FAST_RANGE_MAX_BITS <? w then (a <=? q) && (q <=? b)
  else if range_start_above_u32_empty && (U32_MAX <? a) then false
  else
    let a32 := a mod 2 ^ 32 in
    let b32 := (if range_end_saturates then N.min b U32_MAX else b) mod 2 ^ 32 in
    (a32 <=? q mod 2 ^ 32) && (q mod 2 ^ 32 <=? b32).

(* the u32 path is sound: re-checked on the regenerated constants at every run *)
Definition range_u32_rule : Prop :=
  range_end_saturates = true /\ range_start_above_u32_empty = true /\ BITUNPACKER_FAST_RANGE_MAX_BITS <= 32.
Lemma range_u32_rule_holds : range_u32_rule.
Proof. vm_compute. repeat split; discriminate. Qed.

Lemma unpacker_in_range_plain w a b q : q < 2 ^ w -> unpacker_in_range w a b q = (a <=? q) && (q <=? b).
Proof.
  intros Hq. destruct range_u32_rule_holds as (Hs & He & Hw). unfold unpacker_in_range. rewrite Hs, He.
  destruct (BITUNPACKER_FAST_RANGE_MAX_BITS <? w) eqn:E; [reflexivity|]. apply N.ltb_ge in E.
  assert (Hq32 : q < 2 ^ 32).
  { eapply N.lt_le_trans; [exact Hq|]. apply N.pow_le_mono_r; [discriminate|lia]. }
  assert (HU : U32_MAX = 2 ^ 32 - 1) by reflexivity.
  cbn [andb]. destruct (U32_MAX <? a) eqn:Ea.
  - apply N.ltb_lt in Ea. symmetry. apply andb_false_iff. left. apply N.leb_gt. lia.
  - apply N.ltb_ge in Ea. rewrite (N.mod_small q) by exact Hq32. rewrite (N.mod_small a) by lia.
    rewrite (N.mod_small (N.min b U32_MAX)) by lia. f_equal.
    destruct (q <=? b) eqn:E1; [apply N.leb_le in E1; apply N.leb_le; lia|apply N.leb_gt in E1; apply N.leb_gt; lia].
Qed.

Definition bitpacked_range_rows_g (guard : bool) (col : (N * N * N * N) * bytes) (lo hi : N) (r0 r1 : nat) : list nat :=
  let s := stats_unwire (fst col) in
  match transform_range_g guard s lo hi with
  | None => []
  | Some (a, b) =>
    filter (fun i => match unpacker_get (bp_num_bits s) (N.of_nat i) (snd col) with
                     | Some q => unpacker_in_range (bp_num_bits s) a b q
                     | None => false
                     end) (seq r0 (r1 - r0))
  end.
(* the code as it is in /repo (guard as pinned) *)
Definition bitpacked_range_rows : (N * N * N * N) * bytes -> N -> N -> nat -> nat -> list nat :=
  bitpacked_range_rows_g range_guard.

(* the specification: rows of [r0, r1) whose value lies in [lo, hi] *)
Definition rows_in_range (vals : list N) (lo hi : N) (r0 r1 : nat) : list nat :=
  filter (fun i => (lo <=? nth i vals 0) && (nth i vals 0 <=? hi)) (seq r0 (r1 - r0)).

Lemma filter_ext_in_seq (f g : nat -> bool) l : (forall i, In i l -> f i = g i) -> filter f l = filter g l.
Proof.
  induction l as [|x l IH]; intros H; [reflexivity|]. cbn [filter].
  rewrite (H x (or_introl eq_refl)), IH; [reflexivity|]. intros i Hi. apply H. right. exact Hi.
Qed.
Lemma filter_false_nil {A} (l : list A) : filter (fun _ => false) l = [].
Proof. induction l; [reflexivity|assumption]. Qed.

Section RangeLookup.
  Variable fdiv : N -> N -> N.
  Hypothesis fdiv_spec : forall d x, d <> 0 -> x < 2 ^ 64 -> fdiv d x = x / d.

  (* exact for every range when the guard is present; without it, unless the (non-empty) range lies
     entirely below the column minimum *)
  Theorem bitpacked_range_exact guard vals lo hi r0 r1 : all_u64 vals -> (r1 <= length vals)%nat ->
    (guard = true \/ hi < lo \/ st_min (stats_of fdiv vals) <= hi) ->
    bitpacked_range_rows_g guard (bitpacked_serialize fdiv vals) lo hi r0 r1 = rows_in_range vals lo hi r0 r1.
  Proof.
    intros Hu Hr1 Hcls. pose proof (stats_of_ok fdiv fdiv_spec vals Hu) as Hok.
    unfold bitpacked_range_rows_g, rows_in_range.
    replace (fst (bitpacked_serialize fdiv vals)) with (stats_wire (stats_of fdiv vals)) by reflexivity.
    rewrite (stats_wire_roundtrip fdiv fdiv_spec _ _ Hok). set (s := stats_of fdiv vals) in *.
    assert (Hg : st_gcd s <> 0) by (destruct Hok; assumption).
    assert (Hcls' : guard = true \/ st_min s <= hi \/ hi < lo) by tauto.
    destruct (transform_range_g guard s lo hi) as [[a b]|] eqn:ET.
    - (* a transformed range: hi >= lo, and (guard or not) hi >= min is known or the class hypothesis applies *)
      assert (Hc : guard = true \/ st_min s <= hi).
      { unfold transform_range_g in ET. destruct (hi <? lo) eqn:E; [discriminate|]. apply N.ltb_ge in E.
        destruct Hcls' as [H|[H|H]]; [left; exact H|right; exact H|lia]. }
      apply filter_ext_in_seq. intros i Hi. apply in_seq in Hi.
      assert (Hil : (i < length vals)%nat) by lia.
      destruct (bitpacked_quotient fdiv fdiv_spec vals i Hu Hil) as [Hq Hv]. fold s in Hq, Hv.
      rewrite Hq.
      rewrite unpacker_in_range_plain.
      2:{ pose proof (quotients_below fdiv fdiv_spec s vals Hok) as Hqb.
          pose proof (proj1 (Forall_forall _ _) Hqb (fdiv (st_gcd s) (nth i vals 0 - st_min s))
                        (in_map (fun v => fdiv (st_gcd s) (v - st_min s)) vals _ (nth_In vals 0 Hil))) as Hlt.
          cbn beta in Hlt. rewrite fdiv_spec in Hlt; [exact Hlt|exact Hg|].
          pose proof (all_u64_nth vals i Hu). lia. }
      pose proof (transform_range_exact guard s lo hi ((nth i vals 0 - st_min s) / st_gcd s) Hg Hc) as Hex.
      rewrite ET, Hv in Hex.
      destruct ((a <=? _) && (_ <=? b)) eqn:E1; destruct ((lo <=? nth i vals 0) && (nth i vals 0 <=? hi)) eqn:E2; try reflexivity.
      + apply andb_true_iff in E1 as [E1a E1b]. apply N.leb_le in E1a, E1b.
        apply andb_false_iff in E2. destruct Hex as [Hex _]. specialize (Hex (conj E1a E1b)).
        destruct E2 as [E2|E2]; apply N.leb_gt in E2; lia.
      + apply andb_true_iff in E2 as [E2a E2b]. apply N.leb_le in E2a, E2b.
        apply andb_false_iff in E1. destruct Hex as [_ Hex]. specialize (Hex (conj E2a E2b)).
        destruct E1 as [E1|E1]; apply N.leb_gt in E1; lia.
    - (* no transformed range: the range is empty, or (guard) it lies below the minimum: nothing matches *)
      symmetry. rewrite <- (filter_ext_in_seq (fun _ => false)); [apply filter_false_nil|].
      intros i Hi. apply in_seq in Hi. assert (Hil : (i < length vals)%nat) by lia.
      symmetry. apply andb_false_iff.
      unfold transform_range_g in ET.
      destruct (hi <? lo) eqn:E.
      + apply N.ltb_lt in E. destruct (N.le_gt_cases lo (nth i vals 0)); [right; apply N.leb_gt; lia|left; apply N.leb_gt; lia].
      + cbn [orb] in ET. destruct (guard && (hi <? st_min s)) eqn:EG; [|discriminate].
        apply andb_true_iff in EG as [_ EG]. apply N.ltb_lt in EG.
        destruct Hok as [_ _ Hb _ _ _ _].
        pose proof (proj1 (Forall_forall _ _) Hb _ (nth_In vals 0 Hil)) as Hvb. cbn in Hvb.
        right. apply N.leb_gt. lia.
  Qed.
End RangeLookup.

(* the guard is in the source: re-checked on the regenerated constant at every run *)
Lemma range_guard_present : range_guard = true.
Proof. vm_compute. reflexivity. Qed.

(* F81 (fixed in /repo): the class of inputs on which the code WITHOUT the guard is wrong:
   a non-empty range lying entirely below the column minimum *)
Definition f81_class (lo hi col_min : N) : bool := (lo <=? hi) && (hi <? col_min).

(* ... there the old reader answered with the rows that hold the minimum (regression witness) *)
Lemma bitpacked_range_below_min_refuted :
  exists vals lo hi, f81_class lo hi (st_min (stats_of udiv vals)) = true /\
    bitpacked_range_rows_g false (bitpacked_serialize udiv vals) lo hi 0 (length vals) <> rows_in_range vals lo hi 0 (length vals).
Proof. exists [10; 20; 30], 3, 5. vm_compute. split; [reflexivity|discriminate]. Qed.
