(* The correspondence evaluators of Cases.v for the optional index: on well-formed inputs the check
   that runs the executable model (opt_tie) and the check against the row-list specification
   (opt_spec) are the same boolean, by the general theorems of OptionalIndexProofs.v.  Style: stdlib. *)
From TV Require Import Base.Prelude Generated.Constants Columnar.BitPack Columnar.OptionalIndex
  Columnar.Spec Columnar.Cases Columnar.OptionalIndexProofs.
Local Open Scope N_scope.

Lemma list_eqb_map_some a : forall b, list_eqb option_n_eqb (map Some a) (map Some b) = n_list_eqb a b.
Proof.
  unfold n_list_eqb. induction a as [|x a IH]; intros [|y b]; cbn [map list_eqb]; try reflexivity.
  now rewrite IH.
Qed.

Theorem opt_tie_is_spec num_rows rows docs ranks er erie esel :
  strictly_increasing rows -> Forall (fun r => r < num_rows) rows ->
  Forall (fun k => k < N.of_nat (length rows)) ranks ->
  opt_tie num_rows rows docs ranks er erie esel = opt_spec rows docs ranks er erie esel.
Proof.
  intros Hinc Hall Hranks. apply strictly_increasing_iff in Hinc.
  assert (rows_ok num_rows rows) as Hok by (split; assumption).
  unfold opt_tie, opt_spec.
  set (oi := optional_index_build num_rows rows).
  rewrite (map_ext (oi_rank oi) (fun d => Some (spec_rank rows d))) by (intros d; now apply optional_index_rank).
  rewrite <- (map_map (spec_rank rows) Some), list_eqb_map_some.
  rewrite (map_ext (oi_rank_if_exists oi) (spec_rank_if_exists rows)) by (intros d; now apply optional_index_rank_if_exists).
  rewrite (map_ext_in (oi_select oi) (spec_select rows)); [reflexivity|].
  intros k Hk. rewrite Forall_forall in Hranks. apply optional_index_select_spec; [exact Hok|now apply Hranks].
Qed.
