(* Optional index (rank / select over 65 536-row blocks, dense = 1024 x (u64 bit vector + u16 rank),
   sparse = sorted u16 list) and the multivalued index (start offsets):
   /repo/columnar/src/column_index/optional_index/{mod.rs, set_block/dense.rs, set_block/sparse.rs},
   /repo/columnar/src/column_index/multivalued_index.rs, /repo/columnar/src/column_index/mod.rs.
   The byte framing of blocks and metadata is not modelled (blocks are kept as decoded lists).
   Style: stdlib. *)
From TV Require Import Base.Prelude Generated.Constants Columnar.BitPack.
Local Open Scope N_scope.

(* ---------------------------------------------------------------- u64 bit tricks *)
Fixpoint pos_popcount (p : positive) : N :=
  match p with xH => 1 | xO q => pos_popcount q | xI q => 1 + pos_popcount q end.
Definition popcount (n : N) : N := match n with N0 => 0 | Npos p => pos_popcount p end.     (* count_ones *)

Fixpoint pos_ctz (p : positive) : N := match p with xO q => 1 + pos_ctz q | _ => 0 end.
Definition trailing_zeros (n : N) : N := match n with N0 => 64 | Npos p => pos_ctz p end.

(* rank_u64(bitvec, el) = (bitvec & ((1 << el) - 1)).count_ones() *)
Definition rank_u64 (bitvec el : N) : N := popcount (N.land bitvec (N.shiftl 1 el - 1)).
(* select_u64: clear the lowest set bit `rank` times (bitvec &= bitvec - 1), then trailing_zeros *)
Definition select_u64 (bitvec rank : N) : N :=
  trailing_zeros (iter (N.to_nat rank) (fun b => N.land b (wrap64 (b + (2 ^ 64 - 1)))) bitvec).   (* b - 1 wrapping *)
Definition get_bit_at (input n : N) : bool := negb (N.land input (N.shiftl 1 n) =? 0).

(* ---------------------------------------------------------------- sparse block *)
(* SparseBlock::binary_search: Ok(idx) / Err(insertion point) *)
Fixpoint sparse_search (fuel : nat) (data : list N) (target size left right : N) : bool * N :=
  match fuel with
  | O => (false, left)                                  (* not reached: size strictly decreases *)
  | S f =>
    if left <? right then
      let mid := left + size / 2 in
      let mid_val := nth (N.to_nat mid) data 0 in
      if mid_val <? target then let left' := mid + 1 in sparse_search f data target (right - left') left' right
      else if target <? mid_val then sparse_search f data target (mid - left) left mid
      else (true, mid)
    else (false, left)
  end.
Definition sparse_binary_search (data : list N) (target : N) : bool * N :=
  let n := N.of_nat (length data) in sparse_search (S (length data)) data target n 0 n.

Definition sparse_rank (data : list N) (el : N) : N := snd (sparse_binary_search data el).
Definition sparse_rank_if_exists (data : list N) (el : N) : option N :=
  let '(found, idx) := sparse_binary_search data el in if found then Some idx else None.
Definition sparse_contains (data : list N) (el : N) : bool := fst (sparse_binary_search data el).
Definition sparse_select (data : list N) (rank : N) : N := nth (N.to_nat rank) data 0.

(* ---------------------------------------------------------------- dense block *)
Definition mini_block : Type := N * N.      (* (bitvec, rank) *)
Definition wrap16 (x : N) : N := x mod 2 ^ 16.

(* serialize_dense_codec: state = (current_block_id, block, non_null_rows_before, reversed output) *)
Definition dense_state : Type := N * N * N * list mini_block.
Definition dense_flush (st : dense_state) : dense_state :=
  let '(cur, block, before, out) := st in
  (cur + 1, 0, wrap16 (before + popcount block), (block, before) :: out).
Fixpoint dense_loop (els : list N) (st : dense_state) : dense_state :=
  match els with
  | [] => st
  | el :: r =>
    let block_id := el / OPT_ELEMENTS_PER_MINI_BLOCK in
    let in_offset := el mod OPT_ELEMENTS_PER_MINI_BLOCK in
    let '(cur, block, before, out) := iter (N.to_nat (block_id - fst (fst (fst st)))) dense_flush st in
    dense_loop r (cur, N.lor block (N.shiftl 1 in_offset), before, out)
  end.
Definition NUM_MINI_BLOCKS : N := OPT_ELEMENTS_PER_BLOCK / OPT_ELEMENTS_PER_MINI_BLOCK.   (* u16::MAX / 64 + 1 *)
Definition dense_serialize (els : list N) : list mini_block :=
  let st := dense_loop els (0, 0, 0, []) in
  let '(_, _, _, out) := iter (N.to_nat (NUM_MINI_BLOCKS - fst (fst (fst st)))) dense_flush st in
  rev out.

Definition dense_mini (blk : list mini_block) (k : N) : mini_block := nth (N.to_nat k) blk (0, 0).
Definition dense_contains (blk : list mini_block) (el : N) : bool :=
  get_bit_at (fst (dense_mini blk (el / OPT_ELEMENTS_PER_MINI_BLOCK))) (el mod OPT_ELEMENTS_PER_MINI_BLOCK).
Definition dense_rank (blk : list mini_block) (el : N) : N :=
  let mb := dense_mini blk (el / OPT_ELEMENTS_PER_MINI_BLOCK) in
  snd mb + rank_u64 (fst mb) (el mod OPT_ELEMENTS_PER_MINI_BLOCK).
Definition dense_rank_if_exists (blk : list mini_block) (el : N) : option N :=
  if dense_contains blk el then Some (dense_rank blk el) else None.
(* find_miniblock_containing_rank: the last mini block of the leading run with mb.rank <= rank *)
Fixpoint find_miniblock (blk : list mini_block) (rank : N) (idx : N) (best : option N) : option N :=
  match blk with
  | [] => best
  | mb :: r => if snd mb <=? rank then find_miniblock r rank (idx + 1) (Some idx) else best
  end.
Definition dense_select (blk : list mini_block) (rank : N) : option N :=
  match find_miniblock blk rank 0 None with
  | None => None                                             (* .unwrap() panics *)
  | Some k => let mb := dense_mini blk k in
              Some (k * OPT_ELEMENTS_PER_MINI_BLOCK + select_u64 (fst mb) (rank - snd mb))
  end.

(* ---------------------------------------------------------------- the index *)
Inductive block_variant := Dense (blk : list mini_block) | Sparse (data : list N).
Record block_meta := { non_null_rows_before_block : N; variant : block_variant }.
Record optional_index := { oi_num_docs : N; oi_num_non_null : N; oi_metas : list block_meta }.

Definition is_sparse (num_rows_in_block : N) : bool := num_rows_in_block <? OPT_DENSE_BLOCK_THRESHOLD.

(* serialize_optional_index + open_optional_index: rows (ascending) grouped by block; every block of
   0 .. ceil(num_rows / ELEMENTS_PER_BLOCK) gets a meta (empty blocks are Sparse with no value) *)
Fixpoint build_blocks (nblocks : nat) (block_id : N) (rows : list N) (before : N) : list block_meta :=
  match nblocks with
  | O => []
  | S nb =>
    let here := filter (fun r => r / OPT_ELEMENTS_PER_BLOCK =? block_id) rows in
    let els := map (fun r => r mod OPT_ELEMENTS_PER_BLOCK) here in
    let cnt := N.of_nat (length els) in
    let v := if is_sparse cnt then Sparse els else Dense (dense_serialize els) in
    {| non_null_rows_before_block := before; variant := v |}
      :: build_blocks nb (block_id + 1) (filter (fun r => negb (r / OPT_ELEMENTS_PER_BLOCK =? block_id)) rows) (before + cnt)
  end.

Definition optional_index_build (num_rows : N) (rows : list N) : optional_index :=
  let nblocks := (num_rows + OPT_ELEMENTS_PER_BLOCK - 1) / OPT_ELEMENTS_PER_BLOCK in
  {| oi_num_docs := num_rows; oi_num_non_null := N.of_nat (length rows);
     oi_metas := build_blocks (N.to_nat nblocks) 0 rows 0 |}.

Definition block_rank (v : block_variant) (el : N) : N :=
  match v with Dense b => dense_rank b el | Sparse d => sparse_rank d el end.
Definition block_rank_if_exists (v : block_variant) (el : N) : option N :=
  match v with Dense b => dense_rank_if_exists b el | Sparse d => sparse_rank_if_exists d el end.
Definition block_contains (v : block_variant) (el : N) : bool :=
  match v with Dense b => dense_contains b el | Sparse d => sparse_contains d el end.
Definition block_select (v : block_variant) (rank : N) : option N :=
  match v with
  | Dense b => dense_select b rank
  | Sparse d => if rank <? N.of_nat (length d) then Some (sparse_select d rank) else None   (* slice panic *)
  end.

(* None = index out of bounds panic *)
Definition oi_rank (oi : optional_index) (doc : N) : option N :=
  if oi_num_docs oi <=? doc then Some (oi_num_non_null oi)
  else match nth_error (oi_metas oi) (N.to_nat (doc / OPT_ELEMENTS_PER_BLOCK)) with
       | None => None
       | Some m => Some (non_null_rows_before_block m + block_rank (variant m) (doc mod OPT_ELEMENTS_PER_BLOCK))
       end.
Definition oi_rank_if_exists (oi : optional_index) (doc : N) : option N :=
  match nth_error (oi_metas oi) (N.to_nat (doc / OPT_ELEMENTS_PER_BLOCK)) with
  | None => None
  | Some m => match block_rank_if_exists (variant m) (doc mod OPT_ELEMENTS_PER_BLOCK) with
              | Some r => Some (non_null_rows_before_block m + r)
              | None => None
              end
  end.
(* find_block(dense_idx, 0): the block before the first one whose offset exceeds the rank, else the last *)
Fixpoint find_block (metas : list block_meta) (rank : N) (pos : N) : N :=
  match metas with
  | [] => pos - 1
  | m :: r => if rank <? non_null_rows_before_block m then pos - 1 else find_block r rank (pos + 1)
  end.
Definition oi_select (oi : optional_index) (rank : N) : option N :=
  let pos := find_block (oi_metas oi) rank 0 in
  match nth_error (oi_metas oi) (N.to_nat pos) with
  | None => None
  | Some m => match block_select (variant m) (rank - non_null_rows_before_block m) with
              | Some e => Some (pos * OPT_ELEMENTS_PER_BLOCK + e)
              | None => None
              end
  end.

(* ---------------------------------------------------------------- specification on the row list *)
Definition spec_rank (rows : list N) (doc : N) : N := N.of_nat (length (filter (fun r => r <? doc) rows)).
Definition spec_contains (rows : list N) (doc : N) : bool := existsb (N.eqb doc) rows.
Definition spec_rank_if_exists (rows : list N) (doc : N) : option N :=
  if spec_contains rows doc then Some (spec_rank rows doc) else None.
Definition spec_select (rows : list N) (rank : N) : option N := nth_error rows (N.to_nat rank).

(* ---------------------------------------------------------------- multivalued index *)
(* V2: optional index over the documents that have values + start offsets (one more than such documents).
   range(doc) = [start[rank], start[rank+1]) when the document has values, empty otherwise *)
Definition mv_range (oi : optional_index) (starts : list N) (doc : N) : N * N :=
  match oi_rank_if_exists oi doc with
  | None => (0, 0)
  | Some rank => (nth (N.to_nat rank) starts 0, nth (N.to_nat (rank + 1)) starts 0)
  end.
(* what the writer stores for a column given as rows of values *)
Definition mv_docs_with_values (c : list (list N)) : list N :=
  map fst (filter (fun p => negb (Nat.eqb (length (snd p)) 0)) (combine (map N.of_nat (seq 0 (length c))) c)).
Fixpoint mv_start_offsets (acc : N) (c : list (list N)) : list N :=
  match c with
  | [] => [acc]
  | r :: t => match r with [] => mv_start_offsets acc t | _ => acc :: mv_start_offsets (acc + N.of_nat (length r)) t end
  end.
Definition mv_values_for_doc (oi : optional_index) (starts : list N) (values : list N) (doc : N) : list N :=
  let '(a, b) := mv_range oi starts doc in firstn (N.to_nat (b - a)) (skipn (N.to_nat a) values).
