(* Merge of column indexes (/repo/columnar/src/column_index/merge/{stacked.rs, shuffled.rs}) against
   the list-of-lists specification of Spec.v (merge_stacked, merge_shuffled): the row ids with
   values and the start offsets the merge hands to the serializer are those of the merged column,
   so the merged index read over the merged values reproduces the merged rows.
   Inputs: any number of column indexes of any kind (Empty / Full / Optional / Multivalued V2) as the
   writer builds them from a column; stacked = concatenation with row offsets; shuffled = any row
   mapping (new row -> (segment, old row)), deleted rows being absent from the mapping.
   Not modelled: u32 overflow of the cumulated offsets, MultiValueIndexV1 inputs.  Style: stdlib. *)
From TV Require Import Base.Prelude Generated.Constants Columnar.BitPack Columnar.OptionalIndex
  Columnar.Spec Columnar.OptionalIndexProofs Columnar.MultiValued.
Local Open Scope N_scope.

(* ------------------------------------------------------------------------------------------ *)
(* column indexes *)
Inductive column_index :=
| CIEmpty (num_docs : N)
| CIFull
| CIOptional (oi : optional_index)
| CIMulti (oi : optional_index) (starts : list N).

(* ColumnIndex::value_row_ids *)
Definition ci_value_range (ci : column_index) (doc : N) : N * N :=
  match ci with
  | CIEmpty _ => (0, 0)
  | CIFull => (doc, doc + 1)
  | CIOptional oi => match oi_rank_if_exists oi doc with Some r => (r, r + 1) | None => (0, 0) end
  | CIMulti oi starts => mv_range oi starts doc
  end.
Definition ci_values_for_doc (ci : column_index) (values : list N) (doc : N) : list N :=
  let '(a, b) := ci_value_range ci doc in firstn (N.to_nat (b - a)) (skipn (N.to_nat a) values).
(* ColumnIndex::has_value (None = panic) *)
Definition ci_has_value (ci : column_index) (doc : N) : option bool :=
  match ci with
  | CIEmpty _ => Some false
  | CIFull => Some true
  | CIOptional oi => oi_contains oi doc
  | CIMulti oi starts => let '(a, b) := mv_range oi starts doc in Some (a <? b)
  end.

(* the index the writer builds for a column, per kind; the kind must allow the shape of the rows *)
Inductive kind := KEmpty | KFull | KOptional | KMulti.
Definition ci_of (k : kind) (c : column) : column_index :=
  match k with
  | KEmpty => CIEmpty (N.of_nat (length c))
  | KFull => CIFull
  | KOptional => CIOptional (mv_index_of c)
  | KMulti => CIMulti (mv_index_of c) (mv_starts_of c)
  end.
Definition kind_allows (k : kind) (c : column) : Prop :=
  match k with
  | KEmpty => Forall (fun r => length r = 0%nat) c
  | KFull => Forall (fun r => length r = 1%nat) c
  | KOptional => Forall (fun r => (length r <= 1)%nat) c
  | KMulti => True
  end.

(* ------------------------------------------------------------------------------------------ *)
(* list helpers *)
Definition nz_counts (c : column) : list N := map (fun r => N.of_nat (length r)) (filter nonempty c).
Fixpoint scan_add (acc : N) (ns : list N) : list N :=
  match ns with [] => [] | n :: t => (acc + n) :: scan_add (acc + n) t end.
Fixpoint scan_diffs (prev : N) (l : list N) : list N :=
  match l with [] => [] | cur :: t => (cur - prev) :: scan_diffs cur t end.

Lemma mv_start_offsets_scan c : forall acc, mv_start_offsets acc c = acc :: scan_add acc (nz_counts c).
Proof.
  unfold nz_counts. induction c as [|r t IH]; intros acc; [reflexivity|].
  cbn [mv_start_offsets filter]. destruct r as [|x r]; cbn [nonempty length Nat.eqb negb map scan_add]; [apply IH|].
  now rewrite IH.
Qed.

Lemma scan_diffs_scan_add ns : forall acc, scan_diffs acc (scan_add acc ns) = ns.
Proof. induction ns as [|n t IH]; intros acc; cbn [scan_add scan_diffs]; [reflexivity|]. rewrite IH. f_equal. lia. Qed.

Lemma nz_counts_app a b : nz_counts (a ++ b) = nz_counts a ++ nz_counts b.
Proof. unfold nz_counts. now rewrite filter_app, map_app. Qed.

Lemma nz_counts_concat cs : nz_counts (concat cs) = concat (map nz_counts cs).
Proof. induction cs as [|c t IH]; [reflexivity|]. cbn [concat map]. now rewrite nz_counts_app, IH. Qed.

Lemma nz_counts_filter c : nz_counts c = filter (fun n => negb (n =? 0)) (map (fun r => N.of_nat (length r)) c).
Proof.
  unfold nz_counts. rewrite filter_map_comm. f_equal. apply filter_length_ext. intros r _.
  unfold nonempty. destruct r; reflexivity.
Qed.

Lemma docs_from_shift c : forall s, docs_from s c = map (fun x => N.of_nat s + x) (docs_from 0 c).
Proof.
  induction c as [|r t IH]; intros s; [reflexivity|].
  rewrite !docs_from_cons, map_app, (IH (S s)), (IH 1%nat), map_map.
  f_equal.
  - destruct (nonempty r); cbn [map]; [f_equal; lia|reflexivity].
  - apply map_ext. intros x. lia.
Qed.

Lemma docs_from_app a : forall b s, docs_from s (a ++ b) = docs_from s a ++ docs_from (s + length a) b.
Proof.
  induction a as [|r t IH]; intros b s.
  - cbn [app length]. now rewrite Nat.add_0_r.
  - cbn [app length]. rewrite !docs_from_cons, IH, <- app_assoc. do 3 f_equal. lia.
Qed.

Lemma docs_from_all_empty c s : Forall (fun r => length r = 0%nat) c -> docs_from s c = [].
Proof.
  revert s. induction c as [|r t IH]; intros s H; [reflexivity|]. inversion H as [|? ? Hr Ht]; subst.
  rewrite docs_from_cons, IH by exact Ht. unfold nonempty. now rewrite Hr.
Qed.

Lemma docs_from_all_nonempty c : forall s, Forall (fun r => nonempty r = true) c ->
  docs_from s c = map N.of_nat (seq s (length c)).
Proof.
  induction c as [|r t IH]; intros s H; [reflexivity|]. inversion H as [|? ? Hr Ht]; subst.
  rewrite docs_from_cons, IH, Hr by exact Ht. reflexivity.
Qed.

Lemma nz_counts_all_one c : Forall (fun r => (length r <= 1)%nat) c ->
  nz_counts c = repeat 1 (rows_with_values c).
Proof.
  unfold nz_counts, rows_with_values. induction 1 as [|r t Hr _ IH]; [reflexivity|]. cbn [filter].
  destruct r as [|x [|y r]]; cbn [nonempty length Nat.eqb negb map repeat] in *; [exact IH|now rewrite IH|lia].
Qed.

(* ------------------------------------------------------------------------------------------ *)
(* every kind of index reads back its column over the flat values *)
Lemma optional_range_as_multi c doc : Forall (fun r => (length r <= 1)%nat) c ->
  ci_value_range (CIOptional (mv_index_of c)) doc = mv_range (mv_index_of c) (mv_starts_of c) doc.
Proof.
  intros Hc. cbn [ci_value_range]. unfold mv_range, mv_index_of.
  rewrite optional_index_rank_if_exists by apply docs_rows_ok.
  unfold spec_rank_if_exists. destruct (spec_contains (mv_docs_with_values c) doc) eqn:Hin; [|reflexivity].
  set (r := spec_rank (mv_docs_with_values c) doc).
  assert (r < N.of_nat (rows_with_values c)) as Hr.
  { apply spec_contains_In in Hin. destruct (In_nth _ _ 0 Hin) as [k [Hk Ek]].
    unfold r. rewrite <- Ek, spec_rank_nth by (try apply docs_rows_ok; exact Hk).
    assert (length (mv_docs_with_values c) = rows_with_values c) as <-; [|lia].
    rewrite mv_docs_with_values_from.
    pose proof (docs_from_rank c 0 (length c) ltac:(lia)) as Hl. cbn [Nat.add] in Hl.
    rewrite firstn_all in Hl. rewrite spec_rank_all_lt in Hl; [lia|].
    eapply Forall_impl; [|apply docs_from_bounds]. cbv beta. intros x Hx. lia. }
  unfold mv_starts_of. rewrite mv_start_offsets_scan, nz_counts_all_one by exact Hc.
  assert (forall n acc k, (k < n)%nat -> nth k (scan_add acc (repeat 1 n)) 0 = acc + N.of_nat k + 1) as Hscan.
  { induction n as [|n IHn]; intros acc k Hk; [lia|]. cbn [repeat scan_add].
    destruct k as [|k]; cbn [nth]; [lia|]. rewrite IHn by lia. lia. }
  f_equal.
  - destruct (N.to_nat r) as [|k] eqn:Ek; cbn [nth]; [lia|]. rewrite Hscan by lia. lia.
  - replace (N.to_nat (r + 1)) with (S (N.to_nat r)) by lia. cbn [nth]. rewrite Hscan by lia. lia.
Qed.

Theorem ci_values_read_back k c doc : kind_allows k c -> (N.to_nat doc < length c)%nat ->
  ci_values_for_doc (ci_of k c) (all_values c) doc = values_for_doc c (N.to_nat doc).
Proof.
  intros Hk Hdoc. destruct k; cbn [kind_allows ci_of] in *.
  - (* Empty *)
    unfold ci_values_for_doc, values_for_doc. cbn [ci_value_range firstn].
    rewrite Forall_forall in Hk. specialize (Hk (nth (N.to_nat doc) c []) (nth_In _ _ Hdoc)).
    destruct (nth (N.to_nat doc) c []); [reflexivity|discriminate].
  - (* Full *)
    unfold ci_values_for_doc, values_for_doc, all_values. cbn [ci_value_range]. set (d := N.to_nat doc) in *.
    replace (N.to_nat (doc + 1 - doc)) with 1%nat by lia.
    assert (forall d, (d <= length c)%nat -> length (concat (firstn d c)) = d) as Hv.
    { clear d Hdoc. intros d Hd. revert d Hd.
      induction Hk as [|r t Hr _ IH]; intros d Hd; [cbn [length] in Hd; destruct d; [reflexivity|lia]|].
      destruct d as [|d]; [reflexivity|]. cbn [length] in Hd. cbn [firstn concat].
      rewrite app_length, IH, Hr by lia. reflexivity. }
    rewrite (concat_split c d Hdoc).
    pose proof (skipn_app_exact (concat (firstn d c)) (nth d c [] ++ concat (skipn (S d) c))) as Hs.
    rewrite Hv in Hs by lia. rewrite Hs.
    pose proof (firstn_app_exact (nth d c []) (concat (skipn (S d) c))) as Hf.
    rewrite Forall_forall in Hk. rewrite (Hk _ (nth_In c [] Hdoc)) in Hf. exact Hf.
  - (* Optional *)
    rewrite <- (multivalued_values c doc). unfold ci_values_for_doc, mv_values_for_doc.
    now rewrite optional_range_as_multi.
  - apply multivalued_values.
Qed.

(* ------------------------------------------------------------------------------------------ *)
(* stacked merge *)
Definition row_range (start n : N) : list N := map (fun i => start + N.of_nat i) (seq 0 (N.to_nat n)).
Definition shifted_docs (oi : optional_index) (start : N) : option (list N) :=
  match oi_non_null_docs oi with Some l => Some (map (fun x => start + x) l) | None => None end.

(* StackedOptionalIndex (a multivalued input panics) and get_doc_ids_with_values *)
Definition stacked_rows_optional (ci : column_index) (start n : N) : option (list N) :=
  match ci with
  | CIFull => Some (row_range start n)
  | CIOptional oi => shifted_docs oi start
  | CIMulti _ _ => None
  | CIEmpty _ => Some []
  end.
Definition stacked_rows_multi (ci : column_index) (start n : N) : option (list N) :=
  match ci with
  | CIEmpty _ => Some []
  | CIFull => Some (row_range start n)
  | CIOptional oi => shifted_docs oi start
  | CIMulti oi _ => shifted_docs oi start
  end.
(* flat_map over the columns, each with its row range of the stack order *)
Fixpoint stack_rows (per : column_index -> N -> N -> option (list N)) (cols : list (column_index * N)) (start : N)
  : option (list N) :=
  match cols with
  | [] => Some []
  | (ci, n) :: t => match per ci start n, stack_rows per t (start + n) with
                    | Some a, Some b => Some (a ++ b)
                    | _, _ => None
                    end
  end.
(* get_num_values_iterator *)
Definition stacked_num_values (ci : column_index) (n : N) : list N :=
  match ci with
  | CIEmpty _ => []
  | CIFull => repeat 1 (N.to_nat n)
  | CIOptional oi => repeat 1 (N.to_nat (oi_num_non_null oi))
  | CIMulti _ starts => tl (scan_diffs 0 starts)
  end.
(* StackedStartOffsets *)
Definition stacked_start_offsets (cols : list (column_index * N)) : list N :=
  0 :: scan_add 0 (concat (map (fun p => stacked_num_values (fst p) (snd p)) cols)).
Definition stack_num_rows (cols : list (column_index * N)) : N := fold_right (fun p acc => snd p + acc) 0 cols.

Definition stack_inputs (kcs : list (kind * column)) : list (column_index * N) :=
  map (fun kc => (ci_of (fst kc) (snd kc), N.of_nat (length (snd kc)))) kcs.
Definition inputs_ok (kcs : list (kind * column)) : Prop := Forall (fun kc => kind_allows (fst kc) (snd kc)) kcs.

Lemma all_nonempty_of_one c : Forall (fun r => length r = 1%nat) c -> Forall (fun r => nonempty r = true) c.
Proof. intros H. eapply Forall_impl; [|exact H]. cbv beta. intros r Hr. unfold nonempty. now rewrite Hr. Qed.

Lemma row_range_docs s c : Forall (fun r => length r = 1%nat) c ->
  row_range (N.of_nat s) (N.of_nat (length c)) = docs_from s c.
Proof.
  intros H. rewrite docs_from_shift, (docs_from_all_nonempty c 0) by now apply all_nonempty_of_one.
  unfold row_range. now rewrite Nat2N.id, map_map.
Qed.

Lemma shifted_docs_of c s : shifted_docs (mv_index_of c) (N.of_nat s) = Some (docs_from s c).
Proof.
  unfold shifted_docs, mv_index_of. rewrite optional_index_non_null_docs by apply docs_rows_ok.
  now rewrite (docs_from_shift c s), mv_docs_with_values_from.
Qed.

Lemma stacked_rows_multi_of k c s : kind_allows k c ->
  stacked_rows_multi (ci_of k c) (N.of_nat s) (N.of_nat (length c)) = Some (docs_from s c).
Proof.
  intros Hk. destruct k; cbn [ci_of stacked_rows_multi kind_allows] in *.
  - now rewrite docs_from_all_empty.
  - now rewrite row_range_docs.
  - apply shifted_docs_of.
  - apply shifted_docs_of.
Qed.

Lemma stack_rows_multi_of kcs : inputs_ok kcs -> forall s,
  stack_rows stacked_rows_multi (stack_inputs kcs) (N.of_nat s) = Some (docs_from s (concat (map snd kcs))).
Proof.
  induction 1 as [|[k c] t Hk _ IH]; intros s; [reflexivity|].
  cbn [stack_inputs map fst snd stack_rows concat] in *. rewrite stacked_rows_multi_of by exact Hk.
  replace (N.of_nat s + N.of_nat (length c)) with (N.of_nat (s + length c)) by lia.
  fold (stack_inputs t). rewrite IH, docs_from_app. reflexivity.
Qed.

Lemma stacked_num_values_of k c : kind_allows k c ->
  stacked_num_values (ci_of k c) (N.of_nat (length c)) = nz_counts c.
Proof.
  intros Hk. destruct k; cbn [ci_of stacked_num_values kind_allows] in *.
  - unfold nz_counts. rewrite filter_none; [reflexivity|].
    eapply Forall_impl; [|exact Hk]. cbv beta. intros r Hr. unfold nonempty. now rewrite Hr.
  - rewrite nz_counts_all_one by (eapply Forall_impl; [|exact Hk]; cbv beta; intros; lia).
    unfold rows_with_values. rewrite filter_all by now apply all_nonempty_of_one. now rewrite Nat2N.id.
  - rewrite nz_counts_all_one by exact Hk. unfold mv_index_of.
    change (oi_num_non_null (optional_index_build (N.of_nat (length c)) (mv_docs_with_values c)))
      with (N.of_nat (length (mv_docs_with_values c))).
    rewrite Nat2N.id. f_equal. unfold mv_docs_with_values, rows_with_values.
    rewrite map_length.
    assert (forall (l : list N), length l = length c ->
              length (filter (fun p : N * list N => negb (Nat.eqb (length (snd p)) 0)) (combine l c))
              = length (filter nonempty c)) as Hg.
    { clear. induction c as [|r t IH]; intros [|x l] Hl; cbn [length] in Hl; try lia; [reflexivity|].
      cbn [combine filter snd]. unfold nonempty at 1.
      destruct (negb (Nat.eqb (length r) 0)); cbn [length]; rewrite IH by lia; reflexivity. }
    apply Hg. now rewrite map_length, seq_length.
  - unfold mv_starts_of. rewrite mv_start_offsets_scan. cbn [scan_diffs tl].
    apply scan_diffs_scan_add.
Qed.

Theorem stacked_multivalued kcs : inputs_ok kcs ->
  let cols := stack_inputs kcs in
  let merged := merge_stacked (map snd kcs) in
  stack_num_rows cols = N.of_nat (length merged) /\
  stack_rows stacked_rows_multi cols 0 = Some (mv_docs_with_values merged) /\
  stacked_start_offsets cols = mv_start_offsets 0 merged.
Proof.
  intros Hok. cbv zeta. unfold merge_stacked. repeat split.
  - clear Hok. induction kcs as [|[k c] t IH]; [reflexivity|].
    cbn [stack_inputs map stack_num_rows fold_right snd fst concat] in *. rewrite app_length.
    fold (stack_inputs t). unfold stack_num_rows in IH. rewrite IH. lia.
  - change 0 with (N.of_nat 0). rewrite stack_rows_multi_of by exact Hok. reflexivity.
  - rewrite mv_start_offsets_scan, nz_counts_concat. unfold stacked_start_offsets. do 3 f_equal.
    unfold stack_inputs. rewrite !map_map. apply map_ext_in. intros [k c] Hin. cbn [fst snd].
    apply stacked_num_values_of. unfold inputs_ok in Hok. rewrite Forall_forall in Hok. exact (Hok _ Hin).
Qed.

(* cardinality Optional after the merge: no multivalued input *)
Definition no_multi (kcs : list (kind * column)) : Prop := Forall (fun kc => fst kc <> KMulti) kcs.

Theorem stacked_optional kcs : inputs_ok kcs -> no_multi kcs ->
  stack_rows stacked_rows_optional (stack_inputs kcs) 0 = Some (mv_docs_with_values (merge_stacked (map snd kcs))).
Proof.
  intros Hok Hnm. rewrite <- (proj1 (proj2 (stacked_multivalued kcs Hok))).
  generalize 0 as s. induction Hnm as [|[k c] t Hk _ IH]; intros s; [reflexivity|].
  inversion Hok as [|? ? _ Hok']; subst. specialize (IH Hok').
  cbn [stack_inputs map fst snd stack_rows] in *. fold (stack_inputs t). rewrite IH.
  destruct k; cbn [ci_of stacked_rows_optional stacked_rows_multi]; try reflexivity. congruence.
Qed.

(* the merged index over the concatenated values reads as the concatenation of the columns *)
Theorem stacked_read_back kcs doc : inputs_ok kcs ->
  let merged := merge_stacked (map snd kcs) in
  forall rows starts, stack_rows stacked_rows_multi (stack_inputs kcs) 0 = Some rows ->
    starts = stacked_start_offsets (stack_inputs kcs) ->
    mv_values_for_doc (optional_index_build (stack_num_rows (stack_inputs kcs)) rows) starts
      (concat (map (fun kc => all_values (snd kc)) kcs)) doc
    = values_for_doc merged (N.to_nat doc).
Proof.
  intros Hok merged rows starts Hrows ->.
  destruct (stacked_multivalued kcs Hok) as [Hn [Hr Hs]]. cbv zeta in *. fold merged in Hn, Hr, Hs.
  rewrite Hr in Hrows. injection Hrows as <-. rewrite Hn, Hs.
  replace (concat (map (fun kc => all_values (snd kc)) kcs)) with (all_values merged).
  - apply multivalued_values.
  - unfold merged, merge_stacked, all_values. clear.
    induction kcs as [|[k c] t IH]; [reflexivity|]. cbn [concat map snd]. now rewrite concat_app, IH.
Qed.

(* ------------------------------------------------------------------------------------------ *)
(* shuffled merge *)
Definition opt_bool_cons (new_row : N) (h : option bool) (t : option (list N)) : option (list N) :=
  match h, t with
  | Some true, Some l => Some (new_row :: l)
  | Some false, Some l => Some l
  | _, _ => None
  end.
(* ShuffledIndex: enumerate().filter_map(has_value) *)
Fixpoint shuffled_rows (cols : list column_index) (mapping : list (nat * nat)) (new_row : N) : option (list N) :=
  match mapping with
  | [] => Some []
  | (seg, old) :: t =>
    match nth_error cols seg with
    | None => None                                                      (* index panic *)
    | Some ci => opt_bool_cons new_row (ci_has_value ci (N.of_nat old)) (shuffled_rows cols t (new_row + 1))
    end
  end.
(* iter_num_values *)
Definition shuffled_num_values_one (ci : column_index) (old : N) : option N :=
  match ci with
  | CIEmpty _ => Some 0
  | CIFull => Some 1
  | CIOptional oi => match oi_contains oi old with Some b => Some (if b then 1 else 0) | None => None end
  | CIMulti oi starts => let '(a, b) := mv_range oi starts old in Some (b - a)
  end.
Definition shuffled_num_values (cols : list column_index) (mapping : list (nat * nat)) : option (list N) :=
  all_some (map (fun a => match nth_error cols (fst a) with
                          | None => None
                          | Some ci => shuffled_num_values_one ci (N.of_nat (snd a))
                          end) mapping).
(* integrate_num_vals *)
Definition integrate_num_vals (ns : list N) : list N := 0 :: scan_add 0 (filter (fun n => negb (n =? 0)) ns).

Definition mapping_ok (cs : list column) (mapping : list (nat * nat)) : Prop :=
  Forall (fun a => (fst a < length cs)%nat /\ (snd a < length (nth (fst a) cs []))%nat) mapping.

Lemma mv_range_of c d : (d < length c)%nat ->
  mv_range (mv_index_of c) (mv_starts_of c) (N.of_nat d) =
  (if nonempty (nth d c []) then values_before c d else 0,
   if nonempty (nth d c []) then values_before c d + N.of_nat (length (nth d c [])) else 0).
Proof.
  intros Hd. destruct (nth d c []) as [|x r] eqn:Er.
  - cbn [nonempty length Nat.eqb negb]. apply multivalued_range_empty. now rewrite Nat2N.id.
  - cbn [nonempty length Nat.eqb negb]. rewrite multivalued_range, Er by (rewrite ?Er; congruence). reflexivity.
Qed.

Lemma has_value_of k c d : kind_allows k c -> (d < length c)%nat ->
  ci_has_value (ci_of k c) (N.of_nat d) = Some (nonempty (nth d c [])) /\
  shuffled_num_values_one (ci_of k c) (N.of_nat d) = Some (N.of_nat (length (nth d c []))).
Proof.
  intros Hk Hd. pose proof (nth_In c [] Hd) as Hin.
  assert (oi_contains (mv_index_of c) (N.of_nat d) = Some (nonempty (nth d c []))) as Hcont.
  { unfold mv_index_of. rewrite optional_index_contains by (try apply docs_rows_ok; lia).
    f_equal. exact (docs_from_contains c 0 d). }
  destruct k; cbn [ci_of ci_has_value shuffled_num_values_one kind_allows] in *.
  - rewrite Forall_forall in Hk. specialize (Hk _ Hin). unfold nonempty. now rewrite Hk.
  - rewrite Forall_forall in Hk. specialize (Hk _ Hin). unfold nonempty. now rewrite Hk.
  - rewrite Hcont. split; [reflexivity|]. rewrite Forall_forall in Hk. specialize (Hk _ Hin).
    destruct (nth d c []) as [|x [|y r]]; cbn [length] in *; [reflexivity|reflexivity|lia].
  - rewrite mv_range_of by exact Hd. destruct (nth d c []) as [|x r]; cbn [nonempty length Nat.eqb negb].
    + split; reflexivity.
    + split; f_equal; [|lia]. apply N.ltb_lt. lia.
Qed.

Definition shuffle_inputs (kcs : list (kind * column)) : list column_index :=
  map (fun kc => ci_of (fst kc) (snd kc)) kcs.

Lemma shuffle_lookup kcs seg old : inputs_ok kcs -> (seg < length kcs)%nat ->
  (old < length (nth seg (map snd kcs) []))%nat ->
  exists k c, nth_error (shuffle_inputs kcs) seg = Some (ci_of k c) /\ kind_allows k c /\
              nth seg (map snd kcs) [] = c /\ (old < length c)%nat.
Proof.
  intros Hok Hseg Hold. destruct (nth_error kcs seg) as [[k c]|] eqn:E; [|apply nth_error_None in E; lia].
  exists k, c. unfold shuffle_inputs. rewrite (map_nth_error _ _ _ E). cbn [fst snd].
  assert (nth seg (map snd kcs) [] = c) as Hc.
  { apply nth_error_nth. now rewrite (map_nth_error _ _ _ E). }
  rewrite Hc in Hold. repeat split; try assumption.
  unfold inputs_ok in Hok. rewrite Forall_forall in Hok. apply (Hok (k, c)). eapply nth_error_In, E.
Qed.

Theorem shuffled_merge kcs mapping : inputs_ok kcs -> mapping_ok (map snd kcs) mapping ->
  let cols := shuffle_inputs kcs in
  let merged := merge_shuffled (map snd kcs) mapping in
  shuffled_rows cols mapping 0 = Some (mv_docs_with_values merged) /\
  (exists ns, shuffled_num_values cols mapping = Some ns /\ integrate_num_vals ns = mv_start_offsets 0 merged).
Proof.
  intros Hok Hmap. cbv zeta. split.
  - rewrite mv_docs_with_values_from. change 0 with (N.of_nat 0). generalize 0%nat as s.
    induction Hmap as [|[seg old] t [Hseg Hold] _ IH]; intros s; [reflexivity|].
    cbn [fst snd] in Hseg, Hold. rewrite map_length in Hseg.
    destruct (shuffle_lookup kcs seg old Hok Hseg Hold) as [k [c [E [Hk [Hc Hold']]]]].
    cbn [shuffled_rows merge_shuffled map fst snd]. rewrite E, (proj1 (has_value_of k c old Hk Hold')).
    replace (N.of_nat s + 1) with (N.of_nat (S s)) by lia. unfold merge_shuffled in IH. rewrite IH.
    rewrite docs_from_cons, Hc. destruct (nonempty (nth old c [])); reflexivity.
  - exists (map (fun r => N.of_nat (length r)) (merge_shuffled (map snd kcs) mapping)). split.
    + unfold shuffled_num_values, merge_shuffled. rewrite map_map. apply all_some_map.
      intros [seg old] Hin. unfold mapping_ok in Hmap. rewrite Forall_forall in Hmap.
      destruct (Hmap _ Hin) as [Hseg Hold]. cbn [fst snd] in *. rewrite map_length in Hseg.
      destruct (shuffle_lookup kcs seg old Hok Hseg Hold) as [k [c [E [Hk [Hc Hold']]]]].
      rewrite E, (proj2 (has_value_of k c old Hk Hold')), Hc. reflexivity.
    + unfold integrate_num_vals. now rewrite mv_start_offsets_scan, nz_counts_filter.
Qed.

(* the merged index over the merged values reads as the mapped rows *)
Theorem shuffled_read_back kcs mapping doc : inputs_ok kcs -> mapping_ok (map snd kcs) mapping ->
  let merged := merge_shuffled (map snd kcs) mapping in
  forall rows ns, shuffled_rows (shuffle_inputs kcs) mapping 0 = Some rows ->
    shuffled_num_values (shuffle_inputs kcs) mapping = Some ns ->
    mv_values_for_doc (optional_index_build (N.of_nat (length mapping)) rows) (integrate_num_vals ns)
      (all_values merged) doc
    = values_for_doc merged (N.to_nat doc).
Proof.
  intros Hok Hmap merged rows ns Hrows Hns.
  destruct (shuffled_merge kcs mapping Hok Hmap) as [Hr [ns' [Hn Hs]]]. cbv zeta in *. fold merged in Hr, Hs.
  rewrite Hr in Hrows. injection Hrows as <-. rewrite Hn in Hns. injection Hns as <-. rewrite Hs.
  replace (length mapping) with (length merged) by (unfold merged, merge_shuffled; apply map_length).
  apply multivalued_values.
Qed.
