(* Merge of the dictionaries of Str / Bytes columns and remapping of term ordinals:
   /repo/columnar/src/columnar/merge/merge_dict_column.rs (merge_dict_and_compute_term_ord_mapping, serialize_merged_dict,
   RemappedTermOrdinalsValues) and /repo/columnar/src/columnar/merge/term_merger.rs (TermMerger: k-way merge of the sorted
   term streams; all streams positioned on the smallest key are "matching segments").
   The model is the trace of the merge -- one step per distinct key: (key, kept?) -- and, per segment, the walk of its
   own term list along that trace (a term is registered at the step whose key equals it).  Style: stdlib. *)
From TV Require Import Base.Prelude Generated.Constants Columnar.BitPack Columnar.Spec.
Local Open Scope nat_scope.

Definition term := list N.
Fixpoint bytes_ltb (a b : term) : bool :=
  match a, b with
  | [], [] => false
  | [], _ :: _ => true
  | _ :: _, [] => false
  | x :: a', y :: b' => if N.ltb x y then true else if N.ltb y x then false else bytes_ltb a' b'
  end.
Definition term_eqb (a b : term) : bool := list_eqb N.eqb a b.
Lemma term_eqb_eq a b : term_eqb a b = true <-> a = b.
Proof. apply list_eqb_eq. intros x y. apply N.eqb_eq. Qed.

(* a stream: (ordinal of its current term, remaining terms) *)
Definition stream : Type := nat * list term.
Definition head (s : stream) : option term := hd_error (snd s).

(* the smallest current key (BinaryHeap order of TermsWithSegmentOrd) *)
Fixpoint min_head (streams : list stream) : option term :=
  match streams with
  | [] => None
  | s :: r => match head s, min_head r with
              | Some h, Some m => Some (if bytes_ltb m h then m else h)
              | Some h, None => Some h
              | None, x => x
              end
  end.

(* advance the streams positioned on key m; Some ord = this segment matches with that term ordinal *)
Definition pop (m : term) (s : stream) : stream * option nat :=
  match snd s with
  | h :: t => if term_eqb h m then ((S (fst s), t), Some (fst s)) else (s, None)
  | [] => (s, None)
  end.

(* should_keep_term: stacked merges keep everything; shuffled merges keep a term iff some matching segment uses it
   in an alive row (`used seg ord`; a segment without alive bitset uses everything) *)
Fixpoint any_used (used : nat -> nat -> bool) (seg : nat) (ms : list (option nat)) : bool :=
  match ms with
  | [] => false
  | Some o :: r => used seg o || any_used used (S seg) r
  | None :: r => any_used used (S seg) r
  end.

(* merge_dict_and_compute_term_ord_mapping as a trace: (key, kept?) per distinct key *)
Fixpoint ktrace (fuel : nat) (used : nat -> nat -> bool) (streams : list stream) : list (term * bool) :=
  match fuel with
  | O => []
  | S f => match min_head streams with
           | None => []
           | Some m => let popped := map (pop m) streams in
                       (m, any_used used 0 (map snd popped)) :: ktrace f used (map fst popped)
           end
  end.

(* the merged dictionary: the kept keys, in order *)
Definition merged_dict (trace : list (term * bool)) : list term := map fst (filter snd trace).

(* TermOrdinalMapping of one segment: for each of its terms, the merged ordinal registered at the step whose key
   equals the term (None = the term was dropped: no alive row uses it) *)
Fixpoint seg_map (trace : list (term * bool)) (cur : nat) (rest : list term) : list (option nat) :=
  match trace, rest with
  | [], _ => []
  | _, [] => []
  | (m, keep) :: tr, h :: t =>
    let cur' := if keep then S cur else cur in
    if term_eqb h m then (if keep then Some cur else None) :: seg_map tr cur' t else seg_map tr cur' rest
  end.
(* what is left of a segment's stream after the trace *)
Fixpoint seg_rest (trace : list (term * bool)) (rest : list term) : list term :=
  match trace, rest with
  | [], _ => rest
  | _, [] => []
  | (m, _) :: tr, h :: t => if term_eqb h m then seg_rest tr t else seg_rest tr rest
  end.

(* ------------------------------------------------------------------------------------------ *)
(* reading back: a registered ordinal designates the same term in the merged dictionary *)
Theorem seg_map_reads_same trace : forall cur rest j x,
  nth_error (seg_map trace cur rest) j = Some (Some x) ->
  cur <= x /\ nth_error (merged_dict trace) (x - cur) = nth_error rest j.
Proof.
  induction trace as [|[m keep] tr IH]; intros cur rest j x H; [destruct j; discriminate H|].
  destruct rest as [|h t]; [destruct j; discriminate H|]. cbn [seg_map] in H.
  unfold merged_dict. cbn [filter snd]. destruct (term_eqb h m) eqn:E.
  - apply term_eqb_eq in E. subst m. destruct j as [|j]; cbn [nth_error] in H.
    + destruct keep; [|discriminate H]. injection H as <-. split; [lia|]. rewrite Nat.sub_diag. reflexivity.
    + destruct keep.
      * apply IH in H as [Hle Hn]. split; [lia|]. cbn [map fst]. replace (x - cur) with (S (x - S cur)) by lia. exact Hn.
      * apply IH in H as [Hle Hn]. split; [lia|]. exact Hn.
  - destruct keep.
    + apply IH in H as [Hle Hn]. split; [lia|]. cbn [map fst]. replace (x - cur) with (S (x - S cur)) by lia. exact Hn.
    + apply IH in H as [Hle Hn]. split; [lia|]. exact Hn.
Qed.

Lemma seg_map_length trace : forall cur rest, length (seg_map trace cur rest) + length (seg_rest trace rest) = length rest.
Proof.
  induction trace as [|[m keep] tr IH]; intros cur rest; [reflexivity|]. destruct rest as [|h t]; [reflexivity|].
  cbn [seg_map seg_rest]. destruct (term_eqb h m); [cbn [length]; rewrite <- (IH (if keep then S cur else cur) t); lia|apply IH].
Qed.

(* a stacked merge keeps every key: nothing is dropped *)
Lemma seg_map_all_kept trace : forallb snd trace = true -> forall cur rest j,
  j < length (seg_map trace cur rest) -> exists x, nth_error (seg_map trace cur rest) j = Some (Some x).
Proof.
  induction trace as [|[m keep] tr IH]; intros Hk cur rest j Hj; [cbn in Hj; lia|].
  cbn [forallb snd] in Hk. apply andb_true_iff in Hk as [-> Hk].
  destruct rest as [|h t]; [cbn in Hj; lia|]. cbn [seg_map] in *. destruct (term_eqb h m).
  - destruct j as [|j]; [eexists; reflexivity|]. cbn [length] in Hj. cbn [nth_error]. apply IH; [exact Hk|lia].
  - apply IH; assumption.
Qed.

(* ------------------------------------------------------------------------------------------ *)
(* the trace of the k-way merge consumes every stream *)
Definition remaining (streams : list stream) : nat := list_sum (map (fun s => length (snd s)) streams).

Lemma min_head_some streams m : min_head streams = Some m -> exists s, In s streams /\ head s = Some m.
Proof.
  induction streams as [|s r IH]; intros H; [discriminate H|]. cbn [min_head] in H.
  destruct (head s) as [h|] eqn:Eh.
  - destruct (min_head r) as [m'|] eqn:Em.
    + destruct (bytes_ltb m' h); injection H as <-.
      * destruct (IH eq_refl) as (s' & Hin & Hs'). exists s'. split; [right; exact Hin|exact Hs'].
      * exists s. split; [left; reflexivity|exact Eh].
    + injection H as <-. exists s. split; [left; reflexivity|exact Eh].
  - destruct (IH H) as (s' & Hin & Hs'). exists s'. split; [right; exact Hin|exact Hs'].
Qed.
Lemma min_head_none streams : min_head streams = None -> Forall (fun s => snd s = []) streams.
Proof.
  induction streams as [|s r IH]; intros H; [constructor|]. cbn [min_head] in H. unfold head in H.
  destruct (snd s) as [|h t] eqn:Es; cbn [hd_error] in H.
  - constructor; [exact Es|apply IH, H].
  - destruct (min_head r); discriminate H.
Qed.

Lemma pop_length m s : length (snd (fst (pop m s))) <= length (snd s).
Proof.
  unfold pop. destruct s as [o l]. cbn [snd fst]. destruct l as [|h t]; [cbn; lia|]. destruct (term_eqb h m); cbn [fst snd length]; lia.
Qed.
Lemma pop_head_decreases m s : head s = Some m -> length (snd (fst (pop m s))) < length (snd s).
Proof.
  unfold head, pop. destruct s as [o l]. cbn [snd fst]. destruct l as [|h t]; cbn [hd_error]; [discriminate|]. intros [= ->].
  replace (term_eqb m m) with true by (symmetry; apply term_eqb_eq; reflexivity). cbn [fst snd length]. lia.
Qed.

Lemma remaining_decreases m streams : (exists s, In s streams /\ head s = Some m) ->
  remaining (map fst (map (pop m) streams)) < remaining streams.
Proof.
  unfold remaining. induction streams as [|s r IH]; intros (s0 & Hin & Hs0); [contradiction|].
  unfold list_sum in *. cbn [map fold_right] in *. pose proof (pop_length m s) as Hle.
  assert (Hr : fold_right Nat.add 0 (map (fun s1 => length (snd s1)) (map fst (map (pop m) r))) <= fold_right Nat.add 0 (map (fun s1 => length (snd s1)) r)).
  { clear. induction r as [|a r IHr]; [cbn; lia|]. unfold list_sum in *. cbn [map fold_right] in *. pose proof (pop_length m a). lia. }
  destruct Hin as [<-|Hin].
  - pose proof (pop_head_decreases m s Hs0). lia.
  - specialize (IH (ex_intro _ s0 (conj Hin Hs0))). lia.
Qed.

(* the walk of one segment: seg_rest of the trace = what kmerge left of the stream *)
Lemma pop_seg m s : snd (fst (pop m s)) = match snd s with h :: t => if term_eqb h m then t else h :: t | [] => [] end.
Proof. unfold pop. destruct s as [o l]. cbn [snd fst]. destruct l as [|h t]; [reflexivity|]. destruct (term_eqb h m); reflexivity. Qed.

Theorem ktrace_consumes used : forall fuel streams, remaining streams <= fuel ->
  Forall (fun s => seg_rest (ktrace fuel used streams) (snd s) = []) streams.
Proof.
  induction fuel as [|f IH]; intros streams Hf.
  - apply Forall_forall. intros s Hs. cbn [ktrace seg_rest].
    unfold remaining in Hf. assert (length (snd s) = 0); [|destruct (snd s); [reflexivity|discriminate]].
    clear -Hf Hs. unfold list_sum in Hf. induction streams as [|a r IHr]; [contradiction|]. cbn [map fold_right] in Hf. destruct Hs as [->|Hs]; [lia|apply IHr; [lia|exact Hs]].
  - cbn [ktrace]. destruct (min_head streams) as [m|] eqn:Em.
    + pose proof (remaining_decreases m streams (min_head_some streams m Em)) as Hdec.
      specialize (IH (map fst (map (pop m) streams)) ltac:(lia)).
      rewrite Forall_forall in IH. apply Forall_forall. intros s Hs.
      specialize (IH (fst (pop m s)) ltac:(apply in_map, in_map, Hs)). rewrite pop_seg in IH.
      cbn [seg_rest]. destruct (snd s) as [|h t]; [reflexivity|]. destruct (term_eqb h m); exact IH.
    + pose proof (min_head_none streams Em) as Hn. eapply Forall_impl; [|exact Hn]. cbv beta. intros s ->. reflexivity.
Qed.

Lemma any_used_true : forall ms seg, existsb (fun o => match o with Some _ => true | None => false end) ms = true ->
  any_used (fun _ _ => true) seg ms = true.
Proof. induction ms as [|[o|] r IH]; intros seg H; [discriminate H|reflexivity|cbn [existsb orb] in H; cbn [any_used]; apply IH, H]. Qed.

Lemma ktrace_stack_all_kept : forall fuel streams, forallb snd (ktrace fuel (fun _ _ => true) streams) = true.
Proof.
  induction fuel as [|f IH]; intros streams; [reflexivity|]. cbn [ktrace]. destruct (min_head streams) as [m|] eqn:Em; [|reflexivity].
  cbn [forallb snd]. rewrite IH, andb_true_r. apply any_used_true.
  destruct (min_head_some streams m Em) as (s & Hin & Hs). apply existsb_exists. exists (snd (pop m s)). split.
  - apply in_map, in_map, Hin.
  - unfold head in Hs. unfold pop. destruct (snd s) as [|h t]; [discriminate Hs|]. injection Hs as ->.
    replace (term_eqb m m) with true by (symmetry; apply term_eqb_eq; reflexivity). reflexivity.
Qed.

(* ------------------------------------------------------------------------------------------ *)
(* STACKED merge of any dictionaries (any term lists, any number of segments): every term ordinal of every segment is
   remapped to an ordinal that designates THE SAME TERM in the merged dictionary *)
Definition stack_trace (dicts : list (list term)) : list (term * bool) :=
  ktrace (list_sum (map (@length term) dicts)) (fun _ _ => true) (map (fun d => (0, d)) dicts).

Theorem stacked_dict_merge_reads_same dicts d ord : In d dicts -> ord < length d ->
  exists x, nth_error (seg_map (stack_trace dicts) 0 d) ord = Some (Some x) /\
            nth_error (merged_dict (stack_trace dicts)) x = nth_error d ord.
Proof.
  intros Hin Hord. unfold stack_trace.
  set (streams := map (fun d => (0, d)) dicts). set (fuel := list_sum (map (@length term) dicts)).
  assert (Hrem : remaining streams <= fuel).
  { unfold remaining, streams, fuel. rewrite map_map. cbn [snd]. apply Nat.eq_le_incl. f_equal. }
  pose proof (ktrace_consumes (fun _ _ => true) fuel streams Hrem) as Hc. rewrite Forall_forall in Hc.
  specialize (Hc (0, d) ltac:(unfold streams; apply in_map_iff; exists d; split; [reflexivity|exact Hin])). cbn [snd] in Hc.
  pose proof (seg_map_length (ktrace fuel (fun _ _ => true) streams) 0 d) as Hlen. rewrite Hc in Hlen. cbn [length] in Hlen.
  destruct (seg_map_all_kept _ (ktrace_stack_all_kept fuel streams) 0 d ord ltac:(lia)) as [x Hx].
  exists x. split; [exact Hx|]. apply seg_map_reads_same in Hx as [_ Hx]. rewrite Nat.sub_0_r in Hx. exact Hx.
Qed.

(* ------------------------------------------------------------------------------------------ *)
(* executable forms for the correspondence cases *)
Definition dict_merge (used : nat -> nat -> bool) (dicts : list (list term)) : list term * list (list (option nat)) :=
  let tr := ktrace (list_sum (map (@length term) dicts)) used (map (fun d => (0, d)) dicts) in
  (merged_dict tr, map (seg_map tr 0) dicts).
