(* Indexing/MergeSchedProofs.v -- proofs about start_merge / end_merge of MergeSched.v (C04). *)
From TV Require Import Base.Prelude Indexing.MergeSched.
Local Open Scope N_scope.

(* ------------------------------------------------------------------ start_merge has no effect on content *)
Theorem start_merge_transparent policy srcs s :
  let s' := start_merge policy srcs s in
  w_unc s' = w_unc s /\ w_com s' = w_com s /\ w_meta s' = w_meta s /\ w_queue s' = w_queue s /\
  w_pending s' = w_pending s /\ w_pcursor s' = w_pcursor s /\ w_copstamp s' = w_copstamp s /\ w_epoch s' = w_epoch s /\
  published s' = published s.
Proof.
  unfold start_merge. destruct srcs as [|i srcs]; [repeat split|].
  destruct (policy && existsb (in_merge s) (i :: srcs)); [repeat split|].
  destruct (negb (contains_all (w_unc s) (i :: srcs) || contains_all (w_com s) (i :: srcs))); repeat split.
Qed.

(* ------------------------------------------------------------------ a merge that can no longer be applied *)
Definition same_content (s s' : wstate) : Prop :=
  w_unc s' = w_unc s /\ w_com s' = w_com s /\ w_meta s' = w_meta s /\ w_queue s' = w_queue s /\
  w_pending s' = w_pending s /\ w_pcursor s' = w_pcursor s /\ w_copstamp s' = w_copstamp s /\
  w_stamp s' = w_stamp s /\ w_epoch s' = w_epoch s /\ w_next_seg s' = w_next_seg s.

Theorem end_merge_discarded k s r :
  nth_error (w_merges s) k = Some r ->
  (r_epoch r <> w_epoch s \/
   (contains_all (w_unc s) (r_srcs r) = false /\ contains_all (w_com s) (r_srcs r) = false)) ->
  same_content s (end_merge k s) /\ w_merges (end_merge k s) = remove_nth k (w_merges s).
Proof.
  intros Hk H. unfold end_merge. rewrite Hk.
  destruct (N.eqb (r_epoch r) (w_epoch s)) eqn:E; cbn [negb].
  - destruct H as [H|[H1 H2]]; [apply N.eqb_eq in E; contradiction|].
    rewrite H1, H2. unfold same_content. cbn. repeat split.
  - unfold same_content. cbn. repeat split.
Qed.

Theorem end_merge_no_such_merge k s : nth_error (w_merges s) k = None -> end_merge k s = s.
Proof. intros H. unfold end_merge. now rewrite H. Qed.

(* ------------------------------------------------------------------ reconciliation *)
Lemma filter_true {A} (l : list A) : filter (fun _ => true) l = l.
Proof. induction l as [|x l IH]; cbn [filter]; [reflexivity|now rewrite IH]. Qed.

Lemma advance_nothing q t e : consumed q (e_cursor e) t = [] -> advance q t e = e.
Proof.
  intros H. unfold advance. rewrite H. cbn [length killed_by existsb negb]. rewrite filter_true, Nat.add_0_r.
  destruct e; reflexivity.
Qed.

(* end_merge's test "next delete older than the committed opstamp" is exactly advance_deletes *)
Lemma reconcile_is_advance q cop e : reconcile q cop e = advance q cop e.
Proof.
  unfold reconcile.
  destruct (nth_error q (e_cursor e)) as [d|] eqn:E.
  - destruct (N.ltb (del_op d) cop) eqn:L; [reflexivity|].
    symmetry. apply advance_nothing. unfold consumed.
    assert (Hs : exists r, skipn (e_cursor e) q = d :: r).
    { clear -E. revert q E. generalize (e_cursor e) as c. induction c as [|c IH]; intros [|x q] E; try discriminate.
      - injection E as ->. now exists q.
      - cbn [nth_error] in E. cbn [skipn]. now apply IH. }
    destruct Hs as [r ->]. cbn [take_upto]. now rewrite L.
  - symmetry. apply advance_nothing. unfold consumed.
    apply nth_error_None in E. rewrite skipn_all2 by exact E. reflexivity.
Qed.

Lemma filter_concat {A} (p : A -> bool) (ls : list (list A)) : filter p (concat ls) = concat (map (filter p) ls).
Proof.
  induction ls as [|l ls IH]; [reflexivity|]. cbn [concat map].
  rewrite <- IH. clear IH. induction l as [|x l IHl]; [reflexivity|].
  cbn [app filter]. destruct (p x); cbn [app]; now rewrite IHl.
Qed.

(* advance_deletes on the merged entry = advance_deletes on every source, when the merged entry's
   cursor is the cursor of all of them *)
Theorem advance_merged q t seg es c :
  Forall (fun e => e_cursor e = c) es ->
  e_docs (advance q t (mkEntry seg (concat (map e_docs es)) c)) = concat (map (fun e => e_docs (advance q t e)) es) /\
  Forall (fun e => e_cursor (advance q t e) = e_cursor (advance q t (mkEntry seg (concat (map e_docs es)) c))) es.
Proof.
  intros Hc. unfold advance. cbn [e_docs e_cursor]. split.
  - rewrite filter_concat, map_map. f_equal.
    induction Hc as [|e es He _ IH]; [reflexivity|]. cbn [map]. rewrite He, IH. reflexivity.
  - induction Hc as [|e es He _ IH]; constructor; [now rewrite He|exact IH].
Qed.

(* Deletes that are committed while a merge is running are reflected in the merged segment when it is
   published: the merged entry computed from the sources as they were at start (cursor c), reconciled by
   end_merge against the CURRENT queue and committed opstamp, holds exactly the documents of the
   sources advanced to the current committed opstamp, and sits at the same cursor. *)
Theorem end_merge_reconciles q cop seg es c :
  Forall (fun e => e_cursor e = c) es ->
  let m := reconcile q cop (mkEntry seg (concat (map e_docs es)) c) in
  e_docs m = concat (map (fun e => e_docs (advance q cop e)) es) /\
  Forall (fun e => e_cursor (advance q cop e) = e_cursor m) es.
Proof.
  intros Hc. cbn zeta. rewrite reconcile_is_advance. now apply advance_merged.
Qed.

(* advancing twice is advancing to the larger opstamp (what successive commits do to the sources) *)
Lemma take_upto_split t1 t2 l :
  (t1 <= t2)%N -> take_upto t2 l = take_upto t1 l ++ take_upto t2 (skipn (length (take_upto t1 l)) l).
Proof.
  intros Hle. induction l as [|d l IH]; [reflexivity|]. cbn [take_upto].
  destruct (N.ltb (del_op d) t1) eqn:E1.
  - apply N.ltb_lt in E1. assert (E2 : N.ltb (del_op d) t2 = true) by (apply N.ltb_lt; lia).
    rewrite E2. cbn [app length skipn]. now rewrite <- IH.
  - cbn [app length skipn take_upto]. reflexivity.
Qed.

Lemma killed_by_app a b d : killed_by (a ++ b) d = killed_by a d || killed_by b d.
Proof. unfold killed_by. apply existsb_app. Qed.

Lemma skipn_add {A} a b (l : list A) : skipn (a + b) l = skipn b (skipn a l).
Proof.
  revert l; induction a as [|a IH]; intros l; [reflexivity|].
  destruct l as [|x l]; [now rewrite !skipn_nil|]. cbn [Nat.add skipn]. apply IH.
Qed.

Theorem advance_advance q t1 t2 e : (t1 <= t2)%N -> advance q t2 (advance q t1 e) = advance q t2 e.
Proof.
  intros Hle. unfold advance at 1 3. cbn [e_docs e_cursor e_seg]. unfold consumed.
  set (c1 := take_upto t1 (skipn (e_cursor e) q)).
  assert (Hsk : skipn (e_cursor e + length c1) q = skipn (length c1) (skipn (e_cursor e) q)) by apply skipn_add.
  unfold advance. cbn [e_docs e_cursor e_seg]. unfold consumed. fold c1. rewrite Hsk.
  rewrite (take_upto_split t1 t2 (skipn (e_cursor e) q) Hle). fold c1.
  set (c2 := take_upto t2 (skipn (length c1) (skipn (e_cursor e) q))).
  f_equal.
  - induction (e_docs e) as [|d l IH]; [reflexivity|]. cbn [filter].
    rewrite killed_by_app. destruct (killed_by c1 d); cbn [negb orb filter]; [exact IH|].
    destruct (killed_by c2 d); cbn [negb]; now rewrite IH.
  - rewrite app_length. lia.
Qed.

(* the k-way "cursors agree" condition of the known class holds for committed sources: all committed
   entries share one cursor as soon as they were published by the same commit / rollback *)
Lemma cursors_agree_spec es c : Forall (fun e => e_cursor e = c) es -> cursors_agree es = true.
Proof.
  intros H. destruct es as [|e es]; [reflexivity|]. cbn [cursors_agree].
  inversion H as [|? ? He Hes]; subst. apply forallb_forall. intros x Hx.
  rewrite Forall_forall in Hes. rewrite (Hes x Hx). apply Nat.eqb_refl.
Qed.

(* ------------------------------------------------------------------ pending (uncommitted) deletes and
   merges of committed segments.  Whoever proposes the merge (IndexWriter::merge or the merge policy in
   consider_merge_options), a merge of COMMITTED segments gets the LAST COMMIT's opstamp as target. *)
Theorem committed_merge_target policy srcs s :
  srcs <> [] ->
  policy && existsb (in_merge s) srcs = false ->
  contains_all (w_unc s) srcs = false -> contains_all (w_com s) srcs = true ->
  w_merges (start_merge policy srcs s) =
  w_merges s ++ [mkRunning (w_epoch s) srcs (do_merge (w_queue s) (w_copstamp s) (w_next_seg s) (get_all (w_com s) srcs))].
Proof.
  intros Hne Hin Hu Hc. unfold start_merge. destruct srcs as [|i srcs]; [congruence|].
  rewrite Hin, Hu, Hc. cbn [orb negb andb]. rewrite andb_false_r. reflexivity.
Qed.

Lemma consumed_pending q c cop :
  (forall d, In d (skipn c q) -> (cop <= del_op d)%N) -> consumed q c cop = [].
Proof.
  unfold consumed. intros H. destruct (skipn c q) as [|d r]; [reflexivity|]. cbn [take_upto].
  assert (Hd : (cop <= del_op d)%N) by (apply H; now left).
  replace (N.ltb (del_op d) cop) with false; [reflexivity|]. symmetry. apply N.ltb_ge. exact Hd.
Qed.

(* With that target, deletes that are still pending (every operation of the queue beyond the sources'
   cursor is stamped at or after the last commit) are NOT applied by the merge: the merged entry holds
   all documents of its sources, keeps their cursor (so the pending deletes are applied at the next
   commit and forgotten by a rollback), and end_merge's reconciliation leaves it alone. *)
Theorem committed_merge_ignores_pending q cop seg es c :
  es <> [] ->
  Forall (fun e => e_cursor e = c) es ->
  (forall d, In d (skipn c q) -> (cop <= del_op d)%N) ->
  do_merge q cop seg es =
    (if forallb (fun e => negb (nonempty e)) es then None
     else Some (mkEntry seg (concat (map e_docs es)) c)) /\
  reconcile q cop (mkEntry seg (concat (map e_docs es)) c) = mkEntry seg (concat (map e_docs es)) c.
Proof.
  intros Hne Hc Hp. split.
  - unfold do_merge. destruct es as [|e0 es0] eqn:Ees; [congruence|]. rewrite <- Ees in *.
    assert (Hid : map (advance q cop) es = es).
    { clear Hne Ees. induction Hc as [|e es He _ IH]; [reflexivity|]. cbn [map]. rewrite IH. f_equal.
      apply advance_nothing. rewrite He. now apply consumed_pending. }
    rewrite Hid. destruct (forallb (fun e => negb (nonempty e)) es); [reflexivity|].
    f_equal. f_equal. rewrite Ees. cbn [hd]. rewrite Ees in Hc. now inversion Hc.
  - rewrite reconcile_is_advance. apply advance_nothing. cbn [e_cursor]. now apply consumed_pending.
Qed.

(* ------------------------------------------------------------------ failed merges, uncommitted merges *)
(* a merge whose merge() failed (e.g. an I/O error while writing the merged segment) leaves no trace *)
Theorem abort_merge_no_effect k s :
  same_content s (abort_merge k s) /\ published (abort_merge k s) = published s.
Proof. unfold same_content, abort_merge, published. cbn. repeat split. Qed.

(* end_merge of a merge whose sources are UNCOMMITTED swaps entries in the uncommitted register only: the
   committed register and meta.json (what searchers and a rollback see) are untouched *)
Theorem end_merge_uncommitted k s r :
  nth_error (w_merges s) k = Some r ->
  r_epoch r = w_epoch s ->
  contains_all (w_unc s) (r_srcs r) = true ->
  let s' := end_merge k s in
  w_com s' = w_com s /\ w_meta s' = w_meta s /\ published s' = published s /\ w_copstamp s' = w_copstamp s /\
  w_unc s' = remove_segs (w_unc s) (r_srcs r) ++
             match option_map (reconcile (w_queue s) (w_copstamp s)) (r_result r) with Some e => [e] | None => [] end.
Proof.
  intros Hk He Hu. unfold end_merge. rewrite Hk. apply N.eqb_eq in He. rewrite He. cbn [negb]. rewrite Hu.
  unfold published. cbn. repeat split.
Qed.

(* hence whatever a later merge of committed segments publishes (end_merge saves meta.json from the committed
   register) contains no document of a merged-but-uncommitted segment: the committed register is only ever
   filled by commit, rollback and committed merges *)
Theorem end_merge_committed_publishes_committed_only k s r :
  nth_error (w_merges s) k = Some r ->
  r_epoch r = w_epoch s ->
  contains_all (w_unc s) (r_srcs r) = false -> contains_all (w_com s) (r_srcs r) = true ->
  let s' := end_merge k s in
  w_unc s' = w_unc s /\ w_meta s' = w_com s' /\
  w_com s' = filter nonempty (remove_segs (w_com s) (r_srcs r) ++
             match option_map (reconcile (w_queue s) (w_copstamp s)) (r_result r) with Some e => [e] | None => [] end).
Proof.
  intros Hk He Hu Hc. unfold end_merge. rewrite Hk. apply N.eqb_eq in He. rewrite He. cbn [negb]. rewrite Hu, Hc.
  cbn. repeat split.
Qed.
