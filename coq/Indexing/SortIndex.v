(* C17 -- index sorting: executable model.

   Transliterates (file / function names of /repo in the comments):
     common/src/lib.rs                      i64_to_u64, f64_to_u64 (order preserving maps to u64)
     columnar/src/columnar/writer/mod.rs    ColumnarWriter::sort_order, collect_sort_order_from_ops
     columnar/.../writer/column_writers.rs  ColumnWriter::operation_iterator (old_to_new_ids remap)
     src/indexer/doc_id_mapping.rs          DocIdMapping::{from_new_id_to_old_id, new_permutation,
                                            get_new_doc_id, remap}, get_doc_id_mapping_from_field
     src/indexer/segment_writer.rs          finalize, remap_and_write, remap_doc_opstamps
     src/postings/recorder.rs               Recorder::serialize with a doc_id_map
     src/fieldnorm/writer.rs                FieldNormsWriter::serialize with a doc_id_map
     src/indexer/index_writer.rs            apply_deletes, compute_deleted_bitset
     src/indexer/doc_opstamp_mapping.rs     DocToOpstampMapping::is_deleted
     src/indexer/merger.rs                  sort_readers_by_min_sort_field, segment_has_live_nulls,
                                            is_disjunct_and_sorted_on_sort_property,
                                            get_doc_id_from_concatenated_data,
                                            generate_doc_id_mapping_with_sort_by_field (kmerge_by)
   External: std's stable `sort_by` is modelled by our own stable insertion sort (any stable sort
   returns the same list: SortProofs.stable_sort_unique); itertools' heap based `kmerge_by` is
   modelled by the relation `kmerge_run` ("each step emits a head that no other head is less than"),
   which every binary-heap merge satisfies whatever its tie breaking, plus a deterministic instance.

   Doc ids are list indices, hence `nat`; keys, values and opstamps are `N`. *)
From TV Require Import Base.Prelude Generated.Constants.
Local Open Scope N_scope.

(* ------------------------------------------------------------------ keys and comparators *)

Inductive order := Asc | Desc.
Definition is_desc (o : order) : bool := match o with Desc => true | Asc => false end.
Definition is_asc (o : order) : bool := negb (is_desc o).

(* Option<u64>: `None < Some _` (derived Ord of Option) *)
Definition okey := option N.
Definition okey_cmp (a b : okey) : comparison :=
  match a, b with
  | None, None => Eq
  | None, Some _ => Lt
  | Some _, None => Gt
  | Some x, Some y => N.compare x y
  end.

(* collect_sort_order_from_ops: `if reversed { cmp.reverse() } else { cmp }` *)
Definition sort_cmp (reversed : bool) (a b : okey) : comparison :=
  if reversed then CompOpp (okey_cmp a b) else okey_cmp a b.
Definition not_gt (c : comparison) : bool := match c with Gt => false | _ => true end.

(* "a may stand before b" in a segment sorted in direction o: the specification order.
   Asc: None first, then increasing values.  Desc: decreasing values, None last. *)
Definition key_le (o : order) (a b : okey) : bool := not_gt (sort_cmp (is_desc o) a b).

(* merger.rs: `if asc { val1 < val2 } else { val1 > val2 }` on Option<u64> *)
Definition key_lt (o : order) (a b : okey) : bool :=
  match okey_cmp a b with
  | Lt => is_asc o
  | Gt => is_desc o
  | Eq => false
  end.

(* common::i64_to_u64 on the two's complement bit pattern; common::f64_to_u64 on the IEEE bits *)
Definition U64_ONES : N := 2 ^ 64 - 1.
Definition i64_to_u64 (raw : N) : N := N.lxor raw SORT_HIGHEST_BIT.
Definition f64_to_u64 (bits : N) : N :=
  if N.ltb bits SORT_HIGHEST_BIT (* is_sign_positive *) then N.lxor bits SORT_HIGHEST_BIT
  else N.lxor bits U64_ONES (* !bits *).

(* what these bit patterns mean (spec side): the integer, and for non-NaN doubles a number that is
   ordered like the double (-0.0 and +0.0 both map to 0) *)
Definition i64_val (raw : N) : Z :=
  if N.ltb raw SORT_HIGHEST_BIT then Z.of_N raw else (Z.of_N raw - 2 * Z.of_N SORT_HIGHEST_BIT)%Z.
Definition f64_ord (bits : N) : Z :=
  if N.ltb bits SORT_HIGHEST_BIT then Z.of_N bits else (- Z.of_N (bits - SORT_HIGHEST_BIT))%Z.

Inductive key_type := KU64 | KI64 | KF64 | KDate.
(* sort_order's `value_to_key` closure: `Some(v.to_u64())` *)
Definition to_u64 (t : key_type) (raw : N) : N :=
  match t with
  | KU64 => raw
  | KI64 | KDate => i64_to_u64 raw
  | KF64 => f64_to_u64 raw
  end.

(* lexicographic order of byte strings (Str / Bytes sort fields) and the dictionary ordinal of a
   term: its rank among the distinct terms of the segment (DictionaryBuilder / TermIdMapping::to_ord,
   order-isomorphic to the byte order: the dictionary is serialised in sorted order) *)
Fixpoint bytes_cmp (a b : bytes) : comparison :=
  match a, b with
  | [], [] => Eq
  | [], _ :: _ => Lt
  | _ :: _, [] => Gt
  | x :: a', y :: b' => match N.compare x y with Eq => bytes_cmp a' b' | c => c end
  end.
Definition bytes_eqb (a b : bytes) : bool := match bytes_cmp a b with Eq => true | _ => false end.
Fixpoint dedup_bytes (l : list bytes) : list bytes :=
  match l with
  | [] => []
  | x :: r => if existsb (bytes_eqb x) r then dedup_bytes r else x :: dedup_bytes r
  end.
Definition term_ord (terms : list bytes) (t : bytes) : N :=
  N.of_nat (length (filter (fun u => match bytes_cmp u t with Lt => true | _ => false end) (dedup_bytes terms))).

(* ------------------------------------------------------------------ stable sort (std sort_by) *)

Section StableSort.
  Context {A : Type} (le : A -> A -> bool).
  Fixpoint insert_sorted (x : A) (l : list A) : list A :=
    match l with
    | [] => [x]
    | y :: r => if le x y then x :: y :: r else y :: insert_sorted x r
    end.
  Definition sort_by (l : list A) : list A := fold_right insert_sorted [] l.
  Fixpoint sorted_b (l : list A) : bool :=
    match l with
    | [] => true
    | x :: r => match r with [] => true | y :: _ => le x y && sorted_b r end
    end.
End StableSort.

Definition enumerate {A} (l : list A) : list (nat * A) := combine (seq 0 (length l)) l.

(* ------------------------------------------------------------------ the sort column in the writer *)

(* ColumnOperation<V>: the recorded stream of one column *)
Inductive colop := NewDoc (d : nat) | Value (v : N).

(* a posting-like list: (doc, payload) with strictly increasing docs *)
Definition plist (P : Type) := list (nat * P).

(* ColumnWriter::record: a NewDoc symbol when the document changes, then the value *)
Definition ops_of_groups (col : plist (list N)) : list colop :=
  flat_map (fun g => NewDoc (fst g) :: map Value (snd g)) col.

Record collect_state := { cs_keys : list (okey * nat); cs_fill : nat; cs_cur : option nat }.
Definition fill_default (from to : nat) : list (okey * nat) :=
  map (fun d => (None, d)) (seq from (to - from)).
(* the loop body of collect_sort_order_from_ops (default_key = None) *)
Definition collect_step (value_to_key : N -> okey) (st : collect_state) (op : colop) : collect_state :=
  match op with
  | NewDoc d => {| cs_keys := cs_keys st; cs_fill := cs_fill st; cs_cur := Some d |}
  | Value v =>
      match cs_cur st with
      | Some cur => {| cs_keys := cs_keys st ++ fill_default (cs_fill st) cur ++ [(value_to_key v, cur)];
                       cs_fill := S cur; cs_cur := None |}
      | None => st   (* multivalued: only the first value of a document is used *)
      end
  end.
Definition collect_doc_sort_keys (value_to_key : N -> okey) (ops : list colop) (num_docs : nat) : list (okey * nat) :=
  let st := fold_left (collect_step value_to_key) ops {| cs_keys := []; cs_fill := 0%nat; cs_cur := None |} in
  cs_keys st ++ fill_default (cs_fill st) num_docs.

Definition pair_le (reversed : bool) (a b : okey * nat) : bool := not_gt (sort_cmp reversed (fst a) (fst b)).
(* collect_sort_order_from_ops / ColumnarWriter::sort_order: new doc id -> old doc id *)
Definition sort_order_from_ops (value_to_key : N -> okey) (ops : list colop) (num_docs : nat) (reversed : bool) : list nat :=
  map snd (sort_by (pair_le reversed) (collect_doc_sort_keys value_to_key ops num_docs)).

(* the same on a plain list of keys (what the above computes, see SortProofs.collect_keys_spec) *)
Definition sort_order_keys (o : order) (keys : list okey) : list nat :=
  map snd (sort_by (pair_le (is_desc o)) (combine keys (seq 0 (length keys)))).

(* ------------------------------------------------------------------ DocIdMapping *)

Record doc_id_mapping := { new_to_old : list nat; old_to_new : list nat }.

Fixpoint upd {A} (i : nat) (x : A) (l : list A) : list A :=
  match l with
  | [] => []
  | y :: r => match i with O => x :: r | S i' => y :: upd i' x r end
  end.

(* DocIdMapping::from_new_id_to_old_id_inner *)
Definition from_new_id_to_old_id (n2o : list nat) : doc_id_mapping :=
  let old_max_doc := match n2o with [] => 0%nat | _ => S (list_max n2o) end in
  {| new_to_old := n2o;
     old_to_new := fold_left (fun acc e => upd (snd e) (fst e) acc) (enumerate n2o) (repeat 0%nat old_max_doc) |}.

(* DocIdMapping::new_permutation: every old id below len and seen at most once *)
Fixpoint validate_permutation (max_doc : nat) (seen : list bool) (n2o : list nat) : bool :=
  match n2o with
  | [] => true
  | old :: r => if Nat.leb max_doc old || nth old seen true then false
                else validate_permutation max_doc (upd old true seen) r
  end.
Definition new_permutation (n2o : list nat) : option doc_id_mapping :=
  if validate_permutation (length n2o) (repeat false (length n2o)) n2o then Some (from_new_id_to_old_id n2o) else None.

Definition get_new_doc_id (m : doc_id_mapping) (d : nat) : nat := nth d (old_to_new m) 0%nat.
(* DocIdMapping::remap *)
Definition remap {T} (m : doc_id_mapping) (els : list T) (dflt : T) : list T :=
  map (fun old => nth old els dflt) (new_to_old m).

(* Recorder::serialize / ColumnWriter::operation_iterator with a mapping: rewrite the doc ids to the
   new ids, then sort by new doc id (ids are distinct: any sort gives the same list) *)
Definition doc_le {P} (a b : nat * P) : bool := Nat.leb (fst a) (fst b).
Definition remap_plist {P} (m : doc_id_mapping) (pl : plist P) : plist P :=
  sort_by doc_le (map (fun e => (get_new_doc_id m (fst e), snd e)) pl).

(* segment_writer.rs remap_doc_opstamps *)
Definition remap_doc_opstamps (opstamps : list N) (m : option doc_id_mapping) : list N :=
  match m with
  | Some m => map (fun doc => nth doc opstamps 0) (new_to_old m)
  | None => opstamps
  end.

(* ------------------------------------------------------------------ a segment in the writer *)

Definition posting := (N * list N)%type.   (* term frequency, positions *)

Record segment := {
  s_max_doc : nat;
  s_sortcol : plist (list N);               (* the sort column: recorded values per document *)
  s_columns : list (plist (list N));        (* the other fast-field columns *)
  s_norms : list (list N);                  (* per field with norms: one fieldnorm id per document *)
  s_store : list bytes;                     (* (temp) doc store: the stored bytes of each document *)
  s_postings : list (bytes * plist posting) (* term -> postings *)
}.

(* remap_and_write *)
Definition remap_segment (m : doc_id_mapping) (s : segment) : segment :=
  {| s_max_doc := s_max_doc s;
     s_sortcol := remap_plist m (s_sortcol s);
     s_columns := map (remap_plist m) (s_columns s);
     s_norms := map (fun f => remap m f 0) (s_norms s);
     s_store := remap m (s_store s) [];
     s_postings := map (fun tp => (fst tp, remap_plist m (snd tp))) (s_postings s) |}.

(* get_doc_id_mapping_from_field *)
Definition get_doc_id_mapping_from_field (o : order) (vtk : N -> okey) (s : segment) : doc_id_mapping :=
  from_new_id_to_old_id (sort_order_from_ops vtk (ops_of_groups (s_sortcol s)) (s_max_doc s) (is_desc o)).

(* SegmentWriter::finalize + finalize_inner: the written segment and the per-doc opstamps *)
Definition finalize (sort : option order) (vtk : N -> okey) (s : segment) (opstamps : list N) : segment * list N :=
  match sort with
  | None => (s, remap_doc_opstamps opstamps None)
  | Some o => let m := get_doc_id_mapping_from_field o vtk s in
              (remap_segment m s, remap_doc_opstamps opstamps (Some m))
  end.

(* ---- the logical content of a segment: what each document carries *)
Definition plookup {P} (pl : plist P) (d : nat) : option P :=
  option_map snd (find (fun e => Nat.eqb (fst e) d) pl).

Record ldoc := {
  ld_sortvals : option (list N);
  ld_cols : list (option (list N));
  ld_norms : list N;
  ld_store : bytes;
  ld_terms : list (bytes * option posting)
}.
Definition logical_doc (s : segment) (d : nat) : ldoc :=
  {| ld_sortvals := plookup (s_sortcol s) d;
     ld_cols := map (fun c => plookup c d) (s_columns s);
     ld_norms := map (fun f => nth d f 0) (s_norms s);
     ld_store := nth d (s_store s) [];
     ld_terms := map (fun tp => (fst tp, plookup (snd tp) d)) (s_postings s) |}.
Definition logical (s : segment) : list ldoc := map (logical_doc s) (seq 0 (s_max_doc s)).

(* Column::first *)
Definition first_key (vtk : N -> okey) (vals : option (list N)) : okey :=
  match vals with Some (v :: _) => vtk v | _ => None end.
Definition doc_key (vtk : N -> okey) (ld : ldoc) : okey := first_key vtk (ld_sortvals ld).

Definition strictly_increasing_b (l : list nat) : bool := sorted_b Nat.ltb l.
Definition wf_plist {P} (n : nat) (pl : plist P) : bool :=
  strictly_increasing_b (map fst pl) && forallb (fun e => Nat.ltb (fst e) n) pl.
Definition wf_segment (s : segment) : bool :=
  wf_plist (s_max_doc s) (s_sortcol s) && forallb (fun g => negb (Nat.eqb (length (snd g)) 0)) (s_sortcol s)
  && forallb (wf_plist (s_max_doc s)) (s_columns s)
  && forallb (fun f => Nat.eqb (length f) (s_max_doc s)) (s_norms s)
  && Nat.eqb (length (s_store s)) (s_max_doc s)
  && forallb (fun tp => wf_plist (s_max_doc s) (snd tp)) (s_postings s).

(* ------------------------------------------------------------------ deletes inside the transaction *)

Record delete_op := { del_term : bytes; del_opstamp : N }.

(* DocToOpstampMapping::is_deleted *)
Definition is_deleted (doc_opstamps : option (list N)) (doc : nat) (delete_opstamp : N) : bool :=
  match doc_opstamps with
  | Some ops => N.ltb (nth doc ops 0) delete_opstamp
  | None => true
  end.

(* the documents matching a term query of the delete target *)
Definition docs_matching (s : segment) (t : bytes) : list nat :=
  match find (fun tp => bytes_eqb (fst tp) t) (s_postings s) with
  | Some tp => map fst (snd tp)
  | None => []
  end.

(* compute_deleted_bitset (the bitset holds the ALIVE documents) *)
Fixpoint compute_deleted_bitset (alive : list bool) (s : segment) (dels : list delete_op)
         (doc_opstamps : option (list N)) (target_opstamp : N) : list bool :=
  match dels with
  | [] => alive
  | d :: r =>
      if N.ltb target_opstamp (del_opstamp d) then alive   (* break *)
      else
        let alive' := fold_left (fun a doc => if is_deleted doc_opstamps doc (del_opstamp d) then upd doc false a else a)
                                (docs_matching s (del_term d)) alive in
        compute_deleted_bitset alive' s r doc_opstamps target_opstamp
  end.

Definition nmax_list (l : list N) : N := fold_right N.max 0 l.
(* index_writer.rs apply_deletes *)
Definition apply_deletes (s : segment) (dels : list delete_op) (doc_opstamps : list N) : list bool :=
  compute_deleted_bitset (repeat true (s_max_doc s)) s dels (Some doc_opstamps) (nmax_list doc_opstamps).

(* ------------------------------------------------------------------ merge *)

Inductive cardinality := Full | Optional | Multivalued.

(* a source segment as the merger sees it: the u64 column of the sort field (numeric: order preserving
   image of the values; Str/Bytes: merged global ordinals, i.e. local ordinals pushed through
   merged_term_ord_mapping), the alive bitset, and a name (position in the caller's list) *)
Record reader := { r_id : nat; r_vals : list (list N); r_alive : list bool }.

Definition cardinality_of (vals : list (list N)) : cardinality :=
  if existsb (fun vs => Nat.ltb 1 (length vs)) vals then Multivalued
  else if existsb (fun vs => Nat.eqb (length vs) 0) vals then Optional
  else Full.
Definition r_max_doc (r : reader) : nat := length (r_vals r).
Definition is_alive (r : reader) (d : nat) : bool := nth d (r_alive r) false.
Definition doc_ids_alive (r : reader) : list nat := filter (is_alive r) (seq 0 (r_max_doc r)).
Definition has_deletes (r : reader) : bool := existsb negb (r_alive r).
(* Column::first *)
Definition col_first (r : reader) (d : nat) : okey := hd_error (nth d (r_vals r) []).
(* column statistics cover every value of every document, deleted or not; 0 for an empty column *)
Definition all_values (r : reader) : list N := concat (r_vals r).
Definition min_value (r : reader) : N := match all_values r with [] => 0 | x :: l => fold_left N.min l x end.
Definition max_value (r : reader) : N := match all_values r with [] => 0 | x :: l => fold_left N.max l x end.

Definition is_none {A} (o : option A) : bool := match o with None => true | Some _ => false end.

(* IndexMerger::segment_has_live_nulls.  Which cardinalities are declared null-free without looking at the
   documents is re-read from the source (pin SORT_LIVE_NULLS_SCANS_MULTIVALUED): 1 = only `Full`
   (`== Cardinality::Full`), 0 = everything but `Optional` (`!= Cardinality::Optional`, the shape of F171). *)
Definition scan_live_nulls (r : reader) : bool :=
  if negb (has_deletes r) then true
  else existsb (fun d => is_none (col_first r d)) (doc_ids_alive r).
Definition segment_has_live_nulls_gen (scans_multivalued : bool) (r : reader) : bool :=
  match cardinality_of (r_vals r) with
  | Full => false
  | Optional => scan_live_nulls r
  | Multivalued => if scans_multivalued then scan_live_nulls r else false
  end.
Definition scans_multivalued : bool := N.eqb SORT_LIVE_NULLS_SCANS_MULTIVALUED 1.
Definition segment_has_live_nulls (r : reader) : bool := segment_has_live_nulls_gen scans_multivalued r.

(* IndexMerger::sort_readers_by_min_sort_field (stable sort_by_key; skipped for Str/Bytes) *)
Definition sort_readers_by_min (o : order) (readers : list reader) : list reader :=
  match o with
  | Asc => sort_by (fun a b => N.leb (min_value a) (min_value b)) readers
  | Desc => sort_by (fun a b => N.leb (min_value b) (min_value a)) readers
  end.

Fixpoint windows_all {A} (p : A -> A -> bool) (l : list A) : bool :=
  match l with
  | [] => true
  | x :: r => match r with [] => true | y :: _ => p x y && windows_all p r end
  end.

(* IndexMerger::is_disjunct_and_sorted_on_sort_property (numeric sort fields) *)
Definition is_disjunct_and_sorted (o : order) (readers : list reader) : bool :=
  let values_disjunct :=
    windows_all (fun c1 c2 => if is_asc o then N.leb (max_value c1) (min_value c2)
                              else N.leb (max_value c2) (min_value c1)) readers in
  if negb values_disjunct then false
  else negb (existsb segment_has_live_nulls readers).

(* a document address: (position of the reader in the merger's list, doc id) *)
Definition doc_addr := (nat * nat)%type.

(* get_doc_id_from_concatenated_data *)
Definition stack_mapping (readers : list reader) : list doc_addr :=
  flat_map (fun e => map (fun d => (fst e, d)) (doc_ids_alive (snd e))) (enumerate readers).

(* ---- k-way merge (itertools kmerge_by) *)
Section KMerge.
  Context {A : Type} (lt : A -> A -> bool).

  (* the heads no other head is less than *)
  Definition head_minimal (srcs : list (list A)) (h : A) : bool :=
    forallb (fun s => match s with [] => true | h' :: _ => negb (lt h' h) end) srcs.

  (* any heap based merge: each emitted element is the head of some source and minimal among heads *)
  Inductive kmerge_run : list (list A) -> list A -> Prop :=
  | kr_done srcs : forallb (fun s => match s with [] => true | _ => false end) srcs = true -> kmerge_run srcs []
  | kr_step srcs i h t out :
      nth_error srcs i = Some (h :: t) -> head_minimal srcs h = true ->
      kmerge_run (upd i t srcs) out -> kmerge_run srcs (h :: out).

  (* deterministic instance: the first source (in list order) whose head is minimal *)
  Fixpoint first_minimal (all : list (list A)) (i : nat) (srcs : list (list A)) : option (nat * A * list A) :=
    match srcs with
    | [] => None
    | s :: r =>
        match s with
        | h :: t => if head_minimal all h then Some (i, h, t) else first_minimal all (S i) r
        | [] => first_minimal all (S i) r
        end
    end.
  Fixpoint kmerge_fuel (fuel : nat) (srcs : list (list A)) : list A :=
    match fuel with
    | O => []
    | S f => match first_minimal srcs 0 srcs with
             | Some (i, h, t) => h :: kmerge_fuel f (upd i t srcs)
             | None => []
             end
    end.
  Definition kmerge (srcs : list (list A)) : list A := kmerge_fuel (length (concat srcs)) srcs.
End KMerge.

(* an element of the merge: (key, address) *)
Definition melem := (okey * doc_addr)%type.
Definition melem_lt (o : order) (a b : melem) : bool := key_lt o (fst a) (fst b).
Definition source_of (e : nat * reader) : list melem :=
  map (fun d => (col_first (snd e) d, (fst e, d))) (doc_ids_alive (snd e)).
Definition sources (readers : list reader) : list (list melem) := map source_of (enumerate readers).

(* generate_doc_id_mapping_with_sort_by_field *)
Definition kmerge_mapping (o : order) (readers : list reader) : list doc_addr :=
  map snd (kmerge (melem_lt o) (sources readers)).

(* IndexMerger::open (reader order) + IndexMerger::write (choice of the mapping);
   `ordinals` = Str/Bytes sort field (no pre-sort, never stacked) *)
Definition merge_readers (o : order) (ordinals : bool) (readers : list reader) : list reader :=
  if ordinals then readers else sort_readers_by_min o readers.
Definition merge_mapping (o : order) (ordinals : bool) (readers : list reader) : list doc_addr :=
  let rs := merge_readers o ordinals readers in
  if negb ordinals && is_disjunct_and_sorted o rs then stack_mapping rs else kmerge_mapping o rs.

(* keys of the merged segment in new doc-id order *)
Definition addr_key (readers : list reader) (a : doc_addr) : okey :=
  match nth_error readers (fst a) with Some r => col_first r (snd a) | None => None end.
Definition merged_keys (o : order) (ordinals : bool) (readers : list reader) : list okey :=
  let rs := merge_readers o ordinals readers in map (addr_key rs) (merge_mapping o ordinals readers).

(* the invariant on sources: live documents in key order *)
Definition reader_sorted (o : order) (r : reader) : bool :=
  sorted_b (key_le o) (map (col_first r) (doc_ids_alive r)).
Definition wf_reader (r : reader) : bool := Nat.eqb (length (r_alive r)) (r_max_doc r).

(* F171: a Multivalued sort column with a live document without value is treated as null-free -- only when the
   source has the shape that does not scan Multivalued columns (the class is empty for the fixed code) *)
Definition f171_reader_gen (sm : bool) (r : reader) : bool :=
  negb sm && match cardinality_of (r_vals r) with
             | Multivalued => existsb (fun d => is_none (col_first r d)) (doc_ids_alive r)
             | _ => false end.
Definition has_f171_gen (sm : bool) (readers : list reader) : bool := existsb (f171_reader_gen sm) readers.
Definition has_f171 (readers : list reader) : bool := has_f171_gen scans_multivalued readers.

(* ------------------------------------------------------------------ spec predicates for the harness *)

Definition sorted_keys (o : order) (keys : list okey) : bool := sorted_b (key_le o) keys.

(* sortedness stated on the field's own values: integers (i64/date), doubles (by f64_ord), byte strings *)
Definition ocmp {K} (cmp : K -> K -> comparison) (a b : option K) : comparison :=
  match a, b with
  | None, None => Eq | None, Some _ => Lt | Some _, None => Gt
  | Some x, Some y => cmp x y
  end.
Definition sorted_opt {K} (cmp : K -> K -> comparison) (o : order) (l : list (option K)) : bool :=
  sorted_b (fun a b => not_gt (if is_desc o then CompOpp (ocmp cmp a b) else ocmp cmp a b)) l.

(* canonical form of an order up to the order inside runs of equal keys (tie order is not part of
   the property): runs of adjacent equal keys are sorted by address *)
Definition addr_leb (a b : doc_addr) : bool :=
  Nat.ltb (fst a) (fst b) || (Nat.eqb (fst a) (fst b) && Nat.leb (snd a) (snd b)).
Definition okey_eqb (a b : okey) : bool := match okey_cmp a b with Eq => true | _ => false end.
Fixpoint canon_runs_aux (cur : okey) (run : list doc_addr) (l : list (okey * doc_addr)) : list doc_addr :=
  match l with
  | [] => sort_by addr_leb run
  | (k, a) :: r => if okey_eqb k cur then canon_runs_aux cur (a :: run) r
                   else sort_by addr_leb run ++ canon_runs_aux k [a] r
  end.
Definition canon_runs (l : list (okey * doc_addr)) : list doc_addr :=
  match l with [] => [] | (k, a) :: r => canon_runs_aux k [a] r end.

Definition addr_eqb (a b : doc_addr) : bool := Nat.eqb (fst a) (fst b) && Nat.eqb (snd a) (snd b).

(* ------------------------------------------------------------------ histories (tie and spec of the harness) *)

Inductive sort_field := SNum (t : key_type) | SBytes.   (* Str and Bytes fields: byte order *)

(* a document of the harness: unique id, values of the sort field (numeric raw patterns or byte
   strings; several = multi-valued, none = missing), a tag (indexed term used by deletes), opstamp *)
Record mdoc := { md_id : N; md_vals : list N; md_bvals : list bytes; md_tag : N; md_opstamp : N }.

Inductive hop :=
| HAdd (d : mdoc)
| HDel (tag : N) (opstamp : N)
| HCommit
| HMerge (positions : list nat).

Definition rawkey := option (list N).
Definition md_rawkey (sf : sort_field) (d : mdoc) : rawkey :=
  match sf with
  | SNum _ => match md_vals d with v :: _ => Some [v] | [] => None end
  | SBytes => hd_error (md_bvals d)
  end.

Definition tag_term (tag : N) : bytes := [tag].
Fixpoint dedup_N (l : list N) : list N :=
  match l with [] => [] | x :: r => if existsb (N.eqb x) r then dedup_N r else x :: dedup_N r end.

(* sort-field values of a list of documents as the u64 column sees them: order preserving image for
   numeric fields, rank in the dictionary built from `terms` for Str/Bytes *)
Definition col_vals (sf : sort_field) (terms : list bytes) (d : mdoc) : list N :=
  match sf with
  | SNum t => map (to_u64 t) (md_vals d)
  | SBytes => map (term_ord terms) (md_bvals d)
  end.

(* the in-memory segment of one transaction (SegmentWriter state before finalize) *)
Definition segment_of_docs (sf : sort_field) (docs : list mdoc) : segment :=
  let terms := flat_map md_bvals docs in
  let sortvals := match sf with
                  | SNum _ => map md_vals docs       (* NumericalValue as recorded; key = to_u64 at sort time *)
                  | SBytes => map (col_vals sf terms) docs
                  end in
  {| s_max_doc := length docs;
     s_sortcol := filter (fun g => negb (Nat.eqb (length (snd g)) 0)) (enumerate sortvals);
     s_columns := [map (fun e => (fst e, [md_id (snd e)])) (enumerate docs)];
     s_norms := [map (fun d => 1 + N.modulo (md_id d) 5) docs];
     s_store := map (fun d => [md_id d]) docs;
     s_postings := map (fun tag => (tag_term tag,
                                    map (fun e => (fst e, (1, []))) (filter (fun e => N.eqb (md_tag (snd e)) tag) (enumerate docs))))
                       (dedup_N (map md_tag docs)) |}.

Definition vtk_of (sf : sort_field) : N -> okey :=
  match sf with SNum t => fun v => Some (to_u64 t v) | SBytes => fun v => Some v end.

Definition dummy_doc : mdoc := {| md_id := 0; md_vals := []; md_bvals := []; md_tag := 0; md_opstamp := 0 |}.
Definition find_doc (docs : list mdoc) (id : N) : mdoc :=
  match find (fun d => N.eqb (md_id d) id) docs with Some d => d | None => dummy_doc end.

Definition mseg := list (mdoc * bool).     (* documents in doc-id order with their alive bit *)

Fixpoint take_while {A} (p : A -> bool) (l : list A) : list A :=
  match l with [] => [] | x :: r => if p x then x :: take_while p r else [] end.
Fixpoint drop_while {A} (p : A -> bool) (l : list A) : list A :=
  match l with [] => [] | x :: r => if p x then drop_while p r else l end.

(* index_documents: finalize, then apply_deletes (stops at the first delete younger than every document);
   the remaining deletes are applied at commit by advance_deletes with DocToOpstampMapping::None *)
Definition commit_new_segment (sf : sort_field) (o : option order) (docs : list mdoc) (dels : list delete_op) : mseg :=
  let s := segment_of_docs sf docs in
  let '(s', ops') := finalize o (vtk_of sf) s (map md_opstamp docs) in
  let alive1 := apply_deletes s' dels ops' in
  let rest := drop_while (fun d => N.leb (del_opstamp d) (nmax_list ops')) dels in
  let alive2 := compute_deleted_bitset alive1 s' rest None (nmax_list (map del_opstamp dels)) in
  combine (map (fun b => find_doc docs (hd 0 b)) (s_store s')) alive2.

(* advance_deletes on an older segment: every matching document (DocToOpstampMapping::None) *)
Definition advance_old_segment (dels : list delete_op) (sg : mseg) : mseg :=
  map (fun da => (fst da, snd da && negb (existsb (fun d => list_eqb N.eqb (del_term d) (tag_term (md_tag (fst da)))) dels))) sg.

Definition has_live (sg : mseg) : bool := existsb snd sg.

Definition reader_of (sf : sort_field) (terms : list bytes) (e : nat * mseg) : reader :=
  {| r_id := fst e; r_vals := map (fun da => col_vals sf terms (fst da)) (snd e); r_alive := map snd (snd e) |}.
Definition is_ordinals (sf : sort_field) : bool := match sf with SBytes => true | SNum _ => false end.

Definition merge_segments (sf : sort_field) (o : option order) (segs : list mseg) : mseg :=
  let terms := flat_map (fun sg => flat_map (fun da => md_bvals (fst da)) sg) segs in
  let readers := map (reader_of sf terms) (enumerate segs) in
  let live := filter (fun r => negb (Nat.eqb (length (doc_ids_alive r)) 0)) readers in
  let '(rs, mapping) := match o with
                        | Some o => (merge_readers o (is_ordinals sf) live, merge_mapping o (is_ordinals sf) live)
                        | None => (live, stack_mapping live)
                        end in
  map (fun a => match nth_error rs (fst a) with
                | Some r => (fst (nth (snd a) (nth (r_id r) segs []) (dummy_doc, false)), true)
                | None => (dummy_doc, false) end) mapping.

Record mstate := { st_segs : list mseg; st_pending : list mdoc; st_dels : list delete_op }.

Fixpoint remove_positions {A} (i : nat) (ps : list nat) (l : list A) : list A :=
  match l with
  | [] => []
  | x :: r => if existsb (Nat.eqb i) ps then remove_positions (S i) ps r else x :: remove_positions (S i) ps r
  end.

Definition model_step (sf : sort_field) (o : option order) (st : mstate) (op : hop) : mstate :=
  match op with
  | HAdd d => {| st_segs := st_segs st; st_pending := st_pending st ++ [d]; st_dels := st_dels st |}
  | HDel tag ops => {| st_segs := st_segs st; st_pending := st_pending st;
                       st_dels := st_dels st ++ [{| del_term := tag_term tag; del_opstamp := ops |}] |}
  | HCommit =>
      let old := map (advance_old_segment (st_dels st)) (st_segs st) in
      let new := match st_pending st with [] => [] | _ => [commit_new_segment sf o (st_pending st) (st_dels st)] end in
      {| st_segs := filter has_live (old ++ new); st_pending := []; st_dels := [] |}
  | HMerge ps =>
      let chosen := map (fun p => nth p (st_segs st) []) ps in
      {| st_segs := remove_positions 0 ps (st_segs st) ++ filter has_live [merge_segments sf o chosen];
         st_pending := st_pending st; st_dels := st_dels st |}
  end.
Definition model_replay (sf : sort_field) (o : option order) (h : list hop) : list mseg :=
  st_segs (fold_left (model_step sf o) h {| st_segs := []; st_pending := []; st_dels := [] |}).

(* ---- observation format: per segment, in doc-id order, (id, raw key, alive) *)
Definition odoc := (N * rawkey * bool)%type.
Definition odoc_of (sf : sort_field) (da : mdoc * bool) : odoc := (md_id (fst da), md_rawkey sf (fst da), snd da).

Definition rawkey_eqb (a b : rawkey) : bool :=
  match a, b with None, None => true | Some x, Some y => list_eqb N.eqb x y | _, _ => false end.
Definition odoc_id_le (a b : odoc) : bool := N.leb (fst (fst a)) (fst (fst b)).
Definition odoc_eqb (a b : odoc) : bool :=
  N.eqb (fst (fst a)) (fst (fst b)) && rawkey_eqb (snd (fst a)) (snd (fst b)) && Bool.eqb (snd a) (snd b).
(* tie order is not part of the property: runs of adjacent equal keys are put in id order *)
Fixpoint canon_seg_aux (cur : rawkey) (run : list odoc) (l : list odoc) : list odoc :=
  match l with
  | [] => sort_by odoc_id_le run
  | d :: r => if rawkey_eqb (snd (fst d)) cur then canon_seg_aux cur (d :: run) r
              else sort_by odoc_id_le run ++ canon_seg_aux (snd (fst d)) [d] r
  end.
Definition canon_seg (l : list odoc) : list odoc :=
  match l with [] => [] | d :: r => canon_seg_aux (snd (fst d)) [d] r end.
Definition segs_agree (model obs : list (list odoc)) : bool :=
  list_eqb (list_eqb odoc_eqb) (map canon_seg model) (map canon_seg obs).
(* exact agreement including the order inside runs of equal keys (stable sort; reported, not required) *)
Definition segs_equal (model obs : list (list odoc)) : bool := list_eqb (list_eqb odoc_eqb) model obs.

Definition tie_replay (sf : sort_field) (o : option order) (h : list hop) (obs : list (list odoc)) : bool :=
  segs_agree (map (map (odoc_of sf)) (model_replay sf o h)) obs.

(* ---- spec: sortedness on the field's own values *)
Definition typed_cmp (sf : sort_field) (a b : list N) : comparison :=
  match sf with
  | SNum KU64 => N.compare (hd 0 a) (hd 0 b)
  | SNum KI64 | SNum KDate => Z.compare (i64_val (hd 0 a)) (i64_val (hd 0 b))
  | SNum KF64 => Z.compare (f64_ord (hd 0 a)) (f64_ord (hd 0 b))
  | SBytes => bytes_cmp a b
  end.
Definition spec_sorted (sf : sort_field) (o : order) (keys : list rawkey) : bool := sorted_opt (typed_cmp sf) o keys.

(* ---- spec: the sequential meaning of the history, blind to sorting: which ids are live in which
   segment.  Segments are identified by the set of ids they hold. *)
Record sdoc := { sd_id : N; sd_tag : N; sd_alive : bool }.
Record sstate := { ss_segs : list (list sdoc); ss_pending : list sdoc }.
Definition kill_tag (tag : N) (l : list sdoc) : list sdoc :=
  map (fun d => if N.eqb (sd_tag d) tag then {| sd_id := sd_id d; sd_tag := sd_tag d; sd_alive := false |} else d) l.
Definition sseg_live (l : list sdoc) : bool := existsb sd_alive l.
Definition spec_step (st : sstate) (op : hop) : sstate :=
  match op with
  | HAdd d => {| ss_segs := ss_segs st; ss_pending := ss_pending st ++ [{| sd_id := md_id d; sd_tag := md_tag d; sd_alive := true |}] |}
  | HDel tag _ => {| ss_segs := map (kill_tag tag) (ss_segs st); ss_pending := kill_tag tag (ss_pending st) |}
  | HCommit => {| ss_segs := filter sseg_live (ss_segs st ++ [ss_pending st]); ss_pending := [] |}
  | HMerge ps =>
      let chosen := flat_map (fun p => filter sd_alive (nth p (ss_segs st) [])) ps in
      {| ss_segs := remove_positions 0 ps (ss_segs st) ++ filter sseg_live [chosen]; ss_pending := ss_pending st |}
  end.
Definition live_ids (l : list sdoc) : list N := sort_by N.leb (map sd_id (filter sd_alive l)).
Definition spec_replay (h : list hop) : list (list N) :=
  map live_ids (ss_segs (fold_left spec_step h {| ss_segs := []; ss_pending := [] |})).
Definition obs_live_ids (obs : list (list odoc)) : list (list N) :=
  map (fun sg => sort_by N.leb (map (fun d => fst (fst d)) (filter (fun d => snd d) sg))) obs.
Definition spec_content (h : list hop) (obs : list (list odoc)) : bool :=
  list_eqb (list_eqb N.eqb) (spec_replay h) (obs_live_ids obs).

(* ---- spec: the later text fields of the harness documents, as functions of the id:
   (id, fieldnorm body, fieldnorm wf, fieldnorm opt, tf of the shared term of the WithFreqs field) *)
Definition spec_attached (l : list (N * N * N * N * N)) : bool :=
  forallb (fun e => match e with (id, nb, nw, no, tf) =>
    N.eqb nb (1 + N.modulo id 5)
    && N.eqb nw (if N.eqb (N.modulo id 4) 3 then 0 else 2 + N.modulo id 3)
    && N.eqb no (if N.eqb (N.modulo id 3) 0 then 2 else 0)
    && N.eqb tf (if N.eqb (N.modulo id 4) 3 then 0 else 1 + N.modulo id 3) end) l.

(* ------------------------------------------------------------------ the writers' own encodings *)

(* FieldNormsWriter: a per-field buffer has one byte per document up to the last document holding the
   field; SegmentWriter::finalize_inner pads it (fill_up_to_max_doc) BEFORE the mapping indexes it by old id *)
Definition fill_up_to_max_doc (max_doc : nat) (f : list N) : list N := f ++ repeat 0 (max_doc - length f).
Definition serialize_fieldnorms (m : option doc_id_mapping) (max_doc : nat) (f : list N) : list N :=
  let padded := fill_up_to_max_doc max_doc f in
  match m with Some m => remap m padded 0 | None => padded end.

(* TermFrequencyRecorder: doc ids are recorded as deltas to the previous (OLD) doc id; serialize with a
   mapping rebuilds the old id (`doc_id = prev_doc + delta; prev_doc = doc_id`), remaps it when pushing,
   then sorts by new doc id *)
Fixpoint delta_encode (prev : nat) (docs : list nat) : list nat :=
  match docs with [] => [] | d :: r => (d - prev)%nat :: delta_encode d r end.
Fixpoint delta_decode (prev : nat) (deltas : list nat) : list nat :=
  match deltas with [] => [] | x :: r => (prev + x)%nat :: delta_decode (prev + x)%nat r end.
Definition serialize_tf_recorder {P} (m : doc_id_mapping) (deltas : list nat) (payloads : list P) : plist P :=
  sort_by doc_le (combine (map (get_new_doc_id m) (delta_decode 0 deltas)) payloads).
