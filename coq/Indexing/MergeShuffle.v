(* Indexing/MergeShuffle.v -- the shuffled (sorted index) doc-id mapping of IndexMerger (C04):
   generate_doc_id_mapping_with_sort_by_field is a k-way merge (itertools kmerge_by) of the readers'
   alive doc ids.  Whatever the comparison and the tie-breaking of the heap, the result is an
   INTERLEAVING of the sources; that is all the merge mechanism relies on:
     - the sequential per-reader store iterators meet the documents in emitted order,
     - the old->new table is the inverse of the mapping,
     - the posting list of every term holds exactly the entries of the mapped live documents,
       sorted by new doc id. *)
From Coq Require Import Sorted Permutation.
From TV Require Import Base.Prelude Generated.Constants Indexing.Merge Indexing.MergeProofs.
Local Open Scope nat_scope.

(* ------------------------------------------------------------------ interleavings *)
Inductive interleave {A} : list (list A) -> list A -> Prop :=
| il_nil srcs : Forall (fun l => l = []) srcs -> interleave srcs []
| il_cons srcs i x rest out :
    nth_error srcs i = Some (x :: rest) -> interleave (upd i rest srcs) out -> interleave srcs (x :: out).

(* k-way merge: repeatedly emit the head of the first source whose head no other head is less than
   (ties to the earlier reader); `less` is the comparison of the sort keys *)
Fixpoint pick_min {A} (less : A -> A -> bool) (srcs : list (list A)) (i : nat) (best : option (nat * A)) : option (nat * A) :=
  match srcs with
  | [] => best
  | [] :: r => pick_min less r (S i) best
  | (x :: _) :: r =>
      match best with
      | None => pick_min less r (S i) (Some (i, x))
      | Some (_, b) => if less x b then pick_min less r (S i) (Some (i, x)) else pick_min less r (S i) best
      end
  end.
Fixpoint kmerge {A} (fuel : nat) (less : A -> A -> bool) (srcs : list (list A)) : list A :=
  match fuel with
  | O => []
  | S f => match pick_min less srcs 0 None with
           | None => []
           | Some (i, x) => x :: kmerge f less (upd i (tl (nth i srcs [])) srcs)
           end
  end.
Definition total_len {A} (srcs : list (list A)) : nat := fold_right (fun l n => length l + n) 0 srcs.

Lemma pick_min_spec {A} (less : A -> A -> bool) : forall srcs i best,
  (forall j b, best = Some (j, b) -> True) ->
  match pick_min less srcs i best with
  | None => best = None /\ Forall (fun l => l = []) srcs
  | Some (j, x) => best = Some (j, x) \/ (i <= j /\ exists rest, nth_error srcs (j - i) = Some (x :: rest))
  end.
Proof.
  induction srcs as [|l srcs IH]; intros i best _; cbn [pick_min].
  - destruct best as [[j b]|]; [now left|split; [reflexivity|constructor]].
  - destruct l as [|x l].
    + specialize (IH (S i) best (fun _ _ _ => I)). destruct (pick_min less srcs (S i) best) as [[j y]|].
      * destruct IH as [IH|[Hle [rest Hr]]]; [now left|right]. split; [lia|]. exists rest.
        replace (j - i) with (S (j - S i)) by lia. exact Hr.
      * destruct IH as [-> HF]. split; [reflexivity|]. constructor; [reflexivity|exact HF].
    + assert (Hnew : forall best', best' = Some (i, x) ->
                match pick_min less srcs (S i) best' with
                | None => False
                | Some (j, y) => i <= j /\ exists rest, nth_error ((x :: l) :: srcs) (j - i) = Some (y :: rest)
                end).
      { intros best' ->. specialize (IH (S i) (Some (i, x)) (fun _ _ _ => I)).
        destruct (pick_min less srcs (S i) (Some (i, x))) as [[j y]|].
        - destruct IH as [IH|[Hle [rest Hr]]].
          + injection IH as <- <-. split; [lia|]. exists l. rewrite Nat.sub_diag. reflexivity.
          + split; [lia|]. exists rest. replace (j - i) with (S (j - S i)) by lia. exact Hr.
        - destruct IH as [IH _]. discriminate. }
      destruct best as [[jb b]|].
      * destruct (less x b).
        -- specialize (Hnew _ eq_refl). destruct (pick_min less srcs (S i) (Some (i, x))) as [[j y]|]; [|contradiction].
           right. exact Hnew.
        -- specialize (IH (S i) (Some (jb, b)) (fun _ _ _ => I)).
           destruct (pick_min less srcs (S i) (Some (jb, b))) as [[j y]|].
           ++ destruct IH as [IH|[Hle [rest Hr]]]; [now left|right]. split; [lia|]. exists rest.
              replace (j - i) with (S (j - S i)) by lia. exact Hr.
           ++ destruct IH as [IH _]. discriminate.
      * specialize (Hnew _ eq_refl). destruct (pick_min less srcs (S i) (Some (i, x))) as [[j y]|]; [|contradiction].
        right. exact Hnew.
Qed.

Lemma total_len_upd_tl {A} (srcs : list (list A)) i x rest :
  nth_error srcs i = Some (x :: rest) -> total_len srcs = S (total_len (upd i rest srcs)).
Proof.
  revert i; induction srcs as [|l srcs IH]; intros i H; [destruct i; discriminate|].
  destruct i as [|i]; cbn [nth_error] in H.
  - injection H as ->. cbn [upd total_len fold_right length]. reflexivity.
  - cbn [upd]. unfold total_len in *. cbn [fold_right]. rewrite (IH i H). lia.
Qed.

Theorem kmerge_interleave {A} (less : A -> A -> bool) : forall fuel srcs,
  total_len srcs <= fuel -> interleave srcs (kmerge fuel less srcs).
Proof.
  induction fuel as [|f IH]; intros srcs Hf.
  - cbn [kmerge]. constructor. unfold total_len in Hf.
    induction srcs as [|l srcs IHs]; constructor; cbn [fold_right] in Hf.
    + destruct l; [reflexivity|cbn [length] in Hf; lia].
    + apply IHs. lia.
  - cbn [kmerge]. pose proof (pick_min_spec less srcs 0 None (fun _ _ _ => I)) as Hp.
    destruct (pick_min less srcs 0 None) as [[i x]|].
    + destruct Hp as [Hp|[_ [rest Hr]]]; [discriminate|]. rewrite Nat.sub_0_r in Hr.
      assert (Hn : nth i srcs [] = x :: rest).
      { apply nth_error_nth with (d := []) in Hr. exact Hr. }
      rewrite Hn. cbn [tl]. eapply il_cons; [exact Hr|]. apply IH.
      rewrite (total_len_upd_tl srcs i x rest Hr) in Hf. lia.
    + destruct Hp as [_ HF]. now constructor.
Qed.

(* ------------------------------------------------------------------ store iterators *)
Theorem store_seq_aligned (stores : list (list (list N))) : forall srcs order,
  interleave srcs order ->
  forall its,
  (forall s, nth s its [] = map (fun a => nth (snd a) (nth (fst a) stores []) []) (nth s srcs [])) ->
  (forall s a, In a (nth s srcs []) -> fst a = s) ->
  store_seq its order = Some (gather [] stores order).
Proof.
  induction 1 as [srcs HF|srcs i x rest out Hi Hil IH]; intros its Hits Hord; [reflexivity|].
  destruct x as [s d]. cbn [store_seq gather map fst snd].
  assert (Hn : nth i srcs [] = (s, d) :: rest) by (apply nth_error_nth with (d := []) in Hi; exact Hi).
  assert (Hs : s = i). { specialize (Hord i (s, d)). rewrite Hn in Hord. specialize (Hord (or_introl eq_refl)). exact Hord. }
  subst s. rewrite (Hits i), Hn. cbn [map fst snd option_map].
  assert (Hlt : i < length srcs) by (apply nth_error_Some; congruence).
  assert (Hlt2 : i < length its).
  { destruct (Nat.lt_ge_cases i (length its)) as [L|L]; [exact L|].
    specialize (Hits i). rewrite nth_overflow in Hits by exact L. rewrite Hn in Hits. discriminate. }
  rewrite (IH (upd i (map (fun a => nth (snd a) (nth (fst a) stores []) []) rest) its)).
  - reflexivity.
  - intros s. rewrite !nth_upd. apply Nat.ltb_lt in Hlt, Hlt2. rewrite Hlt, Hlt2.
    destruct (i =? s); cbn [andb]; [reflexivity|apply Hits].
  - intros s a Ha. rewrite nth_upd in Ha. apply Nat.ltb_lt in Hlt. rewrite Hlt, andb_true_r in Ha.
    destruct (i =? s) eqn:E.
    + apply Nat.eqb_eq in E. subst s. apply (Hord i a). rewrite Hn. now right.
    + now apply Hord.
Qed.

(* the sources of the k-way merge: the alive addresses of every reader *)
Fixpoint addr_sources (ord : nat) (als : list (list bool)) : list (list addr) :=
  match als with
  | [] => []
  | al :: r => map (pair ord) (alive_ids al) :: addr_sources (S ord) r
  end.

Lemma nth_addr_sources k als s :
  nth s (addr_sources k als) [] = map (pair (k + s)) (alive_ids (nth s als [])).
Proof.
  revert k s; induction als as [|al als IH]; intros k s; cbn [addr_sources].
  - destruct s; reflexivity.
  - destruct s as [|s]; cbn [nth]; [now rewrite Nat.add_0_r|]. rewrite IH. f_equal. f_equal. lia.
Qed.

Theorem shuffled_store_aligned readers order :
  (forall r, In r readers -> length (s_alive r) <= length (s_store r)) ->
  interleave (addr_sources 0 (map s_alive readers)) order ->
  write_storable_fields readers (mkMapping order Shuffled) = Some (gather [] (map s_store readers) order).
Proof.
  intros Hlen Hil. unfold write_storable_fields, is_trivial. cbn [m_type m_order].
  apply (store_seq_aligned (map s_store readers) _ _ Hil).
  - intros s. rewrite nth_addr_sources. cbn [Nat.add]. rewrite map_map. cbn [fst snd].
    destruct (Nat.lt_ge_cases s (length readers)) as [L|L].
    + rewrite (nth_map' _ _ _ _ dseg L). rewrite (nth_map' s_store _ _ _ dseg L). rewrite nth_map_alive.
      unfold alive_ids. rewrite map_nth_alive_ids_from; [reflexivity|].
      cbn [Nat.add]. apply Hlen. now apply nth_In.
    + rewrite !nth_overflow by now rewrite map_length. reflexivity.
  - intros s a Ha. rewrite nth_addr_sources in Ha. apply in_map_iff in Ha as [d [<- _]]. reflexivity.
Qed.

(* ------------------------------------------------------------------ an interleaving is a bijection
   onto the alive addresses and keeps the order of every source *)
Lemma interleave_perm {A} (srcs : list (list A)) out : interleave srcs out -> Permutation (concat srcs) out.
Proof.
  induction 1 as [srcs HF|srcs i x rest out Hi Hil IH].
  - induction HF as [|l srcs -> _ IHF]; [constructor|exact IHF].
  - eapply perm_trans; [|apply perm_skip; exact IH].
    clear -Hi. revert i Hi; induction srcs as [|l srcs IHs]; intros i Hi; [destruct i; discriminate|].
    destruct i as [|i]; cbn [nth_error] in Hi.
    + injection Hi as ->. reflexivity.
    + cbn [upd concat]. eapply perm_trans; [apply Permutation_app_head, (IHs i Hi)|].
      apply Permutation_sym, Permutation_middle.
Qed.

Lemma concat_addr_sources k als : concat (addr_sources k als) = stacked_from k als.
Proof. revert k; induction als as [|al als IH]; intros k; cbn [addr_sources concat stacked_from]; [reflexivity|now rewrite IH]. Qed.

Theorem shuffled_mapping_bijective readers order :
  interleave (addr_sources 0 (map s_alive readers)) order ->
  NoDup order /\
  (forall s d, In (s, d) order <-> s < length readers /\ is_alive (s_alive (nth s readers dseg)) d = true) /\
  length order = total_docs readers /\
  in_bounds (o2n_init readers) order /\
  (forall s d new, o2n_get (build_o2n readers order) s d = Some new <-> nth_error order new = Some (s, d)).
Proof.
  intros Hil. pose proof (interleave_perm _ _ Hil) as Hp. rewrite concat_addr_sources in Hp.
  pose proof (stacked_mapping_bijective readers) as (Hnd & Hin & Hlen & _ & _ & _).
  cbn [concatenated_mapping m_order] in Hnd, Hin, Hlen.
  assert (Hnd' : NoDup order) by (eapply Permutation_NoDup; eassumption).
  assert (Hb : in_bounds (o2n_init readers) order).
  { intros s d H. apply (in_bounds_stacked readers). eapply Permutation_in; [apply Permutation_sym; exact Hp|exact H]. }
  split; [exact Hnd'|]. split; [|split; [|split; [exact Hb|]]].
  - intros s d. rewrite <- Hin. split; intros H.
    + eapply Permutation_in; [apply Permutation_sym; exact Hp|exact H].
    + eapply Permutation_in; [exact Hp|exact H].
  - rewrite <- Hlen. symmetry. now apply Permutation_length.
  - intros s d new. split.
    + intros H. unfold build_o2n in H. rewrite o2n_fill_get in H by assumption.
      rewrite o2n_get_init in H. apply index_of_nth_error; [exact Hnd'|].
      destruct (index_of (s, d) order); [|discriminate]. injection H as <-. reflexivity.
    + intros H. apply index_of_nth_error in H; [|exact Hnd'].
      unfold build_o2n. rewrite o2n_fill_get by assumption. rewrite H. reflexivity.
Qed.

(* per-source order: new ids of the documents of one source increase with their old ids *)
Lemma interleave_source_order {A} (f : A -> nat) (g : A -> nat) : forall (srcs : list (list A)) out,
  interleave srcs out ->
  (forall s a, In a (nth s srcs []) -> f a = s) ->
  (forall s, StronglySorted (fun a b => g a < g b) (nth s srcs [])) ->
  forall i j a b, i < j -> nth_error out i = Some a -> nth_error out j = Some b -> f a = f b -> g a < g b.
Proof.
  induction 1 as [srcs HF|srcs k x rest out Hk Hil IH]; intros Hord Hsorted i j a b Hij Hi Hj Hab.
  - destruct i; discriminate.
  - assert (Hn : nth k srcs [] = x :: rest) by (apply nth_error_nth with (d := []) in Hk; exact Hk).
    assert (Hlt : k < length srcs) by (apply nth_error_Some; congruence).
    assert (Hnth' : forall s, nth s (upd k rest srcs) [] = if k =? s then rest else nth s srcs []).
    { intros s. rewrite nth_upd. apply Nat.ltb_lt in Hlt. now rewrite Hlt, andb_true_r. }
    assert (Hord' : forall s a, In a (nth s (upd k rest srcs) []) -> f a = s).
    { intros s c Hc. rewrite Hnth' in Hc. destruct (k =? s) eqn:E; [|now apply Hord].
      apply Nat.eqb_eq in E. subst s. apply Hord. rewrite Hn. now right. }
    assert (Hsorted' : forall s, StronglySorted (fun a b => g a < g b) (nth s (upd k rest srcs) [])).
    { intros s. rewrite Hnth'. destruct (k =? s); [|apply Hsorted].
      specialize (Hsorted k). rewrite Hn in Hsorted. now inversion Hsorted. }
    destruct j as [|j]; [lia|]. cbn [nth_error] in Hj. destruct i as [|i]; cbn [nth_error] in Hi.
    + injection Hi as ->.
      (* b occurs later in the output: it is still in one of the remaining sources, namely source f b = f a = k *)
      assert (Hb : In b out) by (eapply nth_error_In; eassumption).
      pose proof (interleave_perm _ _ Hil) as Hp.
      apply (Permutation_in _ (Permutation_sym Hp)) in Hb. apply in_concat in Hb as [l [Hl Hbl]].
      apply In_nth with (d := []) in Hl as [s [Hs <-]].
      pose proof (Hord' s b Hbl) as Hfb.
      assert (Hfa : f a = k) by (apply Hord; rewrite Hn; now left).
      assert (Hsk : s = k) by congruence. rewrite Hsk, Hnth', Nat.eqb_refl in Hbl.
      specialize (Hsorted k). rewrite Hn in Hsorted. inversion Hsorted as [|? ? _ Hall]; subst.
      rewrite Forall_forall in Hall. now apply Hall.
    + eapply (IH Hord' Hsorted' i j); eauto. lia.
Qed.

Theorem shuffled_order_preserving readers order :
  interleave (addr_sources 0 (map s_alive readers)) order ->
  forall i j s d1 d2, i < j -> nth_error order i = Some (s, d1) -> nth_error order j = Some (s, d2) -> d1 < d2.
Proof.
  intros Hil i j s d1 d2 Hij Hi Hj.
  apply (interleave_source_order (fun a : addr => fst a) (fun a : addr => snd a) _ _ Hil) with (i := i) (j := j) (a := (s, d1)) (b := (s, d2)); auto.
  - intros s' a Ha. rewrite nth_addr_sources in Ha. apply in_map_iff in Ha as [d [<- _]]. reflexivity.
  - intros s'. rewrite nth_addr_sources. cbn [Nat.add]. unfold alive_ids.
    pose proof (alive_ids_from_sorted 0 (nth s' (map s_alive readers) [])) as Hs.
    induction Hs as [|x l Hs IHs Hall]; cbn [map]; constructor; [exact IHs|].
    apply Forall_forall. intros y Hy. apply in_map_iff in Hy as [z [<- Hz]]. cbn [snd].
    rewrite Forall_forall in Hall. now apply Hall.
Qed.
