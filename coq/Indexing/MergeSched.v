(* Indexing/MergeSched.v -- the schedule side of merging (C04): a small state machine of the writer
   around start_merge / end_merge.

   Transliterates, from /repo/src/indexer:
     index_writer.rs     add_document / delete_term (opstamps, delete queue), index_documents +
                         apply_deletes (segment finalisation: deletes up to the last document's opstamp,
                         per-document opstamp test), advance_deletes / compute_deleted_bitset
                         (DocToOpstampMapping::None: no opstamp test), prepare_commit, rollback,
                         IndexWriter::merge (make_merge_operation: target = committed opstamp);
     segment_updater.rs  schedule_commit (purge_deletes, SegmentManager::commit, save_metas),
                         consider_merge_options (target = fresh stamp for uncommitted candidates),
                         merge() (advance_deletes of the CLONED source entries to the target opstamp, the
                         merged entry takes the delete cursor of the FIRST source), end_merge (re-applies the
                         deletes in (cursor, committed opstamp], swaps entries in one register, rewrites meta
                         when committed, fails without effect when the sources are gone or the updater was killed);
     segment_manager.rs  start_merge / end_merge / commit / remove_empty_segments.
   Content level: a segment entry holds its LIVE documents (what IndexMerger::write preserves is the
   subject of Merge.v); a document is (id, tag, opstamp); a delete targets a tag or an id.
   Single producer thread; the merge policy is an explicit operation (StartPolicyMerge).
   delete_all_documents is not modelled (its opstamp reversal belongs to C02, finding F2). *)
From TV Require Import Base.Prelude.
Local Open Scope N_scope.

Record sdoc := mkDoc { sd_id : N; sd_tag : N; sd_op : N }.
Inductive dtarget := ByTag (t : N) | ById (i : N).
Definition matches (tg : dtarget) (d : sdoc) : bool :=
  match tg with ByTag t => N.eqb (sd_tag d) t | ById i => N.eqb (sd_id d) i end.
Record delop := mkDel { del_op : N; del_target : dtarget }.

Record entry := mkEntry { e_seg : N; e_docs : list sdoc; e_cursor : nat }.
Record running := mkRunning { r_epoch : N; r_srcs : list N; r_result : option entry }.

Record wstate := mkW {
  w_stamp : N;                 (* next opstamp *)
  w_queue : list delop;        (* delete queue of the current writer (append only) *)
  w_pending : list sdoc;       (* documents of the worker's open segment *)
  w_pcursor : nat;             (* delete cursor of the open segment *)
  w_unc : list entry;          (* uncommitted register *)
  w_com : list entry;          (* committed register *)
  w_copstamp : N;              (* meta.opstamp *)
  w_meta : list entry;         (* meta.json: what a freshly opened searcher sees *)
  w_merges : list running;     (* merge operations in flight *)
  w_epoch : N;                 (* bumped by rollback: older merges find a killed segment updater *)
  w_next_seg : N;
}.

Inductive op :=
| Add (id tag : N)
| Del (tg : dtarget)
| Commit
| Rollback
| Finalize                              (* prepare_commit whose PreparedCommit is dropped *)
| StartMerge (srcs : list N)            (* IndexWriter::merge(segment_ids) *)
| StartPolicyMerge (srcs : list N)      (* a candidate returned by the merge policy *)
| EndMerge (k : nat)                    (* the k-th merge in flight reaches end_merge *)
| AbortMerge (k : nat)                  (* merge() of the k-th merge in flight returned an error (I/O): end_merge is never called *)
| Observe (ids : list N).               (* harness: ids published at this point (no effect) *)

Definition init : wstate := mkW 0 [] [] 0 [] [] 0 [] [] 0 0.

(* ------------------------------------------------------------------ deletes *)
Fixpoint take_upto (target : N) (q : list delop) : list delop :=
  match q with
  | d :: r => if N.ltb (del_op d) target then d :: take_upto target r else []
  | [] => []
  end.
(* compute_deleted_bitset from `cursor`, consuming the operations stamped BELOW the target (the loop breaks at
   `delete_op.opstamp >= target_opstamp`: after a rollback / reopen the stamper restarts at the committed opstamp,
   so the first new operation carries exactly that opstamp and is not part of that commit) *)
Definition consumed (q : list delop) (cursor : nat) (target : N) : list delop := take_upto target (skipn cursor q).
Definition killed_by (ds : list delop) (d : sdoc) : bool := existsb (fun x => matches (del_target x) d) ds.
(* advance_deletes (DocToOpstampMapping::None) *)
Definition advance (q : list delop) (target : N) (e : entry) : entry :=
  let c := consumed q (e_cursor e) target in
  mkEntry (e_seg e) (filter (fun d => negb (killed_by c d)) (e_docs e)) (e_cursor e + length c)%nat.

(* ------------------------------------------------------------------ segments *)
Fixpoint max_op (ds : list sdoc) : N := match ds with [] => 0 | d :: r => N.max (sd_op d) (max_op r) end.
(* index_documents tail: apply_deletes with the per-document opstamp test, then add_segment *)
Definition finalize (s : wstate) : wstate :=
  match w_pending s with
  | [] => s
  | ds =>
      let c := consumed (w_queue s) (w_pcursor s) (max_op ds) in
      let live := filter (fun d => negb (existsb (fun x => matches (del_target x) d && N.ltb (sd_op d) (del_op x)) c)) ds in
      mkW (w_stamp s) (w_queue s) [] 0 (w_unc s ++ [mkEntry (w_next_seg s) live (w_pcursor s + length c)%nat]) (w_com s)
          (w_copstamp s) (w_meta s) (w_merges s) (w_epoch s) (w_next_seg s + 1)
  end.

Definition nonempty (e : entry) : bool := match e_docs e with [] => false | _ => true end.
Definition has_seg (reg : list entry) (i : N) : bool := existsb (fun e => N.eqb (e_seg e) i) reg.
Definition contains_all (reg : list entry) (ids : list N) : bool := forallb (has_seg reg) ids.
Definition get_seg (reg : list entry) (i : N) : option entry := find (fun e => N.eqb (e_seg e) i) reg.
Fixpoint get_all (reg : list entry) (ids : list N) : list entry :=
  match ids with
  | [] => []
  | i :: r => match get_seg reg i with Some e => e :: get_all reg r | None => get_all reg r end
  end.
Definition remove_segs (reg : list entry) (ids : list N) : list entry :=
  filter (fun e => negb (existsb (N.eqb (e_seg e)) ids)) reg.

(* segment_updater::merge on the cloned entries *)
Definition do_merge (q : list delop) (target : N) (new_seg : N) (srcs : list entry) : option entry :=
  match srcs with
  | [] => None
  | _ =>
      if forallb (fun e => negb (nonempty e)) srcs then None      (* num_docs == 0: no segment *)
      else let adv := map (advance q target) srcs in
           Some (mkEntry new_seg (concat (map e_docs adv)) (e_cursor (hd (mkEntry 0 [] 0) adv)))
  end.

Definition in_merge (s : wstate) (i : N) : bool :=
  existsb (fun r => N.eqb (r_epoch r) (w_epoch s) && existsb (N.eqb i) (r_srcs r)) (w_merges s).

Definition start_merge (policy : bool) (srcs : list N) (s : wstate) : wstate :=
  match srcs with
  | [] => s
  | _ =>
      if policy && existsb (in_merge s) srcs then s else
      let unc := contains_all (w_unc s) srcs in
      let com := contains_all (w_com s) srcs in
      if negb (unc || com) then s else
      (* consider_merge_options stamps; IndexWriter::merge uses the committed opstamp *)
      let stamp' := if policy then w_stamp s + 1 else w_stamp s in
      let target := if policy && unc then w_stamp s else w_copstamp s in
      let entries := get_all (if unc then w_unc s else w_com s) srcs in
      let r := mkRunning (w_epoch s) srcs (do_merge (w_queue s) target (w_next_seg s) entries) in
      mkW stamp' (w_queue s) (w_pending s) (w_pcursor s) (w_unc s) (w_com s) (w_copstamp s) (w_meta s)
          (w_merges s ++ [r]) (w_epoch s) (w_next_seg s + 1)
  end.

(* end_merge: reconcile the merged entry with the deletes committed meanwhile *)
Definition reconcile (q : list delop) (copstamp : N) (e : entry) : entry :=
  match nth_error q (e_cursor e) with
  | Some d => if N.ltb (del_op d) copstamp then advance q copstamp e else e
  | None => e
  end.

Fixpoint remove_nth {A} (k : nat) (l : list A) : list A :=
  match l, k with
  | [], _ => []
  | _ :: r, O => r
  | x :: r, S k' => x :: remove_nth k' r
  end.

Definition end_merge (k : nat) (s : wstate) : wstate :=
  match nth_error (w_merges s) k with
  | None => s
  | Some r =>
      let merges' := remove_nth k (w_merges s) in
      let drop := mkW (w_stamp s) (w_queue s) (w_pending s) (w_pcursor s) (w_unc s) (w_com s) (w_copstamp s) (w_meta s)
                      merges' (w_epoch s) (w_next_seg s) in
      if negb (N.eqb (r_epoch r) (w_epoch s)) then drop           (* segment updater killed by a rollback *)
      else
        let m := option_map (reconcile (w_queue s) (w_copstamp s)) (r_result r) in
        let add := match m with Some e => [e] | None => [] end in
        if contains_all (w_unc s) (r_srcs r) then
          mkW (w_stamp s) (w_queue s) (w_pending s) (w_pcursor s) (remove_segs (w_unc s) (r_srcs r) ++ add) (w_com s)
              (w_copstamp s) (w_meta s) merges' (w_epoch s) (w_next_seg s)
        else if contains_all (w_com s) (r_srcs r) then
          let com' := filter nonempty (remove_segs (w_com s) (r_srcs r) ++ add) in   (* save_metas: remove_empty_segments *)
          mkW (w_stamp s) (w_queue s) (w_pending s) (w_pcursor s) (w_unc s) com'
              (w_copstamp s) com' merges' (w_epoch s) (w_next_seg s)
        else drop                                                 (* sources gone: the merge is discarded *)
  end.

(* start_merge's closure on Err(merge_error): the error is sent to the caller, the MergeOperation is dropped *)
Definition abort_merge (k : nat) (s : wstate) : wstate :=
  mkW (w_stamp s) (w_queue s) (w_pending s) (w_pcursor s) (w_unc s) (w_com s) (w_copstamp s) (w_meta s)
      (remove_nth k (w_merges s)) (w_epoch s) (w_next_seg s).

Definition step (s : wstate) (o : op) : wstate :=
  match o with
  | Add id tag =>
      let d := mkDoc id tag (w_stamp s) in
      let pc := match w_pending s with [] => length (w_queue s) | _ => w_pcursor s end in
      mkW (w_stamp s + 1) (w_queue s) (w_pending s ++ [d]) pc (w_unc s) (w_com s) (w_copstamp s) (w_meta s)
          (w_merges s) (w_epoch s) (w_next_seg s)
  | Del tg =>
      mkW (w_stamp s + 1) (w_queue s ++ [mkDel (w_stamp s) tg]) (w_pending s) (w_pcursor s) (w_unc s) (w_com s)
          (w_copstamp s) (w_meta s) (w_merges s) (w_epoch s) (w_next_seg s)
  | Finalize => finalize s
  | Commit =>
      let s1 := finalize s in
      let o := w_stamp s1 in
      let com' := filter nonempty (map (advance (w_queue s1) o) (w_unc s1 ++ w_com s1)) in
      mkW (o + 1) (w_queue s1) [] 0 [] com' o com' (w_merges s1) (w_epoch s1) (w_next_seg s1)
  | Rollback =>
      mkW (w_copstamp s) [] [] 0 [] (map (fun e => mkEntry (e_seg e) (e_docs e) 0) (w_meta s)) (w_copstamp s) (w_meta s)
          (w_merges s) (w_epoch s + 1) (w_next_seg s)
  | StartMerge srcs => start_merge false srcs s
  | StartPolicyMerge srcs => start_merge true srcs s
  | EndMerge k => end_merge k s
  | AbortMerge k => abort_merge k s
  | Observe _ => s
  end.

Definition run (ops : list op) (s : wstate) : wstate := fold_left step ops s.

(* ids published by the last save_metas, sorted *)
Fixpoint insert_id (x : N) (l : list N) : list N :=
  match l with [] => [x] | y :: r => if N.leb x y then x :: l else y :: insert_id x r end.
Definition sort_ids (l : list N) : list N := fold_right insert_id [] l.
Definition published (s : wstate) : list N := sort_ids (map sd_id (concat (map e_docs (w_meta s)))).

Definition is_merge_op (o : op) : bool :=
  match o with StartMerge _ | StartPolicyMerge _ | EndMerge _ | AbortMerge _ => true | _ => false end.
Definition strip (ops : list op) : list op := filter (fun o => negb (is_merge_op o)) ops.

(* ------------------------------------------------------------------ sequential specification
   (the replay of C02 restricted to the operations used here) *)
Record rstate := mkR { r_working : list (N * N); r_committed : list (N * N) }.
Definition rstep (s : rstate) (o : op) : rstate :=
  match o with
  | Add id tag => mkR (r_working s ++ [(id, tag)]) (r_committed s)
  | Del (ByTag t) => mkR (filter (fun d => negb (N.eqb (snd d) t)) (r_working s)) (r_committed s)
  | Del (ById i) => mkR (filter (fun d => negb (N.eqb (fst d) i)) (r_working s)) (r_committed s)
  | Commit => mkR (r_working s) (r_working s)
  | Rollback => mkR (r_committed s) (r_committed s)
  | _ => s
  end.
Definition rpublished (s : rstate) : list N := sort_ids (map fst (r_committed s)).

(* ------------------------------------------------------------------ evaluations asked by the harness *)
Fixpoint obs_model (ops : list op) (s : wstate) : bool :=
  match ops with
  | [] => true
  | Observe ids :: r => list_eqb N.eqb (published s) (sort_ids ids) && obs_model r s
  | o :: r => obs_model r (step s o)
  end.
Fixpoint obs_spec (ops : list op) (s : rstate) : bool :=
  match ops with
  | [] => true
  | Observe ids :: r => list_eqb N.eqb (rpublished s) (sort_ids ids) && obs_spec r s
  | o :: r => obs_spec r (rstep s o)
  end.
Definition sched_tie (ops : list op) : bool := obs_model ops init.
Definition sched_spec (ops : list op) : bool := obs_spec ops (mkR [] []).

(* ------------------------------------------------------------------ known class F0401
   an explicit merge (IndexWriter::merge) of UNCOMMITTED segments whose delete cursors, after the
   advance to the target opstamp, are not all equal: the merged entry inherits the cursor of the first
   source, so deletes between the cursors are either applied to documents added after them or lost. *)
Definition cursors_agree (es : list entry) : bool :=
  match es with
  | [] => true
  | e :: r => forallb (fun x => Nat.eqb (e_cursor x) (e_cursor e)) r
  end.
Definition start_is_f0401 (s : wstate) (o : op) : bool :=
  match o with
  | StartMerge srcs =>
      contains_all (w_unc s) srcs && negb (Nat.eqb (length srcs) 0) &&
      negb (cursors_agree (map (advance (w_queue s) (w_copstamp s)) (get_all (w_unc s) srcs)))
  | _ => false
  end.
Fixpoint f0401_from (ops : list op) (s : wstate) : bool :=
  match ops with
  | [] => false
  | o :: r => start_is_f0401 s o || f0401_from r (step s o)
  end.
Definition f0401_class (ops : list op) : bool := f0401_from ops init.
