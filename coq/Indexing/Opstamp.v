(* Indexing/Opstamp.v -- /repo/src/indexer/stamper.rs.
   The stamper is one atomic u64 counter shared by the writer and the segment updater.
   Values are unbounded here (2^64 operations are out of reach; DESIGN §2). *)
From TV Require Import Base.Prelude.
Local Open Scope N_scope.

Definition stamper := N.
(* Stamper::stamp : fetch_add(1) -- returns the old value *)
Definition stamp (s : stamper) : N * stamper := (s, s + 1).
(* Stamper::stamps n : fetch_add(n) -- the range start..start+n *)
Definition stamps (s : stamper) (n : N) : (N * N) * stamper := ((s, s + n), s + n).
(* Stamper::revert : store *)
Definition revert (s : stamper) (to_opstamp : N) : N * stamper := (to_opstamp, to_opstamp).

Lemma stamp_fresh s : fst (stamp s) < snd (stamp s).
Proof. cbn. lia. Qed.
Lemma stamps_range s n : let '((a, b), s') := stamps s n in a = s /\ b = s + n /\ s' = b.
Proof. cbn. auto. Qed.
