(* Indexing/Replay.v -- the sequential specification of an index writer (C02; shared with C04/C17).

   A history is the list of calls issued on the writer(s) of one index, in call order.  `replay`
   is what the property says a commit publishes: adds append, a delete filters what was added
   before it, delete-all empties, commit publishes, rollback / abort / dropping the writer restore
   the last committed state.  Nothing of the mechanism (opstamps, segments, threads) occurs here. *)
From TV Require Import Base.Prelude.
Local Open Scope N_scope.

(* A document as the harness generates it: `id` (u64 FAST|INDEXED|STORED), `tag` (STRING, one of the
   delete terms), `val` (i64 FAST); `body` (TEXT|STORED) is a function of the id on the harness side. *)
Record doc := mkDoc { d_id : N; d_tag : N; d_val : Z }.

(* delete_term(tag = t)  /  delete_query(id in [lo, hi]) *)
Inductive dquery := QTag (t : N) | QIdRange (lo hi : N).
Definition matches (q : dquery) (d : doc) : bool :=
  match q with
  | QTag t => N.eqb (d_tag d) t
  | QIdRange lo hi => N.leb lo (d_id d) && N.leb (d_id d) hi
  end.

Inductive bop := BAdd (d : doc) | BDel (q : dquery).             (* UserOperation *)
Inductive uop :=
  | Add (d : doc)                  (* add_document *)
  | Del (q : dquery)               (* delete_term / delete_query *)
  | Batch (ops : list bop)         (* run(ops) *)
  | DeleteAll                      (* delete_all_documents *)
  | Commit (payload : option N)    (* commit, or prepare_commit + set_payload + commit *)
  | Rollback                       (* rollback *)
  | Abort                          (* prepare_commit + abort *)
  | Reopen.                        (* the writer is dropped (or wait_merging_threads) and a new one opened *)

Record istate := mkI { committed : list doc; working : list doc }.
Definition survives (q : dquery) (d : doc) : bool := negb (matches q d).
Definition apply_bop (w : list doc) (b : bop) : list doc :=
  match b with BAdd d => w ++ [d] | BDel q => filter (survives q) w end.
Definition rstep (s : istate) (u : uop) : istate :=
  match u with
  | Add d => mkI (committed s) (working s ++ [d])
  | Del q => mkI (committed s) (filter (survives q) (working s))
  | Batch ops => mkI (committed s) (fold_left apply_bop ops (working s))
  | DeleteAll => mkI (committed s) []
  | Commit _ => mkI (working s) (working s)
  | Rollback | Abort | Reopen => mkI (committed s) (committed s)
  end.
Definition replay_from (s : istate) (h : list uop) : istate := fold_left rstep h s.
Definition replay (h : list uop) : istate := replay_from (mkI [] []) h.

(* payload of the last commit (IndexMeta::payload) *)
Definition last_payload (h : list uop) : option N :=
  fold_left (fun p u => match u with Commit q => q | _ => p end) h None.

Lemma replay_app h1 h2 : replay (h1 ++ h2) = replay_from (replay h1) h2.
Proof. unfold replay, replay_from. apply fold_left_app. Qed.
Lemma replay_snoc h u : replay (h ++ [u]) = rstep (replay h) u.
Proof. rewrite replay_app. reflexivity. Qed.

(* documents added anywhere in a history, in call order *)
Definition bop_adds (b : bop) : list doc := match b with BAdd d => [d] | BDel _ => [] end.
Definition uop_adds (u : uop) : list doc :=
  match u with Add d => [d] | Batch ops => flat_map bop_adds ops | _ => [] end.
Definition adds (h : list uop) : list doc := flat_map uop_adds h.

(* boolean equalities used by the case files *)
Definition doc_eqb (a b : doc) : bool := N.eqb (d_id a) (d_id b) && N.eqb (d_tag a) (d_tag b) && Z.eqb (d_val a) (d_val b).
Lemma doc_eqb_eq a b : doc_eqb a b = true <-> a = b.
Proof.
  destruct a as [i t v], b as [i' t' v']; unfold doc_eqb; cbn [d_id d_tag d_val].
  rewrite !andb_true_iff, !N.eqb_eq, Z.eqb_eq. split; [intros [[-> ->] ->]; reflexivity|intros E; injection E; auto].
Qed.
Lemma doc_eq_dec (a b : doc) : {a = b} + {a <> b}.
Proof. decide equality; [apply Z.eq_dec|apply N.eq_dec|apply N.eq_dec]. Defined.
