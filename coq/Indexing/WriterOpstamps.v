(* Indexing/WriterOpstamps.v -- the opstamp clauses of C02 on the model's own trace: the opstamp returned by a
   commit exceeds that of every operation it includes and is meta.opstamp; rollback returns the last commit's;
   commit_opstamp() follows the commit once the writer stores it (f1). *)
From TV Require Import Base.Prelude Indexing.Replay Indexing.Opstamp Indexing.DeleteQueue Indexing.Writer.
From TV Require Import Indexing.WriterObs Indexing.WriterProofs.
Local Open Scope N_scope.

Definition ret_meta (o : obs_t) : N * N := let '(r, m, _, _) := o in (r, m).
Definition ret_acc (o : obs_t) : N * N := let '(r, _, c, _) := o in (r, c).

Lemma event_frame st e : stamper_ st <= stamper_ (do_event st e) /\ meta (do_event st e) = meta st /\
  committed_opstamp (do_event st e) = committed_opstamp st.
Proof.
  destruct e as [i|i|m]; cbn [do_event]; [| |cbn; repeat split; lia].
  - unfold do_take. destruct (chan st); [repeat split; lia|]. destruct (Nat.ltb i _); cbn; repeat split; lia.
  - unfold do_cut. destruct (nth_error (workers st) i) as [w|]; [|repeat split; lia].
    unfold finalize. destruct (w_open w); [cbn; repeat split; lia|].
    destruct (apply_deletes _ _ _). cbn. repeat split; lia.
Qed.
Lemma events_frame es : forall st, stamper_ st <= stamper_ (fold_left do_event es st) /\ meta (fold_left do_event es st) = meta st /\
  committed_opstamp (fold_left do_event es st) = committed_opstamp st.
Proof.
  induction es as [|e es IH]; intros st; cbn [fold_left]; [repeat split; lia|].
  destruct (event_frame st e) as (A & B & C). destruct (IH (do_event st e)) as (A' & B' & C').
  rewrite B', C', B, C. repeat split; lia.
Qed.
Lemma run_ops_frame ops : forall st s adds,
  let st' := fst (run_ops st ops s adds) in
  stamper_ st' = stamper_ st /\ committed_opstamp st' = committed_opstamp st /\ meta st' = meta st.
Proof.
  induction ops as [|[d|q] ops IH]; intros st s adds; cbn [run_ops]; [cbn; auto|apply IH|].
  destruct (IH (push_del st (mkDel s q)) (s + 1) adds) as (A & B & C). cbn zeta. rewrite A, B, C. cbn. auto.
Qed.
Lemma push_add_frame st b : stamper_ (push_add st b) = stamper_ st /\ committed_opstamp (push_add st b) = committed_opstamp st /\
  meta (push_add st b) = meta st.
Proof. destruct b; cbn; auto. Qed.

(* scanning state of spec_opstamps against the model state *)
Definition OI (st : wstate) (cs ws : list N) (lc : N) (dirty : bool) : Prop :=
  Forall (fun s => s < stamper_ st) ws /\ Forall (fun s => s < lc) cs /\ lc = m_opstamp (meta st) /\ lc <= stamper_ st /\
  (dirty = false -> ws = cs /\ committed_opstamp st = lc).

Lemma OI_intro st cs ws lc dirty :
  Forall (fun s => s < stamper_ st) ws -> Forall (fun s => s < lc) cs -> lc = m_opstamp (meta st) -> lc <= stamper_ st ->
  (dirty = false -> ws = cs /\ committed_opstamp st = lc) -> OI st cs ws lc dirty.
Proof. unfold OI. auto. Qed.
Lemma forallb_ltb l c : Forall (fun s => s < c) l -> forallb (fun s => s <? c) l = true.
Proof. intros H. apply forallb_forall. rewrite Forall_forall in H. intros x Hx. apply N.ltb_lt. auto. Qed.

Lemma opstamps_from f1 nw h : forall st sp dirty cs ws lc sc, (0 < nw)%nat ->
  Good nw st sp dirty -> OI st cs ws lc dirty -> f2_scan f1 dirty h = false ->
  ops_scan cs ws lc h (map ret_meta (run_trace f1 st h sc)) = true.
Proof.
  induction h as [|u h IH]; intros st sp dirty cs ws lc sc Hnw HG HO Hf; [reflexivity|].
  cbn [f2_scan] in Hf. apply orb_false_iff in Hf as [Hf1 Hf2].
  cbn [run_trace].
  pose proof (wstep_good f1 nw st sp dirty u (hd no_sstep sc) Hnw HG) as Hstep.
  unfold wstep in *. set (es := s_events (hd no_sstep sc)) in *. set (cur := s_cursors (hd no_sstep sc)) in *.
  destruct (events_frame es st) as (E1 & E2 & E3).
  pose proof (events_good nw es st sp dirty HG) as HG1.
  set (st1 := fold_left do_event es st) in *.
  destruct HO as (O1 & O2 & O3 & O4 & O5).
  assert (Hws : Forall (fun s => s < stamper_ st1) ws) by (eapply Forall_lt_mono; [exact E1|exact O1]).
  assert (Hm : m_opstamp (meta st1) = lc) by (now rewrite E2).
  destruct (wop f1 st1 u cur) as [st' ret] eqn:Ew. cbn [fst] in Hstep.
  assert (HG' : Good nw st' (rstep sp u) (dirty_after f1 dirty u)).
  { apply Hstep. intros ->. exact Hf1. }
  cbn [map observe ret_meta]. unfold observe, ret_meta. cbn [ops_scan].
  destruct u as [d|q0|ops| |payload| | | ]; cbn [wop stamp] in Ew; cbn [dirty_after] in *.
  - (* Add *) injection Ew as <- <-. eapply IH; [exact Hnw|exact HG'| |exact Hf2].
    apply OI_intro; cbn [push_add set_stamper stamper_ meta]; rewrite ?E2; try assumption; try lia; try discriminate.
    constructor; [lia|]. eapply Forall_lt_mono; [|exact Hws]. lia.
  - (* Del *) injection Ew as <- <-. eapply IH; [exact Hnw|exact HG'| |exact Hf2].
    apply OI_intro; cbn [push_del set_stamper stamper_ meta]; rewrite ?E2; try assumption; try lia; try discriminate.
    constructor; [lia|]. eapply Forall_lt_mono; [|exact Hws]. lia.
  - (* Batch *) destruct ops as [|o ops'].
    + injection Ew as <- <-. eapply IH; [exact Hnw|exact HG'| |exact Hf2].
      apply OI_intro; cbn [set_stamper stamper_ meta]; rewrite ?E2; try assumption; try lia; try discriminate.
      constructor; [lia|]. eapply Forall_lt_mono; [|exact Hws]. lia.
    + set (ops := o :: ops') in *. cbn [stamps] in Ew.
      pose proof (run_ops_frame ops (set_stamper st1 (stamper_ st1 + (N.of_nat (length ops) + 1))) (stamper_ st1) []) as Hfr.
      destruct (run_ops _ ops (stamper_ st1) []) as [st2 adds]. cbn [fst] in Hfr. destruct Hfr as (A & B & C).
      injection Ew as <- <-. destruct (push_add_frame st2 adds) as (A' & B' & C').
      eapply IH; [exact Hnw|exact HG'| |exact Hf2].
      change (N.pos (Pos.of_succ_nat (length ops'))) with (N.of_nat (length ops)).
      apply OI_intro; rewrite ?A', ?C', ?A, ?C; cbn [set_stamper stamper_ meta]; rewrite ?E2; try assumption; try lia; try discriminate.
      constructor; [lia|]. eapply Forall_lt_mono; [|exact Hws]. lia.
  - (* DeleteAll *) assert (Hd : dirty = false) by (destruct dirty; [discriminate|reflexivity]). destruct (O5 Hd) as (-> & Hc).
    unfold delete_all in Ew. injection Ew as <- <-. eapply IH; [exact Hnw|exact HG'| |exact Hf2].
    apply OI_intro; cbn [revert snd stamper_ meta committed_opstamp]; rewrite ?E2, ?E3, ?Hc; try assumption; try lia.
    intros _. split; [reflexivity|lia].
  - (* Commit *)
    pose proof (prepare_good nw st1 sp dirty cur Hnw HG1) as HP.
    destruct (prepare_commit st1 cur) as [st4 c]. cbn [fst snd] in HP. destruct HP as [pr_inv0 pr_stamper0 pr_ge0 pr_chan0 pr_open0 pr_nw0 pr_eff0 pr_meta0 pr_cop0 pr_dq0].
    injection Ew as <- <-. cbn [schedule_commit meta m_opstamp].
    assert (Hc : Forall (fun s => s < c) ws) by (eapply Forall_lt_mono; [exact pr_ge0|exact Hws]).
    rewrite (forallb_ltb _ _ Hc), N.eqb_refl. cbn [andb].
    eapply IH; [exact Hnw|exact HG'| |exact Hf2].
    apply OI_intro; cbn [schedule_commit stamper_ meta m_opstamp committed_opstamp stamp snd]; rewrite ?pr_stamper0; try assumption; try lia.
    + eapply Forall_lt_mono; [|exact Hc]. lia.
    + destruct f1; [intros _; split; reflexivity|discriminate].
  - (* Rollback *) injection Ew as <- <-. cbn [new_writer committed_opstamp meta]. rewrite Hm, N.eqb_refl. cbn [andb].
    eapply IH; [exact Hnw|exact HG'| |exact Hf2].
    apply OI_intro; cbn [new_writer stamper_ meta committed_opstamp]; rewrite ?Hm; try assumption; try lia; try reflexivity; intros _; split; reflexivity.
  - (* Abort *)
    pose proof (prepare_good nw st1 sp dirty cur Hnw HG1) as HP.
    destruct (prepare_commit st1 cur) as [st4 c]. cbn [fst snd] in HP. destruct HP as [pr_inv0 pr_stamper0 pr_ge0 pr_chan0 pr_open0 pr_nw0 pr_eff0 pr_meta0 pr_cop0 pr_dq0].
    assert (Hm4 : m_opstamp (meta st4) = lc) by (now rewrite pr_meta0).
    injection Ew as <- <-. cbn [new_writer committed_opstamp meta]. rewrite Hm4, N.eqb_refl. cbn [andb].
    eapply IH; [exact Hnw|exact HG'| |exact Hf2].
    apply OI_intro; cbn [new_writer stamper_ meta committed_opstamp]; rewrite ?Hm4; try assumption; try lia; try reflexivity; intros _; split; reflexivity.
  - (* Reopen *) injection Ew as <- <-. cbn [new_writer committed_opstamp meta]. rewrite Hm, N.eqb_refl. cbn [andb].
    eapply IH; [exact Hnw|exact HG'| |exact Hf2].
    apply OI_intro; cbn [new_writer stamper_ meta committed_opstamp]; rewrite ?Hm; try assumption; try lia; try reflexivity; intros _; split; reflexivity.
Qed.

Theorem opstamps f1 nw h sc : (0 < nw)%nat -> F2_class f1 h = false ->
  spec_opstamps h (map ret_meta (run_trace f1 (new_writer nw init_meta) h sc)) = true.
Proof.
  intros Hnw Hf. eapply opstamps_from; [exact Hnw|apply init_good| |exact Hf].
  apply OI_intro; cbn; try constructor; try lia; auto.
Qed.

(* commit_opstamp(): holds once commit stores the opstamp (f1 = true), for every history and schedule *)
Lemma accessor_from h : forall st sc, spec_accessor h (map ret_acc (run_trace true st h sc)) = true.
Proof.
  induction h as [|u h IH]; intros st sc; [reflexivity|]. cbn [run_trace].
  destruct (wstep true st u (hd no_sstep sc)) as [st' ret] eqn:Ew. cbn [map]. unfold observe, ret_acc at 1. cbn [spec_accessor].
  rewrite IH, andb_true_r. destruct u; try reflexivity.
  unfold wstep in Ew. cbn [wop] in Ew. destruct (prepare_commit _ _) as [st4 c]. injection Ew as <- <-.
  cbn [schedule_commit committed_opstamp]. apply N.eqb_refl.
Qed.
Theorem accessor_fixed nw h sc : spec_accessor h (map ret_acc (run_trace true (new_writer nw init_meta) h sc)) = true.
Proof. apply accessor_from. Qed.
