(* Indexing/WriterProofs.v -- refinement of the writer mechanism (Writer.v) to the sequential
   specification (Replay.v), for every history outside the F2 class and every schedule. *)
From TV Require Import Base.Prelude Indexing.Replay Indexing.Opstamp Indexing.DeleteQueue Indexing.Writer.
From Coq Require Import Permutation Sorting.Sorted.
Local Open Scope N_scope.

(* ------------------------------------------------------------------ lists *)
Lemma Permutation_filter {A} (f : A -> bool) l l' : Permutation l l' -> Permutation (filter f l) (filter f l').
Proof.
  induction 1 as [|x l l' HP IH|x y l|l l' l'' H1 IH1 H2 IH2]; cbn [filter].
  - constructor.
  - destruct (f x); [constructor|]; exact IH.
  - destruct (f x), (f y); try constructor; apply Permutation_refl.
  - eapply Permutation_trans; eassumption.
Qed.
Lemma filter_flat_map {A B} (p : B -> bool) (f : A -> list B) l :
  filter p (flat_map f l) = flat_map (fun x => filter p (f x)) l.
Proof. induction l as [|x l IH]; cbn [flat_map filter]; [reflexivity|]. now rewrite filter_app, IH. Qed.
Lemma filter_filter {A} (p q : A -> bool) l : filter p (filter q l) = filter (fun x => q x && p x) l.
Proof.
  induction l as [|x l IH]; cbn [filter]; [reflexivity|].
  destruct (q x); cbn [filter andb]; [destruct (p x)|]; now rewrite IH.
Qed.
Lemma filter_ext_in' {A} (p q : A -> bool) l : (forall x, In x l -> p x = q x) -> filter p l = filter q l.
Proof.
  induction l as [|x l IH]; intros H; cbn [filter]; [reflexivity|].
  rewrite (H x (or_introl eq_refl)), IH; [reflexivity|]. intros y Hy; apply H; now right.
Qed.
Lemma filter_true {A} (p : A -> bool) l : (forall x, In x l -> p x = true) -> filter p l = l.
Proof.
  induction l as [|x l IH]; intros H; cbn [filter]; [reflexivity|].
  rewrite (H x (or_introl eq_refl)), IH; [reflexivity|]. intros y Hy; apply H; now right.
Qed.
Lemma flat_map_ext_in {A B} (f g : A -> list B) l : (forall x, In x l -> f x = g x) -> flat_map f l = flat_map g l.
Proof.
  induction l as [|x l IH]; intros H; cbn [flat_map]; [reflexivity|].
  rewrite (H x (or_introl eq_refl)), IH; [reflexivity|]. intros y Hy; apply H; now right.
Qed.
Lemma flat_map_nil {A B} (f : A -> list B) l : (forall x, In x l -> f x = []) -> flat_map f l = [].
Proof.
  induction l as [|x l IH]; intros H; cbn [flat_map]; [reflexivity|].
  rewrite (H x (or_introl eq_refl)), IH; [reflexivity|]. intros y Hy; apply H; now right.
Qed.
Lemma flat_map_map {A B C} (f : B -> list C) (g : A -> B) l : flat_map f (map g l) = flat_map (fun x => f (g x)) l.
Proof. induction l as [|x l IH]; cbn [map flat_map]; [reflexivity|now rewrite IH]. Qed.
Lemma map_filter_comm {A B} (f : A -> B) (p : B -> bool) l : filter p (map f l) = map f (filter (fun x => p (f x)) l).
Proof. induction l as [|x l IH]; cbn [map filter]; [reflexivity|]. destruct (p (f x)); cbn [map]; now rewrite IH. Qed.

Lemma skipn_snoc {A} n (l : list A) x : (n <= length l)%nat -> skipn n (l ++ [x]) = skipn n l ++ [x].
Proof. intros H. rewrite skipn_app. replace (n - length l)%nat with O by lia. reflexivity. Qed.
Lemma firstn_snoc {A} n (l : list A) x : (n <= length l)%nat -> firstn n (l ++ [x]) = firstn n l.
Proof. intros H. rewrite firstn_app. replace (n - length l)%nat with O by lia. cbn [firstn]. apply app_nil_r. Qed.
Lemma skipn_add {A} n m (l : list A) : skipn (n + m) l = skipn m (skipn n l).
Proof. revert l; induction n as [|n IH]; intros l; [reflexivity|]. destruct l; cbn [Nat.add skipn]; [now destruct m|apply IH]. Qed.
Lemma firstn_add {A} n m (l : list A) : firstn (n + m) l = firstn n l ++ firstn m (skipn n l).
Proof. revert l; induction n as [|n IH]; intros l; [reflexivity|]. destruct l; cbn [Nat.add firstn skipn app]; [now destruct m|now rewrite IH]. Qed.

Lemma in_firstn {A} n (l : list A) x : In x (firstn n l) -> In x l.
Proof. intros H. rewrite <- (firstn_skipn n l). apply in_or_app. now left. Qed.
Lemma in_skipn {A} n (l : list A) x : In x (skipn n l) -> In x l.
Proof. intros H. rewrite <- (firstn_skipn n l). apply in_or_app. now right. Qed.

(* strictly increasing lists of opstamps *)
Definition incr (l : list N) : Prop := StronglySorted N.lt l.
Lemma incr_snoc l x : incr l -> Forall (fun y => y < x) l -> incr (l ++ [x]).
Proof.
  intros Hs Hf. induction l as [|a l IH]; cbn [app]; [repeat constructor|].
  inversion Hs as [|? ? Hs' Ha]; subst. inversion Hf as [|? ? Hax Hf']; subst.
  constructor; [apply IH; assumption|]. apply Forall_app; split; [assumption|constructor; [assumption|constructor]].
Qed.
Lemma incr_app_inv l1 l2 : incr (l1 ++ l2) -> incr l1 /\ incr l2 /\ forall a b, In a l1 -> In b l2 -> a < b.
Proof.
  induction l1 as [|x l1 IH]; cbn [app]; intros H.
  - repeat split; [constructor|assumption|intros a b []].
  - inversion H as [|? ? Hs Hx]; subst. destruct (IH Hs) as (H1 & H2 & H3).
    apply Forall_app in Hx as [Hx1 Hx2]. repeat split; [constructor; assumption|assumption|].
    intros a b [<-|Ha] Hb; [rewrite Forall_forall in Hx2; auto|auto].
Qed.

(* upd_nth *)
Lemma upd_nth_length {A} i (f : A -> A) l : length (upd_nth i f l) = length l.
Proof. revert i; induction l as [|x l IH]; intros [|i]; cbn [upd_nth length]; auto. Qed.
Lemma upd_nth_split {A} i (f : A -> A) l : (i < length l)%nat ->
  exists l1 w l2, l = l1 ++ w :: l2 /\ upd_nth i f l = l1 ++ f w :: l2 /\ nth_error l i = Some w.
Proof.
  revert i; induction l as [|x l IH]; intros i Hi; cbn [length] in Hi; [lia|].
  destruct i as [|i].
  - exists [], x, l. repeat split.
  - destruct (IH i ltac:(lia)) as (l1 & w & l2 & E1 & E2 & E3).
    exists (x :: l1), w, l2. cbn [upd_nth app nth_error]. rewrite <- E1, E2. repeat split. exact E3.
Qed.
Lemma nth_error_split' {A} i (l : list A) w : nth_error l i = Some w -> exists l1 l2, l = l1 ++ w :: l2 /\ length l1 = i.
Proof. intros H. destruct (nth_error_split l i H) as (l1 & l2 & E1 & E2). eauto. Qed.

(* ------------------------------------------------------------------ compute_deleted *)
(* operations consumed: the longest prefix with opstamp < target *)
Fixpoint upto (l : list delop) (target : N) : nat :=
  match l with [] => O | o :: r => if target <=? del_op o then O else S (upto r target) end.
Definition survive_all (ops : list delop) (r : xrow) : bool := forallb (fun o => negb (hits o r)) ops.
Definition kill_all (ops : list delop) (r : xrow) : xrow := (fst r, snd r && survive_all ops r).

Lemma hits_fst o r r' : fst r = fst r' -> hits o r = hits o r'.
Proof. unfold hits, xr_doc, xr_op. now intros ->. Qed.
Lemma survive_all_fst ops r r' : fst r = fst r' -> survive_all ops r = survive_all ops r'.
Proof.
  intros E. unfold survive_all. induction ops as [|o ops IH]; cbn [forallb]; [reflexivity|].
  now rewrite (hits_fst o r r' E), IH.
Qed.
Lemma kill_all_cons o ops r : kill_all (o :: ops) r = kill_all ops (kill o r).
Proof.
  unfold kill_all, kill, survive_all. cbn [forallb].
  destruct (hits o r) eqn:E; cbn [negb andb fst snd].
  - now rewrite andb_false_r.
  - reflexivity.
Qed.
Lemma hits_kill o o' r : hits o (kill o' r) = hits o r.
Proof. apply hits_fst. unfold kill. now destruct (hits o' r). Qed.
Lemma kill_all_nil r : kill_all [] r = r.
Proof. destruct r as [[d m] a]. unfold kill_all, survive_all. cbn [forallb fst snd]. now rewrite andb_true_r. Qed.
Lemma map_kill_all_nil rows : map (kill_all []) rows = rows.
Proof. rewrite <- (map_id rows) at 2. apply map_ext, kill_all_nil. Qed.
Lemma existsb_hits_kill o o' rows : existsb (hits o) (map (kill o') rows) = existsb (hits o) rows.
Proof. induction rows as [|r rows IH]; cbn [map existsb]; [reflexivity|]. now rewrite hits_kill, IH. Qed.
Lemma existsb_hits_kill_all q o' rows :
  existsb (fun o0 => existsb (hits o0) (map (kill o') rows)) q = existsb (fun o0 => existsb (hits o0) rows) q.
Proof. induction q as [|a q IHq]; [reflexivity|]. cbn [existsb]. rewrite IHq. f_equal. apply existsb_hits_kill. Qed.
Lemma compute_deleted_spec l t rows :
  compute_deleted l t rows =
  (map (kill_all (firstn (upto l t) l)) rows, upto l t,
   existsb (fun o => existsb (hits o) rows) (firstn (upto l t) l)).
Proof.
  revert rows; induction l as [|o l IH]; intros rows; cbn [compute_deleted upto firstn existsb].
  - now rewrite map_kill_all_nil.
  - destruct (t <=? del_op o) eqn:E; cbn [firstn existsb].
    + now rewrite map_kill_all_nil.
    + rewrite IH, map_map.
      assert (E1 : map (fun x => kill_all (firstn (upto l t) l) (kill o x)) rows = map (kill_all (o :: firstn (upto l t) l)) rows).
      { apply map_ext. intros r. symmetry. apply kill_all_cons. }
      now rewrite E1, existsb_hits_kill_all.
Qed.

Lemma upto_le l t : (upto l t <= length l)%nat.
Proof. induction l as [|o l IH]; cbn [upto length]; [lia|]. destruct (t <=? del_op o); lia. Qed.
Lemma upto_consumed l t : Forall (fun o => del_op o < t) (firstn (upto l t) l).
Proof.
  induction l as [|o l IH]; cbn [upto]; [constructor|]. destruct (t <=? del_op o) eqn:E; cbn [firstn]; constructor; [lia|exact IH].
Qed.
(* on an increasing log everything after the consumed prefix is beyond the target *)
Lemma upto_rest l t : incr (map del_op l) -> Forall (fun o => t <= del_op o) (skipn (upto l t) l).
Proof.
  induction l as [|o l IH]; cbn [upto map]; intros Hs; [constructor|].
  inversion Hs as [|? ? Hs' Ho]; subst.
  destruct (t <=? del_op o) eqn:E; cbn [skipn].
  - constructor; [lia|]. rewrite Forall_map in Ho. eapply Forall_impl; [|exact Ho]. cbn. intros a Ha. lia.
  - apply IH, Hs'.
Qed.
Lemma upto_all l t : Forall (fun o => del_op o < t) l -> upto l t = length l.
Proof.
  induction 1 as [|o l Ho Hl IH]; cbn [upto length]; [reflexivity|]. destruct (t <=? del_op o) eqn:E; [lia|now rewrite IH].
Qed.

(* ------------------------------------------------------------------ effective content *)
(* what a register entry / a pipeline document will contribute once every pending delete is applied *)
Definition pend_ok (l : list delop) (d : doc) : bool := forallb (fun o => survives (del_q o) d) l.
Definition eff_entry (q : dqueue) (e : entry) : list doc :=
  filter (pend_ok (skipn (e_cur e) q)) (alive_docs (e_rows e)).
Definition doc_ok (q : dqueue) (x : doc * N) : bool :=
  forallb (fun o => negb (snd x <? del_op o) || survives (del_q o) (fst x)) q.
Definition eff_docs (q : dqueue) (l : list (doc * N)) : list doc := map fst (filter (doc_ok q) l).

Lemma pend_ok_app l1 l2 d : pend_ok (l1 ++ l2) d = pend_ok l1 d && pend_ok l2 d.
Proof. apply forallb_app. Qed.
Lemma doc_ok_app q1 q2 x : doc_ok (q1 ++ q2) x = doc_ok q1 x && doc_ok q2 x.
Proof. apply forallb_app. Qed.
Lemma eff_docs_app q l1 l2 : eff_docs q (l1 ++ l2) = eff_docs q l1 ++ eff_docs q l2.
Proof. unfold eff_docs. now rewrite filter_app, map_app. Qed.
Lemma eff_docs_nil q : eff_docs q [] = [].
Proof. reflexivity. Qed.

Lemma forallb_ext_in {A} (f g : A -> bool) l : (forall x, In x l -> f x = g x) -> forallb f l = forallb g l.
Proof.
  induction l as [|x l IH]; intros H; cbn [forallb]; [reflexivity|].
  rewrite (H x (or_introl eq_refl)), IH; [reflexivity|]. intros y Hy; apply H; now right.
Qed.
Lemma survive_all_none ops d a : survive_all ops (d, None, a) = pend_ok ops d.
Proof.
  unfold survive_all, pend_ok. apply forallb_ext_in. intros o _. unfold hits, survives, xr_doc, xr_op, is_deleted.
  cbn [fst snd]. now rewrite andb_true_r.
Qed.
Lemma alive_docs_and (p : doc -> bool) rows :
  alive_docs (map (fun r => (fst r, snd r && p (fst r))) rows) = filter p (alive_docs rows).
Proof.
  unfold alive_docs. induction rows as [|[d a] rows IH]; cbn [map filter fst snd]; [reflexivity|].
  destruct a; cbn [andb]; [destruct (p d) eqn:E; cbn [map filter fst]; rewrite ?E, IH; reflexivity|exact IH].
Qed.
Lemma alive_docs_full (docs : list (doc * N)) : alive_docs (map (fun x => (fst x, true)) docs) = map fst docs.
Proof. unfold alive_docs. induction docs as [|x l IH]; cbn [map filter snd fst]; [reflexivity|now rewrite IH]. Qed.

Lemma list_max_ge l x : In x l -> x <= list_max l.
Proof.
  induction l as [|y l IH]; cbn [list_max fold_right]; intros []; subst; [lia|].
  specialize (IH H). unfold list_max in IH. lia.
Qed.

(* advance_deletes never changes what the entry will finally contribute, and moves the cursor forward *)
Lemma advance_rows q e t :
  advance_deletes q e t = e \/
  (advance_deletes q e t =
     mkEntry (map (fun r => (fst r, snd r && pend_ok (firstn (upto (skipn (e_cur e) q) t) (skipn (e_cur e) q)) (fst r))) (e_rows e))
             (e_cur e + upto (skipn (e_cur e) q) t)%nat
             (e_delop (advance_deletes q e t))).
Proof.
  unfold advance_deletes. destruct (opt_eqb (e_delop e) t); [now left|].
  destruct (forallb snd (e_rows e) && _); [now left|]. right.
  rewrite compute_deleted_spec. cbn [e_delop]. f_equal.
  rewrite !map_map. apply map_ext. intros [d a]. unfold kill_all, xr_doc, xr_alive. cbn [fst snd].
  now rewrite survive_all_none.
Qed.
Lemma advance_eff q e t : (e_cur e <= length q)%nat ->
  (e_cur e <= e_cur (advance_deletes q e t) <= length q)%nat /\ eff_entry q (advance_deletes q e t) = eff_entry q e.
Proof.
  intros Hc. destruct (advance_rows q e t) as [->| ->]; [split; [lia|reflexivity]|].
  set (l := skipn (e_cur e) q). cbn [e_cur]. split.
  - pose proof (upto_le l t) as H. assert (Hl : length l = (length q - e_cur e)%nat) by (unfold l; apply skipn_length). lia.
  - unfold eff_entry. cbn [e_cur e_rows]. rewrite alive_docs_and, filter_filter, skipn_add. fold l.
    apply filter_ext_in'. intros d _. rewrite <- pend_ok_app, firstn_skipn. reflexivity.
Qed.
(* with every logged delete at or below the target, the advanced entry has nothing pending *)
Lemma advance_done q e t : (e_cur e <= length q)%nat -> Forall (fun o => del_op o < t) q ->
  (forall t', e_delop e = Some t' -> Forall (fun o => t' <= del_op o) (skipn (e_cur e) q)) ->
  skipn (e_cur (advance_deletes q e t)) q = [].
Proof.
  intros Hc Hq Hd. unfold advance_deletes.
  destruct (opt_eqb (e_delop e) t) eqn:E1.
  - unfold opt_eqb in E1. destruct (e_delop e) as [t'|] eqn:E; [|discriminate]. apply N.eqb_eq in E1. subst t'.
    specialize (Hd t eq_refl). destruct (skipn (e_cur e) q) as [|o r] eqn:Es; [reflexivity|].
    exfalso. inversion Hd as [|? ? Ho _]; subst. rewrite Forall_forall in Hq.
    assert (Hin : In o q). { rewrite <- (firstn_skipn (e_cur e) q), Es. apply in_or_app. right. now left. }
    specialize (Hq o Hin). cbn in Hq. lia.
  - destruct (forallb snd (e_rows e) && _) eqn:E2.
    + apply andb_true_iff in E2 as [_ E2]. unfold dq_get in E2. destruct (nth_error q (e_cur e)) eqn:E3; [discriminate|].
      apply nth_error_None in E3. apply skipn_all2. exact E3.
    + rewrite compute_deleted_spec. cbn [e_cur].
      rewrite upto_all.
      * rewrite skipn_length. apply skipn_all2. lia.
      * rewrite Forall_forall in *. intros o Ho. assert (In o q). { rewrite <- (firstn_skipn (e_cur e) q). apply in_or_app. now right. }
        exact (Hq o H).
Qed.
Lemma advance_delop q e t t' : e_delop (advance_deletes q e t) = Some t' -> t' = t \/ e_delop e = Some t'.
Proof.
  unfold advance_deletes. destruct (opt_eqb (e_delop e) t); [now right|].
  destruct (forallb snd (e_rows e) && _); [now right|].
  destruct (compute_deleted _ _ _) as [[rows' n] ch]. cbn [e_delop].
  destruct (Nat.ltb _ _); [intros [= <-]; now left|now right].
Qed.

(* apply_deletes: the entry registered for a worker's segment contributes what its documents would *)
Lemma no_hit_survive ops rows : existsb (fun o => existsb (hits o) rows) ops = false ->
  forall r, In r rows -> survive_all ops r = true.
Proof.
  intros H r Hr. unfold survive_all. apply forallb_forall. intros o Ho.
  destruct (hits o r) eqn:E; [|reflexivity]. exfalso.
  assert (existsb (fun o => existsb (hits o) rows) ops = true); [|congruence].
  apply existsb_exists. exists o. split; [assumption|]. apply existsb_exists. exists r. now split.
Qed.
Definition xrow_of (x : doc * N) : xrow := (fst x, Some (snd x), true).
Lemma alive_docs_killed ops (docs : list (doc * N)) :
  alive_docs (map (fun r => (xr_doc r, xr_alive r)) (map (kill_all ops) (map (fun x => (fst x, Some (snd x), true)) docs)))
  = map fst (filter (fun x => survive_all ops (xrow_of x)) docs).
Proof.
  rewrite !map_map.
  rewrite (map_ext _ (fun x => (fst x, survive_all ops (xrow_of x)))).
  2:{ intros x. unfold kill_all, xr_doc, xr_alive, xrow_of. cbn [fst snd andb]. reflexivity. }
  unfold alive_docs. induction docs as [|x docs IH]; cbn [map filter snd]; [reflexivity|].
  destruct (survive_all ops (xrow_of x)); cbn [map fst]; now rewrite IH.
Qed.
Lemma apply_deletes_rows q c docs :
  exists ops, alive_docs (fst (apply_deletes q c docs)) = map fst (filter (fun x => survive_all ops (xrow_of x)) docs) /\
    ((ops = [] /\ snd (apply_deletes q c docs) = c /\ dq_get q c = None) \/
     (ops = firstn (upto (skipn c q) (list_max (map snd docs))) (skipn c q) /\
      snd (apply_deletes q c docs) = (c + upto (skipn c q) (list_max (map snd docs)))%nat)).
Proof.
  unfold apply_deletes. destruct (dq_get q c) eqn:Eg.
  - rewrite compute_deleted_spec. set (l := skipn c q). set (n := upto l (list_max (map snd docs))).
    exists (firstn n l). split; [|right; split; reflexivity].
    destruct (existsb _ (firstn n l)) eqn:Ech; cbn [fst].
    + apply alive_docs_killed.
    + rewrite alive_docs_full. f_equal. symmetry. apply filter_true. intros x Hx.
      apply (no_hit_survive _ _ Ech). apply in_map_iff. exists x. split; [reflexivity|assumption].
  - exists []. cbn [fst snd]. split; [|left; auto].
    rewrite alive_docs_full. f_equal. symmetry. apply filter_true. reflexivity.
Qed.

Lemma apply_deletes_eff q c docs :
  incr (map del_op q) -> (c <= length q)%nat ->
  (forall o x, In o (firstn c q) -> In x docs -> del_op o < snd x) ->
  (forall o x, In o q -> In x docs -> del_op o <> snd x) ->
  (c <= snd (apply_deletes q c docs) <= length q)%nat /\
  filter (pend_ok (skipn (snd (apply_deletes q c docs)) q)) (alive_docs (fst (apply_deletes q c docs))) = eff_docs q docs.
Proof.
  intros Hs Hc Hlow Hne. destruct (apply_deletes_rows q c docs) as (ops & Erows & Hcase). rewrite Erows.
  destruct Hcase as [(-> & -> & Hg)|(Eops & ->)].
  - split; [lia|]. apply nth_error_None in Hg. rewrite skipn_all2 by exact Hg.
    rewrite filter_true by reflexivity. unfold eff_docs. f_equal. apply filter_ext_in'. intros x Hx.
    cbn [survive_all forallb]. symmetry. unfold doc_ok. apply forallb_forall. intros o Ho.
    rewrite <- (firstn_all q) in Ho. rewrite firstn_all2 in Ho by lia. rewrite firstn_all2 in Hlow by lia.
    specialize (Hlow o x Ho Hx). apply orb_true_iff. left. apply negb_true_iff. apply N.ltb_ge. lia.
  - set (l := skipn c q) in *. set (mx := list_max (map snd docs)) in *. set (n := upto l mx) in *.
    assert (Hn : (n <= length l)%nat) by apply upto_le.
    assert (Hl : length l = (length q - c)%nat) by (unfold l; apply skipn_length).
    split; [lia|].
    rewrite map_filter_comm, filter_filter. unfold eff_docs. f_equal. apply filter_ext_in'. intros x Hx.
    rewrite skipn_add. fold l.
    assert (Eq : q = firstn c q ++ firstn n l ++ skipn n l).
    { rewrite (firstn_skipn n l). unfold l. now rewrite firstn_skipn. }
    rewrite Eq at 1. rewrite !doc_ok_app.
    assert (E1 : doc_ok (firstn c q) x = true).
    { apply forallb_forall. intros o Ho. specialize (Hlow o x Ho Hx). apply orb_true_iff. left. apply negb_true_iff, N.ltb_ge. lia. }
    rewrite E1, andb_true_l. f_equal.
    + rewrite Eops. unfold survive_all, doc_ok. apply forallb_ext_in. intros o _.
      unfold hits, xrow_of, xr_doc, xr_op, is_deleted, survives. cbn [fst snd].
      destruct (matches (del_q o) (fst x)), (snd x <? del_op o); reflexivity.
    + unfold pend_ok, doc_ok. apply forallb_ext_in. intros o Ho.
      assert (Hgt : mx <= del_op o).
      { assert (Hsl : incr (map del_op l)).
        { unfold l. rewrite <- (firstn_skipn c q), map_app in Hs. apply incr_app_inv in Hs. tauto. }
        pose proof (upto_rest l mx Hsl) as Hr. rewrite Forall_forall in Hr. apply Hr, Ho. }
      assert (Hx' : snd x <= mx). { apply list_max_ge. apply in_map, Hx. }
      assert (Hne' : del_op o <> snd x). { apply Hne; [|exact Hx]. unfold l in Ho. eapply in_skipn, in_skipn, Ho. }
      assert (E : snd x <? del_op o = true) by (apply N.ltb_lt; lia). rewrite E. reflexivity.
Qed.

(* ------------------------------------------------------------------ invariant *)
Definition cc (st : wstate) : list (doc * N) := concat (chan st).       (* documents still in the channel *)
Definition entries (st : wstate) : list entry := unc st ++ com st.

Definition worker_ok (s : N) (q : dqueue) (pipe : list (doc * N)) (w : worker) : Prop :=
  (w_cur w <= length q)%nat /\ Forall (fun x => snd x < s) (w_open w) /\
  (forall o x, In o (firstn (w_cur w) q) -> In x (w_open w ++ pipe) -> del_op o < snd x) /\
  (forall o x, In o q -> In x (w_open w ++ pipe) -> del_op o <> snd x).     (* every opstamp is handed out once *)
Definition entry_ok (s : N) (q : dqueue) (e : entry) : Prop :=
  (e_cur e <= length q)%nat /\
  forall t, e_delop e = Some t -> t <= s /\ Forall (fun o => t <= del_op o) (skipn (e_cur e) q).
Definition meta_ok (m : imeta) : Prop := forall rows t, In (rows, Some t) (m_segs m) -> t <= m_opstamp m.

(* `s` is the next opstamp: opstamps increase strictly in call order *)
Record Inv (s : N) (st : wstate) : Prop := mkInv {
  inv_sorted : incr (map del_op (dq st));
  inv_dq_lt : Forall (fun o => del_op o < s) (dq st);
  inv_pipe_sorted : incr (map snd (cc st));
  inv_pipe_lt : Forall (fun x => snd x < s) (cc st);
  inv_workers : Forall (worker_ok s (dq st) (cc st)) (workers st);
  inv_entries : Forall (entry_ok s (dq st)) (entries st);
  inv_meta : meta_ok (meta st) }.

Definition eff (st : wstate) : list doc :=
  flat_map (eff_entry (dq st)) (entries st) ++
  flat_map (fun w => eff_docs (dq st) (w_open w)) (workers st) ++
  eff_docs (dq st) (cc st).
Definition Rel (st : wstate) (sp : istate) : Prop :=
  Permutation (working sp) (eff st) /\ Permutation (committed sp) (published st).
(* nothing was stamped since committed_opstamp was stored *)
Definition Clean (st : wstate) : Prop :=
  chan st = [] /\ Forall (fun w => w_open w = []) (workers st) /\
  Forall (fun o => del_op o < committed_opstamp st) (dq st) /\ committed_opstamp st <= stamper_ st /\
  (forall rows t, In (rows, Some t) (m_segs (meta st)) -> t <= committed_opstamp st).
Definition Good (nw : nat) (st : wstate) (sp : istate) (dirty : bool) : Prop :=
  Inv (stamper_ st) st /\ Rel st sp /\ (dirty = false -> Clean st) /\ length (workers st) = nw.

Ltac perm :=
  apply (proj2 (Permutation_count_occ doc_eq_dec _ _)); intros ?x;
  repeat (rewrite ?count_occ_app, ?flat_map_app; cbn [flat_map]); cbn [count_occ]; lia.

Lemma worker_ok_mono s s' q pipe pipe' w : s <= s' -> (forall x, In x pipe' -> In x pipe) ->
  worker_ok s q pipe w -> worker_ok s' q pipe' w.
Proof.
  intros Hs Hp (H1 & H2 & H3 & H4). repeat split; [exact H1| | |].
  - eapply Forall_impl; [|exact H2]. cbn. intros; lia.
  - intros o x Ho Hx. apply (H3 o x Ho). apply in_app_or in Hx as [Hx|Hx]; apply in_or_app; auto.
  - intros o x Ho Hx. apply (H4 o x Ho). apply in_app_or in Hx as [Hx|Hx]; apply in_or_app; auto.
Qed.
Lemma entry_ok_mono s s' q e : s <= s' -> entry_ok s q e -> entry_ok s' q e.
Proof. intros Hs (H1 & H2). split; [exact H1|]. intros t Ht. destruct (H2 t Ht). split; [lia|assumption]. Qed.
Lemma Forall_lt_mono {A} (f : A -> N) s s' l : s <= s' -> Forall (fun x => f x < s) l -> Forall (fun x => f x < s') l.
Proof. intros Hs H. eapply Forall_impl; [|exact H]. cbn. intros; lia. Qed.

(* ------------------------------------------------------------------ a worker takes a batch *)
Lemma worker_take_open q b w : w_open (worker_take q b w) = w_open w ++ b.
Proof. unfold worker_take. destruct (w_open w) eqn:E; [destruct b as [|[d o] b]|]; cbn [w_open app]; rewrite ?E; reflexivity. Qed.
Lemma worker_take_ok s q b pipe w :
  incr (map snd (b ++ pipe)) -> Forall (fun x => snd x < s) b ->
  worker_ok s q (b ++ pipe) w -> worker_ok s q pipe (worker_take q b w).
Proof.
  intros Hs Hb (H1 & H2 & H3 & H4).
  assert (Hdefault : worker_ok s q pipe (mkWorker (w_cur w) (w_open w ++ b))).
  { repeat split; cbn [w_cur w_open]; [exact H1|apply Forall_app; now split| |].
    - intros o x Ho Hx. apply (H3 o x Ho). rewrite <- app_assoc in Hx. exact Hx.
    - intros o x Ho Hx. apply (H4 o x Ho). rewrite <- app_assoc in Hx. exact Hx. }
  unfold worker_take. destruct (w_open w) eqn:Eo; [|exact Hdefault]. destruct b as [|[d o1] b]; [exact Hdefault|].
  pose proof (skip_to_bounds q (w_cur w) o1 H1) as Hb'.
  repeat split; cbn [w_cur w_open]; [lia|exact Hb| |intros o x Ho Hx; apply (H4 o x Ho); exact Hx].
  intros o x Ho Hx. unfold skip_to in Ho. rewrite firstn_add in Ho. apply in_app_or in Ho as [Ho|Ho].
  - apply (H3 o x Ho). exact Hx.
  - pose proof (skip_while_skipped (skipn (w_cur w) q) o1) as Hsk. rewrite Forall_forall in Hsk. specialize (Hsk o Ho).
    cbn beta in Hsk. cbn [app map snd] in Hs. inversion Hs as [|? ? _ Hall]; subst.
    destruct Hx as [<-|Hx]; [cbn [snd]; lia|].
    rewrite Forall_forall in Hall. specialize (Hall (snd x) (in_map snd _ _ Hx)). lia.
Qed.

Lemma flat_map_upd {B} (f : worker -> list B) l1 w' l2 :
  flat_map f (l1 ++ w' :: l2) = flat_map f l1 ++ f w' ++ flat_map f l2.
Proof. now rewrite flat_map_app. Qed.

Lemma take_good nw st sp dirty i : Good nw st sp dirty -> Good nw (do_take st i) sp dirty.
Proof.
  intros HG. pose proof HG as (HI & (HR1 & HR2) & HC & HN). unfold do_take.
  destruct (chan st) as [|b rest] eqn:Ech; [exact HG|].
  destruct (Nat.ltb i (length (workers st))) eqn:Ei; [|exact HG].
  apply Nat.ltb_lt in Ei.
  destruct (upd_nth_split i (worker_take (dq st) b) (workers st) Ei) as (l1 & w & l2 & E1 & E2 & _).
  destruct HI as [I1 I2 I3 I4 I5 I6 I7]. unfold cc in *. rewrite Ech in *. cbn [concat] in *.
  assert (I4b : Forall (fun x => snd x < stamper_ st) b /\ Forall (fun x => snd x < stamper_ st) (concat rest)) by (now apply Forall_app).
  split; [|split; [|split]].
  - constructor; cbn [dq chan workers unc com meta stamper_]; unfold cc, entries; cbn [dq chan workers unc com meta stamper_]; try assumption.
    + rewrite map_app in I3. apply incr_app_inv in I3. tauto.
    + tauto.
    + rewrite E2. rewrite E1 in I5. apply Forall_app in I5 as [F1 F2]. inversion F2 as [|? ? Fw F3]; subst.
      apply Forall_app; split; [|constructor].
      * eapply Forall_impl; [|exact F1]. intros a. apply worker_ok_mono; [lia|]. intros x Hx. apply in_or_app. now right.
      * apply worker_take_ok; tauto.
      * eapply Forall_impl; [|exact F3]. intros a. apply worker_ok_mono; [lia|]. intros x Hx. apply in_or_app. now right.
  - split; [|exact HR2]. eapply Permutation_trans; [exact HR1|].
    unfold eff, cc, entries. cbn [dq chan workers unc com]. rewrite Ech, E2, E1. cbn [concat].
    rewrite !flat_map_upd, worker_take_open, !eff_docs_app. perm.
  - intros Hd. destruct (HC Hd) as (C1 & _). congruence.
  - cbn [workers]. now rewrite upd_nth_length.
Qed.

(* ------------------------------------------------------------------ a worker registers its segment *)
Definition with_unc (st : wstate) (es : list entry) : wstate :=
  mkW (stamper_ st + N.of_nat (length es)) (committed_opstamp st) (dq st) (chan st) (workers st) (unc st ++ es) (com st) (meta st).
Lemma with_unc_nil st : with_unc st [] = st.
Proof. destruct st. unfold with_unc. cbn. now rewrite N.add_0_r, app_nil_r. Qed.
Lemma with_unc_app st es es' : with_unc (with_unc st es) es' = with_unc st (es ++ es').
Proof. unfold with_unc. cbn. rewrite app_length, Nat2N.inj_add, N.add_assoc, app_assoc. reflexivity. Qed.

Lemma finalize_spec st w pipe :
  incr (map del_op (dq st)) -> worker_ok (stamper_ st) (dq st) pipe w ->
  exists es, finalize st w = with_unc st es /\
    Forall (entry_ok (stamper_ st) (dq st)) es /\
    flat_map (eff_entry (dq st)) es = eff_docs (dq st) (w_open w).
Proof.
  intros Hs (H1 & H2 & H3 & H4). unfold finalize. destruct (w_open w) as [|x l] eqn:Eo.
  - exists []. rewrite with_unc_nil. repeat split. constructor.
  - pose proof (apply_deletes_eff (dq st) (w_cur w) (x :: l) Hs H1) as Ha.
    destruct (apply_deletes (dq st) (w_cur w) (x :: l)) as [rows cur'] eqn:Ea. cbn [fst snd] in Ha.
    destruct Ha as (Hb & He). { intros o y Ho Hy. apply (H3 o y Ho). apply in_or_app. now left. }
    { intros o y Ho Hy. apply (H4 o y Ho). apply in_or_app. now left. }
    exists [mkEntry rows cur' None]. split; [|split].
    + unfold with_unc. cbn [stamp snd length]. reflexivity.
    + constructor; [|constructor]. split; cbn [e_cur e_delop]; [lia|discriminate].
    + cbn [flat_map]. rewrite app_nil_r. exact He.
Qed.

Lemma inv_with_unc s st es : Inv s st -> Forall (entry_ok s (dq st)) es -> forall s', s <= s' -> Inv s' (with_unc st es).
Proof.
  intros [I1 I2 I3 I4 I5 I6 I7] He s' Hs.
  constructor; unfold cc, entries in *; cbn [with_unc dq chan workers unc com meta]; try assumption.
  - eapply Forall_lt_mono; eassumption.
  - eapply Forall_lt_mono; eassumption.
  - eapply Forall_impl; [|exact I5]. intros a. apply worker_ok_mono; auto.
  - apply Forall_app in I6 as [Ia Ib]. rewrite !Forall_app. repeat split; (eapply Forall_impl; [|eassumption]); intros a; apply entry_ok_mono; assumption.
Qed.

Lemma clear_worker_ok s q pipe w : worker_ok s q pipe w -> worker_ok s q pipe (mkWorker (w_cur w) []).
Proof.
  intros (H1 & H2 & H3 & H4). repeat split; cbn [w_cur w_open]; [exact H1|constructor| |].
  - intros o x Ho Hx. apply (H3 o x Ho). apply in_or_app. now right.
  - intros o x Ho Hx. apply (H4 o x Ho). apply in_or_app. now right.
Qed.

Lemma cut_good nw st sp dirty i : Good nw st sp dirty -> Good nw (do_cut st i) sp dirty.
Proof.
  intros HG. pose proof HG as (HI & (HR1 & HR2) & HC & HN). unfold do_cut.
  destruct (nth_error (workers st) i) as [w|] eqn:En; [|exact HG].
  assert (Ei : (i < length (workers st))%nat) by (apply nth_error_Some; congruence).
  destruct (upd_nth_split i (fun w => mkWorker (w_cur w) []) (workers st) Ei) as (l1 & w' & l2 & E1 & E2 & E3).
  assert (w' = w) by congruence. subst w'.
  pose proof HI as [I1 I2 I3 I4 I5 I6 I7].
  assert (Hw : worker_ok (stamper_ st) (dq st) (cc st) w).
  { rewrite Forall_forall in I5. apply I5. rewrite E1. apply in_or_app. right. now left. }
  destruct (finalize_spec st w (cc st) I1 Hw) as (es & -> & Hes & Heff).
  assert (Hs : stamper_ st <= stamper_ st + N.of_nat (length es)) by lia.
  pose proof (inv_with_unc _ _ _ HI Hes _ Hs) as [J1 J2 J3 J4 J5 J6 J7].
  split; [|split; [|split]].
  - constructor; unfold cc, entries in *; cbn [set_workers with_unc dq chan workers unc com meta stamper_] in *; try assumption.
    rewrite E2. rewrite E1 in J5. apply Forall_app in J5 as [F1 F2]. inversion F2 as [|? ? Fw F3]; subst.
    apply Forall_app; split; [exact F1|constructor; [|exact F3]]. now apply clear_worker_ok.
  - split; [|exact HR2]. eapply Permutation_trans; [exact HR1|].
    unfold eff, cc, entries. cbn [set_workers with_unc dq chan workers unc com]. rewrite E2. rewrite E1 at 1.
    rewrite !flat_map_app. cbn [flat_map w_open]. rewrite Heff, eff_docs_nil. perm.
  - intros Hd. destruct (HC Hd) as (C1 & C2 & C3 & C4 & C5).
    assert (Ew : w_open w = []). { rewrite Forall_forall in C2. apply C2. rewrite E1. apply in_or_app. right. now left. }
    unfold Clean. cbn [set_workers with_unc dq chan workers unc com meta stamper_ committed_opstamp].
    repeat split; try assumption; [|lia].
    rewrite E2. rewrite E1 in C2. apply Forall_app in C2 as [F1 F2]. inversion F2; subst.
    apply Forall_app; split; [assumption|constructor; [reflexivity|assumption]].
  - cbn [set_workers workers]. now rewrite upd_nth_length.
Qed.

Lemma cut_keeps_documents nw st sp dirty i :
  Good nw st sp dirty -> Good nw (do_cut st i) sp dirty /\ Permutation (working sp) (eff (do_cut st i)).
Proof. intros H. pose proof (cut_good nw st sp dirty i H) as G. split; [exact G|exact (proj1 (proj1 (proj2 G)))]. Qed.
Lemma event_good nw st sp dirty e : Good nw st sp dirty -> Good nw (do_event st e) sp dirty.
Proof. destruct e; [apply take_good|apply cut_good|exact (fun H => H)]. Qed.
Lemma events_good nw es : forall st sp dirty, Good nw st sp dirty -> Good nw (fold_left do_event es st) sp dirty.
Proof. induction es as [|e es IH]; intros st sp dirty H; cbn [fold_left]; [exact H|]. apply IH, event_good, H. Qed.

(* ------------------------------------------------------------------ add / delete at opstamp s *)
Definition set_chan (st : wstate) (ch : list (list (doc * N))) : wstate :=
  mkW (stamper_ st) (committed_opstamp st) (dq st) ch (workers st) (unc st) (com st) (meta st).

Lemma chan_irrelevant s st ch : concat ch = cc st -> (Inv s st -> Inv s (set_chan st ch)) /\ eff (set_chan st ch) = eff st.
Proof.
  intros E. split.
  - intros [I1 I2 I3 I4 I5 I6 I7]. constructor; unfold cc, entries in *; cbn [set_chan dq chan workers unc com meta]; rewrite ?E; assumption.
  - unfold eff, cc, entries in *. cbn [set_chan dq chan workers unc com]. now rewrite E.
Qed.

Lemma eff_docs_fresh q d s : Forall (fun o => del_op o < s) q -> eff_docs q [(d, s)] = [d].
Proof.
  intros H. unfold eff_docs. cbn [filter].
  assert (E : doc_ok q (d, s) = true).
  { apply forallb_forall. intros o Ho. rewrite Forall_forall in H. specialize (H o Ho). cbn [fst snd] in *.
    apply orb_true_iff. left. apply negb_true_iff, N.ltb_ge. lia. }
  now rewrite E.
Qed.

Lemma inv_add s st ch d : Inv s st -> concat ch = cc st ++ [(d, s)] ->
  Inv (s + 1) (set_chan st ch) /\ Permutation (eff (set_chan st ch)) (eff st ++ [d]).
Proof.
  intros [I1 I2 I3 I4 I5 I6 I7] E. split.
  - constructor; unfold cc, entries in *; cbn [set_chan dq chan workers unc com meta]; rewrite ?E; try assumption.
    + eapply Forall_lt_mono; [|eassumption]. lia.
    + rewrite map_app. cbn [map snd]. apply incr_snoc; [assumption|]. now rewrite Forall_map.
    + apply Forall_app. split; [eapply Forall_lt_mono; [|eassumption]; lia|]. constructor; [cbn; lia|constructor].
    + eapply Forall_impl; [|exact I5]. intros w (H1 & H2 & H3 & H4). repeat split; [exact H1|eapply Forall_lt_mono; [|eassumption]; lia| |].
      * intros o x Ho Hx. rewrite app_assoc in Hx. apply in_app_or in Hx as [Hx|[<-|[]]]; [now apply H3|].
        cbn [snd]. rewrite Forall_forall in I2. apply I2. eapply in_firstn, Ho.
      * intros o x Ho Hx. rewrite app_assoc in Hx. apply in_app_or in Hx as [Hx|[<-|[]]]; [now apply H4|].
        cbn [snd]. rewrite Forall_forall in I2. specialize (I2 o Ho). cbn in I2. lia.
    + eapply Forall_impl; [|exact I6]. intros e. apply entry_ok_mono. lia.
  - unfold eff, cc, entries in *. cbn [set_chan dq chan workers unc com]. rewrite E, eff_docs_app, (eff_docs_fresh _ _ _ I2). perm.
Qed.

Lemma eff_entry_push q x e : (e_cur e <= length q)%nat ->
  eff_entry (q ++ [x]) e = filter (survives (del_q x)) (eff_entry q e).
Proof.
  intros Hc. unfold eff_entry. rewrite skipn_snoc by exact Hc. rewrite filter_filter.
  apply filter_ext_in'. intros d _. rewrite pend_ok_app. unfold pend_ok at 2. cbn [forallb]. now rewrite andb_true_r.
Qed.
Lemma eff_docs_push q x l : Forall (fun y => snd y < del_op x) l ->
  eff_docs (q ++ [x]) l = filter (survives (del_q x)) (eff_docs q l).
Proof.
  intros Hl. unfold eff_docs. rewrite map_filter_comm, filter_filter. f_equal.
  apply filter_ext_in'. intros y Hy. rewrite doc_ok_app. unfold doc_ok at 2. cbn [forallb]. rewrite andb_true_r.
  rewrite Forall_forall in Hl. specialize (Hl y Hy). cbn beta in Hl.
  assert (E : snd y <? del_op x = true) by (apply N.ltb_lt; lia). now rewrite E.
Qed.

Lemma inv_del s st q0 : Inv s st ->
  Inv (s + 1) (push_del st (mkDel s q0)) /\ eff (push_del st (mkDel s q0)) = filter (survives q0) (eff st).
Proof.
  intros [I1 I2 I3 I4 I5 I6 I7]. split.
  - constructor; unfold cc, entries in *; cbn [push_del dq chan workers unc com meta]; unfold dq_push; try assumption.
    + rewrite map_app. cbn [map del_op]. apply incr_snoc; [assumption|]. now rewrite Forall_map.
    + apply Forall_app. split; [eapply Forall_lt_mono; [|eassumption]; lia|]. constructor; [cbn; lia|constructor].
    + eapply Forall_lt_mono; [|eassumption]. lia.
    + eapply Forall_impl; [|exact I5]. intros w (H1 & H2 & H3 & H4). repeat split.
      * rewrite app_length. cbn [length]. lia.
      * eapply Forall_lt_mono; [|eassumption]. lia.
      * intros o x Ho Hx. rewrite firstn_snoc in Ho by exact H1. now apply H3.
      * intros o x Ho Hx. apply in_app_or in Ho as [Ho|[<-|[]]]; [now apply H4|]. cbn [del_op].
        apply in_app_or in Hx as [Hx|Hx]; [rewrite Forall_forall in H2; specialize (H2 x Hx)|rewrite Forall_forall in I4; specialize (I4 x Hx)]; cbn in *; lia.
    + eapply Forall_impl; [|exact I6]. intros e (H1 & H2). split; [rewrite app_length; cbn [length]; lia|].
      intros t Ht. destruct (H2 t Ht) as (Ha & Hb). split; [lia|]. rewrite skipn_snoc by exact H1.
      apply Forall_app. split; [exact Hb|]. constructor; [cbn; lia|constructor].
  - unfold eff, cc, entries in *. cbn [push_del dq chan workers unc com]. unfold dq_push.
    rewrite !filter_app, !filter_flat_map. f_equal; [|f_equal].
    + apply flat_map_ext_in. intros e He. rewrite Forall_forall in I6. destruct (I6 e He) as (H1 & _).
      now rewrite eff_entry_push.
    + apply flat_map_ext_in. intros w Hw. rewrite Forall_forall in I5. destruct (I5 w Hw) as (_ & H2 & _).
      now rewrite eff_docs_push.
    + now rewrite eff_docs_push.
Qed.

(* ------------------------------------------------------------------ run (batch) *)
Definition vst (st : wstate) (adds : list (doc * N)) : wstate := set_chan st (chan st ++ [adds]).
Lemma cc_vst st adds : cc (vst st adds) = cc st ++ adds.
Proof. unfold cc, vst. cbn [set_chan chan]. rewrite concat_app. cbn [concat]. now rewrite app_nil_r. Qed.

Lemma run_ops_good ops : forall st s adds wk,
  Inv s (vst st adds) -> Permutation wk (eff (vst st adds)) ->
  Inv (s + N.of_nat (length ops)) (vst (fst (run_ops st ops s adds)) (snd (run_ops st ops s adds))) /\
  Permutation (fold_left apply_bop ops wk) (eff (vst (fst (run_ops st ops s adds)) (snd (run_ops st ops s adds)))) /\
  (let st' := fst (run_ops st ops s adds) in
   stamper_ st' = stamper_ st /\ committed_opstamp st' = committed_opstamp st /\ chan st' = chan st /\
   workers st' = workers st /\ unc st' = unc st /\ com st' = com st /\ meta st' = meta st).
Proof.
  induction ops as [|[d|q0] ops IH]; intros st s adds wk HI HP; cbn [run_ops fold_left length].
  - rewrite N.add_0_r. cbn [fst snd]. split; [exact HI|split; [exact HP|repeat split]].
  - assert (E : concat (chan st ++ [adds ++ [(d, s)]]) = cc (vst st adds) ++ [(d, s)]).
    { rewrite cc_vst. unfold cc. rewrite concat_app. cbn [concat]. now rewrite app_nil_r, app_assoc. }
    destruct (inv_add s (vst st adds) _ d HI E) as (HI' & HP').
    change (set_chan (vst st adds) (chan st ++ [adds ++ [(d, s)]])) with (vst st (adds ++ [(d, s)])) in *.
    specialize (IH st (s + 1) (adds ++ [(d, s)]) (wk ++ [d]) HI').
    destruct IH as (A & B & C).
    { eapply Permutation_trans; [|apply Permutation_sym, HP']. now apply Permutation_app_tail. }
    split; [|split; [exact B|exact C]].
    replace (s + N.of_nat (S (length ops))) with (s + 1 + N.of_nat (length ops)) by lia. exact A.
  - destruct (inv_del s (vst st adds) q0 HI) as (HI' & HP').
    change (push_del (vst st adds) (mkDel s q0)) with (vst (push_del st (mkDel s q0)) adds) in *.
    specialize (IH (push_del st (mkDel s q0)) (s + 1) adds (filter (survives q0) wk) HI').
    destruct IH as (A & B & C).
    { rewrite HP'. now apply Permutation_filter. }
    split; [|split; [exact B|exact C]].
    replace (s + N.of_nat (S (length ops))) with (s + 1 + N.of_nat (length ops)) by lia. exact A.
Qed.

Lemma inv_frame s st st' : dq st' = dq st -> chan st' = chan st -> workers st' = workers st -> unc st' = unc st ->
  com st' = com st -> meta st' = meta st -> Inv s st -> Inv s st'.
Proof.
  intros E1 E2 E3 E4 E5 E6 [I1 I2 I3 I4 I5 I6 I7]. constructor; unfold cc, entries in *; rewrite ?E1, ?E2, ?E3, ?E4, ?E5, ?E6; assumption.
Qed.
Lemma eff_frame st st' : dq st' = dq st -> chan st' = chan st -> workers st' = workers st -> unc st' = unc st ->
  com st' = com st -> eff st' = eff st.
Proof. intros E1 E2 E3 E4 E5. unfold eff, cc, entries. now rewrite E1, E2, E3, E4, E5. Qed.
Lemma inv_mono s s' st : s <= s' -> Inv s st -> Inv s' st.
Proof.
  intros Hs HI. rewrite <- (with_unc_nil st). eapply inv_with_unc; [exact HI|constructor|exact Hs].
Qed.

(* ------------------------------------------------------------------ prepare_commit *)
Lemma drain_good nw fuel : forall st sp dirty, (0 < nw)%nat -> Good nw st sp dirty -> (length (chan st) <= fuel)%nat ->
  Good nw (drain st fuel) sp dirty /\ chan (drain st fuel) = [].
Proof.
  induction fuel as [|f IH]; intros st sp dirty Hnw HG Hf; cbn [drain].
  - split; [exact HG|]. destruct (chan st); [reflexivity|cbn [length] in Hf; lia].
  - destruct (chan st) as [|b rest] eqn:E; [split; [exact HG|exact E]|].
    apply IH; [exact Hnw|apply take_good, HG|].
    destruct HG as (_ & _ & _ & HN). unfold do_take. rewrite E.
    assert (El : Nat.ltb 0 (length (workers st)) = true) by (apply Nat.ltb_lt; lia). rewrite El.
    cbn [chan]. cbn [length] in Hf. lia.
Qed.

Lemma join_spec pipe ws : forall st,
  incr (map del_op (dq st)) -> Forall (worker_ok (stamper_ st) (dq st) pipe) ws ->
  exists es, join_workers st ws = with_unc st es /\
    Forall (entry_ok (stamper_ st + N.of_nat (length es)) (dq st)) es /\
    flat_map (eff_entry (dq st)) es = flat_map (fun w => eff_docs (dq st) (w_open w)) ws.
Proof.
  induction ws as [|w ws IH]; intros st Hs Hw; cbn [join_workers].
  - exists []. rewrite with_unc_nil. repeat split. constructor.
  - inversion Hw as [|? ? Hw1 Hw2]; subst.
    destruct (finalize_spec st w pipe Hs Hw1) as (es1 & -> & He1 & Hf1).
    destruct (IH (with_unc st es1)) as (es2 & -> & He2 & Hf2).
    + exact Hs.
    + cbn [with_unc stamper_ dq]. eapply Forall_impl; [|exact Hw2]. intros a. apply worker_ok_mono; [lia|auto].
    + exists (es1 ++ es2). rewrite with_unc_app. cbn [with_unc stamper_ dq] in *. repeat split.
      * apply Forall_app. split.
        -- eapply Forall_impl; [|exact He1]. intros a. apply entry_ok_mono. lia.
        -- eapply Forall_impl; [|exact He2]. intros a. apply entry_ok_mono. rewrite app_length. lia.
      * rewrite flat_map_app, Hf1, Hf2. reflexivity.
Qed.

Lemma recreate_length q n cs : length (recreate q n cs) = n.
Proof. revert cs; induction n as [|n IH]; intros cs; cbn [recreate length]; [reflexivity|now rewrite IH]. Qed.
Lemma recreate_ok s q n cs : Forall (fun w => worker_ok s q [] w /\ w_open w = []) (recreate q n cs).
Proof.
  revert cs; induction n as [|n IH]; intros cs; cbn [recreate]; constructor; [|apply IH].
  split; [|reflexivity]. repeat split; cbn [w_cur w_open]; [unfold dq_cursor; lia|constructor|intros o x _ []|intros o x _ []].
Qed.

Record Prepared (nw : nat) (st st4 : wstate) (c : N) (sp : istate) : Prop := mkPrepared {
  pr_inv : Inv c st4;
  pr_stamper : stamper_ st4 = c + 1;
  pr_ge : stamper_ st <= c;
  pr_chan : chan st4 = [];
  pr_open : Forall (fun w => w_open w = []) (workers st4);
  pr_nw : length (workers st4) = nw;
  pr_eff : Permutation (working sp) (flat_map (eff_entry (dq st4)) (entries st4));
  pr_meta : meta st4 = meta st;
  pr_cop : committed_opstamp st4 = committed_opstamp st;
  pr_dq : dq st4 = dq st }.

Lemma drain_frame st fuel : meta (drain st fuel) = meta st /\ committed_opstamp (drain st fuel) = committed_opstamp st /\
  dq (drain st fuel) = dq st /\ stamper_ (drain st fuel) = stamper_ st.
Proof.
  revert st; induction fuel as [|f IH]; intros st; cbn [drain]; [auto|].
  destruct (chan st) eqn:E; [auto|]. destruct (IH (do_take st 0)) as (A & B & C & D). rewrite A, B, C, D.
  unfold do_take. rewrite E. destruct (Nat.ltb 0 (length (workers st))); auto.
Qed.

Lemma prepare_good nw st sp dirty cs : (0 < nw)%nat -> Good nw st sp dirty ->
  Prepared nw st (fst (prepare_commit st cs)) (snd (prepare_commit st cs)) sp.
Proof.
  intros Hnw HG. unfold prepare_commit.
  destruct (drain_good nw (length (chan st)) st sp dirty Hnw HG (le_n _)) as (HG1 & Hch1).
  destruct (drain_frame st (length (chan st))) as (F1 & F2 & F3 & F4).
  set (st1 := drain st (length (chan st))) in *.
  destruct HG1 as (HI1 & (HR1 & _) & _ & HN1). pose proof HI1 as [I1 I2 I3 I4 I5 I6 I7].
  destruct (join_spec (cc st1) (workers st1) st1 I1 I5) as (es & Ej & Hes & Heff). rewrite Ej.
  cbn [fst snd stamp set_stamper set_workers with_unc stamper_ dq chan workers unc com meta committed_opstamp].
  pose proof (recreate_ok (stamper_ st1 + N.of_nat (length es)) (dq st1) (length (workers st1)) cs) as Hrec.
  unfold cc, entries in *.
  apply mkPrepared; unfold cc, entries; cbn [fst snd stamp set_stamper set_workers with_unc stamper_ dq chan workers unc com meta committed_opstamp].
  - constructor; unfold cc, entries; cbn [set_stamper set_workers with_unc dq chan workers unc com meta]; rewrite ?Hch1; cbn [concat map]; try assumption.
    + eapply Forall_lt_mono; [|exact I2]. lia.
    + constructor.
    + constructor.
    + eapply Forall_impl; [|exact Hrec]. cbn beta. tauto.
    + apply Forall_app in I6 as [Ia Ib]. rewrite !Forall_app. repeat split; [| |]; (eapply Forall_impl; [|eassumption]); intros a; apply entry_ok_mono; lia.
  - reflexivity.
  - lia.
  - exact Hch1.
  - eapply Forall_impl; [|exact Hrec]. cbn beta. tauto.
  - now rewrite recreate_length.
  - eapply Permutation_trans; [exact HR1|]. unfold eff, cc, entries. rewrite Hch1. cbn [concat]. rewrite eff_docs_nil, app_nil_r.
    rewrite !flat_map_app, Heff. perm.
  - exact F1.
  - exact F2.
  - exact F3.
Qed.

(* ------------------------------------------------------------------ schedule_commit *)
Lemma flat_map_filter_nonempty {B} (f : entry -> list B) l :
  (forall e, nonempty_entry e = false -> f e = []) -> flat_map f (filter nonempty_entry l) = flat_map f l.
Proof.
  intros H. induction l as [|e l IH]; cbn [filter flat_map]; [reflexivity|].
  destruct (nonempty_entry e) eqn:E; cbn [flat_map]; rewrite IH; [reflexivity|]. now rewrite (H e E).
Qed.
Lemma empty_entry_alive e : nonempty_entry e = false -> alive_docs (e_rows e) = [].
Proof.
  unfold nonempty_entry, alive_docs. intros H. apply negb_false_iff, Nat.eqb_eq in H.
  destruct (filter snd (e_rows e)); [reflexivity|discriminate].
Qed.

Lemma commit_good f1 nw st st4 c sp payload :
  Prepared nw st st4 c sp -> Permutation (committed sp) (published st) ->
  Good nw (schedule_commit f1 st4 c payload) (mkI (working sp) (working sp)) (if f1 then false else true).
Proof.
  intros [P1 P2 P3 P4 P5 P6 P7 P8 P9 P10] _. pose proof P1 as [I1 I2 I3 I4 I5 I6 I7].
  set (adv := fun e => advance_deletes (dq st4) e c).
  assert (Hadv : forall e, In e (entries st4) ->
            (e_cur (adv e) <= length (dq st4))%nat /\ skipn (e_cur (adv e)) (dq st4) = [] /\
            eff_entry (dq st4) (adv e) = eff_entry (dq st4) e /\
            (forall t, e_delop (adv e) = Some t -> t <= c)).
  { intros e He. rewrite Forall_forall in I6. destruct (I6 e He) as (H1 & H2).
    destruct (advance_eff (dq st4) e c H1) as (Ha & Hb). unfold adv. repeat split; [lia| |exact Hb|].
    - apply advance_done; [exact H1|exact I2|]. intros t' Ht'. apply (H2 t' Ht').
    - intros t Ht. apply advance_delop in Ht as [->|Ht]; [lia|]. apply (H2 t Ht). }
  assert (Hcom : forall e', In e' (filter nonempty_entry (map adv (entries st4))) -> exists e, In e (entries st4) /\ e' = adv e).
  { intros e' He'. apply filter_In in He' as [He' _]. apply in_map_iff in He' as (e & <- & He). eauto. }
  unfold schedule_commit. fold (entries st4). fold adv.
  set (com' := filter nonempty_entry (map adv (entries st4))) in *.
  split; [|split; [|split]].
  - cbn [stamper_ stamp snd]. rewrite P2.
    constructor; unfold cc, entries; cbn [dq chan workers unc com meta app]; rewrite ?P4; cbn [concat map]; try assumption.
    + eapply Forall_lt_mono; [|exact I2]. lia.
    + constructor.
    + constructor.
    + unfold cc in I5. rewrite P4 in I5. eapply Forall_impl; [|exact I5]. intros a. apply worker_ok_mono; [lia|auto].
    + apply Forall_forall. intros e' He'. destruct (Hcom e' He') as (e & He & ->). destruct (Hadv e He) as (A & B & _ & D).
      split; [exact A|]. intros t Ht. split; [specialize (D t Ht); lia|]. rewrite B. constructor.
    + intros rows t Hin. cbn [m_segs m_opstamp] in *. apply in_map_iff in Hin as (e' & [= <- Ht] & He').
      destruct (Hcom e' He') as (e & He & ->). destruct (Hadv e He) as (_ & _ & _ & D). now apply D.
  - assert (Ealive : flat_map (eff_entry (dq st4)) com' = flat_map (fun e => alive_docs (e_rows e)) com').
    { apply flat_map_ext_in. intros e' He'. destruct (Hcom e' He') as (e & He & ->). destruct (Hadv e He) as (_ & B & _ & _).
      unfold eff_entry. rewrite B. now apply filter_true. }
    assert (Eall : Permutation (working sp) (flat_map (fun e => alive_docs (e_rows e)) com')).
    { eapply Permutation_trans; [exact P7|]. unfold com'. rewrite flat_map_filter_nonempty by apply empty_entry_alive.
      rewrite flat_map_map.
      rewrite (flat_map_ext_in (fun x => alive_docs (e_rows (adv x))) (eff_entry (dq st4)) (entries st4)); [apply Permutation_refl|].
      intros e He. destruct (Hadv e He) as (_ & B & C & _).
      rewrite <- C. unfold eff_entry. rewrite B. symmetry. now apply filter_true. }
    split; cbn [working committed].
    + unfold eff, cc, entries. cbn [dq chan workers unc com app]. rewrite P4. cbn [concat]. rewrite eff_docs_nil, app_nil_r, Ealive.
      rewrite (flat_map_nil _ (workers st4)).
      * now rewrite app_nil_r.
      * intros w Hw. rewrite Forall_forall in P5. now rewrite (P5 w Hw).
    + unfold published. cbn [meta m_segs]. rewrite flat_map_map. exact Eall.
  - destruct f1; [|discriminate]. intros _. unfold Clean. cbn [chan workers dq committed_opstamp stamper_ meta m_segs stamp snd].
    repeat split; [exact P4|exact P5|exact I2|lia|].
    intros rows t Hin. apply in_map_iff in Hin as (e' & [= <- Ht] & He').
    destruct (Hcom e' He') as (e & He & ->). destruct (Hadv e He) as (_ & _ & _ & D). now apply D.
  - exact P6.
Qed.

(* ------------------------------------------------------------------ IndexWriter::new *)
Lemma fresh_workers_spec nw : length (fresh_workers nw) = nw /\ Forall (fun w => w = mkWorker 0 []) (fresh_workers nw).
Proof. unfold fresh_workers. split; [apply repeat_length|]. apply Forall_forall. intros w Hw. now apply repeat_spec in Hw. Qed.

Lemma new_writer_good nw m cm : meta_ok m -> Permutation cm (flat_map (fun s => alive_docs (fst s)) (m_segs m)) ->
  Good nw (new_writer nw m) (mkI cm cm) false.
Proof.
  intros Hm HP. destruct (fresh_workers_spec nw) as (Hl & Hf).
  split; [|split; [|split]].
  - constructor; unfold cc, entries; cbn [new_writer dq chan workers unc com meta concat map app]; try constructor; try assumption.
    + eapply Forall_impl; [|exact Hf]. intros w ->. repeat split; cbn [w_cur w_open length]; [lia|constructor|intros o x []|intros o x []].
    + apply Forall_forall. intros e He. apply in_map_iff in He as ([rows dl] & <- & Hs). unfold entry_of_meta. cbn [fst snd].
      split; cbn [e_cur e_delop length]; [lia|]. intros t ->. split; [apply (Hm rows t Hs)|constructor].
  - assert (E : eff (new_writer nw m) = flat_map (fun s => alive_docs (fst s)) (m_segs m)).
    { unfold eff, cc, entries. cbn [new_writer dq chan workers unc com concat app]. rewrite eff_docs_nil, app_nil_r.
      rewrite (flat_map_nil _ (fresh_workers nw)).
      - rewrite app_nil_r, flat_map_map. apply flat_map_ext_in. intros s _.
        unfold eff_entry, entry_of_meta. cbn [e_cur e_rows skipn]. now apply filter_true.
      - intros w Hw. rewrite Forall_forall in Hf. now rewrite (Hf w Hw). }
    split; cbn [working committed]; [now rewrite E|exact HP].
  - intros _. unfold Clean. cbn [new_writer chan workers dq committed_opstamp stamper_ meta].
    repeat split; [|constructor|lia|exact Hm]. eapply Forall_impl; [|exact Hf]. now intros w ->.
  - exact Hl.
Qed.

(* ------------------------------------------------------------------ delete_all_documents *)
Lemma delete_all_good nw st sp : Good nw st sp false -> Good nw (fst (delete_all st)) (mkI (committed sp) []) false.
Proof.
  intros (HI & (HR1 & HR2) & HC & HN). destruct (HC eq_refl) as (C1 & C2 & C3 & C4 & C5).
  destruct HI as [I1 I2 I3 I4 I5 I6 I7]. unfold delete_all. cbn [fst revert snd].
  split; [|split; [|split]].
  - constructor; unfold cc, entries; cbn [stamper_ dq chan workers unc com meta app]; rewrite ?C1; cbn [concat map]; try constructor; try assumption.
    apply Forall_forall. intros w Hw. rewrite Forall_forall in I5, C2. destruct (I5 w Hw) as (H1 & _). pose proof (C2 w Hw) as Eo.
    repeat split; [exact H1|rewrite Eo; constructor|rewrite Eo; intros o x _ []|rewrite Eo; intros o x _ []].
  - split; cbn [working committed]; [|exact HR2].
    unfold eff, cc, entries. cbn [dq chan workers unc com app flat_map]. rewrite C1. cbn [concat]. rewrite eff_docs_nil, app_nil_r.
    rewrite flat_map_nil; [constructor|]. intros w Hw. rewrite Forall_forall in C2. now rewrite (C2 w Hw).
  - intros _. unfold Clean. cbn [chan workers dq committed_opstamp stamper_ meta]. repeat split; try assumption. lia.
  - exact HN.
Qed.

(* ------------------------------------------------------------------ one call *)
Lemma published_frame st st' : meta st' = meta st -> published st' = published st.
Proof. unfold published. now intros ->. Qed.

Lemma wop_good f1 nw st sp dirty u cs : (0 < nw)%nat -> Good nw st sp dirty -> (u = DeleteAll -> dirty = false) ->
  Good nw (fst (wop f1 st u cs)) (rstep sp u) (dirty_after f1 dirty u).
Proof.
  intros Hnw HG Hda. pose proof HG as (HI & (HR1 & HR2) & HC & HN).
  destruct u as [d|q0|ops| |payload| | | ]; cbn [wop rstep dirty_after stamp].
  - (* add_document *)
    set (s := stamper_ st) in *. cbn [fst push_add set_stamper stamper_ dq chan workers unc com meta committed_opstamp].
    destruct (inv_add s st (chan st ++ [[(d, s)]]) d HI) as (HI' & HP').
    { unfold cc. rewrite concat_app. cbn [concat]. now rewrite app_nil_r. }
    split; [|split; [|split]]; [| |discriminate|exact HN].
    + cbn [stamper_]. eapply inv_frame; [..|exact HI']; reflexivity.
    + split; cbn [working committed]; [|exact HR2].
      eapply Permutation_trans; [apply Permutation_app_tail, HR1|]. apply Permutation_sym.
      erewrite eff_frame; [exact HP'|..]; reflexivity.
  - (* delete_term / delete_query *)
    set (s := stamper_ st) in *. cbn [fst].
    destruct (inv_del s st q0 HI) as (HI' & HP').
    split; [|split; [|split]]; [| |discriminate|exact HN].
    + cbn [push_del set_stamper stamper_]. eapply inv_frame; [..|exact HI']; reflexivity.
    + split; cbn [working committed]; [|exact HR2].
      erewrite eff_frame; [rewrite HP'; apply Permutation_filter, HR1|..]; reflexivity.
  - (* run *)
    destruct ops as [|o ops'].
    + cbn [fst set_stamper]. split; [|split; [|split]]; [| |discriminate|exact HN].
      * cbn [set_stamper stamper_]. eapply inv_frame; [..|apply (inv_mono (stamper_ st)); [lia|exact HI]]; reflexivity.
      * split; cbn [working committed fold_left]; [|exact HR2]. erewrite eff_frame; [exact HR1|..]; reflexivity.
    + set (ops := o :: ops') in *. cbn [stamps]. set (s := stamper_ st) in *.
      set (st0 := set_stamper st (s + (N.of_nat (length ops) + 1))).
      assert (HI0 : Inv s (vst st0 [])).
      { destruct (chan_irrelevant s st0 (chan st0 ++ [[]])) as (A & _).
        - unfold cc. rewrite concat_app. cbn [concat]. now rewrite !app_nil_r.
        - apply A. eapply inv_frame; [..|exact HI]; reflexivity. }
      assert (HP0 : Permutation (working sp) (eff (vst st0 []))).
      { destruct (chan_irrelevant s st0 (chan st0 ++ [[]])) as (_ & B).
        - unfold cc. rewrite concat_app. cbn [concat]. now rewrite !app_nil_r.
        - unfold vst. rewrite B. erewrite eff_frame; [exact HR1|..]; reflexivity. }
      destruct (run_ops_good ops st0 s [] (working sp) HI0 HP0) as (A & B & C1 & C2 & C3 & C4 & C5 & C6 & C7).
      destruct (run_ops st0 ops s []) as [st1 adds] eqn:Er. cbn [fst snd] in *.
      assert (Hfinal : Inv (s + N.of_nat (length ops)) (push_add st1 adds) /\ eff (push_add st1 adds) = eff (vst st1 adds)).
      { destruct adds as [|a adds']; [|split; [exact A|reflexivity]].
        cbn [push_add]. destruct (chan_irrelevant (s + N.of_nat (length ops)) (vst st1 []) (chan st1)) as (X & Y).
        - rewrite cc_vst. now rewrite app_nil_r.
        - split.
          + eapply inv_frame; [..|apply X, A]; reflexivity.
          + rewrite <- Y. apply eff_frame; reflexivity. }
      destruct Hfinal as (HIf & HEf).
      split; [|split; [|split]]; [| |discriminate|].
      * eapply inv_mono; [|exact HIf]. destruct adds; cbn [push_add stamper_]; rewrite ?C1; unfold st0; cbn [set_stamper stamper_]; lia.
      * split; cbn [working committed]; [rewrite HEf; exact B|].
        rewrite (published_frame st). { exact HR2. } destruct adds; cbn [push_add meta]; rewrite C7; reflexivity.
      * destruct adds; cbn [push_add workers]; rewrite C4; exact HN.
  - (* delete_all_documents *)
    rewrite (Hda eq_refl) in *. apply delete_all_good. exact HG.
  - (* commit *)
    pose proof (prepare_good nw st sp dirty cs Hnw HG) as HP.
    destruct (prepare_commit st cs) as [st4 c]. cbn [fst snd] in *.
    apply (commit_good f1 nw st st4 c sp payload HP HR2).
  - (* rollback *)
    cbn [fst]. unfold nworkers. rewrite HN. apply new_writer_good; [apply HI|exact HR2].
  - (* prepare_commit + abort *)
    pose proof (prepare_good nw st sp dirty cs Hnw HG) as HP.
    destruct (prepare_commit st cs) as [st4 c]. cbn [fst snd] in *. destruct HP as [pr_inv0 pr_stamper0 pr_ge0 pr_chan0 pr_open0 pr_nw0 pr_eff0 pr_meta0 pr_cop0 pr_dq0].
    unfold nworkers. rewrite pr_nw0, pr_meta0. apply new_writer_good; [apply HI|exact HR2].
  - (* drop + re-open *)
    cbn [fst]. unfold nworkers. rewrite HN. apply new_writer_good; [apply HI|exact HR2].
Qed.

Lemma wstep_good f1 nw st sp dirty u s : (0 < nw)%nat -> Good nw st sp dirty -> (u = DeleteAll -> dirty = false) ->
  Good nw (fst (wstep f1 st u s)) (rstep sp u) (dirty_after f1 dirty u).
Proof. intros Hnw HG Hd. unfold wstep. apply wop_good; [exact Hnw|apply events_good, HG|exact Hd]. Qed.

Lemma run_from_good f1 nw h : forall st sp dirty sc, (0 < nw)%nat -> Good nw st sp dirty -> f2_scan f1 dirty h = false ->
  exists dirty', Good nw (fst (run_from f1 st h sc)) (replay_from sp h) dirty'.
Proof.
  induction h as [|u h IH]; intros st sp dirty sc Hnw HG Hf; cbn [run_from replay_from fold_left].
  - exists dirty. exact HG.
  - cbn [f2_scan] in Hf. apply orb_false_iff in Hf as [Hf1 Hf2].
    pose proof (wstep_good f1 nw st sp dirty u (hd no_sstep sc) Hnw HG) as Hstep.
    destruct (wstep f1 st u (hd no_sstep sc)) as [st' o] eqn:Es. cbn [fst] in Hstep.
    destruct (IH st' (rstep sp u) (dirty_after f1 dirty u) (tl sc) Hnw) as (dirty' & HG').
    + apply Hstep. intros ->. exact Hf1.
    + exact Hf2.
    + exists dirty'. destruct (run_from f1 st' h (tl sc)) as [st'' os]. exact HG'.
Qed.

Lemma init_good nw : Good nw (new_writer nw init_meta) (mkI [] []) false.
Proof. apply new_writer_good; [intros rows t []|constructor]. Qed.

(* C02: a commit publishes exactly the sequential effect of the history *)
Theorem commit_is_replay f1 nw h sc : (0 < nw)%nat -> F2_class f1 h = false ->
  Permutation (published (fst (run f1 nw h sc))) (committed (replay h)).
Proof.
  intros Hnw Hf. destruct (run_from_good f1 nw h _ _ false sc Hnw (init_good nw) Hf) as (dirty' & _ & (_ & HR) & _).
  apply Permutation_sym. exact HR.
Qed.

(* ------------------------------------------------------------------ corollaries *)
Theorem schedule_independent f1 nw nw' h sc sc' : (0 < nw)%nat -> (0 < nw')%nat -> F2_class f1 h = false ->
  Permutation (published (fst (run f1 nw h sc))) (published (fst (run f1 nw' h sc'))).
Proof.
  intros H1 H2 Hf. eapply Permutation_trans; [apply commit_is_replay; assumption|].
  apply Permutation_sym. apply commit_is_replay; assumption.
Qed.

(* every document is published at most as often as it was added: exactly once when ids are unique *)
Notation cnt l d := (count_occ doc_eq_dec l d).
Lemma cnt_filter_le (p : doc -> bool) l d : (cnt (filter p l) d <= cnt l d)%nat.
Proof.
  induction l as [|x l IH]; cbn [filter count_occ]; [lia|].
  destruct (p x); cbn [count_occ]; destruct (doc_eq_dec x d); lia.
Qed.
Lemma apply_bop_cnt ops : forall w a d, (cnt w d <= cnt a d)%nat ->
  (cnt (fold_left apply_bop ops w) d <= cnt (a ++ flat_map bop_adds ops) d)%nat.
Proof.
  induction ops as [|[x|q] ops IH]; intros w a d H; cbn [fold_left flat_map bop_adds apply_bop app].
  - now rewrite app_nil_r.
  - replace (a ++ x :: flat_map bop_adds ops) with ((a ++ [x]) ++ flat_map bop_adds ops) by (now rewrite <- app_assoc).
    apply IH. rewrite !count_occ_app. lia.
  - apply IH. pose proof (cnt_filter_le (survives q) w d). lia.
Qed.
Lemma replay_cnt h : forall s a d, (cnt (working s) d <= cnt a d)%nat -> (cnt (committed s) d <= cnt a d)%nat ->
  (cnt (committed (replay_from s h)) d <= cnt (a ++ adds h) d)%nat.
Proof.
  unfold replay_from, adds. induction h as [|u h IH]; intros s a d Hw Hc; cbn [fold_left flat_map].
  - now rewrite app_nil_r.
  - rewrite app_assoc. apply IH; destruct u; cbn [rstep working committed uop_adds]; rewrite ?app_nil_r, ?count_occ_app; cbn [count_occ]; try lia.
    + pose proof (cnt_filter_le (survives q) (working s) d). lia.
    + rewrite <- count_occ_app. now apply apply_bop_cnt.
Qed.
Theorem committed_nodup h : NoDup (adds h) -> NoDup (committed (replay h)).
Proof.
  intros H. apply (NoDup_count_occ doc_eq_dec). intros d.
  pose proof (replay_cnt h (mkI [] []) [] d (le_n _) (le_n _)) as Hc. cbn [app] in Hc.
  apply (NoDup_count_occ doc_eq_dec) with (x := d) in H. unfold replay. lia.
Qed.
Theorem published_nodup f1 nw h sc : (0 < nw)%nat -> F2_class f1 h = false -> NoDup (adds h) ->
  NoDup (published (fst (run f1 nw h sc))).
Proof.
  intros Hnw Hf Hd. eapply Permutation_NoDup; [apply Permutation_sym, commit_is_replay; eassumption|].
  now apply committed_nodup.
Qed.

(* a delete only removes documents added before it: documents added after it are published whatever they contain *)
Theorem delete_only_earlier f1 nw h1 q ds payload sc : (0 < nw)%nat ->
  F2_class f1 (h1 ++ Del q :: map Add ds ++ [Commit payload]) = false ->
  forall d, In d ds -> In d (published (fst (run f1 nw (h1 ++ Del q :: map Add ds ++ [Commit payload]) sc))).
Proof.
  intros Hnw Hf d Hd. eapply Permutation_in; [apply Permutation_sym, commit_is_replay; eassumption|].
  rewrite replay_app. unfold replay_from. cbn [fold_left]. rewrite fold_left_app. cbn [fold_left rstep committed].
  set (s0 := rstep (replay h1) (Del q)).
  assert (E : forall l s, working (fold_left rstep (map Add l) s) = working s ++ l).
  { induction l as [|x l IH]; intros s; cbn [map fold_left]; [now rewrite app_nil_r|]. rewrite IH. cbn [rstep working]. now rewrite <- app_assoc. }
  rewrite E. apply in_or_app. now right.
Qed.

(* rollback (abort, dropping the writer) restores the last committed state: committing right after it
   publishes exactly what was published before *)
Definition is_restore (u : uop) : Prop := u = Rollback \/ u = Abort \/ u = Reopen.
Lemma f2_scan_prefix f1 h1 : forall dirty h2, f2_scan f1 dirty (h1 ++ h2) = false -> f2_scan f1 dirty h1 = false.
Proof.
  induction h1 as [|u h1 IH]; intros dirty h2 H; cbn [app f2_scan] in *; [reflexivity|].
  apply orb_false_iff in H as [H1 H2]. rewrite H1. cbn [orb]. eapply IH, H2.
Qed.
Lemma F2_class_prefix f1 h1 h2 : F2_class f1 (h1 ++ h2) = false -> F2_class f1 h1 = false.
Proof. apply f2_scan_prefix. Qed.
Theorem rollback_restores f1 nw h u payload sc sc' : (0 < nw)%nat -> is_restore u ->
  F2_class f1 (h ++ [u; Commit payload]) = false ->
  Permutation (published (fst (run f1 nw (h ++ [u; Commit payload]) sc))) (published (fst (run f1 nw h sc'))).
Proof.
  intros Hnw Hu Hf. pose proof (F2_class_prefix _ _ _ Hf) as Hf'.
  eapply Permutation_trans; [apply commit_is_replay; eassumption|].
  eapply Permutation_trans; [|apply Permutation_sym, commit_is_replay; eassumption].
  rewrite replay_app. unfold replay_from. cbn [fold_left]. destruct Hu as [->|[->| ->]]; apply Permutation_refl.
Qed.

(* the registers after rollback / abort / re-open are those loaded from meta.json *)
Lemma restore_is_new_writer f1 st u s : is_restore u ->
  exists st1, fst (wstep f1 st u s) = new_writer (nworkers st1) (meta st1) /\ snd (wstep f1 st u s) = m_opstamp (meta st1).
Proof.
  intros [->|[->| ->]]; unfold wstep; cbn [wop].
  - eexists. split; reflexivity.
  - destruct (prepare_commit _ _) as [st1 c]. exists st1. split; reflexivity.
  - eexists. split; reflexivity.
Qed.
