(* Indexing/WriterObs.v -- boolean observers used by the C02 case files: the specification predicates of
   Properties/C02.v evaluated on what the implementation returned, and the model trace that is
   compared with the implementation in deterministic configurations. *)
From TV Require Import Base.Prelude Indexing.Replay Indexing.Opstamp Indexing.DeleteQueue Indexing.Writer.
From TV Require Import Generated.Constants.
Local Open Scope N_scope.

(* whether IndexWriter stores the commit opstamp in committed_opstamp (pinned from the source; F1) *)
Definition F1_FIXED : bool := N.eqb WRITER_COMMIT_STORES_OPSTAMP 1.

(* Writer.v models `if delete_op.opstamp >= target_opstamp { break; }`: the source must say so *)
Lemma delete_break_pinned : WRITER_DELETE_BREAK_AT_TARGET = 1.
Proof. reflexivity. Qed.

(* ... and `if self.is_alive() {` guards the body of SegmentUpdater::save_metas (EStaleSave is the identity) *)
Lemma save_metas_guard_pinned : WRITER_SAVE_METAS_GUARDED = 1.
Proof. reflexivity. Qed.

Section Perm.
  Context {A : Type} (eqb : A -> A -> bool).
  Definition count_eqb (x : A) (l : list A) : nat := length (filter (eqb x) l).
  Definition perm_eqb (a b : list A) : bool :=
    Nat.eqb (length a) (length b) && forallb (fun x => Nat.eqb (count_eqb x a) (count_eqb x b)) a.
End Perm.

(* committed state of the sequential specification after every call *)
Fixpoint rtrace (s : istate) (h : list uop) : list (list doc) :=
  match h with [] => [] | u :: r => let s' := rstep s u in committed s' :: rtrace s' r end.

(* spec: `obs` = (index of a Commit call, content of the searcher loaded right after it) *)
Definition spec_commits (h : list uop) (obs : list (nat * list doc)) : bool :=
  forallb (fun o => match nth_error (rtrace (mkI [] []) h) (fst o) with
                    | Some c => perm_eqb doc_eqb (snd o) c
                    | None => false end) obs.

(* spec: opstamps.  `obs` = per call (returned opstamp, meta.opstamp after the call).
   cs / ws: stamps of the operations included in the last commit / in the working state. *)
Fixpoint ops_scan (cs ws : list N) (last_commit : N) (h : list uop) (obs : list (N * N)) : bool :=
  match h, obs with
  | [], [] => true
  | u :: h', (ret, mop) :: obs' =>
      match u with
      | Add _ | Del _ | Batch _ => ops_scan cs (ret :: ws) last_commit h' obs'
      | DeleteAll => ops_scan cs ws last_commit h' obs'
      | Commit _ => forallb (fun s => s <? ret) ws && N.eqb mop ret && ops_scan ws ws ret h' obs'
      | Rollback | Abort => N.eqb ret last_commit && N.eqb mop last_commit && ops_scan cs cs last_commit h' obs'
      | Reopen => N.eqb mop last_commit && ops_scan cs cs last_commit h' obs'
      end
  | _, _ => false
  end.
Definition spec_opstamps (h : list uop) (obs : list (N * N)) : bool := ops_scan [] [] 0 h obs.

(* spec (F1): commit_opstamp() right after every Commit equals what the commit returned.
   `obs` = per call (returned opstamp, commit_opstamp() after the call) *)
Fixpoint spec_accessor (h : list uop) (obs : list (N * N)) : bool :=
  match h, obs with
  | [], [] => true
  | u :: h', (ret, acc) :: obs' =>
      (match u with Commit _ => N.eqb acc ret | _ => true end) && spec_accessor h' obs'
  | _, _ => false
  end.
Definition has_commit (h : list uop) : bool := existsb (fun u => match u with Commit _ => true | _ => false end) h.

(* tie: the model's trace -- per call: returned opstamp, meta.opstamp, commit_opstamp(), and the
   ids of the published segments *)
Definition obs_t := (N * N * N * list (list N))%type.
Definition observe (st : wstate) (ret : N) : obs_t :=
  (ret, m_opstamp (meta st), committed_opstamp st, map (map d_id) (published_segments st)).
Fixpoint run_trace (f1 : bool) (st : wstate) (h : list uop) (sc : sched) : list obs_t :=
  match h with
  | [] => []
  | u :: h' => let '(st', o) := wstep f1 st u (hd no_sstep sc) in observe st' o :: run_trace f1 st' h' (tl sc)
  end.
Definition obs_eqb (check_segs : bool) (a b : obs_t) : bool :=
  let '(r1, m1, c1, s1) := a in let '(r2, m2, c2, s2) := b in
  N.eqb r1 r2 && N.eqb m1 m2 && N.eqb c1 c2 && (negb check_segs || perm_eqb (list_eqb N.eqb) s1 s2).
(* the implementation loads a searcher only after Commit calls: segments are compared there *)
Fixpoint trace_eqb (h : list uop) (a b : list obs_t) : bool :=
  match h, a, b with
  | [], [], [] => true
  | u :: h', x :: a', y :: b' =>
      obs_eqb (match u with Commit _ => true | _ => false end) x y && trace_eqb h' a' b'
  | _, _, _ => false
  end.
Definition tie_trace (nw : nat) (h : list uop) (impl : list obs_t) : bool :=
  trace_eqb h (run_trace F1_FIXED (new_writer nw init_meta) h []) impl.
(* published content of the model (any schedule) against the implementation's, per commit *)
Definition model_commits (nw : nat) (h : list uop) (sc : sched) (obs : list (nat * list doc)) : bool :=
  forallb (fun o => perm_eqb doc_eqb (snd o) (published (fst (run F1_FIXED nw (firstn (S (fst o)) h) sc)))) obs.

(* class of finding F021: the first stamped operation after a rollback / abort / re-open is a delete --
   Stamper::new(meta.opstamp) hands it the opstamp of the last commit, and a merge of committed segments
   (target_opstamp = meta.opstamp, deletes with opstamp <= target are applied) makes it permanent. *)
Fixpoint f021_scan (fresh : bool) (h : list uop) : bool :=
  match h with
  | [] => false
  | u :: h' =>
      match u with
      | Del _ => fresh || f021_scan false h'
      | Batch (BDel _ :: _) => fresh || f021_scan false h'
      | Batch _ | Add _ | Commit _ => f021_scan false h'
      | DeleteAll => f021_scan fresh h'
      | Rollback | Abort | Reopen => f021_scan true h'
      end
  end.
Definition F021_class (h : list uop) : bool := f021_scan false h.

(* ------------------------------------------------------------------ runs cut by the memory budget (1 worker)
   When the memory budget closes segments, the stamps drawn by consider_merge_options interleave with the
   producer's, so the returned opstamps depend on the timing.  The implementation's run is then compared with
   the model under a schedule INFERRED from the observation: `cuts` = sizes (documents) of the segments created by
   each committed transaction, in order; before every call the worker takes batches and cuts the next
   segment for as long as the model's next stamp is behind the opstamp the implementation returned.
   (The theorems hold for every schedule; this shows that the observed run is the model's run under one.) *)
Fixpoint take_until (fuel n : nat) (st : wstate) (acc : list event) : wstate * list event :=
  match fuel with
  | O => (st, acc)
  | S f =>
      match nth_error (workers st) 0, chan st with
      | Some w, _ :: _ => if Nat.ltb (length (w_open w)) n then take_until f n (do_take st 0) (acc ++ [ETake 0%nat]) else (st, acc)
      | _, _ => (st, acc)
      end
  end.
Definition cut_with (n : nat) (st : wstate) : wstate * list event :=
  let '(st1, ev) := take_until n n st [] in (do_cut st1 0, ev ++ [ECut 0%nat]).
Fixpoint cuts_until (cuts : list nat) (stop : wstate -> bool) (st : wstate) (acc : list event) : wstate * list event * list nat :=
  match cuts with
  | [] => (st, acc, [])
  | n :: r => if stop st then (st, acc, cuts) else let '(st1, ev) := cut_with n st in cuts_until r stop st1 (acc ++ ev)
  end.
Fixpoint infer_sched (f1 : bool) (st : wstate) (h : list uop) (rets : list N) (cur : list nat) (rest : list (list nat)) : sched :=
  match h, rets with
  | u :: h', r :: rets' =>
      let stop : wstate -> bool :=
        match u with
        | Add _ | Del _ => fun s => N.leb r (stamper_ s)
        | Batch ops => fun s => N.leb (r - N.of_nat (length ops)) (stamper_ s)
        | Commit _ => fun s => N.leb r (snd (prepare_commit s []))
        | _ => fun _ => true
        end in
      let '(st1, ev, cur') := cuts_until cur stop st [] in
      let st2 := fst (wop f1 st1 u []) in
      match u with
      | Commit _ => mkS ev [] :: infer_sched f1 st2 h' rets' (hd [] rest) (tl rest)
      | _ => mkS ev [] :: infer_sched f1 st2 h' rets' cur' rest
      end
  | _, _ => []
  end.
Definition ret_of (o : obs_t) : N := let '(r, _, _, _) := o in r.
Definition tie_trace_cuts (h : list uop) (impl : list obs_t) (cuts : list (list nat)) : bool :=
  let st0 := new_writer 1 init_meta in
  trace_eqb h (run_trace F1_FIXED st0 h (infer_sched F1_FIXED st0 h (map ret_of impl) (hd [] cuts) (tl cuts))) impl.
