(* Indexing/DeleteQueue.v -- /repo/src/indexer/delete_queue.rs and operation.rs (DeleteOperation).

   The queue is an append-only log; blocks and their lazy flushing are an implementation detail of
   the linked list: a cursor is a position in the log.  `DeleteQueue::cursor()` returns the end of
   the last *flushed* block, i.e. some position <= the current length ("some or none of the past
   operations"); which one depends on when other cursors last read the queue, so it is an oracle
   value clamped to the length. *)
From TV Require Import Base.Prelude Indexing.Replay.
Local Open Scope N_scope.

Record delop := mkDel { del_op : N; del_q : dquery }.      (* DeleteOperation { opstamp, target } *)
Definition dqueue := list delop.

Definition dq_push (q : dqueue) (o : delop) : dqueue := q ++ [o].           (* DeleteQueue::push *)
Definition dq_cursor (q : dqueue) (flushed : nat) : nat := Nat.min flushed (length q).   (* cursor() *)
Definition dq_get (q : dqueue) (c : nat) : option delop := nth_error q c.   (* DeleteCursor::get *)

(* DeleteCursor::skip_to: advance while the current operation has opstamp < target *)
Fixpoint skip_while (l : list delop) (target : N) : nat :=
  match l with
  | [] => O
  | o :: r => if del_op o <? target then S (skip_while r target) else O
  end.
Definition skip_to (q : dqueue) (c : nat) (target : N) : nat := (c + skip_while (skipn c q) target)%nat.

Lemma skip_while_le l t : (skip_while l t <= length l)%nat.
Proof. induction l as [|o r IH]; cbn [skip_while length]; [lia|]. destruct (del_op o <? t); lia. Qed.
Lemma skip_to_bounds q c t : (c <= length q)%nat -> (c <= skip_to q c t <= length q)%nat.
Proof.
  intros Hc. unfold skip_to. pose proof (skip_while_le (skipn c q) t) as H. rewrite skipn_length in H. lia.
Qed.
Lemma skip_while_skipped l t : Forall (fun o => del_op o < t) (firstn (skip_while l t) l).
Proof.
  induction l as [|o r IH]; cbn [skip_while]; [constructor|].
  destruct (del_op o <? t) eqn:E; cbn [firstn]; constructor; [lia|exact IH].
Qed.
Lemma skip_while_stop l t : match nth_error l (skip_while l t) with Some o => t <= del_op o | None => True end.
Proof.
  induction l as [|o r IH]; cbn [skip_while]; [exact I|].
  destruct (del_op o <? t) eqn:E; cbn [nth_error]; [exact IH|lia].
Qed.
