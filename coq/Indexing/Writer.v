(* Indexing/Writer.v -- the index writer mechanism (C02).

   Transliterates, from /repo/src/indexer:
     index_writer.rs     IndexWriter::{new, add_document, delete_term/delete_query, run, get_batch_opstamps,
                         prepare_commit, commit, rollback, delete_all_documents, commit_opstamp},
                         the worker loop of add_indexing_worker, index_documents, apply_deletes,
                         compute_deleted_bitset, advance_deletes; Drop (= rebuild without the old state);
     doc_opstamp_mapping.rs  DocToOpstampMapping::is_deleted;
     segment_updater.rs  schedule_add_segment, purge_deletes, schedule_commit, save_metas,
                         consider_merge_options (only its `stamper.stamp()`), merge, start_merge, end_merge;
     segment_manager.rs  add_segment, commit, remove_all_segments, remove_empty_segments, start_merge, end_merge;
     segment_entry.rs, prepared_commit.rs, stamper.rs (Opstamp.v), delete_queue.rs (DeleteQueue.v).

   Threads are replaced by an explicit schedule oracle (`sstep`, `event`): between two calls of the
   (single) producer any number of internal events happen, in any order: a worker takes the next batch
   from the channel, a worker closes its segment (memory budget), a merge starts or ends.  Theorems
   quantify over all schedules.  Segment-updater tasks are atomic (they run on one thread and every
   caller waits for them).

   A segment entry keeps one effective alive bit per document: the in-memory `alive_bitset` of the
   entry intersected with the delete file named by its meta.  (advance_deletes recomputes exactly this
   intersection and rewrites the delete file whenever it differs from the file, so the two coincide
   whenever a meta is saved.)  Registers are lists (HashMaps in the code; no order is observed). *)
From TV Require Import Base.Prelude Indexing.Replay Indexing.Opstamp Indexing.DeleteQueue.
Local Open Scope N_scope.

(* ------------------------------------------------------------------ deletes on one segment *)
(* a document of a segment: the document, its opstamp if the mapping is WithMap, its alive bit *)
Definition xrow := (doc * option N * bool)%type.
Definition xr_doc (r : xrow) : doc := fst (fst r).
Definition xr_op (r : xrow) : option N := snd (fst r).
Definition xr_alive (r : xrow) : bool := snd r.

(* DocToOpstampMapping::is_deleted *)
Definition is_deleted (m : option N) (delete_opstamp : N) : bool :=
  match m with Some doc_opstamp => doc_opstamp <? delete_opstamp | None => true end.
Definition hits (o : delop) (r : xrow) : bool := matches (del_q o) (xr_doc r) && is_deleted (xr_op r) (del_op o).
Definition kill (o : delop) (r : xrow) : xrow := if hits o r then (fst r, false) else r.

(* compute_deleted_bitset over the operations from the cursor on: (rows, operations consumed, might_have_changed) *)
Fixpoint compute_deleted (l : list delop) (target : N) (rows : list xrow) : list xrow * nat * bool :=
  match l with
  | [] => (rows, O, false)
  | o :: l' =>
      if target <=? del_op o then (rows, O, false)        (* `if delete_op.opstamp >= target_opstamp { break; }` *)
      else let '(rows', n, ch) := compute_deleted l' target (map (kill o) rows) in
           (rows', S n, existsb (hits o) rows || ch)
  end.

Definition row := (doc * bool)%type.
Record entry := mkEntry {                 (* SegmentEntry *)
  e_rows : list row;                      (* documents in doc-id order with their alive bit *)
  e_cur : nat;                            (* delete_cursor *)
  e_delop : option N }.                   (* meta.delete_opstamp() *)
Definition alive_docs (rows : list row) : list doc := map fst (filter snd rows).
Definition num_deleted (rows : list row) : nat := length (filter (fun r => negb (snd r)) rows).

Definition list_max (l : list N) : N := fold_right N.max 0 l.

(* apply_deletes: the new segment of a worker, `docs` with their opstamps, cursor `cur` *)
Definition apply_deletes (q : dqueue) (cur : nat) (docs : list (doc * N)) : list row * nat :=
  let full := map (fun x => (fst x, true)) docs in
  match dq_get q cur with
  | None => (full, cur)
  | Some _ =>
      let max_doc_opstamp := list_max (map snd docs) in
      let '(rows', n, may_have_deletes) :=
        compute_deleted (skipn cur q) max_doc_opstamp (map (fun x => (fst x, Some (snd x), true)) docs) in
      ((if may_have_deletes then map (fun r => (xr_doc r, xr_alive r)) rows' else full), (cur + n)%nat)
  end.

(* advance_deletes *)
Definition opt_eqb (a : option N) (b : N) : bool := match a with Some x => N.eqb x b | None => false end.
Definition advance_deletes (q : dqueue) (e : entry) (target : N) : entry :=
  if opt_eqb (e_delop e) target then e
  else if forallb snd (e_rows e) && match dq_get q (e_cur e) with None => true | Some _ => false end then e
  else
    let '(rows', n, _) := compute_deleted (skipn (e_cur e) q) target (map (fun r => (fst r, None, snd r)) (e_rows e)) in
    let rows2 := map (fun r => (xr_doc r, xr_alive r)) rows' in
    mkEntry rows2 (e_cur e + n)%nat
            (if Nat.ltb (num_deleted (e_rows e)) (num_deleted rows2) then Some target else e_delop e).

(* ------------------------------------------------------------------ state *)
Record worker := mkWorker { w_cur : nat; w_open : list (doc * N) }.
Record imeta := mkMeta { m_segs : list (list row * option N); m_opstamp : N; m_payload : option N }.

Record wstate := mkW {
  stamper_ : N;                       (* Stamper *)
  committed_opstamp : N;              (* IndexWriter::committed_opstamp *)
  dq : dqueue;                        (* DeleteQueue *)
  chan : list (list (doc * N));       (* operation channel: non-empty AddBatches not yet taken *)
  workers : list worker;
  unc : list entry;                   (* SegmentRegisters::uncommitted *)
  com : list entry;                   (* SegmentRegisters::committed *)
  meta : imeta }.                     (* meta.json *)

Definition set_stamper (st : wstate) (s : N) : wstate :=
  mkW s (committed_opstamp st) (dq st) (chan st) (workers st) (unc st) (com st) (meta st).
Definition set_workers (st : wstate) (ws : list worker) : wstate :=
  mkW (stamper_ st) (committed_opstamp st) (dq st) (chan st) ws (unc st) (com st) (meta st).

(* what a freshly loaded searcher sees: the alive documents of the segments of meta.json *)
Definition published (st : wstate) : list doc := flat_map (fun s => alive_docs (fst s)) (m_segs (meta st)).
Definition published_segments (st : wstate) : list (list doc) := map (fun s => alive_docs (fst s)) (m_segs (meta st)).

(* IndexWriter::new on an index whose meta.json is `m` (also: rollback, and drop + Index::writer) *)
Definition entry_of_meta (s : list row * option N) : entry := mkEntry (fst s) O (snd s).
Definition fresh_workers (n : nat) : list worker := repeat (mkWorker O []) n.
Definition new_writer (nw : nat) (m : imeta) : wstate :=
  mkW (m_opstamp m) (m_opstamp m) [] [] (fresh_workers nw) [] (map entry_of_meta (m_segs m)) m.
Definition init_meta : imeta := mkMeta [] 0 None.

(* ------------------------------------------------------------------ internal events *)
Inductive event :=
  | ETake (w : nat)        (* worker w receives the next batch of the channel *)
  | ECut (w : nat)         (* worker w reaches its memory budget: closes and registers its segment *)
  | EStaleSave (m : imeta). (* a task of an updater that was killed (its writer was dropped / rolled back while the task --
                              typically the end of a merge -- was queued or running) reaches save_metas with its own
                              view `m` of the committed segments, opstamp and payload *)

(* SegmentUpdater::save_metas: `if self.is_alive() { ... save_metas(&index_meta, ..); store_meta(..) } Ok(())`.
   `alive` is false for every task of a killed updater (kill() precedes the creation of the next writer);
   the commit path runs it with alive = true: the producer waits for schedule_commit while it borrows the writer. *)
Definition set_meta (st : wstate) (m : imeta) : wstate :=
  mkW (stamper_ st) (committed_opstamp st) (dq st) (chan st) (workers st) (unc st) (com st) m.
Definition save_metas_guarded (alive : bool) (m : imeta) (st : wstate) : wstate :=
  if alive then set_meta st m else st.

Fixpoint upd_nth {A} (i : nat) (f : A -> A) (l : list A) : list A :=
  match l, i with
  | [], _ => []
  | x :: r, O => f x :: r
  | x :: r, S i' => x :: upd_nth i' f r
  end.

(* worker loop: a worker without open segment peeks the batch, skip_to(batch[0].opstamp), then indexes *)
Definition worker_take (q : dqueue) (b : list (doc * N)) (w : worker) : worker :=
  match w_open w, b with
  | [], (_, o) :: _ => mkWorker (skip_to q (w_cur w) o) b
  | _, _ => mkWorker (w_cur w) (w_open w ++ b)
  end.
Definition do_take (st : wstate) (i : nat) : wstate :=
  match chan st with
  | [] => st
  | b :: rest =>
      if Nat.ltb i (length (workers st)) then
        mkW (stamper_ st) (committed_opstamp st) (dq st) rest (upd_nth i (worker_take (dq st) b) (workers st))
            (unc st) (com st) (meta st)
      else st
  end.

(* index_documents after the loop: finalize, apply_deletes, schedule_add_segment (add_segment +
   consider_merge_options, which draws one stamp) *)
Definition finalize (st : wstate) (w : worker) : wstate :=
  match w_open w with
  | [] => st
  | _ =>
      let '(rows, cur') := apply_deletes (dq st) (w_cur w) (w_open w) in
      mkW (snd (stamp (stamper_ st))) (committed_opstamp st) (dq st) (chan st) (workers st)
          (unc st ++ [mkEntry rows cur' None]) (com st) (meta st)
  end.
Definition do_cut (st : wstate) (i : nat) : wstate :=
  match nth_error (workers st) i with
  | None => st
  | Some w => set_workers (finalize st w) (upd_nth i (fun w => mkWorker (w_cur w) []) (workers st))
  end.
Definition do_event (st : wstate) (e : event) : wstate :=
  match e with ETake i => do_take st i | ECut i => do_cut st i | EStaleSave m => save_metas_guarded false m st end.

(* ------------------------------------------------------------------ user operations *)
(* oracle of one call: the internal events that happen before it, and (prepare_commit only) the
   positions DeleteQueue::cursor() hands to the re-created workers *)
Record sstep := mkS { s_events : list event; s_cursors : list nat }.
Definition sched := list sstep.
Definition no_sstep : sstep := mkS [] [].

Definition push_add (st : wstate) (b : list (doc * N)) : wstate :=
  match b with
  | [] => st                                    (* empty batches are filtered out by the workers *)
  | _ => mkW (stamper_ st) (committed_opstamp st) (dq st) (chan st ++ [b]) (workers st) (unc st) (com st) (meta st)
  end.
Definition push_del (st : wstate) (o : delop) : wstate :=
  mkW (stamper_ st) (committed_opstamp st) (dq_push (dq st) o) (chan st) (workers st) (unc st) (com st) (meta st).

(* run: the operations get contiguous stamps from `s` on; deletes are pushed at once, adds collected *)
Fixpoint run_ops (st : wstate) (ops : list bop) (s : N) (adds : list (doc * N)) : wstate * list (doc * N) :=
  match ops with
  | [] => (st, adds)
  | BAdd d :: r => run_ops st r (s + 1) (adds ++ [(d, s)])
  | BDel q :: r => run_ops (push_del st (mkDel s q)) r (s + 1) adds
  end.

(* prepare_commit: close the channel, join every worker (each drains what is left and registers its
   segment), re-create the workers, draw the commit opstamp *)
Fixpoint drain (st : wstate) (fuel : nat) : wstate :=
  match fuel with O => st | S f => match chan st with [] => st | _ => drain (do_take st O) f end end.
Fixpoint join_workers (st : wstate) (ws : list worker) : wstate :=
  match ws with [] => st | w :: r => join_workers (finalize st w) r end.
Fixpoint recreate (q : dqueue) (n : nat) (cursors : list nat) : list worker :=
  match n with
  | O => []
  | S n' => mkWorker (dq_cursor q (hd O cursors)) [] :: recreate q n' (tl cursors)
  end.
Definition prepare_commit (st : wstate) (cursors : list nat) : wstate * N :=
  let st1 := drain st (length (chan st)) in
  let st2 := join_workers st1 (workers st1) in
  let st3 := set_workers st2 (recreate (dq st2) (length (workers st2)) cursors) in
  (set_stamper st3 (snd (stamp (stamper_ st3))), fst (stamp (stamper_ st3))).

(* schedule_commit: purge_deletes, SegmentManager::commit, save_metas (remove_empty_segments),
   consider_merge_options.  `f1` = IndexWriter stores the opstamp in committed_opstamp (finding F1:
   the unchanged code does not). *)
Definition nonempty_entry (e : entry) : bool := negb (Nat.eqb (length (filter snd (e_rows e))) 0).
Definition schedule_commit (f1 : bool) (st : wstate) (opstamp : N) (payload : option N) : wstate :=
  let entries := map (fun e => advance_deletes (dq st) e opstamp) (unc st ++ com st) in
  let com' := filter nonempty_entry entries in
  mkW (snd (stamp (stamper_ st))) (if f1 then opstamp else committed_opstamp st) (dq st) (chan st) (workers st)
      [] com' (mkMeta (map (fun e => (e_rows e, e_delop e)) com') opstamp payload).

(* delete_all_documents: remove_all_segments; stamper.revert(committed_opstamp) *)
Definition delete_all (st : wstate) : wstate * N :=
  (mkW (snd (revert (stamper_ st) (committed_opstamp st))) (committed_opstamp st) (dq st) (chan st) (workers st)
       [] [] (meta st), committed_opstamp st).

Definition nworkers (st : wstate) : nat := length (workers st).

(* one call of the producer; the result is the opstamp the call returns *)
Definition wop (f1 : bool) (st : wstate) (u : uop) (cursors : list nat) : wstate * N :=
  match u with
  | Add d =>
      let '(o, s') := stamp (stamper_ st) in
      (push_add (set_stamper st s') [(d, o)], o)
  | Del q =>
      let '(o, s') := stamp (stamper_ st) in
      (push_del (set_stamper st s') (mkDel o q), o)
  | Batch ops =>
      match ops with
      | [] => let '(o, s') := stamp (stamper_ st) in (set_stamper st s', o)
      | _ =>
          let '((start, end_), s') := stamps (stamper_ st) (N.of_nat (length ops) + 1) in
          let '(st1, adds) := run_ops (set_stamper st s') ops start [] in
          (push_add st1 adds, end_ - 1)
      end
  | DeleteAll => delete_all st
  | Commit payload =>
      let '(st1, c) := prepare_commit st cursors in
      (schedule_commit f1 st1 c payload, c)
  | Rollback | Reopen =>
      let st' := new_writer (nworkers st) (meta st) in (st', committed_opstamp st')
  | Abort =>
      let '(st1, _) := prepare_commit st cursors in
      let st' := new_writer (nworkers st1) (meta st1) in (st', committed_opstamp st')
  end.

Definition wstep (f1 : bool) (st : wstate) (u : uop) (s : sstep) : wstate * N :=
  wop f1 (fold_left do_event (s_events s) st) u (s_cursors s).

(* a history under a schedule (a schedule shorter than the history is completed with empty steps) *)
Fixpoint run_from (f1 : bool) (st : wstate) (h : list uop) (sc : sched) : wstate * list N :=
  match h with
  | [] => (st, [])
  | u :: h' =>
      let '(st', o) := wstep f1 st u (hd no_sstep sc) in
      let '(st'', os) := run_from f1 st' h' (tl sc) in
      (st'', o :: os)
  end.
Definition run (f1 : bool) (nw : nat) (h : list uop) (sc : sched) : wstate * list N :=
  run_from f1 (new_writer nw init_meta) h sc.

(* ------------------------------------------------------------------ the class of finding F2 *)
(* delete_all_documents is sound only when nothing was stamped since committed_opstamp was last
   stored (writer creation / rollback, and commit once F1 is fixed): otherwise documents still in the
   pipeline survive it and opstamps are re-used. *)
Definition dirty_after (f1 : bool) (dirty : bool) (u : uop) : bool :=
  match u with
  | Add _ | Del _ | Batch _ => true
  | Commit _ => if f1 then false else true
  | Rollback | Abort | Reopen => false
  | DeleteAll => dirty
  end.
Fixpoint f2_scan (f1 : bool) (dirty : bool) (h : list uop) : bool :=
  match h with
  | [] => false
  | u :: h' => (match u with DeleteAll => dirty | _ => false end) || f2_scan f1 (dirty_after f1 dirty u) h'
  end.
Definition F2_class (f1 : bool) (h : list uop) : bool := f2_scan f1 false h.
