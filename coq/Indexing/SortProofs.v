(* C17 -- proofs about the index-sorting model (SortIndex.v). *)
From TV Require Import Base.Prelude Generated.Constants Indexing.SortIndex.
From Coq Require Import Sorting.Sorted Sorting.Permutation.
Local Open Scope N_scope.

(* ================================================================== comparators *)

Lemma okey_cmp_opp a b : okey_cmp b a = CompOpp (okey_cmp a b).
Proof. destruct a, b; cbn; try reflexivity. apply N.compare_antisym. Qed.

Lemma okey_cmp_refl a : okey_cmp a a = Eq.
Proof. destruct a; cbn; [apply N.compare_refl|reflexivity]. Qed.

Lemma okey_cmp_le_trans a b c : okey_cmp a b <> Gt -> okey_cmp b c <> Gt -> okey_cmp a c <> Gt.
Proof.
  destruct a as [x|], b as [y|], c as [z|]; cbn; try congruence.
  intros H1 H2. change (x <= y) in H1. change (y <= z) in H2. change (x <= z). lia.
Qed.

Lemma okey_cmp_eq_iff a b : okey_cmp a b = Eq <-> a = b.
Proof.
  destruct a, b; cbn; try (split; congruence).
  rewrite N.compare_eq_iff. split; congruence.
Qed.

Lemma key_le_total o a b : key_le o a b = true \/ key_le o b a = true.
Proof.
  unfold key_le, sort_cmp. rewrite (okey_cmp_opp a b).
  destruct o; cbn; destruct (okey_cmp a b); cbn; auto.
Qed.

Lemma key_le_refl o a : key_le o a a = true.
Proof. destruct (key_le_total o a a); assumption. Qed.

Lemma key_le_trans o a b c : key_le o a b = true -> key_le o b c = true -> key_le o a c = true.
Proof.
  unfold key_le, sort_cmp. destruct o; cbn.
  - intros H1 H2.
    assert (A : okey_cmp a b <> Gt) by (destruct (okey_cmp a b); cbn in *; congruence).
    assert (B : okey_cmp b c <> Gt) by (destruct (okey_cmp b c); cbn in *; congruence).
    pose proof (okey_cmp_le_trans _ _ _ A B). destruct (okey_cmp a c); cbn; congruence.
  - intros H1 H2. rewrite <- okey_cmp_opp in *.
    assert (A : okey_cmp b a <> Gt) by (destruct (okey_cmp b a); cbn in *; congruence).
    assert (B : okey_cmp c b <> Gt) by (destruct (okey_cmp c b); cbn in *; congruence).
    pose proof (okey_cmp_le_trans _ _ _ B A). destruct (okey_cmp c a); cbn; congruence.
Qed.

(* the merger's strict comparison is the strict part of the same order *)
Lemma key_le_lt o a b : key_le o a b = negb (key_lt o b a).
Proof.
  unfold key_le, key_lt, sort_cmp, is_asc. rewrite (okey_cmp_opp a b).
  destruct o; cbn; destruct (okey_cmp a b); reflexivity.
Qed.

(* the order in the words of the property *)
Lemma key_le_asc_spec a b :
  key_le Asc a b = true <-> a = None \/ exists x y, a = Some x /\ b = Some y /\ x <= y.
Proof.
  unfold key_le, sort_cmp; cbn. destruct a as [x|], b as [y|]; cbn.
  - split.
    + intros HH. right. exists x, y. repeat split.
      destruct (N.compare_spec x y) as [E|E|E]; cbn in HH; try discriminate; lia.
    + intros [HH|(x' & y' & E1 & E2 & L)]; [discriminate|]. injection E1; injection E2; intros; subst.
      destruct (N.compare_spec x' y') as [E|E|E]; cbn; try reflexivity; lia.
  - split; [discriminate|]. intros [HH|(x' & y' & _ & E & _)]; discriminate.
  - split; auto.
  - split; auto.
Qed.

Lemma key_le_desc_spec a b :
  key_le Desc a b = true <-> b = None \/ exists x y, a = Some x /\ b = Some y /\ y <= x.
Proof.
  unfold key_le, sort_cmp; cbn. destruct a as [x|], b as [y|]; cbn.
  - split.
    + intros HH. right. exists x, y. repeat split.
      destruct (N.compare_spec x y) as [E|E|E]; cbn in HH; try discriminate; lia.
    + intros [HH|(x' & y' & E1 & E2 & L)]; [discriminate|]. injection E1; injection E2; intros; subst.
      destruct (N.compare_spec x' y') as [E|E|E]; cbn; try reflexivity; lia.
  - split; auto.
  - split; [discriminate|]. intros [HH|(x' & y' & E & _ & _)]; discriminate.
  - split; auto.
Qed.

(* ================================================================== stable sort *)

Section StableSortProofs.
  Context {A : Type} (le : A -> A -> bool).
  Hypothesis le_total : forall a b, le a b = true \/ le b a = true.
  Hypothesis le_trans : forall a b c, le a b = true -> le b c = true -> le a c = true.

  Lemma insert_perm x l : Permutation (insert_sorted le x l) (x :: l).
  Proof.
    induction l as [|y r IH]; cbn; [reflexivity|].
    destruct (le x y); [reflexivity|]. rewrite IH. apply perm_swap.
  Qed.

  Lemma sort_by_perm l : Permutation (sort_by le l) l.
  Proof.
    induction l as [|x r IH]; cbn; [reflexivity|].
    rewrite insert_perm. now constructor.
  Qed.

  Lemma sort_by_length l : length (sort_by le l) = length l.
  Proof. apply Permutation_length, sort_by_perm. Qed.

  Lemma sorted_b_cons x l : sorted_b le (x :: l) = true <->
    (match l with [] => True | y :: _ => le x y = true end) /\ sorted_b le l = true.
  Proof.
    destruct l as [|y r]; cbn [sorted_b]; [tauto|]. rewrite andb_true_iff. tauto.
  Qed.

  Lemma insert_sorted_sorted x l : sorted_b le l = true -> sorted_b le (insert_sorted le x l) = true.
  Proof.
    induction l as [|y r IH]; intros H; [reflexivity|].
    cbn [insert_sorted]. destruct (le x y) eqn:E.
    - apply sorted_b_cons. split; [exact E|exact H].
    - apply sorted_b_cons in H. destruct H as [H1 H2].
      apply sorted_b_cons. split; [|auto].
      destruct r as [|z r']; cbn [insert_sorted].
      + destruct (le_total x y); congruence.
      + destruct (le x z); [destruct (le_total x y); congruence|exact H1].
  Qed.

  Lemma sort_by_sorted l : sorted_b le (sort_by le l) = true.
  Proof. induction l as [|x r IH]; [reflexivity|]. cbn. now apply insert_sorted_sorted. Qed.

  (* the boolean test is the textbook predicate (transitivity gives the strong form) *)
  Lemma sorted_b_strongly l : sorted_b le l = true <-> StronglySorted (fun a b => le a b = true) l.
  Proof.
    split.
    - induction l as [|x r IH]; intros H; [constructor|].
      apply sorted_b_cons in H. destruct H as [H1 H2]. specialize (IH H2).
      constructor; [exact IH|].
      destruct r as [|y r']; [constructor|].
      inversion IH as [|? ? IH1 IH2]; subst. constructor; [exact H1|].
      eapply Forall_impl; [|exact IH2]. intros z Hz. eapply le_trans; eassumption.
    - induction 1 as [|x r HS IH HF]; [reflexivity|].
      apply sorted_b_cons. split; [|exact IH]. destruct r; [exact I|]. now inversion HF.
  Qed.

  Lemma sorted_b_Sorted l : sorted_b le l = true <-> Sorted (fun a b => le a b = true) l.
  Proof.
    rewrite sorted_b_strongly. split; [apply StronglySorted_Sorted|].
    apply Sorted_StronglySorted. intros a b c. apply le_trans.
  Qed.

  (* stability: elements that compare equal keep their relative order *)
  Definition equiv (k x : A) : bool := le k x && le x k.

  Lemma filter_insert k x l :
    filter (equiv k) (insert_sorted le x l) = if equiv k x then x :: filter (equiv k) l else filter (equiv k) l.
  Proof.
    induction l as [|y r IH]; [reflexivity|].
    cbn [insert_sorted]. destruct (le x y) eqn:E; [reflexivity|].
    cbn [filter]. rewrite IH.
    destruct (equiv k x) eqn:Ex, (equiv k y) eqn:Ey; try reflexivity.
    exfalso. unfold equiv in *. apply andb_true_iff in Ex, Ey.
    destruct Ex as [_ Ex], Ey as [Ey _]. rewrite (le_trans _ _ _ Ex Ey) in E. discriminate.
  Qed.

  Lemma sort_by_stable k l : filter (equiv k) (sort_by le l) = filter (equiv k) l.
  Proof.
    induction l as [|x r IH]; [reflexivity|].
    cbn [sort_by fold_right filter]. rewrite filter_insert. fold (sort_by le r). rewrite IH. reflexivity.
  Qed.

  (* a sorted list is the sort of itself *)
  Lemma sort_by_sorted_id l : sorted_b le l = true -> sort_by le l = l.
  Proof.
    induction l as [|x r IH]; intros H; [reflexivity|].
    apply sorted_b_cons in H. destruct H as [H1 H2]. cbn. fold (sort_by le r). rewrite (IH H2).
    destruct r as [|y r']; [reflexivity|]. cbn. now rewrite H1.
  Qed.
End StableSortProofs.

(* ================================================================== list utilities *)

Lemma nth_map_lt {A B} (f : A -> B) l i d d' : (i < length l)%nat -> nth i (map f l) d = f (nth i l d').
Proof.
  revert i; induction l as [|x r IH]; intros i H; cbn in *; [lia|].
  destruct i; [reflexivity|]. apply IH. lia.
Qed.

Lemma seq_nth_id n l : length l = n -> map (fun i => nth i l 0%nat) (seq 0 n) = l.
Proof.
  intros <-. apply nth_ext with (d := 0%nat) (d' := 0%nat).
  - now rewrite map_length, seq_length.
  - intros i Hi. rewrite map_length, seq_length in Hi.
    rewrite (nth_map_lt _ _ _ _ 0%nat) by now rewrite seq_length.
    now rewrite seq_nth.
Qed.

Lemma upd_length {A} i (x : A) l : length (upd i x l) = length l.
Proof. revert i; induction l as [|y r IH]; intros [|i]; cbn; auto. Qed.

Lemma nth_upd_same {A} i (x : A) l d : (i < length l)%nat -> nth i (upd i x l) d = x.
Proof. revert i; induction l as [|y r IH]; intros [|i] H; cbn in *; try lia; auto. apply IH. lia. Qed.

Lemma nth_upd_other {A} i j (x : A) l d : i <> j -> nth j (upd i x l) d = nth j l d.
Proof.
  revert i j; induction l as [|y r IH]; intros [|i] [|j] H; cbn; auto; try congruence.
Qed.

Lemma list_max_perm l l' : Permutation l l' -> list_max l = list_max l'.
Proof.
  induction 1 as [|x l l' P IH|x y l|l l' l'' P1 IH1 P2 IH2]; unfold list_max in *; cbn [fold_right] in *; lia.
Qed.

Lemma list_max_seq n : list_max (seq 0 (S n)) = n.
Proof.
  induction n as [|n IH]; [reflexivity|].
  rewrite seq_S, list_max_app, IH. cbn. lia.
Qed.

Lemma nmax_list_perm l l' : Permutation l l' -> nmax_list l = nmax_list l'.
Proof.
  induction 1 as [|x l l' P IH|x y l|l l' l'' P1 IH1 P2 IH2]; unfold nmax_list in *; cbn [fold_right] in *; lia.
Qed.

Lemma perm_seq_lt n l x : Permutation l (seq 0 n) -> In x l -> (x < n)%nat.
Proof. intros P H. apply (Permutation_in _ P) in H. apply in_seq in H. lia. Qed.

Lemma perm_seq_nodup n l : Permutation l (seq 0 n) -> NoDup l.
Proof. intros P. apply (Permutation_NoDup (Permutation_sym P)), seq_NoDup. Qed.

(* ================================================================== DocIdMapping: both directions *)

Definition is_perm (n : nat) (n2o : list nat) : Prop := Permutation n2o (seq 0 n).

Lemma build_old_to_new k l init :
  NoDup l -> (forall x, In x l -> (x < length init)%nat) ->
  let res := fold_left (fun acc e => upd (snd e) (fst e) acc) (combine (seq k (length l)) l) init in
  length res = length init /\
  (forall old, ~ In old l -> nth old res 0%nat = nth old init 0%nat) /\
  (forall i, (i < length l)%nat -> nth (nth i l 0%nat) res 0%nat = (k + i)%nat).
Proof.
  revert k init; induction l as [|x r IH]; intros k init ND Hlt; cbn -[nth].
  - repeat split; auto. intros i Hi; cbn in Hi; lia.
  - inversion ND as [|? ? Hx ND']; subst.
    specialize (IH (S k) (upd x k init) ND').
    assert (Hlt' : forall y, In y r -> (y < length (upd x k init))%nat).
    { intros y Hy. rewrite upd_length. apply Hlt. now right. }
    destruct (IH Hlt') as (L & O & I). cbn zeta in *. repeat split.
    + now rewrite L, upd_length.
    + intros old Hold. rewrite O by (intros C; apply Hold; now right).
      apply nth_upd_other. intros ->. apply Hold. now left.
    + intros [|i] Hi.
      * cbn [nth]. rewrite O by exact Hx. rewrite nth_upd_same; [lia|]. apply Hlt. now left.
      * cbn [nth]. rewrite I by (cbn in Hi; lia). lia.
Qed.

Section Mapping.
  Variable n : nat.
  Variable n2o : list nat.
  Hypothesis Hperm : is_perm n n2o.
  Let m := from_new_id_to_old_id n2o.

  Lemma n2o_length : length n2o = n.
  Proof. rewrite (Permutation_length Hperm). apply seq_length. Qed.

  Lemma n2o_nth_lt new : (new < n)%nat -> (nth new n2o 0 < n)%nat.
  Proof. intros H. eapply perm_seq_lt; [exact Hperm|]. apply nth_In. now rewrite n2o_length. Qed.

  Lemma old_max_doc_eq : (match n2o with [] => 0 | _ => S (list_max n2o) end = n)%nat.
  Proof.
    pose proof n2o_length as L. destruct n2o as [|x r] eqn:E.
    - cbn in L. lia.
    - rewrite <- E in *. rewrite (list_max_perm _ _ Hperm).
      destruct n as [|n']; [rewrite E in L; cbn in L; lia|]. now rewrite list_max_seq.
  Qed.

  Lemma old_to_new_facts :
    length (old_to_new m) = n /\
    (forall i, (i < n)%nat -> get_new_doc_id m (nth i n2o 0%nat) = i).
  Proof.
    unfold m, from_new_id_to_old_id, get_new_doc_id, enumerate; cbn [old_to_new].
    rewrite old_max_doc_eq.
    assert (Hlt : forall x, In x n2o -> (x < length (repeat 0%nat n))%nat).
    { intros x Hx. rewrite repeat_length. eapply perm_seq_lt; eauto. }
    destruct (build_old_to_new 0 n2o (repeat 0%nat n) (perm_seq_nodup _ _ Hperm) Hlt) as (L & _ & I).
    cbn zeta in *. split; [now rewrite L, repeat_length|].
    intros i Hi. rewrite I by now rewrite n2o_length. reflexivity.
  Qed.

  (* new -> old -> new *)
  Lemma get_new_of_old new : (new < n)%nat -> get_new_doc_id m (nth new n2o 0%nat) = new.
  Proof. apply old_to_new_facts. Qed.

  (* old -> new -> old *)
  Lemma old_of_get_new old : (old < n)%nat ->
    (get_new_doc_id m old < n)%nat /\ nth (get_new_doc_id m old) n2o 0%nat = old.
  Proof.
    intros H. assert (I : In old n2o).
    { apply (Permutation_in _ (Permutation_sym Hperm)). apply in_seq. lia. }
    destruct (In_nth _ _ 0%nat I) as (i & Hi & E). rewrite n2o_length in Hi.
    rewrite <- E. rewrite get_new_of_old by exact Hi. auto.
  Qed.

  Lemma get_new_inj a b : (a < n)%nat -> (b < n)%nat -> get_new_doc_id m a = get_new_doc_id m b -> a = b.
  Proof.
    intros Ha Hb E. destruct (old_of_get_new a Ha) as [_ Ea], (old_of_get_new b Hb) as [_ Eb]. congruence.
  Qed.

  (* ---- DocIdMapping::remap *)
  Lemma remap_length {T} (els : list T) d : length (remap m els d) = n.
  Proof. unfold remap. rewrite map_length. apply n2o_length. Qed.

  Lemma remap_nth {T} (els : list T) d new : (new < n)%nat ->
    nth new (remap m els d) d = nth (nth new n2o 0%nat) els d.
  Proof.
    intros H. unfold remap. cbn [new_to_old m from_new_id_to_old_id].
    apply (nth_map_lt (fun old => nth old els d)). now rewrite n2o_length.
  Qed.
End Mapping.

(* ================================================================== posting-like lists *)

Lemma strictly_increasing_cons x l :
  strictly_increasing_b (x :: l) = true ->
  strictly_increasing_b l = true /\ Forall (fun y => (x < y)%nat) l.
Proof.
  revert x; induction l as [|y r IH]; intros x H; [split; [reflexivity|constructor]|].
  unfold strictly_increasing_b in *. cbn [sorted_b] in H. apply andb_true_iff in H. destruct H as [H1 H2].
  apply Nat.ltb_lt in H1. split; [exact H2|].
  constructor; [exact H1|]. destruct (IH y H2) as [_ F]. eapply Forall_impl; [|exact F]. cbn. intros; lia.
Qed.

Lemma strictly_increasing_nodup l : strictly_increasing_b l = true -> NoDup l.
Proof.
  induction l as [|x r IH]; intros H; [constructor|].
  destruct (strictly_increasing_cons _ _ H) as [H1 H2]. constructor; [|auto].
  intros C. rewrite Forall_forall in H2. specialize (H2 _ C). lia.
Qed.

Lemma wf_plist_facts {P} n (pl : plist P) : wf_plist n pl = true ->
  strictly_increasing_b (map fst pl) = true /\ NoDup (map fst pl) /\ (forall e, In e pl -> (fst e < n)%nat).
Proof.
  unfold wf_plist. rewrite andb_true_iff, forallb_forall. intros [H1 H2].
  repeat split; [exact H1|now apply strictly_increasing_nodup|].
  intros e He. apply Nat.ltb_lt. auto.
Qed.

Lemma plookup_in {P} (pl : plist P) d p : NoDup (map fst pl) -> In (d, p) pl -> plookup pl d = Some p.
Proof.
  unfold plookup. induction pl as [|[d' p'] r IH]; intros ND I; [destruct I|].
  cbn [find fst]. inversion ND as [|? ? Hn ND']; subst. destruct I as [E|I].
  - injection E; intros; subst. now rewrite Nat.eqb_refl.
  - destruct (Nat.eqb_spec d' d) as [->|_]; [|auto].
    exfalso. apply Hn. change d with (fst (d, p)). now apply in_map.
Qed.

Lemma plookup_none {P} (pl : plist P) d : ~ In d (map fst pl) -> plookup pl d = None.
Proof.
  unfold plookup. induction pl as [|[d' p'] r IH]; intros H; [reflexivity|].
  cbn [find fst]. destruct (Nat.eqb_spec d' d) as [->|_]; [exfalso; apply H; now left|].
  apply IH. intros C. apply H. now right.
Qed.

Lemma plookup_some_in {P} (pl : plist P) d p : plookup pl d = Some p -> In (d, p) pl.
Proof.
  unfold plookup. induction pl as [|[d' p'] r IH]; cbn [find fst]; [discriminate|].
  destruct (Nat.eqb_spec d' d) as [->|_]; cbn.
  - intros E; injection E; intros; subst. now left.
  - intros H. right. auto.
Qed.

Lemma plookup_perm {P} (l l' : plist P) d : Permutation l l' -> NoDup (map fst l) -> plookup l d = plookup l' d.
Proof.
  intros Pm ND.
  assert (ND' : NoDup (map fst l')) by (eapply Permutation_NoDup; [apply Permutation_map; exact Pm|exact ND]).
  destruct (plookup l d) as [p|] eqn:E.
  - symmetry. apply plookup_in; [exact ND'|]. eapply Permutation_in; [exact Pm|]. now apply plookup_some_in.
  - destruct (plookup l' d) as [p|] eqn:E'; [|reflexivity].
    apply plookup_some_in in E'. apply (Permutation_in _ (Permutation_sym Pm)) in E'.
    rewrite (plookup_in _ _ _ ND E') in E. discriminate.
Qed.

Lemma NoDup_map_inj_in {A B} (f : A -> B) l :
  (forall a b, In a l -> In b l -> f a = f b -> a = b) -> NoDup l -> NoDup (map f l).
Proof.
  induction l as [|x r IH]; intros Hinj ND; [constructor|].
  inversion ND as [|? ? Hx ND']; subst. cbn. constructor.
  - intros C. apply in_map_iff in C. destruct C as (y & E & Iy).
    apply Hx. rewrite (Hinj x y); auto; [now left|now right].
  - apply IH; [|exact ND']. intros a b Ia Ib. apply Hinj; now right.
Qed.

Lemma doc_le_total {P} (a b : nat * P) : doc_le a b = true \/ doc_le b a = true.
Proof. unfold doc_le. destruct (Nat.leb_spec (fst a) (fst b)); [now left|right]. apply Nat.leb_le. lia. Qed.
Lemma doc_le_trans {P} (a b c : nat * P) : doc_le a b = true -> doc_le b c = true -> doc_le a c = true.
Proof. unfold doc_le. rewrite !Nat.leb_le. lia. Qed.

Section RemapPlist.
  Variable n : nat.
  Variable n2o : list nat.
  Hypothesis Hperm : is_perm n n2o.
  Let m := from_new_id_to_old_id n2o.
  Context {P : Type}.
  Variable pl : plist P.
  Hypothesis Hwf : wf_plist n pl = true.

  Let renamed := map (fun e : nat * P => (get_new_doc_id m (fst e), snd e)) pl.

  Lemma remap_plist_perm : Permutation (remap_plist m pl) renamed.
  Proof. apply sort_by_perm. Qed.

  Lemma renamed_nodup : NoDup (map fst renamed).
  Proof.
    destruct (wf_plist_facts _ _ Hwf) as (_ & ND & Hlt).
    unfold renamed. rewrite map_map. cbn [fst].
    rewrite <- (map_map fst (get_new_doc_id m)).
    apply NoDup_map_inj_in; [|exact ND].
    intros a b Ha Hb. apply in_map_iff in Ha, Hb.
    destruct Ha as (ea & <- & Ia), Hb as (eb & <- & Ib).
    apply (get_new_inj n n2o Hperm); auto.
  Qed.

  (* looking a new doc id up in the remapped list = looking its old id up in the original list *)
  Lemma plookup_remap new : (new < n)%nat -> plookup (remap_plist m pl) new = plookup pl (nth new n2o 0%nat).
  Proof.
    intros Hn.
    rewrite (plookup_perm (remap_plist m pl) renamed new remap_plist_perm) by (eapply Permutation_NoDup;
      [apply Permutation_map, Permutation_sym, remap_plist_perm|exact renamed_nodup]).
    destruct (wf_plist_facts _ _ Hwf) as (_ & _ & Hlt).
    set (old := nth new n2o 0%nat).
    assert (Hold : (old < n)%nat) by now apply (n2o_nth_lt n n2o Hperm).
    assert (E : get_new_doc_id m old = new) by now apply (get_new_of_old n n2o Hperm).
    clear Hwf. unfold renamed, plookup. induction pl as [|[d p] r IH]; [reflexivity|].
    cbn [map find fst snd].
    assert (Hd : (d < n)%nat) by (apply (Hlt (d, p)); now left).
    destruct (Nat.eqb_spec d old) as [->|Hne].
    - now rewrite E, Nat.eqb_refl.
    - destruct (Nat.eqb_spec (get_new_doc_id m d) new) as [C|_].
      + exfalso. apply Hne. apply (get_new_inj n n2o Hperm); auto. transitivity new; [exact C|symmetry; exact E].
      + apply IH. intros e He. apply Hlt. now right.
  Qed.

  (* the serializer receives strictly increasing doc ids, all below max_doc *)
  Lemma remap_plist_wf : wf_plist n (remap_plist m pl) = true.
  Proof.
    unfold wf_plist. apply andb_true_iff. split.
    - assert (S : sorted_b doc_le (remap_plist m pl) = true) by (apply sort_by_sorted; apply doc_le_total).
      assert (ND : NoDup (map fst (remap_plist m pl))).
      { eapply Permutation_NoDup; [apply Permutation_map, Permutation_sym, remap_plist_perm|exact renamed_nodup]. }
      revert S ND. generalize (remap_plist m pl). intros l.
      induction l as [|a r IH]; intros S ND; [reflexivity|].
      destruct r as [|b r']; [reflexivity|].
      cbn [map] in *. unfold strictly_increasing_b in *. cbn [sorted_b] in *.
      apply andb_true_iff in S. destruct S as [S1 S2]. apply andb_true_iff. split.
      + unfold doc_le in S1. apply Nat.leb_le in S1. apply Nat.ltb_lt.
        inversion ND as [|? ? Hn _]; subst. assert (fst a <> fst b) by (intros C; apply Hn; now left). lia.
      + apply IH; [exact S2|now inversion ND].
    - apply forallb_forall. intros e He. apply Nat.ltb_lt.
      apply (Permutation_in _ remap_plist_perm) in He. unfold renamed in He. apply in_map_iff in He.
      destruct He as (e0 & <- & I0). cbn [fst].
      destruct (wf_plist_facts _ _ Hwf) as (_ & _ & Hlt).
      apply (old_of_get_new n n2o Hperm). auto.
  Qed.
End RemapPlist.

(* ================================================================== collect_sort_order_from_ops *)

Lemma fill_default_split a b c : (a <= b)%nat -> (b <= c)%nat ->
  fill_default a c = fill_default a b ++ fill_default b c.
Proof.
  intros H1 H2. unfold fill_default. rewrite <- map_app. f_equal.
  replace (c - a)%nat with ((b - a) + (c - b))%nat by lia.
  rewrite seq_app. do 2 f_equal. lia.
Qed.

(* after a value has been taken for the current document the further values are skipped *)
Lemma collect_values_skipped vtk st vs : cs_cur st = None ->
  fold_left (collect_step vtk) (map Value vs) st = st.
Proof. induction vs as [|v r IH]; intros H; [reflexivity|]. cbn. rewrite H. now apply IH. Qed.

Lemma collect_group vtk st d v vs :
  fold_left (collect_step vtk) (NewDoc d :: map Value (v :: vs)) st =
  {| cs_keys := cs_keys st ++ fill_default (cs_fill st) d ++ [(vtk v, d)]; cs_fill := S d; cs_cur := None |}.
Proof. cbn. now rewrite collect_values_skipped. Qed.

Definition keys_by_lookup (vtk : N -> okey) (col : plist (list N)) (from len : nat) : list (okey * nat) :=
  map (fun d => (first_key vtk (plookup col d), d)) (seq from len).

Lemma keys_by_lookup_none vtk col from len :
  (forall e, In e col -> (from + len <= fst e)%nat) ->
  keys_by_lookup vtk col from len = fill_default from (from + len).
Proof.
  intros H. unfold keys_by_lookup, fill_default. replace (from + len - from)%nat with len by lia.
  apply map_ext_in. intros d Hd. apply in_seq in Hd.
  rewrite plookup_none; [reflexivity|].
  intros C. apply in_map_iff in C. destruct C as (e & <- & Ie). specialize (H _ Ie). lia.
Qed.

Lemma collect_groups_spec vtk (col : plist (list N)) n st :
  strictly_increasing_b (map fst col) = true ->
  (forall e, In e col -> (cs_fill st <= fst e < n)%nat /\ snd e <> []) ->
  (cs_fill st <= n)%nat ->
  let st' := fold_left (collect_step vtk) (ops_of_groups col) st in
  cs_keys st' ++ fill_default (cs_fill st') n =
  cs_keys st ++ keys_by_lookup vtk col (cs_fill st) (n - cs_fill st).
Proof.
  revert st; induction col as [|[d vs] r IH]; intros st Hinc Hwf Hfn; cbn zeta.
  - unfold ops_of_groups. cbn [flat_map fold_left].
    rewrite keys_by_lookup_none by (intros e []).
    replace (cs_fill st + (n - cs_fill st))%nat with n by lia. reflexivity.
  - destruct (Hwf (d, vs) (or_introl eq_refl)) as [[Hd1 Hd2] Hvs]. cbn [fst snd] in *.
    destruct vs as [|v vs']; [congruence|].
    cbn [ops_of_groups flat_map]. rewrite fold_left_app.
    change (NewDoc (fst (d, v :: vs')) :: map Value (snd (d, v :: vs'))) with (NewDoc d :: map Value (v :: vs')).
    rewrite collect_group.
    cbn [map] in Hinc. destruct (strictly_increasing_cons _ _ Hinc) as [Hinc' Hgt]. cbn [fst] in Hgt.
    set (st1 := {| cs_keys := _; cs_fill := S d; cs_cur := None |}).
    assert (Hwf1 : forall e, In e r -> (cs_fill st1 <= fst e < n)%nat /\ snd e <> []).
    { intros e He. destruct (Hwf e (or_intror He)) as [[_ H2] H3]. split; [|exact H3]. cbn [st1 cs_fill].
      rewrite Forall_forall in Hgt. specialize (Hgt (fst e) (in_map fst _ _ He)). lia. }
    specialize (IH st1 Hinc' Hwf1 ltac:(cbn; lia)). cbn zeta in IH.
    change (fold_left (collect_step vtk) (flat_map (fun g => NewDoc (fst g) :: map Value (snd g)) r) st1)
      with (fold_left (collect_step vtk) (ops_of_groups r) st1).
    rewrite IH. cbn [st1 cs_keys cs_fill]. rewrite <- !app_assoc. f_equal.
    (* [fill, d) ++ d ++ (d, n) *)
    unfold keys_by_lookup.
    replace (n - cs_fill st)%nat with ((d - cs_fill st) + (1 + (n - S d)))%nat by lia.
    rewrite seq_app, map_app. replace (cs_fill st + (d - cs_fill st))%nat with d by lia.
    cbn [seq map app Nat.add]. f_equal; [|f_equal].
    + (* docs before d have no entry *)
      unfold fill_default. apply map_ext_in. intros x Hx. apply in_seq in Hx.
      rewrite plookup_none; [reflexivity|]. cbn [map fst]. intros [C|C]; [lia|].
      rewrite Forall_forall in Hgt. specialize (Hgt _ C). lia.
    + unfold plookup. cbn [find fst]. now rewrite Nat.eqb_refl.
    + apply map_ext_in. intros x Hx. apply in_seq in Hx.
      unfold plookup. cbn [find fst]. destruct (Nat.eqb_spec d x); [lia|reflexivity].
Qed.

(* the keys computed by the gap-filling loop: for every doc id its first value, None when missing *)
Lemma collect_keys_spec vtk (col : plist (list N)) n :
  wf_plist n col = true -> forallb (fun g => negb (Nat.eqb (length (snd g)) 0)) col = true ->
  collect_doc_sort_keys vtk (ops_of_groups col) n = keys_by_lookup vtk col 0 n.
Proof.
  intros Hwf Hne. destruct (wf_plist_facts _ _ Hwf) as (Hinc & _ & Hlt).
  unfold collect_doc_sort_keys.
  pose proof (collect_groups_spec vtk col n {| cs_keys := []; cs_fill := 0%nat; cs_cur := None |} Hinc) as H.
  cbn [cs_keys cs_fill app] in H. cbn zeta in H. rewrite H; [now rewrite Nat.sub_0_r| |lia].
  intros e He. split; [split; [lia|auto]|].
  rewrite forallb_forall in Hne. specialize (Hne _ He). destruct (snd e); [discriminate|congruence].
Qed.

(* ================================================================== finalize: permutation and order *)

Lemma pair_le_total r (a b : okey * nat) : pair_le r a b = true \/ pair_le r b a = true.
Proof. unfold pair_le. destruct r; [apply (key_le_total Desc)|apply (key_le_total Asc)]. Qed.
Lemma pair_le_trans r (a b c : okey * nat) : pair_le r a b = true -> pair_le r b c = true -> pair_le r a c = true.
Proof. unfold pair_le. destruct r; [apply (key_le_trans Desc)|apply (key_le_trans Asc)]. Qed.

Lemma sorted_b_map_fst o (l : list (okey * nat)) :
  sorted_b (pair_le (is_desc o)) l = sorted_b (key_le o) (map fst l).
Proof.
  induction l as [|a r IH]; [reflexivity|]. destruct r as [|b r']; [reflexivity|].
  cbn [map sorted_b] in *. rewrite IH. reflexivity.
Qed.

Section Finalize.
  Variable vtk : N -> okey.
  Variable s : segment.
  Hypothesis Hwf : wf_segment s = true.
  Let n := s_max_doc s.

  Lemma wf_segment_facts :
    wf_plist n (s_sortcol s) = true /\
    forallb (fun g => negb (Nat.eqb (length (snd g)) 0)) (s_sortcol s) = true /\
    (forall c, In c (s_columns s) -> wf_plist n c = true) /\
    (forall f, In f (s_norms s) -> length f = n) /\
    length (s_store s) = n /\
    (forall tp, In tp (s_postings s) -> wf_plist n (snd tp) = true).
  Proof.
    unfold wf_segment in Hwf. fold n in Hwf. rewrite !andb_true_iff, !forallb_forall in Hwf.
    destruct Hwf as (((((H1 & H2) & H3) & H4) & H5) & H6).
    repeat split; auto.
    - now apply forallb_forall.
    - intros f Hf. now apply Nat.eqb_eq, H4.
    - now apply Nat.eqb_eq.
  Qed.

  (* ---- any permutation: every per-document structure is permuted by the same one *)
  Section AnyMapping.
    Variable n2o : list nat.
    Hypothesis Hperm : is_perm n n2o.
    Let m := from_new_id_to_old_id n2o.

    Lemma logical_doc_remap new : (new < n)%nat ->
      logical_doc (remap_segment m s) new = logical_doc s (nth new n2o 0%nat).
    Proof.
      intros Hn. destruct wf_segment_facts as (W1 & _ & W3 & W4 & W5 & W6).
      unfold logical_doc. cbn [remap_segment s_sortcol s_columns s_norms s_store s_postings].
      f_equal.
      - now apply (plookup_remap n n2o Hperm).
      - rewrite map_map. apply map_ext_in. intros c Hc. apply (plookup_remap n n2o Hperm); auto.
      - rewrite map_map. apply map_ext_in. intros f Hf. now apply (remap_nth n n2o Hperm).
      - now apply (remap_nth n n2o Hperm).
      - rewrite map_map. apply map_ext_in. intros tp Htp. cbn [fst snd]. f_equal.
        apply (plookup_remap n n2o Hperm); auto.
    Qed.

    Lemma logical_remap : logical (remap_segment m s) = map (logical_doc s) n2o.
    Proof.
      unfold logical. cbn [remap_segment s_max_doc]. fold n.
      transitivity (map (logical_doc s) (map (fun i => nth i n2o 0%nat) (seq 0 n)));
        [|now rewrite (seq_nth_id n n2o (n2o_length n n2o Hperm))].
      rewrite map_map. apply map_ext_in. intros new Hnew. apply in_seq in Hnew. apply logical_doc_remap. lia.
    Qed.

    Lemma remap_segment_wf : wf_segment (remap_segment m s) = true.
    Proof.
      destruct wf_segment_facts as (W1 & W2 & W3 & W4 & W5 & W6).
      unfold wf_segment. cbn [remap_segment s_max_doc s_sortcol s_columns s_norms s_store s_postings]. fold n.
      rewrite !andb_true_iff, !forallb_forall. repeat split.
      - now apply remap_plist_wf.
      - intros g Hg. apply (Permutation_in _ (remap_plist_perm n2o (s_sortcol s))) in Hg.
        apply in_map_iff in Hg. destruct Hg as (g0 & <- & Hg0). cbn [snd].
        rewrite forallb_forall in W2. now apply W2.
      - intros c Hc. apply in_map_iff in Hc. destruct Hc as (c0 & <- & Hc0). apply remap_plist_wf; auto.
      - intros f Hf. apply in_map_iff in Hf. destruct Hf as (f0 & <- & Hf0). apply Nat.eqb_eq.
        apply (remap_length n n2o Hperm).
      - apply Nat.eqb_eq. apply (remap_length n n2o Hperm).
      - intros tp Htp. apply in_map_iff in Htp. destruct Htp as (tp0 & <- & Htp0). cbn [snd]. apply remap_plist_wf; auto.
    Qed.
  End AnyMapping.

  (* ---- the mapping computed from the sort field *)
  Variable o : order.
  Let ks := collect_doc_sort_keys vtk (ops_of_groups (s_sortcol s)) n.
  Let sorted_ks := sort_by (pair_le (is_desc o)) ks.
  Let n2o := sort_order_from_ops vtk (ops_of_groups (s_sortcol s)) n (is_desc o).

  Lemma ks_spec : ks = map (fun d => (doc_key vtk (logical_doc s d), d)) (seq 0 n).
  Proof.
    destruct wf_segment_facts as (W1 & W2 & _). unfold ks. rewrite collect_keys_spec by assumption.
    reflexivity.
  Qed.

  Lemma sort_order_is_perm : is_perm n n2o.
  Proof.
    unfold is_perm, n2o, sort_order_from_ops. fold ks.
    rewrite (Permutation_map snd (sort_by_perm (pair_le (is_desc o)) ks)).
    rewrite ks_spec, map_map. cbn [snd]. now rewrite map_id.
  Qed.

  (* the key of the document that lands at a new doc id is the key the sort saw *)
  Lemma keys_after_finalize :
    map (doc_key vtk) (logical (remap_segment (from_new_id_to_old_id n2o) s)) = map fst sorted_ks.
  Proof.
    rewrite (logical_remap n2o sort_order_is_perm). rewrite map_map.
    unfold n2o, sort_order_from_ops. fold ks. fold sorted_ks. rewrite map_map.
    apply map_ext_in. intros e He.
    apply (Permutation_in _ (sort_by_perm (pair_le (is_desc o)) ks)) in He.
    rewrite ks_spec in He. apply in_map_iff in He. destruct He as (d & <- & _). reflexivity.
  Qed.

  Lemma finalize_sorted ops :
    sorted_b (key_le o) (map (doc_key vtk) (logical (fst (finalize (Some o) vtk s ops)))) = true.
  Proof.
    cbn [finalize fst]. unfold get_doc_id_mapping_from_field. fold n. fold n2o.
    rewrite keys_after_finalize. rewrite <- sorted_b_map_fst.
    apply sort_by_sorted. apply pair_le_total.
  Qed.
End Finalize.

(* ================================================================== deletes inside the reordered transaction *)

Lemma kill_fold_len (P : nat -> bool) l alive :
  length (fold_left (fun a x => if P x then upd x false a else a) l alive) = length alive.
Proof.
  revert alive; induction l as [|x r IH]; intros alive; [reflexivity|]. cbn [fold_left]. rewrite IH.
  destruct (P x); [apply upd_length|reflexivity].
Qed.

Lemma kill_fold_spec (P : nat -> bool) l alive doc : (doc < length alive)%nat ->
  nth doc (fold_left (fun a x => if P x then upd x false a else a) l alive) true =
  nth doc alive true && negb (existsb (fun x => Nat.eqb x doc && P x) l).
Proof.
  revert alive; induction l as [|x r IH]; intros alive Hd; cbn [fold_left existsb].
  - now rewrite andb_true_r.
  - rewrite IH by (destruct (P x); [now rewrite upd_length|exact Hd]).
    destruct (P x) eqn:Px.
    + destruct (Nat.eqb_spec x doc) as [->|Hne]; cbn [andb orb negb].
      * rewrite nth_upd_same by exact Hd. now rewrite andb_false_r.
      * now rewrite nth_upd_other by exact Hne.
    + now rewrite andb_false_r.
Qed.

(* which delete operations are looked at: those up to the first one younger than the target *)
Definition dels_seen (target : N) (dels : list delete_op) : list delete_op :=
  take_while (fun d => negb (N.ltb target (del_opstamp d))) dels.
Definition hit (s : segment) (ops : option (list N)) (doc : nat) (d : delete_op) : bool :=
  existsb (fun x => Nat.eqb x doc && is_deleted ops x (del_opstamp d)) (docs_matching s (del_term d)).

Lemma compute_deleted_bitset_len s ops target dels alive :
  length (compute_deleted_bitset alive s dels ops target) = length alive.
Proof.
  revert alive; induction dels as [|d r IH]; intros alive; cbn [compute_deleted_bitset]; [reflexivity|].
  destruct (N.ltb target (del_opstamp d)); [reflexivity|]. now rewrite IH, kill_fold_len.
Qed.

Lemma compute_deleted_bitset_spec s ops target dels alive doc : (doc < length alive)%nat ->
  nth doc (compute_deleted_bitset alive s dels ops target) true =
  nth doc alive true && negb (existsb (hit s ops doc) (dels_seen target dels)).
Proof.
  revert alive; induction dels as [|d r IH]; intros alive Hd; cbn [compute_deleted_bitset dels_seen take_while].
  - cbn. now rewrite andb_true_r.
  - destruct (N.ltb target (del_opstamp d)); cbn [negb].
    + cbn. now rewrite andb_true_r.
    + rewrite IH by now rewrite kill_fold_len.
      rewrite kill_fold_spec by exact Hd.
      fold (dels_seen target r). cbn [existsb]. unfold hit at 2.
      now rewrite negb_orb, andb_assoc.
Qed.

Lemma existsb_ext' {A} (f g : A -> bool) l : (forall x, f x = g x) -> existsb f l = existsb g l.
Proof. intros H. induction l as [|x r IH]; [reflexivity|]. cbn. now rewrite H, IH. Qed.

Lemma existsb_eq_mem (Q : nat -> bool) l doc :
  existsb (fun x => Nat.eqb x doc && Q x) l = existsb (Nat.eqb doc) l && Q doc.
Proof.
  induction l as [|x r IH]; [reflexivity|]. cbn [existsb]. rewrite IH.
  destruct (Nat.eqb_spec x doc) as [->|Hne].
  - rewrite Nat.eqb_refl. cbn. destruct (Q doc); cbn; [reflexivity|]. now rewrite andb_false_r.
  - destruct (Nat.eqb_spec doc x); [congruence|reflexivity].
Qed.

Lemma mem_plookup {P} (pl : plist P) doc :
  existsb (Nat.eqb doc) (map fst pl) = match plookup pl doc with Some _ => true | None => false end.
Proof.
  unfold plookup. induction pl as [|[d p] r IH]; [reflexivity|].
  cbn [map existsb find fst]. rewrite (Nat.eqb_sym doc d).
  destruct (Nat.eqb d doc); [reflexivity|exact IH].
Qed.

Section DeletesUnchanged.
  Variable s : segment.
  Hypothesis Hwf : wf_segment s = true.
  Let n := s_max_doc s.
  Variable n2o : list nat.
  Hypothesis Hperm : is_perm n n2o.
  Let m := from_new_id_to_old_id n2o.
  Variable opstamps : list N.
  Hypothesis Hops : length opstamps = n.

  Lemma remap_opstamps_perm : Permutation (remap_doc_opstamps opstamps (Some m)) opstamps.
  Proof.
    cbn [remap_doc_opstamps m from_new_id_to_old_id new_to_old].
    rewrite (Permutation_map (fun doc => nth doc opstamps 0) Hperm).
    rewrite <- Hops. clear. induction opstamps as [|x r IH]; [reflexivity|].
    cbn [length seq map nth]. constructor. rewrite <- seq_shift, map_map. exact IH.
  Qed.

  Lemma docs_matching_remap t new : (new < n)%nat ->
    existsb (Nat.eqb new) (docs_matching (remap_segment m s) t) =
    existsb (Nat.eqb (nth new n2o 0%nat)) (docs_matching s t).
  Proof.
    intros Hn. destruct (wf_segment_facts s Hwf) as (_ & _ & _ & _ & _ & W6).
    unfold docs_matching. cbn [remap_segment s_postings].
    induction (s_postings s) as [|tp r IH]; [reflexivity|].
    cbn [map find fst]. destruct (bytes_eqb (fst tp) t).
    - cbn [snd]. rewrite !mem_plookup. rewrite (plookup_remap n n2o Hperm); [reflexivity| |exact Hn].
      apply W6. now left.
    - apply IH. intros tp' H'. apply W6. now right.
  Qed.

  (* the alive bit computed on the sorted segment with the remapped opstamps is, for every document,
     the alive bit computed on the unsorted segment *)
  Lemma apply_deletes_remap dels :
    apply_deletes (remap_segment m s) dels (remap_doc_opstamps opstamps (Some m)) =
    remap m (apply_deletes s dels opstamps) true.
  Proof.
    unfold apply_deletes. cbn [remap_segment s_max_doc]. fold n.
    rewrite (nmax_list_perm _ _ remap_opstamps_perm).
    set (target := nmax_list opstamps).
    apply nth_ext with (d := true) (d' := true).
    - rewrite compute_deleted_bitset_len, repeat_length. symmetry. apply (remap_length n n2o Hperm).
    - intros new Hnew. rewrite compute_deleted_bitset_len, repeat_length in Hnew.
      rewrite compute_deleted_bitset_spec by now rewrite repeat_length.
      rewrite (remap_nth n n2o Hperm) by exact Hnew.
      set (old := nth new n2o 0%nat).
      assert (Hold : (old < n)%nat) by now apply (n2o_nth_lt n n2o Hperm).
      rewrite compute_deleted_bitset_spec by now rewrite repeat_length.
      rewrite !nth_repeat. f_equal. f_equal.
      apply existsb_ext'. intros d. unfold hit. rewrite !existsb_eq_mem.
      rewrite docs_matching_remap by exact Hnew. fold old. f_equal.
      unfold is_deleted. cbn [remap_doc_opstamps m from_new_id_to_old_id new_to_old].
      rewrite (nth_map_lt (fun doc => nth doc opstamps 0) n2o new 0 0%nat) by now rewrite (n2o_length n n2o Hperm).
      reflexivity.
  Qed.
End DeletesUnchanged.

(* ================================================================== k-way merge *)

Lemma sorted_b_tail {A} (le : A -> A -> bool) x l : sorted_b le (x :: l) = true -> sorted_b le l = true.
Proof. destruct l as [|y r]; [reflexivity|]. cbn [sorted_b]. rewrite andb_true_iff. tauto. Qed.

Lemma nth_error_upd_same {A} i (x : A) l y : nth_error l i = Some y -> nth_error (upd i x l) i = Some x.
Proof. revert i; induction l as [|z r IH]; intros [|i] H; cbn in *; try discriminate; auto. Qed.
Lemma nth_error_upd_other {A} i j (x : A) l : i <> j -> nth_error (upd i x l) j = nth_error l j.
Proof. revert i j; induction l as [|z r IH]; intros [|i] [|j] H; cbn; auto; congruence. Qed.

Lemma concat_upd {A} (srcs : list (list A)) i h t :
  nth_error srcs i = Some (h :: t) -> Permutation (concat srcs) (h :: concat (upd i t srcs)).
Proof.
  revert i; induction srcs as [|s r IH]; intros [|i] H; cbn in *; try discriminate.
  - injection H as ->. reflexivity.
  - rewrite (IH _ H). symmetry. apply Permutation_middle.
Qed.

Lemma in_upd {A} (srcs : list (list A)) i t s : In s (upd i t srcs) -> s = t \/ In s srcs.
Proof.
  revert i; induction srcs as [|s0 r IH]; intros [|i] H; cbn in *; try tauto.
  - destruct H; auto.
  - destruct H as [H|H]; auto. destruct (IH _ H); auto.
Qed.

Section KMergeProofs.
  Context {A : Type} (lt : A -> A -> bool).
  (* "a may stand before b": the non-strict order that `lt` is the strict part of *)
  Let le (a b : A) : bool := negb (lt b a).
  Hypothesis le_total : forall a b, le a b = true \/ le b a = true.
  Hypothesis le_trans : forall a b c, le a b = true -> le b c = true -> le a c = true.

  Definition all_sorted (srcs : list (list A)) : Prop := forall s, In s srcs -> sorted_b le s = true.

  Lemma all_sorted_upd srcs i h t : all_sorted srcs -> nth_error srcs i = Some (h :: t) -> all_sorted (upd i t srcs).
  Proof.
    intros HS Hi s Hs. destruct (in_upd _ _ _ _ Hs) as [->|Hin]; [|auto].
    eapply sorted_b_tail. apply HS. eapply nth_error_In; eauto.
  Qed.

  Lemma sorted_head_le x l y : sorted_b le (x :: l) = true -> In y (x :: l) -> le x y = true.
  Proof.
    intros H I. apply (sorted_b_strongly le le_trans) in H. inversion H as [|? ? _ HF]; subst.
    destruct I as [<-|I]; [destruct (le_total x x); assumption|].
    rewrite Forall_forall in HF. auto.
  Qed.

  (* a minimal head is below every element still to be emitted *)
  Lemma minimal_head_le_all srcs h x :
    all_sorted srcs -> head_minimal lt srcs h = true -> In x (concat srcs) -> le h x = true.
  Proof.
    intros HS HM Hx. apply in_concat in Hx. destruct Hx as (s & Hs & Hxs).
    unfold head_minimal in HM. rewrite forallb_forall in HM. specialize (HM s Hs).
    destruct s as [|h' t']; [destruct Hxs|].
    eapply le_trans; [exact HM|]. apply (sorted_head_le h' t' x); [apply HS; exact Hs|exact Hxs].
  Qed.

  Theorem kmerge_run_perm srcs out : kmerge_run lt srcs out -> Permutation out (concat srcs).
  Proof.
    induction 1 as [srcs Hall|srcs i h t out Hi HM Hrun IH].
    - rewrite forallb_forall in Hall.
      assert (E : concat srcs = []); [|now rewrite E].
      induction srcs as [|s r IHs]; [reflexivity|]. cbn.
      assert (s = []) as -> by (specialize (Hall s (or_introl eq_refl)); destruct s; [reflexivity|discriminate]).
      cbn. apply IHs. intros x Hx. apply Hall. now right.
    - rewrite (concat_upd _ _ _ _ Hi). now constructor.
  Qed.

  Theorem kmerge_run_sorted srcs out : all_sorted srcs -> kmerge_run lt srcs out -> sorted_b le out = true.
  Proof.
    intros HS Hrun. induction Hrun as [srcs Hall|srcs i h t out Hi HM Hrun IH]; [reflexivity|].
    specialize (IH (all_sorted_upd _ _ _ _ HS Hi)).
    apply sorted_b_cons. split; [|exact IH].
    destruct out as [|y out']; [exact I|].
    apply (minimal_head_le_all srcs h y HS HM).
    apply (Permutation_in _ (Permutation_sym (concat_upd _ _ _ _ Hi))). right.
    apply (Permutation_in _ (kmerge_run_perm _ _ Hrun)). now left.
  Qed.

  (* every source is consumed front to back: its elements appear in the output in their own order *)
  Theorem kmerge_run_source_order (src_of : A -> nat) srcs out :
    (forall i s x, nth_error srcs i = Some s -> In x s -> src_of x = i) ->
    kmerge_run lt srcs out ->
    forall i, filter (fun x => Nat.eqb (src_of x) i) out = nth i srcs [].
  Proof.
    intros Htag Hrun. induction Hrun as [srcs Hall|srcs i0 h t out Hi HM Hrun IH]; intros i.
    - cbn. rewrite forallb_forall in Hall.
      destruct (nth_in_or_default i srcs []) as [Hin| ->]; [|reflexivity].
      specialize (Hall _ Hin). destruct (nth i srcs []); [reflexivity|discriminate].
    - assert (Htag' : forall j s x, nth_error (upd i0 t srcs) j = Some s -> In x s -> src_of x = j).
      { intros j s x Hj Hx. destruct (Nat.eq_dec i0 j) as [<-|Hne].
        - rewrite (nth_error_upd_same _ _ _ _ Hi) in Hj. injection Hj as <-.
          apply (Htag i0 (h :: t)); [exact Hi|now right].
        - rewrite nth_error_upd_other in Hj by exact Hne. eauto. }
      specialize (IH Htag' i). cbn [filter].
      assert (Hh : src_of h = i0) by (apply (Htag i0 (h :: t)); [exact Hi|now left]).
      rewrite Hh. destruct (Nat.eqb_spec i0 i) as [<-|Hne].
      + rewrite IH. rewrite (nth_error_nth _ _ _ (nth_error_upd_same _ _ _ _ Hi)).
        now rewrite (nth_error_nth _ _ _ Hi).
      + rewrite IH. clear -Hne. revert i0 i Hne. induction srcs as [|s r IHs]; intros [|i0] [|i] Hne; cbn; auto; congruence.
  Qed.

  (* ---- the deterministic instance is such a run *)
  Lemma exists_min (l : list A) : l <> [] -> exists x, In x l /\ forall y, In y l -> le x y = true.
  Proof.
    induction l as [|a r IH]; [congruence|]. intros _.
    destruct r as [|b r'].
    - exists a. split; [now left|]. intros y [<-|[]]. destruct (le_total a a); assumption.
    - destruct (IH ltac:(congruence)) as (x & Hx & Hmin).
      destruct (le_total a x) as [H|H].
      + exists a. split; [now left|]. intros y [<-|Hy]; [destruct (le_total a a); assumption|].
        eapply le_trans; [exact H|auto].
      + exists x. split; [now right|]. intros y [<-|Hy]; auto.
  Qed.

  Definition heads (srcs : list (list A)) : list A := flat_map (fun s => match s with [] => [] | h :: _ => [h] end) srcs.

  Lemma head_minimal_iff srcs h : head_minimal lt srcs h = true <-> forall y, In y (heads srcs) -> le h y = true.
  Proof.
    unfold head_minimal, heads. rewrite forallb_forall. split.
    - intros H y Hy. apply in_flat_map in Hy. destruct Hy as (s & Hs & Hy).
      specialize (H s Hs). destruct s as [|h' t]; [destruct Hy|]. destruct Hy as [<-|[]]. exact H.
    - intros H s Hs. destruct s as [|h' t]; [reflexivity|]. apply H.
      apply in_flat_map. exists (h' :: t). split; [exact Hs|now left].
  Qed.

  Lemma first_minimal_some all k srcs i h t :
    first_minimal lt all k srcs = Some (i, h, t) ->
    exists j, i = (k + j)%nat /\ nth_error srcs j = Some (h :: t) /\ head_minimal lt all h = true.
  Proof.
    revert k; induction srcs as [|s r IH]; intros k H; cbn in H; [discriminate|].
    destruct s as [|h' t'].
    - destruct (IH _ H) as (j & -> & Hj & HM). exists (S j). repeat split; auto; lia.
    - destruct (head_minimal lt all h') eqn:E.
      + injection H; intros; subst. exists 0%nat. repeat split; auto; lia.
      + destruct (IH _ H) as (j & -> & Hj & HM). exists (S j). repeat split; auto; lia.
  Qed.

  Lemma first_minimal_none all k srcs :
    first_minimal lt all k srcs = None -> forall h, In h (heads srcs) -> head_minimal lt all h = false.
  Proof.
    revert k; induction srcs as [|s r IH]; intros k H h Hh; [destruct Hh|].
    cbn in H. unfold heads in Hh. cbn [flat_map] in Hh. destruct s as [|h' t'].
    - apply (IH _ H). exact Hh.
    - destruct (head_minimal lt all h') eqn:E; [discriminate|].
      cbn in Hh. destruct Hh as [<-|Hh]; [exact E|]. apply (IH _ H). exact Hh.
  Qed.

  Lemma heads_nil_all_empty srcs : heads srcs = [] -> forallb (fun s => match s with [] => true | _ => false end) srcs = true.
  Proof.
    induction srcs as [|s r IH]; [reflexivity|]. unfold heads. cbn [flat_map].
    destruct s; cbn; [exact IH|discriminate].
  Qed.

  Lemma kmerge_fuel_run fuel srcs : length (concat srcs) = fuel -> kmerge_run lt srcs (kmerge_fuel lt fuel srcs).
  Proof.
    revert srcs; induction fuel as [|f IH]; intros srcs HL.
    - cbn. apply kr_done. apply heads_nil_all_empty.
      apply length_zero_iff_nil in HL. unfold heads.
      induction srcs as [|s r IHs]; [reflexivity|]. cbn in *. apply app_eq_nil in HL. destruct HL as [-> HL].
      cbn. auto.
    - cbn [kmerge_fuel]. destruct (first_minimal lt srcs 0 srcs) as [[[i h] t]|] eqn:E.
      + destruct (first_minimal_some _ _ _ _ _ _ E) as (j & -> & Hj & HM). cbn [Nat.add].
        eapply kr_step; [exact Hj|exact HM|]. apply IH.
        pose proof (Permutation_length (concat_upd _ _ _ _ Hj)) as PL. cbn in PL. lia.
      + exfalso. destruct (heads srcs) as [|h0 hs] eqn:EH.
        * apply heads_nil_all_empty in EH. rewrite forallb_forall in EH.
          assert (concat srcs = []) as C; [|rewrite C in HL; discriminate].
          clear -EH. induction srcs as [|s r IHs]; [reflexivity|]. cbn.
          assert (s = []) as -> by (specialize (EH s (or_introl eq_refl)); destruct s; [reflexivity|discriminate]).
          cbn. apply IHs. intros x Hx. apply EH. now right.
        * destruct (exists_min (heads srcs) ltac:(rewrite EH; congruence)) as (x & Hx & Hmin).
          pose proof (first_minimal_none _ _ _ E x Hx) as F.
          apply head_minimal_iff in Hmin. congruence.
  Qed.

  Theorem kmerge_is_run srcs : kmerge_run lt srcs (kmerge lt srcs).
  Proof. apply kmerge_fuel_run. reflexivity. Qed.
End KMergeProofs.

(* ================================================================== merges keep the sort order *)

Lemma sorted_b_app {A} (le : A -> A -> bool) l1 l2 :
  sorted_b le l1 = true -> sorted_b le l2 = true ->
  (forall x y, In x l1 -> In y l2 -> le x y = true) -> sorted_b le (l1 ++ l2) = true.
Proof.
  induction l1 as [|a r IH]; intros H1 H2 Hc; [exact H2|].
  cbn [app]. apply sorted_b_cons. split.
  - destruct r as [|b r']; cbn [app].
    + destruct l2 as [|y l2']; [exact I|]. apply Hc; now left.
    + apply sorted_b_cons in H1. tauto.
  - apply IH; [eapply sorted_b_tail; exact H1|exact H2|]. intros x y Hx Hy. apply Hc; [now right|exact Hy].
Qed.

Lemma fold_min_le l x : fold_left N.min l x <= x /\ forall y, In y l -> fold_left N.min l x <= y.
Proof.
  revert x; induction l as [|a r IH]; intros x; cbn [fold_left]; [split; [lia|intros y []]|].
  destruct (IH (N.min x a)) as [H1 H2]. split; [lia|].
  intros y [<-|Hy]; [lia|auto].
Qed.
Lemma fold_max_ge l x : x <= fold_left N.max l x /\ forall y, In y l -> y <= fold_left N.max l x.
Proof.
  revert x; induction l as [|a r IH]; intros x; cbn [fold_left]; [split; [lia|intros y []]|].
  destruct (IH (N.max x a)) as [H1 H2]. split; [lia|].
  intros y [<-|Hy]; [lia|auto].
Qed.

Lemma min_max_bounds r v : In v (all_values r) -> min_value r <= v <= max_value r.
Proof.
  unfold min_value, max_value. destruct (all_values r) as [|x l]; [intros []|].
  destruct (fold_min_le l x) as [A1 A2], (fold_max_ge l x) as [B1 B2].
  intros [<-|Hv]; split; auto.
Qed.
Lemma min_le_max r : min_value r <= max_value r.
Proof.
  unfold min_value, max_value. destruct (all_values r) as [|x l]; [lia|].
  destruct (fold_min_le l x) as [A1 _], (fold_max_ge l x) as [B1 _]. lia.
Qed.

Definition live_keys (r : reader) : list okey := map (col_first r) (doc_ids_alive r).

Lemma col_first_value r d v : col_first r d = Some v -> In v (all_values r).
Proof.
  unfold col_first, all_values. intros H.
  destruct (nth_in_or_default d (r_vals r) []) as [Hin| E].
  - apply in_concat. exists (nth d (r_vals r) []). split; [exact Hin|].
    destruct (nth d (r_vals r) []); [discriminate|]. cbn in H. injection H as <-. now left.
  - rewrite E in H. discriminate.
Qed.

(* outside F171, "no live nulls" as computed by the merger really means: every live document has a value *)
Lemma no_live_nulls_sound r :
  wf_reader r = true -> segment_has_live_nulls r = false -> has_f171 [r] = false ->
  forall k, In k (live_keys r) -> exists v, k = Some v /\ min_value r <= v <= max_value r.
Proof.
  intros Hwf Hn Hf k Hk. unfold live_keys in Hk. apply in_map_iff in Hk. destruct Hk as (d & <- & Hd).
  assert (Hsome : col_first r d <> None -> exists v, col_first r d = Some v /\ min_value r <= v <= max_value r).
  { destruct (col_first r d) as [v|] eqn:E; [|congruence]. intros _. exists v. split; [reflexivity|].
    apply min_max_bounds. eapply col_first_value; eauto. }
  apply Hsome. intros Hnone.
  unfold segment_has_live_nulls, segment_has_live_nulls_gen, scan_live_nulls in Hn.
  unfold has_f171, has_f171_gen, f171_reader_gen in Hf. cbn [existsb] in Hf. rewrite orb_false_r in Hf.
  destruct (cardinality_of (r_vals r)) eqn:Ec.
  - (* Full: every document has exactly one value *)
    unfold cardinality_of in Ec.
    destruct (existsb (fun vs => Nat.ltb 1 (length vs)) (r_vals r)); [discriminate|].
    destruct (existsb (fun vs => Nat.eqb (length vs) 0) (r_vals r)) eqn:E0; [discriminate|].
    unfold doc_ids_alive in Hd. apply filter_In in Hd. destruct Hd as [Hd _]. apply in_seq in Hd.
    unfold col_first in Hnone. unfold r_max_doc in Hd.
    assert (Hin : In (nth d (r_vals r) []) (r_vals r)) by (apply nth_In; lia).
    destruct (nth d (r_vals r) []) as [|v vs] eqn:En; [|discriminate].
    assert (existsb (fun vs => Nat.eqb (length vs) 0) (r_vals r) = true); [|congruence].
    apply existsb_exists. exists []. split; [exact Hin|reflexivity].
  - (* Optional: scanned *)
    destruct (has_deletes r); cbn [negb] in Hn; [|discriminate].
    assert (existsb (fun d => is_none (col_first r d)) (doc_ids_alive r) = true); [|congruence].
    apply existsb_exists. exists d. split; [exact Hd|]. now rewrite Hnone.
  - (* Multivalued: scanned (fixed shape), or the excluded class (pre-fix shape) -- whatever the pin says *)
    assert (Hex : existsb (fun d => is_none (col_first r d)) (doc_ids_alive r) = true).
    { apply existsb_exists. exists d. split; [exact Hd|]. now rewrite Hnone. }
    destruct scans_multivalued; cbn [negb andb] in Hf.
    + destruct (has_deletes r); cbn [negb] in Hn; [congruence|discriminate].
    + congruence.
Qed.

Lemma has_f171_in rs r : has_f171 rs = false -> In r rs -> has_f171 [r] = false.
Proof.
  unfold has_f171, has_f171_gen. intros H Hr. cbn [existsb]. rewrite orb_false_r.
  destruct (f171_reader_gen scans_multivalued r) eqn:E; [|reflexivity].
  assert (existsb (f171_reader_gen scans_multivalued) rs = true); [|congruence].
  apply existsb_exists. exists r. auto.
Qed.

Definition reader_ok (o : order) (r : reader) : Prop := wf_reader r = true /\ reader_sorted o r = true.

(* ---- stacking *)
Lemma stack_sorted_asc rs :
  (forall r, In r rs -> reader_ok Asc r) -> has_f171 rs = false ->
  is_disjunct_and_sorted Asc rs = true ->
  sorted_b (key_le Asc) (flat_map live_keys rs) = true /\
  match rs with [] => True | r :: _ => forall k, In k (flat_map live_keys rs) -> exists v, k = Some v /\ min_value r <= v end.
Proof.
  unfold is_disjunct_and_sorted. cbn [is_asc is_desc negb].
  intros Hok Hf H.
  destruct (windows_all _ rs) eqn:W; cbn [negb] in H; [|discriminate].
  apply negb_true_iff in H.
  assert (Hnl : forall r, In r rs -> segment_has_live_nulls r = false).
  { intros r Hr. destruct (segment_has_live_nulls r) eqn:E; [|reflexivity].
    assert (existsb segment_has_live_nulls rs = true) by (apply existsb_exists; eauto). congruence. }
  clear H. induction rs as [|r rest IH]; [split; [reflexivity|exact I]|].
  assert (Hr := no_live_nulls_sound r (proj1 (Hok r (or_introl eq_refl))) (Hnl r (or_introl eq_refl))
                  (has_f171_in _ _ Hf (or_introl eq_refl))).
  destruct rest as [|r2 rest'].
  - cbn [flat_map]. rewrite app_nil_r. split; [apply (Hok r); now left|].
    intros k Hk. destruct (Hr k Hk) as (v & -> & Hv). exists v. split; [reflexivity|lia].
  - cbn [windows_all] in W. apply andb_true_iff in W. destruct W as [W1 W2]. apply N.leb_le in W1.
    assert (Hf' : has_f171 (r2 :: rest') = false).
    { unfold has_f171, has_f171_gen in *. cbn [existsb] in Hf. apply orb_false_iff in Hf. tauto. }
    destruct (IH (fun x Hx => Hok x (or_intror Hx)) Hf' W2 (fun x Hx => Hnl x (or_intror Hx))) as [IH1 IH2].
    change (flat_map live_keys (r :: r2 :: rest')) with (live_keys r ++ flat_map live_keys (r2 :: rest')).
    split.
    + apply sorted_b_app; [apply (Hok r); now left|exact IH1|].
      intros x y Hx Hy. destruct (Hr x Hx) as (vx & -> & Hvx), (IH2 y Hy) as (vy & -> & Hvy).
      apply key_le_asc_spec. right. exists vx, vy. repeat split. lia.
    + intros k Hk. apply in_app_or in Hk. destruct Hk as [Hk|Hk].
      * destruct (Hr k Hk) as (v & -> & Hv). exists v. split; [reflexivity|lia].
      * destruct (IH2 k Hk) as (v & -> & Hv). exists v. split; [reflexivity|].
        pose proof (min_le_max r). lia.
Qed.

Lemma stack_sorted_desc rs :
  (forall r, In r rs -> reader_ok Desc r) -> has_f171 rs = false ->
  is_disjunct_and_sorted Desc rs = true ->
  sorted_b (key_le Desc) (flat_map live_keys rs) = true /\
  match rs with [] => True | r :: _ => forall k, In k (flat_map live_keys rs) -> exists v, k = Some v /\ v <= max_value r end.
Proof.
  unfold is_disjunct_and_sorted. cbn [is_asc is_desc negb].
  intros Hok Hf H.
  destruct (windows_all _ rs) eqn:W; cbn [negb] in H; [|discriminate].
  apply negb_true_iff in H.
  assert (Hnl : forall r, In r rs -> segment_has_live_nulls r = false).
  { intros r Hr. destruct (segment_has_live_nulls r) eqn:E; [|reflexivity].
    assert (existsb segment_has_live_nulls rs = true) by (apply existsb_exists; eauto). congruence. }
  clear H. induction rs as [|r rest IH]; [split; [reflexivity|exact I]|].
  assert (Hr := no_live_nulls_sound r (proj1 (Hok r (or_introl eq_refl))) (Hnl r (or_introl eq_refl))
                  (has_f171_in _ _ Hf (or_introl eq_refl))).
  destruct rest as [|r2 rest'].
  - cbn [flat_map]. rewrite app_nil_r. split; [apply (Hok r); now left|].
    intros k Hk. destruct (Hr k Hk) as (v & -> & Hv). exists v. split; [reflexivity|lia].
  - cbn [windows_all] in W. apply andb_true_iff in W. destruct W as [W1 W2]. apply N.leb_le in W1.
    assert (Hf' : has_f171 (r2 :: rest') = false).
    { unfold has_f171, has_f171_gen in *. cbn [existsb] in Hf. apply orb_false_iff in Hf. tauto. }
    destruct (IH (fun x Hx => Hok x (or_intror Hx)) Hf' W2 (fun x Hx => Hnl x (or_intror Hx))) as [IH1 IH2].
    change (flat_map live_keys (r :: r2 :: rest')) with (live_keys r ++ flat_map live_keys (r2 :: rest')).
    split.
    + apply sorted_b_app; [apply (Hok r); now left|exact IH1|].
      intros x y Hx Hy. destruct (Hr x Hx) as (vx & -> & Hvx), (IH2 y Hy) as (vy & -> & Hvy).
      apply key_le_desc_spec. right. exists vx, vy. repeat split. lia.
    + intros k Hk. apply in_app_or in Hk. destruct Hk as [Hk|Hk].
      * destruct (Hr k Hk) as (v & -> & Hv). exists v. split; [reflexivity|lia].
      * destruct (IH2 k Hk) as (v & -> & Hv). exists v. split; [reflexivity|].
        pose proof (min_le_max r). lia.
Qed.

(* the stacking shortcut is sound: when the merger decides to concatenate, the concatenation is sorted *)
Lemma stack_sound o rs :
  (forall r, In r rs -> reader_ok o r) -> has_f171 rs = false ->
  is_disjunct_and_sorted o rs = true -> sorted_b (key_le o) (flat_map live_keys rs) = true.
Proof.
  destruct o; intros H1 H2 H3; [apply (stack_sorted_asc rs H1 H2 H3)|apply (stack_sorted_desc rs H1 H2 H3)].
Qed.

(* ---- addresses and keys *)
Lemma in_combine_seq {A} k (l : list A) i x :
  In (i, x) (combine (seq k (length l)) l) -> (k <= i)%nat /\ nth_error l (i - k) = Some x.
Proof.
  revert k; induction l as [|y r IH]; intros k H; [destruct H|].
  cbn [length seq combine] in H. destruct H as [E|H].
  - injection E; intros; subst. split; [lia|]. now rewrite Nat.sub_diag.
  - destruct (IH _ H) as [H1 H2]. split; [lia|].
    replace (i - k)%nat with (S (i - S k)) by lia. exact H2.
Qed.

Lemma in_enumerate {A} (l : list A) i x : In (i, x) (enumerate l) -> nth_error l i = Some x.
Proof. intros H. destruct (in_combine_seq 0 l i x H) as [_ E]. now rewrite Nat.sub_0_r in E. Qed.

Lemma stack_mapping_keys_from pre l :
  map (addr_key (pre ++ l))
      (flat_map (fun e => map (fun d => (fst e, d)) (doc_ids_alive (snd e))) (combine (seq (length pre) (length l)) l))
  = flat_map live_keys l.
Proof.
  revert pre; induction l as [|r l' IH]; intros pre; [reflexivity|].
  cbn [length seq combine flat_map fst snd]. rewrite map_app. f_equal.
  - unfold live_keys. rewrite map_map. apply map_ext. intros d. unfold addr_key. cbn [fst snd].
    rewrite nth_error_app2 by lia. now rewrite Nat.sub_diag.
  - specialize (IH (pre ++ [r])). rewrite <- app_assoc in IH. cbn [app] in IH.
    rewrite app_length in IH. cbn [length] in IH. rewrite Nat.add_1_r in IH. exact IH.
Qed.

Lemma stack_mapping_keys rs : map (addr_key rs) (stack_mapping rs) = flat_map live_keys rs.
Proof. exact (stack_mapping_keys_from [] rs). Qed.

Lemma sources_elem rs e : In e (concat (sources rs)) -> addr_key rs (snd e) = fst e.
Proof.
  intros H. apply in_concat in H. destruct H as (s & Hs & He).
  unfold sources in Hs. apply in_map_iff in Hs. destruct Hs as ([i r] & <- & Hir).
  unfold source_of in He. cbn [fst snd] in He. apply in_map_iff in He. destruct He as (d & <- & _).
  cbn [fst snd]. unfold addr_key. cbn [fst snd]. now rewrite (in_enumerate _ _ _ Hir).
Qed.

Lemma sorted_b_map {A B} (le : B -> B -> bool) (f : A -> B) l :
  sorted_b (fun a b => le (f a) (f b)) l = sorted_b le (map f l).
Proof.
  induction l as [|a r IH]; [reflexivity|]. destruct r as [|b r']; [reflexivity|].
  cbn [map sorted_b] in *. now rewrite IH.
Qed.
Lemma sorted_b_ext {A} (le le' : A -> A -> bool) l : (forall a b, le a b = le' a b) -> sorted_b le l = sorted_b le' l.
Proof.
  intros H. induction l as [|a r IH]; [reflexivity|]. destruct r as [|b r']; [reflexivity|].
  cbn [sorted_b] in *. now rewrite IH, H.
Qed.

Definition melem_le (o : order) (a b : melem) : bool := negb (melem_lt o b a).
Lemma melem_le_key o a b : melem_le o a b = key_le o (fst a) (fst b).
Proof. unfold melem_le, melem_lt. now rewrite key_le_lt. Qed.
Lemma melem_le_total o a b : melem_le o a b = true \/ melem_le o b a = true.
Proof. rewrite !melem_le_key. apply key_le_total. Qed.
Lemma melem_le_trans o a b c : melem_le o a b = true -> melem_le o b c = true -> melem_le o a c = true.
Proof. rewrite !melem_le_key. apply key_le_trans. Qed.

Lemma sources_sorted o rs : (forall r, In r rs -> reader_ok o r) ->
  forall s, In s (sources rs) -> sorted_b (fun a b => negb (melem_lt o b a)) s = true.
Proof.
  intros Hok s Hs. unfold sources in Hs. apply in_map_iff in Hs. destruct Hs as ([i r] & <- & Hir).
  rewrite (sorted_b_ext (fun a b => negb (melem_lt o b a)) (fun a b => key_le o (fst a) (fst b)) (source_of (i, r)))
    by (intros a b; apply melem_le_key).
  rewrite (sorted_b_map (key_le o) (@fst okey doc_addr)). unfold source_of. cbn [fst snd]. rewrite map_map. cbn [fst].
  apply (Hok r). eapply nth_error_In. apply (in_enumerate _ _ _ Hir).
Qed.

Lemma kmerge_mapping_keys o rs :
  map (addr_key rs) (kmerge_mapping o rs) = map fst (kmerge (melem_lt o) (sources rs)).
Proof.
  unfold kmerge_mapping. rewrite map_map. apply map_ext_in. intros e He. apply sources_elem.
  apply (Permutation_in _ (kmerge_run_perm _ _ _ (kmerge_is_run (melem_lt o) (melem_le_total o) (melem_le_trans o) (sources rs)))).
  exact He.
Qed.

Lemma kmerge_mapping_sorted o rs : (forall r, In r rs -> reader_ok o r) ->
  sorted_b (key_le o) (map (addr_key rs) (kmerge_mapping o rs)) = true.
Proof.
  intros Hok. rewrite kmerge_mapping_keys. rewrite <- (sorted_b_map (key_le o) (@fst okey doc_addr)).
  rewrite <- (sorted_b_ext (fun a b => negb (melem_lt o b a)) (fun a b => key_le o (fst a) (fst b)))
    by (intros a b; apply melem_le_key).
  apply (kmerge_run_sorted (melem_lt o) (melem_le_total o) (melem_le_trans o) (sources rs)).
  - exact (sources_sorted o rs Hok).
  - apply (kmerge_is_run (melem_lt o) (melem_le_total o) (melem_le_trans o)).
Qed.

(* the k-way merge lists exactly the live documents of the sources, each source in its own order *)
Lemma sources_concat rs : map snd (concat (sources rs)) = stack_mapping rs.
Proof.
  unfold sources, stack_mapping. induction (enumerate rs) as [|e l IH]; [reflexivity|].
  rewrite map_cons, concat_cons, map_app. cbn [flat_map]. f_equal; [|exact IH]. unfold source_of. now rewrite map_map.
Qed.

Lemma kmerge_mapping_perm o rs : Permutation (kmerge_mapping o rs) (stack_mapping rs).
Proof.
  unfold kmerge_mapping. rewrite <- sources_concat. apply Permutation_map.
  apply (kmerge_run_perm _ _ _ (kmerge_is_run (melem_lt o) (melem_le_total o) (melem_le_trans o) (sources rs))).
Qed.

Lemma nth_error_combine_seq {A} k (l : list A) j :
  nth_error (combine (seq k (length l)) l) j = option_map (fun x => ((k + j)%nat, x)) (nth_error l j).
Proof.
  revert k j; induction l as [|x r IH]; intros k [|j]; cbn [length seq combine nth_error option_map]; try reflexivity.
  - now rewrite Nat.add_0_r.
  - rewrite IH. destruct (nth_error r j); cbn; [|reflexivity]. do 2 f_equal. lia.
Qed.

Lemma kmerge_mapping_source_order o rs i :
  filter (fun a => Nat.eqb (fst a) i) (kmerge_mapping o rs) =
  match nth_error rs i with Some r => map (fun d => (i, d)) (doc_ids_alive r) | None => [] end.
Proof.
  unfold kmerge_mapping.
  assert (Htag : forall j s x, nth_error (sources rs) j = Some s -> In x s -> fst (snd x) = j).
  { intros j s x Hj Hx. unfold sources, enumerate in Hj. rewrite nth_error_map, nth_error_combine_seq in Hj.
    destruct (nth_error rs j) as [r|]; [|discriminate]. cbn in Hj. injection Hj as <-.
    unfold source_of in Hx. apply in_map_iff in Hx. destruct Hx as (d & <- & _). reflexivity. }
  pose proof (kmerge_run_source_order (melem_lt o) (fun e : melem => fst (snd e)) (sources rs)
                (kmerge (melem_lt o) (sources rs)) Htag
                (kmerge_is_run (melem_lt o) (melem_le_total o) (melem_le_trans o) (sources rs)) i) as H.
  transitivity (map snd (filter (fun x : melem => Nat.eqb (fst (snd x)) i) (kmerge (melem_lt o) (sources rs)))).
  - generalize (kmerge (melem_lt o) (sources rs)). intros l. induction l as [|e l IH]; [reflexivity|].
    cbn [map filter]. destruct (Nat.eqb (fst (snd e)) i); cbn [map]; now rewrite IH.
  - rewrite H. unfold sources, enumerate.
    destruct (nth_error rs i) as [r|] eqn:E.
    + erewrite nth_error_nth; [|rewrite nth_error_map, nth_error_combine_seq, E; reflexivity].
      unfold source_of. cbn [fst snd]. now rewrite map_map.
    + rewrite nth_overflow; [reflexivity|]. rewrite map_length, combine_length, seq_length, Nat.min_id.
      now apply nth_error_None.
Qed.

(* ---- the merge as a whole *)
Lemma existsb_perm {A} (f : A -> bool) l l' : Permutation l l' -> existsb f l = existsb f l'.
Proof.
  induction 1 as [|x l l' P IH|x y l|l l' l'' P1 IH1 P2 IH2]; cbn; try congruence.
  - destruct (f x), (f y); reflexivity.
Qed.

Lemma min_leb_total (f : reader -> N) a b : N.leb (f a) (f b) = true \/ N.leb (f b) (f a) = true.
Proof. destruct (N.leb_spec (f a) (f b)); [now left|right]. apply N.leb_le. lia. Qed.

Lemma merge_readers_perm o ordinals readers : Permutation (merge_readers o ordinals readers) readers.
Proof.
  unfold merge_readers, sort_readers_by_min. destruct ordinals; [reflexivity|].
  destruct o; apply sort_by_perm.
Qed.

Theorem merge_sorted o ordinals readers :
  (forall r, In r readers -> reader_ok o r) -> has_f171 readers = false ->
  sorted_keys o (merged_keys o ordinals readers) = true.
Proof.
  intros Hok Hf. unfold sorted_keys, merged_keys, merge_mapping.
  set (rs := merge_readers o ordinals readers).
  assert (P : Permutation rs readers) by apply merge_readers_perm.
  assert (Hok' : forall r, In r rs -> reader_ok o r) by (intros r Hr; apply Hok; eapply Permutation_in; eauto).
  assert (Hf' : has_f171 rs = false) by (unfold has_f171, has_f171_gen in *; now rewrite (existsb_perm _ _ _ P)).
  destruct (negb ordinals && is_disjunct_and_sorted o rs) eqn:E.
  - apply andb_true_iff in E. destruct E as [_ E].
    rewrite stack_mapping_keys. now apply stack_sound.
  - now apply kmerge_mapping_sorted.
Qed.

(* the merged segment holds exactly the live documents of the sources, whichever branch is taken *)
Theorem merge_mapping_perm o ordinals readers :
  Permutation (merge_mapping o ordinals readers) (stack_mapping (merge_readers o ordinals readers)).
Proof.
  unfold merge_mapping. destruct (negb ordinals && _); [reflexivity|apply kmerge_mapping_perm].
Qed.

(* F171 (pre-fix shape `!= Cardinality::Optional`): a Multivalued source with a live value-less document is
   declared null-free, the value windows are disjoint, so the merge stacks -- and the stacked order is not sorted *)
Definition f171_readers : list reader :=
  [ {| r_id := 0; r_vals := [[5]]; r_alive := [true] |};
    {| r_id := 1; r_vals := [[]; [10; 11]]; r_alive := [true; true] |} ].
Lemma f171_witness :
  has_f171_gen false f171_readers = true /\
  forallb (fun r => wf_reader r && reader_sorted Asc r) f171_readers = true /\
  windows_all (fun c1 c2 => N.leb (max_value c1) (min_value c2)) f171_readers = true /\
  existsb (segment_has_live_nulls_gen false) f171_readers = false /\
  map (addr_key f171_readers) (stack_mapping f171_readers) = [Some 5; None; Some 10] /\
  sorted_keys Asc (map (addr_key f171_readers) (stack_mapping f171_readers)) = false.
Proof. vm_compute. repeat split; reflexivity. Qed.

(* with the shape that scans Multivalued columns the class is empty and the same sources are k-way merged *)
Lemma f171_fixed_shape : has_f171_gen true f171_readers = false /\ existsb (segment_has_live_nulls_gen true) f171_readers = true.
Proof. vm_compute. split; reflexivity. Qed.

(* ================================================================== order preserving maps to u64 *)

Section MonotoneMaps.
  Variable k : N.
  Let hb := 2 ^ k.

  Lemma land_below_pow2 x : x < hb -> N.land x hb = 0.
  Proof.
    intros H. apply N.bits_inj_0. intros i. rewrite N.land_spec. unfold hb. rewrite N.pow2_bits_eqb.
    destruct (N.eqb_spec k i) as [<-|_]; [|apply andb_false_r].
    rewrite andb_true_r. destruct (N.eq_dec x 0) as [->|Hx]; [apply N.bits_0|].
    apply N.bits_above_log2. apply N.log2_lt_pow2; [lia|exact H].
  Qed.

  Lemma lxor_hb_low x : x < hb -> N.lxor x hb = x + hb.
  Proof. intros H. symmetry. apply N.add_nocarry_lxor. now apply land_below_pow2. Qed.

  Lemma lxor_hb_high x : hb <= x -> x < 2 * hb -> N.lxor x hb = x - hb.
  Proof.
    intros H1 H2. replace x with ((x - hb) + hb) at 1 by lia.
    rewrite <- (lxor_hb_low (x - hb)) by lia.
    now rewrite N.lxor_assoc, N.lxor_nilpotent, N.lxor_0_r.
  Qed.

  Lemma lxor_ones x : x < 2 * hb -> N.lxor x (2 * hb - 1) = 2 * hb - 1 - x.
  Proof.
    intros H. assert (E : 2 * hb - 1 = N.ones (N.succ k)).
    { rewrite N.ones_equiv, N.pow_succ_r'. fold hb. lia. }
    rewrite E. change (N.lxor x (N.ones (N.succ k))) with (N.lnot x (N.succ k)).
    destruct (N.eq_dec x 0) as [->|Hx].
    - rewrite N.lnot_0_l. lia.
    - apply N.lnot_sub_low. apply N.log2_lt_pow2; [lia|]. rewrite N.pow_succ_r'. fold hb. exact H.
  Qed.

  (* i64 (two's complement pattern) and its image *)
  Definition i64_val_k (raw : N) : Z := if N.ltb raw hb then Z.of_N raw else (Z.of_N raw - 2 * Z.of_N hb)%Z.
  Lemma i64_map_monotone a b : a < 2 * hb -> b < 2 * hb ->
    Z.compare (i64_val_k a) (i64_val_k b) = N.compare (N.lxor a hb) (N.lxor b hb).
  Proof.
    intros Ha Hb. unfold i64_val_k.
    assert (Hp : 0 < hb) by (unfold hb; apply N.neq_0_lt_0, N.pow_nonzero; lia).
    destruct (N.ltb_spec a hb) as [La|La], (N.ltb_spec b hb) as [Lb|Lb];
      rewrite ?(lxor_hb_low a), ?(lxor_hb_low b), ?(lxor_hb_high a), ?(lxor_hb_high b) by lia;
      rewrite <- N2Z.inj_compare; rewrite ?N2Z.inj_add, ?N2Z.inj_sub by lia;
      match goal with |- (?A ?= ?B)%Z = (?C ?= ?D)%Z =>
        destruct (Z.compare_spec A B); destruct (Z.compare_spec C D); try reflexivity; lia end.
  Qed.

  (* f64 bits: sign-magnitude order (NaNs aside this is the order of the doubles), -0.0 excluded *)
  Definition f64_ord_k (bits : N) : Z := if N.ltb bits hb then Z.of_N bits else (- Z.of_N (bits - hb))%Z.
  Definition f64_to_u64_k (bits : N) : N := if N.ltb bits hb then N.lxor bits hb else N.lxor bits (2 * hb - 1).
  Lemma f64_map_monotone a b : a < 2 * hb -> b < 2 * hb -> a <> hb -> b <> hb ->
    Z.compare (f64_ord_k a) (f64_ord_k b) = N.compare (f64_to_u64_k a) (f64_to_u64_k b).
  Proof.
    intros Ha Hb Na Nb. unfold f64_ord_k, f64_to_u64_k.
    assert (Hp : 0 < hb) by (unfold hb; apply N.neq_0_lt_0, N.pow_nonzero; lia).
    destruct (N.ltb_spec a hb) as [La|La], (N.ltb_spec b hb) as [Lb|Lb];
      rewrite ?(lxor_hb_low a), ?(lxor_hb_low b), ?(lxor_ones a), ?(lxor_ones b) by lia;
      rewrite <- N2Z.inj_compare; rewrite ?N2Z.inj_add, ?N2Z.inj_sub by lia;
      match goal with |- (?A ?= ?B)%Z = (?C ?= ?D)%Z =>
        destruct (Z.compare_spec A B); destruct (Z.compare_spec C D); try reflexivity; lia end.
  Qed.
End MonotoneMaps.

Lemma highest_bit_is_pow2 : SORT_HIGHEST_BIT = 2 ^ 63.
Proof. vm_compute. reflexivity. Qed.

Lemma i64_to_u64_monotone a b : a < 2 ^ 64 -> b < 2 ^ 64 ->
  Z.compare (i64_val a) (i64_val b) = N.compare (i64_to_u64 a) (i64_to_u64 b).
Proof.
  intros Ha Hb. unfold i64_val, i64_to_u64. rewrite highest_bit_is_pow2.
  apply (i64_map_monotone 63); [exact Ha|exact Hb].
Qed.

Lemma f64_to_u64_monotone a b : a < 2 ^ 64 -> b < 2 ^ 64 -> a <> SORT_HIGHEST_BIT -> b <> SORT_HIGHEST_BIT ->
  Z.compare (f64_ord a) (f64_ord b) = N.compare (f64_to_u64 a) (f64_to_u64 b).
Proof.
  intros Ha Hb Na Nb. unfold f64_ord, f64_to_u64, U64_ONES. rewrite highest_bit_is_pow2 in *.
  apply (f64_map_monotone 63); assumption.
Qed.

(* sortedness on the field's own values = sortedness of the u64 keys the code compares *)
Lemma sorted_opt_transfer {K} (cmp : K -> K -> comparison) (f : K -> N) (P : K -> Prop) o l :
  (forall a b, P a -> P b -> cmp a b = N.compare (f a) (f b)) ->
  Forall (fun k => match k with Some x => P x | None => True end) l ->
  sorted_opt cmp o l = sorted_keys o (map (option_map f) l).
Proof.
  intros Hc HF. unfold sorted_opt, sorted_keys.
  induction l as [|a r IH]; [reflexivity|]. inversion HF as [|? ? Ha Hr]; subst.
  destruct r as [|b r']; [reflexivity|]. inversion Hr as [|? ? Hb _]; subst.
  cbn [map sorted_b] in *. rewrite IH by exact Hr. f_equal.
  unfold key_le, sort_cmp.
  assert (E : ocmp cmp a b = okey_cmp (option_map f a) (option_map f b)).
  { destruct a, b; cbn; try reflexivity. now apply Hc. }
  now rewrite E.
Qed.

Definition raw_ok (t : key_type) (l : list N) : Prop :=
  hd 0 l < 2 ^ 64 /\ match t with KF64 => hd 0 l <> SORT_HIGHEST_BIT | _ => True end.

Lemma typed_cmp_to_u64 t a b : raw_ok t a -> raw_ok t b ->
  typed_cmp (SNum t) a b = N.compare (to_u64 t (hd 0 a)) (to_u64 t (hd 0 b)).
Proof.
  intros [Ha Ha'] [Hb Hb']. destruct t; cbn [typed_cmp to_u64].
  - reflexivity.
  - now apply i64_to_u64_monotone.
  - now apply f64_to_u64_monotone.
  - now apply i64_to_u64_monotone.
Qed.

Lemma spec_sorted_numeric t o keys :
  Forall (fun k => match k with Some l => raw_ok t l | None => True end) keys ->
  spec_sorted (SNum t) o keys = sorted_keys o (map (option_map (fun l => to_u64 t (hd 0 l))) keys).
Proof. intros H. unfold spec_sorted. apply (sorted_opt_transfer _ _ (raw_ok t)); [apply typed_cmp_to_u64|exact H]. Qed.

(* ================================================================== dictionary ordinals (Str / Bytes) *)

Lemma bytes_cmp_eq a b : bytes_cmp a b = Eq <-> a = b.
Proof.
  revert b; induction a as [|x a IH]; intros [|y b]; cbn; try (split; congruence).
  destruct (N.compare_spec x y) as [->|H|H]; [|split; [discriminate|intros E; injection E; lia]..].
  rewrite IH. split; [congruence|intros E; injection E; auto].
Qed.

Lemma bytes_cmp_opp a b : bytes_cmp b a = CompOpp (bytes_cmp a b).
Proof.
  revert b; induction a as [|x a IH]; intros [|y b]; cbn; try reflexivity.
  rewrite (N.compare_antisym x y). destruct (N.compare x y); cbn; auto.
Qed.

Lemma bytes_cmp_lt_trans a b c : bytes_cmp a b = Lt -> bytes_cmp b c = Lt -> bytes_cmp a c = Lt.
Proof.
  revert b c; induction a as [|x a IH]; intros [|y b] [|z c]; cbn; try congruence.
  destruct (N.compare_spec x y) as [->|H1|H1]; try discriminate.
  - destruct (N.compare_spec y z) as [->|H2|H2]; try discriminate; [apply IH|auto].
  - intros _. destruct (N.compare_spec y z) as [->|H2|H2]; try discriminate; intros _.
    + destruct (N.compare_spec x z); [lia|reflexivity|lia].
    + destruct (N.compare_spec x z); [lia|reflexivity|lia].
Qed.

Lemma bytes_eqb_eq a b : bytes_eqb a b = true <-> a = b.
Proof. unfold bytes_eqb. rewrite <- bytes_cmp_eq. destruct (bytes_cmp a b); split; congruence. Qed.

Lemma dedup_bytes_in l x : In x (dedup_bytes l) <-> In x l.
Proof.
  induction l as [|y r IH]; [tauto|]. cbn [dedup_bytes].
  destruct (existsb (bytes_eqb y) r) eqn:E.
  - rewrite IH. split; [now right|]. intros [<-|H]; [|exact H].
    apply existsb_exists in E. destruct E as (z & Hz & Ez). apply bytes_eqb_eq in Ez. now subst.
  - cbn. now rewrite IH.
Qed.

Lemma dedup_bytes_nodup l : NoDup (dedup_bytes l).
Proof.
  induction l as [|y r IH]; [constructor|]. cbn [dedup_bytes].
  destruct (existsb (bytes_eqb y) r) eqn:E; [exact IH|].
  constructor; [|exact IH]. rewrite dedup_bytes_in. intros C.
  assert (existsb (bytes_eqb y) r = true); [|congruence].
  apply existsb_exists. exists y. split; [exact C|now apply bytes_eqb_eq].
Qed.

Lemma filter_length_le {A} (p q : A -> bool) l : (forall x, In x l -> p x = true -> q x = true) ->
  (length (filter p l) <= length (filter q l))%nat.
Proof.
  induction l as [|x r IH]; intros H; [reflexivity|]. cbn [filter].
  assert (IH' := IH (fun y Hy => H y (or_intror Hy))).
  destruct (p x) eqn:Px.
  - rewrite (H x (or_introl eq_refl) Px). cbn. lia.
  - destruct (q x); cbn; lia.
Qed.

Lemma filter_length_lt {A} (p q : A -> bool) l w : (forall x, In x l -> p x = true -> q x = true) ->
  In w l -> p w = false -> q w = true -> (length (filter p l) < length (filter q l))%nat.
Proof.
  induction l as [|x r IH]; intros H Hw Pw Qw; [destruct Hw|]. cbn [filter].
  destruct Hw as [->|Hw].
  - rewrite Pw, Qw. cbn. pose proof (filter_length_le p q r (fun y Hy => H y (or_intror Hy))). lia.
  - assert (IH' := IH (fun y Hy => H y (or_intror Hy)) Hw Pw Qw).
    destruct (p x) eqn:Px.
    + rewrite (H x (or_introl eq_refl) Px). cbn. lia.
    + destruct (q x); cbn; lia.
Qed.

Definition lt_b (t u : bytes) : bool := match bytes_cmp u t with Lt => true | _ => false end.

(* the ordinal of a term is its rank: ranks order the terms of the dictionary exactly like the bytes *)
Lemma term_ord_monotone terms a b : In a terms -> In b terms ->
  N.compare (term_ord terms a) (term_ord terms b) = bytes_cmp a b.
Proof.
  intros Ha Hb. unfold term_ord.
  change (fun u => match bytes_cmp u a with Lt => true | _ => false end) with (lt_b a).
  change (fun u => match bytes_cmp u b with Lt => true | _ => false end) with (lt_b b).
  rewrite <- Nat2N.inj_compare.
  destruct (bytes_cmp a b) eqn:E.
  - apply bytes_cmp_eq in E. subst. apply Nat.compare_refl.
  - apply Nat.compare_lt_iff. apply (filter_length_lt (lt_b a) (lt_b b) _ a).
    + intros u _ Hu. unfold lt_b in *. destruct (bytes_cmp u a) eqn:Eu; try discriminate.
      now rewrite (bytes_cmp_lt_trans _ _ _ Eu E).
    + now apply dedup_bytes_in.
    + unfold lt_b. assert (bytes_cmp a a = Eq) by now apply bytes_cmp_eq. now rewrite H.
    + unfold lt_b. now rewrite E.
  - apply Nat.compare_gt_iff. assert (E' : bytes_cmp b a = Lt) by (rewrite bytes_cmp_opp, E; reflexivity).
    apply (filter_length_lt (lt_b b) (lt_b a) _ b).
    + intros u _ Hu. unfold lt_b in *. destruct (bytes_cmp u b) eqn:Eu; try discriminate.
      now rewrite (bytes_cmp_lt_trans _ _ _ Eu E').
    + now apply dedup_bytes_in.
    + unfold lt_b. assert (bytes_cmp b b = Eq) by now apply bytes_cmp_eq. now rewrite H.
    + unfold lt_b. now rewrite E'.
Qed.

Lemma spec_sorted_bytes terms o keys :
  Forall (fun k => match k with Some t => In t terms | None => True end) keys ->
  spec_sorted SBytes o keys = sorted_keys o (map (option_map (term_ord terms)) keys).
Proof.
  intros H. unfold spec_sorted. apply (sorted_opt_transfer _ _ (fun t => In t terms)); [|exact H].
  intros a b Ha Hb. cbn [typed_cmp]. symmetry. now apply term_ord_monotone.
Qed.

(* ================================================================== the contract of a stable sort determines its result *)
Section StableUnique.
  Context {A : Type} (le : A -> A -> bool).
  Hypothesis le_total : forall a b, le a b = true \/ le b a = true.
  Hypothesis le_trans : forall a b c, le a b = true -> le b c = true -> le a c = true.

  Lemma sorted_head_le' x l y : sorted_b le (x :: l) = true -> In y (x :: l) -> le x y = true.
  Proof.
    intros H I. apply (sorted_b_strongly le le_trans) in H. inversion H as [|? ? _ HF]; subst.
    destruct I as [<-|I]; [destruct (le_total x x); assumption|].
    rewrite Forall_forall in HF. auto.
  Qed.

  Lemma sorted_stable_unique (a b : list A) :
    sorted_b le a = true -> sorted_b le b = true -> Permutation a b ->
    (forall k, filter (equiv le k) a = filter (equiv le k) b) -> a = b.
  Proof.
    revert b; induction a as [|x a' IH]; intros b Sa Sb P F.
    - apply Permutation_nil in P. now subst.
    - destruct b as [|y b']; [apply Permutation_sym, Permutation_nil in P; discriminate|].
      assert (Hxx : equiv le x x = true) by (unfold equiv; destruct (le_total x x) as [H|H]; now rewrite H).
      assert (Hxy : le x y = true).
      { apply (sorted_head_le' x a' y Sa). apply (Permutation_in _ (Permutation_sym P)). now left. }
      assert (Hyx : le y x = true).
      { apply (sorted_head_le' y b' x Sb). apply (Permutation_in _ P). now left. }
      assert (E : x = y).
      { specialize (F x). cbn [filter] in F. rewrite Hxx in F.
        unfold equiv at 2 in F. rewrite Hxy, Hyx in F. cbn in F. now injection F. }
      subst y. f_equal. apply IH.
      + eapply sorted_b_tail; exact Sa.
      + eapply sorted_b_tail; exact Sb.
      + eapply Permutation_cons_inv; exact P.
      + intros k. specialize (F k). cbn [filter] in F. destruct (equiv le k x); [now injection F|exact F].
  Qed.

  (* any list that is a sorted permutation of l and keeps equal elements in their order IS sort_by le l:
     std's stable sort_by, whatever its algorithm, returns what the model's insertion sort returns *)
  Theorem stable_sort_unique l l' :
    Permutation l' l -> sorted_b le l' = true ->
    (forall k, filter (equiv le k) l' = filter (equiv le k) l) -> l' = sort_by le l.
  Proof.
    intros P S F. apply sorted_stable_unique; [exact S|now apply sort_by_sorted| |].
    - rewrite P. symmetry. apply sort_by_perm.
    - intros k. rewrite F. symmetry. now apply sort_by_stable.
  Qed.
End StableUnique.

(* ================================================================== the writers' own encodings *)

(* field norms: a document that lacks the field (no byte in the buffer: it was added after the last holder) gets
   norm 0, every other document the byte recorded for it -- at its new doc id *)
Lemma serialize_fieldnorms_spec n n2o f new :
  is_perm n n2o -> (length f <= n)%nat -> (new < n)%nat ->
  nth new (serialize_fieldnorms (Some (from_new_id_to_old_id n2o)) n f) 0 = nth (nth new n2o 0%nat) f 0.
Proof.
  intros P L H. unfold serialize_fieldnorms. rewrite (remap_nth n n2o P) by exact H.
  unfold fill_up_to_max_doc. set (old := nth new n2o 0%nat).
  destruct (Nat.lt_ge_cases old (length f)) as [Hlt|Hge].
  - now rewrite app_nth1.
  - rewrite app_nth2 by exact Hge. rewrite nth_repeat. now rewrite (nth_overflow f) by exact Hge.
Qed.

Lemma serialize_fieldnorms_length n n2o f : is_perm n n2o -> length (serialize_fieldnorms (Some (from_new_id_to_old_id n2o)) n f) = n.
Proof. intros P. unfold serialize_fieldnorms. apply (remap_length n n2o P). Qed.

(* term-frequency recorder: decoding the deltas gives back the old doc ids ... *)
Lemma delta_roundtrip prev docs :
  strictly_increasing_b docs = true -> Forall (fun d => (prev <= d)%nat) docs ->
  delta_decode prev (delta_encode prev docs) = docs.
Proof.
  revert prev; induction docs as [|d r IH]; intros prev Hinc Hge; [reflexivity|].
  cbn [delta_encode delta_decode]. inversion Hge as [|? ? Hd _]; subst.
  replace (prev + (d - prev))%nat with d by lia. f_equal.
  destruct (strictly_increasing_cons _ _ Hinc) as [Hinc' Hgt].
  apply IH; [exact Hinc'|]. eapply Forall_impl; [|exact Hgt]. cbn. intros; lia.
Qed.

(* ... so serializing the recorder under a mapping is the remap of the posting list *)
Lemma serialize_tf_recorder_spec {P} m (pl : plist P) :
  strictly_increasing_b (map fst pl) = true ->
  serialize_tf_recorder m (delta_encode 0 (map fst pl)) (map snd pl) = remap_plist m pl.
Proof.
  intros Hinc. unfold serialize_tf_recorder, remap_plist.
  rewrite delta_roundtrip; [|exact Hinc|apply Forall_forall; intros; lia].
  f_equal. clear Hinc. induction pl as [|[d p] r IH]; [reflexivity|]. cbn [map combine fst snd]. now rewrite IH.
Qed.

(* the seeded confusion (the previous NEW id used as base of the next delta) is a different function *)
Fixpoint delta_decode_remapping (g : nat -> nat) (prev : nat) (deltas : list nat) : list nat :=
  match deltas with [] => [] | x :: r => g (prev + x)%nat :: delta_decode_remapping g (g (prev + x)%nat) r end.
Lemma remapped_base_differs :
  let m := from_new_id_to_old_id [3; 0; 1; 2]%nat in
  map (get_new_doc_id m) (delta_decode 0 (delta_encode 0 [0; 1]%nat)) = [1; 2]%nat /\
  delta_decode_remapping (get_new_doc_id m) 0 (delta_encode 0 [0; 1]%nat) = [1; 3]%nat.
Proof. vm_compute. split; reflexivity. Qed.
