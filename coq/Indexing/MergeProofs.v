(* Indexing/MergeProofs.v -- proofs about the merge mechanism of Merge.v (C04), stacked mappings. *)
From Coq Require Import Sorted FinFun.
From TV Require Import Base.Prelude Generated.Constants Indexing.Merge.
Local Open Scope nat_scope.

(* ------------------------------------------------------------------ list helpers *)
Lemma length_upd {A} i (x : A) l : length (upd i x l) = length l.
Proof. revert i; induction l as [|y l IH]; intros [|i]; cbn [upd length]; auto. Qed.

Lemma nth_upd {A} i j (x d : A) l :
  nth j (upd i x l) d = if (i =? j) && (i <? length l) then x else nth j l d.
Proof.
  revert i j; induction l as [|y l IH]; intros i j.
  - cbn [upd length]. destruct (i =? j); destruct j; reflexivity.
  - destruct i as [|i], j as [|j]; cbn [upd nth length]; try reflexivity.
    rewrite IH. change (S i =? S j) with (i =? j). change (S i <? S (length l)) with (i <? length l). reflexivity.
Qed.

Lemma nth_upd_same {A} i (x d : A) l : i < length l -> nth i (upd i x l) d = x.
Proof. intros H. rewrite nth_upd, Nat.eqb_refl. apply Nat.ltb_lt in H. now rewrite H. Qed.
Lemma nth_upd_other {A} i j (x d : A) l : i <> j -> nth j (upd i x l) d = nth j l d.
Proof. intros H. rewrite nth_upd. apply Nat.eqb_neq in H. now rewrite H. Qed.

Lemma concat_map_filter {A B} (p : A -> bool) (h : A -> list B) l :
  (forall x, In x l -> p x = false -> h x = []) ->
  concat (map h (filter p l)) = concat (map h l).
Proof.
  induction l as [|x l IH]; intros H; [reflexivity|].
  cbn [filter map concat]. destruct (p x) eqn:E.
  - cbn [map concat]. rewrite IH; [reflexivity|]. intros y Hy; apply H; now right.
  - rewrite (H x (or_introl eq_refl) E). cbn [app]. apply IH. intros y Hy; apply H; now right.
Qed.

(* ------------------------------------------------------------------ alive ids, rank *)
Lemma is_alive_nil d : is_alive [] d = false.
Proof. unfold is_alive. destruct d; reflexivity. Qed.

Lemma num_alive_le al : num_alive al <= length al.
Proof. induction al as [|[|] al IH]; cbn [num_alive length]; lia. Qed.

Lemma length_alive_ids_from k al : length (alive_ids_from k al) = num_alive al.
Proof. revert k; induction al as [|[|] al IH]; intros k; cbn [alive_ids_from num_alive length]; auto. Qed.

Lemma alive_ids_from_In k al d : In d (alive_ids_from k al) <-> k <= d /\ is_alive al (d - k) = true.
Proof.
  revert k; induction al as [|b al IH]; intros k; cbn [alive_ids_from].
  - rewrite is_alive_nil. split; [intros []|intros [_ H]; discriminate].
  - assert (Hrec : In d (alive_ids_from (S k) al) <-> S k <= d /\ is_alive (b :: al) (d - k) = true).
    { rewrite IH. unfold is_alive. split; intros [H1 H2]; (split; [lia|]).
      - replace (d - k) with (S (d - S k)) by lia. exact H2.
      - replace (d - k) with (S (d - S k)) in H2 by lia. exact H2. }
    destruct b; cbn [In]; rewrite Hrec.
    + split.
      * intros [<-|[H1 H2]]; [split; [lia|]; now rewrite Nat.sub_diag|split; [lia|exact H2]].
      * intros [H1 H2]. destruct (Nat.eq_dec k d) as [E|E]; [now left|right; split; [lia|exact H2]].
    + split; [intros [H1 H2]; split; [lia|exact H2]|].
      intros [H1 H2]. destruct (Nat.eq_dec k d) as [E|E].
      * subst. rewrite Nat.sub_diag in H2. discriminate.
      * split; [lia|exact H2].
Qed.

Lemma alive_ids_from_lb k al d : In d (alive_ids_from k al) -> k <= d.
Proof. intros H; apply alive_ids_from_In in H; tauto. Qed.

Lemma alive_ids_from_sorted k al : StronglySorted lt (alive_ids_from k al).
Proof.
  revert k; induction al as [|b al IH]; intros k; cbn [alive_ids_from]; [constructor|].
  destruct b; [|apply IH]. constructor; [apply IH|].
  apply Forall_forall. intros d Hd. apply alive_ids_from_lb in Hd. lia.
Qed.

Lemma is_alive_lt al d : is_alive al d = true -> d < length al.
Proof.
  unfold is_alive. intros H. destruct (Nat.lt_ge_cases d (length al)) as [L|L]; [exact L|].
  rewrite nth_overflow in H by exact L. discriminate.
Qed.

(* index of an element in a list of naturals / of addresses *)
Fixpoint index_nat (d : nat) (l : list nat) : option nat :=
  match l with
  | [] => None
  | x :: r => if d =? x then Some 0 else option_map S (index_nat d r)
  end.
Definition addr_eqb (a b : addr) : bool := (fst a =? fst b) && (snd a =? snd b).
Fixpoint index_of (a : addr) (l : list addr) : option nat :=
  match l with
  | [] => None
  | x :: r => if addr_eqb a x then Some 0 else option_map S (index_of a r)
  end.

Lemma addr_eqb_eq a b : addr_eqb a b = true <-> a = b.
Proof.
  destruct a as [s d], b as [s' d']. unfold addr_eqb. cbn [fst snd].
  rewrite andb_true_iff, !Nat.eqb_eq. split; [intros [-> ->]; reflexivity|intros E; injection E; auto].
Qed.
Lemma addr_eqb_refl a : addr_eqb a a = true.
Proof. now apply addr_eqb_eq. Qed.
Lemma addr_eqb_neq a b : addr_eqb a b = false <-> a <> b.
Proof. rewrite <- addr_eqb_eq. destruct (addr_eqb a b); split; congruence. Qed.

Lemma index_of_None a l : index_of a l = None <-> ~ In a l.
Proof.
  induction l as [|x l IH]; cbn [index_of In]; [tauto|].
  destruct (addr_eqb a x) eqn:E.
  - apply addr_eqb_eq in E. subst. split; [discriminate|intros H; exfalso; apply H; now left].
  - apply addr_eqb_neq in E. destruct (index_of a l); cbn [option_map].
    + split; [discriminate|]. intros H.
      assert (Hn : Some n = None) by (apply IH; intros Hin; apply H; now right). discriminate.
    + split; [|reflexivity]. intros _ [H|H]; [congruence|]. now apply IH.
Qed.

Lemma index_of_app a l1 l2 :
  index_of a (l1 ++ l2) =
  match index_of a l1 with Some i => Some i | None => option_map (Nat.add (length l1)) (index_of a l2) end.
Proof.
  induction l1 as [|x l1 IH]; cbn [app index_of length].
  - destruct (index_of a l2); reflexivity.
  - destruct (addr_eqb a x); [reflexivity|]. rewrite IH.
    destruct (index_of a l1); cbn [option_map]; [reflexivity|].
    destruct (index_of a l2); reflexivity.
Qed.

Lemma index_of_map_pair k s d ids :
  index_of (s, d) (map (pair k) ids) = if s =? k then index_nat d ids else None.
Proof.
  induction ids as [|x ids IH]; cbn [map index_of index_nat].
  - destruct (s =? k); reflexivity.
  - unfold addr_eqb; cbn [fst snd]. rewrite IH. destruct (s =? k); cbn [andb]; [reflexivity|reflexivity].
Qed.

Lemma index_nat_alive_ids_from k al d :
  index_nat d (alive_ids_from k al) =
  if (k <=? d) && is_alive al (d - k) then Some (rank al (d - k)) else None.
Proof.
  revert k; induction al as [|b al IH]; intros k; cbn [alive_ids_from].
  - rewrite is_alive_nil, andb_false_r. reflexivity.
  - assert (Hrec : index_nat d (alive_ids_from (S k) al) =
                   if (S k <=? d) && is_alive (b :: al) (d - k) then Some (rank al (d - S k)) else None).
    { rewrite IH. destruct (S k <=? d) eqn:E; [|reflexivity]. apply Nat.leb_le in E.
      replace (d - k) with (S (d - S k)) by lia. reflexivity. }
    destruct (Nat.eq_dec d k) as [->|Hne].
    + rewrite Nat.sub_diag, Nat.leb_refl. cbn [andb]. unfold is_alive at 1. cbn [nth].
      destruct b; cbn [index_nat].
      * rewrite Nat.eqb_refl. reflexivity.
      * rewrite Hrec. replace (S k <=? k) with false by (symmetry; apply Nat.leb_gt; lia). reflexivity.
    + assert (Hk : (k <=? d) = (S k <=? d)).
      { destruct (S k <=? d) eqn:E.
        - apply Nat.leb_le in E. apply Nat.leb_le. lia.
        - apply Nat.leb_gt in E. apply Nat.leb_gt. lia. }
      rewrite Hk.
      assert (Hrank : S k <= d -> rank (b :: al) (d - k) = (if b then 1 else 0) + rank al (d - S k)).
      { intros L. replace (d - k) with (S (d - S k)) by lia. unfold rank. cbn [firstn num_alive]. reflexivity. }
      destruct b; cbn [index_nat].
      * apply Nat.eqb_neq in Hne. rewrite Hne. rewrite Hrec.
        destruct (S k <=? d) eqn:E; [|reflexivity]. apply Nat.leb_le in E. cbn [andb].
        destruct (is_alive (true :: al) (d - k)); cbn [option_map]; [|reflexivity].
        rewrite Hrank by exact E. reflexivity.
      * rewrite Hrec. destruct (S k <=? d) eqn:E; [|reflexivity]. apply Nat.leb_le in E. cbn [andb].
        destruct (is_alive (false :: al) (d - k)); [|reflexivity].
        rewrite Hrank by exact E. reflexivity.
Qed.

(* ------------------------------------------------------------------ stacked mapping *)
Definition base (als : list (list bool)) (s : nat) : nat :=
  fold_right (fun al n => num_alive al + n) 0 (firstn s als).

Lemma base_S al als s : base (al :: als) (S s) = num_alive al + base als s.
Proof. reflexivity. Qed.

Lemma length_stacked_from k als :
  length (stacked_from k als) = fold_right (fun al n => num_alive al + n) 0 als.
Proof.
  revert k; induction als as [|al als IH]; intros k; cbn [stacked_from fold_right]; [reflexivity|].
  unfold alive_ids. now rewrite app_length, map_length, length_alive_ids_from, IH.
Qed.

Lemma stacked_from_In k als s d :
  In (s, d) (stacked_from k als) <-> k <= s /\ is_alive (nth (s - k) als []) d = true.
Proof.
  revert k; induction als as [|al als IH]; intros k; cbn [stacked_from].
  - split; [intros []|]. intros [_ H]. destruct (s - k); cbn [nth] in H; rewrite is_alive_nil in H; discriminate.
  - rewrite in_app_iff, in_map_iff, IH. split.
    + intros [[x [E Hx]]|[H1 H2]].
      * injection E as <- <-. split; [lia|]. rewrite Nat.sub_diag. cbn [nth].
        apply alive_ids_from_In in Hx. rewrite Nat.sub_0_r in Hx. tauto.
      * split; [lia|]. replace (s - k) with (S (s - S k)) by lia. exact H2.
    + intros [H1 H2]. destruct (Nat.eq_dec s k) as [->|Hne].
      * left. exists d. split; [reflexivity|]. rewrite Nat.sub_diag in H2. cbn [nth] in H2.
        apply alive_ids_from_In. rewrite Nat.sub_0_r. split; [lia|exact H2].
      * right. split; [lia|]. replace (s - k) with (S (s - S k)) in H2 by lia. exact H2.
Qed.

Lemma stacked_from_lb k als s d : In (s, d) (stacked_from k als) -> k <= s.
Proof. intros H; apply stacked_from_In in H; tauto. Qed.

Lemma NoDup_app' {A} (l1 l2 : list A) :
  NoDup l1 -> NoDup l2 -> (forall x, In x l1 -> In x l2 -> False) -> NoDup (l1 ++ l2).
Proof.
  induction l1 as [|x l1 IH]; intros H1 H2 H; [exact H2|].
  cbn [app]. inversion H1 as [|? ? Hx H1']; subst. constructor.
  - rewrite in_app_iff. intros [Hin|Hin]; [contradiction|]. apply (H x); [now left|exact Hin].
  - apply IH; [exact H1'|exact H2|]. intros y Hy1 Hy2. apply (H y); [now right|exact Hy2].
Qed.

Lemma sorted_lt_NoDup l : StronglySorted lt l -> NoDup l.
Proof.
  induction 1 as [|x l Hs IH Hall]; constructor; [|exact IH].
  intros Hin. rewrite Forall_forall in Hall. specialize (Hall x Hin). lia.
Qed.

Lemma stacked_from_NoDup k als : NoDup (stacked_from k als).
Proof.
  revert k; induction als as [|al als IH]; intros k; cbn [stacked_from]; [constructor|].
  apply NoDup_app'.
  - apply FinFun.Injective_map_NoDup; [intros x y E; now injection E|].
    apply sorted_lt_NoDup, alive_ids_from_sorted.
  - apply IH.
  - intros [s d] H1 H2. apply in_map_iff in H1 as [x [E _]]. injection E as <- <-.
    apply stacked_from_lb in H2. lia.
Qed.

Lemma index_of_stacked_from k als s d :
  index_of (s, d) (stacked_from k als) =
  if (k <=? s) && is_alive (nth (s - k) als []) d
  then Some (base als (s - k) + rank (nth (s - k) als []) d) else None.
Proof.
  revert k; induction als as [|al als IH]; intros k; cbn [stacked_from].
  - cbn [index_of]. replace (nth (s - k) [] []) with (@nil bool) by (destruct (s - k); reflexivity).
    rewrite is_alive_nil, andb_false_r. reflexivity.
  - unfold alive_ids. rewrite index_of_app, index_of_map_pair, IH, map_length, length_alive_ids_from.
    destruct (Nat.eq_dec s k) as [->|Hne].
    + rewrite Nat.eqb_refl, Nat.sub_diag, Nat.leb_refl.
      assert (Hf : (S k <=? k) = false) by (apply Nat.leb_gt; lia). rewrite Hf.
      cbn [nth andb option_map].
      rewrite index_nat_alive_ids_from. change (0 <=? d) with true. cbn [andb]. rewrite Nat.sub_0_r.
      destruct (is_alive al d); [|reflexivity].
      unfold base. cbn [firstn fold_right]. reflexivity.
    + apply Nat.eqb_neq in Hne. rewrite Hne. apply Nat.eqb_neq in Hne.
      destruct (k <=? s) eqn:E1.
      * apply Nat.leb_le in E1. assert (E2 : (S k <=? s) = true) by (apply Nat.leb_le; lia). rewrite E2.
        replace (s - k) with (S (s - S k)) by lia. cbn [nth andb].
        destruct (is_alive (nth (s - S k) als []) d); cbn [option_map]; [|reflexivity].
        rewrite base_S. f_equal. lia.
      * apply Nat.leb_gt in E1. assert (E2 : (S k <=? s) = false) by (apply Nat.leb_gt; lia). rewrite E2.
        reflexivity.
Qed.

(* ------------------------------------------------------------------ the old -> new table *)
Lemma length_set2 s d v m : length (set2 s d v m) = length m.
Proof. unfold set2. apply length_upd. Qed.
Lemma length_nth_set2 s d v m s' : length (nth s' (set2 s d v m) []) = length (nth s' m []).
Proof.
  unfold set2. rewrite nth_upd. destruct ((s =? s') && (s <? length m)) eqn:E; [|reflexivity].
  apply andb_true_iff in E as [E _]. apply Nat.eqb_eq in E. subst. apply length_upd.
Qed.

Lemma o2n_get_set2 s d v m s' d' :
  s < length m -> d < length (nth s m []) ->
  o2n_get (set2 s d v m) s' d' = if (s =? s') && (d =? d') then v else o2n_get m s' d'.
Proof.
  intros Hs Hd. unfold o2n_get, set2. rewrite nth_upd.
  apply Nat.ltb_lt in Hs. rewrite Hs, andb_true_r.
  destruct (s =? s') eqn:E; cbn [andb]; [|reflexivity].
  apply Nat.eqb_eq in E. subst s'. rewrite nth_upd. apply Nat.ltb_lt in Hd. rewrite Hd, andb_true_r.
  reflexivity.
Qed.

Definition in_bounds (m : list (list (option nat))) (order : list addr) : Prop :=
  forall s d, In (s, d) order -> s < length m /\ d < length (nth s m []).

Lemma o2n_fill_get order : forall m k s d,
  NoDup order -> in_bounds m order ->
  o2n_get (o2n_fill m k order) s d =
  match index_of (s, d) order with Some i => Some (k + i) | None => o2n_get m s d end.
Proof.
  induction order as [|[s0 d0] order IH]; intros m k s d Hnd Hb; cbn [o2n_fill index_of]; [reflexivity|].
  inversion Hnd as [|? ? Hnotin Hnd']; subst.
  assert (Hb0 : s0 < length m /\ d0 < length (nth s0 m [])) by (apply Hb; now left).
  assert (Hb' : in_bounds (set2 s0 d0 (Some k) m) order).
  { intros s' d' Hin. rewrite length_set2, length_nth_set2. apply Hb. now right. }
  rewrite IH by assumption.
  destruct (addr_eqb (s, d) (s0, d0)) eqn:E.
  - apply addr_eqb_eq in E. injection E as -> ->.
    assert (Hn : index_of (s0, d0) order = None) by now apply index_of_None.
    rewrite Hn. rewrite o2n_get_set2 by tauto. rewrite !Nat.eqb_refl. cbn [andb]. f_equal. lia.
  - destruct (index_of (s, d) order) as [i|]; cbn [option_map]; [f_equal; lia|].
    rewrite o2n_get_set2 by tauto.
    unfold addr_eqb in E. cbn [fst snd] in E. rewrite (Nat.eqb_sym s0 s), (Nat.eqb_sym d0 d), E. reflexivity.
Qed.

Definition dseg : seg := mkSeg [] 0%N [] [] [] [].
Lemma nth_map' {A B} (f : A -> B) l s (d : B) (d0 : A) : s < length l -> nth s (map f l) d = f (nth s l d0).
Proof. intros H. rewrite (nth_indep _ d (f d0)) by now rewrite map_length. apply map_nth. Qed.
Lemma nth_repeat_None n d : nth d (repeat (@None nat) n) None = None.
Proof. revert d; induction n as [|n IH]; intros [|d]; cbn [repeat nth]; auto. Qed.

Lemma o2n_get_init readers s d : o2n_get (o2n_init readers) s d = None.
Proof.
  unfold o2n_get, o2n_init.
  destruct (Nat.lt_ge_cases s (length readers)) as [L|L].
  - rewrite (nth_map' _ _ _ _ dseg L). apply nth_repeat_None.
  - rewrite (nth_overflow _ [] ) by now rewrite map_length. destruct d; reflexivity.
Qed.

Lemma nth_map_alive readers s : nth s (map s_alive readers) [] = s_alive (nth s readers dseg).
Proof. change (@nil bool) with (s_alive dseg). apply map_nth. Qed.

Lemma in_bounds_stacked readers : in_bounds (o2n_init readers) (stacked_from 0 (map s_alive readers)).
Proof.
  intros s d Hin. apply stacked_from_In in Hin as [_ Hal]. rewrite Nat.sub_0_r in Hal.
  assert (Hs : s < length readers).
  { destruct (Nat.lt_ge_cases s (length readers)) as [L|L]; [exact L|].
    rewrite nth_overflow in Hal by now rewrite map_length. rewrite is_alive_nil in Hal. discriminate. }
  unfold o2n_init. rewrite map_length. split; [exact Hs|].
  rewrite (nth_map' _ _ _ _ dseg Hs), repeat_length.
  rewrite nth_map_alive in Hal. apply is_alive_lt in Hal. exact Hal.
Qed.

(* the table built for the stacked mapping, in closed form *)
Lemma o2n_stacked readers s d :
  let als := map s_alive readers in
  nth d (nth s (build_o2n readers (stacked_from 0 als)) []) None =
  if is_alive (nth s als []) d then Some (base als s + rank (nth s als []) d) else None.
Proof.
  intros als. change (nth d (nth s (build_o2n readers (stacked_from 0 als)) []) None)
    with (o2n_get (build_o2n readers (stacked_from 0 als)) s d).
  unfold build_o2n. rewrite o2n_fill_get; [|apply stacked_from_NoDup|apply in_bounds_stacked].
  rewrite index_of_stacked_from. cbn [Nat.leb andb]. rewrite Nat.sub_0_r.
  destruct (is_alive (nth s als []) d); [reflexivity|apply o2n_get_init].
Qed.

(* ------------------------------------------------------------------ per-document columns *)
Lemma map_nth_alive_ids_from {A} (dflt : A) k al c :
  k + length al <= length c ->
  map (fun d => nth d c dflt) (alive_ids_from k al) = select al (skipn k c).
Proof.
  revert k; induction al as [|b al IH]; intros k H; cbn [alive_ids_from length] in *.
  - destruct (skipn k c); reflexivity.
  - assert (Hsk : skipn k c = nth k c dflt :: skipn (S k) c).
    { clear IH. revert k H; induction c as [|x c IHc]; intros k H; cbn [length] in H; [lia|].
      destruct k as [|k]; [reflexivity|]. cbn [skipn nth]. rewrite IHc by lia. reflexivity. }
    rewrite Hsk. cbn [select]. destruct b; cbn [map]; rewrite IH by lia; reflexivity.
Qed.

Lemma gather_app {A} (dflt : A) cols o1 o2 : gather dflt cols (o1 ++ o2) = gather dflt cols o1 ++ gather dflt cols o2.
Proof. unfold gather. apply map_app. Qed.

Lemma gather_stacked {A} (dflt : A) (g : seg -> list A) : forall rs pre,
  (forall r, In r rs -> length (s_alive r) <= length (g r)) ->
  gather dflt (pre ++ map g rs) (stacked_from (length pre) (map s_alive rs)) =
  concat (map (fun r => select (s_alive r) (g r)) rs).
Proof.
  induction rs as [|r rs IH]; intros pre H; [reflexivity|].
  cbn [map stacked_from concat]. rewrite gather_app. f_equal.
  - unfold gather. rewrite map_map. cbn [fst snd].
    rewrite app_nth2 by lia. rewrite Nat.sub_diag. cbn [nth].
    unfold alive_ids. rewrite map_nth_alive_ids_from; [reflexivity|]. cbn [Nat.add]. apply H. now left.
  - replace (pre ++ g r :: map g rs) with ((pre ++ [g r]) ++ map g rs) by now rewrite <- app_assoc.
    replace (S (length pre)) with (length (pre ++ [g r])) by (rewrite app_length; cbn [length]; lia).
    apply IH. intros r' Hr'. apply H. now right.
Qed.

Lemma select_all {A} al (c : list A) : num_alive al = length al -> length c = length al -> select al c = c.
Proof.
  revert c; induction al as [|b al IH]; intros [|x c] H1 H2; cbn [length num_alive] in *; try reflexivity; try discriminate.
  pose proof (num_alive_le al). destruct b; [|lia]. cbn [select]. f_equal. apply IH; lia.
Qed.

Lemma select_none {A} al (c : list A) : num_alive al = 0 -> select al c = [].
Proof.
  revert c; induction al as [|b al IH]; intros [|x c] H; cbn [num_alive] in *; try reflexivity.
  destruct b; [lia|]. cbn [select]. apply IH. lia.
Qed.

Lemma length_select {A} al (c : list A) : length al <= length c -> length (select al c) = num_alive al.
Proof.
  revert c; induction al as [|b al IH]; intros [|x c] H; cbn [length num_alive select] in *; try reflexivity; try lia.
  destruct b; cbn [length]; rewrite IH by lia; reflexivity.
Qed.

(* ------------------------------------------------------------------ postings of one term *)
Lemma remap_renum tbl b al pl :
  (forall d, nth d tbl None = if is_alive al d then Some (b + rank al d) else None) ->
  remap tbl pl = renum b al pl.
Proof.
  intros H. induction pl as [|[d x] pl IH]; [reflexivity|].
  cbn [remap renum]. rewrite H. destruct (is_alive al d); now rewrite IH.
Qed.

Lemma length_renum b al pl : length (renum b al pl) = df_alive al pl.
Proof.
  induction pl as [|[d x] pl IH]; [reflexivity|]. cbn [renum df_alive].
  destruct (is_alive al d); cbn [length]; rewrite IH; reflexivity.
Qed.

Lemma length_renum_from b als pls : length (renum_from b als pls) = total_df als pls.
Proof.
  revert b pls; induction als as [|al als IH]; intros b [|pl pls]; cbn [renum_from total_df]; try reflexivity.
  now rewrite app_length, length_renum, IH.
Qed.

Lemma merge_term_from_renum tbl (als0 : list (list bool)) :
  (forall s d, nth d (nth s tbl []) None =
               if is_alive (nth s als0 []) d then Some (base als0 s + rank (nth s als0 []) d) else None) ->
  forall pls s,
  length pls = length als0 - s ->
  merge_term_from s (skipn s als0) tbl pls = renum_from (base als0 s) (skipn s als0) pls.
Proof.
  intros Htbl. induction pls as [|pl pls IH]; intros s Hlen.
  - destruct (skipn s als0); reflexivity.
  - cbn [length] in Hlen.
    assert (Hs : s < length als0) by lia.
    assert (Hsk : skipn s als0 = nth s als0 [] :: skipn (S s) als0).
    { clear -Hs. revert s Hs; induction als0 as [|x l IHl]; intros s Hs; cbn [length] in Hs; [lia|].
      destruct s as [|s]; [reflexivity|]. cbn [skipn nth]. rewrite IHl by lia. reflexivity. }
    rewrite Hsk. cbn [merge_term_from renum_from].
    rewrite IH by lia.
    assert (Hb : base als0 (S s) = base als0 s + num_alive (nth s als0 [])).
    { clear -Hs. revert s Hs; induction als0 as [|x l IHl]; intros s Hs; cbn [length] in Hs; [lia|].
      destruct s as [|s]; [unfold base; cbn [firstn fold_right nth]; lia|].
      rewrite !base_S. cbn [nth]. rewrite IHl by lia. lia. }
    rewrite Hb. f_equal.
    rewrite (remap_renum _ (base als0 s) (nth s als0 [])) by (intros d; apply Htbl).
    destruct (df_alive (nth s als0 []) pl =? 0) eqn:E; [|reflexivity].
    apply Nat.eqb_eq in E. rewrite <- length_renum with (b := base als0 s) in E.
    destruct (renum (base als0 s) (nth s als0 []) pl); [reflexivity|discriminate].
Qed.

(* ------------------------------------------------------------------ the whole segment *)
Lemma has_deletes_false r : has_deletes r = false -> num_alive (s_alive r) = length (s_alive r).
Proof. unfold has_deletes, num_docs, max_doc. intros H. apply negb_false_iff, Nat.eqb_eq in H. exact H. Qed.

Lemma store_of_reader_select r : length (s_store r) = max_doc r -> store_of_reader r = select (s_alive r) (s_store r).
Proof.
  intros Hlen. unfold store_of_reader.
  destruct (has_deletes r) eqn:E; cbn [orb]; [reflexivity|].
  destruct (N.ltb (s_blocks r) MERGE_STORE_STACK_MIN_BLOCKS); [reflexivity|].
  symmetry. apply select_all; [now apply has_deletes_false|exact Hlen].
Qed.

Lemma total_docs_fold segs : total_docs segs = fold_right (fun al n => num_alive al + n) 0 (map s_alive segs).
Proof. unfold total_docs, num_docs. induction segs as [|s segs IH]; cbn [fold_right map]; [reflexivity|now rewrite IH]. Qed.

Lemma existsb_has_deletes_false readers :
  existsb has_deletes readers = false -> forall r, In r readers -> has_deletes r = false.
Proof.
  intros H r Hr. destruct (has_deletes r) eqn:E; [|reflexivity].
  assert (existsb has_deletes readers = true) by (apply existsb_exists; eauto). congruence.
Qed.

Theorem write_stacked_is_spec sch readers :
  Forall (wf_seg sch) readers ->
  write_with sch readers (concatenated_mapping readers) = Some (spec_merge sch readers).
Proof.
  intros Hwf. rewrite Forall_forall in Hwf.
  unfold write_with, write_storable_fields, concatenated_mapping, is_trivial. cbn [m_type m_order].
  replace (match (if existsb has_deletes readers then StackedWithDeletes else Stacked) with Shuffled => false | _ => true end)
    with true by (destruct (existsb has_deletes readers); reflexivity).
  f_equal. unfold spec_merge. f_equal.
  - (* alive *) rewrite length_stacked_from, total_docs_fold. reflexivity.
  - (* store *) f_equal. apply map_ext_in. intros r Hr. apply store_of_reader_select. apply (Hwf r Hr).
  - (* norms *) unfold write_fieldnorms. cbn [m_order]. apply map_ext_in. intros f Hf. f_equal.
    apply (gather_stacked 0%N (fun r => col f (s_norms r)) readers []).
    intros r Hr. destruct (Hwf r Hr) as (_ & Hn & _). rewrite (Hn f Hf). unfold max_doc. lia.
  - (* fast *) unfold write_fast_fields. cbn [m_order m_type]. apply map_ext_in. intros f Hf. f_equal.
    assert (Hg : gather [] (map (fun r => col f (s_fast r)) readers) (stacked_from 0 (map s_alive readers)) =
                 concat (map (fun s => select (s_alive s) (col f (s_fast s))) readers)).
    { apply (gather_stacked [] (fun r => col f (s_fast r)) readers []).
      intros r Hr. destruct (Hwf r Hr) as (_ & _ & Hfa). rewrite (Hfa f Hf). unfold max_doc. lia. }
    destruct (existsb has_deletes readers) eqn:E; [exact Hg|].
    f_equal. apply map_ext_in. intros r Hr. symmetry. apply select_all.
    + apply has_deletes_false. now apply (existsb_has_deletes_false readers E).
    + destruct (Hwf r Hr) as (_ & _ & Hfa). apply (Hfa f Hf).
  - (* postings *) unfold write_postings. cbn [m_order]. apply map_ext. intros f. f_equal.
    unfold write_postings_for_field, spec_postings_for_field.
    replace (is_trivial _) with true by (unfold is_trivial; cbn [m_type]; destruct (existsb has_deletes readers); reflexivity).
    apply flat_map_ext. intros t.
    set (pls := map (assoc_term t) (map (fun r => col f (s_inv r)) readers)).
    set (als := map s_alive readers).
    assert (Hm : merge_term_from 0 als (build_o2n readers (stacked_from 0 als)) pls = renum_from 0 als pls).
    { apply (merge_term_from_renum _ als (fun s d => o2n_stacked readers s d) pls 0).
      unfold pls, als. rewrite !map_length. lia. }
    rewrite Hm. rewrite <- (length_renum_from 0 als pls).
    destruct (renum_from 0 als pls); reflexivity.
Qed.

(* sources without live documents do not contribute to the per-document views *)
Lemma open_readers_wf sch segs : Forall (wf_seg sch) segs -> Forall (wf_seg sch) (open_readers segs).
Proof.
  rewrite !Forall_forall. intros H r Hr. apply H. unfold open_readers in Hr. apply filter_In in Hr. tauto.
Qed.

Lemma total_docs_open segs : total_docs (open_readers segs) = total_docs segs.
Proof.
  unfold open_readers. induction segs as [|s segs IH]; [reflexivity|].
  cbn [filter]. destruct (num_docs s =? 0) eqn:E; cbn [negb total_docs fold_right].
  - apply Nat.eqb_eq in E. unfold total_docs in *. cbn [fold_right]. rewrite E, IH. reflexivity.
  - unfold total_docs in *. cbn [fold_right]. now rewrite IH.
Qed.

Lemma select_open {A} (g : seg -> list A) segs :
  concat (map (fun s => select (s_alive s) (g s)) (open_readers segs)) =
  concat (map (fun s => select (s_alive s) (g s)) segs).
Proof.
  unfold open_readers. apply concat_map_filter. intros s _ H.
  apply negb_false_iff, Nat.eqb_eq in H. now apply select_none.
Qed.

Theorem merge_model_readers sch segs :
  Forall (wf_seg sch) segs ->
  merge_model sch segs =
  if total_docs segs =? 0 then MergedNone else Merged (spec_merge sch (open_readers segs)).
Proof.
  intros Hwf. unfold merge_model. destruct (total_docs segs =? 0); [reflexivity|].
  rewrite write_stacked_is_spec by now apply open_readers_wf. reflexivity.
Qed.

(* ------------------------------------------------------------------ the stacked mapping is a bijection *)
Lemma index_of_nth_error l : NoDup l -> forall a i, index_of a l = Some i <-> nth_error l i = Some a.
Proof.
  induction l as [|x l IH]; intros Hnd a i.
  - cbn [index_of]. destruct i; cbn [nth_error]; split; discriminate.
  - inversion Hnd as [|? ? Hx Hnd']; subst. cbn [index_of].
    destruct (addr_eqb a x) eqn:E.
    + apply addr_eqb_eq in E. subst x. destruct i as [|i]; cbn [nth_error].
      * split; reflexivity.
      * split; [discriminate|]. intros H. exfalso. apply Hx. eapply nth_error_In; eassumption.
    + apply addr_eqb_neq in E. destruct i as [|i]; cbn [nth_error].
      * split; [destruct (index_of a l); discriminate|]. intros H. injection H as ->. congruence.
      * rewrite <- (IH Hnd' a i). destruct (index_of a l); cbn [option_map]; split; intros H; try discriminate.
        -- injection H as ->. reflexivity.
        -- injection H as ->. reflexivity.
Qed.

Definition addr_lt (a b : addr) : Prop := fst a < fst b \/ (fst a = fst b /\ snd a < snd b).

Lemma StronglySorted_app {A} (R : A -> A -> Prop) l1 l2 :
  StronglySorted R l1 -> StronglySorted R l2 -> (forall x y, In x l1 -> In y l2 -> R x y) ->
  StronglySorted R (l1 ++ l2).
Proof.
  induction l1 as [|x l1 IH]; intros H1 H2 H; [exact H2|].
  cbn [app]. inversion H1 as [|? ? Hs Hall]; subst. constructor.
  - apply IH; [exact Hs|exact H2|]. intros a b Ha Hb. apply H; [now right|exact Hb].
  - apply Forall_forall. intros y Hy. apply in_app_iff in Hy as [Hy|Hy].
    + rewrite Forall_forall in Hall. now apply Hall.
    + apply H; [now left|exact Hy].
Qed.

Lemma stacked_from_sorted k als : StronglySorted addr_lt (stacked_from k als).
Proof.
  revert k; induction als as [|al als IH]; intros k; cbn [stacked_from]; [constructor|].
  apply StronglySorted_app.
  - unfold alive_ids. pose proof (alive_ids_from_sorted 0 al) as Hs.
    induction Hs as [|x l Hs IHs Hall]; cbn [map]; constructor; [exact IHs|].
    apply Forall_forall. intros y Hy. apply in_map_iff in Hy as [z [<- Hz]].
    rewrite Forall_forall in Hall. right. cbn [fst snd]. split; [reflexivity|now apply Hall].
  - apply IH.
  - intros [s d] [s' d'] H1 H2. apply in_map_iff in H1 as [z [E _]]. injection E as <- <-.
    apply stacked_from_lb in H2. left. cbn [fst]. lia.
Qed.

Lemma StronglySorted_nth_error {A} (R : A -> A -> Prop) l :
  StronglySorted R l -> forall i j a b, i < j -> nth_error l i = Some a -> nth_error l j = Some b -> R a b.
Proof.
  induction 1 as [|x l Hs IH Hall]; intros i j a b Hij Hi Hj.
  - destruct i; discriminate.
  - destruct j as [|j]; [lia|]. cbn [nth_error] in Hj. destruct i as [|i]; cbn [nth_error] in Hi.
    + injection Hi as ->. rewrite Forall_forall in Hall. apply Hall. eapply nth_error_In; eassumption.
    + eapply IH; [|eassumption|eassumption]. lia.
Qed.

Theorem stacked_mapping_bijective readers :
  let order := m_order (concatenated_mapping readers) in
  NoDup order /\
  (forall s d, In (s, d) order <-> s < length readers /\ is_alive (s_alive (nth s readers dseg)) d = true) /\
  length order = total_docs readers /\
  (forall i j s d1 d2, i < j -> nth_error order i = Some (s, d1) -> nth_error order j = Some (s, d2) -> d1 < d2) /\
  (forall i j a b, i < j -> nth_error order i = Some a -> nth_error order j = Some b -> addr_lt a b) /\
  (forall s d new, o2n_get (build_o2n readers order) s d = Some new <-> nth_error order new = Some (s, d)).
Proof.
  cbn [concatenated_mapping m_order]. repeat split.
  - apply stacked_from_NoDup.
  - apply stacked_from_In in H as [_ H]. rewrite Nat.sub_0_r in H.
    destruct (Nat.lt_ge_cases s (length readers)) as [L|L]; [exact L|].
    rewrite nth_overflow in H by now rewrite map_length. rewrite is_alive_nil in H. discriminate.
  - apply stacked_from_In in H as [_ H]. rewrite Nat.sub_0_r, nth_map_alive in H. exact H.
  - intros [Hs Hal]. apply stacked_from_In. split; [lia|]. rewrite Nat.sub_0_r, nth_map_alive. exact Hal.
  - rewrite length_stacked_from, total_docs_fold. reflexivity.
  - intros i j s d1 d2 Hij Hi Hj.
    pose proof (StronglySorted_nth_error _ _ (stacked_from_sorted 0 (map s_alive readers)) i j _ _ Hij Hi Hj) as [H|[_ H]];
      cbn [fst snd] in H; lia.
  - intros i j a b Hij Hi Hj.
    exact (StronglySorted_nth_error _ _ (stacked_from_sorted 0 (map s_alive readers)) i j _ _ Hij Hi Hj).
  - intros H. unfold build_o2n in H.
    rewrite o2n_fill_get in H; [|apply stacked_from_NoDup|apply in_bounds_stacked].
    rewrite o2n_get_init in H. apply index_of_nth_error; [apply stacked_from_NoDup|].
    destruct (index_of (s, d) (stacked_from 0 (map s_alive readers))); [|discriminate]. injection H as <-. reflexivity.
  - intros H. apply index_of_nth_error in H; [|apply stacked_from_NoDup].
    unfold build_o2n. rewrite o2n_fill_get; [|apply stacked_from_NoDup|apply in_bounds_stacked].
    rewrite H. reflexivity.
Qed.

