(* Indexing/Merge.v -- logical segments and the merge mechanism of tantivy (C04).

   Transliterates, from /repo/src/indexer:
     merger.rs          IndexMerger::open (readers = sources with num_docs > 0),
                        get_doc_id_from_concatenated_data (stacked / stacked-with-deletes mapping),
                        generate_doc_id_mapping_with_sort_by_field (k-way merge, see section Shuffled),
                        write_fieldnorms, write_fast_fields (convert_to_merge_order), write_postings_for_field
                        (merged_doc_id_map table, per-term remap, doc_freq filter, sort in the shuffled case),
                        write_storable_fields (sequential per-reader iterators / alive iteration / stacking),
                        write;
     doc_id_mapping.rs  SegmentDocIdMapping, MappingType, is_trivial;
     segment_updater.rs merge() (None when no live document is left).
   A segment is represented by what a SegmentReader exposes (its logical dump): alive bits, stored
   documents, field-norm ids, fast-field values and, for every indexed field, the term dictionary with
   the posting list (doc, term frequency, positions) of every term.  Stored documents, norms, values
   and positions are opaque payload; only doc ids are interpreted.
   External components not modelled (contracts are C07/C08/C09/C15): postings/column/store codecs,
   the term dictionary format; TermMerger is represented by its specification (union of the sorted
   key streams, sources visited in ordinal order). *)
From TV Require Import Base.Prelude Generated.Constants.
Local Open Scope nat_scope.

Definition field := N.
Definition term := list N.                          (* bytes of the term *)
Definition posting := (nat * (N * list N))%type.    (* doc id, term frequency, positions *)
Definition plist := list posting.
Definition addr := (nat * nat)%type.                (* DocAddress: segment_ord, doc_id *)

Record seg := mkSeg {
  s_alive  : list bool;                             (* length = max_doc *)
  s_blocks : N;                                     (* doc-store block checkpoints (stacking decision only) *)
  s_store  : list (list N);                         (* stored document per doc id *)
  s_norms  : list (field * list N);                 (* fieldnorm id per doc id *)
  s_fast   : list (field * list (list (list N)));   (* values per doc id *)
  s_inv    : list (field * list (term * plist));    (* term dictionary with postings, per indexed field *)
}.

(* the part of the schema IndexMerger::write iterates over *)
Record schema := mkSchema { sch_norms : list field; sch_fast : list field; sch_inv : list field }.

(* ------------------------------------------------------------------ generic helpers *)
Definition assocN {A} (dflt : A) (k : N) (l : list (N * A)) : A :=
  match find (fun kv => N.eqb (fst kv) k) l with Some kv => snd kv | None => dflt end.
Definition col {A} (k : N) (l : list (N * list A)) : list A := assocN [] k l.

Definition term_eqb : term -> term -> bool := list_eqb N.eqb.
Fixpoint assoc_term (t : term) (d : list (term * plist)) : plist :=
  match d with
  | [] => []
  | (k, v) :: r => if term_eqb k t then v else assoc_term t r
  end.

Fixpoint upd {A} (i : nat) (x : A) (l : list A) {struct l} : list A :=
  match l, i with
  | [], _ => []
  | _ :: r, O => x :: r
  | y :: r, S i' => y :: upd i' x r
  end.

(* elements of l at the positions where al is true (iteration over the alive documents) *)
Fixpoint select {A} (al : list bool) (l : list A) : list A :=
  match al, l with
  | b :: al', x :: l' => if b then x :: select al' l' else select al' l'
  | _, _ => []
  end.

Fixpoint num_alive (al : list bool) : nat :=
  match al with [] => 0 | b :: r => (if b then 1 else 0) + num_alive r end.
Definition rank (al : list bool) (d : nat) : nat := num_alive (firstn d al).
Definition is_alive (al : list bool) (d : nat) : bool := nth d al false.

Definition max_doc (s : seg) : nat := length (s_alive s).
Definition num_docs (s : seg) : nat := num_alive (s_alive s).
(* SegmentReader::has_deletes: num_deleted_docs() > 0 *)
Definition has_deletes (s : seg) : bool := negb (num_docs s =? max_doc s).

(* ------------------------------------------------------------------ doc id mapping *)
Inductive mapping_type := Stacked | StackedWithDeletes | Shuffled.
Record docid_mapping := mkMapping { m_order : list addr; m_type : mapping_type }.
Definition is_trivial (m : docid_mapping) : bool :=
  match m_type m with Shuffled => false | _ => true end.

(* SegmentReader::doc_ids_alive *)
Fixpoint alive_ids_from (k : nat) (al : list bool) : list nat :=
  match al with
  | [] => []
  | b :: r => if b then k :: alive_ids_from (S k) r else alive_ids_from (S k) r
  end.
Definition alive_ids (al : list bool) : list nat := alive_ids_from 0 al.

(* readers.iter().enumerate().flat_map(|(ord, r)| r.doc_ids_alive().map(|d| DocAddress{ord, d})) *)
Fixpoint stacked_from (ord : nat) (als : list (list bool)) : list addr :=
  match als with
  | [] => []
  | al :: r => map (pair ord) (alive_ids al) ++ stacked_from (S ord) r
  end.

(* get_doc_id_from_concatenated_data *)
Definition concatenated_mapping (readers : list seg) : docid_mapping :=
  {| m_order := stacked_from 0 (map s_alive readers);
     m_type := if existsb has_deletes readers then StackedWithDeletes else Stacked |}.

(* ------------------------------------------------------------------ old -> new table
   write_postings_for_field: merged_doc_id_map: Vec<Vec<Option<DocId>>>, one vector of max_doc
   entries per reader, filled by iterating the mapping with enumerate(). *)
Definition o2n_init (readers : list seg) : list (list (option nat)) :=
  map (fun r => repeat None (max_doc r)) readers.
Definition set2 (s d : nat) (v : option nat) (m : list (list (option nat))) :=
  upd s (upd d v (nth s m [])) m.
Fixpoint o2n_fill (m : list (list (option nat))) (new : nat) (order : list addr) :=
  match order with
  | [] => m
  | (s, d) :: r => o2n_fill (set2 s d (Some new) m) (S new) r
  end.
Definition o2n_get (m : list (list (option nat))) (s d : nat) : option nat := nth d (nth s m []) None.
Definition build_o2n (readers : list seg) (order : list addr) := o2n_fill (o2n_init readers) 0 order.

(* ------------------------------------------------------------------ per-document columns *)
Definition gather {A} (dflt : A) (cols : list (list A)) (order : list addr) : list A :=
  map (fun a => nth (snd a) (nth (fst a) cols []) dflt) order.

(* write_fieldnorms: for each field, for each old_doc_addr in mapping order, push fieldnorm_id *)
Definition write_fieldnorms (sch : schema) (readers : list seg) (m : docid_mapping) : list (field * list N) :=
  map (fun f => (f, gather 0%N (map (fun r => col f (s_norms r)) readers) (m_order m))) (sch_norms sch).

(* write_fast_fields / convert_to_merge_order: Stacked -> StackMergeOrder (columns concatenated),
   StackedWithDeletes | Shuffled -> ShuffleMergeOrder (rows gathered through new_row_id_to_old_row_id) *)
Definition write_fast_fields (sch : schema) (readers : list seg) (m : docid_mapping)
  : list (field * list (list (list N))) :=
  map (fun f =>
         let cols := map (fun r => col f (s_fast r)) readers in
         (f, match m_type m with
             | Stacked => concat cols
             | _ => gather [] cols (m_order m)
             end)) (sch_fast sch).

(* write_storable_fields.
   non-trivial mapping: one sequential iterator over the alive documents of every reader
   (store.iter_raw(alive_bitset)); for each address of the mapping the NEXT document of that
   reader's iterator is written (None = the DataCorruption error branch). *)
Fixpoint store_seq (its : list (list (list N))) (order : list addr) : option (list (list N)) :=
  match order with
  | [] => Some []
  | (s, _) :: r =>
      match nth s its [] with
      | [] => None
      | c :: rest => option_map (cons c) (store_seq (upd s rest its) r)
      end
  end.
(* trivial mapping: per reader, either iterate over the alive documents or stack the whole store
   (no deletes and at least MERGE_STORE_STACK_MIN_BLOCKS blocks; the compressor test is not modelled:
   all segments of one index share the compressor of the index settings) *)
Definition store_of_reader (r : seg) : list (list N) :=
  if has_deletes r || N.ltb (s_blocks r) MERGE_STORE_STACK_MIN_BLOCKS
  then select (s_alive r) (s_store r)
  else s_store r.
Definition write_storable_fields (readers : list seg) (m : docid_mapping) : option (list (list N)) :=
  if is_trivial m then Some (concat (map store_of_reader readers))
  else store_seq (map (fun r => select (s_alive r) (s_store r)) readers) (m_order m).

(* ------------------------------------------------------------------ postings *)
(* the loop over one SegmentPostings: documents without a remapped id (deleted) are skipped *)
Fixpoint remap (tbl : list (option nat)) (pl : plist) : plist :=
  match pl with
  | [] => []
  | (d, x) :: r => match nth d tbl None with
                   | Some n => (n, x) :: remap tbl r
                   | None => remap tbl r
                   end
  end.
(* SegmentPostings::doc_freq_given_deletes *)
Fixpoint df_alive (al : list bool) (pl : plist) : nat :=
  match pl with
  | [] => 0
  | (d, _) :: r => (if is_alive al d then 1 else 0) + df_alive al r
  end.
(* for one term: pls = posting list of the term in every reader ([] if absent), ordinal order *)
Fixpoint total_df (als : list (list bool)) (pls : list plist) : nat :=
  match als, pls with
  | al :: als', pl :: pls' => df_alive al pl + total_df als' pls'
  | _, _ => 0
  end.
Fixpoint merge_term_from (s : nat) (als : list (list bool)) (tbl : list (list (option nat))) (pls : list plist) : plist :=
  match als, pls with
  | al :: als', pl :: pls' =>
      (if df_alive al pl =? 0 then [] else remap (nth s tbl []) pl) ++ merge_term_from (S s) als' tbl pls'
  | _, _ => []
  end.

(* doc_id_and_positions.sort_unstable_by_key(doc_id) (shuffled case only) *)
Fixpoint insert_posting (p : posting) (l : plist) : plist :=
  match l with
  | [] => [p]
  | q :: r => if fst p <=? fst q then p :: l else q :: insert_posting p r
  end.
Definition sort_postings (l : plist) : plist := fold_right insert_posting [] l.

(* TermMerger, by its specification: the sorted union of the readers' key streams *)
Fixpoint lex_cmp (a b : list N) : comparison :=
  match a, b with
  | [], [] => Eq
  | [], _ => Lt
  | _, [] => Gt
  | x :: a', y :: b' => match N.compare x y with Eq => lex_cmp a' b' | c => c end
  end.
Fixpoint insert_key (t : term) (l : list term) : list term :=
  match l with
  | [] => [t]
  | x :: r => match lex_cmp t x with
              | Lt => t :: l
              | Eq => l
              | Gt => x :: insert_key t r
              end
  end.
Definition merged_keys (dicts : list (list term)) : list term := fold_right insert_key [] (concat dicts).

Definition write_postings_for_field (readers : list seg) (m : docid_mapping) (tbl : list (list (option nat))) (f : field)
  : list (term * plist) :=
  let dicts := map (fun r => col f (s_inv r)) readers in
  let als := map s_alive readers in
  flat_map (fun t =>
              let pls := map (assoc_term t) dicts in
              if total_df als pls =? 0 then []      (* all docs containing the term are deleted: term removed *)
              else let pl := merge_term_from 0 als tbl pls in
                   [(t, if is_trivial m then pl else sort_postings pl)])
           (merged_keys (map (map fst) dicts)).
Definition write_postings (sch : schema) (readers : list seg) (m : docid_mapping) : list (field * list (term * plist)) :=
  let tbl := build_o2n readers (m_order m) in
  map (fun f => (f, write_postings_for_field readers m tbl f)) (sch_inv sch).

(* ------------------------------------------------------------------ IndexMerger::write, merge() *)
Definition write_with (sch : schema) (readers : list seg) (m : docid_mapping) : option seg :=
  match write_storable_fields readers m with
  | None => None
  | Some store =>
      Some {| s_alive := repeat true (length (m_order m));
              s_blocks := 0%N;
              s_store := store;
              s_norms := write_fieldnorms sch readers m;
              s_fast := write_fast_fields sch readers m;
              s_inv := write_postings sch readers m |}
  end.

(* IndexMerger::open keeps the segments with num_docs > 0 *)
Definition open_readers (segs : list seg) : list seg := filter (fun s => negb (num_docs s =? 0)) segs.
Definition total_docs (segs : list seg) : nat := fold_right (fun s n => num_docs s + n) 0 segs.

Inductive merge_result := MergedNone | MergedErr | Merged (s : seg).
(* segment_updater.rs merge() for an index without sort_by_field *)
Definition merge_model (sch : schema) (segs : list seg) : merge_result :=
  if total_docs segs =? 0 then MergedNone
  else let readers := open_readers segs in
       match write_with sch readers (concatenated_mapping readers) with
       | Some s => Merged s
       | None => MergedErr
       end.

(* ================================================================== specification functions
   "the merged segment holds the live documents of the sources, in source order": every per-document
   view is the concatenation of the alive selections; the posting list of a term is the concatenation
   over the sources of the entries of live documents, renumbered by (live documents before the
   source) + (live documents before the document in its source). *)
Fixpoint renum (base : nat) (al : list bool) (pl : plist) : plist :=
  match pl with
  | [] => []
  | (d, x) :: r => if is_alive al d then (base + rank al d, x) :: renum base al r else renum base al r
  end.
Fixpoint renum_from (base : nat) (als : list (list bool)) (pls : list plist) : plist :=
  match als, pls with
  | al :: als', pl :: pls' => renum base al pl ++ renum_from (base + num_alive al) als' pls'
  | _, _ => []
  end.
Definition spec_postings_for_field (segs : list seg) (f : field) : list (term * plist) :=
  let dicts := map (fun r => col f (s_inv r)) segs in
  flat_map (fun t => match renum_from 0 (map s_alive segs) (map (assoc_term t) dicts) with
                     | [] => []
                     | pl => [(t, pl)]
                     end)
           (merged_keys (map (map fst) dicts)).
Definition spec_merge (sch : schema) (segs : list seg) : seg :=
  {| s_alive := repeat true (total_docs segs);
     s_blocks := 0%N;
     s_store := concat (map (fun s => select (s_alive s) (s_store s)) segs);
     s_norms := map (fun f => (f, concat (map (fun s => select (s_alive s) (col f (s_norms s))) segs))) (sch_norms sch);
     s_fast := map (fun f => (f, concat (map (fun s => select (s_alive s) (col f (s_fast s))) segs))) (sch_fast sch);
     s_inv := map (fun f => (f, spec_postings_for_field segs f)) (sch_inv sch) |}.

(* well-formed dump: every per-document view of the schema has max_doc rows *)
Definition wf_seg (sch : schema) (s : seg) : Prop :=
  length (s_store s) = max_doc s /\
  (forall f, In f (sch_norms sch) -> length (col f (s_norms s)) = max_doc s) /\
  (forall f, In f (sch_fast sch) -> length (col f (s_fast s)) = max_doc s).
Definition wf_segb (sch : schema) (s : seg) : bool :=
  (length (s_store s) =? max_doc s) &&
  forallb (fun f => length (col f (s_norms s)) =? max_doc s) (sch_norms sch) &&
  forallb (fun f => length (col f (s_fast s)) =? max_doc s) (sch_fast sch).

(* ------------------------------------------------------------------ decidable equality of dumps
   (s_blocks is layout, not content, and is ignored) *)
Definition bytes_eqb : list N -> list N -> bool := list_eqb N.eqb.
Definition posting_eqb (p q : posting) : bool :=
  (fst p =? fst q) && N.eqb (fst (snd p)) (fst (snd q)) && bytes_eqb (snd (snd p)) (snd (snd q)).
Definition keyed_eqb {A} (eqb : A -> A -> bool) (a b : N * A) : bool := N.eqb (fst a) (fst b) && eqb (snd a) (snd b).
Definition dict_eqb : list (term * plist) -> list (term * plist) -> bool :=
  list_eqb (fun a b => term_eqb (fst a) (fst b) && list_eqb posting_eqb (snd a) (snd b)).
Definition seg_eqb (a b : seg) : bool :=
  list_eqb Bool.eqb (s_alive a) (s_alive b) &&
  list_eqb bytes_eqb (s_store a) (s_store b) &&
  list_eqb (keyed_eqb (list_eqb N.eqb)) (s_norms a) (s_norms b) &&
  list_eqb (keyed_eqb (list_eqb (list_eqb bytes_eqb))) (s_fast a) (s_fast b) &&
  list_eqb (keyed_eqb dict_eqb) (s_inv a) (s_inv b).
Definition result_eqb (r : merge_result) (o : option seg) : bool :=
  match r, o with
  | MergedNone, None => true
  | Merged s, Some s' => seg_eqb s s'
  | _, _ => false
  end.

(* the two evaluations the harness asks for *)
Definition tie_merge (sch : schema) (srcs : list seg) (out : option seg) : bool :=
  result_eqb (merge_model sch srcs) out.
Definition spec_merge_check (sch : schema) (srcs : list seg) (out : option seg) : bool :=
  match out with
  | None => total_docs srcs =? 0
  | Some o => negb (total_docs srcs =? 0) && seg_eqb (spec_merge sch srcs) o
  end.

(* ================================================================== sorted index (shuffled mapping)
   The harness recovers the mapping new id -> (source, old id) of a merge from the unique id column
   and asks: (tie) IndexMerger::write under that mapping reproduces the merged segment, and the mapping
   is an interleaving of the sources' alive ids; (spec) every document of the merged segment is the
   live source document the mapping names. *)
Fixpoint interleaveb (its : list (list nat)) (order : list addr) : bool :=
  match order with
  | [] => forallb (fun l => match l with [] => true | _ => false end) its
  | (s, d) :: r => match nth s its [] with
                   | x :: rest => (x =? d) && interleaveb (upd s rest its) r
                   | [] => false
                   end
  end.
Fixpoint find_doc (d : nat) (pl : plist) : option (N * list N) :=
  match pl with
  | [] => None
  | (d', x) :: r => if d' =? d then Some x else find_doc d r
  end.
Fixpoint enum_from {A} (k : nat) (l : list A) : list (nat * A) :=
  match l with [] => [] | x :: r => (k, x) :: enum_from (S k) r end.
(* doc-centric specification of the postings of one term under a mapping: for every new doc id in
   order, the entry of the old document in its source *)
Definition spec_postings_by_order (dicts : list (list (term * plist))) (order : list addr) (t : term) : plist :=
  flat_map (fun na => match find_doc (snd (snd na)) (assoc_term t (nth (fst (snd na)) dicts [])) with
                      | Some x => [(fst na, x)]
                      | None => []
                      end) (enum_from 0 order).
Definition spec_by_order (sch : schema) (segs : list seg) (order : list addr) : seg :=
  {| s_alive := repeat true (length order);
     s_blocks := 0%N;
     s_store := gather [] (map s_store segs) order;
     s_norms := map (fun f => (f, gather 0%N (map (fun s => col f (s_norms s)) segs) order)) (sch_norms sch);
     s_fast := map (fun f => (f, gather [] (map (fun s => col f (s_fast s)) segs) order)) (sch_fast sch);
     s_inv := map (fun f => let dicts := map (fun s => col f (s_inv s)) segs in
                            (f, flat_map (fun t => match spec_postings_by_order dicts order t with [] => [] | pl => [(t, pl)] end)
                                         (merged_keys (map (map fst) dicts)))) (sch_inv sch) |}.
Definition tie_shuffled (sch : schema) (srcs : list seg) (order : list addr) (out : seg) : bool :=
  interleaveb (map (fun s => alive_ids (s_alive s)) srcs) order &&
  match write_with sch srcs (mkMapping order Shuffled) with
  | Some m => seg_eqb m out
  | None => false
  end.
Definition spec_shuffled_check (sch : schema) (srcs : list seg) (order : list addr) (out : seg) : bool :=
  interleaveb (map (fun s => alive_ids (s_alive s)) srcs) order && seg_eqb (spec_by_order sch srcs order) out.
