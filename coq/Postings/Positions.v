(* Positions stream of one term.
   Writer: /repo/src/positions/serializer.rs  PositionSerializer::{write_positions_delta, flush_block, close_term}
           layout  VInt(#bit-packed blocks) ; one bit-width byte per block ; the bit-packed blocks ; VInt tail
   Reader: /repo/src/positions/reader.rs      PositionReader::{open, load_block, read}
   The reader is addressed by the cumulative term frequency (SkipReader::position_offset + tfs of the
   documents before the cursor inside the block, segment_postings.rs::append_positions_with_offset).
   The anchor / block_offset caching of PositionReader (advance_num_blocks, reset) is an optimisation of
   `read` and is not modelled: `pos_read` is the stateless meaning of read(offset, output[..len]). *)
From TV Require Import Base.Prelude Generated.Constants Postings.VInt Postings.Codec.
Local Open Scope N_scope.

Definition PBLOCK : N := POSITIONS_BLOCK_SIZE.
Definition PBLOCKn : nat := N.to_nat PBLOCK.
(* the positions module declares its own COMPRESSION_BLOCK_SIZE: same value as the postings one *)
Lemma PBLOCK_is_BLOCK : PBLOCK = BLOCK. Proof. vm_compute. reflexivity. Qed.

Section PosCodec.
  Variable pack : N -> list N -> bytes.
  Variable unpack : N -> bytes -> list N.

  (* flush_block on full blocks (compress_block_unsorted(.., false)); the rest is VInt encoded at close_term *)
  Fixpoint pos_blocks (nb : nat) (ds : list N) : list N * bytes * list N :=
    match nb with
    | O => ([], [], ds)
    | S k => let b := firstn PBLOCKn ds in
             let w := num_bits b in
             let '(ws, bs, tail) := pos_blocks k (skipn PBLOCKn ds) in
             (w :: ws, pack w b ++ bs, tail)
    end.

  Definition pos_serialize (ds : list N) : bytes :=
    let '(ws, bs, tail) := pos_blocks (Nat.div (length ds) PBLOCKn) ds in
    vint_enc64 (N.of_nat (length ws)) ++ ws ++ bs ++ vints_enc tail.

  (* PositionReader::open *)
  Definition pos_open (data : bytes) : option (list N * bytes) :=
    match vint_dec data with
    | None => None
    | Some (n, rest) => if N.of_nat (length rest) <? n then None
                        else Some (firstn (N.to_nat n) rest, skipn (N.to_nat n) rest)
    end.

  (* load_block(k): byte offset = sum(bit_widths[..k]) * BLOCK / 8 *)
  Definition pos_block (ws : list N) (positions : bytes) (k : nat) : rd (list N) :=
    let byte_off := sum (firstn k ws) * PBLOCK / 8 in
    if N.of_nat (length positions) <? byte_off then RPanic
    else
      let data := skipn (N.to_nat byte_off) positions in
      if (k <? length ws)%nat
      then let w := nth k ws 0 in
           if N.of_nat (length data) <? w * PBLOCK / 8 then RPanic
           else ROk (unpack w (firstn (N.to_nat (w * PBLOCK / 8)) data))
      else match vints_dec_all PBLOCKn data with Some vs => ROk vs | None => RPanic end.

  (* read(offset, output[..len]): copy from block offset / BLOCK at offset % BLOCK, then from the following blocks.
     `copy_from_slice` panics when the decoded block is shorter than the requested range. *)
  Fixpoint pos_copy (fuel : nat) (ws : list N) (positions : bytes) (k in_block len : nat) : rd (list N) :=
    match pos_block ws positions k with
    | RPanic => RPanic
    | RFuel => RFuel
    | ROk vals =>
        let avail := skipn in_block vals in
        let remaining_in_block := (PBLOCKn - in_block)%nat in
        if (len <=? remaining_in_block)%nat
        then if (length avail <? len)%nat then RPanic else ROk (firstn len avail)
        else if (length avail <? remaining_in_block)%nat then RPanic
             else match fuel with
                  | O => RFuel
                  | S f => match pos_copy f ws positions (S k) 0 (len - remaining_in_block) with
                           | ROk more => ROk (avail ++ more)
                           | r => r
                           end
                  end
    end.

  Definition pos_read (data : bytes) (offset len : N) : rd (list N) :=
    match pos_open data with
    | None => RPanic
    | Some (ws, positions) =>
        pos_copy (S (N.to_nat (len / PBLOCK))) ws positions (N.to_nat (offset / PBLOCK)) (N.to_nat (offset mod PBLOCK)) (N.to_nat len)
    end.

  (* append_positions_with_offset: deltas -> positions (`cum += delta`) *)
  Definition positions_of (data : bytes) (position_offset : N) (tfs_before : list N) (tf : N) : rd (list N) :=
    match pos_read data (position_offset + sum tfs_before) tf with
    | ROk ds => ROk (prefix_sums 0 ds)
    | r => r
    end.
End PosCodec.
