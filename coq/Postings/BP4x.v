(* A concrete instance of the abstract 128-value block codec of Postings/Codec.v: the byte layout of
   bitpacking::BitPacker4x (scalar and SSE3 versions agree): the block is 32 "registers" of 4 lanes; lane l
   holds values l, 4+l, 8+l, ...; within a lane the 32 values are packed LSB first on w bits into w 32-bit
   little-endian words; output register k (16 bytes) holds word k of lanes 0..3.
   This instance is used ONLY by the correspondence cases (to decode bytes written by the implementation)
   and by non-vacuity examples; every theorem is parametric in the codec (Section hypotheses). *)
From TV Require Import Base.Prelude Generated.Constants Postings.VInt Postings.Codec.
Local Open Scope N_scope.

Definition LANES : nat := 4.
Definition REGS : nat := Nat.div BLOCKn LANES.

Definition word_at (data : bytes) (k l : nat) : N := le_value (firstn 4 (skipn (16 * k + 4 * l) data)).

(* the lane as one big number: sum_k word(k,l) * 2^(32k) *)
Fixpoint lane_number (data : bytes) (l : nat) (k : nat) : N :=
  match k with O => 0 | S k' => lane_number data l k' + N.shiftl (word_at data k' l) (32 * N.of_nat k') end.

Definition bp4x_unpack (w : N) (data : bytes) : list N :=
  let lanes := map (fun l => lane_number data l (N.to_nat w)) (seq 0 LANES) in
  map (fun idx => let i := Nat.div idx LANES in
                  let l := Nat.modulo idx LANES in
                  N.land (N.shiftr (nth l lanes 0) (N.of_nat i * w)) (N.ones w)) (seq 0 BLOCKn).

Fixpoint lane_pack (w : N) (vals : list N) (l : nat) (i : nat) : N :=
  match i with O => 0 | S i' => lane_pack w vals l i' + N.shiftl (nth (LANES * i' + l) vals 0) (N.of_nat i' * w) end.

Definition bp4x_pack (w : N) (vals : list N) : bytes :=
  let lanes := map (fun l => lane_pack w vals l REGS) (seq 0 LANES) in
  flat_map (fun k => flat_map (fun l => le_bytes 4 (N.land (N.shiftr (nth l lanes 0) (32 * N.of_nat k)) (N.ones 32))) (seq 0 LANES))
           (seq 0 (N.to_nat w)).

Example bp4x_roundtrip_sample :
  let xs := map (fun i => (N.of_nat i * 2654435761) mod 2 ^ 13) (seq 0 BLOCKn) in
  bp4x_unpack 13 (bp4x_pack 13 xs) = xs /\ N.of_nat (length (bp4x_pack 13 xs)) = block_size 13.
Proof. vm_compute. split; reflexivity. Qed.
