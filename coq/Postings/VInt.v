(* Variable-length integers of the postings engine.
   - /repo/src/postings/compression/vint.rs : compress_sorted / compress_unsorted /
     uncompress_sorted / uncompress_unsorted / uncompress_unsorted_until_end   (u32 values)
   - /repo/common/src/vint.rs : VInt::serialize_into / VInt::deserialize        (u64 values)
   Format: 7 data bits per byte, least significant group first, the LAST byte carries the
   stop bit 128 (the opposite convention of LEB128). *)
From TV Require Import Base.Prelude Generated.Constants.
Local Open Scope N_scope.

(* the `loop { next_byte = v % 128; v /= 128; if v == 0 { push(next_byte | 128); break } else
   { push(next_byte) } }` of compress_sorted/compress_unsorted/serialize_into.  `fuel` is the size
   of the output window (MAX_VINT_SIZE = 5 for u32, the 10 byte buffer of VInt::serialize_into for
   u64); running out of fuel is `unreachable!()` in the Rust code and yields no stop byte here. *)
Fixpoint vint_enc (fuel : nat) (v : N) : bytes :=
  match fuel with
  | O => []
  | S f => let b := v mod 128 in
           let r := v / 128 in
           if r =? 0 then [b + 128] else b :: vint_enc f r
  end.

Definition vint32_fuel : nat := N.to_nat POSTINGS_MAX_VINT_SIZE.
Definition vint_enc32 (v : N) : bytes := vint_enc vint32_fuel v.
Definition vint_enc64 (v : N) : bytes := vint_enc 10 v.

(* `loop { b = data[i]; i += 1; result += (b % 128) << shift; if b & 128 != 0 { break } shift += 7 }`.
   None = the slice index runs past the end (panic in vint.rs, io::Error in VInt::deserialize). *)
Fixpoint vint_dec_aux (l : bytes) (shift acc : N) : option (N * bytes) :=
  match l with
  | [] => None
  | b :: r => let acc' := acc + (b mod 128) * 2 ^ shift in
              if 128 <=? b then Some (acc', r) else vint_dec_aux r (shift + 7) acc'
  end.
Definition vint_dec (l : bytes) : option (N * bytes) := vint_dec_aux l 0 0.

Lemma vint_enc_wf fuel v : wf_bytes (vint_enc fuel v) = true.
Proof.
  revert v; induction fuel as [|f IH]; intros v; cbn [vint_enc]; [reflexivity|].
  pose proof (N.mod_lt v 128 ltac:(lia)) as Hb.
  destruct (v / 128 =? 0) eqn:E.
  - cbn [wf_bytes forallb]. unfold is_byte. rewrite andb_true_r. apply N.ltb_lt. lia.
  - change (wf_bytes (?b :: ?l)) with (is_byte b && wf_bytes l). rewrite IH, andb_true_r.
    unfold is_byte. apply N.ltb_lt. lia.
Qed.

Lemma vint_enc_nonempty fuel v : (0 < fuel)%nat -> vint_enc fuel v <> [].
Proof.
  destruct fuel as [|f]; intros Hf; [lia|].
  cbn [vint_enc]. destruct (v / 128 =? 0); discriminate.
Qed.

Lemma vint_dec_enc_aux fuel : forall v rest shift acc,
  (0 < fuel)%nat -> v < 128 ^ N.of_nat fuel ->
  vint_dec_aux (vint_enc fuel v ++ rest) shift acc = Some (acc + v * 2 ^ shift, rest).
Proof.
  induction fuel as [|f IH]; intros v rest shift acc Hf Hv.
  - lia.
  - cbn [vint_enc].
    pose proof (N.mod_lt v 128 ltac:(lia)) as Hb.
    pose proof (N.div_mod v 128 ltac:(lia)) as Hdm.
    destruct (v / 128 =? 0) eqn:E.
    + apply N.eqb_eq in E. cbn [app vint_dec_aux].
      replace ((v mod 128 + 128) mod 128) with (v mod 128).
      2:{ rewrite N.add_mod by lia. rewrite N.mod_same by lia. rewrite N.add_0_r.
          now rewrite !N.mod_mod by lia. }
      replace (128 <=? v mod 128 + 128) with true by (symmetry; apply N.leb_le; lia).
      f_equal. f_equal. rewrite E in Hdm. f_equal. lia.
    + apply N.eqb_neq in E. cbn [app vint_dec_aux].
      rewrite N.mod_mod by lia.
      replace (128 <=? v mod 128) with false by (symmetry; apply N.leb_gt; lia).
      assert (Hr : v / 128 < 128 ^ N.of_nat f).
      { rewrite Nat2N.inj_succ, N.pow_succ_r' in Hv. apply N.div_lt_upper_bound; lia. }
      rewrite IH.
      * f_equal. f_equal. rewrite N.pow_add_r. change (2 ^ 7) with 128. nia.
      * destruct f; [change (128 ^ N.of_nat 0) with 1 in Hr; lia|lia].
      * exact Hr.
Qed.

Lemma vint_dec_enc fuel v rest :
  (0 < fuel)%nat -> v < 128 ^ N.of_nat fuel -> vint_dec (vint_enc fuel v ++ rest) = Some (v, rest).
Proof.
  intros Hf Hv. unfold vint_dec. rewrite vint_dec_enc_aux by assumption.
  f_equal. f_equal. change (2 ^ 0) with 1. lia.
Qed.

(* the window of MAX_VINT_SIZE bytes is enough for every u32 (re-checked on the regenerated constant) *)
Lemma vint32_fuel_ok : 2 ^ 32 <= 128 ^ N.of_nat vint32_fuel.
Proof. vm_compute. discriminate. Qed.
Lemma vint32_fuel_pos : (0 < vint32_fuel)%nat.
Proof. vm_compute. lia. Qed.

Lemma vint_dec_enc32 v rest : v < 2 ^ 32 -> vint_dec (vint_enc32 v ++ rest) = Some (v, rest).
Proof. intros Hv. apply vint_dec_enc; [exact vint32_fuel_pos|]. pose proof vint32_fuel_ok. lia. Qed.

Lemma vint_dec_enc64 v rest : v < 2 ^ 64 -> vint_dec (vint_enc64 v ++ rest) = Some (v, rest).
Proof.
  intros Hv. apply vint_dec_enc; [lia|].
  assert (2 ^ 64 <= 128 ^ N.of_nat 10) by (vm_compute; discriminate). lia.
Qed.

(* ---- sequences ------------------------------------------------------------------------- *)

(* compress_unsorted *)
Definition vints_enc (l : list N) : bytes := flat_map vint_enc32 l.

(* uncompress_unsorted: read exactly n values; returns the values and the remaining bytes *)
Fixpoint vints_dec (n : nat) (l : bytes) : option (list N * bytes) :=
  match n with
  | O => Some ([], l)
  | S n' => match vint_dec l with
            | None => None
            | Some (v, r) => match vints_dec n' r with
                             | None => None
                             | Some (vs, r') => Some (v :: vs, r')
                             end
            end
  end.

Lemma vints_dec_enc l rest :
  Forall (fun v => v < 2 ^ 32) l -> vints_dec (length l) (vints_enc l ++ rest) = Some (l, rest).
Proof.
  induction l as [|v l IH]; intros Hl; [reflexivity|].
  inversion Hl as [|? ? Hv Hl']; subst.
  cbn [length vints_enc flat_map vints_dec]. rewrite <- app_assoc.
  rewrite vint_dec_enc32 by exact Hv. fold (vints_enc l). now rewrite IH.
Qed.

(* uncompress_unsorted_until_end: decode until the slice is exhausted, at most `cap` values
   (the reader's 128-entry buffer).  A truncated last vint is the panic branch (None). *)
Fixpoint vints_dec_all (cap : nat) (l : bytes) : option (list N) :=
  match cap with
  | O => Some []
  | S c => match l with
           | [] => Some []
           | _ => match vint_dec l with
                  | None => None
                  | Some (v, r) => match vints_dec_all c r with
                                   | None => None
                                   | Some vs => Some (v :: vs)
                                   end
                  end
           end
  end.

Lemma vints_dec_all_enc l cap :
  Forall (fun v => v < 2 ^ 32) l -> (length l <= cap)%nat -> vints_dec_all cap (vints_enc l) = Some l.
Proof.
  revert cap; induction l as [|v l IH]; intros cap Hl Hc.
  - destruct cap; reflexivity.
  - inversion Hl as [|? ? Hv Hl']; subst.
    destruct cap as [|c]; [cbn [length] in Hc; lia|].
    cbn [vints_enc flat_map vints_dec_all]. fold (vints_enc l).
    destruct (vint_enc32 v ++ vints_enc l) eqn:E.
    + exfalso. apply app_eq_nil in E. destruct E as [E _]. revert E.
      apply vint_enc_nonempty. exact vint32_fuel_pos.
    + rewrite <- E. rewrite vint_dec_enc32 by exact Hv. rewrite IH; [reflexivity|exact Hl'|cbn [length] in Hc; lia].
Qed.

(* compress_sorted: each value is written as the difference to its predecessor (`offset` first) *)
Fixpoint deltas (offset : N) (l : list N) : list N :=
  match l with
  | [] => []
  | v :: r => (v - offset) :: deltas v r
  end.

(* uncompress_sorted: `result` accumulates, starting from offset *)
Fixpoint prefix_sums (offset : N) (ds : list N) : list N :=
  match ds with
  | [] => []
  | d :: r => (offset + d) :: prefix_sums (offset + d) r
  end.

Definition vints_sorted_enc (offset : N) (l : list N) : bytes := vints_enc (deltas offset l).
Definition vints_sorted_dec (offset : N) (n : nat) (l : bytes) : option (list N * bytes) :=
  match vints_dec n l with
  | None => None
  | Some (ds, r) => Some (prefix_sums offset ds, r)
  end.

(* non-strict chain: offset <= v0 <= v1 <= ... *)
Fixpoint chain_le (offset : N) (l : list N) : Prop :=
  match l with
  | [] => True
  | v :: r => offset <= v /\ chain_le v r
  end.

Lemma prefix_sums_deltas offset l : chain_le offset l -> prefix_sums offset (deltas offset l) = l.
Proof.
  revert offset; induction l as [|v l IH]; intros offset H; [reflexivity|].
  destruct H as [H1 H2]. cbn [deltas prefix_sums].
  replace (offset + (v - offset)) with v by lia. now rewrite IH.
Qed.

Lemma deltas_length offset l : length (deltas offset l) = length l.
Proof. revert offset; induction l as [|v l IH]; intros; cbn [deltas length]; [reflexivity|now rewrite IH]. Qed.

Lemma deltas_bound offset l b : chain_le offset l -> Forall (fun v => v < b) l -> Forall (fun v => v < b) (deltas offset l).
Proof.
  revert offset; induction l as [|v l IH]; intros offset H Hl; [constructor|].
  destruct H as [H1 H2]. inversion Hl; subst. cbn [deltas]. constructor; [lia|]. now apply IH.
Qed.

Lemma vints_sorted_dec_enc offset l rest :
  chain_le offset l -> Forall (fun v => v < 2 ^ 32) l ->
  vints_sorted_dec offset (length l) (vints_sorted_enc offset l ++ rest) = Some (l, rest).
Proof.
  intros Hc Hl. unfold vints_sorted_dec, vints_sorted_enc.
  rewrite <- (deltas_length offset l).
  rewrite vints_dec_enc by (apply deltas_bound; assumption).
  now rewrite prefix_sums_deltas.
Qed.
