(* Harness-facing entry points: every correspondence case of harness/src/bin/c07.rs is one application of a
   function below (model or specification function + comparison with what the implementation returned). *)
From TV Require Import Base.Prelude Generated.Constants Postings.VInt Postings.FieldNorm Postings.Codec
     Postings.BP4x Postings.Spec.
Local Open Scope N_scope.

Definition ro (k : N) : record_option := match k with 0 => Basic | 1 => WithFreqs | _ => WithFreqsAndPositions end.

(* tie: the model decoder reads back the value that the implementation's VInt writer produced *)
Definition vint_case (v : N) (impl_bytes : bytes) : bool :=
  match vint_dec impl_bytes with Some (v', []) => v' =? v | _ => false end.

(* tie: fieldnorm code functions *)
Definition fieldnorm_case (n impl_id : N) : bool := fieldnorm_to_id n =? impl_id.
Definition fieldnorm_table_case (impl_table : list N) : bool :=
  list_eqb N.eqb (map (fun i => id_to_fieldnorm (N.of_nat i)) (seq 0 256)) impl_table.
(* spec: the statement of C07_fieldnorm evaluated on the implementation's answer *)
Definition fieldnorm_spec_case (n impl_id : N) : bool :=
  (impl_id <? 256) && (id_to_fieldnorm impl_id <=? n) &&
  ((255 <=? impl_id) || (n <? id_to_fieldnorm (impl_id + 1))) &&
  ((EXACT_BELOW <? n) || (impl_id =? n)).

Definition pair_eqb (a b : N * N) : bool := (fst a =? fst b) && (snd a =? snd b).

(* tie (decode direction): the model reader, with the concrete BitPacker4x layout plugged in, reads the bytes
   written by PostingsSerializer back to the (doc, tf) list that was given to it *)
Definition codec_case (opt req : N) (rtf : bool) (docs tfs : list N) (data : bytes) : bool :=
  let thf := has_freq (ro opt) && rtf in
  match read_all bp4x_unpack (ro opt) (ro req) (N.of_nat (length docs)) data with
  | ROk l => list_eqb pair_eqb l (combine docs (if has_freq (ro req) && thf then tfs else ones (length docs)))
  | _ => false
  end.

(* tie: skip entries written by the implementation: last doc / tf sum / position offset of every block *)
Definition blk_obs (b : blk) : list N := [b_last b; b_tfsum b; b_posoff b].
Definition skip_case (opt : N) (rtf : bool) (docs tfs : list N) (data : bytes) : bool :=
  let thf := has_freq (ro opt) && rtf in
  let l := combine docs tfs in
  match read_blocks bp4x_unpack (ro opt) (ro opt) (N.of_nat (length docs)) data with
  | ROk bs => list_eqb (list_eqb N.eqb) (map blk_obs bs)
                (map blk_obs (expect (Nat.div (length l) BLOCKn) (ro opt) thf thf 0 0 l))
  | _ => false
  end.

(* spec: seek/advance programs on the implementation's SegmentPostings vs the list semantics *)
Definition seek_case (docs tfs : list N) (prog : list op) (observed : list (N * N)) : bool :=
  list_eqb obs_eqb (run_list (combine docs tfs) prog) observed.

(* classifier of known finding F15: Postings::positions() panics on a term that was recorded without term
   frequencies (a non-text JSON leaf) in a field whose record option has positions *)
Definition f15_class (opt : record_option) (docs : list docin) (key : bytes) : bool :=
  negb (term_is_text key docs) && has_positions opt.

From TV Require Import Postings.Positions.
(* tie (decode direction): the model position reader returns the slice [offset, offset+len) of the deltas that were
   handed to PositionSerializer *)
Definition rd_list_eqb (r : rd (list N)) (l : list N) : bool := match r with ROk x => list_eqb N.eqb x l | _ => false end.
Definition positions_case (deltas : list N) (data : bytes) (reads : list (N * N)) : bool :=
  forallb (fun ol => rd_list_eqb (pos_read bp4x_unpack data (fst ol) (snd ol))
                                 (firstn (N.to_nat (snd ol)) (skipn (N.to_nat (fst ol)) deltas))) reads.
(* model writer -> model reader with the concrete layout (used by the examples) *)
Definition positions_model_roundtrip (deltas : list N) (reads : list (N * N)) : bool :=
  positions_case deltas (pos_serialize bp4x_pack deltas) reads.

(* spec: a block cursor re-targeted on a term (reset_block_postings_from_terminfo) after arbitrary prior use reads
   exactly the posting list of that term (C07_roundtrip + C07_skip_reader_reset: a reset reader is a new reader) *)
Definition reuse_case (with_freq : bool) (docs tfs : list N) (observed : list (N * N)) : bool :=
  list_eqb pair_eqb observed (project with_freq (combine docs tfs)).

From TV Require Import Postings.Merge.
(* spec: one field of a MERGED segment.  `docs`: the documents in the merged doc-id order; `sources`: per source
   segment its documents and which of them were alive at the merge.  Terms, postings, doc_freq and field norms
   are those of `docs`; total_num_tokens is the documented estimate (exact without deletes; with deletes and field
   norms the dequantised sum, Merge.est_source; the f64 pro-rata branch is compared on the implementation side). *)
Definition check_field_merged (opt : record_option) (normed : bool) (docs : list docin)
           (observed : list (bytes * list posting)) (doc_freqs : list N) (total : N) (norms : option (list N))
           (sources : list (list docin * list bool)) : bool :=
  index_eqb (index_spec opt docs) observed &&
  list_eqb N.eqb (map (fun e => N.of_nat (length (snd e))) (index_spec opt docs)) doc_freqs &&
  (if normed || forallb (fun s : list docin * list bool => forallb (fun a : bool => a) (snd s)) sources
   then merged_total normed sources =? total else true) &&
  match norms with None => true | Some ns => list_eqb N.eqb (fieldnorm_ids docs) ns end.

(* classifier of known finding F71: a block cursor re-targeted with reset_block_postings_from_terminfo keeps the
   record option / frequency decoder decided for the term it was opened on; it misreads the new term when the field
   records frequencies and exactly the kind of the term changes or is "recorded without frequencies"
   (a non-text JSON leaf) on either side *)
Definition f71_class (opt : record_option) (docs : list docin) (prev_key new_key : bytes) : bool :=
  has_freq opt && (negb (term_is_text prev_key docs) || negb (term_is_text new_key docs)).

From TV Require Import Postings.Grouping.
(* spec: one text field of a segment whose documents are given as they were handed to add_document: the (field,
   value) pairs of every document in insertion order, interleaved across fields (Grouping.field_docin: the field's
   values in document order) *)
Definition check_field_raw (opt : record_option) (f : N) (docs : list rawdoc)
           (observed : list (bytes * list posting)) (doc_freqs : list N) (total : N) (norms : option (list N)) : bool :=
  check_field opt (map (field_docin f) docs) observed doc_freqs total norms.
