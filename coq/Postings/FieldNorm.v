(* Field-norm quantisation: /repo/src/fieldnorm/code.rs
     id_to_fieldnorm(id)   = FIELD_NORMS_TABLE[id]
     fieldnorm_to_id(n)    = FIELD_NORMS_TABLE.binary_search(&n).unwrap_or_else(|idx| idx - 1) as u8
   The table is regenerated from the source on every run (Generated.Constants.FIELD_NORMS_TABLE). *)
From TV Require Import Base.Prelude Generated.Constants.
Local Open Scope N_scope.

(* core::slice::binary_search_by (current std):
     let mut size = len; if size == 0 { return Err(0) } let mut base = 0;
     while size > 1 { half = size / 2; mid = base + half;
                      base = if cmp(mid) == Greater { base } else { mid }; size -= half; }
     cmp = f(base); if Equal { Ok(base) } else { Err(base + (cmp == Less) as usize) }            *)
Fixpoint bs_loop (fuel : nat) (t : list N) (x : N) (base size : nat) : nat :=
  match fuel with
  | O => base
  | S f => if (size <=? 1)%nat then base
           else let half := Nat.div2 size in
                let mid := (base + half)%nat in
                bs_loop f t x (if x <? nth mid t 0 then base else mid) (size - half)%nat
  end.

Inductive search_result := Found (i : nat) | Insert (i : nat).

Definition bsearch (t : list N) (x : N) : search_result :=
  match t with
  | [] => Insert 0
  | _ => let base := bs_loop (length t) t x 0%nat (length t) in
         let v := nth base t 0 in
         if v =? x then Found base else Insert (base + (if (v <? x)%N then 1 else 0))%nat
  end.

Definition sorted_le (t : list N) : Prop := forall i j, (i <= j < length t)%nat -> nth i t 0 <= nth j t 0.
Definition strictly_increasing (t : list N) : Prop := forall i j, (i < j < length t)%nat -> nth i t 0 < nth j t 0.

Fixpoint strictly_increasingb (t : list N) : bool :=
  match t with
  | a :: (b :: _) as r => (a <? b) && strictly_increasingb r
  | _ => true
  end.

Lemma strictly_increasingb_ok t : strictly_increasingb t = true -> strictly_increasing t.
Proof.
  induction t as [|a t IH]; intros H i j Hij; [cbn [length] in Hij; lia|].
  destruct t as [|b t]; [cbn [length] in Hij; lia|].
  cbn [strictly_increasingb] in H. apply andb_true_iff in H. destruct H as [Hab Hr].
  apply N.ltb_lt in Hab. specialize (IH Hr).
  destruct j as [|j]; [lia|]. cbn [length] in Hij.
  destruct i as [|i].
  - cbn [nth]. destruct j as [|j]; [exact Hab|].
    assert (Hb : nth 0 (b :: t) 0 < nth (S j) (b :: t) 0) by (apply IH; cbn [length]; lia).
    cbn [nth] in Hb |- *. lia.
  - change (nth (S i) (a :: b :: t) 0) with (nth i (b :: t) 0).
    change (nth (S j) (a :: b :: t) 0) with (nth j (b :: t) 0). apply IH. cbn [length]. lia.
Qed.

Lemma strictly_increasing_sorted t : strictly_increasing t -> sorted_le t.
Proof.
  intros H i j Hij. destruct (Nat.eq_dec i j) as [->|Hne]; [lia|].
  assert (nth i t 0 < nth j t 0) by (apply H; lia). lia.
Qed.

Lemma div2_bounds n : (2 <= n)%nat -> (1 <= Nat.div2 n /\ Nat.div2 n <= n - Nat.div2 n /\ n - Nat.div2 n < n)%nat.
Proof.
  intros Hn. pose proof (Nat.div2_odd n) as H. destruct (Nat.odd n); cbn [Nat.b2n] in H; lia.
Qed.

Lemma bs_loop_spec t x (Hs : sorted_le t) : forall fuel base size,
  (1 <= size)%nat -> (base + size <= length t)%nat -> (size <= S fuel)%nat ->
  (base = 0%nat \/ nth base t 0 <= x) ->
  (forall j, (base + size <= j < length t)%nat -> x < nth j t 0) ->
  let b := bs_loop fuel t x base size in
  (b < length t)%nat /\ (b = 0%nat \/ nth b t 0 <= x) /\ (forall j, (b + 1 <= j < length t)%nat -> x < nth j t 0).
Proof.
  induction fuel as [|f IH]; intros base size H1 H2 H3 H4 H5; cbv zeta.
  - cbn [bs_loop]. assert (size = 1%nat) by lia. subst size. repeat split; [lia|exact H4|exact H5].
  - cbn [bs_loop]. destruct (size <=? 1)%nat eqn:E.
    + apply Nat.leb_le in E. assert (size = 1%nat) by lia. subst size. repeat split; [lia|exact H4|exact H5].
    + apply Nat.leb_gt in E. pose proof (div2_bounds size ltac:(lia)) as [Hh1 [Hh2 Hh3]].
      destruct (x <? nth (base + Nat.div2 size) t 0) eqn:C.
      * apply N.ltb_lt in C. apply IH; try lia.
        intros j Hj. destruct (Nat.le_gt_cases (base + size) j) as [Hge|Hlt]; [apply H5; lia|].
        assert (nth (base + Nat.div2 size) t 0 <= nth j t 0) by (apply Hs; lia). lia.
      * apply N.ltb_ge in C. apply IH; try lia.
        intros j Hj. apply H5. lia.
Qed.

Lemma bsearch_spec t x : sorted_le t ->
  match bsearch t x with
  | Found i => (i < length t)%nat /\ nth i t 0 = x
  | Insert i => (i <= length t)%nat /\ (forall j, (j < i)%nat -> nth j t 0 < x) /\ (forall j, (i <= j < length t)%nat -> x < nth j t 0)
  end.
Proof.
  intros Hs. unfold bsearch. destruct t as [|a t'] eqn:Et.
  - repeat split; [lia| |]; intros j Hj; cbn [length] in Hj; lia.
  - rewrite <- Et in *. assert (Hlen : (1 <= length t)%nat) by (rewrite Et; cbn [length]; lia).
    pose proof (bs_loop_spec t x Hs (length t) 0%nat (length t) Hlen ltac:(lia) ltac:(lia) (or_introl eq_refl)
                  ltac:(intros j Hj; lia)) as H.
    cbv zeta in H. set (b := bs_loop (length t) t x 0 (length t)) in *.
    destruct H as [Hb [Hle Hgt]].
    destruct (nth b t 0 =? x) eqn:E1.
    + apply N.eqb_eq in E1. split; assumption.
    + apply N.eqb_neq in E1. destruct (nth b t 0 <? x) eqn:E2.
      * apply N.ltb_lt in E2. repeat split; [lia| |].
        -- intros j Hj. assert (nth j t 0 <= nth b t 0) by (apply Hs; lia). lia.
        -- intros j Hj. apply Hgt. lia.
      * apply N.ltb_ge in E2. rewrite Nat.add_0_r.
        destruct Hle as [Hb0|Hle]; [|lia]. repeat split; [lia| |].
        -- intros j Hj. lia.
        -- intros j Hj. destruct (Nat.eq_dec j b) as [->|Hne]; [lia|]. apply Hgt. lia.
Qed.

(* ---- the two functions of code.rs, over an arbitrary table -------------------------------- *)

Definition table_len : nat := 256.
Definition EXACT_BELOW : N := 40.

Section Table.
  Variable T : list N.

  Definition id_to (id : N) : N := nth (N.to_nat id) T 0.

  (* `idx - 1` on usize (wrapping in release builds when idx = 0), then `as u8` *)
  Definition to_id (n : N) : N :=
    match bsearch T n with
    | Found i => N.of_nat i mod 256
    | Insert i => (if (i =? 0)%nat then 2 ^ 64 - 1 else N.of_nat i - 1) mod 256
    end.

  (* the facts about the table that the theorems need; re-established on the regenerated table below *)
  Hypothesis T_len : length T = table_len.
  Hypothesis T_strict : strictly_increasing T.
  Hypothesis T_zero : nth 0 T 0 = 0.
  Hypothesis T_exact : forall i, N.of_nat i <= EXACT_BELOW -> nth i T 0 = N.of_nat i.

  Lemma to_id_bracket n :
    to_id n < 256 /\ id_to (to_id n) <= n /\ (to_id n + 1 < 256 -> n < id_to (to_id n + 1)).
  Proof.
    unfold to_id, id_to. pose proof (bsearch_spec T n (strictly_increasing_sorted T T_strict)) as H.
    unfold table_len in T_len.
    destruct (bsearch T n) as [i|i].
    - destruct H as [Hi Hn]. rewrite T_len in Hi.
      rewrite N.mod_small by lia. rewrite Nat2N.id.
      repeat split; [lia|lia|]. intros Hlt.
      replace (N.to_nat (N.of_nat i + 1)) with (S i) by lia.
      assert (nth i T 0 < nth (S i) T 0) by (apply T_strict; lia). lia.
    - destruct H as [Hi [Hlo Hhi]]. rewrite T_len in Hi, Hhi.
      destruct (i =? 0)%nat eqn:E.
      + apply Nat.eqb_eq in E. subst i. exfalso.
        assert (n < nth 0 T 0) by (apply Hhi; lia). lia.
      + apply Nat.eqb_neq in E. rewrite N.mod_small by lia.
        replace (N.to_nat (N.of_nat i - 1)) with (i - 1)%nat by lia.
        repeat split; [lia| |].
        * assert (nth (i - 1) T 0 < n) by (apply Hlo; lia). lia.
        * intros Hlt. replace (N.to_nat (N.of_nat i - 1 + 1)) with i by lia. apply Hhi. lia.
  Qed.

  (* the bracket determines the id *)
  Lemma bracket_unique n a b :
    a < 256 -> b < 256 ->
    id_to a <= n -> (a + 1 < 256 -> n < id_to (a + 1)) ->
    id_to b <= n -> (b + 1 < 256 -> n < id_to (b + 1)) -> a = b.
  Proof.
    unfold table_len in T_len. unfold id_to.
    intros Ha Hb Ha1 Ha2 Hb1 Hb2.
    pose proof (strictly_increasing_sorted T T_strict) as Hs.
    destruct (N.lt_trichotomy a b) as [Hlt|[Heq|Hgt]]; [exfalso|exact Heq|exfalso].
    - assert (nth (N.to_nat (a + 1)) T 0 <= nth (N.to_nat b) T 0) by (apply Hs; lia). specialize (Ha2 ltac:(lia)). lia.
    - assert (nth (N.to_nat (b + 1)) T 0 <= nth (N.to_nat a) T 0) by (apply Hs; lia). specialize (Hb2 ltac:(lia)). lia.
  Qed.

  Lemma id_to_strict a b : a < b -> b < 256 -> id_to a < id_to b.
  Proof. intros H1 H2. unfold id_to. apply T_strict. rewrite T_len. unfold table_len. lia. Qed.

  Lemma to_id_exact_small n : n <= EXACT_BELOW -> to_id n = n /\ id_to (to_id n) = n.
  Proof.
    intros Hn. pose proof (to_id_bracket n) as [H1 [H2 H3]].
    assert (Hex : id_to n = n) by (unfold id_to; rewrite T_exact by (rewrite N2Nat.id; exact Hn); lia).
    assert (E : to_id n = n).
    { apply (bracket_unique n); try assumption.
      - unfold EXACT_BELOW in Hn. lia.
      - lia.
      - intros Hlt. pose proof (id_to_strict n (n + 1) ltac:(lia) Hlt). lia. }
    split; [exact E|]. rewrite E. exact Hex.
  Qed.

  (* quantisation is the identity on table values *)
  Lemma to_id_id_to id : id < 256 -> to_id (id_to id) = id.
  Proof.
    intros Hid. pose proof (to_id_bracket (id_to id)) as [H1 [H2 H3]].
    apply (bracket_unique (id_to id)); try assumption; [lia|].
    intros Hlt. apply id_to_strict; lia.
  Qed.

  (* quantisation is monotone *)
  Lemma to_id_mono n m : n <= m -> to_id n <= to_id m.
  Proof.
    intros Hnm. pose proof (to_id_bracket n) as [A1 [A2 A3]]. pose proof (to_id_bracket m) as [B1 [B2 B3]].
    destruct (N.le_gt_cases (to_id n) (to_id m)) as [Hle|Hgt]; [exact Hle|exfalso].
    assert (id_to (to_id m + 1) <= id_to (to_id n)).
    { destruct (N.eq_dec (to_id m + 1) (to_id n)) as [->|Hne]; [lia|].
      pose proof (id_to_strict (to_id m + 1) (to_id n) ltac:(lia) A1). lia. }
    specialize (B3 ltac:(lia)). lia.
  Qed.
End Table.

Definition id_to_fieldnorm (id : N) : N := id_to FIELD_NORMS_TABLE id.
Definition fieldnorm_to_id (n : N) : N := to_id FIELD_NORMS_TABLE n.

(* facts about the regenerated table, each re-established by computation on every run *)
Lemma table_length : length FIELD_NORMS_TABLE = table_len.
Proof. vm_compute. reflexivity. Qed.
Lemma table_strict : strictly_increasing FIELD_NORMS_TABLE.
Proof. apply strictly_increasingb_ok. vm_compute. reflexivity. Qed.
Lemma table_zero : nth 0 FIELD_NORMS_TABLE 0 = 0.
Proof. vm_compute. reflexivity. Qed.
Lemma table_exact_b : forallb (fun i => nth i FIELD_NORMS_TABLE 0 =? N.of_nat i) (seq 0 (S (N.to_nat EXACT_BELOW))) = true.
Proof. vm_compute. reflexivity. Qed.
Lemma table_exact i : N.of_nat i <= EXACT_BELOW -> nth i FIELD_NORMS_TABLE 0 = N.of_nat i.
Proof.
  intros Hi. pose proof table_exact_b as H. rewrite forallb_forall in H.
  apply N.eqb_eq. apply H. apply in_seq. unfold EXACT_BELOW in *. lia.
Qed.

Theorem fieldnorm_bracket n :
  fieldnorm_to_id n < 256 /\ id_to_fieldnorm (fieldnorm_to_id n) <= n /\
  (fieldnorm_to_id n + 1 < 256 -> n < id_to_fieldnorm (fieldnorm_to_id n + 1)).
Proof. unfold fieldnorm_to_id, id_to_fieldnorm. intros. apply to_id_bracket; auto using table_length, table_strict, table_zero, table_exact. Qed.

Theorem fieldnorm_exact_small n : n <= EXACT_BELOW -> fieldnorm_to_id n = n /\ id_to_fieldnorm (fieldnorm_to_id n) = n.
Proof. unfold fieldnorm_to_id, id_to_fieldnorm. intros. apply to_id_exact_small; auto using table_length, table_strict, table_zero, table_exact. Qed.

Theorem fieldnorm_id_roundtrip id : id < 256 -> fieldnorm_to_id (id_to_fieldnorm id) = id.
Proof. unfold fieldnorm_to_id, id_to_fieldnorm. intros. apply to_id_id_to; auto using table_length, table_strict, table_zero, table_exact. Qed.

Theorem fieldnorm_mono n m : n <= m -> fieldnorm_to_id n <= fieldnorm_to_id m.
Proof. unfold fieldnorm_to_id, id_to_fieldnorm. intros. apply to_id_mono; auto using table_length, table_strict, table_zero, table_exact. Qed.

Theorem fieldnorm_table_strict : forall a b, a < b -> b < 256 -> id_to_fieldnorm a < id_to_fieldnorm b.
Proof. unfold fieldnorm_to_id, id_to_fieldnorm. intros. apply id_to_strict; auto using table_length, table_strict, table_zero, table_exact. Qed.
