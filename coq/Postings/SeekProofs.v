(* SEEK = LIST SEMANTICS for the cursor model of Postings/Seek.v.
   For every well-formed block sequence (in particular the one C07_blocks exposes for a well-formed posting list)
   and every program of advance / seek(t) calls with t <= TERMINATED, the (doc, term_freq) observations of the
   cursor are those of the plain sorted list (Postings/Spec.v: run_list = tl / first_ge), no panic branch and no
   out-of-fuel result is reached, the cursor index stays below 128, TERMINATED is sticky. *)
From TV Require Import Base.Prelude Generated.Constants Postings.VInt Postings.Codec Postings.Positions Postings.Spec
     Postings.Seek.
Local Open Scope N_scope.

(* ---- strictly increasing lists ------------------------------------------------------------------------- *)
Fixpoint incr (l : list N) : Prop :=
  match l with [] => True | x :: r => Forall (fun y => x < y) r /\ incr r end.

Lemma incr_app a b : incr (a ++ b) <-> incr a /\ incr b /\ (forall x y, In x a -> In y b -> x < y).
Proof.
  induction a as [|u a IH]; cbn [app incr].
  - split; [intros H; repeat split; auto; intros x y []|tauto].
  - rewrite IH, Forall_app. split.
    + intros [[H1 H2] [H3 [H4 H5]]]. repeat split; auto.
      intros x y [<-|Hx] Hy; [rewrite Forall_forall in H2; auto|auto].
    + intros [[H1 H2] [H3 H4]]. repeat split; auto.
      * rewrite Forall_forall. intros y Hy. apply H4; [now left|assumption].
      * intros x y Hx Hy. apply H4; [now right|assumption].
Qed.

Lemma chain_lt_incr p l : chain_lt p l -> incr l /\ Forall (fun y => p < y) l.
Proof.
  revert p; induction l as [|v l IH]; intros p H; [split; [exact I|constructor]|].
  destruct H as [H1 H2]. destruct (IH v H2) as [I1 I2]. split; [split; assumption|].
  constructor; [assumption|]. eapply Forall_impl; [|exact I2]. cbv beta. intros; lia.
Qed.

Lemma sorted_from_incr o l : sorted_from o l -> incr l.
Proof. destruct l as [|v r]; [intros; exact I|]. intros [_ H]. destruct (chain_lt_incr v r H). split; assumption. Qed.

(* ---- first_ge / count_lt -------------------------------------------------------------------------------- *)
Lemma first_ge_skipn t l : first_ge t l = skipn (count_lt t (map fst l)) l.
Proof.
  induction l as [|[d tf] r IH]; [reflexivity|]. cbn [first_ge map fst count_lt].
  destruct (N.leb_spec t d) as [H|H], (N.ltb_spec d t) as [H'|H']; try lia; [reflexivity|]. cbn [skipn]. exact IH.
Qed.

Lemma first_ge_app_lt t a b : Forall (fun p => fst p < t) a -> first_ge t (a ++ b) = first_ge t b.
Proof.
  induction a as [|[d tf] a IH]; intros H; [reflexivity|]. inversion H as [|? ? H1 H2]; subst. cbn [fst] in H1.
  cbn [app first_ge]. destruct (N.leb_spec t d); [lia|]. auto.
Qed.

Lemma first_ge_head t l : t <= cur_doc l -> first_ge t l = l.
Proof.
  destruct l as [|[d tf] r]; [reflexivity|]. cbn [cur_doc first_ge]. intros H. destruct (N.leb_spec t d); [reflexivity|lia].
Qed.

Lemma count_lt_le t l : (count_lt t l <= length l)%nat.
Proof. induction l as [|x r IH]; cbn [count_lt length]; [lia|]. destruct (x <? t); lia. Qed.

Lemma count_lt_stop t l x : In x l -> t <= x -> (count_lt t l < length l)%nat.
Proof.
  induction l as [|y r IH]; intros Hin Hx; [destruct Hin|]. cbn [count_lt length].
  destruct (N.ltb_spec y t) as [H|H]; [|lia]. destruct Hin as [->|Hin]; [lia|]. specialize (IH Hin Hx). lia.
Qed.

Lemma count_lt_all t l : Forall (fun x => x < t) l -> count_lt t l = length l.
Proof.
  induction 1 as [|x r H _ IH]; [reflexivity|]. cbn [count_lt length]. destruct (N.ltb_spec x t); [now rewrite IH|lia].
Qed.

Lemma count_lt_app_stop t a b : (count_lt t a < length a)%nat -> count_lt t (a ++ b) = count_lt t a.
Proof.
  induction a as [|x a IH]; cbn [count_lt length app]; [lia|]. destruct (x <? t); [|reflexivity]. intros H. rewrite IH; lia.
Qed.

Lemma count_lt_repeat t v n : t <= v -> count_lt t (repeat v n) = 0%nat.
Proof. intros H. destruct n; [reflexivity|]. cbn [repeat count_lt]. destruct (N.ltb_spec v t); [lia|reflexivity]. Qed.

(* the padding stops the search *)
Lemma count_lt_pad t l n : t <= TERMINATED -> count_lt t (l ++ repeat TERMINATED n) = count_lt t l.
Proof.
  intros Ht. induction l as [|x l IH]; [cbn [app]; now apply count_lt_repeat|].
  cbn [app count_lt]. destruct (x <? t); [now rewrite IH|reflexivity].
Qed.

Lemma first_ge_app_stop t (a b : list (N * N)) : (count_lt t (map fst a) < length a)%nat ->
  first_ge t (a ++ b) = skipn (count_lt t (map fst a)) a ++ b.
Proof.
  intros H. rewrite first_ge_skipn, map_app, count_lt_app_stop by (now rewrite map_length).
  rewrite skipn_app. replace (count_lt t (map fst a) - length a)%nat with 0%nat by lia. reflexivity.
Qed.

Lemma map_fst_combine {A B} (a : list A) (b : list B) : length a = length b -> map fst (combine a b) = a.
Proof.
  revert b; induction a as [|x a IH]; intros [|y b] H; try discriminate; [reflexivity|].
  cbn [combine map fst]. f_equal. apply IH. cbn [length] in H. lia.
Qed.

Lemma skipn_nth_cons {A} n (l : list A) d : (n < length l)%nat -> skipn n l = nth n l d :: skipn (S n) l.
Proof.
  revert n; induction l as [|x l IH]; intros n H; [cbn [length] in H; lia|].
  destruct n as [|n]; [reflexivity|]. cbn [skipn nth]. cbn [length] in H. rewrite (IH n) by lia. reflexivity.
Qed.

Lemma last_In_cons (l : list N) d : l <> [] -> In (last l d) l.
Proof. destruct l as [|a l]; [congruence|]. intros _. apply last_in. Qed.

Lemma incr_lt_last l x d : incr l -> In x l -> x <= last l d.
Proof.
  induction l as [|y r IH]; intros Hi Hin; [destruct Hin|].
  destruct Hi as [H1 H2]. destruct r as [|z r'].
  - destruct Hin as [->|[]]. cbn. lia.
  - change (last (y :: z :: r') d) with (last (z :: r') d). destruct Hin as [->|Hin]; [|now apply IH].
    rewrite Forall_forall in H1. pose proof (H1 _ (last_In_cons (z :: r') d ltac:(discriminate))). lia.
Qed.

(* everything before position n of an increasing list is below the element at n *)
Lemma incr_before l n d x : incr l -> (n < length l)%nat -> In x (firstn n l) -> x < nth n l d.
Proof.
  intros Hi Hn Hx. rewrite <- (firstn_skipn n l) in Hi. rewrite (skipn_nth_cons n l d Hn) in Hi.
  apply incr_app in Hi. destruct Hi as [_ [_ H]]. apply H; [assumption|now left].
Qed.

(* ---- well-formed block sequences ---------------------------------------------------------------------------- *)
Definition bpairs (b : blk) : list (N * N) := combine (b_docs b) (b_tfs b).
Lemma flatten_cons b r : flatten (b :: r) = bpairs b ++ flatten r.
Proof. reflexivity. Qed.

(* a block is either full (128 documents, the skip entry holds its last document) or it is the final VInt block
   (fewer than 128 documents, nothing after it, last_doc_in_block = TERMINATED) *)
Definition wf_blk (b : blk) (r : list blk) : Prop :=
  length (b_tfs b) = length (b_docs b) /\
  ((length (b_docs b) = BLOCKn /\ b_last b = last (b_docs b) 0) \/
   ((length (b_docs b) < BLOCKn)%nat /\ r = [] /\ b_last b = TERMINATED)).
Fixpoint wf_blocks (bs : list blk) : Prop :=
  match bs with [] => True | b :: r => wf_blk b r /\ wf_blocks r end.

Definition docs_of (bs : list blk) : list N := map fst (flatten bs).
Definition binv (bs : list blk) : Prop :=
  wf_blocks bs /\ incr (docs_of bs) /\ Forall (fun d => d < TERMINATED) (docs_of bs).

Lemma bpairs_docs b r : wf_blk b r -> map fst (bpairs b) = b_docs b.
Proof. intros [H _]. unfold bpairs. now apply map_fst_combine. Qed.
Lemma bpairs_length b r : wf_blk b r -> length (bpairs b) = length (b_docs b).
Proof. intros [H _]. unfold bpairs. rewrite combine_length. lia. Qed.

Lemma docs_of_cons b r : wf_blk b r -> docs_of (b :: r) = b_docs b ++ docs_of r.
Proof. intros H. unfold docs_of. now rewrite flatten_cons, map_app, (bpairs_docs b r H). Qed.

Lemma binv_tl bs : binv bs -> binv (tl bs).
Proof.
  destruct bs as [|b r]; [auto|]. intros [[Hb Hw] [Hi Hf]]. cbn [tl].
  rewrite (docs_of_cons b r Hb) in Hi, Hf. apply incr_app in Hi. apply Forall_app in Hf. repeat split; tauto.
Qed.

(* ---- the abstraction: the documents not yet passed ------------------------------------------------------------ *)
Definition rem (st : cursor) : list (N * N) :=
  match c_blocks st with [] => [] | b :: r => skipn (c_cur st) (bpairs b) ++ flatten r end.

Definition inv (st : cursor) : Prop := binv (c_blocks st) /\ (c_cur st < BLOCKn)%nat.

Lemma nth_pad docs n : (n < BLOCKn)%nat -> nth n (pad_docs docs) TERMINATED = nth n docs TERMINATED.
Proof.
  intros Hn. unfold pad_docs. destruct (Nat.lt_ge_cases n (length docs)) as [H|H].
  - now apply app_nth1.
  - rewrite app_nth2 by exact H. rewrite nth_repeat. symmetry. now apply nth_overflow.
Qed.

(* doc() is the head of the remaining list *)
Lemma sp_doc_rem st : inv st -> sp_doc st = cur_doc (rem st).
Proof.
  destruct st as [bs cur]. intros [[Hw _] Hc]. unfold sp_doc, rem, doc_output. cbn [c_blocks c_cur] in *.
  destruct bs as [|b r]; rewrite nth_pad by exact Hc; [now destruct cur|].
  destruct Hw as [Hb Hw]. pose proof (bpairs_length b r Hb) as Hl.
  destruct (Nat.lt_ge_cases cur (length (b_docs b))) as [H|H].
  - rewrite (skipn_nth_cons cur (bpairs b) (TERMINATED, 0)) by lia. unfold bpairs at 1.
    destruct Hb as [Hb _]. rewrite combine_nth by (symmetry; exact Hb). reflexivity.
  - rewrite nth_overflow by exact H. rewrite skipn_all2 by lia.
    destruct Hb as [_ [[Hfull _]|[_ [-> _]]]]; [lia|reflexivity].
Qed.

Lemma sp_tf_rem st : inv st -> sp_doc st <> TERMINATED -> sp_term_freq st = cur_tf (rem st).
Proof.
  intros Hinv Hd. rewrite (sp_doc_rem st Hinv) in Hd. destruct st as [bs cur]. destruct Hinv as [[Hw _] Hc].
  unfold sp_term_freq, rem in *. cbn [c_blocks c_cur] in *. destruct bs as [|b r]; [reflexivity|].
  destruct Hw as [Hb Hw]. pose proof (bpairs_length b r Hb) as Hl.
  destruct (Nat.lt_ge_cases cur (length (b_docs b))) as [H|H].
  - rewrite (skipn_nth_cons cur (bpairs b) (TERMINATED, 0)) by lia. unfold bpairs at 1.
    destruct Hb as [Hb _]. rewrite combine_nth by (symmetry; exact Hb). reflexivity.
  - exfalso. apply Hd. rewrite skipn_all2 by lia. destruct Hb as [_ [[Hfull _]|[_ [-> _]]]]; [lia|reflexivity].
Qed.

Lemma sp_observe_rem st : inv st -> sp_observe st = (cur_doc (rem st), cur_tf (rem st)).
Proof.
  intros Hinv. unfold sp_observe. cbv zeta. destruct (N.eqb_spec (sp_doc st) TERMINATED) as [E|E].
  - rewrite (sp_doc_rem st Hinv) in E |- *. f_equal. destruct (rem st) as [|[d tf] r] eqn:Er; [reflexivity|].
    (* a document equal to TERMINATED is excluded by the invariant *)
    exfalso. cbn [cur_doc] in E. subst d. destruct st as [bs cur]. destruct Hinv as [[Hw [_ Hf]] _].
    unfold rem in Er. cbn [c_blocks c_cur] in *. destruct bs as [|b r0]; [discriminate|].
    assert (Hin : In TERMINATED (docs_of (b :: r0))).
    { unfold docs_of. rewrite flatten_cons, <- (firstn_skipn cur (bpairs b)), <- app_assoc, Er.
      rewrite map_app. apply in_or_app. right. now left. }
    rewrite Forall_forall in Hf. specialize (Hf _ Hin). lia.
  - now rewrite (sp_doc_rem st Hinv), (sp_tf_rem st Hinv E).
Qed.

(* ---- advance ------------------------------------------------------------------------------------------------ *)
Lemma BLOCKn_ge2 : (2 <= BLOCKn)%nat. Proof. vm_compute. lia. Qed.

Lemma sp_advance_rem st : inv st -> inv (sp_advance st) /\ rem (sp_advance st) = tl (rem st).
Proof.
  destruct st as [bs cur]. intros [Hb Hc]. pose proof BLOCKn_ge2 as H2. unfold sp_advance, inv, rem. cbn [c_blocks c_cur] in *.
  destruct (Nat.eqb_spec cur (BLOCKn - 1)) as [E|E]; cbn [c_blocks c_cur].
  - split; [split; [now apply binv_tl|lia]|].
    destruct bs as [|b r]; [reflexivity|]. cbn [tl]. destruct Hb as [[Hwb Hw] _].
    pose proof (bpairs_length b r Hwb) as Hl.
    assert (Hr : flatten r = match r with [] => [] | b0 :: r0 => skipn 0 (bpairs b0) ++ flatten r0 end) by (destruct r; reflexivity).
    rewrite <- Hr. destruct Hwb as [_ [[Hfull _]|[Hshort [-> _]]]].
    + rewrite (skipn_nth_cons cur (bpairs b) (0, 0)) by lia. rewrite (skipn_all2 (n := S cur)) by lia. reflexivity.
    + rewrite skipn_all2 by lia. reflexivity.
  - split; [split; [exact Hb|lia]|]. destruct bs as [|b r]; [reflexivity|]. destruct Hb as [[Hwb Hw] _].
    pose proof (bpairs_length b r Hwb) as Hl.
    destruct (Nat.lt_ge_cases cur (length (b_docs b))) as [H|H].
    + rewrite (skipn_nth_cons cur (bpairs b) (0, 0)) by lia. reflexivity.
    + rewrite !skipn_all2 by lia. destruct Hwb as [_ [[Hfull _]|[_ [-> _]]]]; [lia|reflexivity].
Qed.

(* ---- SkipReader::seek ------------------------------------------------------------------------------------------ *)
(* a block whose skip entry is below the target holds no document >= target *)
Lemma block_below t b r : binv (b :: r) -> t <= TERMINATED -> b_last b < t -> Forall (fun p => fst p < t) (bpairs b).
Proof.
  intros [[Hwb _] [Hi _]] Ht Hl. rewrite (docs_of_cons b r Hwb) in Hi. apply incr_app in Hi. destruct Hi as [Hi _].
  apply Forall_forall. intros p Hp. assert (Hd : In (fst p) (b_docs b)) by (rewrite <- (bpairs_docs b r Hwb); now apply in_map).
  destruct Hwb as [_ [[_ Hlast]|[_ [_ Hlast]]]]; [|lia].
  pose proof (incr_lt_last (b_docs b) (fst p) 0 Hi Hd). lia.
Qed.

Lemma skip_loop_spec t : t <= TERMINATED -> forall bs fuel, (length bs < fuel)%nat -> binv bs -> skip_last bs < t ->
  exists bs', skip_loop fuel t bs = ROk bs' /\ binv bs' /\ t <= skip_last bs' /\
              first_ge t (flatten bs) = first_ge t (flatten bs').
Proof.
  intros Ht. induction bs as [|b r IH]; intros fuel Hf Hb Hl; [cbn [skip_last] in Hl; lia|].
  destruct fuel as [|f]; [lia|]. cbn [skip_loop tl]. cbn [skip_last] in Hl.
  assert (Hdrop : first_ge t (flatten (b :: r)) = first_ge t (flatten r))
    by (rewrite flatten_cons; apply first_ge_app_lt; now apply (block_below t b r)).
  pose proof (binv_tl _ Hb) as Hr. cbn [tl] in Hr.
  destruct (N.leb_spec t (skip_last r)) as [H|H].
  - exists r. auto.
  - destruct (IH f ltac:(cbn [length] in Hf; lia) Hr H) as [bs' [E [B [L F]]]]. exists bs'. rewrite Hdrop. auto.
Qed.

Lemma skip_seek_spec t bs : t <= TERMINATED -> binv bs ->
  exists bs', skip_seek t bs = ROk bs' /\ binv bs' /\ t <= skip_last bs' /\
              first_ge t (flatten bs) = first_ge t (flatten bs').
Proof.
  intros Ht Hb. unfold skip_seek. destruct (N.leb_spec t (skip_last bs)) as [H|H].
  - exists bs. auto.
  - apply skip_loop_spec; auto.
Qed.

(* ---- in-block search ----------------------------------------------------------------------------------------- *)
Lemma search_spec t bs : t <= TERMINATED -> binv bs -> t <= skip_last bs ->
  let idx := count_lt t (doc_output bs) in
  (idx < BLOCKn)%nat /\ rem {| c_blocks := bs; c_cur := idx |} = first_ge t (flatten bs).
Proof.
  intros Ht [Hw [Hi Hf]] Hl. cbv zeta. unfold rem, doc_output, pad_docs. cbn [c_blocks c_cur].
  destruct bs as [|b r].
  - cbn [app length]. rewrite count_lt_repeat by exact Ht. split; [exact BLOCKn_pos|reflexivity].
  - destruct Hw as [Hwb Hw]. cbn [skip_last] in Hl. rewrite flatten_cons.
    pose proof (bpairs_length b r Hwb) as Hlen. pose proof (bpairs_docs b r Hwb) as Hdocs.
    destruct Hwb as [Htf [[Hfull Hlast]|[Hshort [-> Hlast]]]].
    + (* full block: its last document is >= target *)
      rewrite Hfull, Nat.sub_diag. cbn [repeat]. rewrite app_nil_r.
      assert (Hne : b_docs b <> []) by (intros E; rewrite E in Hfull; pose proof BLOCKn_pos; cbn [length] in Hfull; lia).
      assert (Hstop : (count_lt t (b_docs b) < length (b_docs b))%nat).
      { apply (count_lt_stop t (b_docs b) (last (b_docs b) 0)); [now apply last_In_cons|lia]. }
      split; [lia|]. rewrite first_ge_app_stop by (rewrite Hdocs; lia). now rewrite Hdocs.
    + (* the final VInt block, padded with TERMINATED *)
      rewrite count_lt_pad by exact Ht. pose proof (count_lt_le t (b_docs b)). split; [lia|].
      cbn [flatten flat_map]. rewrite !app_nil_r, first_ge_skipn, Hdocs. reflexivity.
Qed.

(* ---- seek ------------------------------------------------------------------------------------------------------ *)
Lemma sp_seek_rem t st : t <= TERMINATED -> inv st ->
  exists st', sp_seek t st = ROk st' /\ inv st' /\ rem st' = first_ge t (rem st).
Proof.
  intros Ht Hinv. pose proof BLOCKn_ge2 as H2. unfold sp_seek.
  destruct (N.leb_spec t (sp_doc st)) as [H0|H0].
  - exists st. rewrite (sp_doc_rem st Hinv) in H0. rewrite first_ge_head by exact H0. auto.
  - (* the current document is below the target: it exists *)
    pose proof Hinv as Hinv0. rewrite (sp_doc_rem st Hinv) in H0.
    destruct st as [bs cur]. destruct Hinv as [Hb Hc]. cbn [c_blocks c_cur] in *.
    destruct bs as [|b r]; [unfold rem in H0; cbn [c_blocks cur_doc] in H0; lia|].
    pose proof Hb as [[Hwb Hw] [Hi Hf]]. pose proof (bpairs_length b r Hwb) as Hlen.
    pose proof (bpairs_docs b r Hwb) as Hdocs.
    assert (Hcur : (cur < length (b_docs b))%nat).
    { destruct (Nat.lt_ge_cases cur (length (b_docs b))) as [H|H]; [exact H|]. exfalso.
      unfold rem in H0. cbn [c_blocks c_cur] in H0. rewrite skipn_all2 in H0 by lia.
      destruct Hwb as [_ [[Hfull _]|[_ [-> _]]]]; [lia|]. cbn [app flatten flat_map cur_doc] in H0. lia. }
    set (rest := skipn (S cur) (bpairs b) ++ flatten r).
    assert (Hrem : rem {| c_blocks := b :: r; c_cur := cur |} = nth cur (bpairs b) (0, 0) :: rest).
    { unfold rem, rest. cbn [c_blocks c_cur]. now rewrite (skipn_nth_cons cur (bpairs b) (0, 0)) by lia. }
    rewrite Hrem in H0 |- *. destruct (nth cur (bpairs b) (0, 0)) as [d tf] eqn:En. cbn [cur_doc] in H0.
    assert (Hspec : first_ge t ((d, tf) :: rest) = first_ge t rest)
      by (cbn [first_ge]; destruct (N.leb_spec t d); [lia|reflexivity]).
    rewrite Hspec.
    (* everything up to the cursor in the current block is below the target *)
    assert (Hwhole : first_ge t (flatten (b :: r)) = first_ge t rest).
    { rewrite flatten_cons, <- (firstn_skipn (S cur) (bpairs b)), <- app_assoc. fold rest. apply first_ge_app_lt.
      apply Forall_forall. intros p Hp.
      assert (Hnd : nth cur (b_docs b) 0 = d).
      { rewrite <- Hdocs. change 0 with (fst (0, 0)) at 1. rewrite map_nth, En. reflexivity. }
      rewrite (docs_of_cons b r Hwb) in Hi. apply incr_app in Hi. destruct Hi as [Hib _].
      replace (S cur) with (cur + 1)%nat in Hp by lia. rewrite firstn_add in Hp. apply in_app_or in Hp.
      destruct Hp as [Hp|Hp].
      - assert (Hd' : In (fst p) (firstn cur (b_docs b))) by (rewrite <- Hdocs, firstn_map; now apply in_map).
        pose proof (incr_before (b_docs b) cur 0 (fst p) Hib Hcur Hd'). lia.
      - rewrite (skipn_nth_cons cur (bpairs b) (0, 0)) in Hp by lia. cbn [firstn] in Hp.
        destruct Hp as [<-|[]]. rewrite En. cbn [fst]. lia. }
    (* the cheap check of the next slot *)
    set (st1 := {| c_blocks := b :: r; c_cur := Nat.min (S cur) (BLOCKn - 1) |}).
    assert (Hst1 : inv st1) by (split; [exact Hb|unfold st1; cbn [c_cur]; lia]).
    destruct (N.leb_spec t (sp_doc st1)) as [H1|H1].
    + exists st1. split; [reflexivity|]. split; [exact Hst1|].
      destruct (Nat.eq_dec cur (BLOCKn - 1)) as [E|E].
      * (* cur = 127: the slot did not move, the test cannot succeed *)
        exfalso. assert (Es : st1 = {| c_blocks := b :: r; c_cur := cur |}) by (unfold st1; f_equal; lia).
        rewrite Es, (sp_doc_rem _ Hinv0), Hrem in H1. cbn [cur_doc] in H1. lia.
      * assert (Es : st1 = {| c_blocks := b :: r; c_cur := S cur |}) by (unfold st1; f_equal; lia).
        assert (Hr1 : rem st1 = rest) by (rewrite Es; reflexivity).
        rewrite (sp_doc_rem _ Hst1), Hr1 in H1. rewrite Hr1. symmetry. now apply first_ge_head.
    + destruct (skip_seek_spec t (b :: r) Ht Hb) as [bs' [E [B [L F]]]]. rewrite E.
      destruct (search_spec t bs' Ht B L) as [Hidx Hr]. cbv zeta in Hidx, Hr.
      replace (BLOCKn <=? count_lt t (doc_output bs'))%nat with false by (symmetry; apply Nat.leb_gt; exact Hidx).
      eexists. split; [reflexivity|]. split; [split; [exact B|exact Hidx]|].
      rewrite Hr, <- F. exact Hwhole.
Qed.

(* ---- programs -------------------------------------------------------------------------------------------------- *)
Definition valid_op (o : op) : Prop := match o with OAdvance => True | OSeek t => t <= TERMINATED end.

Lemma sp_step_rem st o : valid_op o -> inv st ->
  exists st', sp_step st o = ROk st' /\ inv st' /\ rem st' = step_list (rem st) o.
Proof.
  intros Hv Hinv. destruct o as [|t]; cbn [sp_step step_list].
  - exists (sp_advance st). destruct (sp_advance_rem st Hinv). auto.
  - now apply sp_seek_rem.
Qed.

Theorem sp_run_list : forall prog st, Forall valid_op prog -> inv st ->
  sp_run st prog = ROk (run_list (rem st) prog).
Proof.
  induction prog as [|o r IH]; intros st Hv Hinv; [reflexivity|].
  inversion Hv as [|? ? Ho Hr]; subst. cbn [sp_run run_list].
  destruct (sp_step_rem st o Ho Hinv) as [st' [E [I' R']]]. rewrite E, (IH st' Hr I'). cbv zeta.
  now rewrite (sp_observe_rem st' I'), R'.
Qed.

Lemma inv_open bs : binv bs -> inv (sp_open bs) /\ rem (sp_open bs) = flatten bs.
Proof.
  intros Hb. split; [split; [exact Hb|exact BLOCKn_pos]|]. unfold rem, sp_open. cbn [c_blocks c_cur].
  destruct bs; reflexivity.
Qed.

(* (2) SEEK = LIST SEMANTICS on any well-formed block sequence *)
Theorem sp_run_blocks bs prog : binv bs -> Forall valid_op prog ->
  sp_run (sp_open bs) prog = ROk (run_list (flatten bs) prog).
Proof. intros Hb Hv. destruct (inv_open bs Hb) as [I R]. rewrite <- R. now apply sp_run_list. Qed.

(* every state a program reaches: the blocks left are a suffix of the blocks, the index is below 128 (no
   out-of-bounds access of the decoder arrays), the remaining documents are those of the list semantics *)
Fixpoint exec_list (l : list (N * N)) (prog : list op) : list (N * N) :=
  match prog with [] => l | o :: r => exec_list (step_list l o) r end.

Theorem sp_exec_list : forall prog st, Forall valid_op prog -> inv st ->
  exists st', sp_exec st prog = ROk st' /\ inv st' /\ rem st' = exec_list (rem st) prog.
Proof.
  induction prog as [|o r IH]; intros st Hv Hinv; [exists st; auto|].
  inversion Hv as [|? ? Ho Hr]; subst. cbn [sp_exec exec_list].
  destruct (sp_step_rem st o Ho Hinv) as [st1 [E [I1 R1]]]. rewrite E, <- R1. now apply IH.
Qed.

(* TERMINATED is sticky *)
Lemma run_list_nil prog : Forall (fun o => o = (TERMINATED, 0)) (run_list [] prog).
Proof.
  induction prog as [|o r IH]; [constructor|]. cbn [run_list].
  assert (E : step_list [] o = []) by (destruct o; reflexivity). rewrite E. constructor; [reflexivity|exact IH].
Qed.

Theorem sp_terminated_sticky st prog : inv st -> Forall valid_op prog -> sp_doc st = TERMINATED ->
  exists obs, sp_run st prog = ROk obs /\ Forall (fun o => o = (TERMINATED, 0)) obs.
Proof.
  intros Hinv Hv Hd. exists (run_list (rem st) prog). split; [now apply sp_run_list|].
  rewrite (sp_doc_rem st Hinv) in Hd. destruct (rem st) as [|[d tf] r] eqn:Er; [apply run_list_nil|].
  exfalso. pose proof (sp_observe_rem st Hinv) as Ho. unfold sp_observe in Ho. cbv zeta in Ho.
  cbn [cur_doc] in Hd. subst d.
  (* a remaining document equal to TERMINATED contradicts the invariant *)
  destruct st as [bs cur]. destruct Hinv as [[Hw [_ Hf]] _]. unfold rem in Er. cbn [c_blocks c_cur] in *.
  destruct bs as [|b r0]; [discriminate|].
  assert (Hin : In TERMINATED (docs_of (b :: r0))).
  { unfold docs_of. rewrite flatten_cons, <- (firstn_skipn cur (bpairs b)), <- app_assoc, Er.
    rewrite map_app. apply in_or_app. right. now left. }
  rewrite Forall_forall in Hf. specialize (Hf _ Hin). lia.
Qed.

(* ---- a target above TERMINATED: SkipReader::seek never returns --------------------------------------------------- *)
Lemma skip_loop_hangs t : TERMINATED < t -> forall fuel bs, binv bs -> skip_loop fuel t bs = RFuel.
Proof.
  intros Ht. induction fuel as [|f IH]; intros bs Hb; [reflexivity|]. cbn [skip_loop].
  pose proof (binv_tl _ Hb) as Hr.
  assert (Hl : skip_last (tl bs) < t).
  { destruct (tl bs) as [|b r] eqn:E; [cbn [skip_last]; lia|]. cbn [skip_last].
    destruct Hr as [[Hwb _] [Hi Hf]]. destruct Hwb as [Htf [[Hfull Hlast]|[_ [_ Hlast]]]]; [|lia].
    assert (Hne : b_docs b <> []) by (intros E'; rewrite E' in Hfull; pose proof BLOCKn_pos; cbn [length] in Hfull; lia).
    assert (Hin : In (last (b_docs b) 0) (docs_of (b :: r))).
    { rewrite (docs_of_cons b r (conj Htf (or_introl (conj Hfull Hlast)))). apply in_or_app. left. now apply last_In_cons. }
    rewrite Forall_forall in Hf. specialize (Hf _ Hin). lia. }
  destruct (N.leb_spec t (skip_last (tl bs))); [lia|]. now apply IH.
Qed.

(* ---- the blocks of a serialized posting list are well formed ---------------------------------------------------- *)
Lemma map_fst_project f l : map fst (project f l) = map fst l.
Proof. unfold project. rewrite map_map. reflexivity. Qed.
Lemma map_snd_project_true l : map snd (project true l) = map snd l.
Proof. unfold project. rewrite map_map. reflexivity. Qed.

Lemma flatten_expect' nb : forall opt thf rf lst posoff l,
  (nb * BLOCKn <= length l)%nat -> flatten (expect nb opt thf rf lst posoff l) = project (rf && thf) l.
Proof.
  induction nb as [|k IH]; intros opt thf rf lst posoff l Hlen.
  - cbn [expect]. destruct l as [|x l']; [reflexivity|].
    unfold flatten. cbn [flat_map b_docs b_tfs]. rewrite app_nil_r. unfold project.
    destruct (rf && thf).
    + rewrite combine_fst_snd. symmetry. apply map_fst_snd_id.
    + rewrite combine_ones by apply map_length. rewrite map_map. reflexivity.
  - cbn [expect]. rewrite flatten_cons. unfold bpairs. cbn [b_docs b_tfs].
    rewrite IH by (rewrite skipn_length; cbn [Nat.mul] in Hlen; lia).
    assert (Hb : length (firstn BLOCKn l) = BLOCKn) by (apply firstn_length_le; cbn [Nat.mul] in Hlen; lia).
    rewrite <- (firstn_skipn BLOCKn l) at 4. unfold project. rewrite map_app. f_equal.
    destruct (rf && thf).
    + rewrite combine_fst_snd. symmetry. apply map_fst_snd_id.
    + rewrite combine_ones by (rewrite map_length; exact Hb). rewrite map_map. reflexivity.
Qed.

Lemma expect_wf nb : forall opt thf rf lst posoff l,
  (nb * BLOCKn <= length l < nb * BLOCKn + BLOCKn)%nat -> wf_blocks (expect nb opt thf rf lst posoff l).
Proof.
  induction nb as [|k IH]; intros opt thf rf lst posoff l Hlen.
  - cbn [expect]. destruct l as [|x l'] eqn:El; [exact I|]. rewrite <- El in *.
    split; [|exact I]. unfold wf_blk. cbn [b_docs b_tfs b_last]. split.
    + destruct (rf && thf); [now rewrite !map_length|]. unfold ones. now rewrite repeat_length, map_length.
    + right. rewrite map_length. repeat split; lia.
  - cbn [expect]. assert (Hb : length (firstn BLOCKn l) = BLOCKn) by (apply firstn_length_le; cbn [Nat.mul] in Hlen; lia).
    split; [|apply IH; rewrite skipn_length; cbn [Nat.mul] in Hlen; lia].
    unfold wf_blk. cbn [b_docs b_tfs b_last]. split.
    + destruct (rf && thf); [now rewrite !map_length|]. unfold ones. now rewrite repeat_length, map_length.
    + left. rewrite map_length. split; [exact Hb|reflexivity].
Qed.

Lemma div_bounds n : (Nat.div n BLOCKn * BLOCKn <= n < Nat.div n BLOCKn * BLOCKn + BLOCKn)%nat.
Proof.
  pose proof BLOCKn_pos. pose proof (Nat.div_mod n BLOCKn ltac:(lia)).
  pose proof (Nat.mod_upper_bound n BLOCKn ltac:(lia)). lia.
Qed.

Lemma expect_binv opt thf rf l : wf_postings l -> binv (expect (Nat.div (length l) BLOCKn) opt thf rf 0 0 l).
Proof.
  intros [Hs [Hd _]]. pose proof (div_bounds (length l)) as Hb. split; [now apply expect_wf|].
  unfold docs_of. rewrite flatten_expect' by lia. rewrite map_fst_project.
  split; [now apply (sorted_from_incr 0)|exact Hd].
Qed.

(* (2) end to end: the bytes written by PostingsSerializer for a well-formed posting list of ANY length, opened by
   BlockSegmentPostings::open and driven by SegmentPostings::{advance, seek}: every program with targets
   <= TERMINATED observes exactly what the plain sorted list prescribes (term_freq = the recorded one when the
   reader asks for frequencies and the term has them, 1 otherwise) *)
Theorem seek_list_semantics pack unpack
  (unpack_pack : forall w xs, length xs = BLOCKn -> Forall (fun x => x < 2 ^ w) xs -> unpack w (pack w xs) = xs)
  (pack_length : forall w xs, length xs = BLOCKn -> N.of_nat (length (pack w xs)) = block_size w)
  bw opt rtf req l prog :
  wf_postings l -> Forall valid_op prog ->
  exists bs, read_blocks unpack opt req (N.of_nat (length l)) (serialize pack bw opt rtf l) = ROk bs /\
             sp_run (sp_open bs) prog = ROk (run_list (project (has_freq req && (has_freq opt && rtf)) l) prog).
Proof.
  intros Hwf Hv. destruct (wf_postings_pairs l Hwf) as [H1 H2].
  destruct (read_blocks_serialize pack unpack unpack_pack pack_length bw opt rtf req l H1 H2) as [rf [Hrf R]].
  eexists. split; [exact R|]. rewrite sp_run_blocks; [|now apply expect_binv|exact Hv].
  rewrite flatten_expect' by (pose proof (div_bounds (length l)); lia). now rewrite Hrf.
Qed.

(* ---- positions of the current document ------------------------------------------------------------------------------ *)
(* every suffix of the block sequence: position offset of its first block + term frequencies still to come = total *)
Fixpoint posoff_inv (total : N) (bs : list blk) : Prop :=
  match bs with [] => True | b :: r => b_posoff b + sum (map snd (flatten (b :: r))) = total /\ posoff_inv total r end.

Lemma posoff_inv_skipn total n : forall bs, posoff_inv total bs -> posoff_inv total (skipn n bs).
Proof. induction n as [|n IH]; intros bs H; [exact H|]. destruct bs as [|b r]; [exact I|]. cbn [skipn]. apply IH, H. Qed.

Lemma expect_posoff_inv nb : forall opt lst posoff l,
  (nb * BLOCKn <= length l)%nat -> has_positions opt = true -> sum (map snd l) < 2 ^ 32 ->
  posoff_inv (posoff + sum (map snd l)) (expect nb opt true true lst posoff l).
Proof.
  induction nb as [|k IH]; intros opt lst posoff l Hlen Hp Hsum.
  - cbn [expect]. destruct l as [|x l'] eqn:El; [exact I|]. rewrite <- El in *. split; [|exact I].
    cbn [b_posoff]. unfold flatten. cbn [flat_map b_docs b_tfs andb]. rewrite app_nil_r, combine_fst_snd. reflexivity.
  - assert (Hsplit : sum (map snd l) = sum (map snd (firstn BLOCKn l)) + sum (map snd (skipn BLOCKn l))).
    { rewrite <- (firstn_skipn BLOCKn l) at 1. now rewrite map_app, sum_app. }
    pose proof (flatten_expect' (S k) opt true true lst posoff l Hlen) as Hfe.
    cbn [expect] in Hfe |- *. cbn [posoff_inv]. split.
    + rewrite Hfe. cbn [b_posoff andb]. now rewrite map_snd_project_true.
    + cbn [andb]. rewrite Hp. unfold block_tfsum. rewrite N.mod_small by lia.
      replace (posoff + sum (map snd l))
        with (posoff + sum (map snd (firstn BLOCKn l)) + sum (map snd (skipn BLOCKn l))) by lia.
      apply IH; [rewrite skipn_length; cbn [Nat.mul] in Hlen; lia|exact Hp|lia].
Qed.

Lemma map_snd_combine {A B} (a : list A) (b : list B) : length a = length b -> map snd (combine a b) = b.
Proof.
  revert b; induction a as [|x a IH]; intros [|y b] H; try discriminate; [reflexivity|].
  cbn [combine map snd]. f_equal. apply IH. cbn [length] in H. lia.
Qed.

Lemma sum_firstn_skipn n l : sum l = sum (firstn n l) + sum (skipn n l).
Proof. rewrite <- (firstn_skipn n l) at 1. apply sum_app. Qed.

(* read_offset + term frequencies of the documents not yet passed = total *)
Lemma sp_read_offset_rem total st : inv st -> posoff_inv total (c_blocks st) -> c_blocks st <> [] ->
  sp_read_offset st + sum (map snd (rem st)) = total.
Proof.
  destruct st as [bs cur]. intros [[Hw _] _] Hp Hne. unfold sp_read_offset, rem. cbn [c_blocks c_cur] in *.
  destruct bs as [|b r]; [congruence|]. destruct Hp as [Hp _]. destruct Hw as [[Htf _] _].
  rewrite flatten_cons, map_app, sum_app in Hp. rewrite map_app, sum_app, <- skipn_map.
  unfold bpairs in *. rewrite map_snd_combine in Hp |- * by (symmetry; exact Htf).
  rewrite (sum_firstn_skipn cur (b_tfs b)) in Hp. lia.
Qed.

(* the blocks left after a step are a suffix of the blocks before it *)
Lemma skip_loop_suffix t : forall fuel bs bs', skip_loop fuel t bs = ROk bs' -> exists n, bs' = skipn n bs.
Proof.
  induction fuel as [|f IH]; intros bs bs' H; [discriminate|]. cbn [skip_loop] in H.
  assert (Et : tl bs = skipn 1 bs) by (destruct bs; reflexivity).
  destruct (t <=? skip_last (tl bs)).
  - injection H as <-. exists 1%nat. exact Et.
  - destruct (IH _ _ H) as [n ->]. exists (n + 1)%nat. rewrite Et. apply skipn_skipn'.
Qed.

Lemma sp_step_suffix st o st' : sp_step st o = ROk st' -> exists n, c_blocks st' = skipn n (c_blocks st).
Proof.
  destruct o as [|t]; cbn [sp_step].
  - intros H. injection H as <-. unfold sp_advance. destruct (c_cur st =? BLOCKn - 1)%nat; cbn [c_blocks].
    + exists 1%nat. destruct (c_blocks st); reflexivity.
    + exists 0%nat. reflexivity.
  - unfold sp_seek. destruct (t <=? sp_doc st); [intros H; injection H as <-; exists 0%nat; reflexivity|].
    destruct (t <=? sp_doc _); [intros H; injection H as <-; exists 0%nat; reflexivity|].
    unfold skip_seek. destruct (t <=? skip_last (c_blocks st)).
    + destruct (BLOCKn <=? _)%nat; [discriminate|]. intros H; injection H as <-. exists 0%nat. reflexivity.
    + destruct (skip_loop _ t (c_blocks st)) as [bs'| |] eqn:E; try discriminate.
      destruct (BLOCKn <=? _)%nat; [discriminate|]. intros H; injection H as <-. cbn [c_blocks].
      now apply (skip_loop_suffix t _ _ _ E).
Qed.

Lemma sp_exec_suffix : forall prog st st', sp_exec st prog = ROk st' -> exists n, c_blocks st' = skipn n (c_blocks st).
Proof.
  induction prog as [|o r IH]; intros st st' H; cbn [sp_exec] in H; [injection H as <-; exists 0%nat; reflexivity|].
  destruct (sp_step st o) as [st1| |] eqn:E; try discriminate.
  destruct (sp_step_suffix _ _ _ E) as [n1 E1]. destruct (IH _ _ H) as [n2 E2].
  exists (n2 + n1)%nat. rewrite E2, E1. apply skipn_skipn'.
Qed.

(* the list semantics only ever drops a prefix *)
Lemma step_list_suffix l o : exists n, step_list l o = skipn n l.
Proof.
  destruct o as [|t]; cbn [step_list]; [exists 1%nat; destruct l; reflexivity|].
  eexists. apply first_ge_skipn.
Qed.
Lemma exec_list_suffix : forall prog l, exists n, exec_list l prog = skipn n l.
Proof.
  induction prog as [|o r IH]; intros l; [exists 0%nat; reflexivity|]. cbn [exec_list].
  destruct (step_list_suffix l o) as [n1 E1]. destruct (IH (step_list l o)) as [n2 E2].
  exists (n2 + n1)%nat. rewrite E2, E1. apply skipn_skipn'.
Qed.

From TV Require Import Postings.PositionsProofs.

(* positions() on the document the cursor stands on, after ANY valid program: the cursor stands on the k-th
   document of the posting list (the remaining documents are `skipn k l`) and the position reader, addressed by
   SkipReader::position_offset + the term frequencies before the cursor inside the block, returns the positions
   recorded for the k-th document. *)
Theorem sp_positions_list pack unpack
  (unpack_pack : forall w xs, length xs = BLOCKn -> Forall (fun x => x < 2 ^ w) xs -> unpack w (pack w xs) = xs)
  (pack_length : forall w xs, length xs = BLOCKn -> N.of_nat (length (pack w xs)) = block_size w)
  opt l pss prog st :
  wf_postings l -> has_positions opt = true ->
  (* per document: tf = number of positions; positions in recording order, u32 *)
  map snd l = map tf_of pss ->
  Forall (fun ps => chain_le 0 ps /\ Forall (fun p => p < 2 ^ 32) ps) pss ->
  sum (map snd l) < 2 ^ 32 ->
  Forall valid_op prog ->
  sp_exec (sp_open (expect (Nat.div (length l) BLOCKn) opt true true 0 0 l)) prog = ROk st ->
  sp_doc st <> TERMINATED ->
  exists k, (k < length l)%nat /\ rem st = skipn k l /\ sp_doc st = fst (nth k l (0, 0)) /\
            sp_positions unpack (pos_serialize pack (term_deltas pss)) st = ROk (nth k pss []).
Proof.
  intros Hwf Hp Htf Hpss Hsum Hv Hexec Hdoc.
  set (bs := expect (Nat.div (length l) BLOCKn) opt true true 0 0 l) in *.
  pose proof (div_bounds (length l)) as Hdb.
  assert (Hb : binv bs) by now apply expect_binv.
  assert (Hfl : flatten bs = l).
  { unfold bs. rewrite flatten_expect' by lia. cbn [andb]. unfold project. apply map_fst_snd_id. }
  destruct (inv_open bs Hb) as [I0 R0].
  destruct (sp_exec_list prog _ Hv I0) as [st' [E [Ist Rst]]]. rewrite Hexec in E. injection E as <-.
  rewrite R0, Hfl in Rst. destruct (exec_list_suffix prog l) as [k Ek]. rewrite Ek in Rst.
  pose proof (sp_doc_rem st Ist) as Hd. rewrite Hd in Hdoc.
  assert (Hk : (k < length l)%nat).
  { destruct (Nat.lt_ge_cases k (length l)) as [H|H]; [exact H|]. rewrite Rst, skipn_all2 in Hdoc by exact H. now cbn in Hdoc. }
  exists k. split; [exact Hk|]. split; [exact Rst|].
  rewrite (skipn_nth_cons k l (0, 0) Hk) in Rst.
  split; [rewrite Hd, Rst; destruct (nth k l (0, 0)); reflexivity|].
  (* the position offset *)
  assert (Hpi : posoff_inv (sum (map snd l)) (c_blocks st)).
  { destruct (sp_exec_suffix _ _ _ Hexec) as [n En]. rewrite En. apply posoff_inv_skipn.
    pose proof (expect_posoff_inv (Nat.div (length l) BLOCKn) opt 0 0 l ltac:(lia) Hp Hsum) as H.
    replace (0 + sum (map snd l)) with (sum (map snd l)) in H by lia. exact H. }
  assert (Hne : c_blocks st <> []) by (intros E; unfold rem in Rst; rewrite E in Rst; discriminate).
  pose proof (sp_read_offset_rem _ st Ist Hpi Hne) as Hoff.
  assert (Hrem : rem st = skipn k l) by (rewrite Rst; symmetry; now apply skipn_nth_cons).
  rewrite Hrem, <- skipn_map in Hoff. rewrite (sum_firstn_skipn k (map snd l)) in Hoff.
  assert (Hoff' : sp_read_offset st = sum (map tf_of (firstn k pss))) by (rewrite <- firstn_map, <- Htf; lia).
  assert (Hlen : length pss = length l) by (rewrite <- (map_length tf_of pss), <- Htf; apply map_length).
  assert (Htfk : sp_term_freq st = tf_of (nth k pss [])).
  { rewrite (sp_tf_rem st Ist) by (rewrite Hd; exact Hdoc). rewrite Rst. cbn [cur_tf].
    change [] with (@nil N) . rewrite <- (map_nth tf_of pss [] k) at 1.
    replace (tf_of []) with (snd (0, 0)) by reflexivity. rewrite <- Htf.
    rewrite (map_nth snd l (0, 0) k). destruct (nth k l (0, 0)); reflexivity. }
  unfold sp_positions. unfold sp_read_offset in Hoff'. destruct (c_blocks st) as [|b r]; [congruence|].
  rewrite Htfk. apply (positions_of_kth pack unpack unpack_pack pack_length); try assumption.
  - rewrite <- Htf. lia.
  - lia.
Qed.

(* ---- from the bytes: positions of the current document after any program --------------------------------------------- *)
Theorem seek_positions_roundtrip pack unpack
  (unpack_pack : forall w xs, length xs = BLOCKn -> Forall (fun x => x < 2 ^ w) xs -> unpack w (pack w xs) = xs)
  (pack_length : forall w xs, length xs = BLOCKn -> N.of_nat (length (pack w xs)) = block_size w)
  bw opt req l pss prog :
  wf_postings l -> has_positions opt = true -> has_freq req = true ->
  map snd l = map tf_of pss ->
  Forall (fun ps => chain_le 0 ps /\ Forall (fun p => p < 2 ^ 32) ps) pss ->
  sum (map snd l) < 2 ^ 32 ->
  Forall valid_op prog ->
  exists bs, read_blocks unpack opt req (N.of_nat (length l)) (serialize pack bw opt true l) = ROk bs /\
  exists st, sp_exec (sp_open bs) prog = ROk st /\
  (sp_doc st <> TERMINATED ->
   exists k, (k < length l)%nat /\ rem st = skipn k l /\ sp_doc st = fst (nth k l (0, 0)) /\
             sp_positions unpack (pos_serialize pack (term_deltas pss)) st = ROk (nth k pss [])).
Proof.
  intros Hwf Hp Hreq Htf Hpss Hsum Hv. destruct (wf_postings_pairs l Hwf) as [H1 H2].
  assert (Hf : has_freq opt = true) by (destruct opt; try discriminate; reflexivity).
  destruct (read_blocks_serialize pack unpack unpack_pack pack_length bw opt true req l H1 H2) as [rf [Hrf R]].
  rewrite Hf, Hreq in Hrf. cbn [andb] in Hrf. rewrite andb_true_r in Hrf. subst rf. rewrite Hf in R. cbn [andb] in R.
  eexists. split; [exact R|].
  destruct (inv_open _ (expect_binv opt true true l Hwf)) as [I0 _].
  destruct (sp_exec_list prog _ Hv I0) as [st [E _]]. exists st. split; [exact E|]. intros Hd.
  now apply (sp_positions_list pack unpack unpack_pack pack_length opt l pss prog st).
Qed.

(* ---- a target above TERMINATED (outside the DocSet contract): the call never returns ---------------------------------- *)
Lemma rem_head_In st d tf r : inv st -> rem st = (d, tf) :: r -> In d (docs_of (c_blocks st)).
Proof.
  destruct st as [bs cur]. intros _ Er. unfold rem in Er. cbn [c_blocks c_cur] in *.
  destruct bs as [|b r0]; [discriminate|].
  unfold docs_of. rewrite flatten_cons, <- (firstn_skipn cur (bpairs b)), <- app_assoc, Er.
  rewrite map_app. apply in_or_app. right. now left.
Qed.

Lemma sp_doc_le st : inv st -> sp_doc st <= TERMINATED.
Proof.
  intros Hinv. rewrite (sp_doc_rem st Hinv). destruct (rem st) as [|[d tf] r] eqn:Er; [cbn; lia|].
  pose proof (rem_head_In st d tf r Hinv Er) as Hin. destruct Hinv as [[_ [_ Hf]] _].
  rewrite Forall_forall in Hf. specialize (Hf _ Hin). cbn [cur_doc]. lia.
Qed.

Lemma skip_last_le bs : binv bs -> skip_last bs <= TERMINATED.
Proof.
  destruct bs as [|b r]; [cbn; lia|]. intros [[Hwb _] [_ Hf]]. cbn [skip_last].
  pose proof Hwb as [Htf [[Hfull Hlast]|[_ [_ Hlast]]]]; [|lia].
  assert (Hne : b_docs b <> []) by (intros E'; rewrite E' in Hfull; pose proof BLOCKn_pos; cbn [length] in Hfull; lia).
  assert (Hin : In (last (b_docs b) 0) (docs_of (b :: r))).
  { rewrite (docs_of_cons b r Hwb). apply in_or_app. left. now apply last_In_cons. }
  rewrite Forall_forall in Hf. specialize (Hf _ Hin). lia.
Qed.

Theorem sp_seek_above_terminated_never_returns t st : inv st -> TERMINATED < t ->
  sp_seek t st = RFuel /\ forall fuel, skip_loop fuel t (c_blocks st) = RFuel.
Proof.
  intros Hinv Ht. pose proof BLOCKn_ge2 as H2. split; [|intros fuel; apply skip_loop_hangs; [exact Ht|apply Hinv]].
  unfold sp_seek. pose proof (sp_doc_le st Hinv) as Hd.
  destruct (N.leb_spec t (sp_doc st)); [lia|].
  set (st1 := {| c_blocks := c_blocks st; c_cur := Nat.min (S (c_cur st)) (BLOCKn - 1) |}).
  assert (Hst1 : inv st1) by (split; [apply Hinv|unfold st1; cbn [c_cur]; lia]).
  pose proof (sp_doc_le st1 Hst1) as Hd1. destruct (N.leb_spec t (sp_doc st1)); [lia|].
  unfold skip_seek. pose proof (skip_last_le (c_blocks st) (proj1 Hinv)).
  destruct (N.leb_spec t (skip_last (c_blocks st))); [lia|].
  rewrite skip_loop_hangs; [reflexivity|exact Ht|apply Hinv].
Qed.

(* ---- kary_search::<8> = its specification ------------------------------------------------------------------------------- *)
Definition nondecr (arr : list N) : Prop := forall i j, (i <= j < length arr)%nat -> nth i arr 0 <= nth j arr 0.

Lemma count_lt_prefix t : forall l i, (i < count_lt t l)%nat -> nth i l 0 < t.
Proof.
  induction l as [|x l IH]; intros i Hi; cbn [count_lt] in Hi; [lia|].
  destruct (N.ltb_spec x t) as [H|H]; [|lia]. destruct i as [|i]; [exact H|]. cbn [nth]. apply IH. lia.
Qed.

Lemma count_lt_at t : forall l, (count_lt t l < length l)%nat -> t <= nth (count_lt t l) l 0.
Proof.
  induction l as [|x l IH]; intros H; cbn [count_lt length] in *; [lia|].
  destruct (N.ltb_spec x t) as [Hx|Hx]; [cbn [nth]; apply IH; lia|exact Hx].
Qed.

(* on a non-decreasing array the comparison with the target is a threshold at count_lt *)
Lemma lt_threshold t arr i : nondecr arr -> (i < length arr)%nat -> (nth i arr 0 <? t) = (i <? count_lt t arr)%nat.
Proof.
  intros Hs Hi. destruct (Nat.ltb_spec i (count_lt t arr)) as [H|H].
  - apply N.ltb_lt. now apply count_lt_prefix.
  - apply N.ltb_ge. assert (Hc : (count_lt t arr < length arr)%nat) by lia.
    pose proof (count_lt_at t arr Hc). pose proof (Hs (count_lt t arr) i ltac:(lia)). lia.
Qed.

Lemma lt_count_threshold t arr idxs : nondecr arr -> Forall (fun i => (i < length arr)%nat) idxs ->
  lt_count arr t idxs = length (filter (fun i => (i <? count_lt t arr)%nat) idxs).
Proof.
  intros Hs Hi. unfold lt_count. f_equal. apply filter_ext_in. intros i Hin.
  rewrite Forall_forall in Hi. now apply lt_threshold, Hi.
Qed.

Lemma kary_loop_S f arr t base range :
  kary_loop (S f) arr t base range =
  let step := Nat.div range KARY in
  if (step =? 0)%nat then (base, range)
  else kary_loop f arr t (base + lt_count arr t (map (fun i => base + i * step - 1)%nat (seq 1 (KARY - 1))) * step) step.
Proof. reflexivity. Qed.

(* one reduction round keeps the answer inside [base, base + step) *)
Lemma kary_round_inv t arr c base step : nondecr arr -> c = count_lt t arr ->
  (0 < step)%nat -> (base <= c < base + 8 * step)%nat -> (base + 8 * step <= length arr)%nat ->
  let count := lt_count arr t (map (fun i => base + i * step - 1)%nat (seq 1 7)) in
  (base + count * step <= c < base + count * step + step)%nat.
Proof.
  intros Hs Hc Hstep Hb Hlen. cbv zeta.
  rewrite lt_count_threshold; [|exact Hs|].
  2:{ cbn [seq map]. repeat constructor; lia. }
  rewrite <- Hc. cbn [seq map filter].
  destruct (Nat.ltb_spec (base + 1 * step - 1) c); destruct (Nat.ltb_spec (base + 2 * step - 1) c);
  destruct (Nat.ltb_spec (base + 3 * step - 1) c); destruct (Nat.ltb_spec (base + 4 * step - 1) c);
  destruct (Nat.ltb_spec (base + 5 * step - 1) c); destruct (Nat.ltb_spec (base + 6 * step - 1) c);
  destruct (Nat.ltb_spec (base + 7 * step - 1) c); cbn [length]; lia.
Qed.

Lemma BLOCKn_128 : BLOCKn = 128%nat. Proof. vm_compute. reflexivity. Qed.

Theorem kary_search8_spec arr t : length arr = BLOCKn -> nondecr arr -> t <= nth (BLOCKn - 1) arr 0 ->
  kary_search8 arr t = count_lt t arr.
Proof.
  intros Hlen Hs Hlast. rewrite BLOCKn_128 in *. set (c := count_lt t arr).
  assert (Hc : (c < 128)%nat).
  { rewrite <- Hlen. apply (count_lt_stop t arr (nth (128 - 1) arr 0)); [apply nth_In; lia|exact Hlast]. }
  unfold kary_search8. rewrite BLOCKn_128.
  rewrite kary_loop_S. change (Nat.div 128 KARY) with 16%nat. change (KARY - 1)%nat with 7%nat. cbv zeta.
  change (16 =? 0)%nat with false. cbv iota.
  pose proof (kary_round_inv t arr c 0 16 Hs eq_refl ltac:(lia) ltac:(lia) ltac:(lia)) as R1. cbv zeta in R1.
  set (b1 := (0 + lt_count arr t (map (fun i => (0 + i * 16 - 1)%nat) (seq 1 7)) * 16)%nat) in *.
  rewrite kary_loop_S. change (Nat.div 16 KARY) with 2%nat. change (KARY - 1)%nat with 7%nat. cbv zeta.
  change (2 =? 0)%nat with false. cbv iota.
  pose proof (kary_round_inv t arr c b1 2 Hs eq_refl ltac:(lia) ltac:(lia) ltac:(lia)) as R2. cbv zeta in R2.
  set (b2 := (b1 + lt_count arr t (map (fun i => (b1 + i * 2 - 1)%nat) (seq 1 7)) * 2)%nat) in *.
  rewrite kary_loop_S. change (Nat.div 2 KARY) with 0%nat. cbv zeta. change (0 =? 0)%nat with true. cbv iota.
  rewrite lt_count_threshold; [|exact Hs|cbn [seq map]; repeat constructor; lia].
  fold c. cbn [seq map filter].
  destruct (Nat.ltb_spec (b2 + 0) c); destruct (Nat.ltb_spec (b2 + 1) c); cbn [length]; lia.
Qed.

Lemma incr_nth_lt : forall l, incr l -> forall i j, (i < j < length l)%nat -> nth i l 0 < nth j l 0.
Proof.
  induction l as [|x l IH]; intros Hi i j Hij; [cbn [length] in Hij; lia|].
  destruct Hi as [H1 H2]. destruct j as [|j]; [lia|]. cbn [length] in Hij. destruct i as [|i].
  - cbn [nth]. rewrite Forall_forall in H1. apply H1, nth_In. lia.
  - cbn [nth]. apply IH; [exact H2|lia].
Qed.

Lemma nth_last_own (l : list N) d : nth (length l - 1) l d = last l d.
Proof.
  induction l as [|x l IH]; [reflexivity|]. destruct l as [|y r]; [reflexivity|].
  change (last (x :: y :: r) d) with (last (y :: r) d). rewrite <- IH. cbn [length]. replace (S (S (length r)) - 1)%nat with (S (length r)) by lia. replace (S (length r) - 1)%nat with (length r) by lia. reflexivity.
Qed.

(* the decoder's output array of every block of a well-formed sequence meets the assumptions of the search *)
Lemma doc_output_search bs t : binv bs -> t <= TERMINATED -> t <= skip_last bs ->
  kary_search8 (doc_output bs) t = count_lt t (doc_output bs).
Proof.
  intros [Hw [Hi Hf]] Ht Hl. pose proof BLOCKn_pos as Hbp.
  assert (Hgen : forall docs, (length docs <= BLOCKn)%nat -> incr docs -> Forall (fun d => d < TERMINATED) docs ->
                 (length docs = BLOCKn -> t <= last docs 0) ->
                 kary_search8 (pad_docs docs) t = count_lt t (pad_docs docs)).
  { intros docs Hlen Hinc Hlt Hfull.
    assert (Hpl : length (pad_docs docs) = BLOCKn) by (unfold pad_docs; rewrite app_length, repeat_length; lia).
    assert (Hnth : forall i, (i < BLOCKn)%nat -> nth i (pad_docs docs) 0 = if (i <? length docs)%nat then nth i docs 0 else TERMINATED).
    { intros i Hi'. unfold pad_docs. destruct (Nat.ltb_spec i (length docs)) as [H|H].
      - now apply app_nth1.
      - rewrite app_nth2 by exact H. apply nth_error_nth. apply nth_error_repeat. lia. }
    apply kary_search8_spec; [exact Hpl| |].
    - intros i j Hij. rewrite Hpl in Hij. rewrite !Hnth by lia.
      destruct (Nat.ltb_spec i (length docs)) as [Hi'|Hi'], (Nat.ltb_spec j (length docs)) as [Hj|Hj]; try lia.
      + destruct (Nat.eq_dec i j) as [->|Hne]; [lia|]. pose proof (incr_nth_lt docs Hinc i j ltac:(lia)). lia.
      + rewrite Forall_forall in Hlt. pose proof (Hlt _ (nth_In docs 0 Hi')). lia.
    - rewrite Hnth by lia. destruct (Nat.ltb_spec (BLOCKn - 1) (length docs)) as [H|H]; [|exact Ht].
      assert (Hlen' : length docs = BLOCKn) by lia. specialize (Hfull Hlen').
      rewrite <- Hlen', nth_last_own. exact Hfull. }
  unfold doc_output. destruct bs as [|b r].
  - apply Hgen; [cbn [length]; lia|exact I|constructor|cbn [length]; lia].
  - destruct Hw as [Hwb Hw]. rewrite (docs_of_cons b r Hwb) in Hi, Hf. apply incr_app in Hi. apply Forall_app in Hf.
    cbn [skip_last] in Hl. apply Hgen; [|tauto|tauto|].
    + destruct Hwb as [_ [[Hfull _]|[Hshort _]]]; lia.
    + intros Hfull. destruct Hwb as [_ [[_ Hlast]|[Hshort _]]]; [now rewrite <- Hlast|lia].
Qed.

(* SegmentPostings::seek with the transliterated k-ary search in place of its specification: the same function on
   every state a valid program can reach *)
Definition sp_seek_kary (t : N) (st : cursor) : rd cursor :=
  if t <=? sp_doc st then ROk st
  else
    let st1 := {| c_blocks := c_blocks st; c_cur := Nat.min (S (c_cur st)) (BLOCKn - 1) |} in
    if t <=? sp_doc st1 then ROk st1
    else match skip_seek t (c_blocks st) with
         | ROk bs' => let idx := kary_search8 (doc_output bs') t in
                      if (BLOCKn <=? idx)%nat then RPanic else ROk {| c_blocks := bs'; c_cur := idx |}
         | RPanic => RPanic
         | RFuel => RFuel
         end.

Theorem sp_seek_kary_eq t st : t <= TERMINATED -> inv st -> sp_seek_kary t st = sp_seek t st.
Proof.
  intros Ht [Hb _]. unfold sp_seek_kary, sp_seek.
  destruct (t <=? sp_doc st); [reflexivity|]. destruct (t <=? sp_doc _); [reflexivity|].
  destruct (skip_seek_spec t (c_blocks st) Ht Hb) as [bs' [E [B [L _]]]]. rewrite E. cbv zeta.
  now rewrite (doc_output_search bs' t B Ht L).
Qed.
