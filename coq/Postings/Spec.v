(* The definitional inverted index (specification layer of C07).
   Input: per document, the token streams that tantivy's analyzer produced for the values of one field
   (analysis itself is C19's business), grouped the way /repo/src/indexer/segment_writer.rs::index_document
   shares an IndexingPosition: one group per field, or one group per JSON path (json_utils.rs:
   IndexingPositionsPerPath).  Output: distinct terms in byte order, each with (doc, tf, positions);
   doc_freq, total number of tokens, field norm. Position arithmetic: postings_writer.rs::index_text. *)
From TV Require Import Base.Prelude Generated.Constants Postings.Codec Postings.FieldNorm.
Local Open Scope N_scope.

Definition token := (bytes * N * N)%type.          (* term bytes, position, position_length *)
Definition value := list token.                    (* token stream of one value *)
Definition group := (bool * list value)%type.      (* true: text (records tf/positions as the field says) *)
Definition docin := list group.

(* index_text: tokens longer than MAX_TOKEN_LEN are dropped; start = end_position(before the value) + token.position;
   end_position = max(end_position, start + position_length); after the value: end_position += POSITION_GAP *)
Fixpoint value_occ (base endp : N) (toks : value) : list (bytes * N) * N :=
  match toks with
  | [] => ([], endp)
  | (t, p, len) :: r =>
      if MAX_TOKEN_LEN <? N.of_nat (length t) then value_occ base endp r
      else let s := base + p in
           let '(o, e) := value_occ base (N.max endp (s + len)) r in ((t, s) :: o, e)
  end.

Fixpoint group_occ (base : N) (vs : list value) : list (bytes * N) :=
  match vs with
  | [] => []
  | v :: r => let '(o, e) := value_occ base base v in o ++ group_occ (e + POSITION_GAP) r
  end.

(* occurrences (term, position, is_text) of one document, in the order they are recorded *)
Definition doc_occ (d : docin) : list (bytes * N * bool) :=
  flat_map (fun g : group => map (fun o => (fst o, snd o, fst g)) (group_occ 0 (snd g))) d.

(* byte order *)
Fixpoint bytes_cmp (a b : bytes) : comparison :=
  match a, b with
  | [], [] => Eq
  | [], _ => Lt
  | _, [] => Gt
  | x :: a', y :: b' => match N.compare x y with Eq => bytes_cmp a' b' | c => c end
  end.
Definition bytes_eqb (a b : bytes) : bool := match bytes_cmp a b with Eq => true | _ => false end.

Fixpoint insert_term (t : bytes) (l : list bytes) : list bytes :=
  match l with
  | [] => [t]
  | u :: r => match bytes_cmp t u with
              | Lt => t :: l
              | Eq => l
              | Gt => u :: insert_term t r
              end
  end.
Definition distinct_sorted (ts : list bytes) : list bytes := fold_right insert_term [] ts.

Definition all_terms (docs : list docin) : list bytes :=
  distinct_sorted (flat_map (fun d => map (fun o => fst (fst o)) (doc_occ d)) docs).

Definition posting := (N * N * list N)%type.       (* doc, tf, positions *)

Fixpoint postings_from (i : N) (t : bytes) (docs : list docin) : list posting :=
  match docs with
  | [] => []
  | d :: r => let ps := map (fun o => snd (fst o)) (filter (fun o => bytes_eqb (fst (fst o)) t) (doc_occ d)) in
              match ps with
              | [] => postings_from (i + 1) t r
              | _ => (i, N.of_nat (length ps), ps) :: postings_from (i + 1) t r
              end
  end.

(* is the term produced by a text group?  (JSON: string leaves; non-text leaves are recorded like numeric fields) *)
Definition term_is_text (t : bytes) (docs : list docin) : bool :=
  existsb (fun d => existsb (fun o => bytes_eqb (fst (fst o)) t && snd o) (doc_occ d)) docs.

(* what a reader may observe under a record option *)
Definition project1 (o : record_option) (p : posting) : posting :=
  let '(d, tf, ps) := p in (d, if has_freq o then tf else 1, if has_positions o then ps else []).

Definition index_spec (opt : record_option) (docs : list docin) : list (bytes * list posting) :=
  map (fun t => (t, map (project1 (if term_is_text t docs then opt else Basic)) (postings_from 0 t docs))) (all_terms docs).

Definition total_num_tokens (docs : list docin) : N := sum (map (fun d => N.of_nat (length (doc_occ d))) docs).
Definition doc_num_tokens (d : docin) : N := N.of_nat (length (doc_occ d)).
(* FieldNormsWriter::record(doc, field, num_tokens) -> fieldnorm_to_id *)
Definition fieldnorm_ids (docs : list docin) : list N := map (fun d => fieldnorm_to_id (doc_num_tokens d)) docs.

(* ---- comparison with what the implementation returned --------------------------------------------------- *)
Definition posting_eqb (a b : posting) : bool :=
  let '(d1, t1, p1) := a in let '(d2, t2, p2) := b in (d1 =? d2) && (t1 =? t2) && list_eqb N.eqb p1 p2.
Definition entry_eqb (a b : bytes * list posting) : bool :=
  list_eqb N.eqb (fst a) (fst b) && list_eqb posting_eqb (snd a) (snd b).
Definition index_eqb (a b : list (bytes * list posting)) : bool := list_eqb entry_eqb a b.

(* full check of one field of one segment: terms + postings, doc_freq per term, total tokens, fieldnorm ids *)
Definition check_field (opt : record_option) (docs : list docin)
           (observed : list (bytes * list posting)) (doc_freqs : list N) (total : N) (norms : option (list N)) : bool :=
  index_eqb (index_spec opt docs) observed &&
  list_eqb N.eqb (map (fun e => N.of_nat (length (snd e))) (index_spec opt docs)) doc_freqs &&
  (total_num_tokens docs =? total) &&
  match norms with None => true | Some ns => list_eqb N.eqb (fieldnorm_ids docs) ns end.

(* ---- DocSet semantics of a posting list (instance of C13's list specification) --------------------------- *)
Inductive op := OAdvance | OSeek (t : N).

Fixpoint first_ge (t : N) (l : list (N * N)) : list (N * N) :=
  match l with [] => [] | (d, tf) :: r => if t <=? d then l else first_ge t r end.

Definition cur_doc (l : list (N * N)) : N := match l with [] => TERMINATED | (d, _) :: _ => d end.
Definition cur_tf (l : list (N * N)) : N := match l with [] => 0 | (_, tf) :: _ => tf end.

(* state = the documents not yet passed (head = current) *)
Definition step_list (l : list (N * N)) (o : op) : list (N * N) :=
  match o with
  | OAdvance => tl l
  | OSeek t => first_ge t l
  end.

Fixpoint run_list (l : list (N * N)) (prog : list op) : list (N * N) :=
  match prog with
  | [] => []
  | o :: r => let l' := step_list l o in (cur_doc l', cur_tf l') :: run_list l' r
  end.

(* observed (doc, tf) pairs; tf is only meaningful on a document *)
Definition obs_eqb (a b : N * N) : bool :=
  (fst a =? fst b) && ((fst a =? TERMINATED) || (snd a =? snd b)).

(* ---- the dictionary order is strict ------------------------------------------------------------------------ *)
Fixpoint strictly_sorted (l : list bytes) : Prop :=
  match l with
  | [] => True
  | a :: r => match r with [] => True | b :: _ => bytes_cmp a b = Lt end /\ strictly_sorted r
  end.

Lemma bytes_cmp_antisym a b : bytes_cmp a b = CompOpp (bytes_cmp b a).
Proof.
  revert b; induction a as [|x a IH]; intros [|y b]; cbn [bytes_cmp]; try reflexivity.
  rewrite (N.compare_antisym y x). destruct (y ?= x); cbn [CompOpp]; auto.
Qed.

Lemma insert_term_sorted t l : strictly_sorted l -> strictly_sorted (insert_term t l).
Proof.
  induction l as [|u r IH]; intros H; [cbn; auto|].
  cbn [insert_term]. destruct (bytes_cmp t u) eqn:E.
  - exact H.
  - split; [exact E|exact H].
  - destruct H as [H1 H2]. specialize (IH H2).
    assert (Hut : bytes_cmp u t = Lt) by (rewrite bytes_cmp_antisym, E; reflexivity).
    split; [|exact IH].
    destruct r as [|v r']; [cbn [insert_term]; exact Hut|].
    cbn [insert_term]. destruct (bytes_cmp t v); [exact H1|exact Hut|exact H1].
Qed.

Lemma distinct_sorted_sorted ts : strictly_sorted (distinct_sorted ts).
Proof. induction ts as [|t ts IH]; [exact I|]. cbn [distinct_sorted fold_right]. now apply insert_term_sorted. Qed.

Lemma index_spec_terms opt docs : map fst (index_spec opt docs) = all_terms docs.
Proof. unfold index_spec. rewrite map_map. cbn [fst]. apply map_id. Qed.

Theorem index_spec_sorted opt docs : strictly_sorted (map fst (index_spec opt docs)).
Proof. rewrite index_spec_terms. apply distinct_sorted_sorted. Qed.
