(* What a merge writes for the parts of the inverted index that are NOT re-encoded posting lists:
   /repo/src/indexer/merger.rs  IndexMerger::write_fieldnorms          (field norms of the merged segment)
                                estimate_total_num_tokens(_in_single_segment)   (total_num_tokens of a merged field)
   The posting lists of a merged segment go through the same serializer (C07_roundtrip); that the merged segment
   holds the same logical documents is C04's business.  Here: per field, the field-norm bytes of the merged
   segment are those of the source documents -- independently of the other fields although one scratch buffer is
   shared -- and the total token count is the documented estimate. *)
From TV Require Import Base.Prelude Generated.Constants Postings.Codec Postings.FieldNorm Postings.Spec.
Local Open Scope N_scope.

(* old doc address: (segment ordinal, doc id); doc_id_mapping.iter_old_doc_addrs() lists them in new doc-id order *)
Definition addr := (nat * nat)%type.
(* fieldnorm_readers[segment_ord].fieldnorm_id(doc_id) *)
Definition norm_at (segs : list (list N)) (a : addr) : N := nth (snd a) (nth (fst a) segs []) 0.

(* `for old_doc_addr in ... { fieldnorms_data.push(fieldnorm_id) }` *)
Definition push_all (buf : list N) (segs : list (list N)) (mapping : list addr) : list N :=
  fold_left (fun b a => b ++ [norm_at segs a]) mapping buf.

(* the per-field loop of write_fieldnorms; `buf` is the scratch Vec shared by all fields:
     for field in fields { fieldnorms_data.clear(); ...push...; serialize_field(field, &fieldnorms_data[..]) } *)
Fixpoint write_fieldnorms (buf : list N) (fields : list (list (list N))) (mapping : list addr) : list (list N) :=
  match fields with
  | [] => []
  | segs :: r => let cleared : list N := [] in            (* fieldnorms_data.clear() *)
                 let buf' := push_all cleared segs mapping in
                 buf' :: write_fieldnorms buf' r mapping
  end.

Lemma push_all_map buf segs mapping : push_all buf segs mapping = buf ++ map (norm_at segs) mapping.
Proof.
  unfold push_all. revert buf; induction mapping as [|a m IH]; intros buf; cbn [fold_left map]; [now rewrite app_nil_r|].
  rewrite IH, <- app_assoc. reflexivity.
Qed.

(* every field gets exactly the norms of its own source documents, whatever the scratch buffer held before *)
Theorem write_fieldnorms_spec : forall fields buf mapping,
  write_fieldnorms buf fields mapping = map (fun segs => map (norm_at segs) mapping) fields.
Proof.
  induction fields as [|segs r IH]; intros buf mapping; [reflexivity|].
  cbn [write_fieldnorms map]. rewrite push_all_map. cbn [app]. now rewrite IH.
Qed.

(* ... hence the norm of a merged document is the quantised token count of the document it comes from *)
Definition doc_at {A} (segs : list (list A)) (d : A) (a : addr) : A := nth (snd a) (nth (fst a) segs []) d.

Theorem merged_norms_agree : forall (src : list (list docin)) (mapping : list addr),
  Forall (fun a => (fst a < length src)%nat /\ (snd a < length (nth (fst a) src []))%nat) mapping ->
  map (norm_at (map fieldnorm_ids src)) mapping = fieldnorm_ids (map (doc_at src []) mapping).
Proof.
  intros src mapping H. unfold fieldnorm_ids at 2. rewrite map_map. apply map_ext_in. intros a Ha.
  rewrite Forall_forall in H. destruct (H a Ha) as [H1 H2]. unfold norm_at, doc_at.
  replace (nth (fst a) (map fieldnorm_ids src) []) with (fieldnorm_ids (nth (fst a) src [])).
  2:{ change (@nil N) with (fieldnorm_ids []). now rewrite map_nth. }
  unfold fieldnorm_ids. change 0 with ((fun d => fieldnorm_to_id (doc_num_tokens d)) []) at 1.
  - rewrite map_nth. reflexivity.
Qed.

(* ---- total_num_tokens of a merged field: estimate_total_num_tokens ---------------------------------------- *)
Definition alive_docs (docs : list docin) (alive : list bool) : list docin := map fst (filter snd (combine docs alive)).

(* one source segment: exact when it has no deletes; with deletes and field norms: sum over the alive documents of
   the DEQUANTISED norm; with deletes and no field norms: pro rata (computed in f64 by the code; the integer floor
   is used here and that branch is compared on the implementation side with the same f64 expression) *)
Definition est_source (normed : bool) (docs : list docin) (alive : list bool) : N :=
  if forallb (fun a : bool => a) alive then total_num_tokens docs
  else if normed
       then sum (map (fun d => id_to_fieldnorm (fieldnorm_to_id (doc_num_tokens d))) (alive_docs docs alive))
       else total_num_tokens docs * N.of_nat (length (alive_docs docs alive)) / N.of_nat (length docs).

Definition merged_total (normed : bool) (sources : list (list docin * list bool)) : N :=
  sum (map (fun s => est_source normed (fst s) (snd s)) sources).

(* the estimate never exceeds the exact count of the surviving documents and is exact when every surviving
   document is short enough for its norm to be exact *)
Lemma dequantised_le ds :
  sum (map (fun d => id_to_fieldnorm (fieldnorm_to_id (doc_num_tokens d))) ds) <= total_num_tokens ds.
Proof.
  unfold total_num_tokens. induction ds as [|d ds IH]; [cbn; lia|].
  cbn [map]. unfold sum in *. cbn [fold_right].
  pose proof (fieldnorm_bracket (doc_num_tokens d)) as [_ [H _]]. unfold doc_num_tokens in *. lia.
Qed.

Lemma dequantised_exact ds : Forall (fun d => doc_num_tokens d <= EXACT_BELOW) ds ->
  sum (map (fun d => id_to_fieldnorm (fieldnorm_to_id (doc_num_tokens d))) ds) = total_num_tokens ds.
Proof.
  unfold total_num_tokens. induction ds as [|d ds IH]; intros H; [reflexivity|].
  inversion H as [|? ? Hd Hr]; subst. cbn [map]. unfold sum in *. cbn [fold_right]. rewrite IH by exact Hr.
  destruct (fieldnorm_exact_small _ Hd) as [_ E]. unfold doc_num_tokens in *. rewrite E. reflexivity.
Qed.

Theorem est_source_normed : forall docs alive,
  forallb (fun a : bool => a) alive = false ->
  est_source true docs alive <= total_num_tokens (alive_docs docs alive) /\
  (Forall (fun d => doc_num_tokens d <= EXACT_BELOW) (alive_docs docs alive) ->
   est_source true docs alive = total_num_tokens (alive_docs docs alive)).
Proof.
  intros docs alive H. unfold est_source. rewrite H. split; [apply dequantised_le|apply dequantised_exact].
Qed.
