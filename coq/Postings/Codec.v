(* Posting-list codec.
   Writer : /repo/src/postings/serializer.rs  PostingsSerializer::{new_term, write_doc, write_block, close_term}
            /repo/src/postings/skip.rs        SkipSerializer::{write_doc, write_term_freq, write_total_term_freq,
                                               write_blockwand_max}, encode_bitwidth
            /repo/src/postings/compression/mod.rs  BlockEncoder::{compress_block_sorted, compress_block_unsorted},
                                               compressed_block_size
   Reader : /repo/src/postings/skip.rs        SkipReader::{new, read_block_info, advance}, decode_bitwidth
            /repo/src/postings/block_segment_postings.rs  split_into_skips_and_postings, open, load_block,
                                               decode_bitpacked_block, decode_vint_block, advance
   The 128-value bit-packed block codec of the external `bitpacking` crate (BitPacker4x: compress /
   decompress of RAW values) is a Section variable with its contract as Section hypotheses; the
   strict-delta transform that the crate applies around it (compress_strictly_sorted,
   num_bits_strictly_sorted: `initial.unwrap_or(u32::MAX)`, wrapping) is modelled explicitly. *)
From TV Require Import Base.Prelude Generated.Constants Postings.VInt.
Local Open Scope N_scope.

Inductive record_option := Basic | WithFreqs | WithFreqsAndPositions.
Definition has_freq (o : record_option) : bool := match o with Basic => false | _ => true end.
Definition has_positions (o : record_option) : bool := match o with WithFreqsAndPositions => true | _ => false end.

Definition BLOCK : N := COMPRESSION_BLOCK_SIZE.
Definition BLOCKn : nat := N.to_nat BLOCK.
Lemma BLOCK_pos : 0 < BLOCK. Proof. vm_compute. reflexivity. Qed.
Lemma BLOCK_mod8 : BLOCK mod 8 = 0. Proof. vm_compute. reflexivity. Qed.
Lemma BLOCKn_N : N.of_nat BLOCKn = BLOCK. Proof. unfold BLOCKn. apply N2Nat.id. Qed.
Lemma BLOCKn_pos : (0 < BLOCKn)%nat. Proof. pose proof BLOCK_pos. unfold BLOCKn. lia. Qed.
(* compressed_block_size(num_bits) = num_bits * COMPRESSION_BLOCK_SIZE / 8 *)
Definition block_size (w : N) : N := w * BLOCK / 8.
Lemma block_size_add a b : block_size (a + b) = block_size a + block_size b.
Proof.
  unfold block_size. pose proof BLOCK_mod8 as H.
  apply N.mod_divide in H; [|lia]. destruct H as [k Hk]. rewrite Hk.
  replace ((a + b) * (k * 8)) with ((a + b) * k * 8) by lia.
  replace (a * (k * 8)) with (a * k * 8) by lia. replace (b * (k * 8)) with (b * k * 8) by lia.
  rewrite !N.div_mul by lia. lia.
Qed.

Lemma block_size_0 : block_size 0 = 0. Proof. reflexivity. Qed.

(* results of readers: a panic / index out of bounds of the Rust code, and running out of fuel, are
   distinct from each other and from every value *)
Inductive rd (A : Type) := ROk (a : A) | RPanic | RFuel.
Arguments ROk {A} a. Arguments RPanic {A}. Arguments RFuel {A}.

(* ---- bit widths -------------------------------------------------------------------------- *)

(* BitPacker::num_bits : 32 - leading_zeros(OR of all values) *)
Definition or_all (l : list N) : N := fold_right N.lor 0 l.
Definition num_bits (l : list N) : N := N.size (or_all l).

Lemma size_le_iff x w : x < 2 ^ w <-> N.size x <= w.
Proof.
  split; intros H.
  - destruct (N.eq_dec x 0) as [->|Hx]; [cbn; lia|].
    rewrite N.size_log2 by exact Hx. apply N.log2_lt_pow2 in H; lia.
  - pose proof (N.size_gt x). assert (2 ^ N.size x <= 2 ^ w) by (apply N.pow_le_mono_r; lia). lia.
Qed.

Lemma size_lor a b : N.size (N.lor a b) = N.max (N.size a) (N.size b).
Proof.
  destruct (N.eq_dec a 0) as [->|Ha]; [rewrite N.lor_0_l; cbn [N.size]; lia|].
  destruct (N.eq_dec b 0) as [->|Hb]; [rewrite N.lor_0_r; cbn [N.size]; lia|].
  assert (N.lor a b <> 0) by (intros E; apply N.lor_eq_0_iff in E; tauto).
  rewrite !N.size_log2 by assumption. rewrite N.log2_lor. lia.
Qed.

Lemma num_bits_cons x l : num_bits (x :: l) = N.max (N.size x) (num_bits l).
Proof. unfold num_bits. cbn [or_all fold_right]. apply size_lor. Qed.

(* the width chosen is the least w with every value < 2^w *)
Lemma num_bits_fits l : Forall (fun x => x < 2 ^ num_bits l) l.
Proof.
  induction l as [|x l IH]; [constructor|].
  rewrite num_bits_cons. constructor.
  - apply size_le_iff. lia.
  - eapply Forall_impl; [|exact IH]. cbv beta. intros y Hy.
    assert (2 ^ num_bits l <= 2 ^ N.max (N.size x) (num_bits l)) by (apply N.pow_le_mono_r; lia). lia.
Qed.

Lemma num_bits_least l w : Forall (fun x => x < 2 ^ w) l -> num_bits l <= w.
Proof.
  induction l as [|x l IH]; intros H; [cbn; lia|].
  inversion H as [|? ? Hx Hl]; subst. rewrite num_bits_cons. apply size_le_iff in Hx. specialize (IH Hl). lia.
Qed.

(* ---- strict delta (bitpacking: StrictDeltaComputer / StrictDeltaIntegrate) ----------------- *)

(* compress_block_sorted: `let offset = if offset == 0 { None } else { Some(offset) }`; the crate then
   uses initial = offset.unwrap_or(u32::MAX) and delta = cur - prev - 1 (wrapping):
   with None, v0 - u32::MAX - 1 = v0 (mod 2^32). *)
Definition strict_first (offset v0 : N) : N := if offset =? 0 then v0 else v0 - offset - 1.
Fixpoint strict_rest (prev : N) (l : list N) : list N :=
  match l with [] => [] | v :: r => (v - prev - 1) :: strict_rest v r end.
Definition strict_deltas (offset : N) (l : list N) : list N :=
  match l with [] => [] | v0 :: r => strict_first offset v0 :: strict_rest v0 r end.

Fixpoint integ_rest (prev : N) (ds : list N) : list N :=
  match ds with [] => [] | d :: r => let v := prev + d + 1 in v :: integ_rest v r end.
Definition strict_integrate (offset : N) (ds : list N) : list N :=
  match ds with
  | [] => []
  | d0 :: r => let v0 := if offset =? 0 then d0 else offset + d0 + 1 in v0 :: integ_rest v0 r
  end.

Fixpoint chain_lt (prev : N) (l : list N) : Prop :=
  match l with [] => True | v :: r => prev < v /\ chain_lt v r end.
(* docs of one term: strictly increasing; the first one is not below the offset (strictly above unless the
   offset is 0, which stands for "no previous document") *)
Definition sorted_from (offset : N) (l : list N) : Prop :=
  match l with [] => True | v0 :: r => (offset = 0 \/ offset < v0) /\ chain_lt v0 r end.

Lemma integ_strict_rest prev l : chain_lt prev l -> integ_rest prev (strict_rest prev l) = l.
Proof.
  revert prev; induction l as [|v l IH]; intros prev H; [reflexivity|].
  destruct H as [H1 H2]. cbn [strict_rest integ_rest].
  replace (prev + (v - prev - 1) + 1) with v by lia. now rewrite IH.
Qed.

Lemma strict_integrate_deltas offset l : sorted_from offset l -> strict_integrate offset (strict_deltas offset l) = l.
Proof.
  destruct l as [|v0 r]; [reflexivity|]. intros [H1 H2].
  cbn [strict_deltas strict_integrate]. unfold strict_first.
  destruct (offset =? 0) eqn:E.
  - now rewrite integ_strict_rest.
  - apply N.eqb_neq in E. replace (offset + (v0 - offset - 1) + 1) with v0 by lia. now rewrite integ_strict_rest.
Qed.

Lemma strict_deltas_length offset l : length (strict_deltas offset l) = length l.
Proof.
  destruct l as [|v0 r]; [reflexivity|]. cbn [strict_deltas length]. f_equal.
  revert v0; induction r as [|v r IH]; intros v0; [reflexivity|]. cbn [strict_rest length]. now rewrite IH.
Qed.

Lemma strict_rest_bound prev l b : chain_lt prev l -> Forall (fun v => v < b) l -> Forall (fun d => d < b) (strict_rest prev l).
Proof.
  revert prev; induction l as [|v l IH]; intros prev H Hl; [constructor|].
  destruct H as [H1 H2]. inversion Hl; subst. cbn [strict_rest]. constructor; [lia|now apply IH].
Qed.

Lemma strict_deltas_bound offset l b : sorted_from offset l -> Forall (fun v => v < b) l -> Forall (fun d => d < b) (strict_deltas offset l).
Proof.
  destruct l as [|v0 r]; [constructor|]. intros [H1 H2] Hl. inversion Hl; subst.
  cbn [strict_deltas]. constructor.
  - unfold strict_first. destruct (offset =? 0); lia.
  - now apply strict_rest_bound.
Qed.

(* ---- skip entries ---------------------------------------------------------------------------- *)

(* encode_bitwidth(bitwidth, delta_1 = true) = bitwidth | (1 << 6)   [assert!(bitwidth < 32): panic otherwise] *)
Definition encode_bitwidth (w : N) : N := N.lor w 64.
(* decode_bitwidth(raw) = (raw & 0x1f, ((raw >> 6) & 1) != 0) *)
Definition decode_bitwidth (raw : N) : N * bool := (N.land raw 31, negb (N.land (N.shiftr raw 6) 1 =? 0)).

Lemma decode_encode_bitwidth w : w < 32 -> decode_bitwidth (encode_bitwidth w) = (w, true).
Proof.
  intros Hw.
  assert (H : forallb (fun k => let w := N.of_nat k in
              (fst (decode_bitwidth (encode_bitwidth w)) =? w) && snd (decode_bitwidth (encode_bitwidth w))) (seq 0 32) = true)
    by (vm_compute; reflexivity).
  rewrite forallb_forall in H. specialize (H (N.to_nat w)). rewrite N2Nat.id in H.
  specialize (H ltac:(apply in_seq; lia)). cbv zeta in H. apply andb_true_iff in H. destruct H as [H1 H2].
  apply N.eqb_eq in H1. destruct (decode_bitwidth (encode_bitwidth w)) as [a b]. cbn [fst snd] in *. now subst.
Qed.

Lemma encode_bitwidth_byte w : w < 32 -> encode_bitwidth w < 256.
Proof.
  intros Hw. unfold encode_bitwidth.
  assert (N.size (N.lor w 64) <= 8).
  { rewrite size_lor. assert (N.size w <= 5) by (apply size_le_iff; change (2 ^ 5) with 32; lia).
    change (N.size 64) with 7. lia. }
  apply size_le_iff in H. change (2 ^ 8) with 256 in H. exact H.
Qed.

(* encode_block_wand_max_tf / decode_block_wand_max_tf *)
Definition encode_bw_tf (tf : N) : N := N.min tf 255.

Record skip_entry := {
  se_last_doc : N;      (* last doc of the block *)
  se_doc_bits : N;
  se_strict : bool;
  se_tf_bits : N;
  se_tf_sum : N;        (* sum of the term frequencies of the block (positions only) *)
  se_bw_fieldnorm : N;
  se_bw_tf : N }.

(* SkipSerializer: write_doc ; [write_term_freq ; [write_total_term_freq] ; write_blockwand_max] *)
Definition entry_bytes (opt : record_option) (term_has_freq : bool) (last w tfw tfsum : N) (bw : N * N) : bytes :=
  le_bytes 4 last ++ [encode_bitwidth w] ++
  (if term_has_freq
   then [tfw] ++ (if has_positions opt then le_bytes 4 tfsum else []) ++ [fst bw; encode_bw_tf (snd bw)]
   else []).

(* SkipReader::read_block_info: entry length and field positions per record option *)
Definition entry_len (o : record_option) : nat :=
  N.to_nat match o with Basic => SKIP_ENTRY_LEN_BASIC | WithFreqs => SKIP_ENTRY_LEN_FREQS
                      | WithFreqsAndPositions => SKIP_ENTRY_LEN_POSITIONS end.

Definition parse_entry (o : record_option) (skip : bytes) : option (skip_entry * bytes) :=
  if (length skip <? entry_len o)%nat then None       (* slice index out of range *)
  else
    let last := le_value (firstn 4 skip) in
    let '(w, strict) := decode_bitwidth (nth 4 skip 0) in
    let e := match o with
             | Basic => {| se_last_doc := last; se_doc_bits := w; se_strict := strict; se_tf_bits := 0;
                           se_tf_sum := 0; se_bw_fieldnorm := 0; se_bw_tf := 0 |}
             | WithFreqs => {| se_last_doc := last; se_doc_bits := w; se_strict := strict; se_tf_bits := nth 5 skip 0;
                               se_tf_sum := 0; se_bw_fieldnorm := nth 6 skip 0; se_bw_tf := nth 7 skip 0 |}
             | WithFreqsAndPositions =>
                 {| se_last_doc := last; se_doc_bits := w; se_strict := strict; se_tf_bits := nth 5 skip 0;
                    se_tf_sum := le_value (firstn 4 (skipn 6 skip)); se_bw_fieldnorm := nth 10 skip 0; se_bw_tf := nth 11 skip 0 |}
             end in
    Some (e, skipn (entry_len o) skip).

(* effective option of a term: the option of the field, unless the term was written without frequencies *)
Definition effective (opt : record_option) (term_has_freq : bool) : record_option :=
  if term_has_freq then opt else Basic.

Lemma entry_lens : entry_len Basic = 5%nat /\ entry_len WithFreqs = 8%nat /\ entry_len WithFreqsAndPositions = 12%nat.
Proof. vm_compute. repeat split. Qed.

Lemma parse_entry_bytes opt thf last w tfw tfsum bw rest :
  (thf = true -> has_freq opt = true) -> last < 2 ^ 32 -> w < 32 -> tfsum < 2 ^ 32 ->
  exists f t, parse_entry (effective opt thf) (entry_bytes opt thf last w tfw tfsum bw ++ rest) =
  Some ({| se_last_doc := last; se_doc_bits := w; se_strict := true;
           se_tf_bits := if thf then tfw else 0;
           se_tf_sum := if thf && has_positions opt then tfsum else 0;
           se_bw_fieldnorm := f; se_bw_tf := t |}, rest).
Proof.
  intros Hthf Hlast Hw Hsum. pose proof entry_lens as [L1 [L2 L3]].
  pose proof (le_value_bytes 4 last Hlast) as E1. pose proof (le_value_bytes 4 tfsum Hsum) as E2.
  unfold parse_entry, entry_bytes.
  destruct thf; [specialize (Hthf eq_refl)|]; cbn [effective].
  - destruct opt; [discriminate| |]; cbn [has_positions andb].
    + eexists; eexists. rewrite L2. cbn [le_bytes] in E1 |- *.
      cbn [app length firstn skipn nth Nat.ltb Nat.leb].
      rewrite E1. rewrite decode_encode_bitwidth by exact Hw. reflexivity.
    + eexists; eexists. rewrite L3. cbn [le_bytes] in E1, E2 |- *.
      cbn [app length firstn skipn nth Nat.ltb Nat.leb].
      rewrite E1, E2. rewrite decode_encode_bitwidth by exact Hw. reflexivity.
  - eexists; eexists. rewrite L1. cbn [le_bytes] in E1 |- *.
    cbn [app length firstn skipn nth Nat.ltb Nat.leb].
    rewrite E1. rewrite decode_encode_bitwidth by exact Hw. reflexivity.
Qed.

(* ---- list helpers ------------------------------------------------------------------------------ *)

Definition sum (l : list N) : N := fold_right N.add 0 l.
Definition ones (n : nat) : list N := repeat 1 n.

Lemma last_cons {A} (a : A) l d : last (a :: l) d = last l a.
Proof.
  revert a d; induction l as [|b l IH]; intros a d; [reflexivity|].
  change (last (a :: b :: l) d) with (last (b :: l) d). rewrite (IH b d), (IH b a). reflexivity.
Qed.

Lemma chain_lt_split p l k :
  chain_lt p l -> chain_lt p (firstn k l) /\ chain_lt (last (firstn k l) p) (skipn k l).
Proof.
  revert p k; induction l as [|v l IH]; intros p k H.
  - destruct k; cbn; auto.
  - destruct k as [|k]; [cbn [firstn skipn last]; split; [exact I|exact H]|].
    destruct H as [H1 H2]. cbn [firstn skipn]. rewrite last_cons.
    destruct (IH v k H2) as [A B]. split; [split; assumption|exact B].
Qed.

Lemma chain_lt_ge p l : chain_lt p l -> p <= last l p.
Proof.
  revert p; induction l as [|v l IH]; intros p H; [cbn; lia|].
  destruct H as [H1 H2]. rewrite last_cons. specialize (IH v H2). lia.
Qed.

Lemma chain_lt_last_lt p v l : chain_lt p (v :: l) -> p < last (v :: l) p.
Proof. intros [H1 H2]. rewrite last_cons. pose proof (chain_lt_ge v l H2). lia. Qed.

Lemma chain_lt_le p l : chain_lt p l -> chain_le p l.
Proof. revert p; induction l as [|v l IH]; intros p H; [exact I|]. destruct H as [H1 H2]. split; [lia|auto]. Qed.

Lemma sorted_from_split offset docs k :
  (0 < k)%nat -> sorted_from offset docs ->
  sorted_from offset (firstn k docs) /\ sorted_from (last (firstn k docs) 0) (skipn k docs).
Proof.
  intros Hk H. destruct docs as [|v0 r]; [destruct k; cbn; auto|].
  destruct k as [|k]; [lia|]. destruct H as [H1 H2].
  destruct (chain_lt_split v0 r k H2) as [A B].
  cbn [firstn skipn]. rewrite last_cons. split; [split; assumption|].
  destruct (skipn k r) as [|u t]; [exact I|]. destruct B as [B1 B2]. split; [right; exact B1|exact B2].
Qed.

Lemma sorted_from_chain_le offset docs : sorted_from offset docs -> chain_le offset docs.
Proof.
  destruct docs as [|v0 r]; [intros; exact I|]. intros [H1 H2]. split; [lia|]. now apply chain_lt_le.
Qed.

Lemma map_succ_pred l : Forall (fun t => 1 <= t) l -> map (fun x => x + 1) (map N.pred l) = l.
Proof.
  induction l as [|t l IH]; intros H; [reflexivity|]. inversion H; subst. cbn [map]. rewrite IH by assumption.
  f_equal. lia.
Qed.

Lemma Forall_firstn {A} (P : A -> Prop) k l : Forall P l -> Forall P (firstn k l).
Proof. revert k; induction l as [|a l IH]; intros k H; destruct k; cbn [firstn]; auto. inversion H; subst. constructor; auto. Qed.
Lemma Forall_skipn {A} (P : A -> Prop) k l : Forall P l -> Forall P (skipn k l).
Proof. revert k; induction l as [|a l IH]; intros k H; destruct k; cbn [skipn]; auto. inversion H; subst. auto. Qed.

(* ---- serializer ------------------------------------------------------------------------------------ *)

Section BlockCodec.
  (* external: bitpacking::BitPacker4x::{compress, decompress} on BLOCK raw values of width w *)
  Variable pack : N -> list N -> bytes.
  Variable unpack : N -> bytes -> list N.
  Hypothesis unpack_pack : forall w xs, length xs = BLOCKn -> Forall (fun x => x < 2 ^ w) xs -> unpack w (pack w xs) = xs.
  Hypothesis pack_length : forall w xs, length xs = BLOCKn -> N.of_nat (length (pack w xs)) = block_size w.
  (* the block-wand pair (fieldnorm id, term freq) chosen by BM25 arithmetic: not interpreted here (C06) *)
  Variable bw : list (N * N) -> N * N.

  (* PostingsSerializer::write_block on a full block `b` of (doc, tf); `last` = last_doc_id_encoded.
     `elem - 1` on the term frequencies: tf >= 1 (debug_assert); the u32 `sum()` wraps in release builds. *)
  Definition block_w (last : N) (b : list (N * N)) : N := num_bits (strict_deltas last (map fst b)).
  Definition block_tw (b : list (N * N)) : N := num_bits (map N.pred (map snd b)).
  Definition block_tfsum (b : list (N * N)) : N := sum (map snd b) mod 2 ^ 32.
  Definition block_last (b : list (N * N)) (d : N) : N := last (map fst b) d.

  Definition encode_block (opt : record_option) (thf : bool) (last : N) (b : list (N * N)) : bytes * bytes :=
    let ds := strict_deltas last (map fst b) in
    let ts := map N.pred (map snd b) in
    (entry_bytes opt thf (block_last b 0) (block_w last b) (block_tw b) (block_tfsum b) (bw b),
     pack (block_w last b) ds ++ (if thf then pack (block_tw b) ts else [])).

  (* write_doc buffers documents and flushes every BLOCK of them: the list is consumed in chunks *)
  Fixpoint ser_blocks (nb : nat) (opt : record_option) (thf : bool) (last : N) (l : list (N * N))
    : bytes * bytes * N * list (N * N) :=
    match nb with
    | O => ([], [], last, l)
    | S k => let b := firstn BLOCKn l in
             let '(e, p) := encode_block opt thf last b in
             let '(sk, po, lastf, tail) := ser_blocks k opt thf (block_last b 0) (skipn BLOCKn l) in
             (e ++ sk, p ++ po, lastf, tail)
    end.

  (* close_term: the incomplete block is VInt encoded (deltas to last_doc_id_encoded, then raw tfs) *)
  Definition tail_bytes (thf : bool) (last : N) (tail : list (N * N)) : bytes :=
    vints_sorted_enc last (map fst tail) ++ (if thf then vints_enc (map snd tail) else []).

  (* new_term .. write_doc* .. close_term(doc_freq = number of write_doc calls) *)
  Definition serialize (opt : record_option) (record_term_freq : bool) (l : list (N * N)) : bytes :=
    let thf := has_freq opt && record_term_freq in
    let n := length l in
    let '(sk, po, lastf, tail) := ser_blocks (Nat.div n BLOCKn) opt thf 0 l in
    (if BLOCK <=? N.of_nat n then vint_enc64 (N.of_nat (length sk)) ++ sk else []) ++ po ++ tail_bytes thf lastf tail.

  (* ---- reader ------------------------------------------------------------------------------------ *)

  Record blk := {
    b_docs : list N; b_tfs : list N;
    b_posoff : N;       (* SkipReader::position_offset while on this block *)
    b_last : N;         (* SkipReader::last_doc_in_block *)
    b_tfsum : N; b_w : N; b_tw : N }.

  (* split_into_skips_and_postings *)
  Definition split_skips (doc_freq : N) (data : bytes) : option (option bytes * bytes) :=
    if doc_freq <? BLOCK then Some (None, data)
    else match vint_dec data with
         | None => None
         | Some (len, rest) => if N.of_nat (length rest) <? len then None
                               else Some (Some (firstn (N.to_nat len) rest), skipn (N.to_nat len) rest)
         end.

  (* BlockSegmentPostings::open: `if skip_data.len() < 8 * block_count { record_option = Basic }` *)
  Definition open_option (opt : record_option) (doc_freq : N) (skip : option bytes) : record_option :=
    match skip with
    | Some sk => if N.of_nat (length sk) <? SKIP_FREQ_DETECT_LEN * (doc_freq / BLOCK) then Basic else opt
    | None => opt
    end.
  (* FreqReadingOption::ReadFreq *)
  Definition read_freq (ropt req : record_option) : bool := has_freq ropt && has_freq req.

  Definition is_nil {A} (l : list A) : bool := match l with [] => true | _ => false end.

  (* the sequence of blocks produced by load_block / advance / load_block / ... until no document remains.
     State of the SkipReader: remaining_docs, byte_offset, last_doc_in_previous_block, position_offset, and
     the unread part of the skip data. *)
  Fixpoint read_loop (fuel : nat) (ropt : record_option) (rf : bool) (skip postings : bytes)
           (remaining byte_off prev posoff : N) {struct fuel} : rd (list blk) :=
    if remaining <? BLOCK then
      if remaining =? 0 then ROk []
      else
        let n := N.to_nat remaining in
        match vints_sorted_dec prev n (skipn (N.to_nat byte_off) postings) with
        | None => RPanic
        | Some (docs, rest) =>
            if rf && negb (is_nil rest)
            then match vints_dec n rest with
                 | None => RPanic
                 | Some (tfs, _) => ROk [{| b_docs := docs; b_tfs := tfs; b_posoff := posoff; b_last := TERMINATED;
                                            b_tfsum := 0; b_w := 0; b_tw := 0 |}]
                 end
            else ROk [{| b_docs := docs; b_tfs := ones n; b_posoff := posoff; b_last := TERMINATED;
                         b_tfsum := 0; b_w := 0; b_tw := 0 |}]
        end
    else
      match fuel with
      | O => RFuel
      | S f =>
          match parse_entry ropt skip with
          | None => RPanic
          | Some (e, skip') =>
              let data := skipn (N.to_nat byte_off) postings in
              let dsz := block_size (se_doc_bits e) in
              let tsz := block_size (se_tf_bits e) in
              if N.of_nat (length data) <? dsz + (if rf then tsz else 0) then RPanic
              else
                let raw := unpack (se_doc_bits e) (firstn (N.to_nat dsz) data) in
                let docs := if se_strict e then strict_integrate prev raw else prefix_sums prev raw in
                let tfs := if rf
                           then map (fun x => if se_strict e then x + 1 else x)
                                    (unpack (se_tf_bits e) (firstn (N.to_nat tsz) (skipn (N.to_nat dsz) data)))
                           else ones BLOCKn in
                match read_loop f ropt rf skip' postings (remaining - BLOCK)
                                (byte_off + block_size (se_doc_bits e + se_tf_bits e)) (se_last_doc e)
                                (posoff + se_tf_sum e) with
                | ROk bs => ROk ({| b_docs := docs; b_tfs := tfs; b_posoff := posoff; b_last := se_last_doc e;
                                    b_tfsum := se_tf_sum e; b_w := se_doc_bits e; b_tw := se_tf_bits e |} :: bs)
                | RPanic => RPanic
                | RFuel => RFuel
                end
          end
      end.

  (* open + read every block; fuel = doc_freq / BLOCK full blocks *)
  Definition read_blocks (opt req : record_option) (doc_freq : N) (data : bytes) : rd (list blk) :=
    match split_skips doc_freq data with
    | None => RPanic
    | Some (sk, postings) =>
        let ropt := open_option opt doc_freq sk in
        read_loop (N.to_nat (doc_freq / BLOCK)) ropt (read_freq ropt req)
                  (match sk with Some s => s | None => [] end) postings doc_freq 0 0 0
    end.

  Definition flatten (bs : list blk) : list (N * N) := flat_map (fun b => combine (b_docs b) (b_tfs b)) bs.

  (* what sequential reading returns: (doc, tf) of every document *)
  Definition read_all (opt req : record_option) (doc_freq : N) (data : bytes) : rd (list (N * N)) :=
    match read_blocks opt req doc_freq data with
    | ROk bs => ROk (flatten bs) | RPanic => RPanic | RFuel => RFuel
    end.

  (* ---- specification of the blocks ------------------------------------------------------------------- *)

  Fixpoint expect (nb : nat) (opt : record_option) (thf rf : bool) (last posoff : N) (l : list (N * N)) : list blk :=
    match nb with
    | O => match l with
           | [] => []
           | _ => [{| b_docs := map fst l; b_tfs := if rf && thf then map snd l else ones (length l);
                      b_posoff := posoff; b_last := TERMINATED; b_tfsum := 0; b_w := 0; b_tw := 0 |}]
           end
    | S k => let b := firstn BLOCKn l in
             let ts := if thf && has_positions opt then block_tfsum b else 0 in
             {| b_docs := map fst b; b_tfs := if rf && thf then map snd b else ones BLOCKn;
                b_posoff := posoff; b_last := block_last b 0; b_tfsum := ts;
                b_w := block_w last b; b_tw := if thf then block_tw b else 0 |}
             :: expect k opt thf rf (block_last b 0) (posoff + ts) (skipn BLOCKn l)
    end.

  (* ---- round trip --------------------------------------------------------------------------------- *)

  Lemma read_loop_vint fuel ropt rf skip postings remaining byte_off prev posoff :
    remaining < BLOCK ->
    read_loop fuel ropt rf skip postings remaining byte_off prev posoff =
    if remaining =? 0 then ROk []
    else
      let n := N.to_nat remaining in
      match vints_sorted_dec prev n (skipn (N.to_nat byte_off) postings) with
      | None => RPanic
      | Some (docs, rest) =>
          if rf && negb (is_nil rest)
          then match vints_dec n rest with
               | None => RPanic
               | Some (tfs, _) => ROk [{| b_docs := docs; b_tfs := tfs; b_posoff := posoff; b_last := TERMINATED;
                                          b_tfsum := 0; b_w := 0; b_tw := 0 |}]
               end
          else ROk [{| b_docs := docs; b_tfs := ones n; b_posoff := posoff; b_last := TERMINATED;
                       b_tfsum := 0; b_w := 0; b_tw := 0 |}]
      end.
  Proof.
    intros H. apply N.ltb_lt in H. destruct fuel; cbn [read_loop]; rewrite H; reflexivity.
  Qed.

  Definition wf_pairs (last : N) (l : list (N * N)) : Prop :=
    sorted_from last (map fst l) /\ Forall (fun d => d < 2 ^ 31) (map fst l) /\
    Forall (fun t => 1 <= t < 2 ^ 32) (map snd l).

  Lemma wf_pairs_split last l k : (0 < k)%nat -> wf_pairs last l ->
    wf_pairs last (firstn k l) /\ wf_pairs (block_last (firstn k l) 0) (skipn k l).
  Proof.
    intros Hk [H1 [H2 H3]]. unfold wf_pairs, block_last. rewrite <- !firstn_map, <- !skipn_map.
    destruct (sorted_from_split last (map fst l) k Hk H1) as [A B].
    repeat split; auto using Forall_firstn, Forall_skipn.
  Qed.

  Lemma vints_enc_nonempty l : l <> [] -> vints_enc l <> [].
  Proof.
    destruct l as [|v l]; [congruence|]. intros _ E. cbn [vints_enc flat_map] in E.
    apply app_eq_nil in E. destruct E as [E _]. revert E. apply vint_enc_nonempty. exact vint32_fuel_pos.
  Qed.

  Lemma pow31_32 : 2 ^ 31 < 2 ^ 32. Proof. reflexivity. Qed.

  Lemma read_ser_blocks : forall nb opt thf rf ropt last posoff l pre skrest fuel,
    (thf = true -> has_freq opt = true) ->
    (nb <> 0%nat -> ropt = effective opt thf) ->
    (nb <> 0%nat -> rf = true -> thf = true) ->
    (nb * BLOCKn <= length l < nb * BLOCKn + BLOCKn)%nat ->
    wf_pairs last l -> (nb <= fuel)%nat ->
    let '(sk, po, lastf, tail) := ser_blocks nb opt thf last l in
    read_loop fuel ropt rf (sk ++ skrest) (pre ++ po ++ tail_bytes thf lastf tail)
              (N.of_nat (length l)) (N.of_nat (length pre)) last posoff
    = ROk (expect nb opt thf rf last posoff l).
  Proof.
    induction nb as [|k IH]; intros opt thf rf ropt last posoff l pre skrest fuel Hthf Hropt Hrf Hlen Hwf Hfuel.
    - (* only the VInt block *)
      cbn [ser_blocks expect]. rewrite read_loop_vint by (rewrite <- BLOCKn_N; lia).
      destruct l as [|x l'] eqn:El; [reflexivity|]. rewrite <- El in *.
      replace (N.of_nat (length l) =? 0) with false by (symmetry; apply N.eqb_neq; rewrite El; cbn [length]; lia).
      cbv zeta. rewrite !Nat2N.id. cbn [app]. rewrite skipn_app_exact.
      destruct Hwf as [Hs [Hd Ht]]. unfold tail_bytes.
      replace (length l) with (length (map fst l)) at 1 by apply map_length.
      rewrite vints_sorted_dec_enc.
      2:{ now apply sorted_from_chain_le. }
      2:{ eapply Forall_impl; [|exact Hd]. cbv beta. intros a Ha. pose proof pow31_32. lia. }
      destruct thf.
      + assert (Hne : vints_enc (map snd l) <> []) by (apply vints_enc_nonempty; rewrite El; discriminate).
        destruct (vints_enc (map snd l)) as [|c cs] eqn:Ev; [congruence|]. cbn [is_nil negb]. rewrite andb_true_r.
        destruct rf; [|reflexivity]. rewrite <- Ev.
        replace (length l) with (length (map snd l)) by apply map_length.
        rewrite <- (app_nil_r (vints_enc (map snd l))). rewrite vints_dec_enc; [reflexivity|].
        eapply Forall_impl; [|exact Ht]. cbv beta. intros a Ha. lia.
      + cbn [is_nil negb]. rewrite !andb_false_r. reflexivity.
    - (* a full block, then the rest *)
      assert (Hb : length (firstn BLOCKn l) = BLOCKn) by (apply firstn_length_le; lia).
      pose proof BLOCKn_pos as Hbp.
      destruct (wf_pairs_split last l BLOCKn Hbp Hwf) as [Hwb Hwr].
      cbn [ser_blocks expect]. set (b := firstn BLOCKn l) in *. set (r := skipn BLOCKn l) in *.
      unfold encode_block.
      destruct (ser_blocks k opt thf (block_last b 0) r) as [[[sk' po'] lastf'] tail'] eqn:Es.
      destruct fuel as [|f]; [lia|].
      cbn [read_loop].
      replace (N.of_nat (length l) <? BLOCK) with false by (symmetry; apply N.ltb_ge; rewrite <- BLOCKn_N; lia).
      (* facts about the block *)
      destruct Hwb as [Hbs [Hbd Hbt]].
      set (ds := strict_deltas last (map fst b)) in *.
      set (ts := map N.pred (map snd b)) in *.
      assert (Hdsl : length ds = BLOCKn) by (unfold ds; rewrite strict_deltas_length, map_length; exact Hb).
      assert (Htsl : length ts = BLOCKn) by (unfold ts; rewrite !map_length; exact Hb).
      assert (Hw : block_w last b < 32).
      { unfold block_w. fold ds. assert (num_bits ds <= 31); [|lia]. apply num_bits_least.
        unfold ds. now apply strict_deltas_bound. }
      assert (Hlast32 : block_last b 0 < 2 ^ 32).
      { unfold block_last. destruct (map fst b) as [|d0 dr] eqn:Em; [cbn; lia|].
        assert (Hin : In (List.last (d0 :: dr) 0) (d0 :: dr)).
        { destruct (exists_last (l := d0 :: dr) ltac:(discriminate)) as [l0 [a Ea]]. rewrite Ea, last_last.
          apply in_or_app. right. left. reflexivity. }
        rewrite Forall_forall in Hbd. specialize (Hbd _ Hin). pose proof pow31_32. lia. }
      assert (Hsum32 : block_tfsum b < 2 ^ 32) by (unfold block_tfsum; apply N.mod_lt; lia).
      destruct (parse_entry_bytes opt thf (block_last b 0) (block_w last b) (block_tw b) (block_tfsum b) (bw b)
                  (sk' ++ skrest) Hthf Hlast32 Hw Hsum32) as [fn [tfm Hpe]].
      rewrite <- app_assoc. rewrite <- (Hropt ltac:(discriminate)) in Hpe. rewrite Hpe.
      cbn [se_doc_bits se_tf_bits se_strict se_last_doc se_tf_sum].
      rewrite Nat2N.id. rewrite skipn_app_exact.
      (* lengths *)
      pose proof (pack_length (block_w last b) ds Hdsl) as Hpl.
      pose proof (pack_length (block_tw b) ts Htsl) as Hpt.
      assert (Hrfthf : rf = true -> thf = true) by (apply Hrf; discriminate).
      set (P1 := pack (block_w last b) ds) in *. set (P2 := pack (block_tw b) ts) in *.
      assert (Hup1 : unpack (block_w last b) P1 = ds) by (unfold P1; apply unpack_pack; [exact Hdsl|apply num_bits_fits]).
      assert (Hup2 : unpack (block_tw b) P2 = ts) by (unfold P2; apply unpack_pack; [exact Htsl|apply num_bits_fits]).
      rewrite <- !app_assoc. set (REST := po' ++ tail_bytes thf lastf' tail') in *.
      replace (N.of_nat (length (P1 ++ (if thf then P2 else []) ++ REST)) <?
               block_size (block_w last b) + (if rf then block_size (if thf then block_tw b else 0) else 0)) with false.
      2:{ symmetry. apply N.ltb_ge. rewrite !app_length. destruct rf; [rewrite (Hrfthf eq_refl)|]; destruct thf; cbn [length]; lia. }
      replace (N.to_nat (block_size (block_w last b))) with (length P1) by lia.
      rewrite firstn_app_exact, skipn_app_exact. rewrite Hup1.
      unfold ds at 1. rewrite strict_integrate_deltas by exact Hbs.
      (* the recursive call *)
      assert (Hlr : length r = (length l - BLOCKn)%nat) by (unfold r; apply skipn_length).
      specialize (IH opt thf rf ropt (block_last b 0)
                     (posoff + (if thf && has_positions opt then block_tfsum b else 0)) r
                     (pre ++ P1 ++ (if thf then P2 else [])) skrest f Hthf).
      rewrite Es in IH.
      replace (N.of_nat (length l) - BLOCK) with (N.of_nat (length r)) by (rewrite <- BLOCKn_N; lia).
      replace (N.of_nat (length pre) + block_size (block_w last b + (if thf then block_tw b else 0)))
        with (N.of_nat (length (pre ++ P1 ++ (if thf then P2 else [])))).
      2:{ rewrite block_size_add, !app_length. destruct thf; cbn [length]; rewrite ?block_size_0; lia. }
      rewrite <- !app_assoc in IH. fold REST in IH.
      rewrite IH.
      2:{ intros Hk. apply Hropt. discriminate. }
      2:{ intros Hk. apply Hrf. discriminate. }
      2:{ cbn [Nat.mul] in Hlen. lia. }
      2:{ exact Hwr. }
      2:{ lia. }
      f_equal. f_equal. f_equal.
      destruct rf; [rewrite (Hrfthf eq_refl)|reflexivity]. cbn [andb].
      replace (N.to_nat (block_size (block_tw b))) with (length P2) by lia.
      rewrite firstn_app_exact. rewrite Hup2.
      unfold ts. apply map_succ_pred. eapply Forall_impl; [|exact Hbt]. cbv beta. intros a Ha. lia.
  Qed.

  (* size of one skip entry as written *)
  Definition entry_size (opt : record_option) (thf : bool) : nat :=
    (5 + if thf then (if has_positions opt then 7 else 3) else 0)%nat.

  Lemma entry_bytes_length opt thf lst w tfw tfsum p : length (entry_bytes opt thf lst w tfw tfsum p) = entry_size opt thf.
  Proof.
    unfold entry_bytes, entry_size. rewrite !app_length, le_bytes_length.
    destruct thf; [|reflexivity]. destruct (has_positions opt); cbn [length app]; rewrite ?app_length, ?le_bytes_length; reflexivity.
  Qed.

  Lemma ser_blocks_skip_length nb : forall opt thf lst l,
    length (fst (fst (fst (ser_blocks nb opt thf lst l)))) = (nb * entry_size opt thf)%nat.
  Proof.
    induction nb as [|k IH]; intros opt thf lst l; [reflexivity|].
    cbn [ser_blocks]. unfold encode_block.
    specialize (IH opt thf (block_last (firstn BLOCKn l) 0) (skipn BLOCKn l)).
    destruct (ser_blocks k opt thf (block_last (firstn BLOCKn l) 0) (skipn BLOCKn l)) as [[[sk po] lf] tl].
    cbn [fst] in *. rewrite app_length, entry_bytes_length, IH. lia.
  Qed.

  Lemma detect_len_facts : 5 < SKIP_FREQ_DETECT_LEN <= 8.
  Proof. vm_compute. split; [reflexivity|discriminate]. Qed.

  Theorem read_blocks_serialize opt rtf req l :
    wf_pairs 0 l -> N.of_nat (length l) < 2 ^ 32 ->
    let thf := has_freq opt && rtf in
    exists rf, rf && thf = has_freq req && thf /\
    read_blocks opt req (N.of_nat (length l)) (serialize opt rtf l)
    = ROk (expect (Nat.div (length l) BLOCKn) opt thf rf 0 0 l).
  Proof.
    intros Hwf Hn thf.
    assert (Hthf : thf = true -> has_freq opt = true) by (unfold thf; intros H; apply andb_true_iff in H; tauto).
    pose proof BLOCKn_pos as Hbp.
    set (nb := Nat.div (length l) BLOCKn).
    assert (Hnb : (nb * BLOCKn <= length l < nb * BLOCKn + BLOCKn)%nat).
    { unfold nb. pose proof (Nat.div_mod (length l) BLOCKn ltac:(lia)) as Hdm.
      pose proof (Nat.mod_upper_bound (length l) BLOCKn ltac:(lia)). lia. }
    unfold serialize, read_blocks, split_skips. fold thf. fold nb.
    pose proof (ser_blocks_skip_length nb opt thf 0 l) as Hsl.
    destruct (ser_blocks nb opt thf 0 l) as [[[sk po] lastf] tail] eqn:Es. cbn [fst] in Hsl.
    destruct (N.of_nat (length l) <? BLOCK) eqn:Elt.
    - (* no skip list *)
      apply N.ltb_lt in Elt. rewrite <- BLOCKn_N in Elt.
      assert (Hnb0 : nb = 0%nat) by (unfold nb; apply Nat.div_small; lia).
      replace (BLOCK <=? N.of_nat (length l)) with false by (symmetry; apply N.leb_gt; rewrite <- BLOCKn_N; lia).
      cbn [app open_option].
      exists (read_freq opt req). split.
      { unfold read_freq. destruct thf eqn:Et; [rewrite (Hthf eq_refl)|]; cbn; rewrite ?andb_false_r; reflexivity. }
      pose proof (read_ser_blocks nb opt thf (read_freq opt req) opt 0 0 l [] []
                    (N.to_nat (N.of_nat (length l) / BLOCK)) Hthf ltac:(intros Hc; exfalso; exact (Hc Hnb0)) ltac:(intros Hc; exfalso; exact (Hc Hnb0)) Hnb Hwf ltac:(rewrite Hnb0; apply Nat.le_0_l)) as R.
      rewrite Es in R. rewrite app_nil_r in R. cbn [app length] in R.
      assert (Es0 : (sk, po, lastf, tail) = ([], [], 0, l)) by (rewrite <- Es, Hnb0; reflexivity).
      inversion Es0; subst sk po lastf tail. cbn [app] in R |- *. exact R.
    - apply N.ltb_ge in Elt. rewrite <- BLOCKn_N in Elt.
      assert (Hnb1 : (1 <= nb)%nat).
      { unfold nb. apply Nat.div_le_lower_bound; lia. }
      replace (BLOCK <=? N.of_nat (length l)) with true by (symmetry; apply N.leb_le; rewrite <- BLOCKn_N; lia).
      rewrite <- !app_assoc.
      assert (Hes : (5 <= entry_size opt thf <= 12)%nat) by (unfold entry_size; destruct thf, (has_positions opt); lia).
      rewrite vint_dec_enc64.
      2:{ rewrite Hsl. assert (N.of_nat nb <= N.of_nat (length l)) by nia. change (2 ^ 64) with (2 ^ 32 * 2 ^ 32). nia. }
      replace (N.of_nat (length (sk ++ po ++ tail_bytes thf lastf tail)) <? N.of_nat (length sk)) with false
        by (symmetry; apply N.ltb_ge; rewrite app_length; lia).
      rewrite Nat2N.id, firstn_app_exact, skipn_app_exact.
      assert (Hdiv : N.of_nat (length l) / BLOCK = N.of_nat nb).
      { unfold nb. rewrite <- BLOCKn_N. symmetry. apply Nat2N.inj_div. }
      assert (Hro : open_option opt (N.of_nat (length l)) (@Some (list N) sk) = effective opt thf).
      { unfold open_option. rewrite Hdiv, Hsl. pose proof detect_len_facts as [D1 D2].
        unfold effective, entry_size. destruct thf eqn:Et.
        - replace (_ <? _) with false; [reflexivity|]. symmetry. apply N.ltb_ge. destruct (has_positions opt); nia.
        - replace (_ <? _) with true; [reflexivity|]. symmetry. apply N.ltb_lt. nia. }
      exists (read_freq (effective opt thf) req). rewrite Hro. rewrite Hdiv, Nat2N.id. split.
      { unfold read_freq, effective. destruct thf; [rewrite (Hthf eq_refl)|]; cbn; rewrite ?andb_false_r; reflexivity. }
      pose proof (read_ser_blocks nb opt thf (read_freq (effective opt thf) req) (effective opt thf) 0 0 l [] [] nb
                    Hthf ltac:(intros; reflexivity)) as R.
      rewrite Es in R. rewrite app_nil_r in R. cbn [app length] in R. apply R; try assumption; try lia.
      intros _ Hrf. unfold read_freq, effective in Hrf. destruct thf; [reflexivity|]. cbn in Hrf. discriminate.
  Qed.

  (* every document with its term frequency (1 when frequencies are not read or not recorded) *)
  Definition project (freq : bool) (l : list (N * N)) : list (N * N) :=
    map (fun p => (fst p, if freq then snd p else 1)) l.

  Lemma combine_ones {A} (l : list A) n : length l = n -> combine l (ones n) = map (fun a => (a, 1)) l.
  Proof. revert n; induction l as [|a l IH]; intros n H; [destruct n; reflexivity|]. destruct n; [discriminate|]. cbn [ones repeat combine map length] in *. f_equal. apply IH. lia. Qed.

  Lemma combine_fst_snd (l : list (N * N)) : combine (map fst l) (map snd l) = l.
  Proof. induction l as [|[a b] l IH]; [reflexivity|]. cbn [map combine fst snd]. now rewrite IH. Qed.

  Lemma map_fst_snd_id (l : list (N * N)) : map (fun p => (fst p, snd p)) l = l.
  Proof. induction l as [|[a b] l IH]; [reflexivity|]. cbn [map fst snd]. now rewrite IH. Qed.

  Lemma flatten_expect nb : forall opt thf rf lst posoff l,
    (nb * BLOCKn <= length l)%nat ->
    flatten (expect nb opt thf rf lst posoff l) = project (rf && thf) l.
  Proof.
    induction nb as [|k IH]; intros opt thf rf lst posoff l Hlen.
    - cbn [expect]. destruct l as [|x l']; [reflexivity|].
      unfold flatten. cbn [flat_map b_docs b_tfs]. rewrite app_nil_r. unfold project.
      destruct (rf && thf).
      + rewrite combine_fst_snd. symmetry. apply map_fst_snd_id.
      + rewrite combine_ones by apply map_length. rewrite map_map. reflexivity.
    - cbn [expect]. unfold flatten in *. cbn [flat_map b_docs b_tfs].
      rewrite IH by (rewrite skipn_length; cbn [Nat.mul] in Hlen; lia).
      assert (Hb : length (firstn BLOCKn l) = BLOCKn) by (apply firstn_length_le; cbn [Nat.mul] in Hlen; lia).
      replace (project (rf && thf) l) with (project (rf && thf) (firstn BLOCKn l ++ skipn BLOCKn l)) by (now rewrite firstn_skipn).
      unfold project. rewrite map_app. f_equal.
      destruct (rf && thf).
      + rewrite combine_fst_snd. symmetry. apply map_fst_snd_id.
      + rewrite combine_ones by (rewrite map_length; exact Hb). rewrite map_map. reflexivity.
  Qed.

  Theorem read_all_serialize opt rtf req l :
    wf_pairs 0 l -> N.of_nat (length l) < 2 ^ 32 ->
    read_all opt req (N.of_nat (length l)) (serialize opt rtf l) = ROk (project (has_freq req && (has_freq opt && rtf)) l).
  Proof.
    intros Hwf Hn. destruct (read_blocks_serialize opt rtf req l Hwf Hn) as [rf [Hrf R]].
    unfold read_all. rewrite R. f_equal. rewrite flatten_expect.
    - now rewrite Hrf.
    - pose proof BLOCKn_pos. pose proof (Nat.div_mod (length l) BLOCKn ltac:(lia)). lia.
  Qed.

End BlockCodec.

  (* ---- bit width and skip entries ------------------------------------------------------------------- *)

  Theorem block_width_least lst b :
    let ds := strict_deltas lst (map fst b) in
    Forall (fun d => d < 2 ^ block_w lst b) ds /\ (forall w, Forall (fun d => d < 2 ^ w) ds -> block_w lst b <= w).
  Proof. cbv zeta. split; [apply num_bits_fits|apply num_bits_least]. Qed.

  Theorem block_width_lt32 lst b :
    sorted_from lst (map fst b) -> Forall (fun d => d < 2 ^ 31) (map fst b) -> block_w lst b < 32.
  Proof.
    intros Hs Hd. assert (block_w lst b <= 31); [|lia]. apply num_bits_least. now apply strict_deltas_bound.
  Qed.

  Definition chunk (i : nat) (l : list (N * N)) : list (N * N) := firstn BLOCKn (skipn (i * BLOCKn) l).

  Lemma sum_app a b : sum (a ++ b) = sum a + sum b.
  Proof. induction a as [|x a IH]; [cbn [app]; unfold sum at 2; cbn [fold_right]; lia|]. unfold sum in *. cbn [app fold_right]. rewrite IH. lia. Qed.

  Lemma firstn_add {A} a b (l : list A) : firstn (a + b) l = firstn a l ++ firstn b (skipn a l).
  Proof. revert l; induction a as [|a IH]; intros l; [reflexivity|]. destruct l as [|x l]; [cbn; now rewrite firstn_nil|]. cbn [Nat.add firstn skipn app]. now rewrite IH. Qed.

  Lemma skipn_skipn' {A} a b (l : list A) : skipn a (skipn b l) = skipn (a + b) l.
  Proof. revert l; induction b as [|b IH]; intros l; [now rewrite Nat.add_0_r|]. destruct l as [|x l]; [now rewrite !skipn_nil|]. rewrite Nat.add_succ_r. cbn [skipn]. apply IH. Qed.

  (* last_doc and tf_sum of every skip entry are those of its block *)
  Lemma expect_entry nb : forall i opt thf rf lst posoff l d, (i < nb)%nat ->
    let b := nth i (expect nb opt thf rf lst posoff l) d in
    b_docs b = map fst (chunk i l) /\ b_last b = block_last (chunk i l) 0 /\
    b_tfsum b = (if thf && has_positions opt then block_tfsum (chunk i l) else 0).
  Proof.
    induction nb as [|k IH]; intros i opt thf rf lst posoff l d Hi; [lia|].
    cbn [expect]. destruct i as [|i].
    - cbn [nth b_docs b_last b_tfsum]. unfold chunk. cbn [Nat.mul skipn]. auto.
    - cbn [nth]. specialize (IH i opt thf rf (block_last (firstn BLOCKn l) 0)
                                (posoff + (if thf && has_positions opt then block_tfsum (firstn BLOCKn l) else 0))
                                (skipn BLOCKn l) d ltac:(lia)).
      cbv zeta in IH. unfold chunk in *. rewrite skipn_skipn' in IH.
      replace (S i * BLOCKn)%nat with (i * BLOCKn + BLOCKn)%nat by lia. exact IH.
  Qed.

  (* position offset of block i = sum of the term frequencies of all earlier blocks *)
  Lemma expect_posoff nb : forall i opt thf rf lst posoff l d, (i < nb)%nat -> (nb * BLOCKn <= length l)%nat ->
    thf && has_positions opt = true -> sum (map snd l) < 2 ^ 32 ->
    b_posoff (nth i (expect nb opt thf rf lst posoff l) d) = posoff + sum (map snd (firstn (i * BLOCKn) l)).
  Proof.
    induction nb as [|k IH]; intros i opt thf rf lst posoff l d Hi Hlen Hp Hsum; [lia|].
    cbn [expect]. destruct i as [|i].
    - cbn [nth b_posoff Nat.mul firstn map sum fold_right]. lia.
    - cbn [nth]. rewrite Hp.
      assert (Hsplit : sum (map snd l) = sum (map snd (firstn BLOCKn l)) + sum (map snd (skipn BLOCKn l))).
      { rewrite <- (firstn_skipn BLOCKn l) at 1. now rewrite map_app, sum_app. }
      rewrite IH; try assumption; try lia.
      2:{ rewrite skipn_length. cbn [Nat.mul] in Hlen. lia. }
      replace (S i * BLOCKn)%nat with (BLOCKn + i * BLOCKn)%nat by lia.
      rewrite firstn_add, map_app, sum_app. unfold block_tfsum. rewrite N.mod_small by lia. lia.
  Qed.

(* ---- well-formed posting lists (what PostingsWriter hands to the serializer) ------------------------------ *)

(* documents strictly increasing and below TERMINATED; term frequencies at least 1 (u32) *)
Definition wf_postings (l : list (N * N)) : Prop :=
  sorted_from 0 (map fst l) /\ Forall (fun d => d < TERMINATED) (map fst l) /\
  Forall (fun t => 1 <= t < 2 ^ 32) (map snd l).

Lemma TERMINATED_le : TERMINATED <= 2 ^ 31. Proof. vm_compute. discriminate. Qed.

Lemma chain_lt_length p l : chain_lt p l -> p + N.of_nat (length l) <= last l p.
Proof.
  revert p; induction l as [|v l IH]; intros p H; [cbn; lia|].
  destruct H as [H1 H2]. rewrite last_cons. specialize (IH v H2). cbn [length]. lia.
Qed.

Lemma last_in {A} (a : A) l d : In (last (a :: l) d) (a :: l).
Proof.
  destruct (exists_last (l := a :: l) ltac:(discriminate)) as [l0 [x Ex]]. rewrite Ex, last_last.
  apply in_or_app. right. left. reflexivity.
Qed.

Lemma wf_postings_pairs l : wf_postings l -> wf_pairs 0 l /\ N.of_nat (length l) < 2 ^ 32.
Proof.
  intros [Hs [Hd Ht]]. pose proof TERMINATED_le as HT. split.
  - repeat split; try assumption. eapply Forall_impl; [|exact Hd]. cbv beta. intros a Ha. lia.
  - rewrite <- (map_length fst l). destruct (map fst l) as [|v0 r] eqn:E; [cbn; lia|].
    destruct Hs as [_ Hc]. pose proof (chain_lt_length v0 r Hc) as Hl.
    rewrite Forall_forall in Hd. pose proof (Hd _ (last_in v0 r 0)) as Hlast. rewrite last_cons in Hlast.
    cbn [length]. assert (2 ^ 31 < 2 ^ 32) by reflexivity. lia.
Qed.

Theorem roundtrip_all pack unpack
  (unpack_pack : forall w xs, length xs = BLOCKn -> Forall (fun x => x < 2 ^ w) xs -> unpack w (pack w xs) = xs)
  (pack_length : forall w xs, length xs = BLOCKn -> N.of_nat (length (pack w xs)) = block_size w)
  bw opt rtf req l :
  wf_postings l ->
  read_all unpack opt req (N.of_nat (length l)) (serialize pack bw opt rtf l)
  = ROk (project (has_freq req && (has_freq opt && rtf)) l).
Proof.
  intros Hwf. destruct (wf_postings_pairs l Hwf) as [H1 H2].
  now apply (read_all_serialize pack unpack unpack_pack pack_length bw).
Qed.
