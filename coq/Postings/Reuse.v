(* The SkipReader as the state machine it is in the code, and cursor reuse.
   /repo/src/postings/skip.rs                    SkipReader::{new, reset, read_block_info, advance} and its fields
   /repo/src/postings/block_segment_postings.rs  BlockSegmentPostings::{open, reset, load_block, advance}
   /repo/src/index/inverted_index_reader.rs      reset_block_postings_from_terminfo

   Codec.read_loop threads (remaining_docs, byte_offset, last_doc_in_previous_block, position_offset, unread skip
   bytes) as arguments and parses a skip entry when it reaches the block.  The implementation keeps them in the
   fields of a SkipReader that parses the entry of the NEXT block eagerly (read_block_info inside new / reset /
   advance).  This file models that object field by field, proves that walking it (load_block ; advance ; ...)
   is `read_loop` (so C07_blocks / C07_roundtrip / C07_seek speak about it), and that `reset` yields the very state
   `new` yields -- whatever the reader did before: a re-targeted cursor reads what a fresh cursor reads. *)
From TV Require Import Base.Prelude Generated.Constants Postings.VInt Postings.Codec.
Local Open Scope N_scope.

Inductive block_info := BitPacked (e : skip_entry) | VIntBlock (num_docs : N).

Record skip_reader := {
  sr_last_doc_in_block : N;
  sr_last_doc_in_previous_block : N;      (* base of the delta decoding of the current block *)
  sr_owned_read : bytes;                  (* skip data not yet parsed *)
  sr_skip_info : record_option;
  sr_byte_offset : N;
  sr_remaining_docs : N;
  sr_block_info : block_info;
  sr_position_offset : N }.

(* read_block_info: parse the entry at the head of owned_read (None: slice index out of range = panic) *)
Definition sr_read_block_info (st : skip_reader) : option skip_reader :=
  match parse_entry (sr_skip_info st) (sr_owned_read st) with
  | None => None
  | Some (e, rest) =>
      Some {| sr_last_doc_in_block := se_last_doc e;
              sr_last_doc_in_previous_block := sr_last_doc_in_previous_block st;
              sr_owned_read := rest; sr_skip_info := sr_skip_info st; sr_byte_offset := sr_byte_offset st;
              sr_remaining_docs := sr_remaining_docs st; sr_block_info := BitPacked e;
              sr_position_offset := sr_position_offset st |}
  end.

(* SkipReader::new *)
Definition sr_new (data : bytes) (doc_freq : N) (skip_info : record_option) : option skip_reader :=
  let st := {| sr_last_doc_in_block := if BLOCK <=? doc_freq then 0 else TERMINATED;
               sr_last_doc_in_previous_block := 0;
               sr_owned_read := data; sr_skip_info := skip_info; sr_byte_offset := 0;
               sr_remaining_docs := doc_freq; sr_block_info := VIntBlock doc_freq; sr_position_offset := 0 |} in
  if BLOCK <=? doc_freq then sr_read_block_info st else Some st.

(* SkipReader::reset(&mut self, data, doc_freq): every field is assigned again, except skip_info *)
Definition sr_reset (old : skip_reader) (data : bytes) (doc_freq : N) : option skip_reader :=
  let st := {| sr_last_doc_in_block := if BLOCK <=? doc_freq then 0 else TERMINATED;
               sr_last_doc_in_previous_block := 0;                     (* self.last_doc_in_previous_block = 0u32 *)
               sr_owned_read := data; sr_skip_info := sr_skip_info old; sr_byte_offset := 0;
               sr_remaining_docs := doc_freq; sr_block_info := VIntBlock doc_freq; sr_position_offset := 0 |} in
  if BLOCK <=? doc_freq then sr_read_block_info st else Some st.

(* SkipReader::advance.  `byte_offset = usize::MAX` after the VInt block is never used again (no document is left). *)
Definition sr_advance (st : skip_reader) : option skip_reader :=
  let st1 :=
    match sr_block_info st with
    | BitPacked e =>
        {| sr_last_doc_in_block := sr_last_doc_in_block st;
           sr_last_doc_in_previous_block := sr_last_doc_in_block st;
           sr_owned_read := sr_owned_read st; sr_skip_info := sr_skip_info st;
           sr_byte_offset := sr_byte_offset st + block_size (se_doc_bits e + se_tf_bits e);
           sr_remaining_docs := sr_remaining_docs st - BLOCK; sr_block_info := sr_block_info st;
           sr_position_offset := sr_position_offset st + se_tf_sum e |}
    | VIntBlock _ =>
        {| sr_last_doc_in_block := sr_last_doc_in_block st;
           sr_last_doc_in_previous_block := sr_last_doc_in_block st;
           sr_owned_read := sr_owned_read st; sr_skip_info := sr_skip_info st;
           sr_byte_offset := 2 ^ 64 - 1; sr_remaining_docs := 0; sr_block_info := sr_block_info st;
           sr_position_offset := sr_position_offset st |}
    end in
  if BLOCK <=? sr_remaining_docs st1 then sr_read_block_info st1
  else Some {| sr_last_doc_in_block := TERMINATED;
               sr_last_doc_in_previous_block := sr_last_doc_in_previous_block st1;
               sr_owned_read := sr_owned_read st1; sr_skip_info := sr_skip_info st1;
               sr_byte_offset := sr_byte_offset st1; sr_remaining_docs := sr_remaining_docs st1;
               sr_block_info := VIntBlock (sr_remaining_docs st1); sr_position_offset := sr_position_offset st1 |}.

(* ---- reset = new -------------------------------------------------------------------------------------------- *)
Theorem sr_reset_is_new : forall old data doc_freq, sr_reset old data doc_freq = sr_new data doc_freq (sr_skip_info old).
Proof. reflexivity. Qed.

(* in particular the delta base of the first block is 0 again, whatever it was *)
Corollary sr_reset_delta_base : forall old data doc_freq st,
  sr_reset old data doc_freq = Some st -> sr_last_doc_in_previous_block st = 0 /\ sr_position_offset st = 0 /\ sr_byte_offset st = 0.
Proof.
  intros old data df st. unfold sr_reset, sr_read_block_info. cbn [sr_skip_info sr_owned_read sr_last_doc_in_previous_block
    sr_byte_offset sr_remaining_docs sr_position_offset].
  destruct (BLOCK <=? df).
  - destruct (parse_entry (sr_skip_info old) data) as [[e rest]|]; [|discriminate].
    intros H; inversion H; subst; cbn; auto.
  - intros H; inversion H; subst; cbn; auto.
Qed.

(* ---- walking the state machine = read_loop ------------------------------------------------------------------ *)
Section Walk.
  Variable unpack : N -> bytes -> list N.

  (* the state reached when `remaining` documents are left: what new / advance establish *)
  Definition sr_at (info : record_option) (skip : bytes) (remaining byte_off prev posoff : N) : option skip_reader :=
    let st := {| sr_last_doc_in_block := TERMINATED; sr_last_doc_in_previous_block := prev;
                 sr_owned_read := skip; sr_skip_info := info; sr_byte_offset := byte_off;
                 sr_remaining_docs := remaining; sr_block_info := VIntBlock remaining; sr_position_offset := posoff |} in
    if BLOCK <=? remaining then sr_read_block_info st else Some st.

  (* load_block on the current state, then advance, ... ; fuel as in read_loop (one unit per bit-packed block);
     a reader whose eager read_block_info failed (None) has panicked *)
  Fixpoint sr_blocks (fuel : nat) (rf : bool) (postings : bytes) (ost : option skip_reader) {struct fuel} : rd (list blk) :=
    match ost with
    | None => match fuel with O => RFuel | S _ => RPanic end
    | Some st =>
        let prev := sr_last_doc_in_previous_block st in
        let posoff := sr_position_offset st in
        match sr_block_info st with
        | VIntBlock remaining =>
            if remaining =? 0 then ROk []
            else
              let n := N.to_nat remaining in
              match vints_sorted_dec prev n (skipn (N.to_nat (sr_byte_offset st)) postings) with
              | None => RPanic
              | Some (docs, rest) =>
                  if rf && negb (is_nil rest)
                  then match vints_dec n rest with
                       | None => RPanic
                       | Some (tfs, _) => ROk [{| b_docs := docs; b_tfs := tfs; b_posoff := posoff; b_last := TERMINATED;
                                                  b_tfsum := 0; b_w := 0; b_tw := 0 |}]
                       end
                  else ROk [{| b_docs := docs; b_tfs := ones n; b_posoff := posoff; b_last := TERMINATED;
                               b_tfsum := 0; b_w := 0; b_tw := 0 |}]
              end
        | BitPacked e =>
            match fuel with
            | O => RFuel
            | S f =>
                let data := skipn (N.to_nat (sr_byte_offset st)) postings in
                let dsz := block_size (se_doc_bits e) in
                let tsz := block_size (se_tf_bits e) in
                if N.of_nat (length data) <? dsz + (if rf then tsz else 0) then RPanic
                else
                  let raw := unpack (se_doc_bits e) (firstn (N.to_nat dsz) data) in
                  let docs := if se_strict e then strict_integrate prev raw else prefix_sums prev raw in
                  let tfs := if rf
                             then map (fun x => if se_strict e then x + 1 else x)
                                      (unpack (se_tf_bits e) (firstn (N.to_nat tsz) (skipn (N.to_nat dsz) data)))
                             else ones BLOCKn in
                  match sr_blocks f rf postings (sr_advance st) with
                  | ROk bs => ROk ({| b_docs := docs; b_tfs := tfs; b_posoff := posoff; b_last := sr_last_doc_in_block st;
                                      b_tfsum := se_tf_sum e; b_w := se_doc_bits e; b_tw := se_tf_bits e |} :: bs)
                  | RPanic => RPanic
                  | RFuel => RFuel
                  end
            end
        end
    end.

  Lemma sr_advance_at info skip e rest remaining byte_off prev posoff :
    BLOCK <=? remaining = true -> parse_entry info skip = Some (e, rest) ->
    forall st, sr_at info skip remaining byte_off prev posoff = Some st ->
    sr_advance st = sr_at info rest (remaining - BLOCK) (byte_off + block_size (se_doc_bits e + se_tf_bits e))
                          (se_last_doc e) (posoff + se_tf_sum e).
  Proof.
    intros Hge Hp st Hst. unfold sr_at, sr_read_block_info in Hst. rewrite Hge in Hst.
    cbn [sr_skip_info sr_owned_read] in Hst. rewrite Hp in Hst. inversion Hst; subst st; clear Hst.
    unfold sr_advance, sr_at. cbn [sr_block_info sr_remaining_docs sr_last_doc_in_block sr_owned_read sr_skip_info
      sr_byte_offset sr_position_offset sr_last_doc_in_previous_block].
    destruct (BLOCK <=? remaining - BLOCK); reflexivity.
  Qed.

  Lemma sr_at_ge info skip remaining byte_off prev posoff :
    (remaining <? BLOCK) = false ->
    sr_at info skip remaining byte_off prev posoff =
    match parse_entry info skip with
    | None => None
    | Some (e, rest) =>
        Some {| sr_last_doc_in_block := se_last_doc e; sr_last_doc_in_previous_block := prev;
                sr_owned_read := rest; sr_skip_info := info; sr_byte_offset := byte_off;
                sr_remaining_docs := remaining; sr_block_info := BitPacked e; sr_position_offset := posoff |}
    end.
  Proof.
    intros E. unfold sr_at, sr_read_block_info. rewrite N.leb_antisym, E. cbn [negb sr_skip_info sr_owned_read
      sr_last_doc_in_previous_block sr_byte_offset sr_remaining_docs sr_position_offset].
    destruct (parse_entry info skip) as [[e rest]|]; reflexivity.
  Qed.

  Lemma sr_at_lt info skip remaining byte_off prev posoff :
    (remaining <? BLOCK) = true ->
    sr_at info skip remaining byte_off prev posoff =
    Some {| sr_last_doc_in_block := TERMINATED; sr_last_doc_in_previous_block := prev;
            sr_owned_read := skip; sr_skip_info := info; sr_byte_offset := byte_off;
            sr_remaining_docs := remaining; sr_block_info := VIntBlock remaining; sr_position_offset := posoff |}.
  Proof. intros E. unfold sr_at. rewrite N.leb_antisym, E. reflexivity. Qed.

  Theorem sr_blocks_is_read_loop : forall fuel info rf skip postings remaining byte_off prev posoff,
    sr_blocks fuel rf postings (sr_at info skip remaining byte_off prev posoff)
    = read_loop unpack fuel info rf skip postings remaining byte_off prev posoff.
  Proof.
    induction fuel as [|f IH]; intros info rf skip postings remaining byte_off prev posoff.
    - cbn [read_loop]. destruct (remaining <? BLOCK) eqn:E.
      + rewrite sr_at_lt by exact E. reflexivity.
      + rewrite sr_at_ge by exact E. destruct (parse_entry info skip) as [[e rest]|]; reflexivity.
    - cbn [read_loop]. destruct (remaining <? BLOCK) eqn:E.
      + rewrite sr_at_lt by exact E. reflexivity.
      + pose proof (sr_advance_at info skip) as Hadv.
        rewrite sr_at_ge in * by exact E.
        destruct (parse_entry info skip) as [[e rest]|] eqn:Hp; [|reflexivity].
        cbn [sr_blocks sr_block_info sr_last_doc_in_previous_block sr_position_offset sr_byte_offset sr_last_doc_in_block].
        destruct (N.of_nat (length (skipn (N.to_nat byte_off) postings)) <?
                  block_size (se_doc_bits e) + (if rf then block_size (se_tf_bits e) else 0)); [reflexivity|].
        rewrite (Hadv e rest remaining byte_off prev posoff); [|rewrite N.leb_antisym, E; reflexivity|reflexivity|].
        2:{ rewrite sr_at_ge by exact E. rewrite Hp. reflexivity. }
        rewrite IH. reflexivity.
  Qed.

  Lemma sr_new_at data doc_freq info : sr_new data doc_freq info = sr_at info data doc_freq 0 0 0.
  Proof.
    unfold sr_new, sr_at, sr_read_block_info. destruct (BLOCK <=? doc_freq) eqn:E; cbn [sr_skip_info sr_owned_read]; [|reflexivity].
    destruct (parse_entry info data) as [[e rest]|]; reflexivity.
  Qed.

  (* BlockSegmentPostings::open, then every block:  exactly Codec.read_blocks *)
  Definition cursor_open_blocks (opt req : record_option) (doc_freq : N) (data : bytes) : rd (list blk) :=
    match split_skips doc_freq data with
    | None => RPanic
    | Some (sk, postings) =>
        let ropt := open_option opt doc_freq sk in
        sr_blocks (N.to_nat (doc_freq / BLOCK)) (read_freq ropt req) postings
                  (sr_new (match sk with Some s => s | None => [] end) doc_freq ropt)
    end.

  Theorem cursor_open_is_read_blocks opt req doc_freq data :
    cursor_open_blocks opt req doc_freq data = read_blocks unpack opt req doc_freq data.
  Proof.
    unfold cursor_open_blocks, read_blocks. destruct (split_skips doc_freq data) as [[sk postings]|]; [|reflexivity].
    cbv zeta. rewrite sr_new_at. apply sr_blocks_is_read_loop.
  Qed.

  (* BlockSegmentPostings::reset(doc_freq, data) on a cursor in ANY state whose SkipReader was created for the
     same record option (the option is decided once, in `open`), then every block: what a fresh cursor reads. *)
  Definition cursor_reset_blocks (old : skip_reader) (req : record_option) (doc_freq : N) (data : bytes) : rd (list blk) :=
    match split_skips doc_freq data with
    | None => RPanic
    | Some (sk, postings) =>
        sr_blocks (N.to_nat (doc_freq / BLOCK)) (read_freq (sr_skip_info old) req) postings
                  (sr_reset old (match sk with Some s => s | None => [] end) doc_freq)
    end.

  Theorem cursor_reset_is_fresh old opt req doc_freq data :
    (forall sk, open_option opt doc_freq sk = sr_skip_info old) ->
    cursor_reset_blocks old req doc_freq data = read_blocks unpack opt req doc_freq data.
  Proof.
    intros Hopt. unfold cursor_reset_blocks, read_blocks.
    destruct (split_skips doc_freq data) as [[sk postings]|]; [|reflexivity].
    cbv zeta. rewrite sr_reset_is_new, sr_new_at, (Hopt sk). apply sr_blocks_is_read_loop.
  Qed.
End Walk.
