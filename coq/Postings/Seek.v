(* Cursor model of SegmentPostings over the block sequence that C07_blocks exposes.
   /repo/src/postings/skip.rs                    SkipReader::{seek, advance, last_doc_in_block, position_offset}
   /repo/src/postings/block_segment_postings.rs  BlockSegmentPostings::{seek, seek_block, advance, load_block, doc, freq}
   /repo/src/postings/compression/mod.rs         BlockDecoder::{with_val, uncompress_vint_sorted (padding), seek_within_block}
   /repo/src/postings/block_search.rs            search_block = kary_search::<8>
   /repo/src/postings/segment_postings.rs        SegmentPostings::{advance, seek, doc, term_freq, append_positions_with_offset}

   `read_loop` of Codec.v IS the sequence  load_block ; advance ; load_block ; ...  of the block reader: its
   result `list blk` lists, for every position of the SkipReader, the decoded documents / term frequencies, the
   skip entry's last_doc and the position offset.  The cursor walks that list:
     - the head of `c_blocks` is the block the SkipReader stands on; SkipReader::advance drops the head;
     - `[]` is the state after the last block: BlockInfo::VInt { num_docs: 0 }, last_doc_in_block = TERMINATED,
       and load_block fills the 128 slots of the doc decoder with the padding TERMINATED (data = &[]).  advance
       keeps it there (remaining_docs = 0 < 128).
   Not modelled (pure caching, no effect on what is returned): block_loaded / block_max_score_cache -- a block is a
   value here, `load_block` is the identity.
   The branchless k-ary in-block search is represented BY ITS SPECIFICATION (block_search.rs, doc comment:
   `arr.iter().take_while(|&&val| val < target).count()`); Postings/SeekProofs.v additionally transliterates
   kary_search::<8> and proves it equal to that specification on every sorted block whose last slot is >= target. *)
From TV Require Import Base.Prelude Generated.Constants Postings.VInt Postings.Codec Postings.Positions Postings.Spec.
Local Open Scope N_scope.

Record cursor := { c_blocks : list blk; c_cur : nat }.

(* SegmentPostings::from_block_postings: cur = 0 on the first block (already loaded by BlockSegmentPostings::open) *)
Definition sp_open (bs : list blk) : cursor := {| c_blocks := bs; c_cur := 0 |}.

(* SkipReader::last_doc_in_block *)
Definition skip_last (bs : list blk) : N := match bs with [] => TERMINATED | b :: _ => b_last b end.

(* doc_decoder.output: always 128 slots.  A bit-packed block fills all of them; uncompress_vint_sorted first fills
   the array with the padding TERMINATED and then writes the num_els documents. *)
Definition pad_docs (docs : list N) : list N := docs ++ repeat TERMINATED (BLOCKn - length docs).
Definition doc_output (bs : list blk) : list N :=
  match bs with [] => pad_docs [] | b :: _ => pad_docs (b_docs b) end.

(* SegmentPostings::doc = block_cursor.doc(cur) = output[cur]  (cur <= 127 is maintained by every operation below:
   SeekProofs.inv; the `nth` default is never used) *)
Definition sp_doc (st : cursor) : N := nth (c_cur st) (doc_output (c_blocks st)) TERMINATED.

(* SegmentPostings::term_freq = freq_decoder.output[cur].  Slots at or after the number of documents of the block
   hold padding or stale values of an earlier block (the VInt{0} state does not touch the freq decoder): they are
   only reachable when doc() = TERMINATED, where term_freq is not observed; the model returns 0 there. *)
Definition sp_term_freq (st : cursor) : N :=
  match c_blocks st with [] => 0 | b :: _ => nth (c_cur st) (b_tfs b) 0 end.

(* SegmentPostings::advance:  if cur == 127 { cur = 0; block_cursor.advance() } else { cur += 1 } *)
Definition sp_advance (st : cursor) : cursor :=
  if (c_cur st =? BLOCKn - 1)%nat then {| c_blocks := tl (c_blocks st); c_cur := 0 |}
  else {| c_blocks := c_blocks st; c_cur := S (c_cur st) |}.

(* SkipReader::seek:  if last_doc_in_block >= target { return false }
                      loop { advance(); if last_doc_in_block >= target { return true } }
   The Rust loop has no bound; the fuel is chosen by skip_seek (one more than the number of blocks left). *)
Fixpoint skip_loop (fuel : nat) (t : N) (bs : list blk) : rd (list blk) :=
  match fuel with
  | O => RFuel
  | S f => let bs' := tl bs in if t <=? skip_last bs' then ROk bs' else skip_loop f t bs'
  end.
Definition skip_seek (t : N) (bs : list blk) : rd (list blk) :=
  if t <=? skip_last bs then ROk bs else skip_loop (S (length bs)) t bs.

(* search_block(arr, target), by its specification: the number of leading slots below the target *)
Fixpoint count_lt (t : N) (arr : list N) : nat :=
  match arr with [] => 0%nat | x :: r => if x <? t then S (count_lt t r) else 0%nat end.

(* SegmentPostings::seek:
     if doc() >= target { return doc() }
     cur = min(cur + 1, 127); if doc() >= target { return doc() }
     cur = block_cursor.seek(target)      // seek_block ; load_block ; seek_within_block
     doc()                                // output[cur]: index out of bounds when the search returns 128 *)
Definition sp_seek (t : N) (st : cursor) : rd cursor :=
  if t <=? sp_doc st then ROk st
  else
    let st1 := {| c_blocks := c_blocks st; c_cur := Nat.min (S (c_cur st)) (BLOCKn - 1) |} in
    if t <=? sp_doc st1 then ROk st1
    else match skip_seek t (c_blocks st) with
         | ROk bs' => let idx := count_lt t (doc_output bs') in
                      if (BLOCKn <=? idx)%nat then RPanic else ROk {| c_blocks := bs'; c_cur := idx |}
         | RPanic => RPanic
         | RFuel => RFuel
         end.

Definition sp_step (st : cursor) (o : op) : rd cursor :=
  match o with OAdvance => ROk (sp_advance st) | OSeek t => sp_seek t st end.

(* what a caller observes after a call: doc(), and term_freq() when standing on a document *)
Definition sp_observe (st : cursor) : N * N :=
  let d := sp_doc st in (d, if d =? TERMINATED then 0 else sp_term_freq st).

Fixpoint sp_run (st : cursor) (prog : list op) : rd (list (N * N)) :=
  match prog with
  | [] => ROk []
  | o :: r => match sp_step st o with
              | ROk st' => match sp_run st' r with
                           | ROk obs => ROk (sp_observe st' :: obs)
                           | RPanic => RPanic
                           | RFuel => RFuel
                           end
              | RPanic => RPanic
              | RFuel => RFuel
              end
  end.

(* the state reached by a program (for statements about positions on the current document) *)
Fixpoint sp_exec (st : cursor) (prog : list op) : rd cursor :=
  match prog with
  | [] => ROk st
  | o :: r => match sp_step st o with ROk st' => sp_exec st' r | RPanic => RPanic | RFuel => RFuel end
  end.

(* SegmentPostings::append_positions_with_offset(0, ..) on the current document:
     read_offset = block_cursor.position_offset() + sum(freqs()[..cur]);  position_reader.read(read_offset, tf);  cum += delta *)
Definition sp_read_offset (st : cursor) : N :=
  match c_blocks st with [] => 0 | b :: _ => b_posoff b + sum (firstn (c_cur st) (b_tfs b)) end.
Definition sp_positions (unpack : N -> bytes -> list N) (pos_data : bytes) (st : cursor) : rd (list N) :=
  match c_blocks st with
  | [] => RPanic      (* not called on TERMINATED *)
  | b :: _ => positions_of unpack pos_data (b_posoff b) (firstn (c_cur st) (b_tfs b)) (sp_term_freq st)
  end.

(* ---- block_search.rs::kary_search::<8>, transliterated ------------------------------------------------------
   base = 0; range = 128;
   loop { step = range / 8; if step == 0 { break }
          count = #{ i in 1..8 : arr[base + i*step - 1] < target }; base += count * step; range = step }
   count = #{ i in 0..range : arr[base + i] < target };  base + count
   With range = 128 the reductions are 128 -> 16 -> 2, then a scan of 2 slots. *)
Definition lt_count (arr : list N) (t : N) (idxs : list nat) : nat :=
  length (filter (fun i => nth i arr 0 <? t) idxs).
Definition KARY : nat := 8.
(* the reduction loop; fuel: `range` strictly decreases *)
Fixpoint kary_loop (fuel : nat) (arr : list N) (t : N) (base range : nat) : nat * nat :=
  match fuel with
  | O => (base, range)
  | S f => let step := Nat.div range KARY in
           if (step =? 0)%nat then (base, range)
           else let count := lt_count arr t (map (fun i => base + i * step - 1)%nat (seq 1 (KARY - 1))) in
                kary_loop f arr t (base + count * step) step
  end.
Definition kary_search8 (arr : list N) (t : N) : nat :=
  let '(base, range) := kary_loop BLOCKn arr t 0 BLOCKn in
  (base + lt_count arr t (map (fun i => base + i)%nat (seq 0 range)))%nat.
