(* Non-vacuity examples and a harness-facing entry point for the cursor model (Postings/Seek.v): the concrete
   BitPacker4x layout of Postings/BP4x.v is plugged in; nothing here is used by a theorem. *)
From TV Require Import Base.Prelude Generated.Constants Postings.VInt Postings.Codec Postings.BP4x Postings.Positions
     Postings.Spec Postings.Cases Postings.Seek Postings.PositionsProofs Postings.SeekProofs.
Local Open Scope N_scope.

(* tie (model side): the cursor model, run on the bytes the implementation's PostingsSerializer wrote, against the
   (doc, term_freq) pairs the implementation's SegmentPostings returned for the same program *)
Definition rd_obs_eqb (r : rd (list (N * N))) (observed : list (N * N)) : bool :=
  match r with ROk o => list_eqb obs_eqb o observed | _ => false end.
Definition seek_model_case (opt req : N) (rtf : bool) (doc_freq : N) (data : bytes) (prog : list op)
           (observed : list (N * N)) : bool :=
  match read_blocks bp4x_unpack (ro opt) (ro req) doc_freq data with
  | ROk bs => rd_obs_eqb (sp_run (sp_open bs) prog) observed
  | _ => false
  end.
(* tie (model side): positions() of the document reached by a program *)
Definition seek_positions_case (opt req : N) (doc_freq : N) (data pos_data : bytes) (prog : list op)
           (observed : list N) : bool :=
  match read_blocks bp4x_unpack (ro opt) (ro req) doc_freq data with
  | ROk bs => match sp_exec (sp_open bs) prog with
              | ROk st => rd_list_eqb (sp_positions bp4x_unpack pos_data st) observed
              | _ => false
              end
  | _ => false
  end.

(* 300 documents = 2 full blocks + a VInt tail of 44; doc i = i^2 + 7, tf = 1 + i mod 5 *)
Definition sk_list : list (N * N) := map (fun i => (N.of_nat i * N.of_nat i + 7, 1 + N.of_nat i mod 5)) (seq 0 300).
Definition sk_prog : list op :=
  [OSeek 0; OAdvance; OSeek 7; OSeek 16135; OSeek 16136; OAdvance; OSeek 16391; OSeek 16392; OSeek 20000; OSeek 20000;
   OAdvance; OSeek 65031; OSeek 65033; OAdvance; OSeek 89407; OAdvance; OSeek 89408; OSeek TERMINATED; OAdvance; OSeek 5].
Example ex_seek_program :
  forallb (fun o => seek_model_case o o true 300 (serialize bp4x_pack (fun _ => (3, 9)) (ro o) true sk_list) sk_prog
                      (run_list (project (has_freq (ro o)) sk_list) sk_prog)) [0; 1; 2] = true.
Proof. vm_compute. reflexivity. Qed.
Example ex_seek_observations :
  sp_run (sp_open (expect 2 WithFreqs true true 0 0 sk_list)) [OSeek 16136; OAdvance; OSeek 89408; OAdvance]
  = ROk [(16136, 3); (16391, 4); (89408, 5); (TERMINATED, 0)].
Proof. vm_compute. reflexivity. Qed.

(* exactly 256 documents: no VInt block; the state after the last block is the all-TERMINATED block *)
Example ex_seek_exact_blocks :
  let l := firstn 256 sk_list in
  seek_model_case 1 1 true 256 (serialize bp4x_pack (fun _ => (3, 9)) WithFreqs true l)
                  [OSeek 65032; OAdvance; OAdvance; OSeek TERMINATED] (run_list l [OSeek 65032; OAdvance; OAdvance; OSeek TERMINATED]) = true.
Proof. vm_compute. reflexivity. Qed.

(* a target above TERMINATED: out of fuel (the Rust loop does not return) *)
Example ex_seek_above_terminated :
  sp_seek (TERMINATED + 1) (sp_open (expect 2 WithFreqs true true 0 0 sk_list)) = RFuel.
Proof. vm_compute. reflexivity. Qed.

(* positions: document i has tf = 1 + i mod 5 positions  i, i + 3, i + 6, ... *)
Definition sk_pss : list (list N) :=
  map (fun i => map (fun j => N.of_nat i + 3 * N.of_nat j) (seq 0 (S (Nat.modulo i 5)))) (seq 0 300).
Example ex_seek_positions :
  let data := serialize bp4x_pack (fun _ => (3, 9)) WithFreqsAndPositions true sk_list in
  let pos := pos_serialize bp4x_pack (term_deltas sk_pss) in
  map snd sk_list = map tf_of sk_pss /\
  seek_positions_case 2 2 300 data pos [OSeek 16136] (nth 127 sk_pss []) = true /\
  seek_positions_case 2 2 300 data pos [OSeek 16136; OAdvance] (nth 128 sk_pss []) = true /\
  seek_positions_case 2 2 300 data pos [OSeek 30000; OAdvance; OAdvance] (nth 176 sk_pss []) = true /\
  seek_positions_case 2 2 300 data pos [OSeek 89408] (nth 299 sk_pss []) = true.
Proof. vm_compute. repeat split; reflexivity. Qed.

(* the transliterated 8-ary search on a padded block *)
Example ex_kary :
  let arr := pad_docs (map (fun i => 3 * N.of_nat i + 1) (seq 0 100)) in
  forallb (fun t => Nat.eqb (kary_search8 arr t) (count_lt t arr)) [0; 1; 2; 4; 5; 150; 151; 298; 299; TERMINATED] = true.
Proof. vm_compute. reflexivity. Qed.

Print Assumptions pos_read_serialize.
Print Assumptions positions_of_kth.
Print Assumptions sp_run_blocks.
Print Assumptions seek_list_semantics.
Print Assumptions sp_positions_list.
Print Assumptions seek_positions_roundtrip.
Print Assumptions kary_search8_spec.
Print Assumptions sp_seek_kary_eq.
Print Assumptions sp_seek_above_terminated_never_returns.
